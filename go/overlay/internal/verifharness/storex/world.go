//go:build verif

// Package storex is the shared part of the state-store correspondence harnesses (C03, C04 and the
// later store properties): it drives a REAL fsm.FSM / state.Store with real structs requests,
// prints canonical results and canonical dumps of the modelled tables (kvs, tombstones, sessions,
// session_checks, nodes, services, checks, prepared-queries, index table, lock-delay keys) and maps
// Go errors onto the small enum the Lean model (CV.Store) uses. See lean/CV/Engine/StoreCore.lean
// for the line protocol.
package storex

import (
	"fmt"
	"os"
	"sort"
	"strings"
	"time"

	"github.com/hashicorp/go-hclog"
	"github.com/hashicorp/raft"

	"github.com/hashicorp/consul/agent/consul/fsm"
	"github.com/hashicorp/consul/agent/consul/state"
	"github.com/hashicorp/consul/agent/structs"
	"github.com/hashicorp/consul/api"
	"github.com/hashicorp/consul/internal/verifharness/hx"
	"github.com/hashicorp/consul/types"
)

// ---------------------------------------------------------------- operations

type KVArg struct {
	Verb    string // set cas delete delete-cas delete-tree lock unlock (+ txn-only read/check verbs)
	Key     string
	Val     []byte
	Flags   uint64
	Session string
	LockIdx uint64
	ModIdx  uint64
}

type SessArg struct {
	ID, Node, Name, Behavior string
	LockDelay                int // seconds
	Checks                   []string
}

type NodeArg struct {
	Name, ID, Addr string
	ModIdx         uint64
}

type SvcArg struct {
	Node, ID, Name string
	Port           int
	ModIdx         uint64
}

type ChkArg struct {
	Node, ID, Status, SvcID, Type, SessName, Output string
	ModIdx                                          uint64
}

type RegArg struct {
	Node   NodeArg
	Svc    *SvcArg
	Checks []ChkArg
}

type TxnOpArg struct {
	Fam    byte // 'k' 'n' 's' 'c' 'x'
	Verb   string
	KV     *KVArg
	Node   *NodeArg
	Svc    *SvcArg
	Chk    *ChkArg
	SessID string
}

// Op is one committed Raft entry.
type Op struct {
	Kind   string // kv sc sd reg dereg reap pqs pqd txn
	Idx    uint64
	KV     *KVArg
	Sess   *SessArg
	SessID string
	Reg    *RegArg
	Dereg  [3]string // node, service id, check id
	Reap   uint64
	PQ     [2]string // id, session
	Txn    []TxnOpArg
	ViaFSM bool // through fsm.Apply with an encoded raft.Log, else through the Store method
}

func kvTokens(a *KVArg) string {
	return fmt.Sprintf("%s %s %d %s %d %d", hx.EncS(a.Key), hx.EncB(a.Val), a.Flags, hx.EncS(a.Session), a.LockIdx, a.ModIdx)
}

func plusList(ss []string) string {
	if len(ss) == 0 {
		return "-"
	}
	t := make([]string, len(ss))
	for i, s := range ss {
		t[i] = hx.EncS(s)
	}
	return strings.Join(t, "+")
}

func chkFields(c *ChkArg) string {
	return fmt.Sprintf("%s;%s;%s;%s;%s;%s;%s", hx.EncS(c.Node), hx.EncS(c.ID), hx.EncS(c.Status), hx.EncS(c.SvcID),
		hx.EncS(c.Type), hx.EncS(c.SessName), hx.EncS(c.Output))
}

func (t *TxnOpArg) token() string {
	switch t.Fam {
	case 'k':
		a := t.KV
		return fmt.Sprintf("k;%s;%s;%s;%d;%s;%d;%d", t.Verb, hx.EncS(a.Key), hx.EncB(a.Val), a.Flags, hx.EncS(a.Session), a.LockIdx, a.ModIdx)
	case 'n':
		n := t.Node
		return fmt.Sprintf("n;%s;%s;%s;%s;%d", t.Verb, hx.EncS(n.Name), hx.EncS(n.ID), hx.EncS(n.Addr), n.ModIdx)
	case 's':
		s := t.Svc
		return fmt.Sprintf("s;%s;%s;%s;%s;%d;%d", t.Verb, hx.EncS(s.Node), hx.EncS(s.ID), hx.EncS(s.Name), s.Port, s.ModIdx)
	case 'c':
		return fmt.Sprintf("c;%s;%s;%d", t.Verb, chkFields(t.Chk), t.Chk.ModIdx)
	default:
		return "x;" + hx.EncS(t.SessID)
	}
}

// Line renders the operation in the line protocol of the Lean engine.
func (o *Op) Line() string {
	switch o.Kind {
	case "kv":
		return fmt.Sprintf("kv %s %d %s", o.KV.Verb, o.Idx, kvTokens(o.KV))
	case "sc":
		s := o.Sess
		return fmt.Sprintf("sc %d %s %s %s %s %d %s", o.Idx, hx.EncS(s.ID), hx.EncS(s.Node), hx.EncS(s.Name), hx.EncS(s.Behavior), s.LockDelay, plusList(s.Checks))
	case "sd":
		return fmt.Sprintf("sd %d %s", o.Idx, hx.EncS(o.SessID))
	case "reg":
		r := o.Reg
		svc := "-"
		if r.Svc != nil {
			svc = fmt.Sprintf("%s;%s;%d", hx.EncS(r.Svc.ID), hx.EncS(r.Svc.Name), r.Svc.Port)
		}
		cs := make([]string, len(r.Checks))
		for i := range r.Checks {
			cs[i] = chkFields(&r.Checks[i])
		}
		return fmt.Sprintf("reg %d %s %s %s %s %s", o.Idx, hx.EncS(r.Node.Name), hx.EncS(r.Node.ID), hx.EncS(r.Node.Addr), svc, hx.EncList(cs))
	case "dereg":
		return fmt.Sprintf("dereg %d %s %s %s", o.Idx, hx.EncS(o.Dereg[0]), hx.EncS(o.Dereg[1]), hx.EncS(o.Dereg[2]))
	case "reap":
		return fmt.Sprintf("reap %d %d", o.Idx, o.Reap)
	case "pqs":
		return fmt.Sprintf("pqs %d %s %s", o.Idx, hx.EncS(o.PQ[0]), hx.EncS(o.PQ[1]))
	case "pqd":
		return fmt.Sprintf("pqd %d %s", o.Idx, hx.EncS(o.PQ[0]))
	case "txn":
		ts := make([]string, len(o.Txn))
		for i := range o.Txn {
			ts[i] = o.Txn[i].token()
		}
		return fmt.Sprintf("txn %d %s", o.Idx, hx.EncList(ts))
	}
	panic("unknown op kind " + o.Kind)
}

// ---------------------------------------------------------------- the real implementation

type World struct {
	F *fsm.FSM
}

func NewWorld() *World {
	f := fsm.NewFromDeps(fsm.Deps{
		Logger:         hclog.NewNullLogger(),
		NewStateStore:  func() *state.Store { return state.NewStateStore(nil) },
		StorageBackend: fsm.NullStorageBackend,
	})
	return &World{F: f}
}

func (w *World) Store() *state.Store { return w.F.State() }

func dirEnt(a *KVArg) structs.DirEntry {
	return structs.DirEntry{Key: a.Key, Value: a.Val, Flags: a.Flags, Session: a.Session, LockIndex: a.LockIdx,
		RaftIndex: structs.RaftIndex{ModifyIndex: a.ModIdx}}
}

func sessionOf(s *SessArg) structs.Session {
	x := structs.Session{ID: s.ID, Node: s.Node, Name: s.Name, Behavior: structs.SessionBehavior(s.Behavior),
		LockDelay: time.Duration(s.LockDelay) * time.Second}
	// spread the check ids over the two fields Session.CheckIDs() merges (Checks first, then NodeChecks)
	for i, c := range s.Checks {
		if i == 0 && len(s.Checks) > 1 {
			x.Checks = append(x.Checks, types.CheckID(c))
		} else {
			x.NodeChecks = append(x.NodeChecks, c)
		}
	}
	return x
}

func nodeOf(n *NodeArg) structs.Node {
	return structs.Node{Node: n.Name, ID: types.NodeID(n.ID), Address: n.Addr, RaftIndex: structs.RaftIndex{ModifyIndex: n.ModIdx}}
}

func svcOf(s *SvcArg) structs.NodeService {
	return structs.NodeService{ID: s.ID, Service: s.Name, Port: s.Port, RaftIndex: structs.RaftIndex{ModifyIndex: s.ModIdx}}
}

func chkOf(c *ChkArg) structs.HealthCheck {
	h := structs.HealthCheck{Node: c.Node, CheckID: types.CheckID(c.ID), Status: c.Status, ServiceID: c.SvcID,
		Type: c.Type, Output: c.Output, RaftIndex: structs.RaftIndex{ModifyIndex: c.ModIdx}}
	h.Definition.SessionName = c.SessName
	return h
}

func txnOps(ts []TxnOpArg) structs.TxnOps {
	var ops structs.TxnOps
	for i := range ts {
		t := &ts[i]
		switch t.Fam {
		case 'k':
			ops = append(ops, &structs.TxnOp{KV: &structs.TxnKVOp{Verb: api.KVOp(t.Verb), DirEnt: dirEnt(t.KV)}})
		case 'n':
			ops = append(ops, &structs.TxnOp{Node: &structs.TxnNodeOp{Verb: api.NodeOp(t.Verb), Node: nodeOf(t.Node)}})
		case 's':
			ops = append(ops, &structs.TxnOp{Service: &structs.TxnServiceOp{Verb: api.ServiceOp(t.Verb), Node: t.Svc.Node, Service: svcOf(t.Svc)}})
		case 'c':
			ops = append(ops, &structs.TxnOp{Check: &structs.TxnCheckOp{Verb: api.CheckOp(t.Verb), Check: chkOf(t.Chk)}})
		default:
			ops = append(ops, &structs.TxnOp{Session: &structs.TxnSessionOp{Verb: api.SessionDelete, Session: structs.Session{ID: t.SessID}}})
		}
	}
	return ops
}

func (w *World) fsmApply(idx uint64, t structs.MessageType, req any) any {
	buf, err := structs.Encode(t, req)
	if err != nil {
		panic(err)
	}
	return w.F.Apply(&raft.Log{Index: idx, Term: 1, Type: raft.LogCommand, Data: buf})
}

// MapErr maps a Go error onto the model's error enum.
func MapErr(err error) string {
	m := err.Error()
	if os.Getenv("VERIF_DEBUG") != "" {
		fmt.Fprintln(os.Stderr, "ERR:", m)
	}
	has := func(s string) bool { return strings.Contains(m, s) }
	switch {
	case has("in read-only transaction"):
		return "read-only"
	case has("index is stale"):
		return "cas-stale"
	case has("lock is already held"):
		return "lock-held"
	case has("lock isn't held"):
		return "unlock-failed"
	case has("failed session check"):
		return "session-check-failed"
	case has("failed index check"):
		return "index-check-failed"
	case has("key ") && has(" exists"):
		return "key-exists"
	case has("key ") && has("doesn't exist"):
		return "key-missing"
	case has("service ") && has("doesn't exist"):
		return "service-missing"
	case has("check ") && has("doesn't exist"):
		return "check-missing"
	case has("node ") && has("doesn't exist"):
		return "node-missing"
	case has("object is missing a value for this index"):
		return "empty-key"
	case has("Missing session ID"):
		return "missing-session-id"
	case has("missing session"):
		return "missing-session"
	case has("invalid session"):
		return "invalid-session"
	case has("Invalid session behavior"):
		return "bad-behavior"
	case has("Missing node registration"):
		return "missing-node"
	case has("Missing service registration"):
		return "missing-service"
	case has("Missing check '"):
		return "missing-check"
	case has("' is in critical state"):
		return "check-critical"
	case has("is reserved by node"):
		return "node-name-reserved"
	case has("does not match node"):
		return "check-node-mismatch"
	case has("Missing Query ID"):
		return "missing-query-id"
	}
	return "unmapped(" + hx.EncS(m) + ")"
}

func canonAny(v any) string {
	switch x := v.(type) {
	case nil:
		return "ok"
	case error:
		return "err:" + MapErr(x)
	case bool:
		if x {
			return "true"
		}
		return "false"
	case string: // session create returns the session id
		return "ok"
	case structs.TxnResponse:
		return canonTxn(x.Results, x.Errors)
	}
	return fmt.Sprintf("unexpected(%T)", v)
}

func canonBool(b bool, err error) string {
	if err != nil {
		return "err:" + MapErr(err)
	}
	return canonAny(b)
}

func canonErr(err error) string {
	if err != nil {
		return "err:" + MapErr(err)
	}
	return "ok"
}

func canonTxn(res structs.TxnResults, errs structs.TxnErrors) string {
	if len(errs) > 0 {
		t := make([]string, len(errs))
		for i, e := range errs {
			t[i] = fmt.Sprintf("%d:%s", e.OpIndex, MapErr(fmt.Errorf("%s", e.What)))
		}
		return "errs:" + hx.EncList(t)
	}
	t := make([]string, 0, len(res))
	for _, r := range res {
		switch {
		case r.KV != nil:
			e := r.KV
			s := fmt.Sprintf("k:%s;%d;%s;%d;%d;%d", hx.EncS(e.Key), e.Flags, hx.EncS(e.Session), e.LockIndex, e.CreateIndex, e.ModifyIndex)
			if len(e.Value) > 0 { // values are printed by the read verbs only; empty = absent
				s += ";" + hx.EncB(e.Value)
			}
			t = append(t, s)
		case r.Node != nil:
			n := r.Node
			t = append(t, fmt.Sprintf("n:%s;%s;%s;%d;%d", hx.EncS(n.Node), hx.EncS(string(n.ID)), hx.EncS(n.Address), n.CreateIndex, n.ModifyIndex))
		case r.Service != nil:
			s := r.Service
			t = append(t, fmt.Sprintf("s:%s;%s;%d;%d;%d", hx.EncS(s.ID), hx.EncS(s.Service), s.Port, s.CreateIndex, s.ModifyIndex))
		case r.Check != nil:
			c := r.Check
			t = append(t, fmt.Sprintf("c:%s;%s;%s;%s;%d;%d", hx.EncS(string(c.CheckID)), hx.EncS(c.Status), hx.EncS(c.ServiceID), hx.EncS(c.ServiceName), c.CreateIndex, c.ModifyIndex))
		default:
			t = append(t, "?")
		}
	}
	return "ok:" + hx.EncList(t)
}

// Exec runs one operation against the real implementation and returns the canonical result.
func (w *World) Exec(o *Op) (out string) {
	defer func() {
		if r := recover(); r != nil {
			out = fmt.Sprintf("panic(%s)", hx.EncS(fmt.Sprint(r)))
		}
	}()
	st := w.Store()
	switch o.Kind {
	case "kv":
		d := dirEnt(o.KV)
		if o.ViaFSM {
			return canonAny(w.fsmApply(o.Idx, structs.KVSRequestType, &structs.KVSRequest{Op: api.KVOp(o.KV.Verb), DirEnt: d}))
		}
		switch o.KV.Verb {
		case "set":
			return canonErr(st.KVSSet(o.Idx, &d))
		case "cas":
			return canonBool(st.KVSSetCAS(o.Idx, &d))
		case "delete":
			return canonErr(st.KVSDelete(o.Idx, d.Key, nil))
		case "delete-cas":
			return canonBool(st.KVSDeleteCAS(o.Idx, d.ModifyIndex, d.Key, nil))
		case "delete-tree":
			return canonErr(st.KVSDeleteTree(o.Idx, d.Key, nil))
		case "lock":
			return canonBool(st.KVSLock(o.Idx, &d))
		case "unlock":
			return canonBool(st.KVSUnlock(o.Idx, &d))
		}
		panic("bad kv verb " + o.KV.Verb)
	case "sc":
		s := sessionOf(o.Sess)
		if o.ViaFSM {
			return canonAny(w.fsmApply(o.Idx, structs.SessionRequestType, &structs.SessionRequest{Op: structs.SessionCreate, Session: s}))
		}
		return canonErr(st.SessionCreate(o.Idx, &s))
	case "sd":
		if o.ViaFSM {
			return canonAny(w.fsmApply(o.Idx, structs.SessionRequestType, &structs.SessionRequest{Op: structs.SessionDestroy, Session: structs.Session{ID: o.SessID}}))
		}
		return canonErr(st.SessionDestroy(o.Idx, o.SessID, nil))
	case "reg":
		r := o.Reg
		req := &structs.RegisterRequest{Node: r.Node.Name, ID: types.NodeID(r.Node.ID), Address: r.Node.Addr}
		if r.Svc != nil {
			s := svcOf(r.Svc)
			req.Service = &s
		}
		for i := range r.Checks {
			c := chkOf(&r.Checks[i])
			req.Checks = append(req.Checks, &c)
		}
		if o.ViaFSM {
			return canonAny(w.fsmApply(o.Idx, structs.RegisterRequestType, req))
		}
		return canonErr(st.EnsureRegistration(o.Idx, req))
	case "dereg":
		if o.ViaFSM {
			return canonAny(w.fsmApply(o.Idx, structs.DeregisterRequestType, &structs.DeregisterRequest{Node: o.Dereg[0], ServiceID: o.Dereg[1], CheckID: types.CheckID(o.Dereg[2])}))
		}
		switch {
		case o.Dereg[1] != "":
			return canonErr(st.DeleteService(o.Idx, o.Dereg[0], o.Dereg[1], nil, ""))
		case o.Dereg[2] != "":
			return canonErr(st.DeleteCheck(o.Idx, o.Dereg[0], types.CheckID(o.Dereg[2]), nil, ""))
		default:
			return canonErr(st.DeleteNode(o.Idx, o.Dereg[0], nil, ""))
		}
	case "reap":
		if o.ViaFSM {
			return canonAny(w.fsmApply(o.Idx, structs.TombstoneRequestType, &structs.TombstoneRequest{Op: structs.TombstoneReap, ReapIndex: o.Reap}))
		}
		return canonErr(st.ReapTombstones(o.Idx, o.Reap))
	case "pqs":
		q := &structs.PreparedQuery{ID: o.PQ[0], Session: o.PQ[1], Service: structs.ServiceQuery{Service: "web"}}
		if o.ViaFSM {
			return canonAny(w.fsmApply(o.Idx, structs.PreparedQueryRequestType, &structs.PreparedQueryRequest{Op: structs.PreparedQueryCreate, Query: q}))
		}
		return canonErr(st.PreparedQuerySet(o.Idx, q))
	case "pqd":
		if o.ViaFSM {
			return canonAny(w.fsmApply(o.Idx, structs.PreparedQueryRequestType, &structs.PreparedQueryRequest{Op: structs.PreparedQueryDelete, Query: &structs.PreparedQuery{ID: o.PQ[0]}}))
		}
		return canonErr(st.PreparedQueryDelete(o.Idx, o.PQ[0]))
	case "txn":
		ops := txnOps(o.Txn)
		if o.ViaFSM {
			return canonAny(w.fsmApply(o.Idx, structs.TxnRequestType, &structs.TxnRequest{Ops: ops}))
		}
		res, errs := st.TxnRW(o.Idx, ops)
		return canonTxn(res, errs)
	}
	panic("unknown op kind " + o.Kind)
}

// ---------------------------------------------------------------- observation

// Snap is what the harness can observe of the implementation after a command.
type Snap struct {
	T      state.VerifStoreTables
	Delays []string // keys with a pending lock delay (leader-local)
}

func (w *World) Observe(keyUniverse []string) *Snap {
	s := &Snap{T: w.Store().VerifStoreTables()}
	seen := map[string]bool{}
	for _, k := range keyUniverse {
		if !seen[k] && !w.Store().KVSLockDelay(k, nil).IsZero() {
			s.Delays = append(s.Delays, k)
		}
		seen[k] = true
	}
	sort.Strings(s.Delays)
	return s
}

func showKV(e *structs.DirEntry) string {
	return fmt.Sprintf("%s;%s;%d;%s;%d;%d;%d", hx.EncS(e.Key), hx.EncB(e.Value), e.Flags, hx.EncS(e.Session), e.LockIndex, e.CreateIndex, e.ModifyIndex)
}

func mapList[T any](xs []T, f func(T) string) string {
	t := make([]string, len(xs))
	for i, x := range xs {
		t[i] = f(x)
	}
	return hx.EncList(t)
}

// UnmodelledIndexRow says whether an index-table row belongs to a table family the store model does
// not cover yet (listed explicitly; everything else is compared verbatim).
func UnmodelledIndexRow(key string) bool {
	return strings.HasPrefix(key, "kind_service_names")
}

// Dump renders the snapshot exactly like CV.Engine.StoreCore.dump.
func (s *Snap) Dump() string {
	t := &s.T
	var idx []*state.IndexEntry
	for _, r := range t.Index {
		if !UnmodelledIndexRow(strings.ToLower(r.Key)) {
			idx = append(idx, r)
		}
	}
	parts := []string{
		"kvs=" + mapList(t.KVs, showKV),
		"tombs=" + mapList(t.Tombstones, func(x *state.Tombstone) string { return fmt.Sprintf("%s;%d", hx.EncS(x.Key), x.Index) }),
		"sessions=" + mapList(t.Sessions, func(x *structs.Session) string {
			var cs []string
			for _, c := range x.CheckIDs() {
				cs = append(cs, string(c))
			}
			return fmt.Sprintf("%s;%s;%s;%s;%s;%d;%d;%d", hx.EncS(x.ID), hx.EncS(x.Node), hx.EncS(x.Name), string(x.Behavior),
				plusList(cs), int(x.LockDelay/time.Second), x.CreateIndex, x.ModifyIndex)
		}),
		"schecks=" + mapList(t.SessionChecks, func(m state.VerifSessionCheck) string {
			return fmt.Sprintf("%s;%s;%s", hx.EncS(m.Node), hx.EncS(m.CheckID), hx.EncS(m.Session))
		}),
		"nodes=" + mapList(t.Nodes, func(n *structs.Node) string {
			return fmt.Sprintf("%s;%s;%s;%d;%d", hx.EncS(n.Node), hx.EncS(string(n.ID)), hx.EncS(n.Address), n.CreateIndex, n.ModifyIndex)
		}),
		"svcs=" + mapList(t.Services, func(v *structs.ServiceNode) string {
			return fmt.Sprintf("%s;%s;%s;%d;%d;%d", hx.EncS(v.Node), hx.EncS(v.ServiceID), hx.EncS(v.ServiceName), v.ServicePort, v.CreateIndex, v.ModifyIndex)
		}),
		"chks=" + mapList(t.Checks, func(c *structs.HealthCheck) string {
			return fmt.Sprintf("%s;%s;%s;%s;%s;%s;%s;%s;%d;%d", hx.EncS(c.Node), hx.EncS(string(c.CheckID)), hx.EncS(c.Status), hx.EncS(c.ServiceID),
				hx.EncS(c.ServiceName), hx.EncS(c.Type), hx.EncS(c.Definition.SessionName), hx.EncS(c.Output), c.CreateIndex, c.ModifyIndex)
		}),
		"pq=" + mapList(t.Queries, func(q *structs.PreparedQuery) string {
			return fmt.Sprintf("%s;%s;%d;%d", hx.EncS(q.ID), hx.EncS(q.Session), q.CreateIndex, q.ModifyIndex)
		}),
		"index=" + mapList(idx, func(r *state.IndexEntry) string { return fmt.Sprintf("%s;%d", hx.EncS(strings.ToLower(r.Key)), r.Value) }),
		"delays=" + mapList(s.Delays, hx.EncS),
	}
	return strings.Join(parts, " ")
}

// GetLine / ListLine run the real read paths and render them like the engine's `get` / `list`.
func (w *World) GetLine(key string) (string, string) {
	idx, e, err := w.Store().KVSGet(nil, key, nil)
	op := "get " + hx.EncS(key)
	switch {
	case err != nil:
		return op, "err:" + MapErr(err)
	case e == nil:
		return op, fmt.Sprintf("idx=%d -", idx)
	}
	return op, fmt.Sprintf("idx=%d %s", idx, showKV(e))
}

func (w *World) ListLine(prefix string) (string, string) {
	idx, es, err := w.Store().KVSList(nil, prefix, nil)
	op := "list " + hx.EncS(prefix)
	if err != nil {
		return op, "err:" + MapErr(err)
	}
	return op, fmt.Sprintf("idx=%d %s", idx, mapList([]*structs.DirEntry(es), showKV))
}
