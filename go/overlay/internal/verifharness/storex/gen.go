//go:build verif

package storex

import (
	"strings"

	"github.com/hashicorp/consul/internal/verifharness/hx"
)

// ---------------------------------------------------------------- name universes (chosen to collide)

var Keys = []string{"k", "a", "a/", "a/b", "a/b/", "a/bc", "ab", "a\x00", "é", "A", "b", "\xff\xfe", "a\x00b", "\x00"}
var Prefixes = []string{"", "a", "a/", "a/b", "ab", "é", "\xc3", "b", "z", "A", "\xff"}

// NulPrefixes are prefixes that end in / consist of NUL bytes; they are generated only when a profile asks
// for them (the prefix scan matches the NUL-terminated index key, see CV.Store.KV).
var NulPrefixes = []string{"a\x00", "\x00"}

var Sessions = []string{
	"aaaaaaaa-0000-0000-0000-000000000001",
	"aaaaaaaa-0000-0000-0000-000000000002",
	"bbbbbbbb-0000-0000-0000-00000000000a",
	"0a0a0a0a-1111-2222-3333-444444444444",
}

// a session id that differs from Sessions[0] only in case (memdb folds case in the session indexes)
var SessionUpper = strings.ToUpper(Sessions[0])

var NodeNames = []string{"n1", "N1", "n2", "n3"}
var NodeIDs = []string{"", "11111111-aaaa-0000-0000-000000000001", "11111111-aaaa-0000-0000-000000000002", "22222222-aaaa-0000-0000-000000000003"}
var Addrs = []string{"10.0.0.1", "10.0.0.2"}
// id, name. No two service IDs differ only in case: a check whose ServiceID is spelled "Web" while the
// service row says "web" makes the commit-time event builder (catalog_events.go
// newServiceHealthEventForService) fail with ErrMissingService when that service is deregistered, and the
// whole command is then refused; event generation is outside the store model (reported as a finding).
var Services = [][2]string{{"web", "web"}, {"web2", "web"}, {"db", "db"}, {"api", "Web"}}
var CheckIDs = []string{"c1", "c2", "serfHealth", "sc1", "C1"}
var Statuses = []string{"passing", "passing", "warning", "critical", ""}
var SessNames = []string{"lockA", "lockB", ""}
var QueryIDs = []string{"cccccccc-0000-0000-0000-000000000001", "cccccccc-0000-0000-0000-000000000002"}
var Values = [][]byte{nil, []byte("v1"), []byte("v2"), {0, 255}, []byte("long value with spaces")}

// Profile weights the operation kinds of a generated history.
type Profile struct {
	Name       string
	W          map[string]int // kv sc sd reg dereg reap pqs pqd txn
	KVVerbs    map[string]int
	NulPrefix  bool // also generate prefixes ending in NUL
	EmptyKeyPc int  // percentage of KV ops on the empty key (malformed stream)
	Preamble   int  // percentage of histories that start with nodes, checks and sessions already set up
}

type Gen struct {
	R    *hx.RNG
	P    *Profile
	W    *World
	Last *Snap  // observation after the previous command
	Idx  uint64 // last raft index used

	prevKV *KVArg // the previous set / cas request (to repeat it verbatim)
}

func weighted(r *hx.RNG, w map[string]int, order []string) string {
	tot := 0
	for _, k := range order {
		tot += w[k]
	}
	if tot == 0 {
		return order[0]
	}
	n := r.Intn(tot)
	for _, k := range order {
		if n < w[k] {
			return k
		}
		n -= w[k]
	}
	return order[0]
}

var kindOrder = []string{"kv", "sc", "sd", "reg", "dereg", "reap", "pqs", "pqd", "txn"}
var kvVerbOrder = []string{"set", "cas", "delete", "delete-cas", "delete-tree", "lock", "unlock"}
var kvTxnVerbs = []string{"set", "cas", "delete", "delete-cas", "delete-tree", "lock", "unlock", "get", "get-or-empty", "get-tree",
	"check-session", "check-index", "check-not-exists"}
var catVerbs = []string{"get", "set", "cas", "delete", "delete-cas"}

func (g *Gen) nextIdx() uint64 {
	g.Idx += 1 + uint64(g.R.Intn(3))
	return g.Idx
}

func (g *Gen) key() string {
	if g.R.Chance(g.P.EmptyKeyPc) {
		return ""
	}
	// prefer keys that exist half of the time
	if g.Last != nil && len(g.Last.T.KVs) > 0 && g.R.Chance(50) {
		return hx.Pick(g.R, g.Last.T.KVs).Key
	}
	return hx.Pick(g.R, Keys)
}

func (g *Gen) prefix() string {
	if g.P.NulPrefix && g.R.Chance(15) {
		return hx.Pick(g.R, NulPrefixes)
	}
	return hx.Pick(g.R, Prefixes)
}

func (g *Gen) session() string {
	switch n := g.R.Intn(20); {
	case n == 0:
		return ""
	case n == 1:
		return SessionUpper
	case g.Last != nil && len(g.Last.T.Sessions) > 0 && n < 14:
		return hx.Pick(g.R, g.Last.T.Sessions).ID
	}
	return hx.Pick(g.R, Sessions)
}

// casIndex picks from {0, current, current-1, current+1, stale/other}
func (g *Gen) casIndex(cur uint64, present bool) uint64 {
	switch g.R.Intn(6) {
	case 0:
		return 0
	case 1, 2:
		if present {
			return cur
		}
		return g.Idx
	case 3:
		if cur > 0 {
			return cur - 1
		}
		return 1
	case 4:
		return cur + 1
	}
	return uint64(g.R.Intn(int(g.Idx) + 2))
}

func (g *Gen) kvModify(key string) (uint64, bool) {
	if g.Last != nil {
		for _, e := range g.Last.T.KVs {
			if e.Key == key {
				return e.ModifyIndex, true
			}
		}
	}
	return 0, false
}

// repeatStored builds a write that is byte-identical to a stored entry (same key, value, flags, lock
// counter; cas with the current index), with the request's session field empty, equal to the holder, or a
// stray session id: through set / cas the session field is never stored, so such a write must be a no-op
// whatever it says — on locked and on unlocked keys.
func (g *Gen) repeatStored(verb string) *KVArg {
	e := hx.Pick(g.R, g.Last.T.KVs)
	a := &KVArg{Verb: verb, Key: e.Key, Val: append([]byte(nil), e.Value...), Flags: e.Flags, LockIdx: e.LockIndex}
	switch g.R.Intn(4) {
	case 0:
		a.Session = e.Session
	case 1:
		a.Session = hx.Pick(g.R, Sessions)
	case 2:
		a.Session = SessionUpper
	}
	if verb == "cas" {
		a.ModIdx = e.ModifyIndex
	}
	return a
}

func (g *Gen) kvArg(verb string) *KVArg {
	if (verb == "set" || verb == "cas") && g.Last != nil && len(g.Last.T.KVs) > 0 {
		switch n := g.R.Intn(100); {
		case n < 14:
			a := g.repeatStored(verb)
			g.prevKV = a
			return a
		case n < 20 && g.prevKV != nil && g.prevKV.Key != "":
			// the previous write again, verbatim (cas: with whatever index the key has now)
			a := *g.prevKV
			a.Verb = verb
			if verb == "cas" {
				a.ModIdx, _ = g.kvModify(a.Key)
			}
			return &a
		}
	}
	a := g.kvArgFresh(verb)
	if verb == "set" || verb == "cas" {
		g.prevKV = a
	}
	return a
}

func (g *Gen) kvArgFresh(verb string) *KVArg {
	a := &KVArg{Verb: verb, Key: g.key(), Val: hx.Pick(g.R, Values), Flags: uint64(g.R.Intn(3))}
	if verb == "delete-tree" || verb == "get-tree" {
		a.Key = g.prefix()
	}
	switch verb {
	case "lock", "unlock", "check-session":
		a.Session = g.session()
		// prefer the current holder for unlock / check-session
		if verb != "lock" && g.Last != nil && g.R.Chance(50) {
			for _, e := range g.Last.T.KVs {
				if e.Key == a.Key && e.Session != "" {
					a.Session = e.Session
				}
			}
		}
	default:
		if g.R.Chance(10) {
			a.Session = g.session() // ignored by the verb, must stay without effect
		}
	}
	if g.R.Chance(15) {
		a.LockIdx = uint64(g.R.Intn(4)) // a plain set stores the request's LockIndex
	}
	cur, present := g.kvModify(a.Key)
	switch verb {
	case "cas", "delete-cas", "check-index":
		a.ModIdx = g.casIndex(cur, present)
	default:
		if g.R.Chance(10) {
			a.ModIdx = uint64(g.R.Intn(50))
		}
	}
	return a
}

func (g *Gen) nodeName() string {
	if g.Last != nil && len(g.Last.T.Nodes) > 0 && g.R.Chance(70) {
		n := hx.Pick(g.R, g.Last.T.Nodes).Node
		if g.R.Chance(10) {
			if n == strings.ToLower(n) {
				return strings.ToUpper(n)
			}
			return strings.ToLower(n)
		}
		return n
	}
	return hx.Pick(g.R, NodeNames)
}

func (g *Gen) checkID() string { return hx.Pick(g.R, CheckIDs) }

func (g *Gen) chkArg(node string) ChkArg {
	c := ChkArg{Node: node, ID: g.checkID(), Status: hx.Pick(g.R, Statuses)}
	if g.R.Chance(8) { // a check naming another node (registration must refuse it)
		c.Node = hx.Pick(g.R, NodeNames)
	}
	if c.ID == "sc1" || g.R.Chance(10) {
		c.Type = "session"
		c.SessName = hx.Pick(g.R, SessNames)
	}
	if g.R.Chance(25) {
		c.SvcID = hx.Pick(g.R, Services)[0]
	}
	if g.R.Chance(20) {
		c.Output = "o1"
	}
	return c
}

func (g *Gen) nodeArg() NodeArg {
	n := NodeArg{Name: g.nodeName(), ID: hx.Pick(g.R, NodeIDs), Addr: Addrs[0]}
	// keep the usual name <-> id pairing most of the time so that updates (not only renames) happen
	if g.Last != nil && g.R.Chance(60) {
		for _, e := range g.Last.T.Nodes {
			if strings.EqualFold(e.Node, n.Name) {
				n.ID = string(e.ID)
			}
		}
	}
	if g.R.Chance(20) {
		n.Addr = Addrs[1]
	}
	return n
}

func (g *Gen) svcArg(node string) SvcArg {
	s := hx.Pick(g.R, Services)
	return SvcArg{Node: node, ID: s[0], Name: s[1], Port: 80 + g.R.Intn(2)}
}

func (g *Gen) sessArg() *SessArg {
	s := &SessArg{ID: hx.Pick(g.R, Sessions), Node: g.nodeName(), Name: hx.Pick(g.R, SessNames)}
	switch g.R.Intn(10) {
	case 0, 1, 2:
		s.Behavior = "delete"
	case 3, 4, 5:
		s.Behavior = "release"
	case 6:
		if g.R.Chance(30) {
			s.Behavior = "bogus"
		}
	}
	if g.R.Chance(3) {
		s.ID = ""
	}
	if g.R.Chance(3) {
		s.ID = SessionUpper
	}
	if g.R.Chance(40) {
		s.LockDelay = 15
	}
	// bind to checks that exist on that node (mostly), sometimes to a missing one
	if g.Last != nil {
		for _, c := range g.Last.T.Checks {
			if strings.EqualFold(c.Node, s.Node) && g.R.Chance(45) && len(s.Checks) < 2 {
				s.Checks = append(s.Checks, string(c.CheckID))
			}
		}
	}
	if g.R.Chance(8) {
		s.Checks = append(s.Checks, g.checkID())
	}
	return s
}

func (g *Gen) liveSessionOr() string {
	if g.Last != nil && len(g.Last.T.Sessions) > 0 && g.R.Chance(80) {
		id := hx.Pick(g.R, g.Last.T.Sessions).ID
		if g.R.Chance(8) {
			return strings.ToUpper(id)
		}
		return id
	}
	return hx.Pick(g.R, Sessions)
}

func (g *Gen) regArg() *RegArg {
	r := &RegArg{Node: g.nodeArg()}
	if g.R.Chance(45) {
		s := g.svcArg(r.Node.Name)
		r.Svc = &s
	}
	for n := g.R.Intn(3); n > 0; n-- {
		c := g.chkArg(r.Node.Name)
		if r.Svc != nil && g.R.Chance(40) {
			c.SvcID = r.Svc.ID
		}
		r.Checks = append(r.Checks, c)
	}
	return r
}

func (g *Gen) deregArg() [3]string {
	d := [3]string{g.nodeName(), "", ""}
	switch g.R.Intn(10) {
	case 0, 1, 2:
		d[1] = hx.Pick(g.R, Services)[0]
	case 3, 4, 5, 6:
		d[2] = g.checkID()
		if g.Last != nil && len(g.Last.T.Checks) > 0 && g.R.Chance(70) {
			c := hx.Pick(g.R, g.Last.T.Checks)
			d[0], d[2] = c.Node, string(c.CheckID)
		}
	}
	return d
}

func (g *Gen) txnOp() TxnOpArg {
	switch n := g.R.Intn(20); {
	case n < 11:
		v := hx.Pick(g.R, kvTxnVerbs)
		return TxnOpArg{Fam: 'k', Verb: v, KV: g.kvArg(v)}
	case n < 13:
		na := g.nodeArg()
		v := hx.Pick(g.R, catVerbs)
		if g.Last != nil {
			for _, e := range g.Last.T.Nodes {
				if strings.EqualFold(e.Node, na.Name) {
					na.ModIdx = g.casIndex(e.ModifyIndex, true)
				}
			}
		}
		return TxnOpArg{Fam: 'n', Verb: v, Node: &na}
	case n < 15:
		s := g.svcArg(g.nodeName())
		v := hx.Pick(g.R, catVerbs)
		if g.Last != nil {
			for _, e := range g.Last.T.Services {
				if strings.EqualFold(e.Node, s.Node) && strings.EqualFold(e.ServiceID, s.ID) {
					s.ModIdx = g.casIndex(e.ModifyIndex, true)
				}
			}
		}
		return TxnOpArg{Fam: 's', Verb: v, Svc: &s}
	case n < 18:
		c := g.chkArg(g.nodeName())
		v := hx.Pick(g.R, catVerbs)
		if g.Last != nil {
			for _, e := range g.Last.T.Checks {
				if strings.EqualFold(e.Node, c.Node) && strings.EqualFold(string(e.CheckID), c.ID) {
					c.ModIdx = g.casIndex(e.ModifyIndex, true)
				}
			}
		}
		return TxnOpArg{Fam: 'c', Verb: v, Chk: &c}
	}
	return TxnOpArg{Fam: 'x', Verb: "delete", SessID: g.liveSessionOr()}
}

// Next generates the next operation of a history from the current observation.
func (g *Gen) Next() *Op {
	o := &Op{Kind: weighted(g.R, g.P.W, kindOrder), Idx: g.nextIdx(), ViaFSM: g.R.Bool()}
	switch o.Kind {
	case "kv":
		o.KV = g.kvArg(weighted(g.R, g.P.KVVerbs, kvVerbOrder))
	case "sc":
		o.Sess = g.sessArg()
	case "sd":
		o.SessID = g.liveSessionOr()
	case "reg":
		o.Reg = g.regArg()
	case "dereg":
		o.Dereg = g.deregArg()
	case "reap":
		o.Reap = uint64(g.R.Intn(int(g.Idx) + 1))
	case "pqs":
		o.PQ = [2]string{hx.Pick(g.R, QueryIDs), ""}
		if g.R.Chance(80) {
			o.PQ[1] = g.liveSessionOr()
		}
		if g.R.Chance(3) {
			o.PQ[0] = ""
		}
	case "pqd":
		o.PQ = [2]string{hx.Pick(g.R, QueryIDs), ""}
	case "txn":
		for n := 1 + g.R.Intn(5); n > 0; n-- {
			o.Txn = append(o.Txn, g.txnOp())
		}
	}
	return o
}

// Preamble returns a few valid operations that set up nodes, checks and sessions.
func (g *Gen) Preamble() []*Op {
	var ops []*Op
	for i, n := range []string{"n1", "n2"} {
		r := &RegArg{Node: NodeArg{Name: n, ID: NodeIDs[i+1], Addr: Addrs[0]}}
		if g.R.Chance(60) {
			r.Svc = &SvcArg{Node: n, ID: "web", Name: "web", Port: 80}
		}
		r.Checks = append(r.Checks, ChkArg{Node: n, ID: "c1", Status: "passing"})
		if g.R.Chance(50) {
			r.Checks = append(r.Checks, ChkArg{Node: n, ID: "sc1", Status: "critical", Type: "session", SessName: "lockA"})
		}
		if r.Svc != nil && g.R.Chance(50) {
			r.Checks = append(r.Checks, ChkArg{Node: n, ID: "c2", Status: "passing", SvcID: "web"})
		}
		ops = append(ops, &Op{Kind: "reg", Idx: g.nextIdx(), Reg: r, ViaFSM: g.R.Bool()})
		if i == 0 && g.R.Chance(40) {
			break
		}
	}
	for i := 0; i < 1+g.R.Intn(3); i++ {
		s := &SessArg{ID: Sessions[i], Node: hx.Pick(g.R, []string{"n1", "n1", "n2"}), Name: hx.Pick(g.R, SessNames)}
		if g.R.Bool() {
			s.Behavior = "delete"
		}
		if g.R.Chance(50) {
			s.Checks = []string{"c1"}
		}
		if g.R.Chance(40) {
			s.LockDelay = 15
		}
		ops = append(ops, &Op{Kind: "sc", Idx: g.nextIdx(), Sess: s, ViaFSM: g.R.Bool()})
	}
	return ops
}
