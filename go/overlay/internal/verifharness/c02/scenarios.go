//go:build verif

package main

import (
	"time"

	"github.com/hashicorp/consul/agent/structs"
	"github.com/hashicorp/consul/api"
	"github.com/hashicorp/consul/proto/private/pbpeering"
	"github.com/hashicorp/consul/types"
	"google.golang.org/protobuf/types/known/timestamppb"
)

// Fixed corpus: short hand-built histories replayed first on every run (every cut), one per shape of
// divergence the generators found on the pinned tree — so the evidence of a run does not depend on the
// seed reaching them again — plus plain round trips of every object family.

type scenario struct {
	name string
	h    []entry
}

func at(idx uint64, e entry) entry { e.idx = idx; return e }

func sReg(req structs.RegisterRequest, d string) entry {
	req.Datacenter = "dc1"
	e := entry{data: enc(structs.RegisterRequestType, &req), kind: "register", desc: d}
	if req.Service != nil {
		e.svcNames = []string{req.Service.Service, req.Service.ID, req.Service.Proxy.DestinationServiceName}
	}
	return e
}
func sDereg(req structs.DeregisterRequest, d string) entry {
	req.Datacenter = "dc1"
	return entry{data: enc(structs.DeregisterRequestType, &req), kind: "deregister", desc: d}
}
func sCfg(e structs.ConfigEntry, d string) entry {
	if err := e.Normalize(); err != nil {
		panic(err)
	}
	if err := e.Validate(); err != nil {
		panic(err)
	}
	req := structs.ConfigEntryRequest{Datacenter: "dc1", Op: structs.ConfigEntryUpsert, Entry: e}
	return entry{data: enc(structs.ConfigEntryRequestType, &req), kind: "config-entry", desc: d, svcNames: cfgSvcNames(e)}
}
func sKV(op api.KVOp, key, val string) entry {
	req := structs.KVSRequest{Datacenter: "dc1", Op: op, DirEnt: structs.DirEntry{Key: key, Value: []byte(val)}}
	return entry{data: enc(structs.KVSRequestType, &req), kind: "kvs", desc: "kvs " + string(op) + " " + key}
}
func sPeering(id, name string, dial bool, secret string) entry {
	p := &pbpeering.Peering{ID: id, Name: name, State: pbpeering.PeeringState_ESTABLISHING}
	req := &pbpeering.PeeringWriteRequest{Peering: p}
	if dial {
		p.PeerServerAddresses = []string{"10.0.0.1:8503"}
		p.PeerID = uuidN(0xc2, 1)
		req.SecretsRequest = &pbpeering.SecretsWriteRequest{PeerID: id, Request: &pbpeering.SecretsWriteRequest_Establish{
			Establish: &pbpeering.SecretsWriteRequest_EstablishRequest{ActiveStreamSecret: secret}}}
	}
	return entry{data: encProto(structs.PeeringWriteType, req), kind: "peering-write", desc: "peering-write " + id + "/" + name}
}
func sBundle(name string) entry {
	req := &pbpeering.PeeringTrustBundleWriteRequest{PeeringTrustBundle: &pbpeering.PeeringTrustBundle{TrustDomain: name + ".consul", PeerName: name, RootPEMs: []string{"pem"}}}
	return entry{data: encProto(structs.PeeringTrustBundleWriteType, req), kind: "peering-trust-bundle-write", desc: "trust-bundle-write " + name}
}

func scenarios(u *universe) []scenario {
	e1, p1, e2, p2 := uuidN(0xc4, 1), uuidN(0xc4, 2), uuidN(0xc4, 3), uuidN(0xc4, 4)
	tm := time.Unix(1700000000, 0).UTC()
	svc := func(name string) *structs.NodeService {
		return &structs.NodeService{ID: name, Service: name, Port: 8000}
	}
	proxy := func(dest string, ups ...string) *structs.NodeService {
		ns := &structs.NodeService{Kind: structs.ServiceKindConnectProxy, ID: dest + "-sidecar-proxy", Service: dest + "-sidecar-proxy", Port: 21000}
		ns.Proxy.DestinationServiceName = dest
		for i, up := range ups {
			ns.Proxy.Upstreams = append(ns.Proxy.Upstreams, structs.Upstream{DestinationName: up, LocalBindPort: 9000 + i})
		}
		return ns
	}
	gw := func(kind structs.ServiceKind, name string) *structs.NodeService {
		return &structs.NodeService{Kind: kind, ID: name, Service: name, Port: 8443}
	}
	termWild := func() structs.ConfigEntry {
		return &structs.TerminatingGatewayConfigEntry{Kind: structs.TerminatingGateway, Name: "term-gw", Services: []structs.LinkedService{{Name: "*", CAFile: "/ca"}}}
	}
	return []scenario{
		{"peering-index", []entry{at(9, sPeering(u.peerIDs[1], "peer2", false, "")), at(16, sPeering(u.peerIDs[0], "peer1", false, ""))}},
		{"trust-bundle-index", []entry{at(3, sPeering(u.peerIDs[0], "peer1", false, "")), at(4, sPeering(u.peerIDs[1], "peer2", false, "")),
			at(5, sBundle("peer2")), at(8, sBundle("peer1")), at(9, sBundle("peer2"))}},
		{"dialer-secret", []entry{at(5, sPeering(u.peerIDs[2], "peer3", true, u.secretIDs[2]))}},
		// accepting-side peering secrets lifecycle; every cut is followed by the rest of the script on both servers
		{"peering-accepting-established-then-deleted", []entry{
			at(3, eGenerate(u.peerIDs[0], "peer1", e1, true)), at(5, eExchange(u.peerIDs[0], e1, p1)), at(7, ePromote(u.peerIDs[0], p1)),
			at(9, ePeeringState(u.peerIDs[0], "peer1", pbpeering.PeeringState_DELETING, tm)),
			at(10, entry{data: encProto(structs.PeeringDeleteType, &pbpeering.PeeringDeleteRequest{Name: "peer1"}), kind: "peering-delete", desc: "peering-delete peer1"})}},
		{"peering-accepting-established-then-terminated", []entry{
			at(3, eGenerate(u.peerIDs[0], "peer1", e1, true)), at(5, eExchange(u.peerIDs[0], e1, p1)), at(7, ePromote(u.peerIDs[0], p1)),
			at(9, ePeeringState(u.peerIDs[0], "peer1", pbpeering.PeeringState_TERMINATED, tm))}},
		{"peering-accepting-reestablished", []entry{
			at(3, eGenerate(u.peerIDs[0], "peer1", e1, true)), at(5, eExchange(u.peerIDs[0], e1, p1)), at(7, ePromote(u.peerIDs[0], p1)),
			at(9, eGenerate(u.peerIDs[0], "peer1", e2, false)), at(11, eExchange(u.peerIDs[0], e2, p2)), at(13, ePromote(u.peerIDs[0], p2)),
			at(15, eGenerate(u.peerIDs[0], "peer1", uuidN(0xc4, 5), true)),
			at(17, ePeeringState(u.peerIDs[0], "peer1", pbpeering.PeeringState_DELETING, tm))}},
		{"peering-accepting-out-of-order", []entry{
			at(2, ePromote(u.peerIDs[0], p1)), // no peering yet
			at(3, eGenerate(u.peerIDs[0], "peer1", e1, true)),
			at(4, ePromote(u.peerIDs[0], e1)),      // promote an establishment secret
			at(5, eExchange(u.peerIDs[0], e2, p1)), // wrong establishment secret
			at(6, eEstablish(u.peerIDs[0], p2)),    // accepting peer calling Establish
			at(7, eExchange(u.peerIDs[0], e1, p1)),
			at(8, eExchange(u.peerIDs[0], e1, p2)),             // establishment secret already used
			at(9, eGenerate(u.peerIDs[0], "peer1", p1, false)), // secret already in use
			at(10, ePromote(u.peerIDs[0], p2)),                 // not the pending one
			at(11, ePromote(u.peerIDs[0], p1)),
			at(12, ePromote(u.peerIDs[0], p1)), // twice
			at(13, eGenerate(u.peerIDs[0], "peer1", e2, false)),
			at(14, eExchange(u.peerIDs[0], e2, p2)), // pending beside an active secret
			at(15, ePeeringState(u.peerIDs[0], "peer1", pbpeering.PeeringState_TERMINATED, tm))}},
		{"peering-dialer-reestablished-then-deleted", []entry{
			at(5, sPeering(u.peerIDs[2], "peer3", true, dialSecrets[0])),
			at(7, eEstablish(u.peerIDs[2], dialSecrets[1])),
			at(8, ePromote(u.peerIDs[2], dialSecrets[1])), // dialers cannot promote
			at(9, func() entry {
				p := &pbpeering.Peering{ID: u.peerIDs[2], Name: "peer3", State: pbpeering.PeeringState_DELETING, DeletedAt: timestamppb.New(tm),
					PeerServerAddresses: []string{"10.0.0.1:8503"}, PeerID: uuidN(0xc2, 1)}
				return entry{data: encProto(structs.PeeringWriteType, &pbpeering.PeeringWriteRequest{Peering: p}), kind: "peering-write", desc: "peering-write peer3 (dialer) state=DELETING"}
			}())}},
		// a peering ID first used by an accepting peering (establishment secret tracked), terminated and deleted, then
		// written again as a DIALING peering with an Establish secret: the dialer branch of peeringSecretsWriteTxn
		// replaces the orphaned secrets row without freeing its uuid (round 5 finding)
		{"peering-id-reused-by-dialer", []entry{
			at(3, eGenerate(u.peerIDs[1], "peer2", e1, true)),
			at(5, entry{data: encProto(structs.PeeringTerminateByIDType, &pbpeering.PeeringTerminateByIDRequest{ID: u.peerIDs[1]}), kind: "peering-terminate", desc: "peering-terminate " + u.peerIDs[1]}),
			at(6, entry{data: encProto(structs.PeeringDeleteType, &pbpeering.PeeringDeleteRequest{Name: "peer2"}), kind: "peering-delete", desc: "peering-delete peer2"}),
			at(8, sPeering(u.peerIDs[1], "peer2", true, dialSecrets[2]))}},
		// a service-intentions entry with three sources, then `intention delete web db` (by name, not the last source):
		// the late-persist monitor snapshots before the delete and persists after it
		{"late-persist-intention-source-delete", []entry{
			at(2, entry{data: enc(structs.SystemMetadataRequestType, &structs.SystemMetadataRequest{Datacenter: "dc1", Op: structs.SystemMetadataUpsert,
				Entry: &structs.SystemMetadataEntry{Key: structs.SystemMetadataIntentionFormatKey, Value: structs.SystemMetadataIntentionFormatConfigValue}}), kind: "system-metadata", desc: "intention-format=config-entry"}),
			at(3, sCfg(&structs.ServiceIntentionsConfigEntry{Kind: structs.ServiceIntentions, Name: "db", Sources: []*structs.SourceIntention{
				{Name: "web", Action: structs.IntentionActionAllow}, {Name: "api", Action: structs.IntentionActionDeny}, {Name: "web-v1", Action: structs.IntentionActionAllow}}}, "service-intentions db [web api web-v1]")),
			at(5, entry{data: enc(structs.IntentionRequestType, &structs.IntentionRequest{Datacenter: "dc1", Op: structs.IntentionOpDelete,
				Mutation: &structs.IntentionMutation{Destination: structs.NewServiceName("db", nil), Source: structs.NewServiceName("web", nil)}}), kind: "intention-mutation", desc: "ixn-mutation delete web->db (by name)"}),
			at(6, entry{data: enc(structs.IntentionRequestType, &structs.IntentionRequest{Datacenter: "dc1", Op: structs.IntentionOpDelete,
				Mutation: &structs.IntentionMutation{Destination: structs.NewServiceName("db", nil), Source: structs.NewServiceName("api", nil)}}), kind: "intention-mutation", desc: "ixn-mutation delete api->db (by name)"})}},
		{"node-locality", []entry{at(6, sReg(structs.RegisterRequest{Node: "n1", Address: "127.0.0.1", Locality: &structs.Locality{Region: "us-east-1", Zone: "a"}}, "register n1 with locality"))}},
		{"kind-service-names-index", []entry{
			at(1, sReg(structs.RegisterRequest{Node: "n1", Address: "127.0.0.1", Service: svc("web")}, "register n1 web")),
			at(3, sReg(structs.RegisterRequest{Node: "n2", Address: "127.0.0.2"}, "register n2"))}},
		{"mesh-topology-index", []entry{
			at(9, sReg(structs.RegisterRequest{Node: "n1", Address: "127.0.0.1", Service: proxy("web", "api")}, "register n1 web-sidecar-proxy upstream api")),
			at(10, sKV(api.KVSet, "a", "v"))}},
		{"gateway-services-index", []entry{at(4, sCfg(termWild(), "terminating-gateway term-gw [*]")), at(16, sCfg(termWild(), "terminating-gateway term-gw [*] again"))}},
		{"gateway-services-wildcard-kind", []entry{
			at(4, sCfg(termWild(), "terminating-gateway term-gw [*]")),
			at(6, sReg(structs.RegisterRequest{Node: "n1", Address: "127.0.0.1", Service: svc("web")}, "register n1 web"))}},
		{"gateway-services-explicit-vs-wildcard", []entry{
			at(4, sCfg(&structs.TerminatingGatewayConfigEntry{Kind: structs.TerminatingGateway, Name: "term-gw",
				Services: []structs.LinkedService{{Name: "api", SNI: "api.example"}, {Name: "*", CAFile: "/ca"}}}, "terminating-gateway term-gw [api sni, * cafile]")),
			at(8, sReg(structs.RegisterRequest{Node: "n1", Address: "127.0.0.1", Service: svc("api")}, "register n1 api"))}},
		{"gateway-services-explicit-vs-wildcard-deregistered", []entry{
			at(4, sCfg(&structs.TerminatingGatewayConfigEntry{Kind: structs.TerminatingGateway, Name: "term-gw",
				Services: []structs.LinkedService{{Name: "api", SNI: "api.example"}, {Name: "*", CAFile: "/ca"}}}, "terminating-gateway term-gw [api sni, * cafile]")),
			at(8, sReg(structs.RegisterRequest{Node: "n1", Address: "127.0.0.1", Service: svc("api")}, "register n1 api")),
			at(9, sDereg(structs.DeregisterRequest{Node: "n1", ServiceID: "api"}, "deregister n1 service api"))}},
		{"ingress-wildcard-proxy-only", []entry{
			at(6, sCfg(&structs.IngressGatewayConfigEntry{Kind: structs.IngressGateway, Name: "ingress-gw",
				Listeners: []structs.IngressListener{{Port: 8080, Protocol: "http", Services: []structs.IngressService{{Name: "*"}}}}}, "ingress-gateway ingress-gw http [*]")),
			at(14, sReg(structs.RegisterRequest{Node: "n1", Address: "127.0.0.1", Service: proxy("db")}, "register n1 db-sidecar-proxy (no db instance)"))}},
		{"usage-zero-row", []entry{at(3, sKV(api.KVSet, "a", "v")), at(4, sKV(api.KVDelete, "a", ""))}},
		{"usage-index", []entry{
			at(3, sReg(structs.RegisterRequest{Node: "n1", Address: "127.0.0.1"}, "register n1")),
			at(5, sKV(api.KVSet, "a", "v"))}},
		{"check-service-tags", []entry{
			at(2, sReg(structs.RegisterRequest{Node: "n1", Address: "127.0.0.1", Service: &structs.NodeService{ID: "web", Service: "web", Port: 80, Tags: []string{"primary"}},
				Check: &structs.HealthCheck{Node: "n1", CheckID: "c1", Name: "chk", Status: api.HealthPassing, ServiceID: "web"}}, "register n1 web tags=[primary] check c1")),
			at(5, sReg(structs.RegisterRequest{Node: "n1", Address: "127.0.0.1", Service: svc("web")}, "register n1 web without tags"))}},
		{"connect-native-dropped", []entry{
			at(20, sReg(structs.RegisterRequest{Node: "n1", Address: "127.0.0.1", Service: &structs.NodeService{ID: "web", Service: "web", Port: 80, Connect: structs.ServiceConnect{Native: true}}}, "register n1 web connect-native")),
			at(21, sReg(structs.RegisterRequest{Node: "n1", Address: "127.0.0.1", Service: svc("web")}, "register n1 web not native"))}},
		{"mesh-topology-gateway-index", []entry{
			at(6, sCfg(&structs.IngressGatewayConfigEntry{Kind: structs.IngressGateway, Name: "ingress-gw",
				Listeners: []structs.IngressListener{{Port: 8081, Protocol: "tcp", Services: []structs.IngressService{{Name: "api"}}}}}, "ingress-gateway ingress-gw tcp [api]")),
			at(20, sReg(structs.RegisterRequest{Node: "n1", Address: "127.0.0.1", Service: svc("api")}, "register n1 api"))}},
		{"gateway-service-case", []entry{
			at(51, sCfg(&structs.IngressGatewayConfigEntry{Kind: structs.IngressGateway, Name: "ingress-gw",
				Listeners: []structs.IngressListener{{Port: 8081, Protocol: "tcp", Services: []structs.IngressService{{Name: "web"}}}}}, "ingress-gateway ingress-gw tcp [web]")),
			at(52, sReg(structs.RegisterRequest{Node: "n1", Address: "127.0.0.1", Service: svc("Web")}, "register n1 Web"))}},
		{"mesh-topology-node-case", []entry{
			at(8, sReg(structs.RegisterRequest{Node: "n1", Address: "127.0.0.1", Service: proxy("web", "db")}, "register n1 web-sidecar-proxy upstream db")),
			at(10, sReg(structs.RegisterRequest{Node: "N1", Address: "127.0.0.1"}, "register N1"))}},
		{"check-service-case", []entry{
			at(16, sReg(structs.RegisterRequest{Node: "n1", Address: "127.0.0.1", Service: svc("web"),
				Check: &structs.HealthCheck{Node: "n1", CheckID: "c1", Name: "chk", Status: api.HealthPassing, ServiceID: "web"}}, "register n1 web check c1")),
			at(17, sReg(structs.RegisterRequest{Node: "n1", Address: "127.0.0.1", Service: svc("Web")}, "register n1 Web (same id up to case)"))}},
		{"mesh-topology-stale-after-node-rename", []entry{
			at(19, sReg(structs.RegisterRequest{Node: "n2", ID: types.NodeID(u.nodeIDs[2]), Address: "127.0.0.2", PeerName: "peer3",
				Service: func() *structs.NodeService { p := proxy("db", "web-v1"); p.PeerName = "peer3"; return p }()}, "register n2 id=X peer=peer3 db-sidecar-proxy upstream web-v1")),
			at(44, sReg(structs.RegisterRequest{Node: "n1", ID: types.NodeID(u.nodeIDs[2]), Address: "127.0.0.2", PeerName: "peer3"}, "register n1 id=X peer=peer3 (renames n2)"))}},
		{"mesh-topology-refs-ignore-peer", []entry{
			at(21, sReg(structs.RegisterRequest{Node: "n1", Address: "127.0.0.1", Service: proxy("web", "db")}, "register n1 web-sidecar-proxy upstream db")),
			at(23, sReg(structs.RegisterRequest{Node: "n1", Address: "127.0.0.1", PeerName: "peer1",
				Service: func() *structs.NodeService { p := proxy("web", "db"); p.PeerName = "peer1"; return p }()}, "register n1 peer=peer1 web-sidecar-proxy upstream db")),
			at(24, sReg(structs.RegisterRequest{Node: "n1", Address: "127.0.0.1", Service: proxy("web")}, "register n1 web-sidecar-proxy without upstreams"))}},
		{"terminating-wildcard-service-becomes-native", []entry{
			at(4, sCfg(termWild(), "terminating-gateway term-gw [*]")),
			at(12, sReg(structs.RegisterRequest{Node: "n2", Address: "127.0.0.2", Service: svc("db")}, "register n2 db")),
			at(20, sReg(structs.RegisterRequest{Node: "n2", Address: "127.0.0.2", Service: &structs.NodeService{ID: "db", Service: "db", Port: 8000, Connect: structs.ServiceConnect{Native: true}}}, "register n2 db connect-native"))}},
		{"terminating-explicit-service-case", []entry{
			at(7, sReg(structs.RegisterRequest{Node: "n3", ID: types.NodeID(u.nodeIDs[2]), Address: "127.0.0.3", Service: svc("Web")}, "register n3 id=X Web")),
			at(10, sCfg(&structs.TerminatingGatewayConfigEntry{Kind: structs.TerminatingGateway, Name: "term-gw", Services: []structs.LinkedService{{Name: "web", SNI: "x.example"}}}, "terminating-gateway term-gw [web sni]")),
			at(27, sCfg(&structs.IngressGatewayConfigEntry{Kind: structs.IngressGateway, Name: "ingress-gw",
				Listeners: []structs.IngressListener{{Port: 8080, Protocol: "tcp", Services: []structs.IngressService{{Name: "web"}}}}}, "ingress-gateway ingress-gw tcp [web]")),
			at(29, sReg(structs.RegisterRequest{Node: "n1", ID: types.NodeID(u.nodeIDs[2]), Address: "127.0.0.3", Service: gw(structs.ServiceKindTerminatingGateway, "term-gw")},
				"register n1 id=X term-gw (renames n3; its services go)"))}},
		{"ingress-wildcard-service-loses-proxy", []entry{
			at(6, sCfg(&structs.IngressGatewayConfigEntry{Kind: structs.IngressGateway, Name: "ingress-gw",
				Listeners: []structs.IngressListener{{Port: 8080, Protocol: "http", Services: []structs.IngressService{{Name: "*"}}}}}, "ingress-gateway ingress-gw http [*]")),
			at(8, sReg(structs.RegisterRequest{Node: "n1", Address: "127.0.0.1", Service: svc("web")}, "register n1 web")),
			at(9, sReg(structs.RegisterRequest{Node: "n1", Address: "127.0.0.1", Service: proxy("web")}, "register n1 web-sidecar-proxy")),
			at(12, sDereg(structs.DeregisterRequest{Node: "n1", ServiceID: "web-sidecar-proxy"}, "deregister n1 web-sidecar-proxy"))}},
		{"store-service-renamed-by-id", []entry{
			at(35, sReg(structs.RegisterRequest{Node: "n2", Address: "127.0.0.2", Service: &structs.NodeService{ID: "svc-0", Service: "api", Port: 8000},
				Check: &structs.HealthCheck{Node: "n2", CheckID: "c1", Name: "chk", Status: api.HealthPassing, ServiceID: "svc-0"}}, "register n2 svc-0/api check c1")),
			at(36, sReg(structs.RegisterRequest{Node: "n2", Address: "127.0.0.2", Service: &structs.NodeService{ID: "svc-0", Service: "web", Port: 8000}}, "register n2 svc-0/web (same id, new name)"))}},
		{"store-plain", []entry{
			at(2, sReg(structs.RegisterRequest{Node: "n1", ID: types.NodeID(u.nodeIDs[0]), Address: "127.0.0.1", Service: svc("web"),
				Check: &structs.HealthCheck{Node: "n1", CheckID: "c1", Name: "chk", Status: api.HealthPassing, ServiceID: "web"}}, "register n1 web c1")),
			at(3, sReg(structs.RegisterRequest{Node: "n1", ID: types.NodeID(u.nodeIDs[0]), Address: "127.0.0.1",
				Check: &structs.HealthCheck{Node: "n1", CheckID: "serfHealth", Name: "serf", Status: api.HealthPassing}}, "register n1 serfHealth")),
			at(4, entry{data: enc(structs.SessionRequestType, &structs.SessionRequest{Datacenter: "dc1", Op: structs.SessionCreate,
				Session: structs.Session{ID: uuidN(0xb0, 1), Node: "n1", NodeChecks: []string{"serfHealth", "c1"}, Behavior: structs.SessionKeysDelete}}), kind: "session", desc: "session create on n1 [serfHealth c1]"}),
			at(5, entry{data: enc(structs.KVSRequestType, &structs.KVSRequest{Datacenter: "dc1", Op: api.KVLock, DirEnt: structs.DirEntry{Key: "a/b", Value: []byte("v"), Session: uuidN(0xb0, 1)}}), kind: "kvs", desc: "kvs lock a/b"}),
			at(6, sKV(api.KVSet, "a/c", "v2")), at(7, sKV(api.KVDelete, "a/c", "")),
			at(8, entry{data: enc(structs.PreparedQueryRequestType, &structs.PreparedQueryRequest{Datacenter: "dc1", Op: structs.PreparedQueryCreate,
				Query: &structs.PreparedQuery{ID: u.queryIDs[0], Session: uuidN(0xb0, 1), Service: structs.ServiceQuery{Service: "web"}}}), kind: "prepared-query", desc: "pq create bound to the session"}),
			at(9, sReg(structs.RegisterRequest{Node: "n1", ID: types.NodeID(u.nodeIDs[0]), Address: "127.0.0.1",
				Check: &structs.HealthCheck{Node: "n1", CheckID: "c1", Name: "chk", Status: api.HealthCritical, ServiceID: "web"}}, "register n1 c1 critical (invalidates the session)"))}},
		{"node-name-case", []entry{
			at(2, sReg(structs.RegisterRequest{Node: "n1", Address: "127.0.0.1", Service: svc("web")}, "register n1 web")),
			at(4, sReg(structs.RegisterRequest{Node: "N1", Address: "127.0.0.1"}, "register N1"))}},
		{"service-name-case", []entry{
			at(3, sReg(structs.RegisterRequest{Node: "n1", Address: "127.0.0.1", Service: svc("web")}, "register n1 web")),
			at(4, sReg(structs.RegisterRequest{Node: "n2", Address: "127.0.0.2", Service: svc("Web")}, "register n2 Web"))}},
		{"service-id-case", []entry{
			at(3, sReg(structs.RegisterRequest{Node: "n1", Address: "127.0.0.1", Service: svc("web")}, "register n1 web")),
			at(4, sReg(structs.RegisterRequest{Node: "n1", Address: "127.0.0.1", Service: svc("Web")}, "register n1 Web (same id up to case)"))}},
		{"plain-catalog", []entry{
			at(1, entry{data: enc(structs.SystemMetadataRequestType, &structs.SystemMetadataRequest{Datacenter: "dc1", Op: structs.SystemMetadataUpsert,
				Entry: &structs.SystemMetadataEntry{Key: structs.SystemMetadataVirtualIPsEnabled, Value: "true"}}), kind: "system-metadata", desc: "virtual-ips=true"}),
			at(2, sReg(structs.RegisterRequest{Node: "n1", ID: types.NodeID(u.nodeIDs[0]), Address: "127.0.0.1", Service: svc("web"),
				Check: &structs.HealthCheck{Node: "n1", CheckID: "c1", Name: "chk", Status: api.HealthPassing, ServiceID: "web"}}, "register n1 web c1")),
			at(3, sReg(structs.RegisterRequest{Node: "n1", ID: types.NodeID(u.nodeIDs[0]), Address: "127.0.0.1", Service: proxy("web", "db")}, "register n1 web-sidecar-proxy")),
			at(4, sReg(structs.RegisterRequest{Node: "n2", Address: "127.0.0.2", Service: gw(structs.ServiceKindMeshGateway, "mesh-gw")}, "register n2 mesh-gw")),
			at(5, sDereg(structs.DeregisterRequest{Node: "n1", CheckID: "c1"}, "deregister n1 check c1")),
			at(6, sKV(api.KVSet, "a/b", "v1")), at(7, sKV(api.KVSet, "a/c", "v2")), at(8, sKV(api.KVDelete, "a/b", ""))}},
	}
}
