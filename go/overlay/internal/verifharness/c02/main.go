//go:build verif

// Harness of property C02: snapshot + restore reproduce the state exactly, at any cut of any history.
//
// For generated histories of real, encoded Raft log entries (every registered FSM command family) the
// harness walks one server A through the log; at cut points it calls the real FSM.Snapshot().Persist
// into a buffer, FSM.Restore into a fresh server B and checks, independent of any model:
//
//	(i)   every memdb table (index, usage and derived tables included) and the resource store are equal,
//	(ii)  a set of ~70 read APIs over the name universe return the same result AND the same query index,
//	(iii) applying the rest of the log to B gives the same per-entry results as A and the same final dump,
//	(iv)  a second generation (snapshot of B restored into C) equals B.
//
// Differences => run.Violate("snap:<…>", …): one violation per signature with the shortest witness seen
// (greedily shrunk when longer than 3 entries). Signatures name the shape of the difference
// (snap:<table>:<Field>, :rows-lost, :rows-added, snap:index:<key class>) unless the difference is exactly what
// one of the known mechanisms of diff.go predicts (then: that mechanism's signature, see known_findings.txt).
// A fixed corpus (scenarios.go) replays one minimal witness per known mechanism, and plain round trips, first.
//
// Correspondence with the Lean model (CV/Snap.lean through cvd_c02): for every cut the modelled
// instance of A's state (index table, kvs, tombstones, sessions, peerings, trust bundles) is written as
// one `rt` operation; the implementation's answer is the same instance read back from B (plus the derived
// session_checks and the derived usage row "kvs"), the header LastIndex and the order of the record kinds in
// the real snapshot stream; the model answers with restore (snapshot s).
package main

import (
	"bytes"
	"crypto/sha256"
	"encoding/hex"
	"fmt"
	"net"
	"reflect"
	"regexp"
	"sort"
	"strings"

	"github.com/hashicorp/consul-net-rpc/go-msgpack/codec"
	"github.com/hashicorp/go-hclog"
	"github.com/hashicorp/raft"

	"github.com/hashicorp/consul/agent/consul/fsm"
	"github.com/hashicorp/consul/agent/consul/state"
	"github.com/hashicorp/consul/agent/netutil"
	"github.com/hashicorp/consul/agent/structs"
	raftstorage "github.com/hashicorp/consul/internal/storage/raft"
	"github.com/hashicorp/consul/internal/verifharness/hx"
	"github.com/hashicorp/consul/proto/private/pbpeering"
)

// ---------------------------------------------------------------- one server = FSM + resource backend

type server struct {
	fsm     *fsm.FSM
	backend *raftstorage.Backend
}

func newServer() *server {
	backend, err := raftstorage.NewBackend(nil, hclog.NewNullLogger())
	if err != nil {
		panic(err)
	}
	f := fsm.NewFromDeps(fsm.Deps{
		Logger:         hclog.NewNullLogger(),
		NewStateStore:  func() *state.Store { return state.NewStateStore(nil) },
		StorageBackend: backend,
	})
	return &server{fsm: f, backend: backend}
}

// apply hands one committed entry to the real FSM; a panic (the FSM's contract for undecodable input,
// and a few nil dereferences in handlers) is part of the canonical result.
func (s *server) apply(e entry) (out string) {
	defer func() {
		if p := recover(); p != nil {
			out = "panic:" + clip(fmt.Sprint(p), 120)
		}
	}()
	return canonResult(s.fsm.Apply(&raft.Log{Index: e.idx, Term: 1, Type: raft.LogCommand, Data: e.data}))
}

type sink struct {
	bytes.Buffer
	cancelled bool
}

func (s *sink) ID() string    { return "verif" }
func (s *sink) Cancel() error { s.cancelled = true; return nil }
func (s *sink) Close() error  { return nil }

func (s *server) snapshot() (b []byte, err error) {
	defer func() {
		if p := recover(); p != nil {
			err = fmt.Errorf("panic in Snapshot/Persist: %v", p)
		}
	}()
	snap, err := s.fsm.Snapshot()
	if err != nil {
		return nil, err
	}
	defer snap.Release()
	sk := &sink{}
	if err := snap.Persist(sk); err != nil {
		return nil, err
	}
	if sk.cancelled {
		return nil, fmt.Errorf("sink cancelled")
	}
	return sk.Bytes(), nil
}

type rc struct{ *bytes.Reader }

func (rc) Close() error { return nil }

func restoreServer(b []byte) (sv *server, err error) {
	defer func() {
		if p := recover(); p != nil {
			err = fmt.Errorf("panic in Restore: %v", p)
		}
	}()
	sv = newServer()
	if err := sv.fsm.Restore(rc{bytes.NewReader(b)}); err != nil {
		return nil, err
	}
	return sv, nil
}

var msgNames = map[structs.MessageType]string{
	structs.RegisterRequestType: "register", structs.KVSRequestType: "kvs", structs.TombstoneRequestType: "tombstones",
	structs.SessionRequestType: "sessions", structs.CoordinateBatchUpdateType: "coordinates", structs.PreparedQueryRequestType: "queries",
	structs.AutopilotRequestType: "autopilot", structs.FeatureGateRequestType: "feature-gates", structs.IntentionRequestType: "intentions",
	structs.ConnectCARequestType: "ca-roots", structs.ConnectCAProviderStateType: "ca-provider", structs.ConnectCAConfigType: "ca-config",
	structs.IndexRequestType: "index", structs.ACLTokenSetRequestType: "acl-tokens", structs.ACLPolicySetRequestType: "acl-policies",
	structs.ConfigEntryRequestType: "config-entries", structs.ACLRoleSetRequestType: "acl-roles", structs.ACLBindingRuleSetRequestType: "acl-rules",
	structs.ACLAuthMethodSetRequestType: "acl-methods", structs.FederationStateRequestType: "federation-states", structs.SystemMetadataRequestType: "system-metadata",
	structs.ServiceVirtualIPRequestType: "vips", structs.FreeVirtualIPRequestType: "free-vips", structs.PeeringWriteType: "peering",
	structs.PeeringTrustBundleWriteType: "bundles", structs.PeeringSecretsWriteType: "peering-secrets", structs.ResourceOperationType: "resources",
	structs.ChunkingStateType: "chunking",
}

// readStream walks the real snapshot bytes with the FSM's own reader: header + (kind, count) runs.
type run2 struct {
	kind string
	n    int
}

func readStream(b []byte) (last uint64, runs []run2, err error) {
	defer func() {
		if p := recover(); p != nil {
			err = fmt.Errorf("panic reading snapshot: %v", p)
		}
	}()
	err = fsm.ReadSnapshot(bytes.NewReader(b), func(h *fsm.SnapshotHeader, msg structs.MessageType, dec *codec.Decoder) error {
		last = h.LastIndex
		var ignore interface{}
		if err := dec.Decode(&ignore); err != nil {
			return err
		}
		name, ok := msgNames[msg]
		if !ok {
			name = fmt.Sprintf("type%d", msg)
		}
		if len(runs) > 0 && runs[len(runs)-1].kind == name {
			runs[len(runs)-1].n++
		} else {
			runs = append(runs, run2{name, 1})
		}
		return nil
	})
	if len(b) > 0 && last == 0 && err == nil {
		// header of an empty snapshot: decode it alone
		var h fsm.SnapshotHeader
		if e2 := codec.NewDecoder(bytes.NewReader(b), structs.MsgpackHandle).Decode(&h); e2 == nil {
			last = h.LastIndex
		}
	}
	return
}

// ---------------------------------------------------------------- the modelled instance (Lean side)

type mstate struct {
	index         []*state.IndexEntry
	kvs           []*structs.DirEntry
	tombs         []*state.Tombstone
	sessions      []*structs.Session
	sessionChecks [][3]string // node, check, session
	peerings      []*pbpeering.Peering
	bundles       []*pbpeering.PeeringTrustBundle
	// the catalog / query tables of the shared store model (CV.Store)
	nodes   []*structs.Node
	svcs    []*structs.ServiceNode
	chks    []*structs.HealthCheck
	queries structs.PreparedQueries
}

func modelState(st *state.Store) *mstate {
	m := &mstate{}
	st.WalkAllTables(func(table string, item interface{}) bool {
		switch v := item.(type) {
		case *state.IndexEntry:
			m.index = append(m.index, v)
		case *structs.DirEntry:
			if table == "kvs" {
				m.kvs = append(m.kvs, v)
			}
		case *state.Tombstone:
			m.tombs = append(m.tombs, v)
		case *structs.Session:
			m.sessions = append(m.sessions, v)
		case *pbpeering.Peering:
			m.peerings = append(m.peerings, v)
		case *pbpeering.PeeringTrustBundle:
			m.bundles = append(m.bundles, v)
		case *structs.Node:
			m.nodes = append(m.nodes, v)
		case *structs.ServiceNode:
			m.svcs = append(m.svcs, v)
		case *structs.HealthCheck:
			m.chks = append(m.chks, v)
		default:
			if table == "session_checks" {
				rv := reflect.Indirect(reflect.ValueOf(item))
				m.sessionChecks = append(m.sessionChecks, [3]string{rv.FieldByName("Node").String(), rv.FieldByName("CheckID").FieldByName("ID").String(), rv.FieldByName("Session").String()})
			}
		}
		return true
	})
	_, m.queries, _ = st.PreparedQueryList(nil)
	return m
}

// ---- encoders of the store-model tables (see lean/CV/Engine/C02.lean, op `rts`)

func sjoin(xs ...string) string { return strings.Join(xs, ";") }
func u64(x uint64) string       { return fmt.Sprint(x) }

func (m *mstate) sNodes() string {
	var t []string
	for _, n := range m.nodes {
		t = append(t, sjoin(hx.EncS(n.Node), hx.EncS(string(n.ID)), hx.EncS(n.Address), u64(n.CreateIndex), u64(n.ModifyIndex)))
	}
	return hx.EncList(t)
}
func (m *mstate) sSvcs() string {
	var t []string
	for _, v := range m.svcs {
		t = append(t, sjoin(hx.EncS(v.Node), hx.EncS(v.ServiceID), hx.EncS(v.ServiceName), fmt.Sprint(v.ServicePort), u64(v.CreateIndex), u64(v.ModifyIndex)))
	}
	return hx.EncList(t)
}
func (m *mstate) sChks() string {
	var t []string
	for _, c := range m.chks {
		t = append(t, sjoin(hx.EncS(c.Node), hx.EncS(string(c.CheckID)), hx.EncS(c.Status), hx.EncS(c.ServiceID), hx.EncS(c.ServiceName), hx.EncS(c.Type),
			hx.EncS(c.Definition.SessionName), hx.EncS(c.Output), u64(c.CreateIndex), u64(c.ModifyIndex)))
	}
	return hx.EncList(t)
}
func (m *mstate) sSess() string {
	var t []string
	for _, x := range m.sessions {
		beh := "r"
		if x.Behavior == structs.SessionKeysDelete {
			beh = "d"
		}
		var cs []string
		for _, c := range x.CheckIDs() {
			cs = append(cs, hx.EncS(string(c)))
		}
		t = append(t, sjoin(hx.EncS(x.ID), hx.EncS(x.Node), hx.EncS(x.Name), beh, fmt.Sprint(int64(x.LockDelay)), u64(x.CreateIndex), u64(x.ModifyIndex), strings.Join(cs, "+")))
	}
	return hx.EncList(t)
}
func (m *mstate) sKVs() string {
	var t []string
	for _, e := range m.kvs {
		t = append(t, sjoin(hx.EncS(e.Key), hx.EncB(e.Value), u64(e.Flags), hx.EncS(e.Session), u64(e.LockIndex), u64(e.CreateIndex), u64(e.ModifyIndex)))
	}
	return hx.EncList(t)
}
func (m *mstate) sPQs() string {
	var t []string
	for _, q := range m.queries {
		t = append(t, sjoin(hx.EncS(q.ID), hx.EncS(q.Session), u64(q.CreateIndex), u64(q.ModifyIndex)))
	}
	return hx.EncList(t)
}

// sIndex: the index table as the store model keeps it — keys lower-cased (memdb's identity of an index row;
// the spelling of the stored Key is compared by the `rt` line of the stand-alone instance)
func (m *mstate) sIndex() string {
	var t []string
	for _, e := range m.index {
		t = append(t, hx.EncS(strings.ToLower(e.Key))+";"+fmt.Sprint(e.Value))
	}
	return hx.EncList(t)
}

// inStoreFragment: only rows the base store model can express (local, typical, non-connect services)
func (m *mstate) inStoreFragment() bool {
	for _, n := range m.nodes {
		if n.PeerName != "" {
			return false
		}
	}
	for _, v := range m.svcs {
		if v.PeerName != "" || v.ServiceKind != structs.ServiceKindTypical || v.ServiceConnect.Native {
			return false
		}
	}
	for _, c := range m.chks {
		if c.PeerName != "" {
			return false
		}
	}
	return true
}

func payload(x any) string {
	h := sha256.Sum256([]byte(canon(x)))
	return "=" + hex.EncodeToString(h[:6])
}

func (m *mstate) encIndex() string {
	var t []string
	for _, e := range m.index {
		t = append(t, hx.EncS(e.Key)+";"+fmt.Sprint(e.Value))
	}
	return hx.EncList(t)
}
func (m *mstate) encKVs() string {
	var t []string
	for _, e := range m.kvs {
		t = append(t, hx.EncS(e.Key)+";"+payload(e)+";"+fmt.Sprint(e.ModifyIndex))
	}
	return hx.EncList(t)
}
func (m *mstate) encTombs() string {
	var t []string
	for _, e := range m.tombs {
		t = append(t, hx.EncS(e.Key)+";"+fmt.Sprint(e.Index))
	}
	return hx.EncList(t)
}
func (m *mstate) encSessions() string {
	var t []string
	for _, s := range m.sessions {
		var cs []string
		for _, c := range s.CheckIDs() {
			cs = append(cs, hx.EncS(string(c)))
		}
		t = append(t, hx.EncS(s.ID)+";"+hx.EncS(s.Node)+";"+payload(s)+";"+fmt.Sprint(s.ModifyIndex)+";"+strings.Join(cs, "+"))
	}
	return hx.EncList(t)
}
func (m *mstate) encSessionChecks() string {
	var t []string
	for _, c := range m.sessionChecks {
		t = append(t, hx.EncS(c[0])+";"+hx.EncS(c[1])+";"+hx.EncS(c[2]))
	}
	return hx.EncList(t)
}
func (m *mstate) encPeerings() string {
	var t []string
	for _, p := range m.peerings {
		t = append(t, hx.EncS(p.ID)+";"+payload(p)+";"+fmt.Sprint(p.ModifyIndex))
	}
	return hx.EncList(t)
}
func (m *mstate) encBundles() string {
	var t []string
	for _, p := range m.bundles {
		t = append(t, hx.EncS(p.PeerName)+";"+payload(p)+";"+fmt.Sprint(p.ModifyIndex))
	}
	return hx.EncList(t)
}

// persistedTableNames: CV.Snap.persistedTables (Props/C02.lean) + the resource store
var persistedTableNames = []string{"acl-auth-methods", "autopilot-config", "acl-binding-rules", "connect-ca-builtin", "connect-ca-config",
	"connect-ca-roots", "checks", "config-entries", "coordinates", "federation-states", "feature-gate-policy", "feature-gate-status",
	"free-virtual-ips", "index", "connect-intentions", "kvs", "nodes", "peering", "peering-trust-bundles", "peering-secrets", "acl-policies",
	"prepared-queries", "acl-roles", "services", "service-virtual-ips", "sessions", "system-metadata", "acl-tokens", "tombstones", "resources"}

var modelledKinds = map[string]bool{"sessions": true, "kvs": true, "tombstones": true, "index": true, "peering": true, "bundles": true}

func encStream(runs []run2) string {
	var t []string
	for _, r := range runs {
		if modelledKinds[r.kind] {
			t = append(t, fmt.Sprintf("%s:%d", r.kind, r.n))
		}
	}
	return hx.EncList(t)
}

// ---------------------------------------------------------------- monitors

type finding struct {
	sig, desc string
}

// topFields splits one canon row "(A=… B=… )" into its top-level fields; a non-struct row is field "".
func topFields(row string) map[string]string {
	out := map[string]string{}
	if len(row) < 2 || row[0] != '(' || row[len(row)-1] != ')' {
		out[""] = row
		return out
	}
	body := row[1 : len(row)-1]
	depth, inStr, start := 0, false, 0
	flush := func(end int) {
		tok := body[start:end]
		if tok == "" {
			return
		}
		if i := strings.IndexByte(tok, '='); i > 0 {
			out[tok[:i]] = tok[i+1:]
		} else {
			out[tok] = ""
		}
	}
	for i := 0; i < len(body); i++ {
		c := body[i]
		if inStr {
			if c == '\\' {
				i++
			} else if c == '"' {
				inStr = false
			}
			continue
		}
		switch c {
		case '"':
			inStr = true
		case '(', '[', '{':
			depth++
		case ')', ']', '}':
			depth--
		case ' ':
			if depth == 0 {
				flush(i)
				start = i + 1
			}
		}
	}
	flush(len(body))
	return out
}

func indexKeyClass(key string) string {
	key = strings.Trim(key, `"`)
	if i := strings.IndexAny(key, ".:"); i > 0 {
		return key[:i] + ".*"
	}
	return key
}

var reQName = regexp.MustCompile(`^[A-Za-z]+`)
var reIdx = regexp.MustCompile(`^idx=\d+ `)

// listElems splits "idx=N [a,b,c]" into its top-level elements (nil when the answer is not a list).
func listElems(out string) (head string, elems []string) {
	i := strings.IndexByte(out, ' ')
	if i < 0 || i+1 >= len(out) || out[i+1] != '[' || out[len(out)-1] != ']' {
		return out, nil
	}
	head, body := out[:i], out[i+2:len(out)-1]
	depth, inStr, start := 0, false, 0
	for j := 0; j < len(body); j++ {
		c := body[j]
		if inStr {
			if c == '\\' {
				j++
			} else if c == '"' {
				inStr = false
			}
			continue
		}
		switch c {
		case '"':
			inStr = true
		case '(', '[', '{':
			depth++
		case ')', ']', '}':
			depth--
		case ',':
			if depth == 0 {
				elems = append(elems, body[start:j])
				start = j + 1
			}
		}
	}
	elems = append(elems, body[start:])
	return head, elems
}

// sortedForm sorts the elements of EVERY list in a canon string, at any depth (ServiceTopology returns a
// struct whose Upstreams / Downstreams lists come out of Go maps).
func sortedForm(s string) string {
	var b strings.Builder
	for i := 0; i < len(s); {
		switch s[i] {
		case '"':
			j := i + 1
			for j < len(s) && s[j] != '"' {
				if s[j] == '\\' {
					j++
				}
				j++
			}
			if j >= len(s) {
				j = len(s) - 1
			}
			b.WriteString(s[i : j+1])
			i = j + 1
		case '[':
			depth, inStr, j := 0, false, i
			for ; j < len(s); j++ {
				c := s[j]
				if inStr {
					if c == '\\' {
						j++
					} else if c == '"' {
						inStr = false
					}
					continue
				}
				if c == '"' {
					inStr = true
				} else if c == '[' {
					depth++
				} else if c == ']' {
					depth--
					if depth == 0 {
						break
					}
				}
			}
			if j >= len(s) {
				b.WriteString(s[i:])
				return b.String()
			}
			_, el := listElems("x " + s[i:j+1])
			for k := range el {
				el[k] = sortedForm(el[k])
			}
			sort.Strings(el)
			b.WriteString("[" + strings.Join(el, ",") + "]")
			i = j + 1
		default:
			b.WriteByte(s[i])
			i++
		}
	}
	return b.String()
}

var nondetQueries = map[string]int{}

// compareQueries returns the read APIs whose answer (or only whose query index) differs. An answer that
// is the same up to the order of list elements (or another error text) is re-evaluated up to 200 times on
// the original: if the original's own answer varies, the variation comes from Go map iteration
// (canonicalisation rule: what came out of a map is not compared by order) and is ignored.
func compareQueries(prefix string, a, b []qres) (out []finding) {
	seen := map[string]bool{}
	for i := range a {
		if i >= len(b) || a[i].name != b[i].name {
			out = append(out, finding{prefix + "query-set", "query lists differ"})
			break
		}
		if a[i].out == b[i].out {
			continue
		}
		name := reQName.FindString(a[i].name)
		if a[i].again != nil && (sortedForm(a[i].out) == sortedForm(b[i].out) || (strings.Contains(a[i].out, " err=") && strings.Contains(b[i].out, " err="))) {
			// same elements in another order (at any depth), or two error texts: if the original's own answer
			// varies between evaluations, the variation is Go map iteration, not the restore
			varies := false
			for n := 0; n < 200 && !varies; n++ {
				o := a[i].again()
				varies = o != a[i].out
			}
			if varies {
				nondetQueries[name]++
				continue
			}
		}
		sig := prefix + "query:" + name
		if reIdx.ReplaceAllString(a[i].out, "") == reIdx.ReplaceAllString(b[i].out, "") {
			sig = prefix + "query-index:" + name
		}
		if seen[sig] {
			continue
		}
		seen[sig] = true
		out = append(out, finding{sig, fmt.Sprintf("%s original=%s restored=%s", a[i].name, clip(a[i].out, 500), clip(b[i].out, 500))})
	}
	return out
}

func sigList(fs []finding) string {
	var t []string
	for _, f := range fs {
		t = append(t, strings.TrimPrefix(f.sig, "snap:"))
	}
	return strings.Join(t, ", ")
}

// cutResult is everything observed about one cut of one history.
type cutResult struct {
	findings  []finding
	snapLen   int
	last      uint64
	runs      []run2
	pre       *mstate
	post      *mstate
	dumpA     Dump
	fatal     string
	postDiffs int
	usageKvs  string // usage row "kvs" of the restored server: "count;index" or "-"
	// the plain persisted tables (CV.SnapG) before the snapshot and after the restore
	gPreE, gPreL, gPostE, gPostL []grow
	gProblem                     string
}

// checkCut replays h[:k] on a fresh server A, snapshots, restores into B and runs monitors (i)-(iv).
// It is a pure function of (h, k): shrinking re-runs it on sub-histories.
func checkCut(u *universe, h []entry, k int, secondGen bool) *cutResult {
	res := &cutResult{}
	a := newServer()
	for _, e := range h[:k] {
		a.apply(e)
	}
	snapBytes, err := a.snapshot()
	if err != nil {
		res.findings = append(res.findings, finding{"snap:persist-error", err.Error()})
		res.fatal = err.Error()
		return res
	}
	res.snapLen = len(snapBytes)
	res.last, res.runs, err = readStream(snapBytes)
	if err != nil {
		res.findings = append(res.findings, finding{"snap:unreadable-stream", err.Error()})
	}
	res.pre = modelState(a.fsm.State())
	res.gPreE, res.gPreL, res.gProblem = gState(a.fsm.State())
	res.dumpA = dumpServer(a)
	qa := queries(a.fsm.State(), u)

	b, err := restoreServer(snapBytes)
	if err != nil {
		res.findings = append(res.findings, finding{"snap:restore-error", err.Error()})
		res.fatal = err.Error()
		return res
	}
	res.post = modelState(b.fsm.State())
	{
		var pr string
		res.gPostE, res.gPostL, pr = gState(b.fsm.State())
		if res.gProblem == "" {
			res.gProblem = pr
		}
	}
	res.usageKvs = "-"
	if idx, ku, err := b.fsm.State().KVUsage(); err == nil && ku.KVCount > 0 {
		res.usageKvs = fmt.Sprintf("%d;%d", ku.KVCount, idx)
	}
	dumpB := dumpServer(b)
	tableF := compareDumps("snap:", res.dumpA, dumpB, res.last, caseVariants(h[:k]))
	queryF := compareQueries("snap:", qa, queries(b.fsm.State(), u))
	// A read API is a function of the tables: its differences are the client-visible face of the table
	// differences of the same cut, and are reported with them (own signature only when no table differs).
	if len(tableF) > 0 {
		if len(queryF) > 0 {
			eg := queryF[0]
			for _, q := range queryF {
				if !strings.Contains(q.sig, "Usage") {
					eg = q
					break
				}
			}
			vis := " || client-visible through: " + sigList(queryF) + " || e.g. " + eg.desc
			for i := range tableF {
				tableF[i].desc += vis
			}
		} else {
			for i := range tableF {
				tableF[i].desc += " || no read API of the query set differs"
			}
		}
		res.findings = append(res.findings, tableF...)
	} else {
		res.findings = append(res.findings, queryF...)
	}

	if secondGen {
		sb2, err := b.snapshot()
		if err != nil {
			res.findings = append(res.findings, finding{"snap:persist-error-gen2", err.Error()})
		} else if c, err := restoreServer(sb2); err != nil {
			res.findings = append(res.findings, finding{"snap:restore-error-gen2", err.Error()})
		} else {
			last2, _, _ := readStream(sb2)
			res.findings = append(res.findings, compareDumps("snap:gen2:", dumpB, dumpServer(c), last2, caseVariants(h[:k]))...)
		}
	}

	// (iii) the rest of the log on both
	var postF []finding
	for i, e := range h[k:] {
		ra, rb := a.apply(e), b.apply(e)
		if ra != rb {
			postF = append(postF, finding{"snap:post-result:" + e.kind,
				fmt.Sprintf("entry %d (%s) after the cut: original=%s restored=%s", k+i, e.desc, clip(ra, 400), clip(rb, 400))})
		}
	}
	if k < len(h) {
		pt := compareDumps("snap:post:", dumpServer(a), dumpServer(b), 0, caseVariants(h))
		postF = append(postF, pt...)
		if len(pt) == 0 {
			postF = append(postF, compareQueries("snap:post:", queries(a.fsm.State(), u), queries(b.fsm.State(), u))...)
		}
	}
	res.postDiffs = len(postF)
	// a command that answers differently on the restored server is the hardest client-visible divergence: always
	// its own finding (the table differences of the same cut name the cause)
	if len(tableF) > 0 || len(queryF) > 0 {
		seenPR := map[string]bool{}
		for _, f := range postF {
			if strings.HasPrefix(f.sig, "snap:post-result:") && !seenPR[f.sig] {
				seenPR[f.sig] = true
				f.desc += " || differences at the cut: " + sigList(append(append([]finding{}, tableF...), queryF...))
				res.findings = append(res.findings, f)
			}
		}
	}
	if len(tableF) == 0 && len(queryF) == 0 {
		// equal at the cut yet different afterwards: state outside the tables was lost
		res.findings = append(res.findings, postF...)
	} else if len(postF) > 0 {
		for i := range res.findings {
			if !strings.HasPrefix(res.findings[i].sig, "snap:gen2:") {
				res.findings[i].desc += " || after applying the rest of the log: " + sigList(postF)
			}
		}
	}
	return res
}

// checkLate: a snapshot handle taken at k must be immutable. Server A2 replays h[:k]; snapshot 1 is taken and
// persisted at once; handle 2 is taken at the same point, then the next `late` entries are applied, and only then is
// handle 2 persisted. Both streams are restored and every table (+ index, usage, derived, resources) and the read
// APIs are compared: both sides went through restore, so the known restore mechanisms cancel and ANY difference is
// state of k+1.. leaking into (or state of k missing from) the snapshot of k. Pure function of (h, k, late).
func checkLate(u *universe, h []entry, k, late int) (out []finding) {
	if k+late > len(h) {
		late = len(h) - k
	}
	if late <= 0 {
		return nil
	}
	a := newServer()
	for _, e := range h[:k] {
		a.apply(e)
	}
	b1bytes, err := a.snapshot()
	if err != nil {
		return nil // reported by checkCut
	}
	var b2bytes []byte
	func() {
		defer func() {
			if p := recover(); p != nil {
				err = fmt.Errorf("panic: %v", p)
			}
		}()
		snap, e2 := a.fsm.Snapshot()
		if e2 != nil {
			err = e2
			return
		}
		defer snap.Release()
		for _, e := range h[k : k+late] {
			a.apply(e)
		}
		sk := &sink{}
		if e2 := snap.Persist(sk); e2 != nil {
			err = e2
			return
		}
		b2bytes = sk.Bytes()
	}()
	if err != nil {
		return []finding{{"snap:late-persist:persist-error", err.Error()}}
	}
	b1, err := restoreServer(b1bytes)
	if err != nil {
		return nil
	}
	b2, err := restoreServer(b2bytes)
	if err != nil {
		return []finding{{"snap:late-persist:restore-error", err.Error()}}
	}
	last, _, _ := readStream(b1bytes)
	var kinds []string
	for _, e := range h[k : k+late] {
		kinds = append(kinds, e.desc)
	}
	out = compareDumps("snap:late-persist:", dumpServer(b1), dumpServer(b2), last, caseVariants(h[:k]))
	if len(out) == 0 {
		out = compareQueries("snap:late-persist:", queries(b1.fsm.State(), u), queries(b2.fsm.State(), u))
	}
	for i := range out {
		out[i].desc = fmt.Sprintf("snapshot handle taken after %d entries, persisted after %d more had been applied (%s) differs from the snapshot persisted at once: %s",
			k, late, clip(strings.Join(kinds, " ; "), 300), out[i].desc)
	}
	return out
}

// caseVariants: did these entries register two service names / ids that differ by letter case only?
func caseVariants(h []entry) bool {
	seen := map[string]string{}
	for _, e := range h {
		for _, n := range e.svcNames {
			if n == "" {
				continue
			}
			l := strings.ToLower(n)
			if p, ok := seen[l]; ok && p != n {
				return true
			}
			seen[l] = n
		}
	}
	return false
}

func hasSig(fs []finding, sig string) bool {
	for _, f := range fs {
		if f.sig == sig {
			return true
		}
	}
	return false
}

// shrink: greedy one-at-a-time removal of log entries while the signature still fires.
func shrink(u *universe, h []entry, k int, sig string, budget int) ([]entry, int) {
	cur := append([]entry{}, h...)
	// entries after the cut only matter for post-cut signatures
	if !strings.HasPrefix(sig, "snap:post") {
		cur = cur[:k]
	}
	for i := len(cur) - 1; i >= 0 && budget > 0; i-- {
		cand := append(append([]entry{}, cur[:i]...), cur[i+1:]...)
		ck := k
		if i < k {
			ck = k - 1
		}
		if ck > len(cand) {
			ck = len(cand)
		}
		budget--
		if hasSig(checkCut(u, cand, ck, strings.Contains(sig, "gen2")).findings, sig) {
			cur, k = cand, ck
		}
	}
	return cur, k
}

func replayOps(h []entry, k int) []string {
	var out []string
	for i, e := range h {
		if i == k {
			out = append(out, fmt.Sprintf("--- cut: snapshot + restore here (after %d entries) ---", k))
		}
		out = append(out, fmt.Sprintf("@%d %s  [%s]", e.idx, e.desc, hex.EncodeToString(e.data)))
	}
	if k >= len(h) {
		out = append(out, fmt.Sprintf("--- cut: snapshot + restore here (after %d entries) ---", k))
	}
	return out
}

// ---------------------------------------------------------------- main

type witness struct {
	h    []entry
	k    int
	desc string
	n    int
}

func main() {
	run := hx.Start()
	// A real server sets its bind address at start-up (agent.New -> netutil.SetAgentBindAddr); without it
	// state.addIPOffset asks a local agent over HTTP and every registration that needs a virtual IP fails, so the
	// service-virtual-ips / free-virtual-ips tables would stay empty in every history. All servers of the harness
	// share one IPv4 bind address (what differs between address families is C01's finding env:bind-address-*).
	netutil.SetAgentBindAddr(&net.IPAddr{IP: net.ParseIP("10.0.0.1")})
	run.Rule = "for every generated history h and cut k: restore(snapshot(apply(h[:k]))) has the same tables (incl. index, usage, derived), " +
		"the same read-API results and query indexes, and the same results and final state for h[k:] as the server that took the snapshot"
	u := newUniverse()

	nHist := run.Scale(140, 180)
	maxLen := run.Scale(28, 40)
	witnesses := map[string]*witness{}
	cutsDone := 0

	runHistory := func(hi int, label string, h []entry, cuts []int, sample bool, storeTie bool) {
		// tag what the history did (results on a scratch server)
		{
			s := newServer()
			for _, e := range h {
				out := s.apply(e)
				cls := "ok"
				switch {
				case strings.HasPrefix(out, "err:"):
					cls = "err"
				case strings.HasPrefix(out, "panic:"):
					cls = "panic"
				case out == "F":
					cls = "false"
				}
				run.Tag("cmd:" + e.kind + ":" + cls)
			}
		}
		for ci, k := range cuts {
			secondGen := ci == len(cuts)-1 || (run.Thorough() && k%5 == 0)
			res := checkCut(u, h, k, secondGen)
			cutsDone++
			nonEmpty := 0
			for t, rows := range res.dumpA {
				if len(rows) > 0 {
					nonEmpty++
					run.Tag("cut:has:" + t)
				}
			}
			for _, rn := range res.runs {
				run.Tag("stream:" + rn.kind)
			}
			{
				// how many of the 29 persisted memdb tables (+ the resource store) hold rows at this cut
				persisted := 0
				for _, t := range persistedTableNames {
					if len(res.dumpA[t]) > 0 {
						persisted++
					}
				}
				if persisted == len(persistedTableNames) {
					run.Tag("cut:every-persisted-table-non-empty")
				} else if persisted >= 20 {
					run.Tag("cut:20+-persisted-tables-non-empty")
				}
			}
			key := sha256.Sum256([]byte(fmt.Sprintf("%s/%d/%x", label, k, sha256.Sum256([]byte(strings.Join(replayOps(h, k), "\n"))))))
			run.Case(hex.EncodeToString(key[:]), nonEmpty >= 3)
			if k == 0 {
				run.Tag("cut:at-start")
			} else if k == len(h) {
				run.Tag("cut:at-end")
			} else {
				run.Tag("cut:inside")
			}

			// correspondence line for the modelled instance
			if res.pre != nil && res.post != nil {
				op := fmt.Sprintf("rt %s %s %s %s %s %s", res.pre.encIndex(), res.pre.encKVs(), res.pre.encTombs(), res.pre.encSessions(), res.pre.encPeerings(), res.pre.encBundles())
				impl := fmt.Sprintf("last=%d idx=%s kvs=%s tombs=%s sess=%s sc=%s peer=%s tb=%s stream=%s usage=%s", res.last, res.post.encIndex(), res.post.encKVs(),
					res.post.encTombs(), res.post.encSessions(), res.post.encSessionChecks(), res.post.encPeerings(), res.post.encBundles(), encStream(res.runs), res.usageKvs)
				run.Line(op, impl)
				for name, n := range map[string]int{"kvs": len(res.pre.kvs), "tombstones": len(res.pre.tombs), "sessions": len(res.pre.sessions),
					"session-checks": len(res.pre.sessionChecks), "peerings": len(res.pre.peerings), "bundles": len(res.pre.bundles)} {
					if n > 0 {
						run.Tag("rt:" + name)
					}
					if n > 1 {
						run.Tag("rt:" + name + ":many")
					}
				}
			}
			// the plain persisted tables (CV.SnapG): restore (snapshot s) of the model against the restored rows of 25 tables,
			// the whole index table, the header and the order of the record kinds in the real stream
			if res.pre != nil && res.post != nil {
				if res.gProblem != "" {
					run.Tag("rtg:skipped:" + res.gProblem)
				} else {
					op := fmt.Sprintf("rtg %s %s %s", res.pre.encIndex(), encGRows(res.gPreE), encGRows(res.gPreL))
					impl := fmt.Sprintf("last=%d idx=%s rows=%s late=%s kinds=%s", res.last, res.post.encIndex(), encGRows(res.gPostE), encGRows(res.gPostL), gKindSeq(res.runs))
					run.Line(op, impl)
					run.Tag("rtg:line")
					per := map[string]int{}
					for _, r := range append(append([]grow{}, res.gPreE...), res.gPreL...) {
						per[r.name]++
						if r.create != r.modify {
							run.Tag("rtg:updated-row:" + r.name)
						}
					}
					for name, n := range per {
						run.Tag("rtg:" + name)
						if n > 1 {
							run.Tag("rtg:" + name + ":many")
						}
					}
					if len(per) >= 12 {
						run.Tag("rtg:12+tables-non-empty")
					}
				}
			}
			// store-model correspondence line: restoreS (snapshotS s) of CV.Store.Snap against the restored tables
			if storeTie && res.pre != nil && res.post != nil && res.pre.inStoreFragment() {
				op := fmt.Sprintf("rts %s %s %s %s %s %s %s %s", res.pre.sNodes(), res.pre.sSvcs(), res.pre.sChks(), res.pre.sSess(), res.pre.sKVs(),
					res.pre.encTombs(), res.pre.sPQs(), res.pre.sIndex())
				impl := fmt.Sprintf("ok last=%d nodes=%s svcs=%s chks=%s sess=%s sc=%s kvs=%s tombs=%s pqs=%s idx=%s", res.last, res.post.sNodes(), res.post.sSvcs(),
					res.post.sChks(), res.post.sSess(), res.post.encSessionChecks(), res.post.sKVs(), res.post.encTombs(), res.post.sPQs(), res.post.sIndex())
				run.Line(op, impl)
				run.Tag("rts:line")
				if len(res.pre.svcs) > 0 {
					run.Tag("rts:services")
				}
				if len(res.pre.chks) > 0 {
					run.Tag("rts:checks")
				}
				if len(res.pre.sessions) > 0 {
					run.Tag("rts:sessions")
				}
				if len(res.pre.queries) > 0 {
					run.Tag("rts:queries")
				}
			}
			if sample && ci == len(cuts)-1 {
				run.Sample(map[string]any{"history": label, "entries": len(h), "cut": k, "snapshot_bytes": res.snapLen,
					"rows": res.dumpA.rows(), "header_last_index": res.last, "findings": len(res.findings)})
			}
			if k < len(h) && (!run.Thorough() || k%3 == 0 || strings.HasPrefix(label, "scenario:")) {
				late := 1 + int(key[0])%3
				lf := checkLate(u, h, k, late)
				run.Tag("late-persist:checked")
				if k+late <= len(h) {
					run.Tag("late-persist:next:" + h[k].kind)
				}
				for _, f := range lf {
					run.Tag("finding:" + f.sig)
					hh := h
					if k+late < len(hh) {
						hh = hh[:k+late]
					}
					if w := witnesses[f.sig]; w == nil {
						witnesses[f.sig] = &witness{h: hh, k: k, desc: f.desc, n: 1}
					} else {
						w.n++
						if len(hh) < len(w.h) {
							w.h, w.k, w.desc = hh, k, f.desc
						}
					}
				}
			}
			for _, f := range res.findings {
				run.Tag("finding:" + f.sig)
				w := witnesses[f.sig]
				if w == nil {
					witnesses[f.sig] = &witness{h: h, k: k, desc: f.desc, n: 1}
				} else {
					w.n++
					if len(h) < len(w.h) || (len(h) == len(w.h) && k < w.k) {
						w.h, w.k, w.desc = h, k, f.desc
					}
				}
			}
		}
	}

	// corpus first: the fixed scenarios, every cut
	for _, sc := range scenarios(u) {
		var cuts []int
		for k := 0; k <= len(sc.h); k++ {
			cuts = append(cuts, k)
		}
		run.Tag("scenario:" + sc.name)
		runHistory(-1, "scenario:"+sc.name, sc.h, cuts, false, strings.HasPrefix(sc.name, "store-"))
	}

	for hi := 0; hi < nHist; hi++ {
		r := run.RNG.Fork(uint64(hi))
		profile := profiles[hi%len(profiles)]
		n := 4 + r.Intn(maxLen-3)
		h := genHistory(r, u, profile, n)
		run.Tag("profile:" + profile)

		var cuts []int
		if run.Thorough() {
			for k := 0; k <= len(h); k++ {
				cuts = append(cuts, k)
			}
		} else {
			seen := map[int]bool{len(h): true}
			cuts = append(cuts, len(h))
			for len(cuts) < 3 {
				k := r.Intn(len(h) + 1)
				if !seen[k] {
					seen[k] = true
					cuts = append(cuts, k)
				}
			}
			sort.Ints(cuts)
		}
		runHistory(hi, fmt.Sprintf("%s#%d", profile, hi), h, cuts, hi < 4, profile == "store" || profile == "kv")
	}

	// "full" histories: every persisted table non-empty at every cut taken (cuts lie after the filling prefix), rows
	// updated / deleted / re-created by the tail, Raft indexes far apart
	nFull := run.Scale(5, 16)
	for fi := 0; fi < nFull; fi++ {
		r := run.RNG.Fork(uint64(1_000_000 + fi))
		h, prefix := genFullHistory(r, u, 8+r.Intn(run.Scale(16, 30)))
		run.Tag("profile:full")
		seen := map[int]bool{len(h): true, prefix: true}
		cuts := []int{prefix, len(h)}
		want := 4
		if run.Thorough() {
			want = 10
		}
		for tries := 0; len(cuts) < want && tries < 100; tries++ {
			k := prefix + r.Intn(len(h)-prefix+1)
			if !seen[k] {
				seen[k] = true
				cuts = append(cuts, k)
			}
		}
		sort.Ints(cuts)
		runHistory(10_000+fi, fmt.Sprintf("full#%d", fi), h, cuts, fi == 0, false)
	}

	// one violation per signature, with a shrunk witness
	sigs := make([]string, 0, len(witnesses))
	for s := range witnesses {
		sigs = append(sigs, s)
	}
	sort.Strings(sigs)
	for _, sig := range sigs {
		w := witnesses[sig]
		sh, sk := w.h, w.k
		if strings.HasPrefix(sig, "snap:late-persist:") {
			// witness = history up to the last late-applied entry; the cut marker is where the handle was taken
			run.Violate(sig, fmt.Sprintf("%s (seen at %d cuts; witness: %d entries, handle taken after %d)", w.desc, w.n, len(sh), sk), replayOps(sh, sk))
			continue
		}
		if len(sh) > 3 {
			sh, sk = shrink(u, w.h, w.k, sig, run.Scale(60, 120))
		} else if !strings.HasPrefix(sig, "snap:post") {
			sh = sh[:sk]
		}
		desc := w.desc
		for _, f := range checkCut(u, sh, sk, strings.Contains(sig, "gen2")).findings {
			if f.sig == sig {
				desc = f.desc
				break
			}
		}
		run.Violate(sig, fmt.Sprintf("%s (seen at %d cuts; witness: %d entries, cut after %d)", desc, w.n, len(sh), sk), replayOps(sh, sk))
	}
	for q, n := range nondetQueries {
		run.Hist["query-order-from-map:"+q] += n
	}
	run.Extra["cuts"] = cutsDone
	run.Extra["histories"] = nHist
	run.Finish()
}
