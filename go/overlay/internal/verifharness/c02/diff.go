//go:build verif

package main

import (
	"fmt"
	"sort"
	"strconv"
	"strings"
)

// Naming of differences between the server that took a snapshot ("original") and the restored one.
//
// Rows are paired by the table's primary key (lower-cased, as memdb indexes it). Every difference gets
//
//	<prefix><table>:<Field>          a paired row differs in that top-level field            (generic)
//	<prefix><table>:rows-lost/-added a row has no counterpart                                 (generic)
//	<prefix>index:<key class>[…]     index table, by key class ("service.web" → "service.*")  (generic)
//
// UNLESS the observed difference is exactly what one of the known mechanisms below predicts; then it gets
// that mechanism's signature instead. A mechanism signature is only emitted when its prediction is checked
// against the two dumps (restored value == what the mechanism computes), so a new defect touching the same
// column keeps the generic signature and is reported as a new violation.
//
// Known mechanisms (all found by this harness on the pinned tree; see known_findings.txt):
//
//	usage:Index:restore-uses-max-of-table-indexes            restored Index == max(index[nodes], index[services], index[kvs]), Count equal
//	usage:zero-count-row-not-recreated                       original row has Count 0, row absent after restore
//	kind-service-names:RaftIndex:rebuilt-at-header-lastindex restored Create==Modify==header.LastIndex, nothing else differs
//	mesh-topology:RaftIndex:rebuilt-at-header-lastindex      same
//	mesh-topology:RaftIndex:rebuilt-at-config-entry-modifyindex   gateway rows: restored Create==Modify==ModifyIndex of the gateway's config entry
//	gateway-services:RaftIndex:rebuilt-at-config-entry-modifyindex   restored Create==Modify==ModifyIndex of the gateway's config entry
//	gateway-services:ServiceKind:kind-empty-after-restore    ServiceKind "service" (set when an instance registered after the config entry) → "" for
//	                                                          wildcard rows and ingress / api gateway rows, which the config-entry path rebuilds without a kind
//	gateway-services:wildcard-overwrites-explicit-online     original row FromWildcard (or deleted again as a wildcard row), restored row explicit,
//	                                                          config entry lists the service AND "*"
//	gateway-services:rows-lost:proxy-without-destination-instance   lost wildcard row created online by a proxy registration for a service that has no
//	                                                          local typical instance with a local connect instance (what restore's expansion walks)
//	mesh-topology:rows-lost:proxy-without-destination-instance      its twin (Upstream = that service, Downstream = the gateway)
//	gateway-services:rows-lost:wildcard-row-stale-online     lost wildcard row of a service that restore's expansion rule (restoreWouldExpand) skips
//	mesh-topology:rows-lost:stale-row-of-vanished-proxy-online      lost row none of whose Refs (node/serviceID) is a registered instance any more
//	mesh-topology:rows-added:refs-ignore-peer-name           added row whose Ref matches both a local proxy and an imported proxy that still has the upstream
//	kind-service-names:connect-enabled-row-stale-online      lost connect-enabled row, no connect instance of the service exists any more
//	kind-service-names:row-stale-after-service-renamed       lost typical-kind row of a name no local instance carries any more
//	peering-secret-uuids:active-secret-added-by-restore      added uuid is the ActiveSecretID of a stored peering-secrets row
//	peering-secret-uuids:rows-lost:stale-uuid-no-secrets-row-names-it-online   lost uuid that no peering-secrets row of the original names
//	checks:ServiceTags:stale-online-copy (also ServiceName)  restored value == the current service row's value
//	case-folding:<table>                                      the differing values are equal ignoring letter case (or: a Count
//	                                                          of usage "service-names" while two service names differ by case only)

type cutCtx struct {
	a, b Dump   // original, restored
	last uint64 // header LastIndex of the snapshot that was restored into b (0 = unknown)
	// the history before the cut registered two service names / ids that differ by letter case only
	caseVariants bool
}

var tableKeys = map[string][]string{
	"nodes": {"Node", "PeerName"}, "services": {"Node", "ServiceID", "PeerName"}, "checks": {"Node", "CheckID", "PeerName"},
	"coordinates": {"Node", "Segment"}, "kvs": {"Key"}, "tombstones": {"Key"}, "sessions": {"ID"},
	"session_checks": {"Node", "CheckID", "Session"}, "acl-tokens": {"AccessorID"}, "acl-policies": {"ID"}, "acl-roles": {"ID"},
	"acl-binding-rules": {"ID"}, "acl-auth-methods": {"Name"}, "config-entries": {"Kind", "Name"},
	"gateway-services": {"Gateway", "Service", "Port"}, "mesh-topology": {"Upstream", "Downstream"},
	"kind-service-names": {"Kind", "Service"}, "service-virtual-ips": {"Service"}, "free-virtual-ips": {"IP"},
	"peering": {"ID"}, "peering-trust-bundles": {"PeerName"}, "peering-secrets": {"PeerID"}, "prepared-queries": {"ID"},
	"federation-states": {"Datacenter"}, "system-metadata": {"Key"}, "connect-ca-roots": {"ID"}, "connect-ca-builtin": {"ID"},
	"connect-intentions": {"ID"}, "index": {"Key"}, "usage": {"ID"},
	"autopilot-config": {}, "connect-ca-config": {}, "feature-gate-policy": {}, "feature-gate-status": {},
}

func rowKey(t string, f map[string]string, raw string) string {
	ks, ok := tableKeys[t]
	if !ok {
		return raw
	}
	var parts []string
	for _, k := range ks {
		parts = append(parts, strings.ToLower(f[k]))
	}
	return strings.Join(parts, "\x00")
}

func unq(s string) string {
	if u, err := strconv.Unquote(s); err == nil {
		return u
	}
	return s
}

// nested("(Name=\"web\")", "Name") == "web"
func nested(v, field string) string { return unq(topFields(v)[field]) }

func raftIdx(f map[string]string) (c, m uint64) {
	r := topFields(f["RaftIndex"])
	c, _ = strconv.ParseUint(r["CreateIndex"], 10, 64)
	m, _ = strconv.ParseUint(r["ModifyIndex"], 10, 64)
	return
}

func (c *cutCtx) indexValue(key string) uint64 {
	for _, r := range c.a["index"] {
		f := topFields(r)
		if strings.EqualFold(unq(f["Key"]), key) {
			v, _ := strconv.ParseUint(f["Value"], 10, 64)
			return v
		}
	}
	return 0
}

func (c *cutCtx) configEntry(kind, name string) map[string]string {
	for _, r := range c.b["config-entries"] {
		f := topFields(r)
		if unq(f["Kind"]) == kind && strings.EqualFold(unq(f["Name"]), name) {
			return f
		}
	}
	return nil
}

// service instance facts of the original catalog (local, non-peered)
func (c *cutCtx) hasInstanceNamed(svc string) bool {
	for _, r := range c.a["services"] {
		f := topFields(r)
		if f["PeerName"] == "" && strings.EqualFold(unq(f["ServiceName"]), svc) {
			return true
		}
	}
	return false
}

// hasConnectInstanceFor: some proxy names svc as its destination, or an instance of svc is connect-native.
// anyPeer also counts imported (peered) rows: ensureServiceTxn runs checkGatewayWildcardsAndUpdate for them.
func (c *cutCtx) hasConnectInstanceFor(svc string, anyPeer bool) bool {
	for _, r := range c.a["services"] {
		f := topFields(r)
		if !anyPeer && f["PeerName"] != "" {
			continue
		}
		if unq(f["ServiceKind"]) == "connect-proxy" && strings.EqualFold(nested(f["ServiceProxy"], "DestinationServiceName"), svc) {
			return true
		}
		if strings.EqualFold(unq(f["ServiceName"]), svc) && topFields(f["ServiceConnect"])["Native"] == "T" {
			return true
		}
	}
	return false
}

// restoreWouldExpand: would restore's wildcard expansion (state/catalog.go updateGatewayNamespace, run by
// Restore.ConfigEntry after all registrations) create the row gateway -> svc? It walks LOCAL TYPICAL instances
// and keeps a name iff it has a local connect instance (ingress / api gateway) resp. a local instance that is
// not connect-native (terminating gateway).
func (c *cutCtx) restoreWouldExpand(gwKind, svc string) bool {
	typical, hasConnect, hasNonConnect := false, c.hasConnectInstanceFor(svc, false), false
	for _, r := range c.a["services"] {
		f := topFields(r)
		if f["PeerName"] != "" || !strings.EqualFold(unq(f["ServiceName"]), svc) {
			continue
		}
		if f["ServiceKind"] == "" {
			typical = true
		}
		if topFields(f["ServiceConnect"])["Native"] != "T" {
			hasNonConnect = true
		}
	}
	if gwKind == "terminating-gateway" {
		return typical && hasNonConnect
	}
	return typical && hasConnect
}

// wildcardRowOnlyFromProxy: the online wildcard row exists because a proxy registration created it
// (checkGatewayWildcardsAndUpdate), while restore's expansion (updateGatewayNamespace) walks local typical
// instances that have a local connect instance — and finds none for this service.
func (c *cutCtx) wildcardRowOnlyFromProxy(svc string) bool {
	return c.hasConnectInstanceFor(svc, true) && !(c.hasInstanceNamed(svc) && c.hasConnectInstanceFor(svc, false))
}

// refsOf: keys "node/serviceID" of a mesh-topology row's Refs map
func refsOf(f map[string]string) (out [][2]string) {
	v := f["Refs"]
	for {
		i := strings.IndexByte(v, '"')
		if i < 0 {
			return
		}
		j := strings.IndexByte(v[i+1:], '"')
		if j < 0 {
			return
		}
		key := v[i+1 : i+1+j]
		v = v[i+j+2:]
		if k := strings.IndexByte(key, '/'); k > 0 {
			out = append(out, [2]string{key[:k], key[k+1:]})
		}
	}
}

// instancesAt: service rows (any peer) at node/serviceID, compared as memdb does (ignoring case)
func (c *cutCtx) instancesAt(d Dump, node, id string) (rows []map[string]string) {
	for _, r := range d["services"] {
		f := topFields(r)
		if strings.EqualFold(unq(f["Node"]), node) && strings.EqualFold(unq(f["ServiceID"]), id) {
			rows = append(rows, f)
		}
	}
	return
}

// recountServiceNames: what restore's updateServiceNameUsage computes for usage "service-names" — one per
// exact spelling all of whose lower-case-equal instances carry that very spelling.
func (c *cutCtx) recountServiceNames() int {
	exact, folded := map[string]int{}, map[string]int{}
	for _, r := range c.b["services"] {
		f := topFields(r)
		if f["PeerName"] != "" {
			continue
		}
		n := unq(f["ServiceName"])
		exact[n]++
		folded[strings.ToLower(n)]++
	}
	cnt := 0
	for n, k := range exact {
		if folded[strings.ToLower(n)] == k {
			cnt++
		}
	}
	return cnt
}

// usageServiceNamesDrift: the online counter of distinct service names had drifted because names that differ
// only by case were registered (Go map keyed by exact name, instances counted through the lower-cased
// index); restore recounts. restoredCount == "" means the row is absent after restore.
func (c *cutCtx) usageServiceNamesDrift(restoredCount string) bool {
	if !c.caseVariants && !c.serviceNamesDifferingByCase() {
		return false
	}
	want := c.recountServiceNames()
	if restoredCount == "" {
		return want == 0
	}
	got, err := strconv.Atoi(restoredCount)
	return err == nil && got == want
}

func (c *cutCtx) serviceRow(node, id, peer string) map[string]string {
	for _, r := range c.b["services"] {
		f := topFields(r)
		if f["PeerName"] == peer && strings.EqualFold(unq(f["Node"]), node) && strings.EqualFold(unq(f["ServiceID"]), id) {
			return f
		}
	}
	return nil
}
func (c *cutCtx) serviceNamesDifferingByCase() bool {
	seen := map[string]string{}
	for _, r := range c.a["services"] {
		n := unq(topFields(r)["ServiceName"])
		l := strings.ToLower(n)
		if p, ok := seen[l]; ok && p != n {
			return true
		}
		seen[l] = n
	}
	// a service row renamed up to case leaves kind-service-names with the older spelling
	for _, r := range c.a["kind-service-names"] {
		n := nested(topFields(r)["Service"], "Name")
		if p, ok := seen[strings.ToLower(n)]; ok && p != n {
			return true
		}
	}
	return false
}

func diffTable(prefix, t string, c *cutCtx) []finding {
	a, b := c.a[t], c.b[t]
	if tableDiff(a, b) == "" {
		return nil
	}
	var out []finding
	add := func(sig, desc string) {
		for _, f := range out {
			if f.sig == prefix+sig {
				return
			}
		}
		out = append(out, finding{prefix + sig, desc})
	}
	type prow struct {
		raw string
		f   map[string]string
	}
	am, bm := map[string]prow{}, map[string]prow{}
	var keys []string
	for _, r := range a {
		f := topFields(r)
		k := rowKey(t, f, r)
		if _, dup := am[k]; !dup {
			keys = append(keys, k)
		}
		am[k] = prow{r, f}
	}
	for _, r := range b {
		f := topFields(r)
		k := rowKey(t, f, r)
		if _, ok := am[k]; !ok {
			if _, dup := bm[k]; !dup {
				keys = append(keys, k)
			}
		}
		bm[k] = prow{r, f}
	}
	sort.Strings(keys)
	for _, k := range keys {
		ra, aok := am[k]
		rb, bok := bm[k]
		switch {
		case aok && !bok:
			c.lostRow(t, ra.f, ra.raw, add)
		case !aok && bok:
			c.addedRow(t, rb.f, rb.raw, add)
		case ra.raw != rb.raw:
			c.changedRow(t, ra.f, rb.f, ra.raw, rb.raw, add)
		}
	}
	if len(out) == 0 {
		add(t+":row-order", fmt.Sprintf("table %s has the same rows in another order: %s", t, tableDiff(a, b)))
	}
	return out
}

func (c *cutCtx) lostRow(t string, f map[string]string, raw string, add func(sig, desc string)) {
	desc := fmt.Sprintf("table %s: row of the original missing after restore: %s", t, clip(raw, 600))
	switch t {
	case "index":
		add("index:"+indexKeyClass(f["Key"])+":lost", desc)
		return
	case "usage":
		if f["Count"] == "" {
			add("usage:zero-count-row-not-recreated", fmt.Sprintf("usage row %s (count 0, index %s) does not exist after restore", f["ID"], f["Index"]))
		} else if unq(f["ID"]) == "service-names" && c.usageServiceNamesDrift("") {
			add("case-folding:usage", desc)
		} else {
			add("usage:"+unq(f["ID"])+":lost", desc)
		}
		return
	case "gateway-services":
		svc := nested(f["Service"], "Name")
		if f["FromWildcard"] == "T" && c.wildcardRowOnlyFromProxy(svc) {
			add("gateway-services:rows-lost:proxy-without-destination-instance", desc)
			return
		}
		// the online row outlived the condition that created it (e.g. the service became connect-native under a
		// terminating gateway, or lost its last proxy under an ingress gateway): restore's expansion skips it
		if f["FromWildcard"] == "T" && !c.restoreWouldExpand(unq(f["GatewayKind"]), svc) {
			add("gateway-services:rows-lost:wildcard-row-stale-online", desc)
			return
		}
	case "mesh-topology":
		up, down := nested(f["Upstream"], "Name"), nested(f["Downstream"], "Name")
		gw := c.configEntry("ingress-gateway", down)
		if gw == nil {
			gw = c.configEntry("terminating-gateway", down)
		}
		if gw != nil && c.wildcardRowOnlyFromProxy(up) {
			add("mesh-topology:rows-lost:proxy-without-destination-instance", desc)
			return
		}
		// stale online row: none of the proxies it refers to exists any more (e.g. its node was renamed by ID)
		if refs := refsOf(f); len(refs) > 0 {
			stale := true
			for _, r := range refs {
				if len(c.instancesAt(c.a, r[0], r[1])) > 0 {
					stale = false
				}
			}
			if stale {
				add("mesh-topology:rows-lost:stale-row-of-vanished-proxy-online", desc)
				return
			}
		}
	case "kind-service-names":
		svc := nested(f["Service"], "Name")
		if unq(f["Kind"]) == "connect-enabled" && !c.hasConnectInstanceFor(svc, false) {
			add("kind-service-names:connect-enabled-row-stale-online", desc)
			return
		}
		// a service id re-registered under another service name: ensureServiceTxn upserts the new name's row and
		// leaves the old name's row behind (only deleteServiceTxn cleans up); restore has nothing to build it from
		if f["Kind"] == "" && !c.hasInstanceNamed(svc) {
			add("kind-service-names:row-stale-after-service-renamed", desc)
			return
		}
	}
	if t == "peering-secret-uuids" {
		// A uuid tracked online that NO peering-secrets row of the original names (establishment, pending or active):
		// a stale tracking row — peeringSecretsWriteTxn's dialer branch (Establish) overwrites the secrets row of the
		// peering ID without freeing the uuids of the row it replaces — which restore cannot rebuild. A lost uuid that
		// a secrets row still names (an accepting peer's active secret, say) keeps the generic signature.
		id, named := unq(raw), false
		for _, r := range c.a["peering-secrets"] {
			sf := topFields(r)
			if nested(sf["Establishment"], "SecretID") == id || nested(sf["Stream"], "PendingSecretID") == id || nested(sf["Stream"], "ActiveSecretID") == id {
				named = true
			}
		}
		if !named {
			add("peering-secret-uuids:rows-lost:stale-uuid-no-secrets-row-names-it-online", desc)
			return
		}
	}
	add(t+":rows-lost", desc)
}

func (c *cutCtx) addedRow(t string, f map[string]string, raw string, add func(sig, desc string)) {
	desc := fmt.Sprintf("table %s: row exists only after restore: %s", t, clip(raw, 600))
	switch t {
	case "index":
		add("index:"+indexKeyClass(f["Key"])+":added", desc)
		return
	case "usage":
		add("usage:"+unq(f["ID"])+":added", desc)
		return
	case "gateway-services":
		// consequence of wildcard-overwrites-explicit-online: once the explicit row has been turned into a wildcard
		// row, deregistering the service deletes it (cleanupGatewayWildcards); restore rebuilds the explicit row
		svc := nested(f["Service"], "Name")
		if ce := c.configEntry(unq(f["GatewayKind"]), nested(f["Gateway"], "Name")); ce != nil && f["FromWildcard"] == "" && svc != "*" &&
			strings.Contains(ce["Services"], `(Name="*"`) && strings.Contains(strings.ToLower(ce["Services"]), `(name="`+strings.ToLower(svc)+`"`) {
			add("gateway-services:wildcard-overwrites-explicit-online", desc)
			return
		}
	case "mesh-topology":
		// Refs are keyed node/serviceID without the peer: a local proxy re-registered without the upstream
		// removed the row online although an imported proxy with the same node/id still has the upstream
		up := nested(f["Upstream"], "Name")
		for _, r := range refsOf(f) {
			local, peered := false, false
			for _, inst := range c.instancesAt(c.b, r[0], r[1]) {
				if inst["PeerName"] == "" {
					local = true
				} else if strings.Contains(strings.ToLower(inst["ServiceProxy"]), `destinationname="`+strings.ToLower(up)+`"`) {
					peered = true
				}
			}
			if local && peered {
				add("mesh-topology:rows-added:refs-ignore-peer-name", desc)
				return
			}
		}
	case "peering-secret-uuids":
		// only the DIALER shape: the uuid is the active stream secret of a peering that dials (PeerServerAddresses
		// set), whose Establish path never tracked it online. An accepting peering tracks all its secrets online,
		// so any difference there (and any LOST uuid) keeps the generic signature.
		id := unq(raw)
		for _, r := range c.a["peering-secrets"] {
			f := topFields(r)
			if nested(f["Stream"], "ActiveSecretID") != id {
				continue
			}
			peeringKnown := false
			for _, pr := range c.a["peering"] {
				pf := topFields(pr)
				if unq(pf["ID"]) == unq(f["PeerID"]) {
					peeringKnown = true
					if pf["PeerServerAddresses"] != "" {
						add("peering-secret-uuids:active-secret-added-by-restore", desc)
						return
					}
				}
			}
			// secrets row orphaned by PeeringDelete (the peering row is gone, so its side cannot be read any more):
			// accept only the pure dialer shape — nothing but an active secret
			if !peeringKnown && f["Establishment"] == "" && nested(f["Stream"], "PendingSecretID") == "" {
				add("peering-secret-uuids:active-secret-added-by-restore", desc)
				return
			}
		}
	}
	add(t+":rows-added", desc)
}

func (c *cutCtx) changedRow(t string, fa, fb map[string]string, rawA, rawB string, add func(sig, desc string)) {
	desc := fmt.Sprintf("table %s: original=%s restored=%s", t, clip(rawA, 700), clip(rawB, 700))
	diff := map[string]bool{}
	for k := range fa {
		if fa[k] != fb[k] {
			diff[k] = true
		}
	}
	for k := range fb {
		if fa[k] != fb[k] {
			diff[k] = true
		}
	}
	explained := func(fields ...string) {
		for _, k := range fields {
			delete(diff, k)
		}
	}
	bc, bm := raftIdx(fb)
	switch t {
	case "index":
		add("index:"+indexKeyClass(fa["Key"]), fmt.Sprintf("index row %s: original=%s restored=%s", fa["Key"], fa["Value"], fb["Value"]))
		explained("Value")
	case "usage":
		id := unq(fa["ID"])
		if diff["Count"] {
			if id == "service-names" && c.usageServiceNamesDrift(fb["Count"]) {
				add("case-folding:usage", desc)
			} else {
				add("usage:"+id+":Count", desc)
			}
			explained("Count", "Index")
		} else if diff["Index"] {
			want := c.indexValue("nodes")
			for _, k := range []string{"services", "kvs"} {
				if v := c.indexValue(k); v > want {
					want = v
				}
			}
			got, _ := strconv.ParseUint(fb["Index"], 10, 64)
			if got == want {
				add("usage:Index:restore-uses-max-of-table-indexes", fmt.Sprintf("usage row %s (count %s): original index=%s, restored index=%d = max(index[nodes], index[services], index[kvs])", id, fa["Count"], fa["Index"], got))
				explained("Index")
			}
		}
	case "kind-service-names", "mesh-topology":
		if diff["RaftIndex"] && t == "mesh-topology" {
			// gateway rows are rebuilt by Restore.ConfigEntry, not by Restore.Registration
			down := nested(fa["Downstream"], "Name")
			for _, kind := range []string{"ingress-gateway", "terminating-gateway", "api-gateway"} {
				if ce := c.configEntry(kind, down); ce != nil {
					if _, em := raftIdx(ce); em != 0 && bc == em && bm == em {
						add("mesh-topology:RaftIndex:rebuilt-at-config-entry-modifyindex", desc)
						explained("RaftIndex")
					}
				}
			}
		}
		if diff["RaftIndex"] && c.last != 0 && bc == c.last && bm == c.last {
			add(t+":RaftIndex:rebuilt-at-header-lastindex", desc)
			explained("RaftIndex")
		}
	case "gateway-services":
		gwKind, gwName, svc := unq(fa["GatewayKind"]), nested(fa["Gateway"], "Name"), nested(fa["Service"], "Name")
		ce := c.configEntry(gwKind, gwName)
		if ce != nil && fa["FromWildcard"] == "T" && fb["FromWildcard"] == "" && svc != "*" &&
			strings.Contains(ce["Services"], `(Name="*"`) && strings.Contains(strings.ToLower(ce["Services"]), `(name="`+strings.ToLower(svc)+`"`) {
			add("gateway-services:wildcard-overwrites-explicit-online", desc)
			explained("CAFile", "CertFile", "KeyFile", "SNI", "FromWildcard", "RaftIndex", "ServiceKind")
		}
		if diff["ServiceKind"] && unq(fa["ServiceKind"]) == "service" && fb["ServiceKind"] == "" && (c.hasInstanceNamed(svc) || c.hasConnectInstanceFor(svc, true)) &&
			(fa["FromWildcard"] == "T" || gwKind != "terminating-gateway") {
			add("gateway-services:ServiceKind:kind-empty-after-restore", desc)
			explained("ServiceKind")
		}
		if diff["ServiceKind"] && unq(fa["ServiceKind"]) == "service" && fb["ServiceKind"] == "" && gwKind == "terminating-gateway" &&
			fa["FromWildcard"] == "" && !c.hasInstanceNamed(svc) && c.caseVariants {
			// explicit terminating-gateway row for "web" whose kind was resolved through the lower-cased index from
			// an instance spelled "Web": removing that instance looks the row up by its exact name and leaves the
			// kind behind; restore resolves it again and finds no instance
			add("case-folding:gateway-services", desc)
			explained("ServiceKind")
		}
		if diff["RaftIndex"] && ce != nil {
			if _, em := raftIdx(ce); em != 0 && bc == em && bm == em {
				add("gateway-services:RaftIndex:rebuilt-at-config-entry-modifyindex", desc)
				explained("RaftIndex")
			}
		}
	case "checks":
		if sr := c.serviceRow(unq(fb["Node"]), unq(fb["ServiceID"]), fb["PeerName"]); sr != nil {
			if diff["ServiceTags"] && sr["ServiceTags"] == fb["ServiceTags"] {
				add("checks:ServiceTags:stale-online-copy", desc)
				explained("ServiceTags")
			}
			if diff["ServiceName"] && sr["ServiceName"] == fb["ServiceName"] && !strings.EqualFold(fa["ServiceName"], fb["ServiceName"]) {
				add("checks:ServiceName:stale-online-copy", desc)
				explained("ServiceName")
			}
		}
	}
	// rows paired by the lower-cased key whose key is spelled differently (two names that differ only by case
	// share one row): whichever writer came last owns the row, online and on restore — case-folding family
	if len(diff) > 0 {
		for _, k := range tableKeys[t] {
			if fa[k] != fb[k] && strings.EqualFold(fa[k], fb[k]) {
				add("case-folding:"+t, desc)
				diff = map[string]bool{}
				break
			}
		}
	}
	// whatever no mechanism explained: generic, per field
	var rest []string
	for k := range diff {
		rest = append(rest, k)
	}
	sort.Strings(rest)
	onlyRaft := len(rest) == 1 && rest[0] == "RaftIndex"
	for _, k := range rest {
		if k == "RaftIndex" && !onlyRaft {
			continue // subsumed by the content difference of the same row
		}
		if fa[k] != fb[k] && strings.EqualFold(fa[k], fb[k]) {
			add("case-folding:"+t, desc)
			continue
		}
		add(t+":"+k, desc)
	}
}

func compareDumps(prefix string, a, b Dump, last uint64, caseVariants bool) []finding {
	c := &cutCtx{a: a, b: b, last: last, caseVariants: caseVariants}
	var out []finding
	seen := map[string]bool{}
	for _, t := range append(a.tables(), b.tables()...) {
		if seen[t] {
			continue
		}
		seen[t] = true
		out = append(out, diffTable(prefix, t, c)...)
	}
	return out
}
