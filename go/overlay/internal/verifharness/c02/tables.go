//go:build verif

package main

import (
	"fmt"
	"reflect"
	"sort"
	"strings"

	"github.com/hashicorp/consul/agent/consul/state"
	"github.com/hashicorp/consul/agent/structs"
	"github.com/hashicorp/consul/internal/verifharness/hx"
	"github.com/hashicorp/consul/proto/private/pbpeering"
)

// The plain persisted tables of the Lean model CV.SnapG (op `rtg`): every row is table name, primary key, a digest of
// the canonical rendering of the WHOLE row, create / modify index and one flag (virtual IP of a peered service).
// Rows are sent ordered by (table number of the model = persist order, key).

type grow struct {
	tab              int
	name, key, pay   string
	create, modify   uint64
	aux              bool
}

// gTables mirrors CV.SnapG.tables (name, record kind of the stream, persisted after the index table)
var gTables = []struct {
	name, kind string
	late       bool
}{
	{"service-virtual-ips", "vips", false}, {"free-virtual-ips", "free-vips", false}, {"coordinates", "coordinates", false},
	{"sessions", "sessions", false}, {"acl-tokens", "acl-tokens", false}, {"acl-policies", "acl-policies", false},
	{"acl-roles", "acl-roles", false}, {"acl-binding-rules", "acl-rules", false}, {"acl-auth-methods", "acl-methods", false},
	{"kvs", "kvs", false}, {"tombstones", "tombstones", false}, {"prepared-queries", "queries", false},
	{"autopilot-config", "autopilot", false}, {"feature-gate-policy", "feature-gates", false}, {"feature-gate-status", "feature-gates", false},
	{"connect-intentions", "intentions", false}, {"connect-ca-roots", "ca-roots", false}, {"connect-ca-builtin", "ca-provider", false},
	{"connect-ca-config", "ca-config", false}, {"config-entries", "config-entries", false}, {"federation-states", "federation-states", false},
	{"system-metadata", "system-metadata", false}, {"peering", "peering", true}, {"peering-trust-bundles", "bundles", true},
	{"peering-secrets", "peering-secrets", true},
}

var gTabNo = func() map[string]int {
	m := map[string]int{}
	for i, t := range gTables {
		m[t.name] = i
	}
	return m
}()

var gKinds = func() map[string]bool {
	m := map[string]bool{"index": true}
	for _, t := range gTables {
		m[t.kind] = true
	}
	return m
}()

func rowIdx(item interface{}) (c, m uint64) {
	v := reflect.Indirect(reflect.ValueOf(item))
	if v.Kind() != reflect.Struct {
		return 0, 0
	}
	if f := v.FieldByName("CreateIndex"); f.IsValid() && f.Kind() == reflect.Uint64 {
		c = f.Uint()
	}
	if f := v.FieldByName("ModifyIndex"); f.IsValid() && f.Kind() == reflect.Uint64 {
		m = f.Uint()
	}
	return
}

// gKeyOf: the primary key of a row of one of the plain tables ("" , false = not a plain table / unknown row type)
func gKeyOf(table string, item interface{}) (string, bool) {
	lo := strings.ToLower
	switch v := item.(type) {
	case state.ServiceVirtualIP:
		return v.Service.Peer + "\x00" + lo(v.Service.ServiceName.Name), true
	case state.FreeVirtualIP:
		return fmt.Sprintf("%s\x00%v", v.IP.String(), v.IsCounter), true
	case *structs.Coordinate:
		return lo(v.Node) + "\x00" + v.Segment, true
	case *structs.Session:
		return v.ID, true
	case *structs.ACLToken:
		return v.AccessorID, true
	case *structs.ACLPolicy:
		return v.ID, true
	case *structs.ACLRole:
		return v.ID, true
	case *structs.ACLBindingRule:
		return v.ID, true
	case *structs.ACLAuthMethod:
		return v.Name, true
	case *structs.DirEntry:
		return v.Key, true
	case *state.Tombstone:
		return v.Key, true
	case *structs.AutopilotConfig, *structs.FeatureGatePolicy, *structs.FeatureGateStatus, *structs.CAConfiguration:
		return "", true
	case *structs.Intention:
		return v.ID, true
	case *structs.CARoot:
		return v.ID, true
	case *structs.CAConsulProviderState:
		return v.ID, true
	case structs.ConfigEntry:
		return v.GetKind() + "\x00" + lo(v.GetName()), true
	case *structs.FederationState:
		return lo(v.Datacenter), true
	case *structs.SystemMetadataEntry:
		return lo(v.Key), true
	case *pbpeering.Peering:
		return v.ID, true
	case *pbpeering.PeeringTrustBundle:
		return lo(v.PeerName), true
	case *pbpeering.PeeringSecrets:
		return v.PeerID, true
	}
	if table == "prepared-queries" {
		// *queryWrapper (unexported): the embedded query carries the id
		rv := reflect.Indirect(reflect.ValueOf(item))
		if rv.Kind() == reflect.Struct {
			if pq := rv.FieldByName("PreparedQuery"); pq.IsValid() && !pq.IsNil() {
				return pq.Elem().FieldByName("ID").String(), true
			}
		}
	}
	return "", false
}

// gState: the rows of the plain tables of a store, early and late, in (table, key) order; problem != "" when a table
// of the model holds a row type the harness does not know or two rows with one key (then no line is written).
func gState(st *state.Store) (early, late []grow, problem string) {
	st.WalkAllTables(func(table string, item interface{}) bool {
		no, ok := gTabNo[table]
		if !ok {
			return true
		}
		key, ok := gKeyOf(table, item)
		if !ok {
			problem = "unknown-row-type:" + table
			return true
		}
		r := grow{tab: no, name: table, key: key, pay: payload(item)}
		r.create, r.modify = rowIdx(item)
		switch v := item.(type) {
		case *state.Tombstone:
			r.create, r.modify = v.Index, v.Index
		case state.ServiceVirtualIP:
			r.aux = v.Service.Peer != ""
		}
		if gTables[no].late {
			late = append(late, r)
		} else {
			early = append(early, r)
		}
		return true
	})
	for _, l := range [][]grow{early, late} {
		sort.SliceStable(l, func(i, j int) bool {
			if l[i].tab != l[j].tab {
				return l[i].tab < l[j].tab
			}
			return l[i].key < l[j].key
		})
		for i := 1; i < len(l); i++ {
			if l[i].tab == l[i-1].tab && l[i].key == l[i-1].key {
				problem = "key-collision:" + l[i].name
			}
		}
	}
	return
}

func encGRows(l []grow) string {
	var t []string
	for _, r := range l {
		a := "0"
		if r.aux {
			a = "1"
		}
		t = append(t, sjoin(r.name, hx.EncS(r.key), r.pay, u64(r.create), u64(r.modify), a))
	}
	return hx.EncList(t)
}

// gKindSeq: the record kinds of the real stream that belong to the plain tables (and the index table), in order,
// consecutive repetitions dropped (catalog registrations lie between vips and coordinates and are left out)
func gKindSeq(runs []run2) string {
	var t []string
	for _, r := range runs {
		if gKinds[r.kind] && (len(t) == 0 || t[len(t)-1] != r.kind) {
			t = append(t, r.kind)
		}
	}
	return hx.EncList(t)
}
