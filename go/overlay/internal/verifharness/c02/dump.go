//go:build verif

package main

import (
	"fmt"
	"sort"
	"strings"

	"github.com/hashicorp/consul/acl"
	"github.com/hashicorp/consul/agent/consul/state"
	"github.com/hashicorp/consul/agent/structs"
	raftstorage "github.com/hashicorp/consul/internal/storage/raft"
)

// A Dump is the complete content of one server: every memdb table (rows in id-index order, rendered
// by canon), plus the resource store. Keys are table names; "resources" is the raft storage backend.
type Dump map[string][]string

func dumpServer(sv *server) Dump {
	d := Dump{}
	err := sv.fsm.State().WalkAllTables(func(table string, item interface{}) bool {
		d[table] = append(d[table], canon(item))
		return true
	})
	if err != nil {
		d["<walk-error>"] = []string{err.Error()}
	}
	// WalkAllTables stops a table at the callback's `false` only; tables come in map order: the map
	// (keyed by table) is what canonicalises that.
	snap, err := sv.backend.Snapshot()
	if err != nil {
		d["resources"] = []string{"err:" + err.Error()}
	} else {
		for {
			b, err := snap.Next()
			if err != nil {
				d["resources"] = append(d["resources"], "err:"+err.Error())
				break
			}
			if b == nil {
				break
			}
			d["resources"] = append(d["resources"], fmt.Sprintf("%x", b))
		}
	}
	return d
}

func (d Dump) tables() []string {
	ks := make([]string, 0, len(d))
	for k := range d {
		ks = append(ks, k)
	}
	sort.Strings(ks)
	return ks
}

func (d Dump) rows() int {
	n := 0
	for _, r := range d {
		n += len(r)
	}
	return n
}

// tableDiff describes how table t differs between two dumps ("" = equal).
func tableDiff(a, b []string) string {
	if len(a) == len(b) {
		same := true
		for i := range a {
			if a[i] != b[i] {
				same = false
				break
			}
		}
		if same {
			return ""
		}
	}
	as, bs := map[string]int{}, map[string]int{}
	for _, r := range a {
		as[r]++
	}
	for _, r := range b {
		bs[r]++
	}
	var onlyA, onlyB []string
	for _, r := range a {
		if bs[r] > 0 {
			bs[r]--
		} else {
			onlyA = append(onlyA, r)
		}
	}
	for _, r := range b {
		if as[r] > 0 {
			as[r]--
		} else {
			onlyB = append(onlyB, r)
		}
	}
	if len(onlyA) == 0 && len(onlyB) == 0 {
		return "same rows, different order"
	}
	return fmt.Sprintf("only-before=%s only-after=%s", clip(strings.Join(onlyA, " | "), 600), clip(strings.Join(onlyB, " | "), 600))
}

func clip(s string, n int) string {
	if len(s) > n {
		return s[:n] + "…"
	}
	return s
}

// ---------------------------------------------------------------- read APIs (result AND index)

type qres struct {
	name, out string
	again     func() string // re-evaluates the same query on the same store
}

func q3(name string, f func() (uint64, any, error)) (r qres) {
	r = q3once(name, f)
	r.again = func() string { return q3once(name, f).out }
	return r
}

func q3once(name string, f func() (uint64, any, error)) (r qres) {
	r.name = name
	defer func() {
		if p := recover(); p != nil {
			r.out = fmt.Sprintf("panic:%v", p)
		}
	}()
	idx, v, err := f()
	if err != nil {
		r.out = fmt.Sprintf("idx=%d err=%q", idx, err.Error())
		return
	}
	r.out = fmt.Sprintf("idx=%d %s", idx, canon(v))
	return
}

// queries runs the read-API set against one store; every entry is "name" -> "idx=<query index> <result>".
func queries(st *state.Store, u *universe) []qres {
	var out []qres
	add := func(name string, f func() (uint64, any, error)) { out = append(out, q3(name, f)) }
	em := structs.DefaultEnterpriseMetaInDefaultPartition()
	peers := append([]string{""}, u.peerNames...)

	// KV
	for _, k := range u.keys {
		k := k
		add("KVSGet/"+k, func() (uint64, any, error) { return r3(st.KVSGet(nil, k, nil)) })
	}
	for _, p := range u.prefixes {
		p := p
		add("KVSList/"+p, func() (uint64, any, error) { return r3(st.KVSList(nil, p, nil)) })
	}
	add("KVUsage", func() (uint64, any, error) { return r3(st.KVUsage()) })

	// sessions
	add("SessionList", func() (uint64, any, error) { return r3(st.SessionList(nil, nil)) })
	for _, id := range u.sessionIDs {
		id := id
		add("SessionGet/"+id, func() (uint64, any, error) { return r3(st.SessionGet(nil, id, nil)) })
	}

	// catalog
	for _, peer := range peers {
		peer := peer
		add("Nodes@"+peer, func() (uint64, any, error) { return r3(st.Nodes(nil, nil, peer)) })
		add("Services@"+peer, func() (uint64, any, error) { return r3(st.Services(nil, nil, peer, false)) })
		add("ServiceList@"+peer, func() (uint64, any, error) { return r3(st.ServiceList(nil, nil, peer)) })
		add("NodeDump@"+peer, func() (uint64, any, error) { return r3(st.NodeDump(nil, nil, peer)) })
		add("ServiceDump@"+peer, func() (uint64, any, error) { return r3(st.ServiceDump(nil, "", false, nil, peer)) })
		for _, state := range []string{"any", "passing", "critical"} {
			state := state
			add("ChecksInState/"+state+"@"+peer, func() (uint64, any, error) { return r3(st.ChecksInState(nil, state, nil, peer)) })
		}
		for _, n := range u.nodeNames {
			n := n
			add("NodeServices/"+n+"@"+peer, func() (uint64, any, error) { return r3(st.NodeServices(nil, n, nil, peer)) })
			add("NodeServiceList/"+n+"@"+peer, func() (uint64, any, error) { return r3(st.NodeServiceList(nil, n, nil, peer)) })
			add("NodeChecks/"+n+"@"+peer, func() (uint64, any, error) { return r3(st.NodeChecks(nil, n, nil, peer)) })
			add("GetNode/"+n+"@"+peer, func() (uint64, any, error) { return r3(st.GetNode(n, nil, peer)) })
		}
		for _, s := range u.serviceNames {
			s := s
			add("ServiceNodes/"+s+"@"+peer, func() (uint64, any, error) { return r3(st.ServiceNodes(nil, s, nil, peer)) })
			add("CheckServiceNodes/"+s+"@"+peer, func() (uint64, any, error) { return r3(st.CheckServiceNodes(nil, s, nil, peer)) })
			add("CheckConnectServiceNodes/"+s+"@"+peer, func() (uint64, any, error) { return r3(st.CheckConnectServiceNodes(nil, s, nil, peer)) })
			add("ServiceChecks/"+s+"@"+peer, func() (uint64, any, error) { return r3(st.ServiceChecks(nil, s, nil, peer)) })
		}
	}
	for _, n := range u.nodeNames {
		n := n
		add("NodeSessions/"+n, func() (uint64, any, error) { return r3(st.NodeSessions(nil, n, nil)) })
		add("Coordinate/"+n, func() (uint64, any, error) { return r3(st.Coordinate(nil, n, nil)) })
	}
	add("Coordinates", func() (uint64, any, error) { return r3(st.Coordinates(nil, nil)) })
	for _, kind := range []structs.ServiceKind{structs.ServiceKindTypical, structs.ServiceKindConnectProxy, structs.ServiceKindIngressGateway,
		structs.ServiceKindTerminatingGateway, structs.ServiceKindMeshGateway, structs.ServiceKindAPIGateway} {
		kind := kind
		add("ServiceNamesOfKind/"+string(kind), func() (uint64, any, error) { return r3(st.ServiceNamesOfKind(nil, kind)) })
		add("ServiceDumpKind/"+string(kind), func() (uint64, any, error) { return r3(st.ServiceDump(nil, kind, true, nil, "")) })
	}
	add("ServiceUsage", func() (uint64, any, error) { return r3(st.ServiceUsage(nil, false)) })
	add("NodeUsage", func() (uint64, any, error) { return r3(st.NodeUsage()) })
	add("PeeringUsage", func() (uint64, any, error) { return r3(st.PeeringUsage()) })
	add("ConfigEntryUsage", func() (uint64, any, error) { return r3(st.ConfigEntryUsage()) })

	// gateways, VIPs, topology
	add("DumpGatewayServices", func() (uint64, any, error) { return r3(st.DumpGatewayServices(nil)) })
	for _, g := range u.gatewayNames {
		g := g
		add("GatewayServices/"+g, func() (uint64, any, error) { return r3(st.GatewayServices(nil, g, em)) })
	}
	for _, s := range u.serviceNames {
		s := s
		add("CheckIngressServiceNodes/"+s, func() (uint64, any, error) { return r3(st.CheckIngressServiceNodes(nil, s, em)) })
		add("ServiceGateways/"+s, func() (uint64, any, error) {
			return r3(st.ServiceGateways(nil, s, structs.ServiceKindTerminatingGateway, *em))
		})
		add("ServiceTopology/"+s, func() (uint64, any, error) {
			return r3(st.ServiceTopology(nil, "dc1", s, structs.ServiceKindTypical, true, em))
		})
		for _, peer := range peers {
			psn := structs.PeeredServiceName{ServiceName: structs.NewServiceName(s, nil), Peer: peer}
			add("VirtualIPForService/"+s+"@"+peer, func() (uint64, any, error) {
				ip, err := st.VirtualIPForService(psn)
				return 0, ip, err
			})
			add("ServiceManualVIPs/"+s+"@"+peer, func() (uint64, any, error) {
				v, err := st.ServiceManualVIPs(psn)
				return 0, v, err
			})
		}
	}
	add("ServiceVirtualIPs", func() (uint64, any, error) { return r3(st.ServiceVirtualIPs()) })
	add("VirtualIPsForAllImportedServices", func() (uint64, any, error) { return r3(st.VirtualIPsForAllImportedServices(nil, *em)) })

	// config entries and intentions
	add("ConfigEntries", func() (uint64, any, error) { return r3(st.ConfigEntries(nil, nil)) })
	for _, k := range structs.AllConfigEntryKinds {
		k := k
		add("ConfigEntriesByKind/"+k, func() (uint64, any, error) { return r3(st.ConfigEntriesByKind(nil, k, nil)) })
	}
	for _, s := range u.serviceNames {
		s := s
		add("ConfigEntry/service-defaults/"+s, func() (uint64, any, error) { return r3(st.ConfigEntry(nil, structs.ServiceDefaults, s, nil)) })
		add("ReadDiscoveryChainConfigEntries/"+s, func() (uint64, any, error) { return r3(st.ReadDiscoveryChainConfigEntries(nil, s, nil)) })
		add("ReadResolvedServiceConfigEntries/"+s, func() (uint64, any, error) {
			return r3(st.ReadResolvedServiceConfigEntries(nil, s, nil, nil, structs.ProxyModeDefault))
		})
		add("IntentionMatch/dst/"+s, func() (uint64, any, error) {
			return r3(st.IntentionMatch(nil, &structs.IntentionQueryMatch{Type: structs.IntentionMatchDestination,
				Entries: []structs.IntentionMatchEntry{{Namespace: "default", Partition: "default", Name: s}}}))
		})
		add("IntentionMatch/src/"+s, func() (uint64, any, error) {
			return r3(st.IntentionMatch(nil, &structs.IntentionQueryMatch{Type: structs.IntentionMatchSource,
				Entries: []structs.IntentionMatchEntry{{Namespace: "default", Partition: "default", Name: s}}}))
		})
		add("IntentionTopology/"+s, func() (uint64, any, error) {
			return r3(st.IntentionTopology(nil, structs.NewServiceName(s, nil), false, false, structs.IntentionTargetService))
		})
	}
	add("Intentions", func() (uint64, any, error) {
		idx, ixns, fromCE, err := st.Intentions(nil, nil)
		return idx, []any{ixns, fromCE}, err
	})
	add("LegacyIntentions", func() (uint64, any, error) { return r3(st.LegacyIntentions(nil, nil)) })
	add("AreIntentionsInConfigEntries", func() (uint64, any, error) {
		b, err := st.AreIntentionsInConfigEntries()
		return 0, b, err
	})
	add("ResolvedExportedServices", func() (uint64, any, error) { return r3(st.ResolvedExportedServices(nil, em)) })

	// ACL
	add("ACLTokenList", func() (uint64, any, error) { return r3(st.ACLTokenList(nil, true, true, "", "", "", nil, nil)) })
	add("ACLPolicyList", func() (uint64, any, error) { return r3(st.ACLPolicyList(nil, nil)) })
	add("ACLRoleList", func() (uint64, any, error) { return r3(st.ACLRoleList(nil, "", nil)) })
	add("ACLBindingRuleList", func() (uint64, any, error) { return r3(st.ACLBindingRuleList(nil, "", nil)) })
	add("ACLAuthMethodList", func() (uint64, any, error) { return r3(st.ACLAuthMethodList(nil, nil)) })
	add("CanBootstrapACLToken", func() (uint64, any, error) {
		ok, idx, err := st.CanBootstrapACLToken()
		return idx, ok, err
	})
	for _, id := range u.tokenSecrets {
		id := id
		add("ACLTokenGetBySecret/"+id, func() (uint64, any, error) { return r3(st.ACLTokenGetBySecret(nil, id, nil)) })
	}
	for _, id := range u.policyIDs {
		id := id
		add("ACLPolicyGetByID/"+id, func() (uint64, any, error) { return r3(st.ACLPolicyGetByID(nil, id, nil)) })
	}

	// peering
	add("PeeringList", func() (uint64, any, error) { return r3(st.PeeringList(nil, *em)) })
	add("PeeringListDeleted", func() (uint64, any, error) { return r3(st.PeeringListDeleted(nil)) })
	add("PeeringTrustBundleList", func() (uint64, any, error) { return r3(st.PeeringTrustBundleList(nil, *em)) })
	for _, p := range u.peerNames {
		p := p
		add("PeeringRead/"+p, func() (uint64, any, error) { return r3(st.PeeringRead(nil, state.Query{Value: p})) })
		add("PeeringTrustBundleRead/"+p, func() (uint64, any, error) { return r3(st.PeeringTrustBundleRead(nil, state.Query{Value: p})) })
	}
	for _, id := range u.peerIDs {
		id := id
		add("PeeringSecretsRead/"+id, func() (uint64, any, error) {
			v, err := st.PeeringSecretsRead(nil, id)
			return 0, v, err
		})
		add("ExportedServicesForPeer/"+id, func() (uint64, any, error) { return r3(st.ExportedServicesForPeer(nil, id, "dc1")) })
	}

	// CA
	add("CARoots", func() (uint64, any, error) { return r3(st.CARoots(nil)) })
	add("CARootActive", func() (uint64, any, error) { return r3(st.CARootActive(nil)) })
	add("CAConfig", func() (uint64, any, error) { return r3(st.CAConfig(nil)) })
	for _, id := range u.caProviderIDs {
		id := id
		add("CAProviderState/"+id, func() (uint64, any, error) { return r3(st.CAProviderState(id)) })
	}

	// the rest
	add("PreparedQueryList", func() (uint64, any, error) { return r3(st.PreparedQueryList(nil)) })
	for _, id := range u.queryIDs {
		id := id
		add("PreparedQueryGet/"+id, func() (uint64, any, error) { return r3(st.PreparedQueryGet(nil, id)) })
	}
	for _, n := range u.queryNames {
		n := n
		add("PreparedQueryResolve/"+n, func() (uint64, any, error) { return r3(st.PreparedQueryResolve(n, structs.QuerySource{})) })
	}
	add("AutopilotConfig", func() (uint64, any, error) { return r3(st.AutopilotConfig()) })
	add("FeatureGatePolicyAndStatus", func() (uint64, any, error) {
		idx, p, s, err := st.FeatureGatePolicyAndStatus(nil)
		return idx, []any{p, s}, err
	})
	add("FederationStateList", func() (uint64, any, error) { return r3(st.FederationStateList(nil)) })
	add("SystemMetadataList", func() (uint64, any, error) { return r3(st.SystemMetadataList(nil)) })
	add("CensusListAll", func() (uint64, any, error) { return r3(st.CensusListAll()) })
	return out
}

func r3[T any](idx uint64, v T, err error) (uint64, any, error) { return idx, v, err }

var _ = acl.EnterpriseMeta{}
var _ *raftstorage.Backend
