//go:build verif

package main

// Generators of committed write commands for every registered FSM message type: real
// msgpack / protobuf encoded raft log payloads, mostly valid, from small colliding name
// universes, plus rejected and malformed-but-decodable ones.

import (
	"fmt"
	"net"
	"time"

	"github.com/hashicorp/serf/coordinate"
	"google.golang.org/protobuf/proto"
	"google.golang.org/protobuf/types/known/timestamppb"

	"github.com/hashicorp/consul/acl"
	"github.com/hashicorp/consul/agent/consul/state"
	"github.com/hashicorp/consul/agent/structs"
	"github.com/hashicorp/consul/api"
	"github.com/hashicorp/consul/internal/verifharness/hx"
	"github.com/hashicorp/consul/proto-public/pbresource"
	"github.com/hashicorp/consul/proto/private/pbpeering"
	"github.com/hashicorp/consul/proto/private/pbstorage"
	"github.com/hashicorp/consul/types"
)

// synthetic clock of the *commands*: far from the wall clock, so that any time value near
// "now" found in replicated state can only have been read from the server's own clock.
var t0 = time.Date(2001, 2, 3, 4, 5, 6, 0, time.UTC)

var (
	nodeNames = []string{"n1", "N1", "n2", "n3"}
	nodeIDs   = []types.NodeID{"", "aaaaaaaa-0000-0000-0000-000000000001", "aaaaaaaa-0000-0000-0000-000000000002", "AAAAAAAA-0000-0000-0000-000000000001"}
	addrs     = []string{"10.0.0.1", "10.0.0.2", "10.0.0.1", ""}
	svcNames  = []string{"web", "web.v1", "api", "db", "consul", "Web"}
	checkIDs  = []types.CheckID{"c1", "c2", "serfHealth", "svc:web"}
	statuses  = []string{api.HealthPassing, api.HealthWarning, api.HealthCritical, api.HealthPassing, "bogus"}
	kvKeys    = []string{"", "a", "a/", "a/b", "a/b/", "a/bc", "ab", "a\x00", "é", "A"}
	sessIDs   = []string{"5e550000-0000-0000-0000-000000000001", "5e550000-0000-0000-0000-000000000002", "5e550000-0000-0000-0000-000000000003", "5E550000-0000-0000-0000-000000000001"}
	peerNames = []string{"", "", "", "peer-a", "peer-b"}
	uuids     = []string{
		"11111111-0000-0000-0000-000000000001", "11111111-0000-0000-0000-000000000002",
		"11111111-0000-0000-0000-00000000000a", "a1111111-0000-0000-0000-000000000001",
		"ffffffff-ffff-ffff-ffff-ffffffffffff", "11111111-0000-0000-0000-000000000003",
	}
	polNames    = []string{"p1", "p2", "P1", "global-management"}
	roleNames   = []string{"r1", "r2", "R1"}
	methodNames = []string{"m1", "m2", "k8s"}
	dcs         = []string{"dc1", "dc2", "DC1"}
	manualIPs   = []string{"240.1.0.1", "240.1.0.2", "240.1.0.3", "10.9.9.9", "not-an-ip"}
	metaKeys    = []string{"k", "k2", "rack"}
)

// msgNames maps every message type byte of structs' constant block to its constant name.
var msgNames = map[byte]string{
	0: "RegisterRequestType", 1: "DeregisterRequestType", 2: "KVSRequestType", 3: "SessionRequestType",
	4: "DeprecatedACLRequestType", 5: "TombstoneRequestType", 6: "CoordinateBatchUpdateType",
	7: "PreparedQueryRequestType", 8: "TxnRequestType", 9: "AutopilotRequestType", 10: "AreaRequestType",
	11: "ACLBootstrapRequestType", 12: "IntentionRequestType", 13: "ConnectCARequestType",
	14: "ConnectCAProviderStateType", 15: "ConnectCAConfigType", 16: "IndexRequestType",
	17: "ACLTokenSetRequestType", 18: "ACLTokenDeleteRequestType", 19: "ACLPolicySetRequestType",
	20: "ACLPolicyDeleteRequestType", 21: "ConnectCALeafRequestType", 22: "ConfigEntryRequestType",
	23: "ACLRoleSetRequestType", 24: "ACLRoleDeleteRequestType", 25: "ACLBindingRuleSetRequestType",
	26: "ACLBindingRuleDeleteRequestType", 27: "ACLAuthMethodSetRequestType", 28: "ACLAuthMethodDeleteRequestType",
	29: "ChunkingStateType", 30: "FederationStateRequestType", 31: "SystemMetadataRequestType",
	32: "ServiceVirtualIPRequestType", 33: "FreeVirtualIPRequestType", 34: "KindServiceNamesType",
	35: "PeeringWriteType", 36: "PeeringDeleteType", 37: "PeeringTerminateByIDType",
	38: "PeeringTrustBundleWriteType", 39: "PeeringTrustBundleDeleteType", 40: "PeeringSecretsWriteType",
	41: "RaftLogVerifierCheckpoint", 42: "ResourceOperationType", 43: "UpdateVirtualIPRequestType",
	44: "CensusRequestType", 45: "FeatureGateRequestType",
}

func typeName(b byte) string {
	if n, ok := msgNames[b&0x7f]; ok {
		return n
	}
	return fmt.Sprintf("type%d", b&0x7f)
}

type entry struct {
	Index uint64
	Data  []byte
	Tag   string // generator branch (for the evidence histogram)
}

type gen struct {
	r    *hx.RNG
	idx  uint64
	last map[string]uint64 // entity -> raft index of the last command aimed at it
	used []uint64
	// what the history is biased towards
	profile string
	// identifiers this history has already tried to create, per kind (references mostly resolve)
	made map[string][]string
	// follow-up entries a generator wants emitted right after the one it returns (scripted shapes)
	queue []queued
	// raft indexes of every CA root-set command generated so far (one of them, or 0, is the current
	// index of the connect-ca-roots table)
	caSetIdxs []uint64
	lazy      map[string]lazy
}

type queued struct {
	data []byte
	tag  string
}

// lazy is a queued entry whose payload is made when the entry is emitted (g.idx is then the entry's own
// raft index): scripted shapes whose check-and-set indexes are the indexes of earlier script entries.
// It travels through the queue as a `queued` with nil data and a key of g.lazy as tag.
type lazy struct {
	tag   string
	build func(g *gen) []byte
}

// ref picks an identifier of the given kind: mostly one a previous command tried to create.
func (g *gen) ref(kind string, pool []string) string {
	if m := g.made[kind]; len(m) > 0 && g.r.Chance(75) {
		return hx.Pick(g.r, m)
	}
	return hx.Pick(g.r, pool)
}
func (g *gen) make(kind, id string) {
	if id != "" {
		g.made[kind] = append(g.made[kind], id)
	}
}

func newGen(r *hx.RNG, profile string) *gen {
	return &gen{r: r, idx: uint64(2 + r.Intn(5)), last: map[string]uint64{}, profile: profile, made: map[string][]string{}}
}

func (g *gen) pick(xs []string) string { return hx.Pick(g.r, xs) }

// casIndex picks an index for a check-and-set against entity k: 0, the (probable) current one,
// neighbours, a stale one from an earlier command, or something from the future.
func (g *gen) casIndex(k string) uint64 {
	cur := g.last[k]
	switch g.r.Intn(8) {
	case 0:
		return 0
	case 1, 2, 3, 4:
		return cur
	case 5:
		if cur > 0 {
			return cur - 1
		}
		return 1
	case 6:
		if len(g.used) > 0 {
			return hx.Pick(g.r, g.used)
		}
		return cur + 1
	default:
		return cur + 1 + uint64(g.r.Intn(50))
	}
}
func (g *gen) touch(k string) { g.last[k] = g.idx }

func mp(t structs.MessageType, req any) []byte {
	b, err := structs.Encode(t, req)
	if err != nil {
		panic(fmt.Sprintf("encode %d: %v", t, err))
	}
	return b
}
func pb(t structs.MessageType, m proto.Message) []byte {
	b, err := structs.EncodeProto(t, m)
	if err != nil {
		panic(fmt.Sprintf("encode proto %d: %v", t, err))
	}
	return b
}

func (g *gen) tm() time.Time { return t0.Add(time.Duration(g.r.Intn(1000)) * time.Minute) }

// ---------------------------------------------------------------- catalog

func (g *gen) nodeService() *structs.NodeService {
	name := g.pick(svcNames)
	id := name
	if g.r.Chance(30) {
		id = name + "-2"
	}
	ns := &structs.NodeService{ID: id, Service: name, Port: 8000 + g.r.Intn(3)}
	if g.r.Chance(40) {
		ns.Tags = []string{"v1", "primary"}[:1+g.r.Intn(2)]
	}
	if g.r.Chance(20) {
		ns.Meta = map[string]string{"m": "1", "z": "2", "a": "3"}
	}
	if g.r.Chance(15) {
		ns.Weights = &structs.Weights{Passing: 1 + g.r.Intn(3), Warning: 1}
	}
	if g.r.Chance(15) {
		ns.TaggedAddresses = map[string]structs.ServiceAddress{"lan": {Address: "10.1.1.1", Port: 1}, "wan": {Address: "1.1.1.1", Port: 2}, "virtual": {Address: "240.9.9.9", Port: 3}}
	}
	switch g.r.Intn(12) {
	case 0, 1, 2:
		dest := g.pick(svcNames)
		ns.Kind = structs.ServiceKindConnectProxy
		ns.ID = dest + "-proxy"
		ns.Service = dest + "-proxy"
		ns.Proxy = structs.ConnectProxyConfig{DestinationServiceName: dest, DestinationServiceID: dest}
		for n := g.r.Intn(4); n > 0; n-- {
			u := structs.Upstream{DestinationName: g.pick(svcNames), LocalBindPort: 9000 + n}
			if g.r.Chance(15) {
				u.DestinationType = structs.UpstreamDestTypePreparedQuery
			}
			if g.r.Chance(15) {
				u.DestinationPeer = "peer-a"
			}
			ns.Proxy.Upstreams = append(ns.Proxy.Upstreams, u)
		}
		if g.r.Chance(20) {
			ns.Proxy.Mode = structs.ProxyModeTransparent
		}
	case 3:
		ns.Connect.Native = true
	case 4:
		ns.Kind = structs.ServiceKindTerminatingGateway
		ns.ID, ns.Service = "tgw", "tgw"
	case 5:
		ns.Kind = structs.ServiceKindIngressGateway
		ns.ID, ns.Service = "igw", "igw"
	case 6:
		ns.Kind = structs.ServiceKindMeshGateway
		ns.ID, ns.Service = "mgw", "mgw"
	}
	return ns
}

func (g *gen) healthCheck(node string, svcID string) *structs.HealthCheck {
	c := &structs.HealthCheck{Node: node, CheckID: hx.Pick(g.r, checkIDs), Name: "chk", Status: g.pick(statuses)}
	if svcID != "" && g.r.Chance(60) {
		c.ServiceID = svcID
	} else if g.r.Chance(15) {
		c.ServiceID = g.pick(svcNames)
	}
	if g.r.Chance(20) {
		c.Output = "out" + fmt.Sprint(g.r.Intn(3))
	}
	if g.r.Chance(10) {
		c.Type = "ttl"
	}
	if g.r.Chance(10) {
		c.Definition = structs.HealthCheckDefinition{Interval: 10 * time.Second, Timeout: time.Second, HTTP: "http://x"}
	}
	return c
}

func (g *gen) genRegister() ([]byte, string) {
	ni := g.r.Intn(len(nodeNames))
	req := structs.RegisterRequest{Datacenter: "dc1", Node: nodeNames[ni], Address: addrs[ni]}
	tag := "register"
	switch g.r.Intn(10) {
	case 0, 1, 2, 3, 4:
		req.ID = nodeIDs[ni]
	case 5:
		req.ID = hx.Pick(g.r, nodeIDs) // rename-by-id / id conflicts
		tag += ":id-mismatch"
	}
	if g.r.Chance(3) {
		req.Node = ""
	}
	g.make("node", req.Node)
	if g.r.Chance(25) {
		req.NodeMeta = map[string]string{g.pick(metaKeys): "v", g.pick(metaKeys): "w"}
	}
	if g.r.Chance(20) {
		req.TaggedAddresses = map[string]string{"lan": "10.0.0.1", "wan": "1.2.3.4"}
	}
	if g.r.Chance(12) {
		req.PeerName = "peer-a"
		tag += ":peer"
	}
	svcID := ""
	if g.r.Chance(65) {
		req.Service = g.nodeService()
		svcID = req.Service.ID
		tag += ":svc:" + string(req.Service.Kind)
		if req.Service.Connect.Native {
			g.make("vipsvc", req.Service.Service)
		} else if req.Service.Kind == structs.ServiceKindConnectProxy {
			g.make("vipsvc", req.Service.Proxy.DestinationServiceName)
		}
		if req.PeerName != "" {
			req.Service.PeerName = req.PeerName
		}
	}
	switch g.r.Intn(5) {
	case 0, 1:
		req.Check = g.healthCheck(req.Node, svcID)
		tag += ":check"
	case 2:
		for n := 1 + g.r.Intn(3); n > 0; n-- {
			req.Checks = append(req.Checks, g.healthCheck(req.Node, svcID))
		}
		tag += ":checks"
	}
	if req.PeerName != "" {
		if req.Check != nil {
			req.Check.PeerName = req.PeerName
		}
		for _, c := range req.Checks {
			c.PeerName = req.PeerName
		}
	}
	if g.r.Chance(10) {
		req.SkipNodeUpdate = true
	}
	g.touch("node:" + req.Node)
	return mp(structs.RegisterRequestType, &req), tag
}

func (g *gen) genDeregister() ([]byte, string) {
	req := structs.DeregisterRequest{Datacenter: "dc1", Node: g.pick(nodeNames)}
	tag := "deregister:node"
	switch g.r.Intn(4) {
	case 0:
		req.ServiceID = g.pick(svcNames)
		if g.r.Chance(30) {
			req.ServiceID += "-proxy"
		}
		tag = "deregister:service"
	case 1:
		req.CheckID = hx.Pick(g.r, checkIDs)
		tag = "deregister:check"
	}
	if g.r.Chance(10) {
		req.PeerName = "peer-a"
	}
	return mp(structs.DeregisterRequestType, &req), tag
}

// ---------------------------------------------------------------- KV / session / tombstone

func (g *gen) dirEnt() structs.DirEntry {
	k := g.pick(kvKeys)
	d := structs.DirEntry{Key: k, Value: []byte(fmt.Sprint("v", g.r.Intn(3))), Flags: uint64(g.r.Intn(3))}
	if g.r.Chance(10) {
		d.Value = nil
	}
	return d
}

func (g *gen) genKVS() ([]byte, string) {
	ops := []api.KVOp{api.KVSet, api.KVSet, api.KVDelete, api.KVDeleteCAS, api.KVDeleteTree, api.KVCAS, api.KVLock, api.KVLock, api.KVUnlock, api.KVGet, "bogus"}
	req := structs.KVSRequest{Datacenter: "dc1", Op: hx.Pick(g.r, ops), DirEnt: g.dirEnt()}
	k := "kv:" + req.DirEnt.Key
	switch req.Op {
	case api.KVCAS, api.KVDeleteCAS:
		req.DirEnt.ModifyIndex = g.casIndex(k)
	case api.KVLock, api.KVUnlock:
		req.DirEnt.Session = g.ref("session", sessIDs)
		if g.r.Chance(10) {
			req.DirEnt.Session = ""
		}
	case api.KVSet:
		if g.r.Chance(10) {
			req.DirEnt.LockIndex = uint64(g.r.Intn(3))
			req.DirEnt.Session = g.pick(sessIDs)
		}
	}
	g.touch(k)
	return mp(structs.KVSRequestType, &req), "kvs:" + string(req.Op)
}

func (g *gen) session() structs.Session {
	s := structs.Session{ID: g.pick(sessIDs), Name: "s", Node: g.ref("node", nodeNames)}
	s.Behavior = hx.Pick(g.r, []structs.SessionBehavior{structs.SessionKeysRelease, structs.SessionKeysRelease, structs.SessionKeysDelete, structs.SessionKeysDelete, "", "", "bogus"})
	s.LockDelay = hx.Pick(g.r, []time.Duration{0, 15 * time.Second, 2 * time.Minute, time.Millisecond})
	if g.r.Chance(20) {
		s.TTL = "30s"
	}
	switch g.r.Intn(9) {
	case 0:
		s.NodeChecks = []string{"serfHealth"}
	case 1:
		s.NodeChecks = []string{string(hx.Pick(g.r, checkIDs))}
		s.ServiceChecks = []structs.ServiceCheck{{ID: string(hx.Pick(g.r, checkIDs))}}
	case 2:
		s.Checks = []types.CheckID{hx.Pick(g.r, checkIDs)}
	}
	if g.r.Chance(5) {
		s.ID = ""
	}
	return s
}

// lockDelayScript: a session with a lock delay takes a key and is then invalidated (destroyed, or
// its node deregistered), which puts the key into the server-local lock-delay map; right after that
// another session asks for the same key. Whether that lock is granted must not depend on the map.
func (g *gen) lockDelayScript() ([]byte, string) {
	node := "n1"
	s1, s2 := sessIDs[g.r.Intn(2)], sessIDs[2]
	key := g.pick([]string{"a", "a/b", "ab"})
	reg := mp(structs.RegisterRequestType, &structs.RegisterRequest{Datacenter: "dc1", Node: node, Address: "10.0.0.1"})
	mk := func(id string, delay time.Duration, beh structs.SessionBehavior) []byte {
		return mp(structs.SessionRequestType, &structs.SessionRequest{Datacenter: "dc1", Op: structs.SessionCreate,
			Session: structs.Session{ID: id, Name: "s", Node: node, LockDelay: delay, Behavior: beh}})
	}
	lock := func(id string) []byte {
		return mp(structs.KVSRequestType, &structs.KVSRequest{Datacenter: "dc1", Op: api.KVLock,
			DirEnt: structs.DirEntry{Key: key, Value: []byte("v"), Session: id}})
	}
	beh := hx.Pick(g.r, []structs.SessionBehavior{structs.SessionKeysRelease, structs.SessionKeysDelete})
	g.make("node", node)
	g.make("session", s2)
	g.queue = append(g.queue,
		queued{mk(s1, 15*time.Second, beh), "script:session-create-lockdelay"},
		queued{mk(s2, 0, structs.SessionKeysRelease), "script:session-create"},
		queued{lock(s1), "script:kv-lock"})
	if g.r.Chance(70) {
		g.queue = append(g.queue, queued{mp(structs.SessionRequestType, &structs.SessionRequest{Datacenter: "dc1", Op: structs.SessionDestroy,
			Session: structs.Session{ID: s1}}), "script:session-destroy"})
	} else {
		g.queue = append(g.queue, queued{mp(structs.TxnRequestType, &structs.TxnRequest{Datacenter: "dc1", Ops: structs.TxnOps{
			{Session: &structs.TxnSessionOp{Verb: api.SessionDelete, Session: structs.Session{ID: s1}}}}}), "script:txn-session-delete"})
	}
	g.queue = append(g.queue, queued{lock(s2), "script:kv-lock-after-delay"})
	return reg, "script:register"
}

func (g *gen) genSession() ([]byte, string) {
	if (g.profile == "kv" || g.profile == "mixed") && g.r.Chance(30) {
		return g.lockDelayScript()
	}
	req := structs.SessionRequest{Datacenter: "dc1"}
	switch g.r.Intn(10) {
	case 0, 1, 2, 3, 4, 5:
		req.Op = structs.SessionCreate
		req.Session = g.session()
		g.make("session", req.Session.ID)
	case 6, 7, 8:
		req.Op = structs.SessionDestroy
		req.Session = structs.Session{ID: g.pick(sessIDs)}
	default:
		req.Op = "bogus"
	}
	return mp(structs.SessionRequestType, &req), "session:" + string(req.Op)
}

func (g *gen) genTombstone() ([]byte, string) {
	req := structs.TombstoneRequest{Datacenter: "dc1", Op: structs.TombstoneReap, ReapIndex: g.casIndex("tomb")}
	if g.r.Chance(50) {
		req.ReapIndex = g.idx
	}
	if g.r.Chance(10) {
		req.Op = "bogus"
	}
	return mp(structs.TombstoneRequestType, &req), "tombstone:" + string(req.Op)
}

func (g *gen) genCoordinates() ([]byte, string) {
	var cs structs.Coordinates
	for n := g.r.Intn(4); n > 0; n-- {
		c := coordinate.NewCoordinate(coordinate.DefaultConfig())
		c.Vec[0] = float64(g.r.Intn(100)) / 7
		c.Height = 0.001 * float64(1+g.r.Intn(5))
		co := &structs.Coordinate{Node: g.pick(nodeNames), Coord: c}
		if g.r.Chance(15) {
			co.Segment = "alpha"
		}
		cs = append(cs, co)
	}
	return mp(structs.CoordinateBatchUpdateType, cs), fmt.Sprintf("coordinate:%d", len(cs))
}

func (g *gen) preparedQuery() *structs.PreparedQuery {
	q := &structs.PreparedQuery{ID: g.pick(uuids), Name: g.pick([]string{"", "q1", "q2", "Q1", "tmpl-"})}
	q.Service.Service = g.pick(svcNames)
	if g.r.Chance(30) {
		q.Session = g.ref("session", sessIDs)
	}
	if q.Name == "tmpl-" || g.r.Chance(10) {
		q.Template.Type = structs.QueryTemplateTypeNamePrefixMatch
		q.Template.Regexp = g.pick([]string{"^tmpl-(.*)$", "", "(", "^tmpl-(?P<x>.*)$"})
		q.Service.Service = g.pick([]string{"${match(1)}", "${name.full}", "${bad", "web"})
	}
	if g.r.Chance(20) {
		q.Service.Failover = structs.QueryFailoverOptions{NearestN: g.r.Intn(3), Datacenters: []string{"dc2"}}
	}
	if g.r.Chance(20) {
		q.Service.Tags = []string{"v1", "!v2"}
		q.Service.NodeMeta = map[string]string{"a": "1", "b": "2"}
	}
	if g.r.Chance(10) {
		q.DNS.TTL = "10s"
	}
	if g.r.Chance(5) {
		q.ID = ""
	}
	return q
}

func (g *gen) genPreparedQuery() ([]byte, string) {
	req := structs.PreparedQueryRequest{Datacenter: "dc1", Query: g.preparedQuery()}
	req.Op = hx.Pick(g.r, []structs.PreparedQueryOp{structs.PreparedQueryCreate, structs.PreparedQueryCreate, structs.PreparedQueryUpdate, structs.PreparedQueryDelete, "bogus"})
	return mp(structs.PreparedQueryRequestType, &req), "pq:" + string(req.Op)
}

// ---------------------------------------------------------------- txn

func (g *gen) genTxn() ([]byte, string) {
	var ops structs.TxnOps
	n := 1 + g.r.Intn(4)
	tag := "txn"
	for i := 0; i < n; i++ {
		switch g.r.Intn(10) {
		case 0, 1, 2, 3:
			verbs := []api.KVOp{api.KVSet, api.KVDelete, api.KVDeleteCAS, api.KVDeleteTree, api.KVCAS, api.KVLock, api.KVUnlock,
				api.KVGet, api.KVGetOrEmpty, api.KVGetTree, api.KVCheckSession, api.KVCheckIndex, api.KVCheckNotExists}
			op := &structs.TxnKVOp{Verb: hx.Pick(g.r, verbs), DirEnt: g.dirEnt()}
			k := "kv:" + op.DirEnt.Key
			switch op.Verb {
			case api.KVCAS, api.KVDeleteCAS, api.KVCheckIndex:
				op.DirEnt.ModifyIndex = g.casIndex(k)
			case api.KVLock, api.KVUnlock, api.KVCheckSession:
				op.DirEnt.Session = g.ref("session", sessIDs)
			}
			g.touch(k)
			ops = append(ops, &structs.TxnOp{KV: op})
			tag += ":kv-" + string(op.Verb)
		case 4, 5:
			ni := g.r.Intn(len(nodeNames))
			verbs := []api.NodeOp{api.NodeSet, api.NodeCAS, api.NodeGet, api.NodeDelete, api.NodeDeleteCAS}
			op := &structs.TxnNodeOp{Verb: hx.Pick(g.r, verbs), Node: structs.Node{Node: nodeNames[ni], ID: nodeIDs[ni], Address: addrs[ni]}}
			if op.Verb == api.NodeSet || op.Verb == api.NodeCAS {
				g.make("node", op.Node.Node)
			}
			op.Node.ModifyIndex = g.casIndex("node:" + op.Node.Node)
			ops = append(ops, &structs.TxnOp{Node: op})
			tag += ":node-" + string(op.Verb)
		case 6:
			verbs := []api.ServiceOp{api.ServiceSet, api.ServiceCAS, api.ServiceGet, api.ServiceDelete, api.ServiceDeleteCAS}
			op := &structs.TxnServiceOp{Verb: hx.Pick(g.r, verbs), Node: g.ref("node", nodeNames), Service: *g.nodeService()}
			op.Service.ModifyIndex = g.casIndex("node:" + op.Node)
			ops = append(ops, &structs.TxnOp{Service: op})
			tag += ":service-" + string(op.Verb)
		case 7:
			verbs := []api.CheckOp{api.CheckSet, api.CheckCAS, api.CheckGet, api.CheckDelete, api.CheckDeleteCAS}
			op := &structs.TxnCheckOp{Verb: hx.Pick(g.r, verbs), Check: *g.healthCheck(g.ref("node", nodeNames), "")}
			op.Check.ModifyIndex = g.casIndex("node:" + op.Check.Node)
			ops = append(ops, &structs.TxnOp{Check: op})
			tag += ":check-" + string(op.Verb)
		case 8:
			op := &structs.TxnSessionOp{Verb: api.SessionDelete, Session: structs.Session{ID: g.ref("session", sessIDs)}}
			ops = append(ops, &structs.TxnOp{Session: op})
			tag += ":session-" + string(op.Verb)
		default:
			ixn := g.legacyIntention()
			op := &structs.TxnIntentionOp{Op: hx.Pick(g.r, []structs.IntentionOp{structs.IntentionOpCreate, structs.IntentionOpUpdate, structs.IntentionOpDelete}), Intention: ixn}
			ops = append(ops, &structs.TxnOp{Intention: op})
			tag += ":intention-" + string(op.Op)
		}
	}
	req := structs.TxnRequest{Datacenter: "dc1", Ops: ops}
	return mp(structs.TxnRequestType, &req), tag
}

// ---------------------------------------------------------------- autopilot / feature gate / sysmeta / fedstate

func (g *gen) genAutopilot() ([]byte, string) {
	req := structs.AutopilotSetConfigRequest{Datacenter: "dc1", CAS: g.r.Chance(50)}
	req.Config = structs.AutopilotConfig{CleanupDeadServers: g.r.Bool(), LastContactThreshold: time.Duration(200+g.r.Intn(3)) * time.Millisecond,
		MaxTrailingLogs: uint64(250 + g.r.Intn(2)), MinQuorum: uint(g.r.Intn(3)), ServerStabilizationTime: 10 * time.Second}
	req.Config.ModifyIndex = g.casIndex("autopilot")
	g.touch("autopilot")
	return mp(structs.AutopilotRequestType, &req), fmt.Sprintf("autopilot:cas=%v", req.CAS)
}

func (g *gen) genFeatureGate() ([]byte, string) {
	req := structs.FeatureGateUpdateRequest{ExpectedPolicyIndex: g.casIndex("fg-policy"), ExpectedStatusIndex: g.casIndex("fg-status")}
	tag := "feature-gate"
	if g.r.Chance(70) {
		req.Policy = &structs.FeatureGatePolicy{Settings: map[string]structs.FeatureGateSetting{
			"f1": {Enabled: g.r.Bool(), Source: structs.FeatureGateSourceOperator},
			"f2": {Enabled: g.r.Bool(), Source: structs.FeatureGateSourceBootstrap}}}
		tag += ":policy"
	}
	if g.r.Chance(85) {
		req.Status = &structs.FeatureGateStatus{RegistryDigest: "d" + fmt.Sprint(g.r.Intn(2)), Features: map[string]structs.ResolvedFeatureGate{
			"f1": {DesiredEnabled: true, EffectiveEnabled: g.r.Bool(), Eligible: true, Source: "operator", Reason: structs.FeatureGateReasonOperatorEnabled},
			"f2": {Reason: structs.FeatureGateReasonBelowMinimumVersion}}}
		tag += ":status"
	}
	if req.Policy != nil {
		g.touch("fg-policy")
	}
	g.touch("fg-status")
	return mp(structs.FeatureGateRequestType, &req), tag
}

func (g *gen) genSystemMetadata() ([]byte, string) {
	keys := []string{structs.SystemMetadataIntentionFormatKey, structs.SystemMetadataVirtualIPsEnabled, structs.SystemMetadataTermGatewayVirtualIPsEnabled, "x", ""}
	k := g.pick(keys)
	v := g.pick([]string{"true", "", "v"})
	if k == structs.SystemMetadataIntentionFormatKey {
		v = g.pick([]string{structs.SystemMetadataIntentionFormatConfigValue, structs.SystemMetadataIntentionFormatConfigValue, structs.SystemMetadataIntentionFormatLegacyValue})
	}
	req := structs.SystemMetadataRequest{Datacenter: "dc1", Entry: &structs.SystemMetadataEntry{Key: k, Value: v}}
	req.Op = hx.Pick(g.r, []structs.SystemMetadataOp{structs.SystemMetadataUpsert, structs.SystemMetadataUpsert, structs.SystemMetadataUpsert, structs.SystemMetadataDelete, "bogus"})
	return mp(structs.SystemMetadataRequestType, &req), "sysmeta:" + string(req.Op) + ":" + k
}

func sysmeta(k, v string) []byte {
	return mp(structs.SystemMetadataRequestType, &structs.SystemMetadataRequest{Datacenter: "dc1", Op: structs.SystemMetadataUpsert,
		Entry: &structs.SystemMetadataEntry{Key: k, Value: v}})
}

func (g *gen) genFederationState() ([]byte, string) {
	req := structs.FederationStateRequest{Datacenter: "dc1"}
	req.Op = hx.Pick(g.r, []structs.FederationStateOp{structs.FederationStateUpsert, structs.FederationStateUpsert, structs.FederationStateDelete, "bogus"})
	st := &structs.FederationState{Datacenter: g.pick(dcs), UpdatedAt: g.tm(), PrimaryModifyIndex: uint64(g.r.Intn(5))}
	for n := g.r.Intn(3); n > 0; n-- {
		node := g.pick(nodeNames)
		st.MeshGateways = append(st.MeshGateways, structs.CheckServiceNode{
			Node:    &structs.Node{Node: node, Address: "10.0.0.9", Datacenter: st.Datacenter, Meta: map[string]string{"a": "1", "b": "2"}},
			Service: &structs.NodeService{ID: "mgw", Service: "mgw", Kind: structs.ServiceKindMeshGateway, Port: 443, Meta: map[string]string{"x": "1", "y": "2"}},
			Checks:  structs.HealthChecks{{Node: node, CheckID: "c1", Status: api.HealthPassing}},
		})
	}
	if g.r.Chance(5) {
		st.Datacenter = ""
	}
	req.State = st
	return mp(structs.FederationStateRequestType, &req), "fedstate:" + string(req.Op)
}

// ---------------------------------------------------------------- intentions

func (g *gen) legacyIntention() *structs.Intention {
	x := &structs.Intention{ID: g.pick(uuids), SourceNS: "default", SourceName: g.pick(svcNames), DestinationNS: "default",
		DestinationName: g.pick(svcNames), SourceType: structs.IntentionSourceConsul,
		Action: hx.Pick(g.r, []structs.IntentionAction{structs.IntentionActionAllow, structs.IntentionActionDeny}),
		CreatedAt: g.tm(), UpdatedAt: g.tm()}
	if g.r.Chance(20) {
		x.SourceName = "*"
	}
	if g.r.Chance(20) {
		x.DestinationName = "*"
	}
	if g.r.Chance(30) {
		x.Meta = map[string]string{"a": "1", "b": "2", "c": "3"}
	}
	if g.r.Chance(15) {
		x.Description = "d"
	}
	x.UpdatePrecedence()
	//nolint:staticcheck
	x.SetHash()
	if g.r.Chance(5) {
		x.ID = ""
	}
	return x
}

func (g *gen) sourceIntention() *structs.SourceIntention {
	s := &structs.SourceIntention{Name: g.pick(svcNames), Action: hx.Pick(g.r, []structs.IntentionAction{structs.IntentionActionAllow, structs.IntentionActionDeny}),
		Type: structs.IntentionSourceConsul}
	if g.r.Chance(15) {
		s.Name = "*"
	}
	if g.r.Chance(15) {
		s.Peer = "peer-a"
	}
	if g.r.Chance(20) {
		s.Action = ""
		s.Permissions = []*structs.IntentionPermission{{Action: structs.IntentionActionAllow, HTTP: &structs.IntentionHTTPPermission{PathPrefix: "/"}}}
		if g.r.Chance(50) {
			s.Permissions[0].JWT = &structs.IntentionJWTRequirement{Providers: []*structs.IntentionJWTProvider{{Name: "okta"}, {Name: "auth0"}, {Name: "jwt-x"}}}
		}
	}
	return s
}

func (g *gen) genIntention() ([]byte, string) {
	req := structs.IntentionRequest{Datacenter: "dc1"}
	ops := []structs.IntentionOp{structs.IntentionOpCreate, structs.IntentionOpUpdate, structs.IntentionOpDelete, structs.IntentionOpDeleteAll, structs.IntentionOpUpsert, "bogus"}
	req.Op = hx.Pick(g.r, ops)
	tag := "intention:" + string(req.Op)
	if g.r.Chance(50) {
		// config-entry era mutation
		dst := structs.NewServiceName(g.pick(svcNames), nil)
		src := structs.NewServiceName(g.pick(svcNames), nil)
		val := g.sourceIntention()
		val.Name = src.Name
		m := &structs.IntentionMutation{Destination: dst, Source: src, Value: val}
		if req.Op == structs.IntentionOpCreate || req.Op == structs.IntentionOpUpdate || (req.Op == structs.IntentionOpDelete && g.r.Bool()) {
			m.ID = g.pick(uuids)
			val.LegacyID = m.ID
			val.LegacyCreateTime = ptrTime(g.tm())
			val.LegacyUpdateTime = ptrTime(g.tm())
			val.LegacyMeta = map[string]string{"a": "1", "b": "2"}
		}
		req.Mutation = m
		tag += ":mutation"
	} else {
		req.Intention = g.legacyIntention()
		tag += ":legacy"
	}
	return mp(structs.IntentionRequestType, &req), tag
}

func ptrTime(t time.Time) *time.Time { return &t }

// ---------------------------------------------------------------- connect CA

func (g *gen) caRoot(i int, active bool) *structs.CARoot {
	return &structs.CARoot{ID: fmt.Sprintf("root-%d", i), Name: "Root " + fmt.Sprint(i), SerialNumber: uint64(i), SigningKeyID: "aa:bb",
		NotBefore: t0, NotAfter: t0.Add(24 * time.Hour), RootCert: "-----BEGIN CERTIFICATE-----\nroot" + fmt.Sprint(i) + "\n-----END CERTIFICATE-----\n",
		IntermediateCerts: []string{"int1", "int2"}[:g.r.Intn(3)], Active: active, PrivateKeyType: "ec", PrivateKeyBits: 256}
}

func (g *gen) caConfig() *structs.CAConfiguration {
	c := &structs.CAConfiguration{ClusterID: "c1u5ter0-0000-0000-0000-000000000001", Provider: g.pick([]string{"consul", "vault"}),
		Config: map[string]interface{}{"LeafCertTTL": "72h", "RotationPeriod": "2160h", "IntermediateCertTTL": "8760h"},
		State:  map[string]string{"a": "1", "b": "2"}}
	if g.r.Chance(20) {
		c.State = nil
	}
	return c
}

// caRotateScript: a stored ACTIVE root X is re-listed as INACTIVE with a zero RotatedOutAt next to a new
// active root Y (what an older leader / a hand-built command does; current leaders stamp RotatedOutAt
// before appending). Whatever the store then keeps in RotatedOutAt must come from the command.
// The table's check-and-set index is one of the earlier root-set commands' indexes or 0: step A writes
// [X active] once per candidate (exactly one matches, the later ones are stale misses); step B writes
// [X inactive, Y active] once per step-A entry with that entry's raft index (one matches, the others are
// stale) — so the shape is reached with matching AND stale indexes.
func (g *gen) caRotateScript() ([]byte, string) {
	cands := []uint64{0}
	seen := map[uint64]bool{0: true}
	for i := len(g.caSetIdxs) - 1; i >= 0 && len(cands) < 7; i-- {
		if c := g.caSetIdxs[i]; !seen[c] {
			seen[c] = true
			cands = append(cands, c)
		}
	}
	hx.Shuffle(g.r, cands)
	x := g.r.Intn(4)
	y := (x + 1 + g.r.Intn(3)) % 4
	withOld := g.r.Chance(40) // step B keeps a third, long rotated-out root with a command-carried time
	aIdx := make([]uint64, len(cands))
	var steps []lazy
	for j, c := range cands {
		j, c := j, c
		steps = append(steps, lazy{tag: "ca:script:rotate:A", build: func(g *gen) []byte {
			aIdx[j] = g.idx
			g.caSetIdxs = append(g.caSetIdxs, g.idx)
			g.touch("ca-roots")
			return mp(structs.ConnectCARequestType, &structs.CARequest{Datacenter: "dc1", Op: structs.CAOpSetRoots, Index: c, Roots: []*structs.CARoot{g.caRoot(x, true)}})
		}})
	}
	for j := range cands {
		j := j
		steps = append(steps, lazy{tag: "ca:script:rotate:B", build: func(g *gen) []byte {
			g.caSetIdxs = append(g.caSetIdxs, g.idx)
			g.touch("ca-roots")
			roots := []*structs.CARoot{g.caRoot(x, false), g.caRoot(y, true)}
			if withOld {
				old := g.caRoot((y+1)%4, false)
				if old.ID != roots[0].ID {
					old.RotatedOutAt = t0.Add(time.Hour)
					roots = append(roots, old)
				}
			}
			return mp(structs.ConnectCARequestType, &structs.CARequest{Datacenter: "dc1", Op: structs.CAOpSetRoots, Index: aIdx[j], Roots: roots})
		}})
	}
	if g.lazy == nil {
		g.lazy = map[string]lazy{}
	}
	for _, st := range steps[1:] {
		key := fmt.Sprintf("lazy#%d", len(g.lazy))
		g.lazy[key] = st
		g.queue = append(g.queue, queued{nil, key})
	}
	return steps[0].build(g), steps[0].tag
}

func (g *gen) genConnectCA() ([]byte, string) {
	if len(g.queue) == 0 && g.r.Chance(12) {
		return g.caRotateScript()
	}
	ops := []structs.CAOp{structs.CAOpSetRoots, structs.CAOpSetConfig, structs.CAOpSetProviderState, structs.CAOpDeleteProviderState,
		structs.CAOpSetRootsAndConfig, structs.CAOpIncrementProviderSerialNumber, "bogus"}
	req := structs.CARequest{Datacenter: "dc1", Op: hx.Pick(g.r, ops)}
	switch req.Op {
	case structs.CAOpSetRoots, structs.CAOpSetRootsAndConfig:
		req.Index = g.casIndex("ca-roots")
		if len(g.caSetIdxs) > 0 && g.r.Chance(40) {
			req.Index = hx.Pick(g.r, g.caSetIdxs) // often the table's real index
		}
		g.caSetIdxs = append(g.caSetIdxs, g.idx)
		n := 1 + g.r.Intn(3)
		act := g.r.Intn(n)
		for i := 0; i < n; i++ {
			req.Roots = append(req.Roots, g.caRoot(g.r.Intn(4), i == act || g.r.Chance(8)))
		}
		if g.r.Chance(5) {
			req.Roots[0].ID = ""
		}
		g.touch("ca-roots")
		if req.Op == structs.CAOpSetRootsAndConfig {
			req.Config = g.caConfig()
			req.Config.ModifyIndex = g.casIndex("ca-config")
			g.touch("ca-config")
		}
	case structs.CAOpSetConfig:
		req.Config = g.caConfig()
		if g.r.Chance(60) {
			req.Config.ModifyIndex = g.casIndex("ca-config")
		}
		g.touch("ca-config")
	case structs.CAOpSetProviderState, structs.CAOpDeleteProviderState:
		req.ProviderState = &structs.CAConsulProviderState{ID: g.pick([]string{"ps1", "ps2", ""}), PrivateKey: "key", RootCert: "cert", IntermediateCert: "int"}
	}
	return mp(structs.ConnectCARequestType, &req), "ca:" + string(req.Op)
}

func (g *gen) genCALeaf() ([]byte, string) {
	req := structs.CALeafRequest{Datacenter: "dc1", Op: hx.Pick(g.r, []structs.CALeafOp{structs.CALeafOpIncrementIndex, structs.CALeafOpIncrementIndex, "bogus"})}
	return mp(structs.ConnectCALeafRequestType, &req), "ca-leaf:" + string(req.Op)
}

// ---------------------------------------------------------------- ACL

// list-valued ACL fields: 0..6 entries from small universes, with duplicates, in an order the
// generator fixes — whatever order the store persists must be the same on every replica
var idSvcNames = []string{"web", "api", "db", "cache", "queue", "auth", "billing", "web"}
var idNodeNames = []string{"n1", "n2", "n3", "n4", "n1"}

func (g *gen) listLen(max int) int {
	switch g.r.Intn(10) {
	case 0, 1, 2:
		return 0
	case 3:
		return 1
	default:
		return 2 + g.r.Intn(max-1)
	}
}

func (g *gen) svcIdentities() structs.ACLServiceIdentities {
	var out structs.ACLServiceIdentities
	for n := g.listLen(6); n > 0; n-- {
		id := &structs.ACLServiceIdentity{ServiceName: g.pick(idSvcNames)}
		switch g.r.Intn(4) {
		case 0:
			id.Datacenters = []string{"dc2", "dc1"}
		case 1:
			id.Datacenters = []string{g.pick(dcs)}
		}
		out = append(out, id)
	}
	if len(out) > 0 && g.r.Chance(3) {
		out[g.r.Intn(len(out))].ServiceName = "" // rejected by the store
	}
	return out
}

func (g *gen) nodeIdentities() structs.ACLNodeIdentities {
	var out structs.ACLNodeIdentities
	for n := g.listLen(5); n > 0; n-- {
		out = append(out, &structs.ACLNodeIdentity{NodeName: g.pick(idNodeNames), Datacenter: g.pick([]string{"dc1", "dc2", "dc1"})})
	}
	if len(out) > 0 && g.r.Chance(3) {
		out[g.r.Intn(len(out))].Datacenter = ""
	}
	return out
}

func (g *gen) templatedPolicies(allowBad bool) structs.ACLTemplatedPolicies {
	var out structs.ACLTemplatedPolicies
	for n := g.listLen(5); n > 0; n-- {
		switch g.r.Intn(4) {
		case 0, 1:
			out = append(out, &structs.ACLTemplatedPolicy{TemplateName: api.ACLTemplatedPolicyServiceName,
				TemplateVariables: &structs.ACLTemplatedPolicyVariables{Name: g.pick(idSvcNames)}, Datacenters: []string{"dc2", "dc1"}[:g.r.Intn(3)]})
		case 2:
			out = append(out, &structs.ACLTemplatedPolicy{TemplateName: api.ACLTemplatedPolicyNodeName,
				TemplateVariables: &structs.ACLTemplatedPolicyVariables{Name: g.pick(idNodeNames)}})
		default:
			out = append(out, &structs.ACLTemplatedPolicy{TemplateName: api.ACLTemplatedPolicyDNSName})
		}
	}
	if allowBad && len(out) > 0 && g.r.Chance(4) {
		out[0].TemplateName = "nope"
	}
	return out
}

func (g *gen) aclToken() *structs.ACLToken {
	i := g.r.Intn(len(uuids))
	t := &structs.ACLToken{AccessorID: uuids[i], SecretID: "5ec2e700-0000-0000-0000-00000000000" + fmt.Sprint(i), Description: "tok", CreateTime: g.tm()}
	if g.r.Chance(8) {
		t.SecretID = "5ec2e700-0000-0000-0000-00000000000" + fmt.Sprint(g.r.Intn(len(uuids))) // secret collision / immutable violation
	}
	for n := g.listLen(5); n > 0; n-- {
		t.Policies = append(t.Policies, structs.ACLTokenPolicyLink{ID: g.ref("policy", uuids), Name: g.pick(polNames)})
	}
	if g.r.Chance(15) {
		t.Policies = append(t.Policies, structs.ACLTokenPolicyLink{ID: structs.ACLPolicyGlobalManagementID})
	}
	for n := g.listLen(4); n > 0; n-- {
		t.Roles = append(t.Roles, structs.ACLTokenRoleLink{ID: g.ref("role", uuids), Name: g.pick(roleNames)})
	}
	t.ServiceIdentities = g.svcIdentities()
	if g.r.Chance(60) {
		t.NodeIdentities = g.nodeIdentities()
	}
	if g.r.Chance(50) {
		t.TemplatedPolicies = g.templatedPolicies(false)
	}
	t.Local = g.r.Chance(25)
	if g.r.Chance(12) {
		t.AuthMethod = g.ref("method", methodNames)
	}
	if g.r.Chance(20) {
		e := g.tm()
		t.ExpirationTime = &e
	}
	if g.r.Chance(25) {
		t.SetHash(true) // as a replicated token carries it; otherwise the store computes it
	}
	if g.r.Chance(3) {
		t.AccessorID = ""
	}
	if g.r.Chance(3) {
		t.SecretID = ""
	}
	g.make("token", t.AccessorID)
	t.ModifyIndex = g.casIndex("tok:" + t.AccessorID)
	g.touch("tok:" + t.AccessorID)
	return t
}

func (g *gen) genACL() ([]byte, string) {
	k := g.r.Intn(18)
	if k >= 14 {
		k = 0 // token upserts are the bulk of ACL traffic
	}
	switch k {
	case 0, 1:
		req := structs.ACLTokenBatchSetRequest{CAS: g.r.Chance(20), AllowMissingLinks: g.r.Chance(75), ProhibitUnprivileged: g.r.Chance(15), FromReplication: g.r.Chance(25)}
		for n := 1 + g.r.Intn(4); n > 0; n-- {
			req.Tokens = append(req.Tokens, g.aclToken())
		}
		return mp(structs.ACLTokenSetRequestType, &req), fmt.Sprintf("acl:token-set:cas=%v", req.CAS)
	case 2:
		req := structs.ACLTokenBatchDeleteRequest{}
		for n := g.r.Intn(3); n > 0; n-- {
			req.TokenIDs = append(req.TokenIDs, g.ref("token", uuids))
		}
		return mp(structs.ACLTokenDeleteRequestType, &req), "acl:token-delete"
	case 3:
		req := structs.ACLTokenBootstrapRequest{Token: *g.aclToken(), ResetIndex: g.casIndex("acl-bootstrap")}
		req.Token.Policies = []structs.ACLTokenPolicyLink{{ID: structs.ACLPolicyGlobalManagementID}}
		g.touch("acl-bootstrap")
		return mp(structs.ACLBootstrapRequestType, &req), "acl:bootstrap"
	case 4, 5:
		req := structs.ACLPolicyBatchSetRequest{}
		for n := 1 + g.r.Intn(2); n > 0; n-- {
			p := &structs.ACLPolicy{ID: g.pick(uuids), Name: g.pick(polNames), Description: "pol", Rules: g.pick([]string{`service "web" { policy = "read" }`, `key_prefix "" { policy = "write" }`, ""})}
			if g.r.Chance(15) {
				p.ID = structs.ACLPolicyGlobalManagementID
				p.Name = "global-management"
				if g.r.Chance(50) {
					p.Rules = structs.ACLBuiltinPolicies[structs.ACLPolicyGlobalManagementID].Rules
				}
			}
			if g.r.Chance(20) {
				p.Datacenters = []string{"dc1", "dc2"}
			}
			if g.r.Chance(5) {
				p.Name = ""
			}
			p.SetHash(true)
			g.make("policy", p.ID)
			req.Policies = append(req.Policies, p)
		}
		return mp(structs.ACLPolicySetRequestType, &req), "acl:policy-set"
	case 6:
		req := structs.ACLPolicyBatchDeleteRequest{}
		for n := g.r.Intn(3); n > 0; n-- {
			req.PolicyIDs = append(req.PolicyIDs, g.pick(append(uuids, structs.ACLPolicyGlobalManagementID)))
		}
		return mp(structs.ACLPolicyDeleteRequestType, &req), "acl:policy-delete"
	case 7, 8:
		req := structs.ACLRoleBatchSetRequest{AllowMissingLinks: g.r.Chance(50)}
		for n := 1 + g.r.Intn(2); n > 0; n-- {
			ro := &structs.ACLRole{ID: g.pick(uuids), Name: g.pick(roleNames), Description: "role"}
			for k := g.listLen(5); k > 0; k-- {
				ro.Policies = append(ro.Policies, structs.ACLRolePolicyLink{ID: g.ref("policy", uuids), Name: g.pick(polNames)})
			}
			ro.ServiceIdentities = g.svcIdentities()
			if g.r.Chance(50) {
				ro.NodeIdentities = g.nodeIdentities()
			}
			if g.r.Chance(40) {
				ro.TemplatedPolicies = g.templatedPolicies(true)
			}
			ro.SetHash(true)
			g.make("role", ro.ID)
			req.Roles = append(req.Roles, ro)
		}
		return mp(structs.ACLRoleSetRequestType, &req), "acl:role-set"
	case 9:
		req := structs.ACLRoleBatchDeleteRequest{}
		for n := g.r.Intn(3); n > 0; n-- {
			req.RoleIDs = append(req.RoleIDs, g.pick(uuids))
		}
		return mp(structs.ACLRoleDeleteRequestType, &req), "acl:role-delete"
	case 10:
		req := structs.ACLBindingRuleBatchSetRequest{}
		for n := 1 + g.r.Intn(2); n > 0; n-- {
			br := &structs.ACLBindingRule{ID: g.pick(uuids), Description: "br", AuthMethod: g.ref("method", append(methodNames, "")), Selector: "serviceaccount.namespace==default",
				BindType: g.pick([]string{structs.BindingRuleBindTypeService, structs.BindingRuleBindTypeRole, structs.BindingRuleBindTypeNode, structs.BindingRuleBindTypeTemplatedPolicy}), BindName: g.pick(idSvcNames)}
			if br.BindType == structs.BindingRuleBindTypeTemplatedPolicy {
				br.BindVars = &structs.ACLTemplatedPolicyVariables{Name: g.pick(idSvcNames)}
			}
			if g.r.Chance(5) {
				br.ID = ""
			}
			req.BindingRules = append(req.BindingRules, br)
		}
		return mp(structs.ACLBindingRuleSetRequestType, &req), "acl:bindingrule-set"
	case 11:
		req := structs.ACLBindingRuleBatchDeleteRequest{}
		for n := g.r.Intn(3); n > 0; n-- {
			req.BindingRuleIDs = append(req.BindingRuleIDs, g.pick(uuids))
		}
		return mp(structs.ACLBindingRuleDeleteRequestType, &req), "acl:bindingrule-delete"
	case 12:
		req := structs.ACLAuthMethodBatchSetRequest{}
		for n := 1 + g.r.Intn(2); n > 0; n-- {
			m := &structs.ACLAuthMethod{Name: g.pick(append(methodNames, methodNames[0], methodNames[1], "")), Type: g.pick([]string{"kubernetes", "jwt", "kubernetes", "jwt", ""}), DisplayName: "M", Description: "am",
				MaxTokenTTL: time.Duration(g.r.Intn(3)) * time.Hour, TokenLocality: g.pick([]string{"", "local", "global"}),
				Config: map[string]interface{}{"Host": "https://k8s", "CACert": "pem", "ServiceAccountJWT": "jwt", "n": 3,
					"BoundAudiences": g.subset(idSvcNames, 0, 6), "ClaimMappings": map[string]string{"a": "x", "b": "y", "c": "z"},
					"ListClaimMappings": map[string]interface{}{"groups": "g", "teams": "t"}}}
			g.make("method", m.Name)
			req.AuthMethods = append(req.AuthMethods, m)
		}
		return mp(structs.ACLAuthMethodSetRequestType, &req), "acl:authmethod-set"
	default:
		req := structs.ACLAuthMethodBatchDeleteRequest{}
		for n := g.r.Intn(3); n > 0; n-- {
			req.AuthMethodNames = append(req.AuthMethodNames, g.pick(methodNames))
		}
		return mp(structs.ACLAuthMethodDeleteRequestType, &req), "acl:authmethod-delete"
	}
}

// ---------------------------------------------------------------- config entries

func (g *gen) configEntry() (structs.ConfigEntry, string) {
	name := g.pick([]string{"web", "api", "db", "web.v1"})
	switch g.r.Intn(16) {
	case 0, 1:
		e := &structs.ProxyConfigEntry{Kind: structs.ProxyDefaults, Name: structs.ProxyConfigGlobal,
			Config: map[string]interface{}{"protocol": g.pick([]string{"http", "http", "tcp", "grpc", "http2"}), "local_connect_timeout_ms": 1000}}
		if g.r.Chance(20) {
			e.Mode = structs.ProxyModeTransparent
		}
		if g.r.Chance(20) {
			e.MeshGateway.Mode = structs.MeshGatewayModeLocal
		}
		return e, "proxy-defaults"
	case 2, 3:
		e := &structs.ServiceConfigEntry{Kind: structs.ServiceDefaults, Name: name, Protocol: g.pick([]string{"http", "tcp", "grpc", ""})}
		if g.r.Chance(20) {
			e.UpstreamConfig = &structs.UpstreamConfiguration{Defaults: &structs.UpstreamConfig{ConnectTimeoutMs: 5}}
		}
		return e, "service-defaults"
	case 4:
		e := &structs.ServiceRouterConfigEntry{Kind: structs.ServiceRouter, Name: name}
		for n := 1 + g.r.Intn(2); n > 0; n-- {
			e.Routes = append(e.Routes, structs.ServiceRoute{Match: &structs.ServiceRouteMatch{HTTP: &structs.ServiceRouteHTTPMatch{PathPrefix: "/" + fmt.Sprint(n)}},
				Destination: &structs.ServiceRouteDestination{Service: g.pick([]string{"web", "api", "db"})}})
		}
		return e, "service-router"
	case 5, 6:
		other := g.pick([]string{"web", "api", "db"})
		e := &structs.ServiceSplitterConfigEntry{Kind: structs.ServiceSplitter, Name: name,
			Splits: []structs.ServiceSplit{{Weight: 60, Service: name}, {Weight: 40, Service: other}}}
		if g.r.Chance(30) {
			e.Splits = []structs.ServiceSplit{{Weight: 100, Service: name}}
		}
		return e, "service-splitter"
	case 7, 8:
		e := &structs.ServiceResolverConfigEntry{Kind: structs.ServiceResolver, Name: name}
		switch g.r.Intn(5) {
		case 0:
			e.Redirect = &structs.ServiceResolverRedirect{Service: g.pick([]string{"web", "api", "db"})}
			if g.r.Chance(30) {
				e.Redirect.Datacenter = "dc2"
			}
			if g.r.Chance(20) {
				e.Redirect.Peer = "peer-a"
			}
		case 1:
			e.DefaultSubset = "v1"
			e.Subsets = map[string]structs.ServiceResolverSubset{"v1": {Filter: "Service.Meta.version == v1"}, "v2": {Filter: "Service.Meta.version == v2"}}
		case 2:
			e.Failover = map[string]structs.ServiceResolverFailover{"*": {Datacenters: []string{"dc2", "dc3"}}}
		case 3:
			e.Failover = map[string]structs.ServiceResolverFailover{"*": {Targets: []structs.ServiceResolverFailoverTarget{{Peer: "peer-a"}, {Service: "api"}}}}
		}
		e.ConnectTimeout = time.Duration(g.r.Intn(3)) * time.Second
		return e, "service-resolver"
	case 9:
		e := &structs.IngressGatewayConfigEntry{Kind: structs.IngressGateway, Name: "igw"}
		proto := g.pick([]string{"http", "tcp"})
		l := structs.IngressListener{Port: 8080 + g.r.Intn(2), Protocol: proto, Services: []structs.IngressService{{Name: g.pick([]string{"web", "api", "db"})}}}
		if proto == "http" && g.r.Bool() {
			l.Services = append(l.Services, structs.IngressService{Name: g.pick([]string{"web", "api", "db", "*"})})
		}
		e.Listeners = []structs.IngressListener{l}
		return e, "ingress-gateway"
	case 10:
		e := &structs.TerminatingGatewayConfigEntry{Kind: structs.TerminatingGateway, Name: "tgw"}
		for n := 1 + g.r.Intn(3); n > 0; n-- {
			e.Services = append(e.Services, structs.LinkedService{Name: g.pick([]string{"web", "api", "db", "*"})})
		}
		return e, "terminating-gateway"
	case 11, 12:
		e := &structs.ServiceIntentionsConfigEntry{Kind: structs.ServiceIntentions, Name: g.pick([]string{"web", "api", "db", "*"})}
		seen := map[string]bool{}
		for n := 1 + g.r.Intn(3); n > 0; n-- {
			s := g.sourceIntention()
			if seen[s.Name+"/"+s.Peer] {
				continue
			}
			seen[s.Name+"/"+s.Peer] = true
			e.Sources = append(e.Sources, s)
		}
		if g.r.Chance(25) {
			e.JWT = &structs.IntentionJWTRequirement{Providers: []*structs.IntentionJWTProvider{{Name: "okta"}, {Name: "auth0"}, {Name: "jwt-y"}}}
		}
		return e, "service-intentions"
	case 13:
		e := &structs.ExportedServicesConfigEntry{Name: "default"}
		for n := 1 + g.r.Intn(3); n > 0; n-- {
			e.Services = append(e.Services, structs.ExportedService{Name: g.pick([]string{"web", "api", "db", "*"}), Consumers: []structs.ServiceConsumer{{Peer: g.pick([]string{"peer-a", "peer-b"})}}})
		}
		return e, "exported-services"
	case 14:
		if g.r.Bool() {
			return &structs.MeshConfigEntry{TransparentProxy: structs.TransparentProxyMeshConfig{MeshDestinationsOnly: g.r.Bool()}}, "mesh"
		}
		e := &structs.JWTProviderConfigEntry{Kind: structs.JWTProvider, Name: g.pick([]string{"okta", "auth0"}), Issuer: "iss",
			JSONWebKeySet: &structs.JSONWebKeySet{Local: &structs.LocalJWKS{JWKS: "eyJrZXlzIjogW119"}}}
		return e, "jwt-provider"
	default:
		switch g.r.Intn(3) {
		case 0:
			e := &structs.APIGatewayConfigEntry{Kind: structs.APIGateway, Name: "agw",
				Listeners: []structs.APIGatewayListener{{Name: "l1", Port: 9090, Protocol: structs.ListenerProtocolTCP}, {Name: "l2", Port: 9091, Protocol: structs.ListenerProtocolHTTP}}}
			e.Status = structs.Status{Conditions: []structs.Condition{{Type: "Accepted", Status: "True", Reason: "Accepted", LastTransitionTime: ptrTime(g.tm())}}}
			return e, "api-gateway"
		case 1:
			e := &structs.TCPRouteConfigEntry{Kind: structs.TCPRoute, Name: "tcp-r", Parents: []structs.ResourceReference{{Kind: structs.APIGateway, Name: "agw", SectionName: "l1"}},
				Services: []structs.TCPService{{Name: g.pick([]string{"web", "api"})}}}
			return e, "tcp-route"
		default:
			e := &structs.HTTPRouteConfigEntry{Kind: structs.HTTPRoute, Name: "http-r", Parents: []structs.ResourceReference{{Kind: structs.APIGateway, Name: "agw", SectionName: "l2"}},
				Rules: []structs.HTTPRouteRule{{Services: []structs.HTTPService{{Name: g.pick([]string{"web", "api"}), Weight: 1}}}}, Hostnames: []string{"a.example", "b.example"}}
			return e, "http-route"
		}
	}
}

func (g *gen) genConfigEntry() ([]byte, string) {
	e, kind := g.configEntry()
	ops := []structs.ConfigEntryOp{structs.ConfigEntryUpsert, structs.ConfigEntryUpsert, structs.ConfigEntryUpsert, structs.ConfigEntryUpsertCAS,
		structs.ConfigEntryUpsertWithStatusCAS, structs.ConfigEntryDelete, structs.ConfigEntryDeleteCAS, "bogus"}
	op := hx.Pick(g.r, ops)
	if !g.r.Chance(7) {
		// what the RPC endpoint does before appending to the log
		if err := e.Normalize(); err != nil {
			kind += ":normalize-err"
		} else if err := e.Validate(); err != nil {
			kind += ":invalid"
			if g.r.Chance(70) {
				// the endpoint would have rejected it; mostly send a valid one instead
				e2, k2 := g.configEntry()
				if e2.Normalize() == nil && e2.Validate() == nil {
					e, kind = e2, k2
				}
			}
		}
	} else {
		kind += ":raw"
	}
	k := "ce:" + e.GetKind() + "/" + e.GetName()
	switch op {
	case structs.ConfigEntryUpsertCAS, structs.ConfigEntryUpsertWithStatusCAS, structs.ConfigEntryDeleteCAS:
		e.GetRaftIndex().ModifyIndex = g.casIndex(k)
	}
	g.touch(k)
	req := structs.ConfigEntryRequest{Datacenter: "dc1", Op: op, Entry: e}
	return mp(structs.ConfigEntryRequestType, &req), "config-entry:" + string(op) + ":" + kind
}

func upsertCE(e structs.ConfigEntry) []byte {
	_ = e.Normalize()
	return mp(structs.ConfigEntryRequestType, &structs.ConfigEntryRequest{Datacenter: "dc1", Op: structs.ConfigEntryUpsert, Entry: e})
}

// ---------------------------------------------------------------- peering

func (g *gen) genPeering() ([]byte, string) {
	i := g.r.Intn(3)
	ids := []string{"9ee20000-0000-0000-0000-000000000001", "9ee20000-0000-0000-0000-000000000002", "9ee20000-0000-0000-0000-000000000003"}
	names := []string{"peer-a", "peer-b", "Peer-A"}
	switch g.r.Intn(12) {
	case 0, 1, 2, 3:
		p := &pbpeering.Peering{ID: ids[i], Name: names[i], Meta: map[string]string{"a": "1", "b": "2", "c": "3"}}
		if g.r.Chance(5) {
			p.Name = names[g.r.Intn(3)] // id/name conflicts
		}
		g.make("peering", p.ID)
		p.State = hx.Pick(g.r, []pbpeering.PeeringState{pbpeering.PeeringState_UNDEFINED, pbpeering.PeeringState_PENDING, pbpeering.PeeringState_ESTABLISHING,
			pbpeering.PeeringState_ACTIVE, pbpeering.PeeringState_ACTIVE, pbpeering.PeeringState_FAILING, pbpeering.PeeringState_DELETING, pbpeering.PeeringState_TERMINATED})
		if p.State == pbpeering.PeeringState_DELETING && g.r.Chance(85) {
			p.DeletedAt = timestamppb.New(g.tm())
		}
		if g.r.Chance(35) {
			p.PeerServerAddresses = []string{"10.0.0.1:8502"} // dialer side
			p.PeerID = "remote-id"
			p.PeerCAPems = []string{"pem1"}
			p.PeerServerName = "server.dc2.consul"
		}
		if g.r.Chance(25) {
			p.Remote = &pbpeering.RemoteInfo{Partition: "", Datacenter: "dc2"}
		}
		if g.r.Chance(10) {
			p.StreamStatus = &pbpeering.StreamStatus{ImportedServices: []string{"x"}}
		}
		if g.r.Chance(4) {
			p.ID = ""
		}
		req := &pbpeering.PeeringWriteRequest{Peering: p}
		if g.r.Chance(30) {
			req.SecretsRequest = g.secretsRequest(p.ID)
		}
		return pb(structs.PeeringWriteType, req), "peering:write:" + p.State.String()
	case 4:
		return pb(structs.PeeringDeleteType, &pbpeering.PeeringDeleteRequest{Name: names[i]}), "peering:delete"
	case 5:
		return pb(structs.PeeringTerminateByIDType, &pbpeering.PeeringTerminateByIDRequest{ID: g.ref("peering", ids)}), "peering:terminate"
	case 6, 7:
		tb := &pbpeering.PeeringTrustBundle{TrustDomain: "td" + fmt.Sprint(g.r.Intn(2)) + ".consul", PeerName: names[i], RootPEMs: []string{"pemA", "pemB"}[:1+g.r.Intn(2)], ExportedPartition: "default"}
		if g.r.Chance(5) {
			tb.PeerName = ""
		}
		return pb(structs.PeeringTrustBundleWriteType, &pbpeering.PeeringTrustBundleWriteRequest{PeeringTrustBundle: tb}), "peering:trust-bundle-write"
	case 8:
		return pb(structs.PeeringTrustBundleDeleteType, &pbpeering.PeeringTrustBundleDeleteRequest{Name: names[i]}), "peering:trust-bundle-delete"
	default:
		return pb(structs.PeeringSecretsWriteType, g.secretsRequest(g.ref("peering", ids))), "peering:secrets-write"
	}
}

func (g *gen) secretsRequest(peerID string) *pbpeering.SecretsWriteRequest {
	sec := func() string { return "5ec00000-0000-0000-0000-00000000000" + fmt.Sprint(g.r.Intn(4)) }
	req := &pbpeering.SecretsWriteRequest{PeerID: peerID}
	switch g.r.Intn(5) {
	case 0, 1:
		req.Request = &pbpeering.SecretsWriteRequest_GenerateToken{GenerateToken: &pbpeering.SecretsWriteRequest_GenerateTokenRequest{EstablishmentSecret: sec()}}
	case 2:
		req.Request = &pbpeering.SecretsWriteRequest_ExchangeSecret{ExchangeSecret: &pbpeering.SecretsWriteRequest_ExchangeSecretRequest{EstablishmentSecret: sec(), PendingStreamSecret: sec()}}
	case 3:
		req.Request = &pbpeering.SecretsWriteRequest_PromotePending{PromotePending: &pbpeering.SecretsWriteRequest_PromotePendingRequest{ActiveStreamSecret: sec()}}
	default:
		req.Request = &pbpeering.SecretsWriteRequest_Establish{Establish: &pbpeering.SecretsWriteRequest_EstablishRequest{ActiveStreamSecret: sec()}}
	}
	if g.r.Chance(5) {
		req.PeerID = ""
	}
	return req
}

// ---------------------------------------------------------------- resources / manual VIPs / legacy ACL

func (g *gen) genResource() ([]byte, string) {
	typ := &pbresource.Type{Group: g.pick([]string{"demo", "demo", "catalog", "hcp"}), GroupVersion: g.pick([]string{"v1", "v2", "v2beta1"}), Kind: g.pick([]string{"Artist", "Album"})}
	name := g.pick([]string{"a", "b", "A"})
	id := &pbresource.ID{Type: typ, Tenancy: &pbresource.Tenancy{Partition: "default", Namespace: "default"}, Name: name,
		Uid: g.pick([]string{"01HXUID0000000000000000001", "01HXUID0000000000000000002"})}
	k := "res:" + typ.Group + typ.Kind + name
	vsn := ""
	if c := g.casIndex(k); c != 0 {
		vsn = fmt.Sprint(c)
	}
	var l *pbstorage.Log
	tag := "resource:write"
	if g.r.Chance(70) {
		res := &pbresource.Resource{Id: id, Version: vsn, Generation: "01HXGEN" + fmt.Sprint(g.r.Intn(3)), Metadata: map[string]string{"a": "1", "b": "2", "c": "3"}}
		if g.r.Chance(30) {
			res.Owner = &pbresource.ID{Type: typ, Tenancy: id.Tenancy, Name: "owner", Uid: "01HXUID0000000000000000009"}
		}
		l = &pbstorage.Log{Type: pbstorage.LogType_LOG_TYPE_WRITE, Request: &pbstorage.Log_Write{Write: &pbstorage.WriteRequest{Resource: res}}}
	} else {
		l = &pbstorage.Log{Type: pbstorage.LogType_LOG_TYPE_DELETE, Request: &pbstorage.Log_Delete{Delete: &pbstorage.DeleteRequest{Id: id, Version: vsn}}}
		tag = "resource:delete"
	}
	if g.r.Chance(4) {
		l.Type = pbstorage.LogType_LOG_TYPE_UNSPECIFIED
		tag = "resource:unspecified"
	}
	g.touch(k)
	b, err := l.MarshalBinary()
	if err != nil {
		panic(err)
	}
	return append([]byte{byte(structs.ResourceOperationType)}, b...), tag
}

func (g *gen) genManualVIPs() ([]byte, string) {
	// mostly services that this history registered as connect-enabled (they own a virtual IP row)
	psn := structs.PeeredServiceName{ServiceName: structs.NewServiceName(g.ref("vipsvc", svcNames), nil), Peer: g.pick([]string{"", "", "", "", "", "peer-a"})}
	req := state.ServiceVirtualIP{Service: psn}
	n := g.r.Intn(4)
	if vs := g.made["vipsvc"]; len(vs) >= 2 && g.r.Chance(25) {
		// scripted shape: two (or three) services get one address each, then another service takes all
		// of them at once, so the reply has to list several services in UnassignedFrom
		names := append([]string(nil), vs...)
		hx.Shuffle(g.r, names)
		uniq := []string{}
		for _, n := range names {
			dup := false
			for _, u := range uniq {
				dup = dup || u == n
			}
			if !dup {
				uniq = append(uniq, n)
			}
		}
		if len(uniq) >= 3 {
			one := func(svc string, ips ...string) []byte {
				return mp(structs.UpdateVirtualIPRequestType, &state.ServiceVirtualIP{Service: structs.PeeredServiceName{ServiceName: structs.NewServiceName(svc, nil)}, ManualIPs: ips})
			}
			g.queue = append(g.queue, queued{one(uniq[1], manualIPs[1]), "manual-vip:script-2"})
			if len(uniq) >= 4 || g.r.Bool() {
				g.queue = append(g.queue, queued{one(uniq[2], manualIPs[2]), "manual-vip:script-2b"})
				g.queue = append(g.queue, queued{one(uniq[0], manualIPs[2], manualIPs[0], manualIPs[1]), "manual-vip:script-take-all"})
			} else {
				g.queue = append(g.queue, queued{one(uniq[2], manualIPs[1], manualIPs[0]), "manual-vip:script-take-all"})
			}
			return one(uniq[0], manualIPs[0]), "manual-vip:script-1"
		}
	}
	if g.r.Chance(12) {
		// take all three well-formed addresses at once
		req.ManualIPs = []string{manualIPs[2], manualIPs[0], manualIPs[1]}
		return mp(structs.UpdateVirtualIPRequestType, &req), "manual-vip:steal-all"
	}
	for i := 0; i < n; i++ {
		if g.r.Chance(85) {
			req.ManualIPs = append(req.ManualIPs, manualIPs[g.r.Intn(3)]) // the three well-formed ones: collisions between services
		} else {
			req.ManualIPs = append(req.ManualIPs, g.pick(manualIPs))
		}
	}
	if g.r.Chance(10) {
		req.IP = net.ParseIP("240.0.0.9")
	}
	return mp(structs.UpdateVirtualIPRequestType, &req), fmt.Sprintf("manual-vip:%d", n)
}

// connectService registers a connect-native service (it gets a virtual IP when virtual IPs are on).
func (g *gen) connectService(name string) []byte {
	g.make("node", "n1")
	g.make("vipsvc", name)
	return mp(structs.RegisterRequestType, &structs.RegisterRequest{Datacenter: "dc1", Node: "n1", Address: "10.0.0.1",
		Service: &structs.NodeService{ID: name, Service: name, Port: 8080, Connect: structs.ServiceConnect{Native: true}}})
}

func (g *gen) genLegacyACL() ([]byte, string) {
	return mp(structs.DeprecatedACLRequestType, map[string]any{"Op": "set", "ACL": map[string]any{"ID": "x"}}), "legacy-acl"
}

// ---------------------------------------------------------------- gateways + virtual IPs, multi-removal shapes

// services that appear ONLY as linked services of gateways (no instances, no other config
// entries): their virtual IP exists only because a terminating gateway links them, so dropping
// the link frees it
var extSvcs = []string{"ext1", "ext2", "ext3", "ext4", "ext5", "ext6"}
var newSvcs = []string{"new1", "new2", "new3", "new4", "new5"}

func (g *gen) subset(pool []string, min, max int) []string {
	xs := append([]string(nil), pool...)
	hx.Shuffle(g.r, xs)
	n := min
	if max > min {
		n += g.r.Intn(max - min + 1)
	}
	if n > len(xs) {
		n = len(xs)
	}
	return xs[:n]
}

func tgwEntry(name string, links []string) []byte {
	e := &structs.TerminatingGatewayConfigEntry{Kind: structs.TerminatingGateway, Name: name}
	for _, l := range links {
		e.Services = append(e.Services, structs.LinkedService{Name: l})
	}
	return upsertCE(e)
}

func igwEntry(name string, svcs []string) []byte {
	e := &structs.IngressGatewayConfigEntry{Kind: structs.IngressGateway, Name: name}
	for i, s := range svcs {
		e.Listeners = append(e.Listeners, structs.IngressListener{Port: 7000 + i, Protocol: "tcp", Services: []structs.IngressService{{Name: s}}})
	}
	return upsertCE(e)
}

func (g *gen) gatewayInstance(name string, kind structs.ServiceKind) []byte {
	g.make("node", "n1")
	return mp(structs.RegisterRequestType, &structs.RegisterRequest{Datacenter: "dc1", Node: "n1", Address: "10.0.0.1",
		Service: &structs.NodeService{ID: name, Service: name, Kind: kind, Port: 8443}})
}

// vipAllocation: a command that needs a fresh auto-assigned virtual IP
func (g *gen) vipAllocation() ([]byte, string) {
	name := g.pick(newSvcs)
	switch g.r.Intn(6) {
	case 0, 1, 2:
		return g.connectService(name), "gwvip:alloc-connect-native"
	case 3:
		g.make("node", "n2")
		return mp(structs.RegisterRequestType, &structs.RegisterRequest{Datacenter: "dc1", Node: "n2", Address: "10.0.0.2",
			Service: &structs.NodeService{ID: name + "-proxy", Service: name + "-proxy", Port: 21000, Kind: structs.ServiceKindConnectProxy,
				Proxy: structs.ConnectProxyConfig{DestinationServiceName: name}}}), "gwvip:alloc-proxy"
	case 4:
		return upsertCE(&structs.ServiceConfigEntry{Kind: structs.ServiceDefaults, Name: name, Protocol: "tcp"}), "gwvip:alloc-service-defaults"
	default:
		return tgwEntry("tgw2", []string{name, g.pick(newSvcs)}), "gwvip:alloc-link"
	}
}

// gatewayVIPScript: a terminating gateway links k >= 3 otherwise unreferenced services (each gets a
// virtual IP), ONE rewrite drops several links at once (their addresses are freed inside one
// command), then fresh virtual IPs are allocated. Which address is handed out next must not depend on
// the order in which the dropped ones were freed.
func (g *gen) gatewayVIPScript() ([]byte, string) {
	gw := g.pick([]string{"tgw", "tgw", "tgw3"})
	links := g.subset(extSvcs, 3, 6)
	keep := g.subset(links, 0, 1)
	if g.r.Chance(25) {
		keep = append(keep, g.pick(newSvcs)) // drop several, add one: allocation inside the same command
	}
	if g.r.Chance(40) {
		g.queue = append(g.queue, queued{g.gatewayInstance(gw, structs.ServiceKindTerminatingGateway), "gwvip:script-gateway-instance"})
	}
	if g.r.Chance(30) {
		d, t := g.vipAllocation()
		g.queue = append(g.queue, queued{d, t})
	}
	g.queue = append(g.queue, queued{tgwEntry(gw, keep), fmt.Sprintf("gwvip:script-drop-%d-links", len(links)-len(keep))})
	for n := 1 + g.r.Intn(3); n > 0; n-- {
		d, t := g.vipAllocation()
		g.queue = append(g.queue, queued{d, t})
	}
	return tgwEntry(gw, links), fmt.Sprintf("gwvip:script-link-%d", len(links))
}

// meshTopologyScript: a sidecar with several upstreams re-registers with most of them gone
// (updateMeshTopology ranges over the map of old upstreams)
func (g *gen) meshTopologyScript() ([]byte, string) {
	ups := g.subset([]string{"api", "db", "web", "ext1", "ext2", "new1"}, 3, 5)
	reg := func(us []string) []byte {
		ns := &structs.NodeService{ID: "web-proxy", Service: "web-proxy", Port: 21000, Kind: structs.ServiceKindConnectProxy,
			Proxy: structs.ConnectProxyConfig{DestinationServiceName: "web"}}
		for i, u := range us {
			ns.Proxy.Upstreams = append(ns.Proxy.Upstreams, structs.Upstream{DestinationName: u, LocalBindPort: 9100 + i})
		}
		return mp(structs.RegisterRequestType, &structs.RegisterRequest{Datacenter: "dc1", Node: "n1", Address: "10.0.0.1", Service: ns})
	}
	g.make("node", "n1")
	g.queue = append(g.queue, queued{reg(g.subset(ups, 0, 1)), "multi:proxy-drop-upstreams"})
	if g.r.Chance(50) {
		g.queue = append(g.queue, queued{reg(g.subset(ups, 2, 4)), "multi:proxy-readd-upstreams"})
	}
	return reg(ups), "multi:proxy-many-upstreams"
}

// nodeSweepScript: a node with several services and checks is deregistered in one command (usage
// deltas, per-service index rows, session invalidation all happen inside it)
func (g *gen) nodeSweepScript() ([]byte, string) {
	g.make("node", "n3")
	for i, s := range g.subset([]string{"web", "api", "db", "new1", "new2"}, 2, 4) {
		ns := &structs.NodeService{ID: s, Service: s, Port: 8000 + i}
		if g.r.Chance(40) {
			ns.Connect.Native = true
		}
		req := &structs.RegisterRequest{Datacenter: "dc1", Node: "n3", Address: "10.0.0.3", Service: ns,
			Check: &structs.HealthCheck{Node: "n3", CheckID: types.CheckID("svc:" + s), Name: "chk", Status: api.HealthPassing, ServiceID: s}}
		g.queue = append(g.queue, queued{mp(structs.RegisterRequestType, req), "multi:node-sweep-register"})
	}
	g.queue = append(g.queue, queued{mp(structs.DeregisterRequestType, &structs.DeregisterRequest{Datacenter: "dc1", Node: "n3"}), "multi:node-sweep-deregister"})
	d, t := g.vipAllocation()
	g.queue = append(g.queue, queued{d, t})
	return mp(structs.RegisterRequestType, &structs.RegisterRequest{Datacenter: "dc1", Node: "n3", Address: "10.0.0.3"}), "multi:node-sweep-node"
}

func (g *gen) genGatewayVIP() ([]byte, string) {
	switch g.r.Intn(20) {
	case 0, 1, 2, 3, 4:
		return g.gatewayVIPScript()
	case 5, 6:
		// random rewrite of a terminating gateway: any subset, often much smaller than before
		gw := g.pick([]string{"tgw", "tgw", "tgw2", "tgw3"})
		links := g.subset(append(append([]string(nil), extSvcs...), "web", "new1"), 0, 5)
		return tgwEntry(gw, links), fmt.Sprintf("gwvip:tgw-rewrite-%d", len(links))
	case 7:
		gw := g.pick([]string{"tgw", "tgw2", "tgw3"})
		return mp(structs.ConfigEntryRequestType, &structs.ConfigEntryRequest{Datacenter: "dc1", Op: structs.ConfigEntryDelete,
			Entry: &structs.TerminatingGatewayConfigEntry{Kind: structs.TerminatingGateway, Name: gw}}), "gwvip:tgw-delete"
	case 8, 9, 10:
		return g.vipAllocation()
	case 11:
		return g.gatewayInstance(g.pick([]string{"tgw", "tgw2"}), structs.ServiceKindTerminatingGateway), "gwvip:gateway-instance"
	case 12:
		svcs := g.subset([]string{"web", "api", "db", "ext1", "ext2", "new1"}, 0, 4)
		return igwEntry("igw", svcs), fmt.Sprintf("gwvip:igw-rewrite-%d", len(svcs))
	case 13:
		return g.gatewayInstance("igw", structs.ServiceKindIngressGateway), "gwvip:ingress-instance"
	case 14:
		// free one address the ordinary way
		name := g.pick(newSvcs)
		return mp(structs.DeregisterRequestType, &structs.DeregisterRequest{Datacenter: "dc1", Node: "n1", ServiceID: name}), "gwvip:dereg-connect-native"
	case 15:
		name := g.pick(newSvcs)
		return mp(structs.ConfigEntryRequestType, &structs.ConfigEntryRequest{Datacenter: "dc1", Op: structs.ConfigEntryDelete,
			Entry: &structs.ServiceConfigEntry{Kind: structs.ServiceDefaults, Name: name}}), "gwvip:delete-service-defaults"
	case 16, 17:
		return g.meshTopologyScript()
	case 18:
		return g.nodeSweepScript()
	default:
		return g.genManualVIPs()
	}
}

// ---------------------------------------------------------------- malformed / dispatch-layer inputs

func (g *gen) genMalformed(valid func() ([]byte, string)) ([]byte, string) {
	switch g.r.Intn(9) {
	case 0:
		// a valid command whose type byte carries IgnoreUnknownTypeFlag: must behave exactly like the plain one
		b, tag := valid()
		b[0] |= byte(structs.IgnoreUnknownTypeFlag)
		return b, "flagged:" + tag
	case 1:
		// unknown type with the flag: ignored
		t := hx.Pick(g.r, []byte{10, 14, 15, 16, 29, 32, 33, 34, 41, 44, 46, 63, 64, 100, 127})
		return append([]byte{t | 128}, mp(0, map[string]any{"x": 1})[1:]...), "unknown-ignored"
	case 2:
		// cross-typed: the payload of one command under the type byte of another (msgpack ignores
		// unknown fields, so this usually decodes to a zero request and is rejected by validation)
		b, tag := valid()
		t := byte(hx.Pick(g.r, []structs.MessageType{structs.RegisterRequestType, structs.DeregisterRequestType, structs.KVSRequestType, structs.SessionRequestType,
			structs.TombstoneRequestType, structs.PreparedQueryRequestType, structs.TxnRequestType, structs.AutopilotRequestType, structs.IntentionRequestType,
			structs.ConnectCARequestType, structs.ACLTokenSetRequestType, structs.ACLPolicySetRequestType, structs.SystemMetadataRequestType,
			structs.FederationStateRequestType, structs.UpdateVirtualIPRequestType, structs.FeatureGateRequestType, structs.ACLBootstrapRequestType,
			structs.ACLRoleSetRequestType, structs.ACLAuthMethodDeleteRequestType, structs.ConnectCALeafRequestType}))
		if b[0] == byte(structs.ResourceOperationType) || (b[0] >= 35 && b[0] <= 40) {
			return b, tag // protobuf payloads are not msgpack
		}
		b[0] = t
		return b, "cross-typed"
	case 3:
		// empty msgpack map: every field zero
		t := byte(hx.Pick(g.r, []structs.MessageType{structs.RegisterRequestType, structs.DeregisterRequestType, structs.KVSRequestType, structs.SessionRequestType,
			structs.TombstoneRequestType, structs.TxnRequestType, structs.IntentionRequestType, structs.ConnectCARequestType, structs.ACLTokenSetRequestType,
			structs.ACLTokenDeleteRequestType, structs.ACLPolicyDeleteRequestType, structs.SystemMetadataRequestType, structs.AutopilotRequestType,
			structs.ACLBootstrapRequestType, structs.FeatureGateRequestType, structs.UpdateVirtualIPRequestType, structs.CoordinateBatchUpdateType}))
		return append([]byte{t}, mp(0, map[string]any{})[1:]...), "zero-request"
	case 4:
		// empty protobuf message
		t := byte(hx.Pick(g.r, []structs.MessageType{structs.PeeringDeleteType, structs.PeeringTerminateByIDType, structs.PeeringTrustBundleDeleteType, structs.PeeringSecretsWriteType, structs.ResourceOperationType}))
		return []byte{t}, "zero-proto"
	case 5:
		// extra unknown fields next to valid ones
		return mp(structs.KVSRequestType, map[string]any{"Op": "set", "DirEnt": map[string]any{"Key": "a", "Value": []byte("v"), "Bogus": 1}, "Extra": []int{1, 2}}), "extra-fields"
	default:
		b, tag := valid()
		return b, tag
	}
}

// fatal: inputs after which the server is dead (the history ends there)
func (g *gen) genFatal(valid func() ([]byte, string)) ([]byte, string) {
	switch g.r.Intn(8) {
	case 5:
		// unknown transaction verbs panic by contract
		op := &structs.TxnOp{}
		switch g.r.Intn(5) {
		case 0:
			op.KV = &structs.TxnKVOp{Verb: "bogus", DirEnt: g.dirEnt()}
		case 1:
			op.Node = &structs.TxnNodeOp{Verb: "bogus", Node: structs.Node{Node: "n1"}}
		case 2:
			op.Session = &structs.TxnSessionOp{Verb: "bogus", Session: structs.Session{ID: g.pick(sessIDs)}}
		case 3:
			op.Check = &structs.TxnCheckOp{Verb: "bogus", Check: *g.healthCheck("n1", "")}
		}
		return mp(structs.TxnRequestType, &structs.TxnRequest{Datacenter: "dc1", Ops: structs.TxnOps{{KV: &structs.TxnKVOp{Verb: api.KVSet, DirEnt: g.dirEnt()}}, op}}), "txn-bogus-verb"
	case 6:
		return mp(structs.SystemMetadataRequestType, &structs.SystemMetadataRequest{Datacenter: "dc1", Op: structs.SystemMetadataUpsert}), "sysmeta-nil-entry"
	case 7:
		return pb(structs.PeeringWriteType, &pbpeering.PeeringWriteRequest{}), "peering-nil"
	case 0:
		t := hx.Pick(g.r, []byte{10, 14, 15, 16, 29, 32, 33, 34, 41, 44, 46, 63, 64, 100, 127})
		return append([]byte{t}, mp(0, map[string]any{"x": 1})[1:]...), "unknown-panic"
	case 1:
		b, _ := valid()
		if len(b) > 3 && b[0] != byte(structs.ResourceOperationType) {
			return b[:1+g.r.Intn(len(b)-2)], "truncated"
		}
		return b[:1], "truncated"
	case 2:
		return mp(structs.KVSRequestType, map[string]any{"Op": 5, "DirEnt": "not-a-map"}), "type-confused"
	case 3:
		return []byte{}, "empty-data"
	default:
		t := byte(hx.Pick(g.r, []structs.MessageType{structs.RegisterRequestType, structs.KVSRequestType, structs.TxnRequestType, structs.ACLTokenSetRequestType, structs.PeeringWriteType}))
		return []byte{t, 0xc1}, "garbage" // 0xc1 is never valid msgpack; invalid protobuf tag too
	}
}

var _ = acl.DefaultEnterpriseMeta
