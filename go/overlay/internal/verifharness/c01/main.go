//go:build verif

// C01 harness: "replicas that apply the same committed log hold the same state".
//
// One seed generates histories of committed write commands over EVERY registered FSM message
// type (real msgpack / protobuf encoded raft.Log entries — accepted, rejected, malformed but
// decodable, unknown types with and without IgnoreUnknownTypeFlag, fatal ones). Each history is
// applied to
//   A   a fresh fsm.FSM in this process, leader-like (tombstone GC enabled, lock delays live),
//   A'  a second fresh fsm.FSM in this process (follower-like, no GC),
//   C   a third fresh fsm.FSM in a CHILD PROCESS (this binary re-executed with -child), started
//       at least 1.1 s after this process with a different GOMAXPROCS — different wall clock,
//       process, map seed and scheduler.
// MONITORS (model independent; they restate the property on the implementation):
//   replica:result:<type>      per-entry results differ between replicas (canonical rendering:
//                              errors by type+text, everything else structurally)
//   replica:error-text:<validation routine or type>
//                              both replicas reject the command but with different error TEXT
//   env:bind-address…          a fixed witness replayed under different per-server bind addresses
//                              (see envSection; two known findings of consul live here)
//   replica:<table>:<type>     a full dump differs (every memdb table incl. the index table via
//                              Store.WalkAllTables, plus the resource store; rows in primary-key
//                              order, every field) — <type> is the first command after which it does
//   replica:outcome:<type>     handled / ignored / panic verdict differs
//   wallclock-in-state:<table> / wallclock-in-result:<type>
//                              a time value within 36 h of the real clock is found although
//                              every command carries synthetic times from 2001
//   rejected-mutates:<type>    a command answered with an error changed some table
// CORRESPONDENCE with the Lean dispatch model (CV.Fsm over the regenerated dispatch table):
//   tbl / ap / hist / cov lines, see lean/CV/Engine/C01.lean; with the store model (storeSection) and
//   with the keyed-table model CV.Keyed (keyed.go: ACL policy/role/binding-rule/auth-method, federation
//   state, CA leaf — results and table dumps after every command, plus the keyed:* monitors).
package main

import (
	"bufio"
	"bytes"
	"context"
	"crypto/sha256"
	"encoding/binary"
	"encoding/hex"
	"flag"
	"fmt"
	"io"
	"os"
	"net"
	"os/exec"
	"runtime"
	"sort"
	"strconv"
	"strings"
	"sync"
	"time"

	"github.com/hashicorp/go-hclog"
	"github.com/hashicorp/raft"

	"github.com/hashicorp/consul/agent/consul/fsm"
	"github.com/hashicorp/consul/agent/consul/state"
	"github.com/hashicorp/consul/agent/netutil"
	"github.com/hashicorp/consul/agent/structs"
	raftstorage "github.com/hashicorp/consul/internal/storage/raft"
	"github.com/hashicorp/consul/internal/verifharness/hx"
	"github.com/hashicorp/consul/internal/verifharness/storex"
	"github.com/hashicorp/consul/proto-public/pbresource"
	"google.golang.org/protobuf/proto"
)

var processStart = time.Now()

// registration order of fsm/commands_ce.go (= order of CV.Facts.Fsm.registeredCommands)
var regOrder = []byte{0, 1, 2, 3, 4, 5, 6, 7, 8, 9, 45, 12, 13, 17, 18, 11, 19, 20, 21, 22, 23, 24, 25, 26, 27, 28, 30, 31, 35, 36, 37, 38, 39, 40, 42, 43}

// ---------------------------------------------------------------- histories

type history struct {
	id        int
	profile   string
	entries   []entry
	dumpEvery int
	resource  bool // attach a real raft storage backend (else NullStorageBackend)
	replicas  int  // fresh FSMs in this process (>= 2)
}

type family struct {
	name string
	gen  func(g *gen) ([]byte, string)
}

var families = []family{
	{"register", (*gen).genRegister}, {"deregister", (*gen).genDeregister}, {"kvs", (*gen).genKVS},
	{"session", (*gen).genSession}, {"tombstone", (*gen).genTombstone}, {"coordinate", (*gen).genCoordinates},
	{"pq", (*gen).genPreparedQuery}, {"txn", (*gen).genTxn}, {"autopilot", (*gen).genAutopilot},
	{"feature-gate", (*gen).genFeatureGate}, {"sysmeta", (*gen).genSystemMetadata}, {"fedstate", (*gen).genFederationState},
	{"intention", (*gen).genIntention}, {"ca", (*gen).genConnectCA}, {"ca-leaf", (*gen).genCALeaf}, {"acl", (*gen).genACL},
	{"config-entry", (*gen).genConfigEntry}, {"peering", (*gen).genPeering}, {"resource", (*gen).genResource},
	{"manual-vip", (*gen).genManualVIPs}, {"legacy-acl", (*gen).genLegacyACL},
	{"gateway-vip", (*gen).genGatewayVIP},
}

// profile -> family weights (families not listed get weight 1)
var profiles = map[string]map[string]int{
	"mixed":      {},
	"catalog":    {"register": 30, "deregister": 10, "txn": 8, "coordinate": 4, "session": 4, "sysmeta": 3},
	"kv":         {"kvs": 30, "session": 12, "txn": 12, "tombstone": 6, "register": 8, "deregister": 3, "pq": 4},
	"acl":        {"acl": 50},
	"config":     {"config-entry": 40, "intention": 6, "register": 5, "sysmeta": 3, "peering": 3},
	"peering":    {"peering": 40, "config-entry": 6, "register": 5},
	"ca":         {"ca": 30, "ca-leaf": 5, "autopilot": 6, "feature-gate": 8, "fedstate": 8, "sysmeta": 6},
	"intentions": {"intention": 35, "txn": 8, "config-entry": 10, "sysmeta": 4},
	"vip":        {"manual-vip": 30, "register": 25, "deregister": 8, "sysmeta": 3, "config-entry": 4},
	"resource":   {"resource": 40},
	// terminating / ingress gateways with many linked services, rewrites that drop several links in
	// one command, virtual-IP allocation and release, other multi-removal shapes
	"gateway-vip": {"gateway-vip": 60, "register": 6, "deregister": 4, "config-entry": 5, "manual-vip": 4, "sysmeta": 1},
}
var profileNames = []string{"mixed", "mixed", "catalog", "kv", "acl", "acl", "config", "config", "peering", "ca", "intentions", "vip", "vip", "resource",
	"gateway-vip", "gateway-vip", "gateway-vip"}

// in-process replicas per history (replica A included): command shapes whose implementation walks Go
// maps get more fresh FSMs, so that an order dependence shows with high probability (k equally likely
// outcomes agree on all of n replicas with probability k^(1-n))
var profileReplicas = map[string]int{"gateway-vip": 8, "vip": 6, "config": 5, "catalog": 4, "acl": 6, "intentions": 4, "peering": 4}

func (g *gen) pickFamily() family {
	w := profiles[g.profile]
	total := 0
	for _, f := range families {
		x := w[f.name]
		if x == 0 {
			x = 1
		}
		total += x
	}
	n := g.r.Intn(total)
	for _, f := range families {
		x := w[f.name]
		if x == 0 {
			x = 1
		}
		if n < x {
			return f
		}
		n -= x
	}
	return families[0]
}

func genHistory(id int, r *hx.RNG, maxLen int) *history {
	profile := hx.Pick(r, profileNames)
	g := newGen(r, profile)
	h := &history{id: id, profile: profile, dumpEvery: 1 + r.Intn(8)}
	h.resource = profile == "resource" || r.Chance(25)
	h.replicas = 2
	if n, ok := profileReplicas[profile]; ok {
		h.replicas = n
	}
	add := func(data []byte, tag string) {
		h.entries = append(h.entries, entry{Index: g.idx, Data: data, Tag: tag})
		g.used = append(g.used, g.idx)
		g.idx += uint64(1 + r.Intn(3)) // raft indexes are strictly increasing, with gaps (no-ops, config changes)
	}
	// preamble: switches that open up code paths
	if profile == "vip" || profile == "gateway-vip" || r.Chance(35) {
		add(sysmeta(structs.SystemMetadataVirtualIPsEnabled, "true"), "pre:virtual-ips")
		if profile == "gateway-vip" && !r.Chance(8) || r.Chance(50) {
			add(sysmeta(structs.SystemMetadataTermGatewayVirtualIPsEnabled, "true"), "pre:virtual-ips-tgw")
		}
	}
	if profile == "intentions" && r.Chance(60) || profile == "config" && r.Chance(70) || r.Chance(20) {
		add(sysmeta(structs.SystemMetadataIntentionFormatKey, structs.SystemMetadataIntentionFormatConfigValue), "pre:intention-format")
	}
	if profile == "vip" {
		for _, s := range []string{"web", "api", "db"} {
			if r.Chance(85) {
				add(g.connectService(s), "pre:connect-service")
			}
		}
	}
	if (profile == "kv" || profile == "catalog" || profile == "vip") && r.Chance(70) {
		for n := 1 + r.Intn(3); n > 0; n-- {
			d, t := g.genRegister()
			add(d, "pre:"+t)
		}
	}
	if profile == "acl" && r.Chance(70) {
		// what the leader writes when it initialises ACLs
		bp := structs.ACLBuiltinPolicies[structs.ACLPolicyGlobalManagementID]
		pol := &structs.ACLPolicy{ID: bp.ID, Name: bp.Name, Description: bp.Description, Rules: bp.Rules}
		pol.SetHash(true)
		add(mp(structs.ACLPolicySetRequestType, &structs.ACLPolicyBatchSetRequest{Policies: structs.ACLPolicies{pol}}), "pre:builtin-policy")
		g.make("policy", bp.ID)
	}
	if profile == "config" && r.Chance(60) {
		// discovery chains for several services under an http mesh: a later protocol flip (or any
		// other graph-wide edit) has to re-validate all of them
		add(upsertCE(&structs.ProxyConfigEntry{Kind: structs.ProxyDefaults, Name: structs.ProxyConfigGlobal, Config: map[string]interface{}{"protocol": "http"}}), "pre:proxy-defaults-http")
		for _, s := range []string{"web", "api", "db"} {
			if r.Chance(80) {
				add(upsertCE(&structs.ServiceSplitterConfigEntry{Kind: structs.ServiceSplitter, Name: s, Splits: []structs.ServiceSplit{{Weight: 100, Service: s}}}), "pre:splitter")
			}
		}
	}
	n := 3 + r.Intn(maxLen-2)
	for len(h.entries) < n {
		if len(g.queue) > 0 {
			q := g.queue[0]
			g.queue = g.queue[1:]
			if l, ok := g.lazy[q.tag]; ok && q.data == nil {
				q.data, q.tag = l.build(g), l.tag
			}
			add(q.data, q.tag)
			continue
		}
		f := g.pickFamily()
		valid := func() ([]byte, string) { return g.pickFamily().gen(g) }
		switch {
		case r.Chance(8):
			d, t := g.genMalformed(valid)
			add(d, "mal:"+t)
		default:
			d, t := f.gen(g)
			add(d, t)
		}
	}
	if r.Chance(12) {
		d, t := g.genFatal(func() ([]byte, string) { return g.pickFamily().gen(g) })
		// somewhere in the last third, so that something follows the crash in the log
		pos := len(h.entries) - r.Intn(1+len(h.entries)/3)
		e := entry{Data: d, Tag: "fatal:" + t}
		h.entries = append(h.entries[:pos], append([]entry{e}, h.entries[pos:]...)...)
		// re-number so that indexes stay strictly increasing
		idx := h.entries[0].Index
		for i := range h.entries {
			h.entries[i].Index = idx
			idx += 1 + uint64(i%3)
		}
	}
	return h
}

func writeHistories(path string, hs []*history) error {
	f, err := os.Create(path)
	if err != nil {
		return err
	}
	w := bufio.NewWriterSize(f, 1<<20)
	put := func(v uint64) {
		var b [8]byte
		binary.LittleEndian.PutUint64(b[:], v)
		w.Write(b[:])
	}
	put(uint64(len(hs)))
	for _, h := range hs {
		put(uint64(h.id))
		put(uint64(h.dumpEvery))
		if h.resource {
			put(1)
		} else {
			put(0)
		}
		put(uint64(len(h.entries)))
		for _, e := range h.entries {
			put(e.Index)
			put(uint64(len(e.Data)))
			w.Write(e.Data)
		}
	}
	if err := w.Flush(); err != nil {
		return err
	}
	return f.Close()
}

func readHistories(path string) ([]*history, error) {
	b, err := os.ReadFile(path)
	if err != nil {
		return nil, err
	}
	p := 0
	get := func() uint64 {
		v := binary.LittleEndian.Uint64(b[p:])
		p += 8
		return v
	}
	n := int(get())
	hs := make([]*history, 0, n)
	for i := 0; i < n; i++ {
		h := &history{id: int(get()), dumpEvery: int(get())}
		h.resource = get() == 1
		m := int(get())
		for j := 0; j < m; j++ {
			idx := get()
			l := int(get())
			h.entries = append(h.entries, entry{Index: idx, Data: append([]byte(nil), b[p:p+l]...)})
			p += l
		}
		hs = append(hs, h)
	}
	return hs, nil
}

// ---------------------------------------------------------------- one replica

type logSink struct {
	mu   sync.Mutex
	msgs []string
}

func (s *logSink) Accept(name string, level hclog.Level, msg string, args ...interface{}) {
	s.mu.Lock()
	s.msgs = append(s.msgs, msg)
	s.mu.Unlock()
}
func (s *logSink) take() []string {
	s.mu.Lock()
	m := s.msgs
	s.msgs = nil
	s.mu.Unlock()
	return m
}

type replica struct {
	f      *fsm.FSM
	rb     *raftstorage.Backend
	gc     *state.TombstoneGC
	cancel context.CancelFunc
	sink   *logSink
	slot   int
	table  map[byte]string
}

// variant 0 = leader-like (tombstone GC enabled), others follower-like
func newReplica(h *history, variant int) *replica {
	r := &replica{sink: &logSink{}, slot: -1, table: fsm.VerifC01Table()}
	logger := hclog.NewInterceptLogger(&hclog.LoggerOptions{Level: hclog.Warn, Output: io.Discard})
	logger.RegisterSink(r.sink)
	if variant == 0 {
		gc, err := state.NewTombstoneGC(time.Hour, time.Hour)
		if err != nil {
			panic(err)
		}
		gc.SetEnabled(true)
		r.gc = gc
	}
	var backend fsm.StorageBackend = fsm.NullStorageBackend
	if h.resource {
		rb, err := raftstorage.NewBackend(nil, hclog.NewNullLogger())
		if err != nil {
			panic(err)
		}
		ctx, cancel := context.WithCancel(context.Background())
		go rb.VerifC01RunStore(ctx)
		r.rb, r.cancel, backend = rb, cancel, rb
	}
	r.f = fsm.NewFromDeps(fsm.Deps{
		Logger:         logger,
		NewStateStore:  func() *state.Store { return state.NewStateStore(r.gc) },
		StorageBackend: backend,
	})
	r.f.VerifC01Instrument(func(slot byte) { r.slot = int(slot) })
	return r
}

func (r *replica) close() {
	if r.cancel != nil {
		r.cancel()
	}
	if r.gc != nil {
		r.gc.SetEnabled(false)
	}
}

// apply runs the real (*FSM).Apply on one entry: result (or panic text), dispatch outcome.
func (r *replica) apply(e entry) (res any, outcome string, panicked bool) {
	r.slot = -1
	r.sink.take()
	func() {
		defer func() {
			if p := recover(); p != nil {
				panicked = true
				res = fmt.Sprintf("panic:%v", p)
			}
		}()
		res = r.f.Apply(&raft.Log{Index: e.Index, Term: 1, Type: raft.LogCommand, Data: e.Data})
	}()
	switch {
	case panicked && r.slot >= 0:
		outcome = fmt.Sprintf("hp:%d", r.slot)
	case panicked && len(e.Data) == 0:
		outcome = "panic-empty"
	case panicked:
		outcome = "panic"
	case r.slot >= 0:
		outcome = fmt.Sprintf("h:%d:%s", r.slot, r.table[byte(r.slot)])
	default:
		outcome = "ign"
		warned := false
		for _, m := range r.sink.take() {
			if strings.HasPrefix(m, "ignoring unknown message type") || strings.HasPrefix(m, "ignoring enterprise message") {
				warned = true
			}
		}
		if !warned {
			outcome = "ign-silent" // no handler ran, no panic, and the FSM did not say it ignored the entry
		}
	}
	return
}

type tableDump struct {
	hash string
	rows []string // only when verbose
}

func h8(s string) string {
	x := sha256.Sum256([]byte(s))
	return hex.EncodeToString(x[:8])
}

// dump renders every memdb table (incl. the index table) and the resource store.
func (r *replica) dump(verbose bool) (map[string]*tableDump, []string) {
	rows := map[string][]string{}
	var suspicious []string
	now := time.Now()
	note := func(table string, ts []time.Time) {
		for _, t := range ts {
			if !t.IsZero() && t.After(now.Add(-36*time.Hour)) && t.Before(now.Add(36*time.Hour)) {
				suspicious = append(suspicious, table)
			}
		}
	}
	err := r.f.State().WalkAllTables(func(table string, item interface{}) bool {
		s, ts := canonValue(item)
		note(table, ts)
		rows[table] = append(rows[table], s)
		return true // keep going: `false` ends the walk of this table (round 5: earlier rounds returned false here and so compared only the first row of every table)
	})
	if err != nil {
		rows["~walk-error"] = []string{err.Error()}
	}
	if r.rb != nil {
		snap, err := r.rb.Snapshot()
		if err != nil {
			rows["~resources"] = []string{"snapshot-error:" + err.Error()}
		} else {
			rows["~resources"] = []string{}
			for {
				b, err := snap.Next()
				if err != nil || b == nil {
					break
				}
				var res pbresource.Resource
				if err := proto.Unmarshal(b, &res); err != nil {
					rows["~resources"] = append(rows["~resources"], "unmarshal-error")
					continue
				}
				cb, _ := proto.MarshalOptions{Deterministic: true}.Marshal(&res)
				rows["~resources"] = append(rows["~resources"], hex.EncodeToString(cb))
			}
		}
	}
	out := map[string]*tableDump{}
	for t, rs := range rows {
		d := &tableDump{hash: h8(strings.Join(rs, "\n"))}
		if verbose {
			d.rows = rs
		}
		out[t] = d
	}
	return out, suspicious
}

type runOut struct {
	res      []string // canonical result text (parent) or its hash (child) per applied entry
	resHash  []string
	isErr    []bool
	outcomes []string
	dumps    map[int]map[string]*tableDump // after entry i
	crashed  bool
	wall     []string // "state:<table>@i" / "result@i"
	expired  int      // how often a non-empty lock-delay map was emptied (replica A' only)
}

// run applies the history to a fresh replica. dumpEvery<=0: after every entry.
func runHistory(h *history, variant int, dumpEvery int, verbose bool) *runOut {
	r := newReplica(h, variant)
	defer r.close()
	out := &runOut{dumps: map[int]map[string]*tableDump{}}
	now := time.Now()
	for i, e := range h.entries {
		// replica A' lives on a server whose clock runs differently: before every other entry all of
		// its lock delays have already expired (the model's Env.loc is arbitrary per log position)
		if variant == 1 && i%2 == 1 {
			if r.f.State().VerifC01LockDelayKeys() > 0 {
				out.expired++
			}
			r.f.State().VerifC01ExpireLockDelays()
		}
		res, outcome, panicked := r.apply(e)
		s, ts := canonValue(res)
		for _, t := range ts {
			if !t.IsZero() && t.After(now.Add(-36*time.Hour)) && t.Before(now.Add(36*time.Hour)) {
				out.wall = append(out.wall, fmt.Sprintf("result@%d", i))
			}
		}
		_, isErr := res.(error)
		out.res = append(out.res, s)
		out.resHash = append(out.resHash, h8(s))
		out.isErr = append(out.isErr, isErr)
		out.outcomes = append(out.outcomes, outcome)
		last := i == len(h.entries)-1 || panicked
		if dumpEvery <= 1 || (i+1)%dumpEvery == 0 || last {
			d, sus := r.dump(verbose)
			out.dumps[i] = d
			for _, t := range sus {
				out.wall = append(out.wall, fmt.Sprintf("state:%s@%d", t, i))
			}
		}
		if panicked {
			out.crashed = true
			break
		}
	}
	return out
}

// ---------------------------------------------------------------- child process

func childMain(args []string) {
	fs := flag.NewFlagSet("child", flag.ExitOnError)
	in := fs.String("child", "", "histories file")
	outPath := fs.String("childout", "", "output file")
	fs.Parse(args)
	// this server's own bind address: differs from the parent's (every server has its own), same family
	netutil.SetAgentBindAddr(&net.IPAddr{IP: net.ParseIP("10.0.0.2")})
	hs, err := readHistories(*in)
	if err != nil {
		fmt.Fprintln(os.Stderr, "child:", err)
		os.Exit(3)
	}
	outs := make([]*runOut, len(hs))
	parallel(len(hs), func(i int) { outs[i] = runHistory(hs[i], 2, hs[i].dumpEvery, false) })
	f, err := os.Create(*outPath)
	if err != nil {
		fmt.Fprintln(os.Stderr, "child:", err)
		os.Exit(3)
	}
	w := bufio.NewWriterSize(f, 1<<20)
	fmt.Fprintf(w, "META pid=%d gomaxprocs=%d start=%d\n", os.Getpid(), runtime.GOMAXPROCS(0), processStart.UnixNano())
	for i, o := range outs {
		fmt.Fprintf(w, "H %d %d %v\n", hs[i].id, len(o.resHash), o.crashed)
		for j := range o.resHash {
			cls := "val"
			if o.isErr[j] {
				cls = "err"
			}
			fmt.Fprintf(w, "R %s %s %s\n", o.resHash[j], cls, o.outcomes[j])
		}
		idxs := make([]int, 0, len(o.dumps))
		for k := range o.dumps {
			idxs = append(idxs, k)
		}
		sort.Ints(idxs)
		for _, k := range idxs {
			fmt.Fprintf(w, "D %d %s\n", k, encDump(o.dumps[k]))
		}
		for _, wl := range o.wall {
			fmt.Fprintf(w, "W %s\n", wl)
		}
	}
	w.Flush()
	f.Close()
}

func encDump(d map[string]*tableDump) string {
	ts := make([]string, 0, len(d))
	for t := range d {
		ts = append(ts, t)
	}
	sort.Strings(ts)
	var b strings.Builder
	for i, t := range ts {
		if i > 0 {
			b.WriteByte(' ')
		}
		b.WriteString(t + "=" + d[t].hash)
	}
	return b.String()
}

func parseChild(path string) (map[int]*runOut, string, error) {
	f, err := os.Open(path)
	if err != nil {
		return nil, "", err
	}
	defer f.Close()
	sc := bufio.NewScanner(f)
	sc.Buffer(make([]byte, 1<<20), 1<<26)
	outs := map[int]*runOut{}
	var cur *runOut
	meta := ""
	for sc.Scan() {
		line := sc.Text()
		switch {
		case strings.HasPrefix(line, "META "):
			meta = line[5:]
		case strings.HasPrefix(line, "H "):
			p := strings.Fields(line)
			id, _ := strconv.Atoi(p[1])
			cur = &runOut{dumps: map[int]map[string]*tableDump{}, crashed: p[3] == "true"}
			outs[id] = cur
		case strings.HasPrefix(line, "R "):
			p := strings.SplitN(line, " ", 4)
			cur.resHash = append(cur.resHash, p[1])
			cur.isErr = append(cur.isErr, p[2] == "err")
			cur.outcomes = append(cur.outcomes, p[3])
		case strings.HasPrefix(line, "D "):
			p := strings.Fields(line)
			k, _ := strconv.Atoi(p[1])
			d := map[string]*tableDump{}
			for _, kv := range p[2:] {
				i := strings.LastIndex(kv, "=")
				d[kv[:i]] = &tableDump{hash: kv[i+1:]}
			}
			cur.dumps[k] = d
		case strings.HasPrefix(line, "W "):
			cur.wall = append(cur.wall, line[2:])
		}
	}
	return outs, meta, sc.Err()
}

func parallel(n int, fn func(i int)) {
	workers := runtime.GOMAXPROCS(0)
	if workers > 12 {
		workers = 12
	}
	var wg sync.WaitGroup
	ch := make(chan int)
	for w := 0; w < workers; w++ {
		wg.Add(1)
		go func() {
			defer wg.Done()
			for i := range ch {
				fn(i)
			}
		}()
	}
	for i := 0; i < n; i++ {
		ch <- i
	}
	close(ch)
	wg.Wait()
}

// ---------------------------------------------------------------- comparison

type finding struct {
	sig, desc string
	replay    []string
}

func replayOps(h *history, upto int) []string {
	var out []string
	for i, e := range h.entries {
		if i > upto {
			break
		}
		t := "empty"
		if len(e.Data) > 0 {
			t = typeName(e.Data[0])
		}
		out = append(out, fmt.Sprintf("idx=%d %s %s", e.Index, t, hex.EncodeToString(e.Data)))
	}
	return out
}

func entryType(h *history, i int) string {
	if i < 0 || i >= len(h.entries) || len(h.entries[i].Data) == 0 {
		return "empty"
	}
	return typeName(h.entries[i].Data[0])
}

func firstRowDiff(a, b []string) string {
	for i := 0; i < len(a) || i < len(b); i++ {
		var x, y string
		if i < len(a) {
			x = a[i]
		}
		if i < len(b) {
			y = b[i]
		}
		if x != y {
			return fmt.Sprintf("row %d: %.300s  VS  %.300s", i, x, y)
		}
	}
	return "rows equal?"
}

// compare two runs of the same history; who names the second replica.
func compare(h *history, a, b *runOut, who string, verboseB bool) []finding {
	var fs []finding
	n := len(a.resHash)
	if len(b.resHash) < n {
		n = len(b.resHash)
	}
	for i := 0; i < n; i++ {
		if a.outcomes[i] != b.outcomes[i] {
			fs = append(fs, finding{"replica:outcome:" + entryType(h, i), fmt.Sprintf("history %d (%s) entry %d: dispatch outcome %s on replica A, %s on %s", h.id, h.profile, i, a.outcomes[i], b.outcomes[i], who), replayOps(h, i)})
			return fs
		}
		if a.resHash[i] != b.resHash[i] {
			d := fmt.Sprintf("history %d (%s) entry %d (%s): result on replica A = %.400s", h.id, h.profile, i, h.entries[i].Tag, a.res[i])
			if verboseB && i < len(b.res) {
				d += fmt.Sprintf("  BUT on %s = %.400s", who, b.res[i])
			} else {
				d += "  BUT differs on " + who
			}
			fs = append(fs, finding{resultSig(h, i, a, b), d, replayOps(h, i)})
			return fs
		}
	}
	if len(a.resHash) != len(b.resHash) || a.crashed != b.crashed {
		fs = append(fs, finding{"replica:outcome:" + entryType(h, n), fmt.Sprintf("history %d: replica A applied %d entries (crashed=%v), %s applied %d (crashed=%v)", h.id, len(a.resHash), a.crashed, who, len(b.resHash), b.crashed), replayOps(h, n)})
		return fs
	}
	idxs := make([]int, 0, len(b.dumps))
	for k := range b.dumps {
		if _, ok := a.dumps[k]; ok {
			idxs = append(idxs, k)
		}
	}
	sort.Ints(idxs)
	for _, k := range idxs {
		da, db := a.dumps[k], b.dumps[k]
		tables := map[string]bool{}
		for t := range da {
			tables[t] = true
		}
		for t := range db {
			tables[t] = true
		}
		ts := make([]string, 0, len(tables))
		for t := range tables {
			ts = append(ts, t)
		}
		sort.Strings(ts)
		for _, t := range ts {
			x, y := da[t], db[t]
			if x == nil || y == nil || x.hash != y.hash {
				desc := fmt.Sprintf("history %d (%s): table %q differs between replica A and %s in the dump after entry %d", h.id, h.profile, t, who, k)
				if x != nil && y != nil && x.rows != nil && y.rows != nil {
					desc += ": " + firstRowDiff(x.rows, y.rows)
				}
				// name the command that wrote the table: the first entry after the last dump on which
				// the two replicas still agreed at which replica A's copy of the table changed
				culprit := k
				k0 := -1
				for _, kk := range idxs {
					if kk < k {
						k0 = kk
					}
				}
				for j := k0 + 1; j <= k; j++ {
					cur, ok1 := a.dumps[j]
					prev, ok0 := a.dumps[j-1]
					if !ok1 {
						continue
					}
					var hp string
					if ok0 && prev[t] != nil {
						hp = prev[t].hash
					} else if j > 0 && !ok0 {
						continue
					}
					if cur[t] != nil && cur[t].hash != hp {
						culprit = j
						break
					}
				}
				if culprit != k {
					desc += fmt.Sprintf(" (table last agreed after entry %d; first written by replica A at entry %d, %s)", k0, culprit, h.entries[culprit].Tag)
				}
				fs = append(fs, finding{"replica:" + t + ":" + entryType(h, culprit), desc, replayOps(h, k)})
				return fs
			}
		}
	}
	return fs
}

// resultSig names a result difference. When both replicas reject the command and only the error
// TEXT differs, the signature names the validation routine that produced it.
func resultSig(h *history, i int, a, b *runOut) string {
	if !(a.isErr[i] && i < len(b.isErr) && b.isErr[i]) {
		return "replica:result:" + entryType(h, i)
	}
	text := a.res[i]
	if i < len(b.res) {
		text += b.res[i]
	}
	switch {
	case strings.Contains(text, "Referenced JWT Provider does not exist"):
		return "replica:error-text:validateJWTProvider"
	case strings.Contains(text, "peer exported service") && !strings.Contains(text, "cannot introduce new discovery chain targets"):
		return "replica:error-text:validateChainIsPeerExportSafe"
	case strings.Contains(text, "ConfigEntryGraphError") || strings.Contains(text, "discovery chain") ||
		strings.Contains(text, "which does not match defined listener protocol") || strings.Contains(text, "incompatible with L7 intentions") ||
		strings.Contains(text, "peer exported service"):
		return "replica:error-text:validateProposedConfigEntryInServiceGraph"
	}
	return "replica:error-text:" + entryType(h, i)
}

// rejected-mutates: an error result must leave every table as it was (needs a dump after every entry)
func rejectedMutates(h *history, a *runOut) []finding {
	var fs []finding
	for i := 1; i < len(a.resHash); i++ {
		if !a.isErr[i] {
			continue
		}
		before, after := a.dumps[i-1], a.dumps[i]
		if before == nil || after == nil {
			continue
		}
		for t, x := range after {
			if y := before[t]; y == nil || y.hash != x.hash {
				fs = append(fs, finding{"rejected-mutates:" + entryType(h, i), fmt.Sprintf("history %d (%s) entry %d (%s) was answered with error %.200s but table %q changed", h.id, h.profile, i, h.entries[i].Tag, a.res[i], t), replayOps(h, i)})
				return fs
			}
		}
	}
	return fs
}

func resClass(s string, outcome string) string {
	switch {
	case strings.HasPrefix(outcome, "hp") || strings.HasPrefix(outcome, "panic"):
		return "panic"
	case outcome == "ign" || outcome == "ign-silent":
		return "ignored"
	case s == "nil":
		return "nil"
	case strings.HasPrefix(s, "err<"):
		return "error"
	case s == "true" || s == "false":
		return s
	default:
		return "value"
	}
}

func tagHead(t string) string {
	p := strings.Split(t, ":")
	if len(p) > 2 {
		p = p[:2]
	}
	return strings.Join(p, ":")
}

// ---------------------------------------------------------------- main

func main() {
	for _, a := range os.Args[1:] {
		if a == "-child" || strings.HasPrefix(a, "-child=") {
			childMain(os.Args[1:])
			return
		}
	}
	run := hx.Start()
	netutil.SetAgentBindAddr(&net.IPAddr{IP: net.ParseIP("10.0.0.1")})
	run.Rule = "same log on replicas A (leader-like), A' (in process) and C (child process, later start, other GOMAXPROCS): equal per-entry results, equal dumps of every table; dispatch outcomes = Lean model CV.Fsm over the regenerated dispatch table"
	nHist := run.Scale(300, 2200)
	maxLen := run.Scale(40, 110)

	hs := make([]*history, nHist)
	rngs := make([]*hx.RNG, nHist)
	for i := range hs {
		rngs[i] = run.RNG.Fork(uint64(i) + 1)
	}
	parallel(nHist, func(i int) { hs[i] = genHistory(i, rngs[i], maxLen) })
	histPath := run.Dir + "/histories.bin"
	if err := writeHistories(histPath, hs); err != nil {
		panic(err)
	}

	// child: started >= 1.1 s after this process, other GOMAXPROCS
	if d := 1100*time.Millisecond - time.Since(processStart); d > 0 {
		time.Sleep(d)
	}
	childOut := run.Dir + "/child.out"
	cmd := exec.Command(os.Args[0], "-child", histPath, "-childout", childOut)
	childProcs := 5
	if runtime.GOMAXPROCS(0) == childProcs {
		childProcs = 3
	}
	cmd.Env = append(os.Environ(), fmt.Sprintf("GOMAXPROCS=%d", childProcs))
	var childErr bytes.Buffer
	cmd.Stderr = &childErr
	childStarted := time.Now()
	if err := cmd.Start(); err != nil {
		panic(err)
	}

	// parent replicas
	outsA := make([]*runOut, nHist)
	var mu sync.Mutex
	var findings []finding
	expiredHistories := 0
	parallel(nHist, func(i int) {
		h := hs[i]
		a := runHistory(h, 0, 1, false)
		var fs []finding
		for k := 1; k < h.replicas; k++ {
			variant, who := 1, "replica A' (same process)"
			if k > 1 {
				variant, who = k+1, fmt.Sprintf("replica A%d (same process)", k) // 2 is the child's variant
			}
			b := runHistory(h, variant, h.dumpEvery, false)
			if b.expired > 0 {
				mu.Lock()
				expiredHistories++
				mu.Unlock()
			}
			fk := compare(h, a, b, who, false)
			if len(fk) > 0 {
				// re-run a pair verbosely, dumping after every entry, to name the first diverging command and
				// row; a map-order dependence may not show on the first pair, so try a few
				for try := 0; try < 6; try++ {
					av := runHistory(h, 0, 1, true)
					bv := runHistory(h, variant, 1, true)
					if fv := compare(h, av, bv, who, true); len(fv) > 0 {
						fk = fv
						break
					}
				}
				fs = append(fs, fk...)
				break
			}
		}
		fs = append(fs, rejectedMutates(h, a)...)
		for _, w := range a.wall {
			p := strings.SplitN(w, "@", 2)
			k, _ := strconv.Atoi(p[1])
			sig := "wallclock-in-" + p[0]
			if p[0] == "result" {
				sig = "wallclock-in-result:" + entryType(h, k)
			}
			fs = append(fs, finding{sig, fmt.Sprintf("history %d entry %d: a time value within 36h of the wall clock (commands only carry times from 2001)", h.id, k), replayOps(h, k)})
			break
		}
		// keep only what the comparison with the child needs
		for _, d := range a.dumps {
			for _, t := range d {
				t.rows = nil
			}
		}
		outsA[i] = a
		if len(fs) > 0 {
			mu.Lock()
			findings = append(findings, fs...)
			mu.Unlock()
		}
	})

	run.Hist["lock-delay:histories-where-replica-A'-expired-a-non-empty-map"] = expiredHistories
	if err := cmd.Wait(); err != nil {
		run.Violate("harness:child-failed", fmt.Sprintf("child process failed: %v: %.1000s", err, childErr.String()), nil)
	}
	childOuts, meta, err := parseChild(childOut)
	if err != nil {
		run.Violate("harness:child-output", err.Error(), nil)
	}
	run.Extra["child"] = meta
	run.Extra["parent"] = fmt.Sprintf("pid=%d gomaxprocs=%d start=%d child_started_after_ms=%d", os.Getpid(), runtime.GOMAXPROCS(0), processStart.UnixNano(), childStarted.Sub(processStart).Milliseconds())
	for i, h := range hs {
		c := childOuts[h.id]
		if c == nil {
			run.Violate("harness:child-missing-history", fmt.Sprintf("history %d missing from the child's output", h.id), nil)
			continue
		}
		fs := compare(h, outsA[i], c, "replica C (child process)", false)
		if len(fs) > 0 {
			// locate precisely: child dumps are sparse; a verbose parent re-run gives the rows of A
			av := runHistory(h, 0, 1, true)
			if fv := compare(h, av, c, "replica C (child process)", false); len(fv) > 0 {
				fs = fv
			}
		}
		if len(c.wall) > 0 {
			fs = append(fs, finding{"wallclock-in-" + strings.SplitN(c.wall[0], "@", 2)[0], fmt.Sprintf("history %d (child): %s", h.id, c.wall[0]), replayOps(h, len(h.entries))})
		}
		findings = append(findings, fs...)
	}
	sort.SliceStable(findings, func(i, j int) bool { return findings[i].sig < findings[j].sig })
	seenSig := map[string]int{}
	for _, f := range findings {
		seenSig[f.sig]++
		if seenSig[f.sig] <= 2 {
			run.Violate(f.sig, f.desc, f.replay)
		} else {
			run.Tag("violation:" + f.sig)
		}
	}

	// ---- correspondence with the Lean dispatch model + evidence
	table := fsm.VerifC01Table()
	slots := make([]int, 0, len(table))
	for b := range table {
		slots = append(slots, int(b))
	}
	sort.Ints(slots)
	tl := make([]string, len(slots))
	for i, b := range slots {
		tl[i] = fmt.Sprintf("%d:%s", b, table[byte(b)])
	}
	run.Line("tbl", hx.EncList(tl))

	handled := map[byte]bool{}
	debug := map[string]int{}
	defer func() {
		if os.Getenv("C01_DEBUG") != "" {
			ks := make([]string, 0, len(debug))
			for k := range debug {
				ks = append(ks, k)
			}
			sort.Strings(ks)
			for _, k := range ks {
				fmt.Fprintf(os.Stderr, "%5d %s\n", debug[k], k)
			}
		}
	}()
	for i, h := range hs {
		a := outsA[i]
		var toks []string
		accepted := false
		for j := range a.resHash {
			e := h.entries[j]
			tok := "e"
			if len(e.Data) > 0 {
				hp := 0
				if strings.HasPrefix(a.outcomes[j], "hp:") {
					hp = 1
				}
				tok = fmt.Sprintf("%d:%d", e.Data[0], hp)
			}
			toks = append(toks, tok)
			run.Line("ap 0 "+tok, implOutcome(a.outcomes[j]))
			cls := resClass(a.res[j], a.outcomes[j])
			tn := "empty"
			if len(e.Data) > 0 {
				tn = typeName(e.Data[0])
			}
			run.Tag("res:" + tn + ":" + cls)
			if cls == "error" || cls == "panic" || (tn == "UpdateVirtualIPRequestType" && os.Getenv("C01_DEBUG") == "vip") {
				debug[fmt.Sprintf("%s [%s] %.160s", tn, tagHead(e.Tag), a.res[j])]++
			}
			run.Tag("gen:" + tagHead(e.Tag))
			if tn == "UpdateVirtualIPRequestType" && cls == "value" {
				run.Tag(fmt.Sprintf("manual-vip:unassigned-from=%d", strings.Count(a.res[j], "PeeredServiceName{")))
			}
			if strings.HasPrefix(a.outcomes[j], "h:") {
				handled[e.Data[0]&0x7f] = true
				if cls != "error" && cls != "false" {
					accepted = true
				}
			}
		}
		run.Line("hist 0 "+hx.EncList(toks), fmt.Sprintf("n=%d crashed=%s out=%s", len(a.outcomes), hx.EncBool(a.crashed), hx.EncList(mapS(a.outcomes, implOutcome))))
		run.Tag("profile:" + h.profile)
		run.Tag(fmt.Sprintf("len:%d-%d", len(a.resHash)/20*20, len(a.resHash)/20*20+19))
		if a.crashed {
			run.Tag("history:crashed")
		}
		var key bytes.Buffer
		for _, e := range h.entries {
			key.Write(e.Data)
			key.WriteByte(0xff)
		}
		run.Case(key.String(), accepted)
		if i < 3 {
			run.Sample(map[string]any{"history": h.id, "profile": h.profile, "entries": len(h.entries), "applied": len(a.resHash), "first": replayOps(h, 2)})
		}
	}
	cedSection(run)
	envSection(run)
	witnessSection(run)
	storeSection(run)
	keyedSection(run)
	var seen []string
	missing := []string{}
	for _, b := range regOrder {
		if handled[b] {
			seen = append(seen, msgNames[b])
		} else if _, ok := table[b]; ok {
			missing = append(missing, msgNames[b])
		}
	}
	// message types whose handler is a concrete Lean model in replicas_agree_consul_families (owner of
	// the model and of its tie in brackets); the rest of the REGISTERED types is the still-opaque list
	concrete := []byte{0, 1, 2, 3, 5, 7, 8 /* CV.Store: C03 C04 */, 22, 13, 9, 45, 17, 18 /* CV.Cas: C10 */, 12 /* CV.Ixn: C13 */, 31, 6 /* CV.Store.CatX: C07 */, 4,
		19, 20, 23, 24, 25, 26, 27, 28, 30, 21 /* CV.Keyed: this check, keyedSection */}
	isConcrete := map[byte]bool{}
	var concreteNames, opaqueNames []string
	for _, b := range concrete {
		isConcrete[b] = true
		concreteNames = append(concreteNames, msgNames[b])
	}
	for _, b := range regOrder {
		if _, ok := table[b]; ok && !isConcrete[b] {
			opaqueNames = append(opaqueNames, msgNames[b])
		}
	}
	run.Line("fam", "concrete="+hx.EncList(concreteNames)+" opaque="+hx.EncList(opaqueNames))
	run.Extra["concrete_message_types"] = concreteNames
	run.Extra["opaque_message_types"] = opaqueNames
	run.Extra["message_types"] = fmt.Sprintf("%d concrete in replicas_agree_consul_families_keyed, %d opaque (hypothesis hrest), %d registered", len(concreteNames), len(opaqueNames), len(table))
	covOut := "ok"
	if len(missing) > 0 {
		covOut = "missing=" + hx.EncList(missing)
	}
	run.Line("cov "+hx.EncList(seen), covOut)
	run.Finish()
	os.Remove(histPath)
	os.Remove(childOut)
}

func mapS(xs []string, f func(string) string) []string {
	out := make([]string, len(xs))
	for i, x := range xs {
		out[i] = f(x)
	}
	return out
}

// the model prints h:<slot>:<handler>, hp:<slot>, ign, panic, panic-empty
func implOutcome(o string) string { return o }

// cedSection exercises the CE-downgrade branch of Apply (structs.CEDowngrade is a process-wide
// variable read from the environment at start-up; toggled here while nothing else runs).
func cedSection(run *hx.Run) {
	defer func(old bool) { structs.CEDowngrade = old }(structs.CEDowngrade)
	g := newGen(run.RNG.Fork(0xced), "mixed")
	for _, ced := range []bool{true, false} {
		structs.CEDowngrade = ced
		for _, b0 := range []byte{64, 70, 127, 63, 46, 10, 41, 64 | 128, 10 | 128, 200, 255, 4, 4 | 128, 5, 31} {
			h := &history{}
			r := newReplica(h, 1)
			var data []byte
			switch b0 & 0x7f {
			case 4:
				data, _ = g.genLegacyACL()
			case 5:
				data, _ = g.genTombstone()
			case 31:
				data = sysmeta("x", "y")
			default:
				data = append([]byte{0}, mp(0, map[string]any{"x": 1})[1:]...)
			}
			data[0] = b0
			_, outcome, _ := r.apply(entry{Index: 5, Data: data})
			hp := 0
			if strings.HasPrefix(outcome, "hp:") {
				hp = 1
			}
			run.Line(fmt.Sprintf("ap %s %d:%d", hx.EncBool(ced), b0, hp), outcome)
			run.Tag(fmt.Sprintf("ced=%v:%s", ced, strings.SplitN(outcome, ":", 2)[0]))
			r.close()
		}
		h := &history{}
		r := newReplica(h, 1)
		_, outcome, _ := r.apply(entry{Index: 5, Data: nil})
		run.Line(fmt.Sprintf("ap %s e", hx.EncBool(ced)), outcome)
		r.close()
	}
}


// envSection replays one fixed witness history under different per-server settings of the agent's
// bind address (a process-wide value the state store consults when it computes a service's virtual
// IP: netutil.IsDualStack in state.addIPOffset). Every server has its own bind address, so nothing
// replicated may depend on it.
//   env:bind-address:...          two IPv4 addresses give different results / state
//   env:bind-address-family:...   an IPv4-bound and an IPv6-bound server give different results / state
//   env:bind-address-unset:...    a server whose agent has not yet published its bind address (log
//                                 replay during start-up) asks the local HTTP API instead
func envSection(run *hx.Run) {
	defer netutil.SetAgentBindAddr(&net.IPAddr{IP: net.ParseIP("10.0.0.1")})
	g := newGen(run.RNG.Fork(0xe17), "vip")
	h := &history{id: -1, profile: "env-witness"}
	idx := uint64(5)
	add := func(d []byte, tag string) {
		h.entries = append(h.entries, entry{Index: idx, Data: d, Tag: tag})
		idx += 2
	}
	add(sysmeta(structs.SystemMetadataVirtualIPsEnabled, "true"), "pre:virtual-ips")
	add(mp(structs.RegisterRequestType, &structs.RegisterRequest{Datacenter: "dc1", Node: "n1", Address: "10.0.0.1",
		Service: &structs.NodeService{ID: "web", Service: "web", Port: 8080, Connect: structs.ServiceConnect{Native: true}}}), "register:connect-native")
	add(mp(structs.RegisterRequestType, &structs.RegisterRequest{Datacenter: "dc1", Node: "n1", Address: "10.0.0.1",
		Service: &structs.NodeService{ID: "api-proxy", Service: "api-proxy", Port: 8081, Kind: structs.ServiceKindConnectProxy,
			Proxy: structs.ConnectProxyConfig{DestinationServiceName: "api"}}}), "register:connect-proxy")
	d, t := g.genManualVIPs()
	add(d, t)
	settings := []struct {
		name string
		ip   net.IP
	}{{"ipv4-a", net.ParseIP("10.0.0.1")}, {"ipv4-b", net.ParseIP("10.0.0.2")}, {"ipv6", net.ParseIP("fd00::1")}, {"unset", nil}}
	// the "unset" variant makes the state store call http://localhost:8500 (that is the defect); if
	// something in this sandbox listens there the call could succeed or hang, so skip it then
	if c, err := net.DialTimeout("tcp", "127.0.0.1:8500", 300*time.Millisecond); err == nil {
		c.Close()
		settings = settings[:3]
		run.Tag("env:port-8500-in-use(unset-variant-skipped)")
	}
	outs := make([]*runOut, len(settings))
	for i, s := range settings {
		netutil.SetAgentBindAddr(&net.IPAddr{IP: s.ip})
		outs[i] = runHistory(h, 1, 1, true)
	}
	// the same setting twice must agree, otherwise whatever differs below is not caused by the bind
	// address (the replica comparison above reports it)
	netutil.SetAgentBindAddr(&net.IPAddr{IP: settings[0].ip})
	if again := runHistory(h, 1, 1, true); len(compare(h, outs[0], again, "the same server again", true)) > 0 {
		run.Tag("env:witness-unstable")
		return
	}
	for i, kind := range map[int]string{1: "env:bind-address", 2: "env:bind-address-family", 3: "env:bind-address-unset"} {
		if i >= len(outs) {
			continue
		}
		fs := compare(h, outs[0], outs[i], "a server whose bind address is "+settings[i].name, true)
		run.Tag(fmt.Sprintf("%s:%v", kind, len(fs) == 0))
		for _, f := range fs {
			sig := kind + strings.TrimPrefix(f.sig, "replica")
			run.Violate(sig, "replicated data depends on the server's own bind address (state.addIPOffset -> netutil.IsDualStack): "+f.desc, f.replay)
		}
	}
}


// storeSection ties the Lean store model (CV.Store.apply — the functions replicas_agree_store and
// rejected_leaves_state of CV/Props/C01.lean are about) to the real FSM inside this check: generated
// histories of the modelled families (KV, session, register/deregister, txn, tombstone reap, prepared
// query rows; package storex, the harness of C03/C04) are applied to a real fsm.FSM and replayed by
// the model; every result and a full dump of the modelled tables — lock-delay keys (the model's
// `loc`) included — after every command are compared line by line. The deeper validation of that
// model (reference map, LockInv monitors, exhaustive small scopes) is the job of bin/check C03 / C04.
func storeSection(run *hx.Run) {
	profiles := []*storex.Profile{
		{Name: "c01-session-heavy", Preamble: 90,
			W:       map[string]int{"kv": 34, "sc": 14, "sd": 10, "reg": 12, "dereg": 10, "reap": 3, "pqs": 4, "pqd": 2, "txn": 16},
			KVVerbs: map[string]int{"set": 12, "cas": 6, "delete": 8, "delete-cas": 4, "delete-tree": 8, "lock": 40, "unlock": 20}},
		{Name: "c01-catalog-txn", Preamble: 70, EmptyKeyPc: 2,
			W:       map[string]int{"kv": 22, "sc": 12, "sd": 4, "reg": 20, "dereg": 12, "reap": 2, "pqs": 3, "pqd": 1, "txn": 28},
			KVVerbs: map[string]int{"set": 12, "cas": 6, "delete": 6, "delete-cas": 4, "delete-tree": 6, "lock": 50, "unlock": 16}},
	}
	storex.RandomHistories(run, profiles, run.Scale(60, 500), 35, func() []storex.Monitor { return nil }, false)
}


// witnessSection replays fixed histories on eight fresh FSMs each and compares every result and dump
// with the first: shapes found by the random search that are rare enough to deserve a permanent,
// deterministic witness (the verdict must not depend on whether a run happens to generate them).
//
//  peer-export: `db` is exported to a peer; its discovery chain contains two resolvers that are each
//  unsafe for a peer-exported service, for different reasons (db redirects to another datacenter, the
//  redirect target api fails over to a datacenter). state.validateChainIsPeerExportSafe ranges over the
//  map chainEntries.Resolvers and returns the first complaint.
func witnessSection(run *hx.Run) {
	mk := func(name string, datas ...[]byte) *history {
		h := &history{id: -2, profile: "witness:" + name, replicas: 8}
		idx := uint64(5)
		for _, d := range datas {
			h.entries = append(h.entries, entry{Index: idx, Data: d, Tag: "witness:" + name})
			idx += 2
		}
		return h
	}
	hs := []*history{
		mk("peer-export",
			upsertCE(&structs.ExportedServicesConfigEntry{Name: "default", Services: []structs.ExportedService{{Name: "db", Consumers: []structs.ServiceConsumer{{Peer: "peer-a"}}}}}),
			upsertCE(&structs.ServiceResolverConfigEntry{Kind: structs.ServiceResolver, Name: "api",
				Failover: map[string]structs.ServiceResolverFailover{"*": {Datacenters: []string{"dc2"}}}}),
			upsertCE(&structs.ServiceResolverConfigEntry{Kind: structs.ServiceResolver, Name: "db",
				Redirect: &structs.ServiceResolverRedirect{Service: "api", Datacenter: "dc2"}})),
		// a peer-exported L4 chain may not gain new targets: the refusal names the new target, picked by
		// ranging over the map newSpiffeIDs (validateProposedConfigEntryInServiceGraph); with failover
		// targets excluded and no splitters on L4 there is one candidate, then two writes that add one each
		mk("peer-export-l4",
			upsertCE(&structs.ExportedServicesConfigEntry{Name: "default", Services: []structs.ExportedService{
				{Name: "db", Consumers: []structs.ServiceConsumer{{Peer: "peer-a"}}}, {Name: "web", Consumers: []structs.ServiceConsumer{{Peer: "peer-b"}}}}}),
			upsertCE(&structs.ServiceResolverConfigEntry{Kind: structs.ServiceResolver, Name: "db",
				Redirect: &structs.ServiceResolverRedirect{Service: "api"}}),
			upsertCE(&structs.ServiceResolverConfigEntry{Kind: structs.ServiceResolver, Name: "api",
				Redirect: &structs.ServiceResolverRedirect{Service: "cache"}}),
			upsertCE(&structs.ServiceResolverConfigEntry{Kind: structs.ServiceResolver, Name: "web",
				DefaultSubset: "v1", Subsets: map[string]structs.ServiceResolverSubset{"v1": {Filter: "Service.Meta.v == 1"}, "v2": {Filter: "Service.Meta.v == 2"}},
				Failover: map[string]structs.ServiceResolverFailover{"*": {Targets: []structs.ServiceResolverFailoverTarget{{Service: "api"}, {Service: "queue"}}}}})),
	}
	for _, h := range hs {
		a := runHistory(h, 0, 1, true)
		var fs []finding
		for k := 1; k < h.replicas && len(fs) == 0; k++ {
			fs = compare(h, a, runHistory(h, k+2, 1, true), fmt.Sprintf("replica A%d (same process)", k), true)
		}
		run.Tag(fmt.Sprintf("%s:agree=%v", h.profile, len(fs) == 0))
		for j, res := range a.res {
			switch {
			case strings.Contains(res, "cannot introduce new discovery chain targets"):
				run.Tag(fmt.Sprintf("%s:entry%d:refused-new-target", h.profile, j))
			case strings.Contains(res, "peer exported service"):
				run.Tag(fmt.Sprintf("%s:entry%d:refused-unsafe-for-peer-export", h.profile, j))
			case strings.HasPrefix(res, "err<"):
				run.Tag(fmt.Sprintf("%s:entry%d:other-error", h.profile, j))
			}
		}
		for _, f := range fs {
			run.Violate(f.sig, "fixed witness: "+f.desc, f.replay)
		}
	}
}
