//go:build verif

package main

// Canonical, complete rendering of arbitrary Go values (memdb rows, command results) for the
// replica comparison: every field (exported or not), maps sorted by rendered key, pointers
// followed (cycle-safe), protobuf messages by deterministic wire encoding, time.Time by UTC
// nanoseconds, floats by their bits. Nothing replicated is excluded; the only things skipped are
// sync primitives, funcs and channels (rendered as nil/non-nil).

import (
	"bytes"
	"encoding/hex"
	"fmt"
	"math"
	"reflect"
	"regexp"
	"sort"
	"strconv"
	"time"
	"unsafe"

	"google.golang.org/protobuf/proto"
)

var (
	timeType   = reflect.TypeOf(time.Time{})
	regexpType = reflect.TypeOf(regexp.Regexp{})
	errorType  = reflect.TypeOf((*error)(nil)).Elem()
	protoType  = reflect.TypeOf((*proto.Message)(nil)).Elem()
)

// timeSink, when set, receives every time.Time met while rendering (wall-clock monitor).
type canonCtx struct {
	buf   bytes.Buffer
	seen  map[unsafe.Pointer]bool
	times []time.Time
}

func canonValue(v any) (string, []time.Time) {
	c := &canonCtx{seen: map[unsafe.Pointer]bool{}}
	if v == nil {
		return "nil", nil
	}
	rv := reflect.ValueOf(v)
	c.walk(addressable(rv))
	return c.buf.String(), c.times
}

// addressable returns an addressable, non-read-only copy of v (values coming out of interfaces
// and maps are neither).
func addressable(v reflect.Value) reflect.Value {
	if v.CanAddr() {
		return v
	}
	nv := reflect.New(v.Type()).Elem()
	nv.Set(v)
	return nv
}

// rw strips the read-only flag reflect puts on values reached through unexported fields.
func rw(v reflect.Value) reflect.Value {
	if v.CanAddr() {
		return reflect.NewAt(v.Type(), unsafe.Pointer(v.UnsafeAddr())).Elem()
	}
	return v
}

func (c *canonCtx) walk(v reflect.Value) {
	if !v.IsValid() {
		c.buf.WriteString("nil")
		return
	}
	t := v.Type()
	// errors: type + text (the text is the command's result)
	if t.Implements(errorType) && (t.Kind() != reflect.Ptr && t.Kind() != reflect.Interface || !v.IsNil()) && v.CanInterface() {
		if e, ok := v.Interface().(error); ok && e != nil {
			fmt.Fprintf(&c.buf, "err<%s>%q", t.String(), e.Error())
			return
		}
	}
	switch t.Kind() {
	case reflect.Bool:
		c.buf.WriteString(strconv.FormatBool(v.Bool()))
	case reflect.Int, reflect.Int8, reflect.Int16, reflect.Int32, reflect.Int64:
		c.buf.WriteString(strconv.FormatInt(v.Int(), 10))
	case reflect.Uint, reflect.Uint8, reflect.Uint16, reflect.Uint32, reflect.Uint64, reflect.Uintptr:
		c.buf.WriteString(strconv.FormatUint(v.Uint(), 10))
	case reflect.Float32, reflect.Float64:
		fmt.Fprintf(&c.buf, "f%016x", math.Float64bits(v.Float()))
	case reflect.Complex64, reflect.Complex128:
		fmt.Fprintf(&c.buf, "c%v", v.Complex())
	case reflect.String:
		c.buf.WriteString(strconv.Quote(v.String()))
	case reflect.Func:
		if v.IsNil() {
			c.buf.WriteString("func:nil")
		} else {
			c.buf.WriteString("func:set")
		}
	case reflect.Chan:
		if v.IsNil() {
			c.buf.WriteString("chan:nil")
		} else {
			c.buf.WriteString("chan:set")
		}
	case reflect.UnsafePointer:
		c.buf.WriteString("unsafe")
	case reflect.Interface:
		if v.IsNil() {
			c.buf.WriteString("nil")
			return
		}
		e := v.Elem()
		c.buf.WriteString("<" + e.Type().String() + ">")
		c.walk(addressable(e))
	case reflect.Ptr:
		if v.IsNil() {
			c.buf.WriteString("nil")
			return
		}
		if t.Implements(protoType) && v.CanInterface() {
			if m, ok := v.Interface().(proto.Message); ok {
				b, err := proto.MarshalOptions{Deterministic: true}.Marshal(m)
				if err != nil {
					c.buf.WriteString("proto-error:" + err.Error())
				} else {
					c.buf.WriteString("pb<" + t.String() + ">" + hex.EncodeToString(b))
				}
				return
			}
		}
		p := v.UnsafePointer()
		if c.seen[p] {
			c.buf.WriteString("&cycle")
			return
		}
		c.seen[p] = true
		c.buf.WriteString("&")
		c.walk(v.Elem())
		delete(c.seen, p)
	case reflect.Slice:
		if v.IsNil() {
			c.buf.WriteString("nil[]")
			return
		}
		if t.Elem().Kind() == reflect.Uint8 {
			c.buf.WriteString("b:" + hex.EncodeToString(v.Bytes()))
			return
		}
		c.buf.WriteByte('[')
		for i := 0; i < v.Len(); i++ {
			if i > 0 {
				c.buf.WriteByte(',')
			}
			c.walk(v.Index(i))
		}
		c.buf.WriteByte(']')
	case reflect.Array:
		c.buf.WriteByte('[')
		for i := 0; i < v.Len(); i++ {
			if i > 0 {
				c.buf.WriteByte(',')
			}
			c.walk(v.Index(i))
		}
		c.buf.WriteByte(']')
	case reflect.Map:
		if v.IsNil() {
			c.buf.WriteString("nil{}")
			return
		}
		type kv struct{ k, v string }
		var ents []kv
		it := v.MapRange()
		for it.Next() {
			kc := &canonCtx{seen: c.seen}
			kc.walk(addressable(it.Key()))
			vc := &canonCtx{seen: c.seen}
			vc.walk(addressable(it.Value()))
			c.times = append(c.times, kc.times...)
			c.times = append(c.times, vc.times...)
			ents = append(ents, kv{kc.buf.String(), vc.buf.String()})
		}
		sort.Slice(ents, func(i, j int) bool { return ents[i].k < ents[j].k })
		c.buf.WriteByte('{')
		for i, e := range ents {
			if i > 0 {
				c.buf.WriteByte(',')
			}
			c.buf.WriteString(e.k + ":" + e.v)
		}
		c.buf.WriteByte('}')
	case reflect.Struct:
		if t == timeType {
			tm := rw(v).Interface().(time.Time)
			c.times = append(c.times, tm)
			if tm.IsZero() {
				c.buf.WriteString("t:zero")
			} else {
				fmt.Fprintf(&c.buf, "t:%d.%09d", tm.Unix(), tm.Nanosecond())
			}
			return
		}
		if t == regexpType {
			re := rw(v).Addr().Interface().(*regexp.Regexp)
			c.buf.WriteString("re:" + strconv.Quote(re.String()))
			return
		}
		if pk := t.PkgPath(); pk == "sync" || pk == "sync/atomic" {
			c.buf.WriteString("sync")
			return
		}
		// a protobuf message held by value or reached through a pointer that did not
		// implement proto.Message directly
		if v.CanAddr() && reflect.PointerTo(t).Implements(protoType) {
			if m, ok := rw(v).Addr().Interface().(proto.Message); ok {
				b, err := proto.MarshalOptions{Deterministic: true}.Marshal(m)
				if err == nil {
					c.buf.WriteString("pb<" + t.String() + ">" + hex.EncodeToString(b))
					return
				}
			}
		}
		c.buf.WriteString(t.Name() + "{")
		for i := 0; i < v.NumField(); i++ {
			if i > 0 {
				c.buf.WriteByte(',')
			}
			c.buf.WriteString(t.Field(i).Name + ":")
			c.walk(rw(v.Field(i)))
		}
		c.buf.WriteByte('}')
	default:
		c.buf.WriteString("?" + t.Kind().String())
	}
}
