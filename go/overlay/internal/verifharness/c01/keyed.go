//go:build verif

package main

// keyedSection (round 5): model-vs-implementation correspondence for the "keyed table" command
// families — ACL policy / role / binding rule / auth method set + delete, federation state, CA leaf —
// against the Lean model CV.Keyed.apply (lean/CV/FsmKeyed.lean), the handlers that
// replicas_agree_consul_families_keyed plugs into the dispatch table.
//
// One seed generates histories from small colliding universes (case variants of names, an upper-case
// spelling of a UUID, the built-in policy ids), biased towards identifiers that exist, with multi-item
// batches (duplicate keys inside one batch, batches whose k-th item is rejected), renames, links,
// method deletes that cascade to binding rules and tokens. Every entry is a real msgpack raft log
// entry applied by (*FSM).Apply of a fresh fsm.FSM; after EVERY command
//   * the result and a dump of the affected tables (+ their `index` rows) are compared with the model,
//   * MONITORS restate what the property needs on the implementation alone:
//       keyed:rejected-mutates:<type>      an error answer changed a table
//       keyed:create-index:<table>         an upsert changed CreateIndex / did not stamp ModifyIndex=idx
//       keyed:index-row:<table>            rows of a table changed but its index row is not the command's index
//       keyed:dangling-binding-rule        a binding rule names an auth method that does not exist
//       keyed:dangling-token               a token of a deleted auth method (same locality) survived
//       keyed:duplicate-name:<table>       two policies / roles with the same (case-folded) name
// and the same history (token commands included) goes through the replica comparison of main.go on
// four more fresh FSMs.

import (
	"fmt"
	"sort"
	"strings"
	"time"

	"github.com/hashicorp/consul/agent/consul/state"
	"github.com/hashicorp/consul/agent/structs"
	"github.com/hashicorp/consul/api"
	"github.com/hashicorp/consul/internal/verifharness/hx"
)

var (
	kPolIDs = []string{
		"11111111-0000-0000-0000-000000000001", "11111111-0000-0000-0000-000000000002",
		"a1111111-0000-0000-0000-00000000000b", "A1111111-0000-0000-0000-00000000000B",
		"11111111-0000-0000-0000-000000000003",
		structs.ACLPolicyGlobalManagementID, structs.ACLPolicyGlobalReadOnlyID,
	}
	kPolNames  = []string{"p1", "p2", "P1", "p3", "global-management", "builtin/global-read-only"}
	kRoleIDs   = []string{"22222222-0000-0000-0000-000000000001", "22222222-0000-0000-0000-000000000002", "c2222222-0000-0000-0000-00000000000d", "C2222222-0000-0000-0000-00000000000D"}
	kRoleNames = []string{"r1", "r2", "R1", "r3"}
	kRuleIDs   = []string{"33333333-0000-0000-0000-000000000001", "33333333-0000-0000-0000-000000000002", "33333333-0000-0000-0000-000000000003", "e3333333-0000-0000-0000-00000000000f", "E3333333-0000-0000-0000-00000000000F"}
	kMethods   = []string{"m1", "M1", "m2", "k8s"}
	kDCs       = []string{"dc1", "dc2", "DC1", "dc3"}
	kTokIDs    = []string{"44444444-0000-0000-0000-000000000001", "44444444-0000-0000-0000-000000000002", "44444444-0000-0000-0000-000000000003", "44444444-0000-0000-0000-000000000004", "44444444-0000-0000-0000-000000000005"}
	kDescs     = []string{"", "d1", "d2"}
	kTables    = []string{"acl-policies", "acl-roles", "acl-binding-rules", "acl-auth-methods", "federation-states", "connect-ca-leaf-certs"}
)

type kcmd struct {
	data []byte
	op   string // model line ("" = not modelled: token commands)
	tag  string
	del  []string // auth-method names of a method delete (for keyed:dangling-token)
}

type kgen struct {
	r    *hx.RNG
	idx  uint64
	made map[string][]string
}

func (g *kgen) ref(kind string, pool []string, pct int) string {
	if m := g.made[kind]; len(m) > 0 && g.r.Chance(pct) {
		return hx.Pick(g.r, m)
	}
	return hx.Pick(g.r, pool)
}
func (g *kgen) mk(kind, id string) { g.made[kind] = append(g.made[kind], id) }

func bodyOf(v any) string {
	s, _ := canonValue(v)
	return h8(s)
}

func policyBody(p *structs.ACLPolicy) string {
	c := *p
	c.ID, c.Name, c.RaftIndex = "", "", structs.RaftIndex{}
	return bodyOf(&c)
}
func roleBody(r *structs.ACLRole) string {
	c := *r
	c.ID, c.Name, c.Policies, c.RaftIndex = "", "", nil, structs.RaftIndex{}
	// TemplateID is filled in by the store from the template name
	c.TemplatedPolicies = nil
	for _, tp := range r.TemplatedPolicies {
		t := *tp
		t.TemplateID = ""
		c.TemplatedPolicies = append(c.TemplatedPolicies, &t)
	}
	return bodyOf(&c)
}
func ruleBody(r *structs.ACLBindingRule) string {
	c := *r
	c.ID, c.AuthMethod, c.RaftIndex = "", "", structs.RaftIndex{}
	return bodyOf(&c)
}
func methodBody(m *structs.ACLAuthMethod) string {
	c := *m
	c.Name, c.Type, c.RaftIndex = "", "", structs.RaftIndex{}
	return bodyOf(&c)
}
func fedBody(f *structs.FederationState) string {
	c := *f
	c.Datacenter, c.PrimaryModifyIndex, c.RaftIndex = "", 0, structs.RaftIndex{}
	return bodyOf(&c)
}

func encPairs(ps [][2]string) string {
	if len(ps) == 0 {
		return "-"
	}
	out := make([]string, len(ps))
	for i, p := range ps {
		out[i] = hx.EncS(p[0]) + "+" + hx.EncS(p[1])
	}
	return strings.Join(out, ";")
}
func encStrs(ss []string) string {
	if len(ss) == 0 {
		return "-"
	}
	out := make([]string, len(ss))
	for i, s := range ss {
		out[i] = hx.EncS(s)
	}
	return strings.Join(out, ";")
}
func encIDs(ss []string) string {
	out := make([]string, len(ss))
	for i, s := range ss {
		out[i] = hx.EncS(s)
	}
	return hx.EncList(out)
}

// decode re-reads a request the way the FSM handler does (msgpack), so that bodies are computed from
// what the store is handed, not from the generator's Go values.
func redecode(data []byte, into any) {
	if err := structs.Decode(data[1:], into); err != nil {
		panic(err)
	}
}

func (g *kgen) policySet() kcmd {
	req := structs.ACLPolicyBatchSetRequest{}
	n := 1
	if g.r.Chance(40) {
		n = 2 + g.r.Intn(3)
	}
	for i := 0; i < n; i++ {
		p := &structs.ACLPolicy{ID: g.ref("policy", kPolIDs, 45), Name: hx.Pick(g.r, kPolNames), Description: hx.Pick(g.r, kDescs),
			Rules: hx.Pick(g.r, []string{`service "web" { policy = "read" }`, `key_prefix "" { policy = "write" }`, ""})}
		if bp, ok := structs.ACLBuiltinPolicies[p.ID]; ok {
			if g.r.Chance(70) {
				p.Name = bp.Name
			}
			if g.r.Chance(60) {
				p.Rules = bp.Rules
			}
		}
		if g.r.Chance(15) {
			p.Datacenters = []string{"dc1", "dc2"}
		}
		if g.r.Chance(3) {
			p.Name = ""
		}
		if g.r.Chance(3) {
			p.ID = ""
		}
		p.SetHash(true)
		if p.ID != "" {
			g.mk("policy", p.ID)
		}
		req.Policies = append(req.Policies, p)
	}
	data := mp(structs.ACLPolicySetRequestType, &req)
	var dec structs.ACLPolicyBatchSetRequest
	redecode(data, &dec)
	items := make([]string, len(dec.Policies))
	for i, p := range dec.Policies {
		bp, ok := structs.ACLBuiltinPolicies[p.ID]
		items[i] = strings.Join([]string{hx.EncS(p.ID), hx.EncS(p.Name), hx.EncS(policyBody(p)), hx.EncBool(ok && p.Rules == bp.Rules), hx.EncBool(len(p.Datacenters) != 0)}, "|")
	}
	return kcmd{data: data, op: fmt.Sprintf("kpset %d %s", g.idx, hx.EncList(items)), tag: fmt.Sprintf("policy-set:%d", n)}
}

func (g *kgen) ids(kind string, pool []string) []string {
	var out []string
	for n := 1 + g.r.Intn(3); n > 0; n-- {
		out = append(out, g.ref(kind, pool, 75))
	}
	if g.r.Chance(5) {
		out = nil
	}
	return out
}

func (g *kgen) policyDelete() kcmd {
	ids := g.ids("policy", kPolIDs)
	return kcmd{data: mp(structs.ACLPolicyDeleteRequestType, &structs.ACLPolicyBatchDeleteRequest{PolicyIDs: ids}),
		op: fmt.Sprintf("kpdel %d %s", g.idx, encIDs(ids)), tag: "policy-delete"}
}

func (g *kgen) roleSet() kcmd {
	req := structs.ACLRoleBatchSetRequest{AllowMissingLinks: g.r.Chance(40)}
	n := 1
	if g.r.Chance(35) {
		n = 2 + g.r.Intn(2)
	}
	for i := 0; i < n; i++ {
		ro := &structs.ACLRole{ID: g.ref("role", kRoleIDs, 40), Name: hx.Pick(g.r, kRoleNames), Description: hx.Pick(g.r, kDescs)}
		for k := g.r.Intn(4); k > 0; k-- {
			ro.Policies = append(ro.Policies, structs.ACLRolePolicyLink{ID: g.ref("policy", kPolIDs, 85), Name: hx.Pick(g.r, []string{"", "stale", "p1"})})
		}
		if len(ro.Policies) > 0 && g.r.Chance(3) {
			ro.Policies[len(ro.Policies)-1].ID = ""
		}
		for k := g.r.Intn(3); k > 0; k-- {
			ro.ServiceIdentities = append(ro.ServiceIdentities, &structs.ACLServiceIdentity{ServiceName: hx.Pick(g.r, []string{"web", "api", "db", "web"})})
		}
		if len(ro.ServiceIdentities) > 0 && g.r.Chance(4) {
			ro.ServiceIdentities[0].ServiceName = ""
		}
		for k := g.r.Intn(3); k > 0; k-- {
			nd := &structs.ACLNodeIdentity{NodeName: hx.Pick(g.r, []string{"n1", "n2", "n1"}), Datacenter: hx.Pick(g.r, []string{"dc1", "dc2"})}
			if g.r.Chance(4) {
				nd.NodeName = ""
			}
			if g.r.Chance(4) {
				nd.Datacenter = ""
			}
			ro.NodeIdentities = append(ro.NodeIdentities, nd)
		}
		for k := g.r.Intn(3); k > 0; k-- {
			switch g.r.Intn(12) {
			case 0, 1, 2, 3:
				ro.TemplatedPolicies = append(ro.TemplatedPolicies, &structs.ACLTemplatedPolicy{TemplateName: api.ACLTemplatedPolicyServiceName, TemplateVariables: &structs.ACLTemplatedPolicyVariables{Name: hx.Pick(g.r, []string{"web", "api"})}})
			case 4, 5, 6:
				ro.TemplatedPolicies = append(ro.TemplatedPolicies, &structs.ACLTemplatedPolicy{TemplateName: api.ACLTemplatedPolicyNodeName, TemplateVariables: &structs.ACLTemplatedPolicyVariables{Name: "n1"}})
			case 7, 8, 9:
				ro.TemplatedPolicies = append(ro.TemplatedPolicies, &structs.ACLTemplatedPolicy{TemplateName: api.ACLTemplatedPolicyDNSName})
			case 10:
				ro.TemplatedPolicies = append(ro.TemplatedPolicies, &structs.ACLTemplatedPolicy{TemplateName: hx.Pick(g.r, []string{"", "nope"})})
			default:
				ro.TemplatedPolicies = append(ro.TemplatedPolicies, &structs.ACLTemplatedPolicy{TemplateName: api.ACLTemplatedPolicyServiceName, TemplateVariables: &structs.ACLTemplatedPolicyVariables{}})
			}
		}
		if g.r.Chance(3) {
			ro.Name = ""
		}
		if g.r.Chance(3) {
			ro.ID = ""
		}
		ro.SetHash(true)
		if ro.ID != "" {
			g.mk("role", ro.ID)
		}
		req.Roles = append(req.Roles, ro)
	}
	data := mp(structs.ACLRoleSetRequestType, &req)
	var dec structs.ACLRoleBatchSetRequest
	redecode(data, &dec)
	items := make([]string, len(dec.Roles))
	for i, ro := range dec.Roles {
		var links, nodes, tps [][2]string
		var svc []string
		for _, l := range ro.Policies {
			links = append(links, [2]string{l.ID, l.Name})
		}
		for _, s := range ro.ServiceIdentities {
			svc = append(svc, s.ServiceName)
		}
		for _, nd := range ro.NodeIdentities {
			nodes = append(nodes, [2]string{nd.NodeName, nd.Datacenter})
		}
		for _, tp := range ro.TemplatedPolicies {
			v := ""
			if tp.TemplateVariables != nil {
				v = tp.TemplateVariables.Name
			}
			tps = append(tps, [2]string{tp.TemplateName, v})
		}
		items[i] = strings.Join([]string{hx.EncS(ro.ID), hx.EncS(ro.Name), hx.EncS(roleBody(ro)), encPairs(links), encStrs(svc), encPairs(nodes), encPairs(tps)}, "|")
	}
	return kcmd{data: data, op: fmt.Sprintf("krset %d %s %s", g.idx, hx.EncBool(dec.AllowMissingLinks), hx.EncList(items)), tag: fmt.Sprintf("role-set:%d", n)}
}

func (g *kgen) roleDelete() kcmd {
	ids := g.ids("role", kRoleIDs)
	return kcmd{data: mp(structs.ACLRoleDeleteRequestType, &structs.ACLRoleBatchDeleteRequest{RoleIDs: ids}),
		op: fmt.Sprintf("krdel %d %s", g.idx, encIDs(ids)), tag: "role-delete"}
}

func (g *kgen) ruleSet() kcmd {
	req := structs.ACLBindingRuleBatchSetRequest{}
	n := 1
	if g.r.Chance(45) {
		n = 2 + g.r.Intn(3)
	}
	for i := 0; i < n; i++ {
		br := &structs.ACLBindingRule{ID: g.ref("rule", kRuleIDs, 35), Description: hx.Pick(g.r, kDescs), AuthMethod: g.ref("method", kMethods, 85), Selector: "serviceaccount.namespace==default",
			BindType: hx.Pick(g.r, []string{structs.BindingRuleBindTypeService, structs.BindingRuleBindTypeRole, structs.BindingRuleBindTypeNode}), BindName: hx.Pick(g.r, []string{"web", "api"})}
		if g.r.Chance(3) {
			br.ID = ""
		}
		if g.r.Chance(3) {
			br.AuthMethod = ""
		}
		if br.ID != "" {
			g.mk("rule", br.ID)
		}
		req.BindingRules = append(req.BindingRules, br)
	}
	data := mp(structs.ACLBindingRuleSetRequestType, &req)
	var dec structs.ACLBindingRuleBatchSetRequest
	redecode(data, &dec)
	items := make([]string, len(dec.BindingRules))
	for i, br := range dec.BindingRules {
		items[i] = strings.Join([]string{hx.EncS(br.ID), hx.EncS(br.AuthMethod), hx.EncS(ruleBody(br))}, "|")
	}
	return kcmd{data: data, op: fmt.Sprintf("kbset %d %s", g.idx, hx.EncList(items)), tag: fmt.Sprintf("rule-set:%d", n)}
}

func (g *kgen) ruleDelete() kcmd {
	ids := g.ids("rule", kRuleIDs)
	return kcmd{data: mp(structs.ACLBindingRuleDeleteRequestType, &structs.ACLBindingRuleBatchDeleteRequest{BindingRuleIDs: ids}),
		op: fmt.Sprintf("kbdel %d %s", g.idx, encIDs(ids)), tag: "rule-delete"}
}

func (g *kgen) methodSet() kcmd {
	req := structs.ACLAuthMethodBatchSetRequest{}
	n := 1
	if g.r.Chance(40) {
		n = 2 + g.r.Intn(2)
	}
	for i := 0; i < n; i++ {
		m := &structs.ACLAuthMethod{Name: hx.Pick(g.r, kMethods), Type: hx.Pick(g.r, []string{"kubernetes", "jwt", "kubernetes"}), DisplayName: "M", Description: hx.Pick(g.r, kDescs),
			MaxTokenTTL: time.Duration(g.r.Intn(3)) * time.Hour, TokenLocality: hx.Pick(g.r, []string{"", "local", "global"}),
			Config: map[string]interface{}{"Host": "https://k8s", "CACert": "pem", "BoundAudiences": []string{"a", "b"}}}
		if g.r.Chance(3) {
			m.Name = ""
		}
		if g.r.Chance(3) {
			m.Type = ""
		}
		if m.Name != "" {
			g.mk("method", m.Name)
		}
		req.AuthMethods = append(req.AuthMethods, m)
	}
	data := mp(structs.ACLAuthMethodSetRequestType, &req)
	var dec structs.ACLAuthMethodBatchSetRequest
	redecode(data, &dec)
	items := make([]string, len(dec.AuthMethods))
	for i, m := range dec.AuthMethods {
		items[i] = strings.Join([]string{hx.EncS(m.Name), hx.EncS(m.Type), hx.EncS(methodBody(m))}, "|")
	}
	return kcmd{data: data, op: fmt.Sprintf("kmset %d %s", g.idx, hx.EncList(items)), tag: fmt.Sprintf("method-set:%d", n)}
}

func (g *kgen) methodDelete() kcmd {
	names := g.ids("method", kMethods)
	return kcmd{data: mp(structs.ACLAuthMethodDeleteRequestType, &structs.ACLAuthMethodBatchDeleteRequest{AuthMethodNames: names}),
		op: fmt.Sprintf("kmdel %d %s", g.idx, encIDs(names)), tag: "method-delete", del: names}
}

// tokens of an auth method: outside the model (no op line), part of the replica comparison and of the
// keyed:dangling-token / keyed:index-row monitors
func (g *kgen) tokenSet() kcmd {
	req := structs.ACLTokenBatchSetRequest{AllowMissingLinks: true}
	for n := 1 + g.r.Intn(3); n > 0; n-- {
		i := g.r.Intn(len(kTokIDs))
		t := &structs.ACLToken{AccessorID: kTokIDs[i], SecretID: fmt.Sprintf("5ec2e700-0000-0000-0000-0000000000%02d", i), Description: "tok", CreateTime: t0,
			AuthMethod: g.ref("method", kMethods, 90), Local: g.r.Chance(50)}
		if g.r.Chance(15) {
			t.AuthMethod = ""
		}
		req.Tokens = append(req.Tokens, t)
	}
	return kcmd{data: mp(structs.ACLTokenSetRequestType, &req), tag: "token-set"}
}

func (g *kgen) fed() kcmd {
	st := &structs.FederationState{Datacenter: g.ref("dc", kDCs, 50), UpdatedAt: t0.Add(time.Duration(g.r.Intn(100)) * time.Minute), PrimaryModifyIndex: uint64(g.r.Intn(3)) * 7}
	for n := g.r.Intn(3); n > 0; n-- {
		st.MeshGateways = append(st.MeshGateways, structs.CheckServiceNode{
			Node:    &structs.Node{Node: hx.Pick(g.r, []string{"n1", "n2"}), Address: "10.0.0.9", Datacenter: st.Datacenter},
			Service: &structs.NodeService{ID: "mgw", Service: "mgw", Kind: structs.ServiceKindMeshGateway, Port: 443}})
	}
	if g.r.Chance(5) {
		st.Datacenter = ""
	}
	req := structs.FederationStateRequest{Datacenter: "dc1", State: st}
	switch g.r.Intn(10) {
	case 0, 1, 2:
		req.Op = structs.FederationStateDelete
		return kcmd{data: mp(structs.FederationStateRequestType, &req), op: fmt.Sprintf("kfdel %d %s", g.idx, hx.EncS(st.Datacenter)), tag: "fed-delete"}
	case 3:
		req.Op = "bogus"
		return kcmd{data: mp(structs.FederationStateRequestType, &req), op: fmt.Sprintf("kfbogus %d", g.idx), tag: "fed-bogus"}
	}
	req.Op = structs.FederationStateUpsert
	if st.Datacenter != "" {
		g.mk("dc", st.Datacenter)
	}
	data := mp(structs.FederationStateRequestType, &req)
	var dec structs.FederationStateRequest
	redecode(data, &dec)
	return kcmd{data: data, op: fmt.Sprintf("kfup %d %s %s %d", g.idx, hx.EncS(dec.State.Datacenter), hx.EncS(fedBody(dec.State)), dec.State.PrimaryModifyIndex), tag: "fed-upsert"}
}

func (g *kgen) leaf() kcmd {
	if g.r.Chance(20) {
		return kcmd{data: mp(structs.ConnectCALeafRequestType, &structs.CALeafRequest{Op: "bogus", Datacenter: "dc1"}), op: fmt.Sprintf("kleafbogus %d", g.idx), tag: "leaf-bogus"}
	}
	return kcmd{data: mp(structs.ConnectCALeafRequestType, &structs.CALeafRequest{Op: structs.CALeafOpIncrementIndex, Datacenter: "dc1"}), op: fmt.Sprintf("kleaf %d", g.idx), tag: "leaf-increment"}
}

func (g *kgen) next() kcmd {
	switch n := g.r.Intn(100); {
	case n < 16:
		return g.policySet()
	case n < 23:
		return g.policyDelete()
	case n < 39:
		return g.roleSet()
	case n < 45:
		return g.roleDelete()
	case n < 59:
		return g.ruleSet()
	case n < 64:
		return g.ruleDelete()
	case n < 76:
		return g.methodSet()
	case n < 83:
		return g.methodDelete()
	case n < 89:
		return g.tokenSet()
	case n < 97:
		return g.fed()
	default:
		return g.leaf()
	}
}

// ---------------------------------------------------------------- snapshot of the real tables

type krow struct {
	key            string
	line           string // as the model prints the row
	create, modify uint64
	name           string // case-folded name (policies, roles)
	method         string // case-folded auth method (rules, tokens)
	local          bool   // tokens
}

type ksnap struct {
	tables map[string][]krow // acl-policies, acl-roles, acl-binding-rules, acl-auth-methods, federation-states, acl-tokens
	index  map[string]uint64
	global map[string]bool // auth method key -> TokenLocality == "global"
}

func (r *replica) ksnap() *ksnap {
	s := &ksnap{tables: map[string][]krow{}, index: map[string]uint64{}, global: map[string]bool{}}
	r.f.State().WalkAllTables(func(table string, item interface{}) bool {
		switch v := item.(type) {
		case *structs.ACLPolicy:
			s.tables[table] = append(s.tables[table], krow{key: strings.ToLower(v.ID), create: v.CreateIndex, modify: v.ModifyIndex, name: strings.ToLower(v.Name),
				line: fmt.Sprintf("%s|%s|%s|%d|%d", hx.EncS(v.ID), hx.EncS(v.Name), hx.EncS(policyBody(v)), v.CreateIndex, v.ModifyIndex)})
		case *structs.ACLRole:
			var links [][2]string
			for _, l := range v.Policies {
				links = append(links, [2]string{l.ID, l.Name})
			}
			s.tables[table] = append(s.tables[table], krow{key: strings.ToLower(v.ID), create: v.CreateIndex, modify: v.ModifyIndex, name: strings.ToLower(v.Name),
				line: fmt.Sprintf("%s|%s|%s|%s|%d|%d", hx.EncS(v.ID), hx.EncS(v.Name), hx.EncS(roleBody(v)), encPairs(links), v.CreateIndex, v.ModifyIndex)})
		case *structs.ACLBindingRule:
			s.tables[table] = append(s.tables[table], krow{key: strings.ToLower(v.ID), create: v.CreateIndex, modify: v.ModifyIndex, method: strings.ToLower(v.AuthMethod),
				line: fmt.Sprintf("%s|%s|%s|%d|%d", hx.EncS(v.ID), hx.EncS(v.AuthMethod), hx.EncS(ruleBody(v)), v.CreateIndex, v.ModifyIndex)})
		case *structs.ACLAuthMethod:
			s.global[strings.ToLower(v.Name)] = v.TokenLocality == "global"
			s.tables[table] = append(s.tables[table], krow{key: strings.ToLower(v.Name), create: v.CreateIndex, modify: v.ModifyIndex,
				line: fmt.Sprintf("%s|%s|%s|%d|%d", hx.EncS(v.Name), hx.EncS(v.Type), hx.EncS(methodBody(v)), v.CreateIndex, v.ModifyIndex)})
		case *structs.FederationState:
			s.tables[table] = append(s.tables[table], krow{key: strings.ToLower(v.Datacenter), create: v.CreateIndex, modify: v.ModifyIndex,
				line: fmt.Sprintf("%s|%s|%d|%d|%d", hx.EncS(v.Datacenter), hx.EncS(fedBody(v)), v.PrimaryModifyIndex, v.CreateIndex, v.ModifyIndex)})
		case *structs.ACLToken:
			s.tables[table] = append(s.tables[table], krow{key: strings.ToLower(v.AccessorID), create: v.CreateIndex, modify: v.ModifyIndex, method: strings.ToLower(v.AuthMethod), local: v.Local,
				line: fmt.Sprintf("%s|%s|%v|%s|%d|%d", v.AccessorID, v.AuthMethod, v.Local, bodyOf(v), v.CreateIndex, v.ModifyIndex)})
		case *state.IndexEntry:
			s.index[v.Key] = v.Value
		}
		return true
	})
	for _, rows := range s.tables {
		sort.Slice(rows, func(i, j int) bool { return rows[i].key < rows[j].key })
	}
	return s
}

func (s *ksnap) lines(table string) []string {
	out := make([]string, len(s.tables[table]))
	for i, r := range s.tables[table] {
		out[i] = r.line
	}
	return out
}

// modelDump renders the snapshot exactly as the engine's `kdump`
func (s *ksnap) modelDump() string {
	var idx []string
	for _, t := range kTables {
		if v, ok := s.index[t]; ok {
			idx = append(idx, fmt.Sprintf("%s:%d", t, v))
		}
	}
	sort.Strings(idx)
	return fmt.Sprintf("pol=%s role=%s rule=%s meth=%s fed=%s idx=%s", hx.EncList(s.lines("acl-policies")), hx.EncList(s.lines("acl-roles")),
		hx.EncList(s.lines("acl-binding-rules")), hx.EncList(s.lines("acl-auth-methods")), hx.EncList(s.lines("federation-states")), hx.EncList(idx))
}

func (s *ksnap) full() string {
	return s.modelDump() + " tok=" + strings.Join(s.lines("acl-tokens"), ",") + fmt.Sprintf(" tokidx=%d", s.index["acl-tokens"])
}

func kErr(err error) string {
	t := err.Error()
	for _, c := range []struct{ sub, name string }{
		{"Missing ACL Policy ID", "missingPolicyID"}, {"Missing ACL Policy Name", "missingPolicyName"},
		{"Changing the Rules for the builtin", "builtinRules"}, {"Changing the Datacenters of the builtin", "builtinDatacenters"},
		{"A policy with name", "policyNameExists"}, {"Deletion of the builtin", "builtinDelete"},
		{"Missing ACL Role ID", "missingRoleID"}, {"Missing ACL Role Name", "missingRoleName"}, {"A role with name", "roleNameExists"},
		{"Encountered a Role with policies linked by Name", "roleLinkByName"}, {"No such policy with ID", "noSuchPolicy"},
		{"Encountered a Role with an empty service identity name", "emptySvcIdentity"}, {"Encountered a Role with an empty node identity name", "emptyNodeName"},
		{"Encountered a Role with an empty node identity datacenter", "emptyNodeDC"}, {"with an empty templated policy name", "tpEmptyName"},
		{"with an invalid templated policy name", "tpInvalidName"}, {"with an invalid templated policy:", "tpInvalid"},
		{"Missing ACL Binding Rule ID", "missingRuleID"}, {"Missing ACL Binding Rule Auth Method", "missingRuleMethod"},
		{"auth method not found", "methodNotFound"}, {"Missing ACL Auth Method Name", "missingMethodName"}, {"Missing ACL Auth Method Type", "missingMethodType"},
		{"missing datacenter on federation state", "fedMissingDC"}, {"invalid federation state operation type", "fedInvalidOp"}, {"Invalid CA operation", "leafInvalidOp"},
	} {
		if strings.Contains(t, c.sub) {
			return c.name
		}
	}
	return "other:" + hx.EncS(t)
}

func kRes(res any) string {
	switch v := res.(type) {
	case nil:
		return "nil"
	case bool:
		if v {
			return "true"
		}
		return "false"
	case uint64:
		return fmt.Sprintf("n:%d", v)
	case error:
		return "err:" + kErr(v)
	}
	return fmt.Sprintf("other:%T", res)
}

func keyedSection(run *hx.Run) {
	nHist := run.Scale(120, 900)
	maxLen := run.Scale(36, 60)
	type outT struct {
		ops, impl []string
		fs        []finding
		tags      []string
	}
	outs := make([]*outT, nHist)
	rngs := make([]*hx.RNG, nHist)
	base := run.RNG.Fork(0x6b657965)
	for i := range rngs {
		rngs[i] = base.Fork(uint64(i) + 1)
	}
	parallel(nHist, func(hi int) {
		o := &outT{}
		outs[hi] = o
		g := &kgen{r: rngs[hi], idx: uint64(2 + rngs[hi].Intn(5)), made: map[string][]string{}}
		h := &history{id: 100000 + hi, profile: "keyed", dumpEvery: 1, replicas: 5}
		n := 6 + g.r.Intn(maxLen-5)
		var cmds []kcmd
		for len(cmds) < n {
			var c kcmd
			switch {
			// most histories start with an auth method and a policy, so that rules / links resolve
			case len(cmds) == 0 && g.r.Chance(80):
				c = g.methodSet()
			case len(cmds) == 1 && g.r.Chance(80):
				c = g.policySet()
			default:
				c = g.next()
			}
			cmds = append(cmds, c)
			h.entries = append(h.entries, entry{Index: g.idx, Data: c.data, Tag: "keyed:" + c.tag})
			g.idx += uint64(1 + g.r.Intn(3))
		}
		r := newReplica(h, 1)
		defer r.close()
		o.ops = append(o.ops, "kreset")
		o.impl = append(o.impl, "ok")
		viol := func(sig, desc string, upto int) {
			o.fs = append(o.fs, finding{sig, fmt.Sprintf("keyed history %d entry %d (%s): %s", h.id, upto, h.entries[upto].Tag, desc), replayOps(h, upto)})
		}
		prev := r.ksnap()
		for i, c := range cmds {
			e := h.entries[i]
			res, _, panicked := r.apply(e)
			if panicked {
				viol("keyed:panic:"+typeName(e.Data[0]), fmt.Sprintf("handler panicked: %v", res), i)
				break
			}
			cur := r.ksnap()
			rs := kRes(res)
			if c.op != "" {
				o.ops = append(o.ops, c.op, "kdump")
				o.impl = append(o.impl, rs, cur.modelDump())
			}
			o.tags = append(o.tags, "keyed:"+c.tag+":"+strings.SplitN(rs, ":", 2)[0])
			if strings.HasPrefix(rs, "err:") {
				o.tags = append(o.tags, "keyed:"+rs)
			}
			tn := typeName(e.Data[0])
			// ---- monitors on the implementation alone
			if _, isErr := res.(error); isErr && cur.full() != prev.full() {
				viol("keyed:rejected-mutates:"+tn, "answered with an error but the tables changed: "+prev.full()+"  =>  "+cur.full(), i)
			}
			for t, rows := range cur.tables {
				old := map[string]krow{}
				for _, x := range prev.tables[t] {
					old[x.key] = x
				}
				changed := len(rows) != len(prev.tables[t])
				names := map[string]bool{}
				for _, x := range rows {
					p, had := old[x.key]
					switch {
					case had && p.line == x.line:
					case had:
						changed = true
						if x.create != p.create || x.modify != e.Index {
							viol("keyed:create-index:"+t, fmt.Sprintf("row rewritten at index %d: %s  =>  %s", e.Index, p.line, x.line), i)
						}
					default:
						changed = true
						if x.create != e.Index || x.modify != e.Index {
							viol("keyed:create-index:"+t, fmt.Sprintf("new row at index %d carries other indexes: %s", e.Index, x.line), i)
						}
					}
					if (t == "acl-policies" || t == "acl-roles") && names[x.name] {
						viol("keyed:duplicate-name:"+t, "two rows with the name "+x.name, i)
					}
					names[x.name] = true
				}
				if changed && cur.index[t] != e.Index {
					viol("keyed:index-row:"+t, fmt.Sprintf("rows of %s changed at index %d but its index row is %d", t, e.Index, cur.index[t]), i)
				}
			}
			for t := range prev.tables {
				if len(cur.tables[t]) == 0 && len(prev.tables[t]) > 0 && cur.index[t] != e.Index {
					viol("keyed:index-row:"+t, fmt.Sprintf("last rows of %s deleted at index %d but its index row is %d", t, e.Index, cur.index[t]), i)
				}
			}
			methods := map[string]bool{}
			for _, m := range cur.tables["acl-auth-methods"] {
				methods[m.key] = true
			}
			for _, br := range cur.tables["acl-binding-rules"] {
				if !methods[br.method] {
					viol("keyed:dangling-binding-rule", "binding rule "+br.line+" names an auth method that does not exist", i)
				}
			}
			if _, isErr := res.(error); !isErr {
				for _, name := range c.del {
					for _, m := range prev.tables["acl-auth-methods"] {
						if m.key != strings.ToLower(name) {
							continue
						}
						global := prev.global[m.key]
						for _, tk := range cur.tables["acl-tokens"] {
							if tk.method == m.key && (!tk.local) == global {
								viol("keyed:dangling-token", "token "+tk.line+" of the deleted auth method "+name+" survived", i)
							}
						}
						o.tags = append(o.tags, fmt.Sprintf("keyed:method-delete:existing:rules=%d", countRows(prev.tables["acl-binding-rules"], m.key)), fmt.Sprintf("keyed:method-delete:existing:tokens=%d", countRows(prev.tables["acl-tokens"], m.key)))
					}
				}
			}
			prev = cur
		}
		// ---- the same history on more fresh FSMs: results and full dumps of every table
		a := runHistory(h, 0, 1, false)
		for k := 1; k < h.replicas; k++ {
			b := runHistory(h, k+2, 1, false)
			if fk := compare(h, a, b, fmt.Sprintf("replica A%d (same process)", k), false); len(fk) > 0 {
				av, bv := runHistory(h, 0, 1, true), runHistory(h, k+2, 1, true)
				if fv := compare(h, av, bv, fmt.Sprintf("replica A%d (same process)", k), true); len(fv) > 0 {
					fk = fv
				}
				o.fs = append(o.fs, fk...)
				break
			}
		}
	})
	seen := map[string]int{}
	for hi, o := range outs {
		for i := range o.ops {
			run.Line(o.ops[i], o.impl[i])
		}
		for _, t := range o.tags {
			run.Tag(t)
		}
		run.Case(fmt.Sprintf("keyed-%d-%s", hi, strings.Join(o.ops, "\n")), len(o.ops) > 3)
		for _, f := range o.fs {
			seen[f.sig]++
			if seen[f.sig] <= 2 {
				run.Violate(f.sig, f.desc, f.replay)
			} else {
				run.Tag("violation:" + f.sig)
			}
		}
	}
}

func countRows(rows []krow, method string) int {
	n := 0
	for _, x := range rows {
		if x.method == method {
			n++
		}
	}
	return n
}
