//go:build verif

package main

import (
	"fmt"
	"go/ast"
	"go/parser"
	"go/token"
	"go/types"
	"sort"
	"strconv"

	"github.com/hashicorp/consul/acl"
	"github.com/hashicorp/consul/agent/consul"
	"github.com/hashicorp/consul/agent/structs"
	"github.com/hashicorp/consul/agent/structs/aclfilter"
	"github.com/hashicorp/consul/internal/verifharness/hx"
	ctypes "github.com/hashicorp/consul/types"
)

func idS(i int) string { return strconv.Itoa(i) }
func atoi(s string) int {
	n, err := strconv.Atoi(s)
	if err != nil {
		panic("id carrier damaged: " + s)
	}
	return n
}

// ---------------------------------------------------------------- IR <-> consul structs

func buildCSNs(xs []csnT) structs.CheckServiceNodes {
	out := make(structs.CheckServiceNodes, 0, len(xs))
	for _, c := range xs {
		var n *structs.Node
		var s *structs.NodeService
		if c.node != nil {
			n = &structs.Node{Node: baseOf(*c.node), PeerName: peerOf(*c.node)}
		}
		if c.svc != nil {
			s = &structs.NodeService{ID: "sid", Service: baseOf(*c.svc), PeerName: peerOf(*c.svc)}
		}
		if c.node != nil && c.svc != nil {
			peerCheck(*c.node, *c.svc)
		}
		out = append(out, structs.CheckServiceNode{Node: n, Service: s,
			Checks: structs.HealthChecks{{CheckID: ctypes.CheckID(idS(c.id))}}})
	}
	return out
}
func readCSNs(xs structs.CheckServiceNodes) []csnT {
	var out []csnT
	for _, c := range xs {
		t := csnT{id: atoi(string(c.Checks[0].CheckID))}
		if c.Node != nil {
			t.node = sp(joinPeer(c.Node.Node, c.Node.PeerName))
		}
		if c.Service != nil {
			t.svc = sp(joinPeer(c.Service.Service, c.Service.PeerName))
		}
		out = append(out, t)
	}
	return out
}
func buildGws(xs []gwT) structs.GatewayServices {
	out := make(structs.GatewayServices, 0, len(xs))
	for _, g := range xs {
		out = append(out, &structs.GatewayService{Gateway: structs.NewServiceName(g.gw, nil), Service: structs.NewServiceName(g.svc, nil), Port: g.id})
	}
	return out
}
func readGws(xs structs.GatewayServices) []gwT {
	var out []gwT
	for _, g := range xs {
		out = append(out, gwT{g.Gateway.Name, g.Service.Name, g.Port})
	}
	return out
}
func buildDump(xs []nodeInfoT) structs.NodeDump {
	out := make(structs.NodeDump, 0, len(xs))
	for _, x := range xs {
		peer := peerOf(x.node)
		ni := &structs.NodeInfo{Node: baseOf(x.node), PeerName: peer, Address: idS(x.id)}
		for _, s := range x.svcs {
			peerCheck(x.node, s.name)
			ni.Services = append(ni.Services, &structs.NodeService{Service: baseOf(s.name), PeerName: peer, ID: idS(s.id)})
		}
		for _, c := range x.chks {
			peerCheck(x.node, c.name)
			ni.Checks = append(ni.Checks, &structs.HealthCheck{Node: baseOf(x.node), PeerName: peer, ServiceName: baseOf(c.name), CheckID: ctypes.CheckID(idS(c.id))})
		}
		out = append(out, ni)
	}
	return out
}
func readDump(xs structs.NodeDump) []nodeInfoT {
	var out []nodeInfoT
	for _, ni := range xs {
		x := nodeInfoT{node: joinPeer(ni.Node, ni.PeerName), id: atoi(ni.Address)}
		for _, s := range ni.Services {
			x.svcs = append(x.svcs, subT{joinPeer(s.Service, s.PeerName), atoi(s.ID)})
		}
		for _, c := range ni.Checks {
			x.chks = append(x.chks, subT{joinPeer(c.ServiceName, c.PeerName), atoi(string(c.CheckID))})
		}
		out = append(out, x)
	}
	return out
}
func buildNames(xs []string) structs.ServiceList {
	out := make(structs.ServiceList, 0, len(xs))
	for _, n := range xs {
		out = append(out, structs.NewServiceName(n, nil))
	}
	return out
}
func readNames(xs structs.ServiceList) []string {
	var out []string
	for _, n := range xs {
		out = append(out, n.Name)
	}
	return out
}

// exec builds the real response, runs the real filter and reads the result back.
func exec(ty string, p *payload, az *authz) (out *payload, panicked bool) {
	f := aclfilter.New(az.a, nil)
	return execWith(ty, p, f.Filter, az.a)
}

// execWith builds the real response object, hands it to apply (the filter proper, or filterACL) and
// reads the result back. direct: the authorizer for the two slice filters of agent/consul/filter.go
// (they are not reached through Filter.Filter).
func execWith(ty string, p *payload, apply func(any), direct acl.Authorizer) (out *payload, panicked bool) {
	defer func() {
		if e := recover(); e != nil {
			out, panicked = nil, true
		}
	}()
	o := &payload{}
	qm := structs.QueryMeta{ResultsFilteredByACLs: p.flag}
	switch ty {
	case "CheckServiceNodes":
		v := buildCSNs(p.csn[0])
		apply(&v)
		o.csn[0] = readCSNs(v)
	case "IndexedCheckServiceNodes":
		v := &structs.IndexedCheckServiceNodes{Nodes: buildCSNs(p.csn[0]), QueryMeta: qm}
		apply(v)
		o.csn[0], o.flag = readCSNs(v.Nodes), v.ResultsFilteredByACLs
	case "PreparedQueryExecuteResponse":
		v := &structs.PreparedQueryExecuteResponse{Nodes: buildCSNs(p.csn[0]), QueryMeta: qm}
		apply(v)
		o.csn[0], o.flag = readCSNs(v.Nodes), v.ResultsFilteredByACLs
	case "IndexedServiceTopology":
		v := &structs.IndexedServiceTopology{FilteredByACLs: p.fb, QueryMeta: qm}
		if !p.topoNil {
			v.ServiceTopology = &structs.ServiceTopology{Upstreams: buildCSNs(p.csn[0]), Downstreams: buildCSNs(p.csn[1])}
		}
		apply(v)
		o.csn[0], o.csn[1] = readCSNs(v.ServiceTopology.Upstreams), readCSNs(v.ServiceTopology.Downstreams)
		o.fb, o.flag = v.FilteredByACLs, v.ResultsFilteredByACLs
	case "DatacenterIndexedCheckServiceNodes":
		v := &structs.DatacenterIndexedCheckServiceNodes{DatacenterNodes: map[string]structs.CheckServiceNodes{}, QueryMeta: qm}
		for _, e := range p.dc {
			v.DatacenterNodes[e.key] = buildCSNs(e.xs)
		}
		apply(v)
		for k, xs := range v.DatacenterNodes {
			o.dc = append(o.dc, keyedCSN{k, readCSNs(xs)})
		}
		sort.Slice(o.dc, func(i, j int) bool { return o.dc[i].key < o.dc[j].key })
		o.flag = v.ResultsFilteredByACLs
	case "IndexedCoordinates":
		v := &structs.IndexedCoordinates{QueryMeta: qm}
		for _, c := range p.nodes {
			v.Coordinates = append(v.Coordinates, &structs.Coordinate{Node: c.node, Segment: idS(c.id)})
		}
		apply(v)
		for _, c := range v.Coordinates {
			o.nodes = append(o.nodes, nodeEnt{c.Node, atoi(c.Segment)})
		}
		o.flag = v.ResultsFilteredByACLs
	case "IndexedNodes":
		v := &structs.IndexedNodes{QueryMeta: qm}
		for _, c := range p.nodes {
			v.Nodes = append(v.Nodes, &structs.Node{Node: baseOf(c.node), PeerName: peerOf(c.node), Address: idS(c.id)})
		}
		apply(v)
		for _, c := range v.Nodes {
			o.nodes = append(o.nodes, nodeEnt{joinPeer(c.Node, c.PeerName), atoi(c.Address)})
		}
		o.flag = v.ResultsFilteredByACLs
	case "IndexedSessions":
		v := &structs.IndexedSessions{QueryMeta: qm}
		for _, c := range p.nodes {
			v.Sessions = append(v.Sessions, &structs.Session{Node: c.node, ID: idS(c.id)})
		}
		apply(v)
		for _, c := range v.Sessions {
			o.nodes = append(o.nodes, nodeEnt{c.Node, atoi(c.ID)})
		}
		o.flag = v.ResultsFilteredByACLs
	case "IndexedHealthChecks":
		v := &structs.IndexedHealthChecks{QueryMeta: qm}
		for _, c := range p.svcs {
			v.HealthChecks = append(v.HealthChecks, &structs.HealthCheck{Node: baseOf(c.node), PeerName: peerCheck(c.node, c.svc), ServiceName: baseOf(c.svc), CheckID: ctypes.CheckID(idS(c.id))})
		}
		apply(v)
		for _, c := range v.HealthChecks {
			o.svcs = append(o.svcs, svcEnt{joinPeer(c.Node, c.PeerName), joinPeer(c.ServiceName, c.PeerName), atoi(string(c.CheckID))})
		}
		o.flag = v.ResultsFilteredByACLs
	case "IndexedServiceNodes":
		v := &structs.IndexedServiceNodes{QueryMeta: qm}
		for _, c := range p.svcs {
			v.ServiceNodes = append(v.ServiceNodes, &structs.ServiceNode{Node: baseOf(c.node), PeerName: peerCheck(c.node, c.svc), ServiceName: baseOf(c.svc), ServiceID: idS(c.id)})
		}
		apply(v)
		for _, c := range v.ServiceNodes {
			o.svcs = append(o.svcs, svcEnt{joinPeer(c.Node, c.PeerName), joinPeer(c.ServiceName, c.PeerName), atoi(c.ServiceID)})
		}
		o.flag = v.ResultsFilteredByACLs
	case "IndexedIntentions":
		v := &structs.IndexedIntentions{QueryMeta: qm}
		for _, x := range p.ixns {
			ix := &structs.Intention{ID: idS(x.id), SourceName: x.src, DestinationName: x.dst}
			if x.peer {
				ix.SourcePeer = "peer1"
			}
			v.Intentions = append(v.Intentions, ix)
		}
		apply(v)
		for _, ix := range v.Intentions {
			o.ixns = append(o.ixns, ixnT{ix.SourceName, ix.SourcePeer != "", ix.DestinationName, atoi(ix.ID)})
		}
		o.flag = v.ResultsFilteredByACLs
	case "IntentionQueryMatch":
		v := &structs.IntentionQueryMatch{Type: structs.IntentionMatchDestination}
		for _, n := range p.names {
			v.Entries = append(v.Entries, structs.IntentionMatchEntry{Namespace: "default", Name: n})
		}
		apply(v)
		for _, e := range v.Entries {
			o.names = append(o.names, e.Name)
		}
	case "IndexedNodeDump":
		v := &structs.IndexedNodeDump{Dump: buildDump(p.dump[0]), ImportedDump: buildDump(p.dump[1]), QueryMeta: qm}
		apply(v)
		o.dump[0], o.dump[1], o.flag = readDump(v.Dump), readDump(v.ImportedDump), v.ResultsFilteredByACLs
	case "IndexedServiceDump":
		v := &structs.IndexedServiceDump{QueryMeta: qm}
		for _, s := range p.infos {
			si := &structs.ServiceInfo{Checks: structs.HealthChecks{{CheckID: ctypes.CheckID(idS(s.id))}}}
			if s.gs != nil {
				si.GatewayService = &structs.GatewayService{Gateway: structs.NewServiceName(s.gs[0], nil), Service: structs.NewServiceName(s.gs[1], nil)}
			}
			if s.node != nil {
				si.Node = &structs.Node{Node: baseOf(*s.node), PeerName: peerOf(*s.node)}
				si.Service = &structs.NodeService{ID: "sid", Service: "x", PeerName: peerOf(*s.node)}
			}
			v.Dump = append(v.Dump, si)
		}
		apply(v)
		for _, si := range v.Dump {
			s := svcInfoT{id: atoi(string(si.Checks[0].CheckID))}
			if si.GatewayService != nil {
				s.gs = &[2]string{si.GatewayService.Gateway.Name, si.GatewayService.Service.Name}
			}
			if si.Node != nil {
				s.node = sp(joinPeer(si.Node.Node, si.Node.PeerName))
			}
			o.infos = append(o.infos, s)
		}
		o.flag = v.ResultsFilteredByACLs
	case "IndexedNodeServices":
		v := &structs.IndexedNodeServices{QueryMeta: qm}
		if !p.nsNil {
			v.NodeServices = &structs.NodeServices{Node: &structs.Node{Node: baseOf(*p.nsNode), PeerName: peerOf(*p.nsNode)}, Services: map[string]*structs.NodeService{}}
			for _, e := range p.ns {
				v.NodeServices.Services[e.key] = &structs.NodeService{ID: e.key, Service: baseOf(e.name), PeerName: peerCheck(*p.nsNode, e.name), Port: e.id}
			}
		}
		apply(v)
		if v.NodeServices == nil {
			o.nsNil = true
		} else {
			o.nsNode = sp(joinPeer(v.NodeServices.Node.Node, v.NodeServices.Node.PeerName))
			for k, s := range v.NodeServices.Services {
				o.ns = append(o.ns, nsEnt{k, joinPeer(s.Service, s.PeerName), s.Port})
			}
			sort.Slice(o.ns, func(i, j int) bool { return o.ns[i].key < o.ns[j].key })
		}
		o.flag = v.ResultsFilteredByACLs
	case "IndexedNodeServiceList":
		v := &structs.IndexedNodeServiceList{QueryMeta: qm}
		if p.nsNode != nil {
			v.NodeServices.Node = &structs.Node{Node: baseOf(*p.nsNode), PeerName: peerOf(*p.nsNode)}
		}
		for _, s := range p.subs {
			v.NodeServices.Services = append(v.NodeServices.Services, &structs.NodeService{Service: baseOf(s.name), PeerName: peerOf(s.name), ID: idS(s.id)})
		}
		apply(v)
		if v.NodeServices.Node != nil {
			o.nsNode = sp(joinPeer(v.NodeServices.Node.Node, v.NodeServices.Node.PeerName))
		}
		for _, s := range v.NodeServices.Services {
			o.subs = append(o.subs, subT{joinPeer(s.Service, s.PeerName), atoi(s.ID)})
		}
		o.flag = v.ResultsFilteredByACLs
	case "IndexedServices":
		v := &structs.IndexedServices{Services: structs.Services{}, QueryMeta: qm}
		for _, s := range p.subs {
			v.Services[s.name] = []string{idS(s.id)}
		}
		apply(v)
		for k, tags := range v.Services {
			o.subs = append(o.subs, subT{k, atoi(tags[0])})
		}
		sort.Slice(o.subs, func(i, j int) bool { return o.subs[i].name < o.subs[j].name })
		o.flag = v.ResultsFilteredByACLs
	case "IndexedPreparedQueries", "PtrPreparedQuery":
		var qs structs.PreparedQueries
		for _, q := range p.pqs {
			pq := &structs.PreparedQuery{ID: idS(q.id), Name: q.name}
			if q.tmpl {
				pq.Template.Type = structs.QueryTemplateTypeNamePrefixMatch
			}
			if q.tok == 1 {
				pq.Token = "s3cr3t-token"
			}
			qs = append(qs, pq)
		}
		orig := append(structs.PreparedQueries(nil), qs...)
		var tokensBefore []string
		for _, q := range orig {
			tokensBefore = append(tokensBefore, q.Token)
		}
		if ty == "PtrPreparedQuery" {
			apply(&qs[0])
		} else {
			v := &structs.IndexedPreparedQueries{Queries: qs, QueryMeta: qm}
			apply(v)
			qs, o.flag = v.Queries, v.ResultsFilteredByACLs
		}
		for i, q := range orig { // redaction must work on a clone: the caller's object may be the state store's
			if q.Token != tokensBefore[i] {
				panic("prepared query object of the caller was mutated by redaction")
			}
		}
		for _, q := range qs {
			t := pqT{name: q.Name, tmpl: q.Template.Type != "", id: atoi(q.ID)}
			switch q.Token {
			case "":
			case "s3cr3t-token":
				t.tok = 1
			case aclfilter.RedactedToken:
				t.tok = 2
			default:
				t.tok = 99
			}
			o.pqs = append(o.pqs, t)
		}
	case "IndexedServiceList":
		v := &structs.IndexedServiceList{Services: buildNames(p.names), QueryMeta: qm}
		apply(v)
		o.names, o.flag = readNames(v.Services), v.ResultsFilteredByACLs
	case "IndexedExportedServiceList":
		v := &structs.IndexedExportedServiceList{Services: map[string]structs.ServiceList{}, QueryMeta: qm}
		for _, e := range p.exported {
			v.Services[e.key] = buildNames(e.xs)
		}
		apply(v)
		for k, xs := range v.Services {
			o.exported = append(o.exported, keyedNames{k, readNames(xs)})
		}
		sort.Slice(o.exported, func(i, j int) bool { return o.exported[i].key < o.exported[j].key })
		o.flag = v.ResultsFilteredByACLs
	case "IndexedGatewayServices":
		v := &structs.IndexedGatewayServices{Services: buildGws(p.gws), QueryMeta: qm}
		apply(v)
		o.gws, o.flag = readGws(v.Services), v.ResultsFilteredByACLs
	case "IndexedNodesWithGateways":
		v := &structs.IndexedNodesWithGateways{Nodes: buildCSNs(p.csn[0]), Gateways: buildGws(p.gws), ImportedNodes: buildCSNs(p.csn[1]), QueryMeta: qm}
		apply(v)
		o.csn[0], o.gws, o.csn[1], o.flag = readCSNs(v.Nodes), readGws(v.Gateways), readCSNs(v.ImportedNodes), v.ResultsFilteredByACLs
	case "DirEntries":
		var v structs.DirEntries
		for _, s := range p.subs {
			v = append(v, &structs.DirEntry{Key: s.name, Flags: uint64(s.id)})
		}
		v = consul.FilterDirEnt(direct, v)
		for _, e := range v {
			o.subs = append(o.subs, subT{e.Key, int(e.Flags)})
		}
	case "TxnResults":
		var v structs.TxnResults
		for _, t := range p.txns {
			r := &structs.TxnResult{}
			switch t.kind {
			case 'k':
				r.KV = &structs.DirEntry{Key: t.a, Flags: uint64(t.id)}
			case 'n':
				r.Node = &structs.Node{Node: baseOf(t.a), PeerName: peerOf(t.a), Address: idS(t.id)}
			case 's':
				r.Service = &structs.NodeService{Service: baseOf(t.a), PeerName: peerOf(t.a), ID: idS(t.id)}
			case 'c':
				r.Check = &structs.HealthCheck{Node: baseOf(t.a), PeerName: peerCheck(t.a, t.b), ServiceName: baseOf(t.b), CheckID: ctypes.CheckID(idS(t.id))}
			case 'e':
				// an empty result carries nothing; give it an identity the filter never looks at
			}
			v = append(v, r)
		}
		emptyID := map[*structs.TxnResult]int{}
		for i, t := range p.txns {
			if t.kind == 'e' {
				emptyID[v[i]] = t.id
			}
		}
		v = consul.FilterTxnResults(direct, v)
		for _, r := range v {
			switch {
			case r.KV != nil:
				o.txns = append(o.txns, txnT{'k', r.KV.Key, "", int(r.KV.Flags)})
			case r.Node != nil:
				o.txns = append(o.txns, txnT{'n', joinPeer(r.Node.Node, r.Node.PeerName), "", atoi(r.Node.Address)})
			case r.Service != nil:
				o.txns = append(o.txns, txnT{'s', joinPeer(r.Service.Service, r.Service.PeerName), "", atoi(r.Service.ID)})
			case r.Check != nil:
				o.txns = append(o.txns, txnT{'c', joinPeer(r.Check.Node, r.Check.PeerName), joinPeer(r.Check.ServiceName, r.Check.PeerName), atoi(string(r.Check.CheckID))})
			default:
				o.txns = append(o.txns, txnT{'e', "", "", emptyID[r]})
			}
		}
	default:
		k := aclKinds[ty]
		o.acls = execACL(apply, k, p.acls)
	}
	return o, false
}

func secretOf(s string) int {
	switch s {
	case "s3cr3t":
		return 1
	case aclfilter.RedactedToken:
		return 2
	}
	return 99
}

func execACL(apply func(any), k aclKind, in []*aclT) []*aclT {
	var out []*aclT
	switch k.kind {
	case "token":
		var v structs.ACLTokens
		for _, o := range in {
			if o == nil {
				v = append(v, nil)
			} else {
				v = append(v, &structs.ACLToken{AccessorID: idS(o.id), SecretID: "s3cr3t"})
			}
		}
		orig := append(structs.ACLTokens(nil), v...)
		if k.list {
			apply(&v)
		} else {
			apply(&v[0])
		}
		for _, t := range orig {
			if t != nil && t.SecretID != "s3cr3t" {
				panic("token object of the caller was mutated by redaction")
			}
		}
		for _, t := range v {
			if t == nil {
				out = append(out, nil)
			} else {
				out = append(out, &aclT{atoi(t.AccessorID), secretOf(t.SecretID)})
			}
		}
	case "stub":
		var v []*structs.ACLTokenListStub
		for _, o := range in {
			if o == nil {
				v = append(v, nil)
			} else {
				v = append(v, &structs.ACLTokenListStub{AccessorID: idS(o.id), SecretID: "s3cr3t"})
			}
		}
		if k.list {
			apply(&v)
		} else {
			apply(&v[0])
		}
		for _, t := range v {
			if t == nil {
				out = append(out, nil)
			} else {
				out = append(out, &aclT{atoi(t.AccessorID), secretOf(t.SecretID)})
			}
		}
	case "policy":
		var v structs.ACLPolicies
		for _, o := range in {
			if o == nil {
				v = append(v, nil)
			} else {
				v = append(v, &structs.ACLPolicy{ID: idS(o.id)})
			}
		}
		if k.list {
			apply(&v)
		} else {
			apply(&v[0])
		}
		for _, t := range v {
			if t == nil {
				out = append(out, nil)
			} else {
				out = append(out, &aclT{atoi(t.ID), 1})
			}
		}
	case "role":
		var v structs.ACLRoles
		for _, o := range in {
			if o == nil {
				v = append(v, nil)
			} else {
				v = append(v, &structs.ACLRole{ID: idS(o.id)})
			}
		}
		if k.list {
			apply(&v)
		} else {
			apply(&v[0])
		}
		for _, t := range v {
			if t == nil {
				out = append(out, nil)
			} else {
				out = append(out, &aclT{atoi(t.ID), 1})
			}
		}
	case "brule":
		var v structs.ACLBindingRules
		for _, o := range in {
			if o == nil {
				v = append(v, nil)
			} else {
				v = append(v, &structs.ACLBindingRule{ID: idS(o.id)})
			}
		}
		if k.list {
			apply(&v)
		} else {
			apply(&v[0])
		}
		for _, t := range v {
			if t == nil {
				out = append(out, nil)
			} else {
				out = append(out, &aclT{atoi(t.ID), 1})
			}
		}
	case "method":
		var v structs.ACLAuthMethods
		for _, o := range in {
			if o == nil {
				v = append(v, nil)
			} else {
				v = append(v, &structs.ACLAuthMethod{Name: idS(o.id)})
			}
		}
		if k.list {
			apply(&v)
		} else {
			apply(&v[0])
		}
		for _, t := range v {
			if t == nil {
				out = append(out, nil)
			} else {
				out = append(out, &aclT{atoi(t.Name), 1})
			}
		}
	}
	return out
}

// ---------------------------------------------------------------- independent recomputation

func keep[T any](xs []T, ok func(T) bool) (out []T, removed bool) {
	for _, x := range xs {
		if ok(x) {
			out = append(out, x)
		} else {
			removed = true
		}
	}
	return
}

func (z *authz) csnOK(c csnT) bool {
	return c.node != nil && c.svc != nil && z.node(*c.node) && z.service(*c.svc)
}

func specDump(z *authz, xs []nodeInfoT) (out []nodeInfoT, removed bool) {
	for _, x := range xs {
		if !z.node(x.node) {
			removed = true
			continue
		}
		var r1, r2 bool
		x.svcs, r1 = keep(x.svcs, func(s subT) bool { return z.svcOpt(s.name) })
		x.chks, r2 = keep(x.chks, func(s subT) bool { return z.svcOpt(s.name) })
		removed = removed || r1 || r2
		out = append(out, x)
	}
	return
}

// willPanic: inputs outside the contract of the filter (nil pointers it dereferences).
func willPanic(ty string, p *payload) bool {
	nilCSN := func(xs []csnT) bool {
		for _, c := range xs {
			if c.node == nil || c.svc == nil {
				return true
			}
		}
		return false
	}
	switch ty {
	case "CheckServiceNodes", "IndexedCheckServiceNodes", "PreparedQueryExecuteResponse":
		return nilCSN(p.csn[0])
	case "IndexedServiceTopology":
		return p.topoNil || nilCSN(p.csn[0]) || nilCSN(p.csn[1])
	case "IndexedNodesWithGateways":
		return nilCSN(p.csn[0]) || nilCSN(p.csn[1])
	case "DatacenterIndexedCheckServiceNodes":
		for _, e := range p.dc {
			if nilCSN(e.xs) {
				return true
			}
		}
	case "IndexedServiceDump":
		for _, s := range p.infos {
			if s.gs == nil {
				return true
			}
		}
	}
	return false
}

// spec: what the response must look like — keep exactly what the token may read (by name),
// in order, and report through the flag whether anything was removed.
// silent: number of entries dropped that by design are not reported (un-named prepared queries).
func spec(ty string, p *payload, z *authz) (o *payload, silent int) {
	o = &payload{}
	var rm, r2, r3 bool
	switch ty {
	case "CheckServiceNodes", "IndexedCheckServiceNodes", "PreparedQueryExecuteResponse":
		o.csn[0], rm = keep(p.csn[0], z.csnOK)
		o.flag = rm
	case "IndexedServiceTopology":
		o.csn[0], rm = keep(p.csn[0], z.csnOK)
		o.csn[1], r2 = keep(p.csn[1], z.csnOK)
		o.fb, o.flag = p.fb || rm || r2, p.flag || rm || r2
	case "DatacenterIndexedCheckServiceNodes":
		for _, e := range p.dc {
			xs, r := keep(e.xs, z.csnOK)
			rm = rm || r
			if len(xs) > 0 {
				o.dc = append(o.dc, keyedCSN{e.key, xs})
			}
		}
		o.flag = rm
	case "IndexedCoordinates", "IndexedNodes":
		o.nodes, o.flag = keep(p.nodes, func(c nodeEnt) bool { return z.node(c.node) })
	case "IndexedSessions":
		o.nodes, o.flag = keep(p.nodes, func(c nodeEnt) bool { return z.session(c.node) })
	case "IndexedHealthChecks", "IndexedServiceNodes":
		o.svcs, o.flag = keep(p.svcs, func(c svcEnt) bool { return z.node(c.node) && z.svcOpt(c.svc) })
	case "IndexedIntentions":
		o.ixns, o.flag = keep(p.ixns, func(x ixnT) bool {
			return (x.src != "" && !x.peer && z.ixn(x.src)) || (x.dst != "" && z.ixn(x.dst))
		})
	case "IntentionQueryMatch": // all or nothing
		_, rm = keep(p.names, func(n string) bool { return n == "" || z.ixn(n) })
		if !rm {
			o.names = p.names
		}
	case "IndexedNodeDump":
		o.dump[0], rm = specDump(z, p.dump[0])
		o.dump[1], r2 = specDump(z, p.dump[1])
		o.flag = p.flag || rm || r2
	case "IndexedServiceDump":
		o.infos, o.flag = keep(p.infos, func(s svcInfoT) bool {
			return s.gs != nil && z.svcOpt(s.gs[0]) && z.svcOpt(s.gs[1]) && (s.node == nil || z.node(*s.node))
		})
	case "IndexedNodeServices":
		switch {
		case p.nsNil:
			o.nsNil = true
		case !z.node(*p.nsNode):
			o.nsNil, o.flag = true, true
		default:
			o.nsNode = p.nsNode
			o.ns, o.flag = keep(p.ns, func(e nsEnt) bool { return z.svcOpt(e.name) }) // by service NAME
		}
	case "IndexedNodeServiceList":
		switch {
		case p.nsNode == nil:
			o.subs = p.subs
		case !z.node(*p.nsNode):
			o.flag = true
		default:
			o.nsNode = p.nsNode
			o.subs, o.flag = keep(p.subs, func(s subT) bool { return z.svcOpt(s.name) })
		}
	case "IndexedServices":
		o.subs, o.flag = keep(p.subs, func(s subT) bool { return z.svcOpt(s.name) })
	case "IndexedPreparedQueries":
		if z.w {
			o.pqs = p.pqs
			break
		}
		for _, q := range p.pqs {
			named := q.name != "" || q.tmpl
			switch {
			case !named:
				silent++
			case !z.query(q.name):
				o.flag = true
			default:
				if q.tok != 0 {
					q.tok = 2
				}
				o.pqs = append(o.pqs, q)
			}
		}
	case "PtrPreparedQuery":
		q := p.pqs[0]
		if !z.w && q.tok != 0 {
			q.tok = 2
		}
		o.pqs = []pqT{q}
	case "IndexedServiceList":
		o.names, o.flag = keep(p.names, z.service)
	case "IndexedExportedServiceList":
		for _, e := range p.exported {
			xs, r := keep(e.xs, z.service)
			rm = rm || r
			if len(xs) > 0 {
				o.exported = append(o.exported, keyedNames{e.key, xs})
			}
		}
		o.flag = p.flag || rm
	case "IndexedGatewayServices":
		o.gws, o.flag = keep(p.gws, func(g gwT) bool { return z.service(g.svc) })
	case "IndexedNodesWithGateways":
		o.csn[0], rm = keep(p.csn[0], z.csnOK)
		o.gws, r2 = keep(p.gws, func(g gwT) bool { return z.service(g.svc) })
		o.csn[1], r3 = keep(p.csn[1], z.csnOK)
		o.flag = p.flag || rm || r2 || r3
	case "DirEntries":
		o.subs, _ = keep(p.subs, func(s subT) bool { return z.key(s.name) })
	case "TxnResults":
		o.txns, _ = keep(p.txns, func(t txnT) bool {
			switch t.kind {
			case 'k':
				return z.key(t.a)
			case 'n':
				return z.node(t.a)
			case 's':
				return z.service(t.a)
			case 'c':
				if t.b != "" {
					return z.service(t.b)
				}
				return z.node(t.a)
			}
			return true
		})
	default:
		k := aclKinds[ty]
		for _, a := range p.acls {
			switch {
			case a == nil || !z.r:
				if !k.list {
					o.acls = append(o.acls, nil)
				}
			case k.secret && !z.w:
				o.acls = append(o.acls, &aclT{a.id, 2})
			default:
				o.acls = append(o.acls, &aclT{a.id, a.secret})
			}
		}
	}
	return
}

// size: number of entries a payload discloses (nested ones included)
func size(p *payload) int {
	n := len(p.csn[0]) + len(p.csn[1]) + len(p.csn[2]) + len(p.nodes) + len(p.svcs) + len(p.ixns) + len(p.names) +
		len(p.infos) + len(p.ns) + len(p.subs) + len(p.pqs) + len(p.gws) + len(p.txns)
	for _, e := range p.dc {
		n += len(e.xs)
	}
	for _, e := range p.exported {
		n += len(e.xs)
	}
	for _, d := range p.dump {
		for _, x := range d {
			n += 1 + len(x.svcs) + len(x.chks)
		}
	}
	for _, a := range p.acls {
		if a != nil {
			n++
		}
	}
	if p.nsNode != nil {
		n++
	}
	return n
}
func bucket(n int) string {
	switch {
	case n == 0:
		return "0"
	case n == 1:
		return "1"
	case n <= 4:
		return "2-4"
	case n <= 9:
		return "5-9"
	}
	return "10+"
}

func hasFlag(ty string) bool {
	switch ty {
	case "CheckServiceNodes", "IntentionQueryMatch", "PtrPreparedQuery", "DirEntries", "TxnResults":
		return false
	}
	_, isACL := aclKinds[ty]
	return !isACL
}

func normalize(ty string, p *payload) {
	sort.Slice(p.dc, func(i, j int) bool { return p.dc[i].key < p.dc[j].key })
	sort.Slice(p.exported, func(i, j int) bool { return p.exported[i].key < p.exported[j].key })
	sort.Slice(p.ns, func(i, j int) bool { return p.ns[i].key < p.ns[j].key })
	if ty == "IndexedServices" {
		sort.Slice(p.subs, func(i, j int) bool { return p.subs[i].name < p.subs[j].name })
	}
}

// oneCase runs one (type, authorizer, payload): real filter, protocol line, monitors.
func oneCase(run *hx.Run, ty string, z *authz, p *payload, tagPrefix string) {
	normalize(ty, p)
	args := enc(ty, p)
	op := "f " + ty + " " + z.enc + " " + args
	out, panicked := exec(ty, p, z)
	run.Tag("type:" + ty)
	run.Tag("authz:" + z.desc)
	if panicked {
		run.Line(op, "panic")
		run.Tag(tagPrefix + "panic(nil-pointer-input)")
		if !willPanic(ty, p) {
			violate(run, "filter:"+ty+":unexpected-panic", "the filter panicked on a well-formed response", []string{op})
		}
		run.Case(op, true)
		return
	}
	implOut := enc(ty, out)
	run.Line(op, implOut)
	want, silent := spec(ty, p, z)
	wantS := enc(ty, want)
	if willPanic(ty, p) {
		violate(run, "filter:"+ty+":no-panic-on-nil-input", "expected a panic", []string{op})
	}
	removed := args != implOut
	if implOut != wantS {
		// classify: payload or only the flag?
		w2, o2 := *want, *out
		w2.flag, o2.flag, w2.fb, o2.fb = false, false, false, false
		switch {
		case enc(ty, &w2) == enc(ty, &o2):
			violate(run, "filter:"+ty+":flag-differs-from-something-removed",
				fmt.Sprintf("flag/filtered marker: impl %q, expected %q", implOut, wantS), []string{op})
		default:
			again, _ := spec(ty, out, z)
			a2 := *again
			a2.flag, a2.fb = false, false
			if enc(ty, &a2) != enc(ty, &o2) {
				violate(run, "filter:"+ty+":unreadable-entry-returned",
					fmt.Sprintf("impl returned %q; what the token may read is %q", implOut, wantS), []string{op})
			} else {
				violate(run, "filter:"+ty+":readable-entry-dropped-or-reordered",
					fmt.Sprintf("impl returned %q; what the token may read is %q", implOut, wantS), []string{op})
			}
		}
	}
	// branch tags
	switch {
	case !removed:
		run.Tag(tagPrefix + "nothing-removed")
	case size(out) == 0:
		run.Tag(tagPrefix + "everything-removed")
	default:
		run.Tag(tagPrefix + "partly-removed")
	}
	run.Tag(fmt.Sprintf("%sinput-size:%s", tagPrefix, bucket(size(p))))
	if hasFlag(ty) {
		run.Tag(fmt.Sprintf("%sflag-in=%v,out=%v", tagPrefix, p.flag, out.flag))
	}
	if silent > 0 {
		run.Tag("pq:unnamed-query-dropped-without-flag")
		// un-named queries are capabilities (served by ID to whoever knows it, enumerable only with a
		// management token): dropping them unreported is by design. What must hold instead: the response
		// is the very one the caller would get if they did not exist.
		p2 := *p
		p2.pqs = nil
		for _, q := range p.pqs {
			if q.name != "" || q.tmpl {
				p2.pqs = append(p2.pqs, q)
			}
		}
		if out2, pan := exec(ty, &p2, z); pan || enc(ty, out2) != implOut {
			violate(run, "pq:unnamed-query-visible-to-non-management",
				fmt.Sprintf("with un-named queries the response is %q, without them %q", implOut, enc(ty, out2)), []string{op})
		}
	}
	if ty == "IndexedNodeServices" && !p.nsNil {
		for _, e := range p.ns {
			if e.key != e.name {
				run.Tag("node-services:id-differs-from-name")
				break
			}
		}
	}
	run.Case(op, removed)
	run.Sample(map[string]string{"op": op, "impl": implOut})
}

func allTypeKeys() []string {
	var ks []string
	for _, t := range typeTable {
		ks = append(ks, t[1])
	}
	return append(ks, extraTypes...)
}

func runFilterCases(run *hx.Run) {
	per := run.Scale(60, 700)
	for ti, ty := range allTypeKeys() {
		for n := 0; n < per; n++ {
			r := run.RNG.Fork(uint64(ti*1000003 + n))
			z := genAuthz(r)
			g := &gen{r: r, malf: r.Chance(8), z: z}
			oneCase(run, ty, z, g.generate(ty), "")
		}
	}
}

// runExhaustive: every arrangement up to a length bound over {readable, unreadable node,
// unreadable service} with a fixed authorizer, for the loop shapes.
func runExhaustive(run *hx.Run) {
	z := fixedAuthz()
	maxLen := run.Scale(4, 6)
	classes := [3][2]string{{"web", "web"}, {"db", "web"}, {"web", "db"}}
	var arr []int
	var rec func(int)
	emit := func() {
		id := 0
		nid := func() int { id++; return id }
		var p *payload
		// node+service shaped
		p = &payload{}
		for _, c := range arr {
			p.svcs = append(p.svcs, svcEnt{classes[c][0], classes[c][1], nid()})
		}
		oneCase(run, "IndexedHealthChecks", z, p, "exh:")
		p2 := *p
		oneCase(run, "IndexedServiceNodes", z, &p2, "exh:")
		p = &payload{}
		for _, c := range arr {
			p.csn[0] = append(p.csn[0], csnT{sp(classes[c][0]), sp(classes[c][1]), nid()})
		}
		oneCase(run, "IndexedCheckServiceNodes", z, p, "exh:")
		p = &payload{}
		for _, c := range arr {
			p.nodes = append(p.nodes, nodeEnt{classes[c][0], nid()})
		}
		oneCase(run, "IndexedNodes", z, p, "exh:")
		p = &payload{}
		for _, c := range arr {
			p.subs = append(p.subs, subT{classes[c][1], nid()})
		}
		oneCase(run, "DirEntries", z, p, "exh:")
		p = &payload{nsNode: sp("web")}
		for _, c := range arr {
			p.subs = append(p.subs, subT{classes[c][1], nid()})
		}
		oneCase(run, "IndexedNodeServiceList", z, p, "exh:")
		p = &payload{}
		for _, c := range arr {
			t := txnT{kind: 'c', a: classes[c][0], b: classes[c][1], id: nid()}
			if c == 1 {
				t = txnT{kind: 'n', a: "db", id: nid()}
			}
			p.txns = append(p.txns, t)
		}
		oneCase(run, "TxnResults", z, p, "exh:")
		// map keyed by service ID, permission by service name: IDs are the universe names in order,
		// names follow the arrangement (regression guard for 8c494bd)
		if len(arr) <= len(names)-1 {
			p = &payload{nsNode: sp("web")}
			for i, c := range arr {
				p.ns = append(p.ns, nsEnt{key: names[1+i], name: classes[c][1], id: nid()})
			}
			oneCase(run, "IndexedNodeServices", z, p, "exh:")
		}
		// nested: class 0 = readable node with mixed services, 1 = unreadable node, 2 = readable node whose nested entries all go
		p = &payload{}
		for _, c := range arr {
			x := nodeInfoT{node: classes[c][0], id: nid()}
			switch c {
			case 0:
				x.svcs = []subT{{"web", nid()}, {"db", nid()}, {"db", nid()}, {"web", nid()}}
				x.chks = []subT{{"", nid()}, {"db", nid()}}
			case 1:
				x.svcs = []subT{{"web", nid()}}
			case 2:
				x.svcs = []subT{{"db", nid()}}
				x.chks = []subT{{"db", nid()}, {"db", nid()}}
			}
			p.dump[0] = append(p.dump[0], x)
		}
		oneCase(run, "IndexedNodeDump", z, p, "exh:")
	}
	rec = func(n int) {
		emit()
		if n == maxLen {
			return
		}
		for c := 0; c < 3; c++ {
			arr = append(arr, c)
			rec(n + 1)
			arr = arr[:len(arr)-1]
		}
	}
	rec(0)
	run.Extra["exhaustive_arrangements_max_len"] = maxLen
}

// checkSwitchCoverage parses the filter.go the harness was built with and checks that every case of
// the Filter.Filter type switch has an exerciser here.
func checkSwitchCoverage(run *hx.Run) {
	fset := token.NewFileSet()
	file, err := parser.ParseFile(fset, "filter.go", aclfilter.VerifFilterSource, 0)
	if err != nil {
		violate(run, "filter:switch-scan-failed", err.Error(), nil)
		return
	}
	known := map[string]bool{}
	for _, t := range typeTable {
		known[t[0]] = true
	}
	found := map[string]bool{}
	ast.Inspect(file, func(n ast.Node) bool {
		fd, ok := n.(*ast.FuncDecl)
		if !ok {
			return true
		}
		if fd.Name.Name != "Filter" || fd.Recv == nil {
			return false
		}
		ast.Inspect(fd.Body, func(m ast.Node) bool {
			ts, ok := m.(*ast.TypeSwitchStmt)
			if !ok {
				return true
			}
			for _, st := range ts.Body.List {
				cc := st.(*ast.CaseClause)
				for _, e := range cc.List {
					found[types.ExprString(e)] = true
				}
			}
			return false
		})
		return false
	})
	if len(found) == 0 {
		violate(run, "filter:switch-scan-failed", "no case found in the Filter.Filter type switch", nil)
	}
	var fs []string
	for t := range found {
		fs = append(fs, t)
		if !known[t] {
			violate(run, "filter:unmodelled-response-type", "case "+t+" of the Filter.Filter type switch has no model / exerciser", nil)
		}
	}
	for t := range known {
		if !found[t] {
			run.Tag("switch:modelled-type-no-longer-in-switch:" + t)
		}
	}
	sort.Strings(fs)
	run.Extra["filter_switch_cases"] = fs
	run.Tag(fmt.Sprintf("switch:cases=%d", len(fs)))
}
