//go:build verif

package main

import (
	"context"
	"errors"
	"fmt"
	"os"
	"sort"
	"strconv"
	"strings"
	"sync"
	"time"

	"github.com/hashicorp/go-hclog"

	"github.com/hashicorp/consul/acl"
	"github.com/hashicorp/consul/acl/resolver"
	"github.com/hashicorp/consul/agent/consul"
	"github.com/hashicorp/consul/agent/consul/fsm"
	"github.com/hashicorp/consul/agent/consul/state"
	"github.com/hashicorp/consul/agent/structs"
	"github.com/hashicorp/consul/agent/token"
	"github.com/hashicorp/consul/internal/verifharness/hx"
)

// Real time is used (the code calls time.Now() directly). A case lives on its own time line that
// starts at t0; one "unit" is 80 ms (more on repeated attempts, see unitFor) = 8 model ticks. Operations run in the middle of a unit (tick
// 8v+4, checked by bracketing the call with two clock readings, window +- unit/5), token expiries sit on
// unit boundaries (tick 8e) and the cache TTL is k units and a half (tick 8k+4), so every comparison
// the code makes (ExpirationTime.Before(now), Age() <= TTL) has a margin of >= 0.3 unit (24 ms at the base unit) on either side.
// A case whose timing bracket fails is re-run from scratch.
//
// Three kinds of resolver:
//   remote  a client agent's / secondary's view: fake backend, identities (and the role / policy links
//           of a token) come from the primary by scripted RPC answers, identity cache in play;
//           ResolveToken, ResolveTokenAndDefaultMeta, resolveTokenToIdentityAndPolicies / …AndRoles
//           with their retry loops
//   server  primary-DC server over a real state store (expired tokens not yet reaped)
//   raft    the same with a real single-voter in-memory Raft: ACL.TokenRead, ACL.TokenList and the
//           token reaper run unmodified
const (
	baseUnit = 80 * time.Millisecond
	baseTick = 1000
)

const (
	anonAccessor = "00000000-0000-0000-0000-000000000002"
	anonSecret   = "anonymous"
	mgmtAccessor = "aaaaaaaa-0000-0000-0000-00000000000f"
	mgmtSecret   = "mgmt"
	mgmtPolicyID = "bbbbbbbb-0000-0000-0000-000000000001"
)

var accOf = map[string]string{"s1": "aaaaaaaa-0000-0000-0000-000000000001", "s2": "aaaaaaaa-0000-0000-0000-000000000002",
	"s3": "aaaaaaaa-0000-0000-0000-000000000003", "s4": "aaaaaaaa-0000-0000-0000-000000000004",
	anonSecret: anonAccessor, mgmtSecret: mgmtAccessor,
	recoverySecret: "aaaaaaaa-0000-0000-0000-0000000000e1", srvMgmtSecret: "aaaaaaaa-0000-0000-0000-0000000000e2"}

// secrets with a meaning to the front of ResolveToken: the agent recovery token and the server
// management token (when the case configures them; otherwise ordinary unknown secrets), the names of
// the root authorizers, and the empty secret (= the anonymous token)
const (
	recoverySecret = "rec0"
	srvMgmtSecret  = "srv0"
)

var specialSecrets = []string{"", "", "manage", "allow", "deny", recoverySecret, recoverySecret, srvMgmtSecret, srvMgmtSecret}
var filtTypes = []string{"IndexedServiceList", "IndexedServiceList", "IndexedServiceNodes", "IndexedSessions", "IndexedNodeDump", "IndexedNodes"}

var grantNames = []string{"web", "db", "api"}

type expT struct {
	kind int // 0 nil pointer, 1 zero time, 2 at unit e
	e    int
}

func (x expT) tick() string {
	switch x.kind {
	case 0:
		return "~"
	case 1:
		return "0"
	}
	return strconv.Itoa(baseTick + 8*x.e)
}
// tline: the time line of one attempt at a case: its origin and the real duration of one unit.
// unit = baseUnit for the first attempts; an attempt whose timing bracket failed is repeated on a
// coarser time line (the model ticks are units, so the lines do not change).
type tline struct {
	t0   time.Time
	unit time.Duration
}

func (tl tline) window() time.Duration { return tl.unit / 5 }

// unitFor: 80 ms for attempts 0-1, then doubling every second attempt up to 1.28 s.
func unitFor(attempt int) time.Duration {
	sh := attempt / 2
	if sh > 4 {
		sh = 4
	}
	return baseUnit << uint(sh)
}

func (x expT) time(tl tline) *time.Time {
	t0, unit := tl.t0, tl.unit
	switch x.kind {
	case 0:
		return nil
	case 1:
		return &time.Time{}
	}
	t := t0.Add(time.Duration(x.e) * unit)
	return &t
}

type xtoken struct {
	secret, accessor string
	exp              expT
	grants           []string
	link             int // 0 service identities, 1 a policy link, 2 a role link (remote mode only)
}

func (t xtoken) enc() string {
	return hx.EncS(t.secret) + " " + hx.EncS(t.accessor) + " " + t.exp.tick() + " " + hx.EncSList(t.grants) + " " + strconv.Itoa(t.link)
}
func (t xtoken) encRound() string {
	return hx.EncS(t.secret) + ";" + hx.EncS(t.accessor) + ";" + t.exp.tick() + ";" + join("|", mapS(t.grants, hx.EncS)) + ";" + strconv.Itoa(t.link)
}
func linkID(prefix string, grants []string) string { return prefix + strings.Join(grants, "+") }
func grantsOfID(id string) []string {
	id = id[2:]
	if id == "" {
		return nil
	}
	return strings.Split(id, "+")
}
func (t xtoken) build(tl tline) *structs.ACLToken {
	tok := &structs.ACLToken{AccessorID: t.accessor, SecretID: t.secret, ExpirationTime: t.exp.time(tl)}
	switch t.link {
	case 1:
		tok.Policies = []structs.ACLTokenPolicyLink{{ID: linkID("p-", t.grants)}}
	case 2:
		tok.Roles = []structs.ACLTokenRoleLink{{ID: linkID("r-", t.grants)}}
	default:
		for _, g := range t.grants {
			tok.ServiceIdentities = append(tok.ServiceIdentities, &structs.ACLServiceIdentity{ServiceName: g})
		}
	}
	return tok
}

type xround struct {
	rpc   string // found foreign notfound error
	tok   xtoken
	nfErr bool
	link  string // ok notfound denied error
}

func (r xround) enc() string {
	if r.rpc == "found" {
		return "found;" + r.tok.encRound() + ";" + r.link
	}
	return r.rpc + ";" + r.link
}

type xop struct {
	kind   string // put del res mask read list reap
	unit   int
	tok    xtoken // put
	secret string
	ep     string   // res: t p r
	meta   bool     // res t: through ResolveTokenAndDefaultMeta
	rounds []xround // remote mode (res: 5 rounds; mask: 1 round)
	flag   bool
	fty    string   // filt: the response type handed to filterACL …
	fp     *payload // … and its content
}

type xcase struct {
	mode string // remote server raft
	ttlK int
	down string
	ops  []xop
	// what ResolveToken consults before resolving an identity
	envSet   bool
	acls     bool // ACLs enabled
	tokStore bool // the resolver has a token store …
	recovery bool // … holding the agent recovery token recoverySecret
	srvMgmt  bool // the backend knows srvMgmtSecret as the server management token
}

func (c *xcase) recoveryTok() string {
	if c.recovery {
		return recoverySecret
	}
	return ""
}
func (c *xcase) srvMgmtTok() string {
	if c.srvMgmt {
		return srvMgmtSecret
	}
	return ""
}

func (c *xcase) server() bool { return c.mode != "remote" }

// fakeBackend: a client agent's view — nothing local; identities, roles and policies come from the
// primary by RPC. The answers are scripted per loop round: round k is the one in which the k-th
// link RPC (ACL.PolicyResolve / ACL.RoleResolve) is made.
type fakeBackend struct {
	mu        sync.Mutex
	rounds    []xround
	linkCalls int
	t0        tline
	bad       string
	srvMgmt   string
}

func (b *fakeBackend) ACLDatacenter() string { return "dc1" }
func (b *fakeBackend) ResolveIdentityFromToken(string) (bool, structs.ACLIdentity, error) {
	return false, nil, nil
}
func (b *fakeBackend) ResolvePolicyFromID(string) (bool, *structs.ACLPolicy, error) {
	return false, nil, nil
}
func (b *fakeBackend) ResolveRoleFromID(string) (bool, *structs.ACLRole, error) {
	return false, nil, nil
}
func (b *fakeBackend) IsServerManagementToken(tok string) bool {
	return b.srvMgmt != "" && tok == b.srvMgmt
}

func linkErr(ans string) error {
	switch ans {
	case "notfound":
		return acl.ErrNotFound
	case "denied":
		return acl.ErrPermissionDenied
	case "error":
		return errors.New("connection refused")
	}
	return nil
}

func (b *fakeBackend) RPC(_ context.Context, method string, args interface{}, reply interface{}) error {
	b.mu.Lock()
	defer b.mu.Unlock()
	if b.linkCalls >= len(b.rounds) {
		b.bad = "more rounds than scripted"
		return errors.New("script exhausted")
	}
	rd := b.rounds[b.linkCalls]
	switch method {
	case "ACL.TokenRead":
		resp := reply.(*structs.ACLTokenResponse)
		switch rd.rpc {
		case "found":
			resp.Token, resp.SourceDatacenter = rd.tok.build(b.t0), "dc1"
			return nil
		case "foreign":
			resp.Token, resp.SourceDatacenter = rd.tok.build(b.t0), "dc2"
			resp.Token.Local = true
			return nil
		case "notfound":
			if rd.nfErr {
				return acl.ErrNotFound
			}
			return nil
		}
		return errors.New("connection refused")
	case "ACL.PolicyResolve":
		b.linkCalls++
		if err := linkErr(rd.link); err != nil {
			return err
		}
		resp := reply.(*structs.ACLPolicyBatchResponse)
		for _, id := range args.(*structs.ACLPolicyBatchGetRequest).PolicyIDs {
			var rules strings.Builder
			for _, g := range grantsOfID(id) {
				fmt.Fprintf(&rules, "service %q { policy = \"write\" }\n", g)
			}
			p := &structs.ACLPolicy{ID: id, Name: id, Rules: rules.String()}
			p.SetHash(true)
			resp.Policies = append(resp.Policies, p)
		}
		return nil
	case "ACL.RoleResolve":
		b.linkCalls++
		if err := linkErr(rd.link); err != nil {
			return err
		}
		resp := reply.(*structs.ACLRoleBatchResponse)
		for _, id := range args.(*structs.ACLRoleBatchGetRequest).RoleIDs {
			ro := &structs.ACLRole{ID: id, Name: id}
			for _, g := range grantsOfID(id) {
				ro.ServiceIdentities = append(ro.ServiceIdentities, &structs.ACLServiceIdentity{ServiceName: g})
			}
			ro.SetHash(true)
			resp.Roles = append(resp.Roles, ro)
		}
		return nil
	}
	b.bad = "unexpected RPC " + method
	return errors.New(b.bad)
}

func genExp(r *hx.RNG) expT {
	switch x := r.Intn(100); {
	case x < 14:
		return expT{kind: 0}
	case x < 19:
		return expT{kind: 1}
	default:
		return expT{2, hx.Pick(r, []int{-100, 0, 1, 1, 2, 2, 3, 4, 1000})}
	}
}
func genGrants(r *hx.RNG) []string {
	var g []string
	for _, n := range grantNames {
		if r.Chance(45) {
			g = append(g, n)
		}
	}
	return g
}

func genRound(r *hx.RNG, t xtoken, links, linkErrors bool) xround {
	rd := xround{rpc: hx.Pick(r, []string{"found", "found", "found", "found", "found", "notfound", "notfound", "error", "error", "error", "foreign"}),
		tok: t, nfErr: r.Bool(), link: "ok"}
	if links {
		rd.link = hx.Pick(r, []string{"ok", "ok", "ok", "denied", "denied", "denied", "denied", "notfound", "error"})
		if rd.link == "error" && !linkErrors {
			rd.link = "denied"
		}
		if r.Chance(50) {
			rd.rpc = "found"
		}
	}
	return rd
}

func genXCase(r *hx.RNG, mode string) *xcase {
	c := &xcase{mode: mode, ttlK: hx.Pick(r, []int{0, 1, 1, 2, 100}),
		down: hx.Pick(r, []string{"allow", "deny", "extend-cache", "extend-cache", "async-cache"}), acls: true}
	if mode != "raft" && r.Chance(30) {
		c.envSet, c.acls, c.tokStore, c.recovery, c.srvMgmt = true, !r.Chance(20), !r.Chance(25), !r.Chance(25), !r.Chance(25)
	}
	// role / policy links are followed by RPC only in remote mode; their cache-assisted variants
	// (extend-cache / async-cache reuse of expired link entries) are C08's subject: link answers are
	// generated only where the outcome does not depend on the link caches
	// (a link answer "error" only without extend-cache; no links at all with async-cache, which answers
	// from expired link entries without waiting)
	links := mode == "remote" && c.down != "async-cache" && r.Chance(75)
	linkErrors := c.down == "allow" || c.down == "deny"
	genLink := func() int {
		if links && r.Chance(65) {
			return 1 + r.Intn(2)
		}
		return 0
	}
	pool := map[string]xtoken{
		"s1":       {"s1", accOf["s1"], genExp(r), genGrants(r), genLink()},
		"s2":       {"s2", accOf["s2"], genExp(r), genGrants(r), genLink()},
		"s3":       {"s3", accOf["s3"], genExp(r), genGrants(r), 0},
		"s4":       {"s4", accOf["s4"], genExp(r), genGrants(r), 0},
		anonSecret: {anonSecret, anonAccessor, expT{kind: 0}, genGrants(r), 0},
	}
	if r.Chance(10) && mode != "raft" { // (the builtin anonymous token cannot be given an expiration through the API; the reaper could not delete it)
		t := pool[anonSecret]
		t.exp = genExp(r)
		pool[anonSecret] = t
	}
	secrets := []string{"s1", "s1", "s1", "s2", "s2", anonSecret}
	if mode == "raft" {
		secrets = []string{"s1", "s2", "s3", "s4"}
	}
	u := 0
	if c.server() {
		c.ops = append(c.ops, xop{kind: "put", tok: pool[anonSecret]})
		if mode == "raft" {
			c.ops = append(c.ops, xop{kind: "put", tok: xtoken{mgmtSecret, mgmtAccessor, expT{kind: 0}, nil, 0}})
			for _, s := range []string{"s1", "s2", "s3", "s4"} {
				if r.Chance(75) {
					c.ops = append(c.ops, xop{kind: "put", tok: pool[s]})
				}
			}
		} else {
			c.ops = append(c.ops, xop{kind: "put", tok: pool["s1"]})
			if r.Bool() {
				c.ops = append(c.ops, xop{kind: "put", tok: pool["s2"]})
			}
		}
	}
	for n := 3 + r.Intn(5); n > 0; n-- {
		if r.Chance(55) && u < 5 {
			u += 1 + r.Intn(2)
		}
		s := hx.Pick(r, secrets)
		op := xop{unit: u, secret: s, flag: !r.Chance(15), ep: "t", meta: r.Bool()}
		x := r.Intn(100)
		switch {
		case mode == "raft" && x < 20:
			op.kind = "reap"
		case mode == "raft" && x < 40:
			op.kind = "list"
		case mode == "raft" && x < 60:
			op.kind = "read"
		case c.server() && x < 75 && mode == "raft" || c.server() && x < 25:
			t := pool[s]
			if r.Chance(50) {
				t.exp = genExp(r)
			}
			if r.Chance(30) {
				t.grants = genGrants(r)
			}
			pool[s] = t
			op.kind, op.tok = "put", t
		case c.server() && x < 35 && s != anonSecret:
			op.kind = "del"
		case x < 85 || mode == "raft":
			op.kind = "res"
			if y := r.Intn(100); y < 20 {
				op.ep = "p"
			} else if y < 40 {
				op.ep = "r"
			}
		default:
			op.kind = "mask"
			if r.Chance(25) {
				op.secret = ""
			}
		}
		if mode != "raft" && op.kind == "res" && op.ep == "t" {
			if r.Chance(16) || c.envSet && c.acls && r.Chance(25) {
				op.secret = hx.Pick(r, specialSecrets)
				s = op.secret
			}
			if r.Chance(22) {
				op.kind, op.fty = "filt", hx.Pick(r, filtTypes)
				g := &gen{r: r, noPeer: true}
				op.fp = g.generate(op.fty)
				op.fp.flag = false
			}
		}
		if mode == "remote" && (op.kind == "res" || op.kind == "mask" || op.kind == "filt") {
			t, known := pool[s]
			if s == "" && op.kind != "mask" {
				t, known = pool[anonSecret], true
			}
			if !known { // a secret the primary may or may not know
				t = xtoken{s, accOf[s], expT{kind: 0}, genGrants(r), 0}
			}
			if r.Chance(30) {
				t.exp = genExp(r)
				if known && s != "" {
					pool[s] = t
				}
			}
			nr := 5
			if op.kind == "mask" {
				nr = 1
			}
			for k := 0; k < nr; k++ {
				rd := genRound(r, t, links && t.link != 0, linkErrors)
				if op.secret == "" || k > 0 && r.Chance(70) {
					rd.rpc = "found"
				}
				if k > 0 && r.Chance(25) { // the token changed at the primary between rounds
					rd.tok.exp = genExp(r)
				}
				op.rounds = append(op.rounds, rd)
			}
		}
		c.ops = append(c.ops, op)
	}
	return c
}

type xresult struct {
	lines [][2]string
	tags  []string
	viol  [][2]string // sig, desc
	ok    bool
}

func newFSM() *fsm.FSM {
	return fsm.NewFromDeps(fsm.Deps{
		Logger:         hclog.NewNullLogger(),
		NewStateStore:  func() *state.Store { return state.NewStateStore(nil) },
		StorageBackend: fsm.NullStorageBackend,
	})
}

type xenv struct {
	env *consul.VerifACLEnv
	f   *fsm.FSM
	fb  *fakeBackend
}

// prepareX builds a fresh resolver for the case (CPU heavy: done before the timed part).
func prepareX(c *xcase, unit time.Duration) *xenv {
	ttl := time.Duration(c.ttlK)*unit + unit/2
	settings := consul.ACLResolverSettings{ACLsEnabled: c.acls, Datacenter: "dc1", NodeName: "n1",
		ACLPolicyTTL: 30 * time.Second, ACLRoleTTL: 30 * time.Second, ACLTokenTTL: ttl,
		ACLDownPolicy: c.down, ACLDefaultPolicy: "deny"}
	x := &xenv{}
	var err error
	switch c.mode {
	case "remote":
		// links are re-fetched on every resolution: their outcome is the scripted answer alone
		settings.ACLPolicyTTL, settings.ACLRoleTTL = 0, 0
		x.fb = &fakeBackend{srvMgmt: c.srvMgmtTok()}
		x.env, err = consul.VerifNewACLEnvTokens(nil, x.fb, settings, c.tokenStore())
	case "server":
		x.f = newFSM()
		x.env, err = consul.VerifNewACLEnvTokens(x.f, nil, settings, c.tokenStore())
		if err == nil && c.srvMgmt {
			err = x.f.State().SystemMetadataSet(6, &structs.SystemMetadataEntry{Key: structs.ServerManagementTokenAccessorID, Value: srvMgmtSecret})
		}
	case "raft":
		x.f = newFSM()
		x.env, err = consul.VerifNewACLRaftEnv(x.f, settings)
		if err == nil {
			err = x.f.State().ACLPolicySet(5, &structs.ACLPolicy{ID: mgmtPolicyID, Name: "mgmt", Rules: `acl = "write"`})
		}
	}
	if err != nil {
		panic(err)
	}
	return x
}

// tokenStore: the locally managed tokens of the case (nil = the resolver has no token store).
func (c *xcase) tokenStore() *token.Store {
	if !c.tokStore {
		return nil
	}
	ts := new(token.Store)
	if c.recovery {
		ts.UpdateAgentRecoveryToken(recoverySecret, token.TokenSourceConfig)
	}
	return ts
}

func (x *xenv) close() {
	if x != nil && x.env != nil {
		x.env.Shutdown()
	}
}

func storedAccessors(st *state.Store) map[string]*structs.ACLToken {
	_, toks, err := st.ACLTokenList(nil, true, true, "", "", "", nil, nil)
	if err != nil {
		panic(err)
	}
	m := map[string]*structs.ACLToken{}
	for _, t := range toks {
		m[t.AccessorID] = t
	}
	return m
}

func expiredBefore(t *time.Time, at time.Time) bool { return t != nil && !t.IsZero() && t.Before(at) }

// runXCase executes one sequence on its fresh resolver along the time line starting at t0.
// ok=false: a timing bracket failed.
func runXCase(c *xcase, x *xenv, tl tline) (res xresult) {
	t0, unit, window := tl, tl.unit, tl.window()
	env, f, fb := x.env, x.f, x.fb
	emit := func(op, out string) { res.lines = append(res.lines, [2]string{op, out}) }
	viol := func(sig, desc string) { res.viol = append(res.viol, [2]string{sig, desc}) }
	emit(fmt.Sprintf("x-begin %s %d %s", hx.EncBool(c.server()), 8*c.ttlK+4, c.down), "ok")
	if c.envSet {
		emit(fmt.Sprintf("x-env %s %s %s %s", hx.EncBool(c.acls), hx.EncBool(c.tokStore), hx.EncS(c.recoveryTok()), hx.EncS(c.srvMgmtTok())), "ok")
		res.tags = append(res.tags, fmt.Sprintf("x:env:acls=%v,tokenstore=%v,recovery=%v,srvmgmt=%v", c.acls, c.tokStore, c.recovery, c.srvMgmt))
	}
	if fb != nil {
		fb.t0 = t0
	}
	idx := uint64(10)
	mode := c.mode
	for i := range c.ops {
		op := &c.ops[i]
		switch op.kind {
		case "put":
			idx++
			tok := op.tok.build(t0)
			if op.tok.secret == mgmtSecret {
				tok.Policies = []structs.ACLTokenPolicyLink{{ID: mgmtPolicyID}}
			}
			var err error
			if mode == "raft" {
				err = env.RaftApply(structs.ACLTokenSetRequestType, &structs.ACLTokenBatchSetRequest{Tokens: structs.ACLTokens{tok}})
			} else {
				err = f.State().ACLTokenSet(idx, tok)
			}
			if err != nil {
				panic(err)
			}
			emit("x-put "+op.tok.enc(), "ok")
			continue
		case "del":
			idx++
			var err error
			if mode == "raft" {
				err = env.RaftApply(structs.ACLTokenDeleteRequestType, &structs.ACLTokenBatchDeleteRequest{TokenIDs: []string{accOf[op.secret]}})
			} else {
				err = f.State().ACLTokenDeleteByAccessor(idx, accOf[op.secret], nil)
			}
			if err != nil && !errors.Is(err, acl.ErrNotFound) {
				panic(err)
			}
			emit("x-del "+hx.EncS(op.secret), "ok")
			res.tags = append(res.tags, "x:op:delete")
			continue
		}
		target := t0.t0.Add(time.Duration(op.unit)*unit + unit/2)
		if d := time.Until(target); d > 0 {
			time.Sleep(d)
		}
		if fb != nil {
			fb.mu.Lock()
			fb.rounds, fb.linkCalls = op.rounds, 0
			fb.mu.Unlock()
		}
		now := baseTick + 8*op.unit + 4
		script := ""
		for _, rd := range op.rounds {
			script += " " + rd.enc()
		}
		tb := time.Now()
		var line, out string
		switch op.kind {
		case "res":
			line = fmt.Sprintf("x-res %d %s %s%s", now, op.ep, hx.EncS(op.secret), script)
			if op.ep == "t" {
				var r resolver.Result
				var err error
				if op.meta {
					r, err = env.ResolveTokenAndDefaultMeta(op.secret)
				} else {
					r, err = env.ResolveToken(op.secret)
				}
				if err == nil && c.acls && (op.secret == "allow" || op.secret == "deny" || op.secret == "manage") {
					viol("resolve:root-authorizer-name-accepted-as-token", fmt.Sprintf("ResolveToken(%q) succeeded with ACLs enabled", op.secret))
				}
				switch {
				case err != nil && acl.IsErrNotFound(err):
					out = "notfound"
				case err != nil && errors.Is(err, acl.ErrRootDenied):
					out = "root-denied"
				case err != nil && acl.IsErrPermissionDenied(err):
					out = "denied"
				case err != nil:
					out = "err:" + strings.ReplaceAll(err.Error(), " ", "_")
				case r.ACLIdentity == nil:
					out = "manage-all" // ACLs disabled: no identity, acl.ManageAll()
					if c.acls || r.Authorizer.ACLWrite(nil) != acl.Allow {
						viol("resolve:no-identity-result", fmt.Sprintf("ResolveToken(%q) returned no identity (ACLs enabled: %v)", op.secret, c.acls))
					}
				case isRecoveryIdentity(r.ACLIdentity):
					out = "recovery"
				case isServerIdentity(r.ACLIdentity):
					out = "server-mgmt"
				case r.ACLIdentity != nil && r.ACLIdentity.ID() == "primary-dc-down":
					out = "down " + hx.EncBool(r.Authorizer.ServiceWrite("web", nil) == acl.Allow)
				default:
					var g []string
					for _, n := range grantNames {
						if r.Authorizer.ServiceWrite(n, nil) == acl.Allow {
							g = append(g, n)
						}
					}
					out = "granted " + hx.EncS(r.ACLIdentity.ID()) + " " + hx.EncSList(g)
					// monitor: the identity that was honoured must not have expired before the call began
					if tok, ok := r.ACLIdentity.(*structs.ACLToken); ok && expiredBefore(tok.ExpirationTime, tb) {
						viol("expiry:expired-token-honoured:"+mode,
							fmt.Sprintf("token %s expired %v before the call yet resolved to an authorizer granting %v (down policy %s, ttl %d units, link %d)",
								tok.AccessorID, tb.Sub(*tok.ExpirationTime), g, c.down, c.ttlK, op.rounds0link()))
					}
				}
			} else {
				var id structs.ACLIdentity
				var err error
				if op.ep == "p" {
					id, err = env.ResolvePolicies(op.secret)
				} else {
					id, err = env.ResolveRoles(op.secret)
				}
				switch {
				case err != nil && acl.IsErrNotFound(err):
					out = "notfound"
				case err != nil && consul.VerifIsRemoteError(err): // may wrap a permission-denied answer of the primary
					out = "remote"
				case err != nil && acl.IsErrPermissionDenied(err):
					out = "denied"
				case err != nil:
					out = "err:" + strings.ReplaceAll(err.Error(), " ", "_")
				case id == nil:
					out = "err:nil-identity"
				default:
					out = "ok " + hx.EncS(id.ID())
					if tok, ok := id.(*structs.ACLToken); ok && expiredBefore(tok.ExpirationTime, tb) {
						viol("expiry:expired-token-honoured:"+mode+":"+op.ep, fmt.Sprintf("token %s expired %v before the call yet its %s were resolved",
							tok.AccessorID, tb.Sub(*tok.ExpirationTime), map[string]string{"p": "policies", "r": "roles"}[op.ep]))
					}
				}
			}
			res.tags = append(res.tags, "x:"+mode+":"+op.ep+":"+strings.SplitN(out, " ", 2)[0])
			if fb != nil {
				fb.mu.Lock()
				res.tags = append(res.tags, fmt.Sprintf("x:link-rpcs-in-one-resolution=%d", fb.linkCalls))
				if fb.bad != "" {
					viol("expiry:harness-script", fb.bad)
				}
				fb.mu.Unlock()
			}
		case "filt":
			// filterACL end to end: resolve the token, filter the subject with what it grants
			normalize(op.fty, op.fp)
			before := enc(op.fty, op.fp)
			line = fmt.Sprintf("x-filt %d %s %d%s %s %s", now, hx.EncS(op.secret), len(op.rounds), script, op.fty, before)
			var stored *structs.ACLToken
			if f != nil && op.secret != "" {
				_, stored, _ = f.State().ACLTokenGetBySecret(nil, op.secret, nil)
			}
			var ferr error
			fout, panicked := execWith(op.fty, op.fp, func(subj any) {
				if e := env.FilterACL(op.secret, subj); e != nil {
					ferr = e
				}
			}, nil)
			switch {
			case panicked:
				out = "panic"
				viol("filteracl:unexpected-panic", "filterACL panicked on a well-formed response")
			case ferr != nil:
				switch {
				case acl.IsErrNotFound(ferr):
					out = "err notfound"
				case errors.Is(ferr, acl.ErrRootDenied):
					out = "err root-denied"
				case acl.IsErrPermissionDenied(ferr):
					out = "err denied"
				default:
					out = "err:" + strings.ReplaceAll(ferr.Error(), " ", "_")
				}
				if after := enc(op.fty, fout); after != before {
					viol("filteracl:subject-modified-although-resolution-failed", fmt.Sprintf("filterACL returned %v yet changed the response from %q to %q", ferr, before, after))
				}
			default:
				out = "ok " + enc(op.fty, fout)
				locallyManaged := c.tokStore && c.recovery && op.secret == recoverySecret || c.tokStore && c.srvMgmt && op.secret == srvMgmtSecret
				if stored != nil && c.acls && !locallyManaged && expiredBefore(stored.ExpirationTime, tb) {
					viol("filteracl:response-filtered-for-expired-token:"+mode,
						fmt.Sprintf("token %s expired %v before the request, yet filterACL served the response %q", stored.AccessorID, tb.Sub(*stored.ExpirationTime), out))
				}
			}
			res.tags = append(res.tags, "x:filt:"+mode+":"+strings.SplitN(out, " ", 2)[0], "x:filt:type:"+op.fty)
			if ferr == nil && !panicked {
				if enc(op.fty, fout) == before {
					res.tags = append(res.tags, "x:filt:nothing-removed")
				} else {
					res.tags = append(res.tags, "x:filt:something-removed")
				}
			}
		case "mask":
			got := env.Mask(op.secret, op.flag)
			rpc := ""
			if mode == "remote" {
				rd := op.rounds[0]
				rpc = " " + rd.rpc
				if rd.rpc == "found" {
					rpc += " " + rd.tok.enc()
				}
			}
			line = fmt.Sprintf("x-mask %d %s %s%s", now, hx.EncS(op.secret), hx.EncBool(op.flag), rpc)
			out = hx.EncBool(got)
			if got && (op.secret == "" || op.secret == anonSecret || !op.flag) {
				viol("mask:filtered-flag-visible-without-token",
					fmt.Sprintf("token %q, incoming flag %v: caller sees ResultsFilteredByACLs=true", op.secret, op.flag))
			}
			switch {
			case op.secret == "":
				res.tags = append(res.tags, "x:mask:no-token")
			case op.secret == anonSecret:
				res.tags = append(res.tags, "x:mask:anonymous")
			default:
				res.tags = append(res.tags, "x:mask:token->"+out)
			}
		case "read":
			tok, err := env.TokenRead(op.secret)
			line = fmt.Sprintf("x-read %d %s", now, hx.EncS(op.secret))
			switch {
			case err != nil && acl.IsErrNotFound(err):
				out = "notfound"
			case err != nil:
				out = "err:" + strings.ReplaceAll(err.Error(), " ", "_")
			default:
				out = "found " + hx.EncS(tok.AccessorID)
				if expiredBefore(tok.ExpirationTime, tb) {
					viol("endpoint:token-read-returned-expired-token", fmt.Sprintf("ACL.TokenRead returned %s, expired %v before the call", tok.AccessorID, tb.Sub(*tok.ExpirationTime)))
				}
			}
			res.tags = append(res.tags, "x:read:"+strings.SplitN(out, " ", 2)[0])
		case "list":
			stubs, err := env.TokenList(mgmtSecret)
			line = fmt.Sprintf("x-list %d", now)
			if err != nil {
				out = "err:" + strings.ReplaceAll(err.Error(), " ", "_")
				break
			}
			var acc []string
			for _, s := range stubs {
				acc = append(acc, s.AccessorID)
				if expiredBefore(s.ExpirationTime, tb) {
					viol("endpoint:token-list-returned-expired-token", fmt.Sprintf("ACL.TokenList returned %s, expired before the call", s.AccessorID))
				}
			}
			sort.Strings(acc)
			out = hx.EncSList(acc)
			res.tags = append(res.tags, fmt.Sprintf("x:list:%d-of-%d-stored", len(acc), len(storedAccessors(f.State()))))
		case "reap":
			before := storedAccessors(f.State())
			n, err := env.Reap()
			if err != nil {
				line, out = fmt.Sprintf("x-reap %d -", now), "err:"+strings.ReplaceAll(err.Error(), " ", "_")
				break
			}
			after := storedAccessors(f.State())
			var reaped []string
			for a, t := range before {
				if after[a] == nil {
					reaped = append(reaped, a)
					// monitor: the reaper deletes nothing that is still valid
					if !expiredBefore(t.ExpirationTime, time.Now()) {
						viol("reaper:deleted-unexpired-token", fmt.Sprintf("reaper deleted %s whose expiration %v is not in the past", a, t.ExpirationTime))
					}
				}
			}
			sort.Strings(reaped)
			if n != len(reaped) {
				viol("reaper:count-differs", fmt.Sprintf("reaper reported %d, %d tokens disappeared", n, len(reaped)))
			}
			// everything expired for more than a second (the index granularity) must be gone
			for a, t := range after {
				if t.ExpirationTime != nil && !t.ExpirationTime.IsZero() && t.ExpirationTime.Before(tb.Add(-1100*time.Millisecond)) {
					viol("reaper:left-long-expired-token", fmt.Sprintf("%s expired more than a second ago and survived a reaper run", a))
				}
			}
			line, out = fmt.Sprintf("x-reap %d %s", now, hx.EncSList(reaped)), "ok"
			res.tags = append(res.tags, fmt.Sprintf("x:reap:deleted=%d", len(reaped)))
		}
		if mode == "remote" && c.down == "async-cache" {
			// the background fetch stamps the cache entry: keep it inside the bracket
			// (the empty secret resolves the anonymous token; mask does not resolve it at all)
			if op.secret != "" {
				env.WaitIdentityFetch(op.secret)
			} else if op.kind != "mask" {
				env.WaitIdentityFetch(anonSecret)
			}
		}
		ta := time.Now()
		if tb.Before(target.Add(-window)) || ta.After(target.Add(window)) {
			if os.Getenv("C09_DEBUG_TIMING") != "" {
				fmt.Fprintf(os.Stderr, "timing: op %d kind %s mode %s wake-late %v call %v\n", i, op.kind, mode, tb.Sub(target), ta.Sub(tb))
			}
			return xresult{ok: false}
		}
		emit(line, out)
		res.tags = append(res.tags, fmt.Sprintf("x:unit=%d", op.unit))
	}
	res.ok = true
	return
}

func isRecoveryIdentity(id structs.ACLIdentity) bool {
	_, ok := id.(*structs.AgentRecoveryTokenIdentity)
	return ok
}
func isServerIdentity(id structs.ACLIdentity) bool {
	_, ok := id.(*structs.ACLServerIdentity)
	return ok
}

// runIsExpired: ACLToken.IsExpired / HasExpirationTime directly, at and around the expiry instant
// (one tick = one nanosecond here; tick 0 = the zero time). The resolver cases above run on the real
// clock and can never hit the instant itself.
func runIsExpired(run *hx.Run) {
	base := time.Date(2031, 5, 17, 11, 0, 0, 0, time.UTC)
	at := func(tick int) time.Time {
		if tick == 0 {
			return time.Time{}
		}
		return base.Add(time.Duration(tick) * time.Nanosecond)
	}
	exps := []string{"~", "0", "1", "1000", "1008", "5000"}
	asOfs := []int{0, 1, 2, 999, 1000, 1001, 1007, 1008, 1009, 4999, 5000, 5001, 1 << 40}
	for _, e := range exps {
		for _, a := range asOfs {
			tok := &structs.ACLToken{AccessorID: "x"}
			if e != "~" {
				n, _ := strconv.Atoi(e)
				t := at(n)
				if run.RNG.Bool() { // a different location / a wall clock with monotonic reading must not matter
					t = t.In(time.FixedZone("x", 3600*5))
				}
				tok.ExpirationTime = &t
			}
			asOf := at(a)
			has, expd := tok.HasExpirationTime(), structs.ACLIdentity(tok).IsExpired(asOf)
			op := fmt.Sprintf("x-exp %s %d", e, a)
			run.Line(op, hx.EncBool(has)+" "+hx.EncBool(expd))
			want := tok.ExpirationTime != nil && !tok.ExpirationTime.IsZero() && !asOf.IsZero() && asOf.Sub(*tok.ExpirationTime) > 0
			if expd != want {
				violate(run, "expiry:is-expired-differs-from-strictly-after-expiration", fmt.Sprintf("expiration tick %s, asOf tick %d: IsExpired=%v", e, a, expd), []string{op})
			}
			// the stub served by ACL.TokenList carries the same expiration
			if stub := tok.Stub(); (stub.ExpirationTime == nil) != (tok.ExpirationTime == nil) || stub.ExpirationTime != nil && !stub.ExpirationTime.Equal(*tok.ExpirationTime) {
				violate(run, "expiry:stub-expiration-differs", "ACLToken.Stub() changed the expiration time", []string{op})
			}
			run.Tag(fmt.Sprintf("x:is-expired:has=%v,expired=%v", has, expd))
			run.Case(op, true)
		}
	}
	// identities that never expire
	for _, id := range []structs.ACLIdentity{structs.NewAgentRecoveryTokenIdentity("n1", "s"), structs.NewACLServerIdentity("s")} {
		if id.IsExpired(at(1 << 40)) {
			violate(run, "expiry:locally-managed-identity-expires", fmt.Sprintf("%T reports expired", id), nil)
		}
	}
}

func (op *xop) rounds0link() int {
	if len(op.rounds) > 0 {
		return op.rounds[0].tok.link
	}
	return 0
}

func runExpiry(run *hx.Run) {
	n := run.Scale(400, 4000)
	nRaft := run.Scale(60, 500)
	cases := make([]*xcase, 0, n+nRaft)
	for i := 0; i < n; i++ {
		r := run.RNG.Fork(uint64(7_000_000 + i))
		mode := "remote"
		if r.Chance(35) {
			mode = "server"
		}
		cases = append(cases, genXCase(r, mode))
	}
	for i := 0; i < nRaft; i++ {
		cases = append(cases, genXCase(run.RNG.Fork(uint64(9_000_000+i)), "raft"))
	}
	n = len(cases)
	results := make([]xresult, n)
	retries := make([]int, n)
	todo := make([]int, n)
	for i := range todo {
		todo[i] = i
	}
	const batch = 128
	for round := 0; len(todo) > 0 && round < 400; round++ {
		cur := todo
		if len(cur) > batch {
			cur = cur[:batch]
		}
		todo = todo[len(cur):]
		envs := make([]*xenv, len(cur))
		var wg sync.WaitGroup
		sem := make(chan struct{}, 8)
		for k, i := range cur { // phase 1: build the resolvers
			wg.Add(1)
			sem <- struct{}{}
			go func(k, i int) {
				defer wg.Done()
				defer func() { <-sem }()
				envs[k] = prepareX(cases[i], unitFor(retries[i]))
			}(k, i)
		}
		wg.Wait()
		t0 := time.Now().Add(10 * time.Millisecond)
		for k, i := range cur { // phase 2: all time lines of the batch run together; only the calls under test execute
			wg.Add(1)
			go func(k, i int) {
				defer wg.Done()
				// staggered time lines: the calls of different cases do not pile up on one instant
				results[i] = runXCase(cases[i], envs[k], tline{t0.Add(time.Duration(k) * 2500 * time.Microsecond), unitFor(retries[i])})
				envs[k].close()
			}(k, i)
		}
		wg.Wait()
		for _, i := range cur {
			if !results[i].ok && retries[i] < 14 {
				retries[i]++
				todo = append(todo, i)
			}
		}
	}
	gaveUp, totalRetries := 0, 0
	for i, res := range results {
		totalRetries += retries[i]
		if !res.ok {
			gaveUp++
			continue
		}
		var ops []string
		for _, l := range res.lines {
			run.Line(l[0], l[1])
			ops = append(ops, l[0])
		}
		for _, t := range res.tags {
			run.Tag(t)
		}
		for _, v := range res.viol {
			violate(run, v[0], v[1], ops)
		}
		c := cases[i]
		run.Tag("x:mode:" + c.mode)
		run.Tag("x:down:" + c.down)
		run.Tag(fmt.Sprintf("x:ttl-units:%d", c.ttlK))
		run.Case(strings.Join(ops, "\n"), true)
	}
	run.Extra["expiry_timing_retries"] = totalRetries
	run.Extra["expiry_cases_given_up"] = gaveUp
	if gaveUp > 0 { // not a finding about consul: the machine could not keep a 1.28 s time line 15 times in a row
		run.Tag("x:timing:cases-given-up")
	}
}
