//go:build verif

package main

import (
	"context"
	"errors"
	"fmt"
	"os"
	"sort"
	"strconv"
	"strings"
	"sync"
	"time"

	"github.com/hashicorp/go-hclog"

	"github.com/hashicorp/consul/acl"
	"github.com/hashicorp/consul/acl/resolver"
	"github.com/hashicorp/consul/agent/consul"
	"github.com/hashicorp/consul/agent/consul/fsm"
	"github.com/hashicorp/consul/agent/consul/state"
	"github.com/hashicorp/consul/agent/structs"
	"github.com/hashicorp/consul/internal/verifharness/hx"
)

// Real time is used (the code calls time.Now() directly). A case lives on its own time line that
// starts at t0; one "unit" is 80 ms = 8 model ticks. Operations run in the middle of a unit (tick
// 8v+4, checked by bracketing the call with two clock readings, window +-16 ms), token expiries sit on
// unit boundaries (tick 8e) and the cache TTL is k units and a half (tick 8k+4), so every comparison
// the code makes (ExpirationTime.Before(now), Age() <= TTL) has a margin of >= 24 ms on either side.
// A case whose timing bracket fails is re-run from scratch.
//
// Three kinds of resolver:
//   remote  a client agent's / secondary's view: fake backend, identities (and the role / policy links
//           of a token) come from the primary by scripted RPC answers, identity cache in play;
//           ResolveToken, ResolveTokenAndDefaultMeta, resolveTokenToIdentityAndPolicies / …AndRoles
//           with their retry loops
//   server  primary-DC server over a real state store (expired tokens not yet reaped)
//   raft    the same with a real single-voter in-memory Raft: ACL.TokenRead, ACL.TokenList and the
//           token reaper run unmodified
const (
	unit     = 80 * time.Millisecond
	window   = 16 * time.Millisecond
	baseTick = 1000
)

const (
	anonAccessor = "00000000-0000-0000-0000-000000000002"
	anonSecret   = "anonymous"
	mgmtAccessor = "aaaaaaaa-0000-0000-0000-00000000000f"
	mgmtSecret   = "mgmt"
	mgmtPolicyID = "bbbbbbbb-0000-0000-0000-000000000001"
)

var accOf = map[string]string{"s1": "aaaaaaaa-0000-0000-0000-000000000001", "s2": "aaaaaaaa-0000-0000-0000-000000000002",
	"s3": "aaaaaaaa-0000-0000-0000-000000000003", "s4": "aaaaaaaa-0000-0000-0000-000000000004",
	anonSecret: anonAccessor, mgmtSecret: mgmtAccessor}

var grantNames = []string{"web", "db", "api"}

type expT struct {
	kind int // 0 nil pointer, 1 zero time, 2 at unit e
	e    int
}

func (x expT) tick() string {
	switch x.kind {
	case 0:
		return "~"
	case 1:
		return "0"
	}
	return strconv.Itoa(baseTick + 8*x.e)
}
func (x expT) time(t0 time.Time) *time.Time {
	switch x.kind {
	case 0:
		return nil
	case 1:
		return &time.Time{}
	}
	t := t0.Add(time.Duration(x.e) * unit)
	return &t
}

type xtoken struct {
	secret, accessor string
	exp              expT
	grants           []string
	link             int // 0 service identities, 1 a policy link, 2 a role link (remote mode only)
}

func (t xtoken) enc() string {
	return hx.EncS(t.secret) + " " + hx.EncS(t.accessor) + " " + t.exp.tick() + " " + hx.EncSList(t.grants) + " " + strconv.Itoa(t.link)
}
func (t xtoken) encRound() string {
	return hx.EncS(t.secret) + ";" + hx.EncS(t.accessor) + ";" + t.exp.tick() + ";" + join("|", mapS(t.grants, hx.EncS)) + ";" + strconv.Itoa(t.link)
}
func linkID(prefix string, grants []string) string { return prefix + strings.Join(grants, "+") }
func grantsOfID(id string) []string {
	id = id[2:]
	if id == "" {
		return nil
	}
	return strings.Split(id, "+")
}
func (t xtoken) build(t0 time.Time) *structs.ACLToken {
	tok := &structs.ACLToken{AccessorID: t.accessor, SecretID: t.secret, ExpirationTime: t.exp.time(t0)}
	switch t.link {
	case 1:
		tok.Policies = []structs.ACLTokenPolicyLink{{ID: linkID("p-", t.grants)}}
	case 2:
		tok.Roles = []structs.ACLTokenRoleLink{{ID: linkID("r-", t.grants)}}
	default:
		for _, g := range t.grants {
			tok.ServiceIdentities = append(tok.ServiceIdentities, &structs.ACLServiceIdentity{ServiceName: g})
		}
	}
	return tok
}

type xround struct {
	rpc   string // found foreign notfound error
	tok   xtoken
	nfErr bool
	link  string // ok notfound denied error
}

func (r xround) enc() string {
	if r.rpc == "found" {
		return "found;" + r.tok.encRound() + ";" + r.link
	}
	return r.rpc + ";" + r.link
}

type xop struct {
	kind   string // put del res mask read list reap
	unit   int
	tok    xtoken // put
	secret string
	ep     string   // res: t p r
	meta   bool     // res t: through ResolveTokenAndDefaultMeta
	rounds []xround // remote mode (res: 5 rounds; mask: 1 round)
	flag   bool
}

type xcase struct {
	mode string // remote server raft
	ttlK int
	down string
	ops  []xop
}

func (c *xcase) server() bool { return c.mode != "remote" }

// fakeBackend: a client agent's view — nothing local; identities, roles and policies come from the
// primary by RPC. The answers are scripted per loop round: round k is the one in which the k-th
// link RPC (ACL.PolicyResolve / ACL.RoleResolve) is made.
type fakeBackend struct {
	mu        sync.Mutex
	rounds    []xround
	linkCalls int
	t0        time.Time
	bad       string
}

func (b *fakeBackend) ACLDatacenter() string { return "dc1" }
func (b *fakeBackend) ResolveIdentityFromToken(string) (bool, structs.ACLIdentity, error) {
	return false, nil, nil
}
func (b *fakeBackend) ResolvePolicyFromID(string) (bool, *structs.ACLPolicy, error) {
	return false, nil, nil
}
func (b *fakeBackend) ResolveRoleFromID(string) (bool, *structs.ACLRole, error) {
	return false, nil, nil
}
func (b *fakeBackend) IsServerManagementToken(string) bool { return false }

func linkErr(ans string) error {
	switch ans {
	case "notfound":
		return acl.ErrNotFound
	case "denied":
		return acl.ErrPermissionDenied
	case "error":
		return errors.New("connection refused")
	}
	return nil
}

func (b *fakeBackend) RPC(_ context.Context, method string, args interface{}, reply interface{}) error {
	b.mu.Lock()
	defer b.mu.Unlock()
	if b.linkCalls >= len(b.rounds) {
		b.bad = "more rounds than scripted"
		return errors.New("script exhausted")
	}
	rd := b.rounds[b.linkCalls]
	switch method {
	case "ACL.TokenRead":
		resp := reply.(*structs.ACLTokenResponse)
		switch rd.rpc {
		case "found":
			resp.Token, resp.SourceDatacenter = rd.tok.build(b.t0), "dc1"
			return nil
		case "foreign":
			resp.Token, resp.SourceDatacenter = rd.tok.build(b.t0), "dc2"
			resp.Token.Local = true
			return nil
		case "notfound":
			if rd.nfErr {
				return acl.ErrNotFound
			}
			return nil
		}
		return errors.New("connection refused")
	case "ACL.PolicyResolve":
		b.linkCalls++
		if err := linkErr(rd.link); err != nil {
			return err
		}
		resp := reply.(*structs.ACLPolicyBatchResponse)
		for _, id := range args.(*structs.ACLPolicyBatchGetRequest).PolicyIDs {
			var rules strings.Builder
			for _, g := range grantsOfID(id) {
				fmt.Fprintf(&rules, "service %q { policy = \"write\" }\n", g)
			}
			p := &structs.ACLPolicy{ID: id, Name: id, Rules: rules.String()}
			p.SetHash(true)
			resp.Policies = append(resp.Policies, p)
		}
		return nil
	case "ACL.RoleResolve":
		b.linkCalls++
		if err := linkErr(rd.link); err != nil {
			return err
		}
		resp := reply.(*structs.ACLRoleBatchResponse)
		for _, id := range args.(*structs.ACLRoleBatchGetRequest).RoleIDs {
			ro := &structs.ACLRole{ID: id, Name: id}
			for _, g := range grantsOfID(id) {
				ro.ServiceIdentities = append(ro.ServiceIdentities, &structs.ACLServiceIdentity{ServiceName: g})
			}
			ro.SetHash(true)
			resp.Roles = append(resp.Roles, ro)
		}
		return nil
	}
	b.bad = "unexpected RPC " + method
	return errors.New(b.bad)
}

func genExp(r *hx.RNG) expT {
	switch x := r.Intn(100); {
	case x < 14:
		return expT{kind: 0}
	case x < 19:
		return expT{kind: 1}
	default:
		return expT{2, hx.Pick(r, []int{-100, 0, 1, 1, 2, 2, 3, 4, 1000})}
	}
}
func genGrants(r *hx.RNG) []string {
	var g []string
	for _, n := range grantNames {
		if r.Chance(45) {
			g = append(g, n)
		}
	}
	return g
}

func genRound(r *hx.RNG, t xtoken, links, linkErrors bool) xround {
	rd := xround{rpc: hx.Pick(r, []string{"found", "found", "found", "found", "found", "notfound", "notfound", "error", "error", "error", "foreign"}),
		tok: t, nfErr: r.Bool(), link: "ok"}
	if links {
		rd.link = hx.Pick(r, []string{"ok", "ok", "ok", "denied", "denied", "denied", "denied", "notfound", "error"})
		if rd.link == "error" && !linkErrors {
			rd.link = "denied"
		}
		if r.Chance(50) {
			rd.rpc = "found"
		}
	}
	return rd
}

func genXCase(r *hx.RNG, mode string) *xcase {
	c := &xcase{mode: mode, ttlK: hx.Pick(r, []int{0, 1, 1, 2, 100}),
		down: hx.Pick(r, []string{"allow", "deny", "extend-cache", "extend-cache", "async-cache"})}
	// role / policy links are followed by RPC only in remote mode; their cache-assisted variants
	// (extend-cache / async-cache reuse of expired link entries) are C08's subject: link answers are
	// generated only where the outcome does not depend on the link caches
	// (a link answer "error" only without extend-cache; no links at all with async-cache, which answers
	// from expired link entries without waiting)
	links := mode == "remote" && c.down != "async-cache" && r.Chance(75)
	linkErrors := c.down == "allow" || c.down == "deny"
	genLink := func() int {
		if links && r.Chance(65) {
			return 1 + r.Intn(2)
		}
		return 0
	}
	pool := map[string]xtoken{
		"s1":       {"s1", accOf["s1"], genExp(r), genGrants(r), genLink()},
		"s2":       {"s2", accOf["s2"], genExp(r), genGrants(r), genLink()},
		"s3":       {"s3", accOf["s3"], genExp(r), genGrants(r), 0},
		"s4":       {"s4", accOf["s4"], genExp(r), genGrants(r), 0},
		anonSecret: {anonSecret, anonAccessor, expT{kind: 0}, genGrants(r), 0},
	}
	if r.Chance(10) && mode != "raft" { // (the builtin anonymous token cannot be given an expiration through the API; the reaper could not delete it)
		t := pool[anonSecret]
		t.exp = genExp(r)
		pool[anonSecret] = t
	}
	secrets := []string{"s1", "s1", "s1", "s2", "s2", anonSecret}
	if mode == "raft" {
		secrets = []string{"s1", "s2", "s3", "s4"}
	}
	u := 0
	if c.server() {
		c.ops = append(c.ops, xop{kind: "put", tok: pool[anonSecret]})
		if mode == "raft" {
			c.ops = append(c.ops, xop{kind: "put", tok: xtoken{mgmtSecret, mgmtAccessor, expT{kind: 0}, nil, 0}})
			for _, s := range []string{"s1", "s2", "s3", "s4"} {
				if r.Chance(75) {
					c.ops = append(c.ops, xop{kind: "put", tok: pool[s]})
				}
			}
		} else {
			c.ops = append(c.ops, xop{kind: "put", tok: pool["s1"]})
			if r.Bool() {
				c.ops = append(c.ops, xop{kind: "put", tok: pool["s2"]})
			}
		}
	}
	for n := 3 + r.Intn(5); n > 0; n-- {
		if r.Chance(55) && u < 5 {
			u += 1 + r.Intn(2)
		}
		s := hx.Pick(r, secrets)
		op := xop{unit: u, secret: s, flag: !r.Chance(15), ep: "t", meta: r.Bool()}
		x := r.Intn(100)
		switch {
		case mode == "raft" && x < 20:
			op.kind = "reap"
		case mode == "raft" && x < 40:
			op.kind = "list"
		case mode == "raft" && x < 60:
			op.kind = "read"
		case c.server() && x < 75 && mode == "raft" || c.server() && x < 25:
			t := pool[s]
			if r.Chance(50) {
				t.exp = genExp(r)
			}
			if r.Chance(30) {
				t.grants = genGrants(r)
			}
			pool[s] = t
			op.kind, op.tok = "put", t
		case c.server() && x < 35 && s != anonSecret:
			op.kind = "del"
		case x < 85 || mode == "raft":
			op.kind = "res"
			if y := r.Intn(100); y < 20 {
				op.ep = "p"
			} else if y < 40 {
				op.ep = "r"
			}
		default:
			op.kind = "mask"
			if r.Chance(25) {
				op.secret = ""
			}
		}
		if mode == "remote" && (op.kind == "res" || op.kind == "mask") {
			t := pool[s]
			if r.Chance(30) {
				t.exp = genExp(r)
				pool[s] = t
			}
			nr := 5
			if op.kind == "mask" {
				nr = 1
			}
			for k := 0; k < nr; k++ {
				rd := genRound(r, t, links && t.link != 0, linkErrors)
				if op.secret == "" || k > 0 && r.Chance(70) {
					rd.rpc = "found"
				}
				if k > 0 && r.Chance(25) { // the token changed at the primary between rounds
					rd.tok.exp = genExp(r)
				}
				op.rounds = append(op.rounds, rd)
			}
		}
		c.ops = append(c.ops, op)
	}
	return c
}

type xresult struct {
	lines [][2]string
	tags  []string
	viol  [][2]string // sig, desc
	ok    bool
}

func newFSM() *fsm.FSM {
	return fsm.NewFromDeps(fsm.Deps{
		Logger:         hclog.NewNullLogger(),
		NewStateStore:  func() *state.Store { return state.NewStateStore(nil) },
		StorageBackend: fsm.NullStorageBackend,
	})
}

type xenv struct {
	env *consul.VerifACLEnv
	f   *fsm.FSM
	fb  *fakeBackend
}

// prepareX builds a fresh resolver for the case (CPU heavy: done before the timed part).
func prepareX(c *xcase) *xenv {
	ttl := time.Duration(c.ttlK)*unit + unit/2
	settings := consul.ACLResolverSettings{ACLsEnabled: true, Datacenter: "dc1", NodeName: "n1",
		ACLPolicyTTL: 30 * time.Second, ACLRoleTTL: 30 * time.Second, ACLTokenTTL: ttl,
		ACLDownPolicy: c.down, ACLDefaultPolicy: "deny"}
	x := &xenv{}
	var err error
	switch c.mode {
	case "remote":
		// links are re-fetched on every resolution: their outcome is the scripted answer alone
		settings.ACLPolicyTTL, settings.ACLRoleTTL = 0, 0
		x.fb = &fakeBackend{}
		x.env, err = consul.VerifNewACLEnv(nil, x.fb, settings)
	case "server":
		x.f = newFSM()
		x.env, err = consul.VerifNewACLEnv(x.f, nil, settings)
	case "raft":
		x.f = newFSM()
		x.env, err = consul.VerifNewACLRaftEnv(x.f, settings)
		if err == nil {
			err = x.f.State().ACLPolicySet(5, &structs.ACLPolicy{ID: mgmtPolicyID, Name: "mgmt", Rules: `acl = "write"`})
		}
	}
	if err != nil {
		panic(err)
	}
	return x
}

func (x *xenv) close() {
	if x != nil && x.env != nil {
		x.env.Shutdown()
	}
}

func storedAccessors(st *state.Store) map[string]*structs.ACLToken {
	_, toks, err := st.ACLTokenList(nil, true, true, "", "", "", nil, nil)
	if err != nil {
		panic(err)
	}
	m := map[string]*structs.ACLToken{}
	for _, t := range toks {
		m[t.AccessorID] = t
	}
	return m
}

func expiredBefore(t *time.Time, at time.Time) bool { return t != nil && !t.IsZero() && t.Before(at) }

// runXCase executes one sequence on its fresh resolver along the time line starting at t0.
// ok=false: a timing bracket failed.
func runXCase(c *xcase, x *xenv, t0 time.Time) (res xresult) {
	env, f, fb := x.env, x.f, x.fb
	emit := func(op, out string) { res.lines = append(res.lines, [2]string{op, out}) }
	viol := func(sig, desc string) { res.viol = append(res.viol, [2]string{sig, desc}) }
	emit(fmt.Sprintf("x-begin %s %d %s", hx.EncBool(c.server()), 8*c.ttlK+4, c.down), "ok")
	if fb != nil {
		fb.t0 = t0
	}
	idx := uint64(10)
	mode := c.mode
	for i := range c.ops {
		op := &c.ops[i]
		switch op.kind {
		case "put":
			idx++
			tok := op.tok.build(t0)
			if op.tok.secret == mgmtSecret {
				tok.Policies = []structs.ACLTokenPolicyLink{{ID: mgmtPolicyID}}
			}
			var err error
			if mode == "raft" {
				err = env.RaftApply(structs.ACLTokenSetRequestType, &structs.ACLTokenBatchSetRequest{Tokens: structs.ACLTokens{tok}})
			} else {
				err = f.State().ACLTokenSet(idx, tok)
			}
			if err != nil {
				panic(err)
			}
			emit("x-put "+op.tok.enc(), "ok")
			continue
		case "del":
			idx++
			var err error
			if mode == "raft" {
				err = env.RaftApply(structs.ACLTokenDeleteRequestType, &structs.ACLTokenBatchDeleteRequest{TokenIDs: []string{accOf[op.secret]}})
			} else {
				err = f.State().ACLTokenDeleteByAccessor(idx, accOf[op.secret], nil)
			}
			if err != nil && !errors.Is(err, acl.ErrNotFound) {
				panic(err)
			}
			emit("x-del "+hx.EncS(op.secret), "ok")
			res.tags = append(res.tags, "x:op:delete")
			continue
		}
		target := t0.Add(time.Duration(op.unit)*unit + unit/2)
		if d := time.Until(target); d > 0 {
			time.Sleep(d)
		}
		if fb != nil {
			fb.mu.Lock()
			fb.rounds, fb.linkCalls = op.rounds, 0
			fb.mu.Unlock()
		}
		now := baseTick + 8*op.unit + 4
		script := ""
		for _, rd := range op.rounds {
			script += " " + rd.enc()
		}
		tb := time.Now()
		var line, out string
		switch op.kind {
		case "res":
			line = fmt.Sprintf("x-res %d %s %s%s", now, op.ep, hx.EncS(op.secret), script)
			if op.ep == "t" {
				var r resolver.Result
				var err error
				if op.meta {
					r, err = env.ResolveTokenAndDefaultMeta(op.secret)
				} else {
					r, err = env.ResolveToken(op.secret)
				}
				switch {
				case err != nil && acl.IsErrNotFound(err):
					out = "notfound"
				case err != nil && acl.IsErrPermissionDenied(err):
					out = "denied"
				case err != nil:
					out = "err:" + strings.ReplaceAll(err.Error(), " ", "_")
				case r.ACLIdentity != nil && r.ACLIdentity.ID() == "primary-dc-down":
					out = "down " + hx.EncBool(r.Authorizer.ServiceWrite("web", nil) == acl.Allow)
				default:
					var g []string
					for _, n := range grantNames {
						if r.Authorizer.ServiceWrite(n, nil) == acl.Allow {
							g = append(g, n)
						}
					}
					out = "granted " + hx.EncS(r.ACLIdentity.ID()) + " " + hx.EncSList(g)
					// monitor: the identity that was honoured must not have expired before the call began
					if tok, ok := r.ACLIdentity.(*structs.ACLToken); ok && expiredBefore(tok.ExpirationTime, tb) {
						viol("expiry:expired-token-honoured:"+mode,
							fmt.Sprintf("token %s expired %v before the call yet resolved to an authorizer granting %v (down policy %s, ttl %d units, link %d)",
								tok.AccessorID, tb.Sub(*tok.ExpirationTime), g, c.down, c.ttlK, op.rounds0link()))
					}
				}
			} else {
				var id structs.ACLIdentity
				var err error
				if op.ep == "p" {
					id, err = env.ResolvePolicies(op.secret)
				} else {
					id, err = env.ResolveRoles(op.secret)
				}
				switch {
				case err != nil && acl.IsErrNotFound(err):
					out = "notfound"
				case err != nil && consul.VerifIsRemoteError(err): // may wrap a permission-denied answer of the primary
					out = "remote"
				case err != nil && acl.IsErrPermissionDenied(err):
					out = "denied"
				case err != nil:
					out = "err:" + strings.ReplaceAll(err.Error(), " ", "_")
				case id == nil:
					out = "err:nil-identity"
				default:
					out = "ok " + hx.EncS(id.ID())
					if tok, ok := id.(*structs.ACLToken); ok && expiredBefore(tok.ExpirationTime, tb) {
						viol("expiry:expired-token-honoured:"+mode+":"+op.ep, fmt.Sprintf("token %s expired %v before the call yet its %s were resolved",
							tok.AccessorID, tb.Sub(*tok.ExpirationTime), map[string]string{"p": "policies", "r": "roles"}[op.ep]))
					}
				}
			}
			res.tags = append(res.tags, "x:"+mode+":"+op.ep+":"+strings.SplitN(out, " ", 2)[0])
			if fb != nil {
				fb.mu.Lock()
				res.tags = append(res.tags, fmt.Sprintf("x:link-rpcs-in-one-resolution=%d", fb.linkCalls))
				if fb.bad != "" {
					viol("expiry:harness-script", fb.bad)
				}
				fb.mu.Unlock()
			}
		case "mask":
			got := env.Mask(op.secret, op.flag)
			rpc := ""
			if mode == "remote" {
				rd := op.rounds[0]
				rpc = " " + rd.rpc
				if rd.rpc == "found" {
					rpc += " " + rd.tok.enc()
				}
			}
			line = fmt.Sprintf("x-mask %d %s %s%s", now, hx.EncS(op.secret), hx.EncBool(op.flag), rpc)
			out = hx.EncBool(got)
			if got && (op.secret == "" || op.secret == anonSecret || !op.flag) {
				viol("mask:filtered-flag-visible-without-token",
					fmt.Sprintf("token %q, incoming flag %v: caller sees ResultsFilteredByACLs=true", op.secret, op.flag))
			}
			switch {
			case op.secret == "":
				res.tags = append(res.tags, "x:mask:no-token")
			case op.secret == anonSecret:
				res.tags = append(res.tags, "x:mask:anonymous")
			default:
				res.tags = append(res.tags, "x:mask:token->"+out)
			}
		case "read":
			tok, err := env.TokenRead(op.secret)
			line = fmt.Sprintf("x-read %d %s", now, hx.EncS(op.secret))
			switch {
			case err != nil && acl.IsErrNotFound(err):
				out = "notfound"
			case err != nil:
				out = "err:" + strings.ReplaceAll(err.Error(), " ", "_")
			default:
				out = "found " + hx.EncS(tok.AccessorID)
				if expiredBefore(tok.ExpirationTime, tb) {
					viol("endpoint:token-read-returned-expired-token", fmt.Sprintf("ACL.TokenRead returned %s, expired %v before the call", tok.AccessorID, tb.Sub(*tok.ExpirationTime)))
				}
			}
			res.tags = append(res.tags, "x:read:"+strings.SplitN(out, " ", 2)[0])
		case "list":
			stubs, err := env.TokenList(mgmtSecret)
			line = fmt.Sprintf("x-list %d", now)
			if err != nil {
				out = "err:" + strings.ReplaceAll(err.Error(), " ", "_")
				break
			}
			var acc []string
			for _, s := range stubs {
				acc = append(acc, s.AccessorID)
				if expiredBefore(s.ExpirationTime, tb) {
					viol("endpoint:token-list-returned-expired-token", fmt.Sprintf("ACL.TokenList returned %s, expired before the call", s.AccessorID))
				}
			}
			sort.Strings(acc)
			out = hx.EncSList(acc)
			res.tags = append(res.tags, fmt.Sprintf("x:list:%d-of-%d-stored", len(acc), len(storedAccessors(f.State()))))
		case "reap":
			before := storedAccessors(f.State())
			n, err := env.Reap()
			if err != nil {
				line, out = fmt.Sprintf("x-reap %d -", now), "err:"+strings.ReplaceAll(err.Error(), " ", "_")
				break
			}
			after := storedAccessors(f.State())
			var reaped []string
			for a, t := range before {
				if after[a] == nil {
					reaped = append(reaped, a)
					// monitor: the reaper deletes nothing that is still valid
					if !expiredBefore(t.ExpirationTime, time.Now()) {
						viol("reaper:deleted-unexpired-token", fmt.Sprintf("reaper deleted %s whose expiration %v is not in the past", a, t.ExpirationTime))
					}
				}
			}
			sort.Strings(reaped)
			if n != len(reaped) {
				viol("reaper:count-differs", fmt.Sprintf("reaper reported %d, %d tokens disappeared", n, len(reaped)))
			}
			// everything expired for more than a second (the index granularity) must be gone
			for a, t := range after {
				if t.ExpirationTime != nil && !t.ExpirationTime.IsZero() && t.ExpirationTime.Before(tb.Add(-1100*time.Millisecond)) {
					viol("reaper:left-long-expired-token", fmt.Sprintf("%s expired more than a second ago and survived a reaper run", a))
				}
			}
			line, out = fmt.Sprintf("x-reap %d %s", now, hx.EncSList(reaped)), "ok"
			res.tags = append(res.tags, fmt.Sprintf("x:reap:deleted=%d", len(reaped)))
		}
		if mode == "remote" && c.down == "async-cache" && op.secret != "" {
			env.WaitIdentityFetch(op.secret) // the background fetch stamps the cache entry: keep it inside the bracket
		}
		ta := time.Now()
		if tb.Before(target.Add(-window)) || ta.After(target.Add(window)) {
			if os.Getenv("C09_DEBUG_TIMING") != "" {
				fmt.Fprintf(os.Stderr, "timing: op %d kind %s mode %s wake-late %v call %v\n", i, op.kind, mode, tb.Sub(target), ta.Sub(tb))
			}
			return xresult{ok: false}
		}
		emit(line, out)
		res.tags = append(res.tags, fmt.Sprintf("x:unit=%d", op.unit))
	}
	res.ok = true
	return
}

func (op *xop) rounds0link() int {
	if len(op.rounds) > 0 {
		return op.rounds[0].tok.link
	}
	return 0
}

func runExpiry(run *hx.Run) {
	n := run.Scale(400, 4000)
	nRaft := run.Scale(60, 500)
	cases := make([]*xcase, 0, n+nRaft)
	for i := 0; i < n; i++ {
		r := run.RNG.Fork(uint64(7_000_000 + i))
		mode := "remote"
		if r.Chance(35) {
			mode = "server"
		}
		cases = append(cases, genXCase(r, mode))
	}
	for i := 0; i < nRaft; i++ {
		cases = append(cases, genXCase(run.RNG.Fork(uint64(9_000_000+i)), "raft"))
	}
	n = len(cases)
	results := make([]xresult, n)
	retries := make([]int, n)
	todo := make([]int, n)
	for i := range todo {
		todo[i] = i
	}
	const batch = 128
	for round := 0; len(todo) > 0 && round < 400; round++ {
		cur := todo
		if len(cur) > batch {
			cur = cur[:batch]
		}
		todo = todo[len(cur):]
		envs := make([]*xenv, len(cur))
		var wg sync.WaitGroup
		sem := make(chan struct{}, 8)
		for k, i := range cur { // phase 1: build the resolvers
			wg.Add(1)
			sem <- struct{}{}
			go func(k, i int) {
				defer wg.Done()
				defer func() { <-sem }()
				envs[k] = prepareX(cases[i])
			}(k, i)
		}
		wg.Wait()
		t0 := time.Now().Add(10 * time.Millisecond)
		for k, i := range cur { // phase 2: all time lines of the batch run together; only the calls under test execute
			wg.Add(1)
			go func(k, i int) {
				defer wg.Done()
				// staggered time lines: the calls of different cases do not pile up on one instant
				results[i] = runXCase(cases[i], envs[k], t0.Add(time.Duration(k)*2500*time.Microsecond))
				envs[k].close()
			}(k, i)
		}
		wg.Wait()
		for _, i := range cur {
			if !results[i].ok && retries[i] < 10 {
				retries[i]++
				todo = append(todo, i)
			}
		}
	}
	gaveUp, totalRetries := 0, 0
	for i, res := range results {
		totalRetries += retries[i]
		if !res.ok {
			gaveUp++
			continue
		}
		var ops []string
		for _, l := range res.lines {
			run.Line(l[0], l[1])
			ops = append(ops, l[0])
		}
		for _, t := range res.tags {
			run.Tag(t)
		}
		for _, v := range res.viol {
			violate(run, v[0], v[1], ops)
		}
		c := cases[i]
		run.Tag("x:mode:" + c.mode)
		run.Tag("x:down:" + c.down)
		run.Tag(fmt.Sprintf("x:ttl-units:%d", c.ttlK))
		run.Case(strings.Join(ops, "\n"), true)
	}
	run.Extra["expiry_timing_retries"] = totalRetries
	run.Extra["expiry_cases_given_up"] = gaveUp
	if gaveUp*10 > n {
		violate(run, "expiry:timing-unusable", fmt.Sprintf("%d of %d expiry cases could not be timed", gaveUp, n), nil)
	}
}
