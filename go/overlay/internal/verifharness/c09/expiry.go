//go:build verif

package main

import (
	"context"
	"errors"
	"fmt"
	"os"
	"strconv"
	"strings"
	"sync"
	"time"

	"github.com/hashicorp/go-hclog"

	"github.com/hashicorp/consul/acl"
	"github.com/hashicorp/consul/agent/consul"
	"github.com/hashicorp/consul/agent/consul/fsm"
	"github.com/hashicorp/consul/agent/consul/state"
	"github.com/hashicorp/consul/agent/structs"
	"github.com/hashicorp/consul/internal/verifharness/hx"
)

// Real time is used (the code calls time.Now() directly). A case lives on its own time line that
// starts at t0; one "unit" is 80 ms = 8 model ticks. Operations run in the middle of a unit (tick
// 8v+4, checked by bracketing the call with two clock readings, window +-16 ms), token expiries sit on
// unit boundaries (tick 8e) and the cache TTL is k units and a half (tick 8k+4), so every comparison
// the code makes (ExpirationTime.Before(now), Age() <= TTL) has a margin of >= 24 ms on either side.
// A case whose timing bracket fails is re-run from scratch.
const (
	unit     = 80 * time.Millisecond
	window   = 16 * time.Millisecond
	baseTick = 1000
)

const (
	anonAccessor = "00000000-0000-0000-0000-000000000002"
	anonSecret   = "anonymous"
)

var accOf = map[string]string{"s1": "aaaaaaaa-0000-0000-0000-000000000001", "s2": "aaaaaaaa-0000-0000-0000-000000000002"}

var grantNames = []string{"web", "db", "api"}

type expT struct {
	kind int // 0 nil pointer, 1 zero time, 2 at unit e
	e    int
}

func (x expT) tick() string {
	switch x.kind {
	case 0:
		return "~"
	case 1:
		return "0"
	}
	return strconv.Itoa(baseTick + 8*x.e)
}
func (x expT) time(t0 time.Time) *time.Time {
	switch x.kind {
	case 0:
		return nil
	case 1:
		return &time.Time{}
	}
	t := t0.Add(time.Duration(x.e) * unit)
	return &t
}

type xtoken struct {
	secret, accessor string
	exp              expT
	grants           []string
}

func (t xtoken) enc() string {
	return hx.EncS(t.secret) + " " + hx.EncS(t.accessor) + " " + t.exp.tick() + " " + hx.EncSList(t.grants)
}
func (t xtoken) build(t0 time.Time) *structs.ACLToken {
	tok := &structs.ACLToken{AccessorID: t.accessor, SecretID: t.secret, ExpirationTime: t.exp.time(t0)}
	for _, g := range t.grants {
		tok.ServiceIdentities = append(tok.ServiceIdentities, &structs.ACLServiceIdentity{ServiceName: g})
	}
	return tok
}

type xop struct {
	kind   string // put del res mask
	unit   int
	tok    xtoken // put, or the token an RPC "found" answers with
	secret string
	rpc    string // found foreign notfound error (remote mode)
	nfErr  bool   // notfound reported as error rather than as empty reply
	flag   bool
}

type xcase struct {
	server bool
	ttlK   int
	down   string
	ops    []xop
}

// fakeBackend: a client agent's view — nothing local, identities come from the primary by RPC.
type fakeBackend struct {
	mu  sync.Mutex
	op  *xop
	t0  time.Time
	rpc int
}

func (b *fakeBackend) ACLDatacenter() string { return "dc1" }
func (b *fakeBackend) ResolveIdentityFromToken(string) (bool, structs.ACLIdentity, error) {
	return false, nil, nil
}
func (b *fakeBackend) ResolvePolicyFromID(string) (bool, *structs.ACLPolicy, error) {
	return true, nil, acl.ErrNotFound
}
func (b *fakeBackend) ResolveRoleFromID(string) (bool, *structs.ACLRole, error) {
	return true, nil, acl.ErrNotFound
}
func (b *fakeBackend) IsServerManagementToken(string) bool { return false }
func (b *fakeBackend) RPC(_ context.Context, method string, _ interface{}, reply interface{}) error {
	b.mu.Lock()
	defer b.mu.Unlock()
	b.rpc++
	if method != "ACL.TokenRead" {
		return fmt.Errorf("unexpected RPC %s", method)
	}
	resp := reply.(*structs.ACLTokenResponse)
	switch b.op.rpc {
	case "found":
		resp.Token, resp.SourceDatacenter = b.op.tok.build(b.t0), "dc1"
		return nil
	case "foreign":
		resp.Token, resp.SourceDatacenter = b.op.tok.build(b.t0), "dc2"
		resp.Token.Local = true
		return nil
	case "notfound":
		if b.op.nfErr {
			return acl.ErrNotFound
		}
		return nil
	}
	return errors.New("connection refused")
}

func genExp(r *hx.RNG) expT {
	switch x := r.Intn(100); {
	case x < 14:
		return expT{kind: 0}
	case x < 19:
		return expT{kind: 1}
	default:
		return expT{2, hx.Pick(r, []int{-100, 0, 1, 1, 2, 2, 3, 4, 1000})}
	}
}
func genGrants(r *hx.RNG) []string {
	var g []string
	for _, n := range grantNames {
		if r.Chance(45) {
			g = append(g, n)
		}
	}
	return g
}

func genXCase(r *hx.RNG) *xcase {
	c := &xcase{server: r.Chance(40), ttlK: hx.Pick(r, []int{0, 1, 1, 2, 100}),
		down: hx.Pick(r, []string{"allow", "deny", "extend-cache", "extend-cache", "async-cache"})}
	pool := map[string]xtoken{
		"s1":       {"s1", accOf["s1"], genExp(r), genGrants(r)},
		"s2":       {"s2", accOf["s2"], genExp(r), genGrants(r)},
		anonSecret: {anonSecret, anonAccessor, expT{kind: 0}, genGrants(r)},
	}
	if r.Chance(10) {
		t := pool[anonSecret]
		t.exp = genExp(r)
		pool[anonSecret] = t
	}
	secrets := []string{"s1", "s1", "s1", "s2", "s2", anonSecret}
	u := 0
	if c.server {
		c.ops = append(c.ops, xop{kind: "put", tok: pool[anonSecret]})
		c.ops = append(c.ops, xop{kind: "put", tok: pool["s1"]})
		if r.Bool() {
			c.ops = append(c.ops, xop{kind: "put", tok: pool["s2"]})
		}
	}
	present := map[string]bool{anonSecret: true}
	for n := 3 + r.Intn(5); n > 0; n-- {
		if r.Chance(55) && u < 5 {
			u += 1 + r.Intn(2)
		}
		s := hx.Pick(r, secrets)
		op := xop{unit: u, secret: s, flag: !r.Chance(15)}
		x := r.Intn(100)
		switch {
		case c.server && x < 25:
			t := pool[s]
			if r.Chance(50) {
				t.exp = genExp(r)
			}
			if r.Chance(30) {
				t.grants = genGrants(r)
			}
			pool[s] = t
			op.kind, op.tok = "put", t
		case c.server && x < 35 && s != anonSecret:
			op.kind = "del"
		case x < 85:
			op.kind = "res"
		default:
			op.kind = "mask"
			if r.Chance(25) {
				op.secret = ""
			}
		}
		if !c.server && (op.kind == "res" || op.kind == "mask") {
			op.rpc = hx.Pick(r, []string{"found", "found", "found", "found", "found", "notfound", "notfound", "error", "error", "error", "foreign"})
			if op.secret == "" {
				op.rpc = "found"
			}
			t := pool[s]
			if r.Chance(30) {
				t.exp = genExp(r)
				pool[s] = t
			}
			op.tok = t
			op.nfErr = r.Bool()
		}
		_ = present
		c.ops = append(c.ops, op)
	}
	return c
}

type xresult struct {
	lines [][2]string
	tags  []string
	viol  [][2]string // sig, desc
	ok    bool
}

func newFSM() *fsm.FSM {
	return fsm.NewFromDeps(fsm.Deps{
		Logger:         hclog.NewNullLogger(),
		NewStateStore:  func() *state.Store { return state.NewStateStore(nil) },
		StorageBackend: fsm.NullStorageBackend,
	})
}

func modeName(server bool) string {
	if server {
		return "server"
	}
	return "remote"
}

type xenv struct {
	env *consul.VerifACLEnv
	f   *fsm.FSM
	fb  *fakeBackend
}

// prepareX builds a fresh resolver for the case (CPU heavy: done before the timed part).
func prepareX(c *xcase) *xenv {
	ttl := time.Duration(c.ttlK)*unit + unit/2
	settings := consul.ACLResolverSettings{ACLsEnabled: true, Datacenter: "dc1", NodeName: "n1",
		ACLPolicyTTL: 30 * time.Second, ACLRoleTTL: 30 * time.Second, ACLTokenTTL: ttl,
		ACLDownPolicy: c.down, ACLDefaultPolicy: "deny"}
	x := &xenv{}
	var backend consul.ACLResolverBackend
	if c.server {
		x.f = newFSM()
	} else {
		x.fb = &fakeBackend{}
		backend = x.fb
	}
	env, err := consul.VerifNewACLEnv(x.f, backend, settings)
	if err != nil {
		panic(err)
	}
	x.env = env
	return x
}

// runXCase executes one sequence on its fresh resolver along the time line starting at t0.
// ok=false: a timing bracket failed.
func runXCase(c *xcase, x *xenv, t0 time.Time) (res xresult) {
	env, f, fb := x.env, x.f, x.fb
	emit := func(op, out string) { res.lines = append(res.lines, [2]string{op, out}) }
	emit(fmt.Sprintf("x-begin %s %d %s", hx.EncBool(c.server), 8*c.ttlK+4, c.down), "ok")
	if fb != nil {
		fb.t0 = t0
	}
	idx := uint64(10)
	mode := modeName(c.server)
	for i := range c.ops {
		op := &c.ops[i]
		switch op.kind {
		case "put":
			idx++
			if err := f.State().ACLTokenSet(idx, op.tok.build(t0)); err != nil {
				panic(err)
			}
			emit("x-put "+op.tok.enc(), "ok")
			continue
		case "del":
			idx++
			acc := accOf[op.secret]
			if err := f.State().ACLTokenDeleteByAccessor(idx, acc, nil); err != nil && !errors.Is(err, acl.ErrNotFound) {
				panic(err)
			}
			emit("x-del "+hx.EncS(op.secret), "ok")
			res.tags = append(res.tags, "x:op:delete(reap)")
			continue
		}
		target := t0.Add(time.Duration(op.unit)*unit + unit/2)
		if d := time.Until(target); d > 0 {
			time.Sleep(d)
		}
		if fb != nil {
			fb.mu.Lock()
			fb.op = op
			fb.mu.Unlock()
		}
		now := baseTick + 8*op.unit + 4
		rpc := ""
		if !c.server {
			rpc = " " + op.rpc
			if op.rpc == "found" {
				rpc += " " + op.tok.enc()
			}
		}
		tb := time.Now()
		var line, out string
		switch op.kind {
		case "res":
			r, err := env.ResolveToken(op.secret)
			line = fmt.Sprintf("x-res %d %s%s", now, hx.EncS(op.secret), rpc)
			switch {
			case err != nil && acl.IsErrNotFound(err):
				out = "notfound"
			case err != nil:
				out = "err:" + strings.ReplaceAll(err.Error(), " ", "_")
			case r.ACLIdentity != nil && r.ACLIdentity.ID() == "primary-dc-down":
				out = "down " + hx.EncBool(r.Authorizer.ServiceWrite("web", nil) == acl.Allow)
			default:
				var g []string
				for _, n := range grantNames {
					if r.Authorizer.ServiceWrite(n, nil) == acl.Allow {
						g = append(g, n)
					}
				}
				out = "granted " + hx.EncS(r.ACLIdentity.ID()) + " " + hx.EncSList(g)
				// monitor: the identity that was honoured must not have expired before the call began
				if tok, ok := r.ACLIdentity.(*structs.ACLToken); ok && tok.ExpirationTime != nil && !tok.ExpirationTime.IsZero() &&
					tok.ExpirationTime.Before(tb) {
					res.viol = append(res.viol, [2]string{"expiry:expired-token-honoured:" + mode,
						fmt.Sprintf("token %s expired %v before the call yet resolved to an authorizer granting %v (down policy %s, ttl %d units)",
							tok.AccessorID, tb.Sub(*tok.ExpirationTime), g, c.down, c.ttlK)})
				}
			}
			res.tags = append(res.tags, "x:"+mode+":"+strings.SplitN(out, " ", 2)[0])
		case "mask":
			got := env.Mask(op.secret, op.flag)
			line = fmt.Sprintf("x-mask %d %s %s%s", now, hx.EncS(op.secret), hx.EncBool(op.flag), rpc)
			out = hx.EncBool(got)
			if got && (op.secret == "" || op.secret == anonSecret || !op.flag) {
				res.viol = append(res.viol, [2]string{"mask:filtered-flag-visible-without-token",
					fmt.Sprintf("token %q, incoming flag %v: caller sees ResultsFilteredByACLs=true", op.secret, op.flag)})
			}
			switch {
			case op.secret == "":
				res.tags = append(res.tags, "x:mask:no-token")
			case op.secret == anonSecret:
				res.tags = append(res.tags, "x:mask:anonymous")
			default:
				res.tags = append(res.tags, "x:mask:token->"+out)
			}
		}
		if !c.server && c.down == "async-cache" && op.secret != "" {
			env.WaitIdentityFetch(op.secret) // the background fetch stamps the cache entry: keep it inside the bracket
		}
		ta := time.Now()
		if tb.Before(target.Add(-window)) || ta.After(target.Add(window)) {
			if os.Getenv("C09_DEBUG_TIMING") != "" {
				fmt.Fprintf(os.Stderr, "timing: op %d kind %s mode %s wake-late %v call %v\n", i, op.kind, mode, tb.Sub(target), ta.Sub(tb))
			}
			return xresult{ok: false}
		}
		emit(line, out)
		if op.tok.exp.kind == 2 || c.server {
			res.tags = append(res.tags, fmt.Sprintf("x:unit=%d", op.unit))
		}
	}
	res.ok = true
	return
}

func runExpiry(run *hx.Run) {
	n := run.Scale(400, 4000)
	cases := make([]*xcase, n)
	for i := range cases {
		cases[i] = genXCase(run.RNG.Fork(uint64(7_000_000 + i)))
	}
	results := make([]xresult, n)
	retries := make([]int, n)
	todo := make([]int, n)
	for i := range todo {
		todo[i] = i
	}
	const batch = 128
	for round := 0; len(todo) > 0 && round < 200; round++ {
		cur := todo
		if len(cur) > batch {
			cur = cur[:batch]
		}
		todo = todo[len(cur):]
		envs := make([]*xenv, len(cur))
		var wg sync.WaitGroup
		sem := make(chan struct{}, 8)
		for k, i := range cur { // phase 1: build the resolvers
			wg.Add(1)
			sem <- struct{}{}
			go func(k, i int) {
				defer wg.Done()
				defer func() { <-sem }()
				envs[k] = prepareX(cases[i])
			}(k, i)
		}
		wg.Wait()
		t0 := time.Now().Add(10 * time.Millisecond)
		for k, i := range cur { // phase 2: all time lines of the batch run together; only the calls under test execute
			wg.Add(1)
			go func(k, i int) {
				defer wg.Done()
				// staggered time lines: the calls of different cases do not pile up on one instant
				results[i] = runXCase(cases[i], envs[k], t0.Add(time.Duration(k)*2500*time.Microsecond))
			}(k, i)
		}
		wg.Wait()
		for _, i := range cur {
			if !results[i].ok && retries[i] < 10 {
				retries[i]++
				todo = append(todo, i)
			}
		}
	}
	gaveUp, totalRetries := 0, 0
	for i, res := range results {
		totalRetries += retries[i]
		if !res.ok {
			gaveUp++
			continue
		}
		var ops []string
		for _, l := range res.lines {
			run.Line(l[0], l[1])
			ops = append(ops, l[0])
		}
		for _, t := range res.tags {
			run.Tag(t)
		}
		for _, v := range res.viol {
			violate(run, v[0], v[1], ops)
		}
		c := cases[i]
		run.Tag("x:mode:" + modeName(c.server))
		run.Tag("x:down:" + c.down)
		run.Tag(fmt.Sprintf("x:ttl-units:%d", c.ttlK))
		run.Case(strings.Join(ops, "\n"), true)
	}
	run.Extra["expiry_timing_retries"] = totalRetries
	run.Extra["expiry_cases_given_up"] = gaveUp
	if gaveUp*10 > n {
		violate(run, "expiry:timing-unusable", fmt.Sprintf("%d of %d expiry cases could not be timed", gaveUp, n), nil)
	}
}
