//go:build verif

package main

import (
	"fmt"
	"strconv"
	"strings"

	"github.com/hashicorp/consul/internal/verifharness/hx"
)

// ---------------------------------------------------------------- intermediate representation
// (names + ids only; what the Lean model sees)

type nodeEnt struct {
	node string
	id   int
}
type svcEnt struct {
	node, svc string
	id        int
}
type csnT struct {
	node, svc *string
	id        int
}
type ixnT struct {
	src  string
	peer bool
	dst  string
	id   int
}
type gwT struct {
	gw, svc string
	id      int
}
type svcInfoT struct {
	gs   *[2]string
	node *string
	id   int
}
type subT struct {
	name string
	id   int
}
type nodeInfoT struct {
	node       string
	id         int
	svcs, chks []subT
}
type pqT struct {
	name string
	tmpl bool
	tok  int // 0 empty, 1 set, 2 redacted
	id   int
}
type aclT struct{ id, secret int }
type txnT struct {
	kind byte // k n s c e
	a, b string
	id   int
}
type nsEnt struct {
	key, name string
	id        int
}
type keyedCSN struct {
	key string
	xs  []csnT
}
type keyedNames struct {
	key string
	xs  []string
}

// payload: sparse union over all response shapes
type payload struct {
	flag, fb bool
	csn      [3][]csnT
	topoNil  bool
	dc       []keyedCSN
	exported []keyedNames
	nodes    []nodeEnt
	svcs     []svcEnt
	ixns     []ixnT
	names    []string
	dump     [2][]nodeInfoT
	infos    []svcInfoT
	nsNil    bool
	nsNode   *string
	ns       []nsEnt
	subs     []subT
	pqs      []pqT
	acls     []*aclT
	gws      []gwT
	txns     []txnT
}

// ---------------------------------------------------------------- encoders (lean/CV/Engine/C09.lean)

func join(sep string, t []string) string {
	if len(t) == 0 {
		return "-"
	}
	return strings.Join(t, sep)
}
func encOpt(s *string) string {
	if s == nil {
		return "~"
	}
	return hx.EncS(*s)
}
func mapS[T any](xs []T, f func(T) string) []string {
	t := make([]string, len(xs))
	for i, x := range xs {
		t[i] = f(x)
	}
	return t
}
func encNodes(xs []nodeEnt) string {
	return join(",", mapS(xs, func(c nodeEnt) string { return hx.EncS(c.node) + ";" + strconv.Itoa(c.id) }))
}
func encSvcs(xs []svcEnt) string {
	return join(",", mapS(xs, func(c svcEnt) string { return hx.EncS(c.node) + ";" + hx.EncS(c.svc) + ";" + strconv.Itoa(c.id) }))
}
func encCSNs(ls, fs string, xs []csnT) string {
	return join(ls, mapS(xs, func(c csnT) string { return encOpt(c.node) + fs + encOpt(c.svc) + fs + strconv.Itoa(c.id) }))
}
func encIxns(xs []ixnT) string {
	return join(",", mapS(xs, func(x ixnT) string {
		return hx.EncS(x.src) + ";" + hx.EncBool(x.peer) + ";" + hx.EncS(x.dst) + ";" + strconv.Itoa(x.id)
	}))
}
func encGws(xs []gwT) string {
	return join(",", mapS(xs, func(g gwT) string { return hx.EncS(g.gw) + ";" + hx.EncS(g.svc) + ";" + strconv.Itoa(g.id) }))
}
func encInfos(xs []svcInfoT) string {
	return join(",", mapS(xs, func(s svcInfoT) string {
		g := "~;~"
		if s.gs != nil {
			g = hx.EncS(s.gs[0]) + ";" + hx.EncS(s.gs[1])
		}
		return g + ";" + encOpt(s.node) + ";" + strconv.Itoa(s.id)
	}))
}
func encSubs(ls, fs string, xs []subT) string {
	return join(ls, mapS(xs, func(s subT) string { return hx.EncS(s.name) + fs + strconv.Itoa(s.id) }))
}
func encDump(xs []nodeInfoT) string {
	return join(",", mapS(xs, func(x nodeInfoT) string {
		return hx.EncS(x.node) + ";" + strconv.Itoa(x.id) + ";" + encSubs("|", "+", x.svcs) + ";" + encSubs("|", "+", x.chks)
	}))
}
func encPQ(q pqT) string {
	return hx.EncS(q.name) + ";" + hx.EncBool(q.tmpl) + ";" + strconv.Itoa(q.tok) + ";" + strconv.Itoa(q.id)
}
func encAcl(o *aclT) string {
	if o == nil {
		return "~"
	}
	return fmt.Sprintf("%d;%d", o.id, o.secret)
}
func encTxns(xs []txnT) string {
	return join(",", mapS(xs, func(t txnT) string {
		switch t.kind {
		case 'c':
			return "c;" + hx.EncS(t.a) + ";" + hx.EncS(t.b) + ";" + strconv.Itoa(t.id)
		case 'e':
			return "e;~;~;" + strconv.Itoa(t.id)
		}
		return string(t.kind) + ";" + hx.EncS(t.a) + ";~;" + strconv.Itoa(t.id)
	}))
}
func encNames(ls string, xs []string) string { return join(ls, mapS(xs, hx.EncS)) }

// enc prints a payload (input or output) as the argument tokens of type key ty.
func enc(ty string, p *payload) string {
	f := hx.EncBool(p.flag)
	switch ty {
	case "CheckServiceNodes":
		return encCSNs(",", ";", p.csn[0])
	case "IndexedCheckServiceNodes", "PreparedQueryExecuteResponse":
		return f + " " + encCSNs(",", ";", p.csn[0])
	case "IndexedServiceTopology":
		if p.topoNil {
			return hx.EncBool(p.fb) + " " + f + " ~"
		}
		return hx.EncBool(p.fb) + " " + f + " " + encCSNs(",", ";", p.csn[0]) + " " + encCSNs(",", ";", p.csn[1])
	case "DatacenterIndexedCheckServiceNodes":
		return f + " " + join(",", mapS(p.dc, func(e keyedCSN) string { return hx.EncS(e.key) + ";" + encCSNs("|", "+", e.xs) }))
	case "IndexedCoordinates", "IndexedNodes", "IndexedSessions":
		return f + " " + encNodes(p.nodes)
	case "IndexedHealthChecks", "IndexedServiceNodes":
		return f + " " + encSvcs(p.svcs)
	case "IndexedIntentions":
		return f + " " + encIxns(p.ixns)
	case "IntentionQueryMatch":
		return encNames(",", p.names)
	case "IndexedNodeDump":
		return f + " " + encDump(p.dump[0]) + " " + encDump(p.dump[1])
	case "IndexedServiceDump":
		return f + " " + encInfos(p.infos)
	case "IndexedNodeServices":
		if p.nsNil {
			return f + " ~"
		}
		return f + " " + hx.EncS(*p.nsNode) + " " + join(",", mapS(p.ns, func(e nsEnt) string {
			return hx.EncS(e.key) + ";" + hx.EncS(e.name) + ";" + strconv.Itoa(e.id)
		}))
	case "IndexedNodeServiceList":
		return f + " " + encOpt(p.nsNode) + " " + encSubs(",", ";", p.subs)
	case "IndexedServices":
		return f + " " + encSubs(",", ";", p.subs)
	case "IndexedPreparedQueries":
		return f + " " + join(",", mapS(p.pqs, encPQ))
	case "PtrPreparedQuery":
		return encPQ(p.pqs[0])
	case "IndexedServiceList":
		return f + " " + encNames(",", p.names)
	case "IndexedExportedServiceList":
		return f + " " + join(",", mapS(p.exported, func(e keyedNames) string { return hx.EncS(e.key) + ";" + encNames("|", e.xs) }))
	case "IndexedGatewayServices":
		return f + " " + encGws(p.gws)
	case "IndexedNodesWithGateways":
		return f + " " + encCSNs(",", ";", p.csn[0]) + " " + encGws(p.gws) + " " + encCSNs(",", ";", p.csn[1])
	case "DirEntries":
		return encSubs(",", ";", p.subs)
	case "TxnResults":
		return encTxns(p.txns)
	}
	if k, ok := aclKinds[ty]; ok {
		if k.list {
			return join(",", mapS(p.acls, encAcl))
		}
		return encAcl(p.acls[0])
	}
	panic("enc: unknown type " + ty)
}

type aclKind struct {
	kind   string
	list   bool
	secret bool
}

var aclKinds = map[string]aclKind{
	"ACLTokens": {"token", true, true}, "PtrACLToken": {"token", false, true},
	"ACLTokenListStubs": {"stub", true, true}, "PtrACLTokenListStub": {"stub", false, true},
	"ACLPolicies": {"policy", true, false}, "PtrACLPolicy": {"policy", false, false},
	"ACLRoles": {"role", true, false}, "PtrACLRole": {"role", false, false},
	"ACLBindingRules": {"brule", true, false}, "PtrACLBindingRule": {"brule", false, false},
	"ACLAuthMethods": {"method", true, false}, "PtrACLAuthMethod": {"method", false, false},
}

// typeTable: every case of the Filter.Filter type switch (Go spelling) -> protocol key.
var typeTable = [][2]string{
	{"*structs.CheckServiceNodes", "CheckServiceNodes"},
	{"*structs.IndexedCheckServiceNodes", "IndexedCheckServiceNodes"},
	{"*structs.PreparedQueryExecuteResponse", "PreparedQueryExecuteResponse"},
	{"*structs.IndexedServiceTopology", "IndexedServiceTopology"},
	{"*structs.DatacenterIndexedCheckServiceNodes", "DatacenterIndexedCheckServiceNodes"},
	{"*structs.IndexedCoordinates", "IndexedCoordinates"},
	{"*structs.IndexedHealthChecks", "IndexedHealthChecks"},
	{"*structs.IndexedIntentions", "IndexedIntentions"},
	{"*structs.IntentionQueryMatch", "IntentionQueryMatch"},
	{"*structs.IndexedNodeDump", "IndexedNodeDump"},
	{"*structs.IndexedServiceDump", "IndexedServiceDump"},
	{"*structs.IndexedNodes", "IndexedNodes"},
	{"*structs.IndexedNodeServices", "IndexedNodeServices"},
	{"*structs.IndexedNodeServiceList", "IndexedNodeServiceList"},
	{"*structs.IndexedServiceNodes", "IndexedServiceNodes"},
	{"*structs.IndexedServices", "IndexedServices"},
	{"*structs.IndexedSessions", "IndexedSessions"},
	{"*structs.IndexedPreparedQueries", "IndexedPreparedQueries"},
	{"**structs.PreparedQuery", "PtrPreparedQuery"},
	{"*structs.ACLTokens", "ACLTokens"},
	{"**structs.ACLToken", "PtrACLToken"},
	{"*[]*structs.ACLTokenListStub", "ACLTokenListStubs"},
	{"**structs.ACLTokenListStub", "PtrACLTokenListStub"},
	{"*structs.ACLPolicies", "ACLPolicies"},
	{"**structs.ACLPolicy", "PtrACLPolicy"},
	{"*structs.ACLRoles", "ACLRoles"},
	{"**structs.ACLRole", "PtrACLRole"},
	{"*structs.ACLBindingRules", "ACLBindingRules"},
	{"**structs.ACLBindingRule", "PtrACLBindingRule"},
	{"*structs.ACLAuthMethods", "ACLAuthMethods"},
	{"**structs.ACLAuthMethod", "PtrACLAuthMethod"},
	{"*structs.IndexedServiceList", "IndexedServiceList"},
	{"*structs.IndexedExportedServiceList", "IndexedExportedServiceList"},
	{"*structs.IndexedGatewayServices", "IndexedGatewayServices"},
	{"*structs.IndexedNodesWithGateways", "IndexedNodesWithGateways"},
}

// the slice filters of agent/consul/filter.go
var extraTypes = []string{"DirEntries", "TxnResults"}

// ---------------------------------------------------------------- generators

type gen struct {
	r      *hx.RNG
	nextID int
	malf   bool   // allow inputs on which the code panics (nil pointers)
	noPeer bool   // never generate imported (peered) entries
	peerPct int   // chance (percent) that an entry that can be imported is
	nodeKind, subKind byte
	nodePeerOK bool // the node entries of this response type have a PeerName
	z      *authz // the authorizer the case will be filtered with (only to bias names towards mixed outcomes)
}

// nameFor picks a name; in 55% of the draws one the authorizer lets read for that kind (if any), so
// that entries needing two permissions are not almost always dropped.
func (g *gen) nameFor(kind byte, nonEmpty bool) string { return g.nameForP(kind, nonEmpty, false) }

// peered: decide whether the next entry is an imported one.
func (g *gen) peered() bool { return !g.noPeer && g.r.Chance(g.peerPct) }

// nameForP: peered = the name of an imported node / service ("<name>@<peer>"; an imported entry's
// service name may still be empty: node-level check).
func (g *gen) nameForP(kind byte, nonEmpty, peered bool) string {
	lo := 0
	if nonEmpty {
		lo = 1
	}
	cands := names[lo:]
	if peered {
		cands = append([]string(nil), peerNames...)
		if !nonEmpty {
			cands = append(cands, "")
		}
	}
	if g.z != nil && g.r.Chance(55) {
		var ok []string
		for _, n := range cands {
			var y bool
			switch kind {
			case 'n':
				y = g.z.node(n)
			case 's':
				y = g.z.svcOpt(n)
			case 'e':
				y = g.z.session(n)
			case 'k':
				y = g.z.key(n)
			case 'i':
				y = g.z.ixn(n)
			case 'q':
				y = g.z.query(n)
			}
			if y {
				ok = append(ok, n)
			}
		}
		if len(ok) > 0 {
			return ok[g.r.Intn(len(ok))]
		}
	}
	return cands[g.r.Intn(len(cands))]
}

func (g *gen) id() int { g.nextID++; return g.nextID }
func (g *gen) name() string {
	return names[g.r.Intn(len(names))]
}
func (g *gen) nonEmpty() string { return names[1+g.r.Intn(len(names)-1)] }
func (g *gen) n() int {
	switch x := g.r.Intn(20); {
	case x == 0:
		return 0
	case x < 3:
		return 1
	default:
		return 2 + g.r.Intn(5)
	}
}
func sp(s string) *string { return &s }

func (g *gen) csns() []csnT {
	var xs []csnT
	for i, n := 0, g.n(); i < n; i++ {
		pe := g.peered()
		// (CanRead asks ServiceRead even for an empty name, with the service's peer: the IR cannot say
		// "empty name of peer p", so imported entries always name their service)
		c := csnT{node: sp(g.nameForP('n', true, pe)), svc: sp(g.nameForP('s', pe, pe)), id: g.id()}
		if g.malf && g.r.Chance(12) {
			if g.r.Bool() {
				c.node = nil
			} else {
				c.svc = nil
			}
		}
		if len(xs) > 0 && g.r.Chance(15) { // duplicates
			c = xs[g.r.Intn(len(xs))]
		}
		xs = append(xs, c)
	}
	return xs
}
func (g *gen) nodeEnts() []nodeEnt {
	var xs []nodeEnt
	for i, n := 0, g.n(); i < n; i++ {
		c := nodeEnt{g.nameFor(g.nodeKind, false), g.id()}
		if g.nodePeerOK && g.peered() {
			c.node = g.nameForP('n', true, true)
		}
		if len(xs) > 0 && g.r.Chance(15) {
			c = xs[g.r.Intn(len(xs))]
		}
		xs = append(xs, c)
	}
	return xs
}
func (g *gen) svcEnts() []svcEnt {
	var xs []svcEnt
	for i, n := 0, g.n(); i < n; i++ {
		pe := g.peered()
		c := svcEnt{g.nameForP('n', true, pe), g.nameForP('s', false, pe), g.id()}
		if len(xs) > 0 && g.r.Chance(15) {
			c = xs[g.r.Intn(len(xs))]
		}
		xs = append(xs, c)
	}
	return xs
}
func (g *gen) subs() []subT { return g.subsP(false) }

// subsP: nested entries of a node; those of an imported node carry its peer.
func (g *gen) subsP(peered bool) []subT {
	var xs []subT
	for i, n := 0, g.n(); i < n; i++ {
		xs = append(xs, subT{g.nameForP(g.subKind, false, peered), g.id()})
	}
	return xs
}
func (g *gen) uniqueKeys(n int) []string {
	ks := append([]string(nil), names...)
	hx.Shuffle(g.r, ks)
	if n > len(ks) {
		n = len(ks)
	}
	return ks[:n]
}
func (g *gen) gws() []gwT {
	var xs []gwT
	for i, n := 0, g.n(); i < n; i++ {
		xs = append(xs, gwT{g.nameFor('s', false), g.nameFor('s', false), g.id()})
	}
	return xs
}
func (g *gen) dump() []nodeInfoT {
	var xs []nodeInfoT
	for i, n := 0, g.n(); i < n; i++ {
		pe := g.peered()
		x := nodeInfoT{node: g.nameForP('n', true, pe), id: g.id()}
		if g.r.Chance(80) {
			x.svcs = g.subsP(pe)
		}
		if g.r.Chance(80) {
			x.chks = g.subsP(pe)
		}
		xs = append(xs, x)
	}
	return xs
}

// generate builds a random payload for type key ty.
func (g *gen) generate(ty string) *payload {
	p := &payload{}
	g.nodeKind, g.subKind = 'n', 's'
	g.nodePeerOK = ty == "IndexedNodes"
	if g.peerPct == 0 {
		g.peerPct = 22
	}
	local, imported := g.peerPct, 80 // the "imported" halves of a response are mostly peered
	if ty == "IndexedSessions" {
		g.nodeKind = 'e'
	}
	if ty == "DirEntries" {
		g.subKind = 'k'
	}
	accum := ty == "IndexedServiceTopology" || ty == "IndexedNodeDump" || ty == "IndexedExportedServiceList" || ty == "IndexedNodesWithGateways"
	if g.r.Chance(10) { // incoming flag already set: "assign" and "only set" cases differ
		p.flag = true
		_ = accum
	}
	switch ty {
	case "CheckServiceNodes", "IndexedCheckServiceNodes", "PreparedQueryExecuteResponse":
		p.csn[0] = g.csns()
	case "IndexedServiceTopology":
		p.fb = g.r.Chance(10)
		if g.malf && g.r.Chance(20) {
			p.topoNil = true
		} else {
			p.csn[0], p.csn[1] = g.csns(), g.csns()
		}
	case "DatacenterIndexedCheckServiceNodes":
		for _, k := range g.uniqueKeys(g.r.Intn(4)) {
			p.dc = append(p.dc, keyedCSN{k, g.csns()})
		}
	case "IndexedCoordinates", "IndexedNodes", "IndexedSessions":
		p.nodes = g.nodeEnts()
	case "IndexedHealthChecks", "IndexedServiceNodes":
		p.svcs = g.svcEnts()
	case "IndexedIntentions":
		for i, n := 0, g.n(); i < n; i++ {
			p.ixns = append(p.ixns, ixnT{g.nameFor('i', false), g.r.Chance(20), g.nameFor('i', false), g.id()})
		}
	case "IntentionQueryMatch":
		for i, n := 0, g.n(); i < n; i++ {
			p.names = append(p.names, g.nameFor('i', false))
		}
	case "IndexedNodeDump":
		p.dump[0] = g.dump()
		if g.r.Chance(60) {
			g.peerPct = imported
			p.dump[1] = g.dump()
			g.peerPct = local
		}
	case "IndexedServiceDump":
		for i, n := 0, g.n(); i < n; i++ {
			s := svcInfoT{gs: &[2]string{g.nameFor('s', false), g.nameFor('s', false)}, id: g.id()}
			if g.r.Chance(70) {
				s.node = sp(g.nameForP('n', true, g.peered()))
			}
			if g.malf && g.r.Chance(12) {
				s.gs = nil
			}
			p.infos = append(p.infos, s)
		}
	case "IndexedNodeServices":
		if g.r.Chance(10) {
			p.nsNil = true
		} else {
			pe := g.peered()
			p.nsNode = sp(g.nameForP('n', true, pe))
			idNeName := g.r.Chance(60) || pe // service registered under an ID different from its name
			for _, k := range g.uniqueKeys(g.n()) {
				if k == "" {
					continue // a service ID is never empty
				}
				e := nsEnt{key: k, name: k, id: g.id()}
				if idNeName && g.r.Chance(60) || pe {
					e.name = g.nameForP('s', true, pe)
				}
				p.ns = append(p.ns, e)
			}
		}
	case "IndexedNodeServiceList":
		pe := false
		if !g.r.Chance(10) {
			pe = g.peered()
			p.nsNode = sp(g.nameForP('n', true, pe))
		}
		p.subs = g.subsP(pe)
	case "IndexedServices":
		for _, k := range g.uniqueKeys(g.n()) {
			p.subs = append(p.subs, subT{k, g.id()})
		}
	case "IndexedPreparedQueries", "PtrPreparedQuery":
		n := g.n()
		if ty == "PtrPreparedQuery" {
			n = 1
		}
		for i := 0; i < n; i++ {
			q := pqT{name: g.nameFor('q', false), tmpl: g.r.Chance(20), tok: g.r.Intn(2), id: g.id()}
			p.pqs = append(p.pqs, q)
		}
	case "IndexedServiceList":
		for i, n := 0, g.n(); i < n; i++ {
			p.names = append(p.names, g.nameFor('s', false))
		}
	case "IndexedExportedServiceList":
		for _, k := range g.uniqueKeys(g.r.Intn(4)) {
			var xs []string
			for i, n := 0, g.n(); i < n; i++ {
				xs = append(xs, g.nameFor('s', false))
			}
			p.exported = append(p.exported, keyedNames{k, xs})
		}
	case "IndexedGatewayServices":
		p.gws = g.gws()
	case "IndexedNodesWithGateways":
		p.csn[0], p.gws = g.csns(), g.gws()
		if g.r.Chance(60) {
			g.peerPct = imported
			p.csn[1] = g.csns()
			g.peerPct = local
		}
	case "DirEntries":
		p.subs = g.subs()
	case "TxnResults":
		for i, n := 0, g.n(); i < n; i++ {
			t := txnT{kind: "knsce"[g.r.Intn(5)], id: g.id()}
			switch t.kind {
			case 'c':
				pe := g.peered()
				t.a, t.b = g.nameForP('n', true, pe), g.nameForP('s', false, pe)
			case 'e':
			default:
				t.a = g.nameFor(map[byte]byte{'k': 'k', 'n': 'n', 's': 's'}[t.kind], false)
				if t.kind != 'k' && g.peered() {
					t.a = g.nameForP(t.kind, true, true)
				}
			}
			p.txns = append(p.txns, t)
		}
	default:
		k, ok := aclKinds[ty]
		if !ok {
			panic("generate: unknown type " + ty)
		}
		n := 1
		if k.list {
			n = g.n()
		}
		for i := 0; i < n; i++ {
			if g.r.Chance(12) {
				p.acls = append(p.acls, nil)
			} else {
				p.acls = append(p.acls, &aclT{g.id(), 1})
			}
		}
	}
	return p
}
