//go:build verif

// C09 harness: ACL result filtering and token expiry.
//
// Part 1 (filter.go, types.go): for every case of the aclfilter.Filter type switch (and the two slice
// filters of agent/consul/filter.go) generated response contents x authorizers built from generated
// policies go through the REAL filter; the filtered response is printed in the canonical syntax of
// lean/CV/Engine/C09.lean for the Lean model to reproduce. Monitors (model independent): the output
// must equal an independent recomputation by a plain "keep what the token may read" filter that asks
// the real authorizer directly (permission by service NAME), and the ResultsFilteredByACLs flag must
// say exactly whether something was removed.
// Part 2 (expiry.go): token resolution through a real ACLResolver (state-store backed server, or a
// fake RPC backend with the identity cache) while real time passes the expiry of cached / unreaped
// tokens. Monitor: a granted identity is never one whose ExpirationTime lies before the call.
package main

import (
	"fmt"
	"strings"

	"github.com/hashicorp/consul/acl"
	"github.com/hashicorp/consul/internal/verifharness/hx"
)

// name universe: empty, case variants, a prefix-extension, a name that needs hex encoding
var names = []string{"", "web", "Web", "web-1", "db", "api", "n 1"}

type authz struct {
	a    acl.Authorizer
	desc string
	enc  string // "<table> <aclRead> <aclWrite>"
	r, w bool
}

// Imported (peered) nodes and services: the IR writes "<name>@<peer>"; the real objects carry the peer
// in their PeerName field and the authorizer is asked with AuthorizerContext.Peer set (it then
// decides by service:write-any / node- or service-read-all instead of by name).
const peerSuffix = "@p1"

var peerNames = []string{"web" + peerSuffix, "db" + peerSuffix}
var allNames = append(append([]string(nil), names...), peerNames...)

func splitPeer(s string) (name, peer string) {
	if strings.HasSuffix(s, peerSuffix) {
		return s[:len(s)-len(peerSuffix)], peerSuffix[1:]
	}
	return s, ""
}
func peerOf(s string) string { _, p := splitPeer(s); return p }
func baseOf(s string) string { n, _ := splitPeer(s); return n }
func joinPeer(name, peer string) string {
	if peer == "" || name == "" {
		return name
	}
	return name + "@" + peer
}

// peerCheck: an entry is imported as a whole — the harness only builds peer-consistent entries
// (a nested name is either empty or carries the peer of its node).
func peerCheck(node string, nested ...string) string {
	p := peerOf(node)
	for _, n := range nested {
		if n != "" && peerOf(n) != p {
			panic("harness: peer-inconsistent entry " + node + " / " + n)
		}
	}
	return p
}

func (z *authz) node(n string) bool {
	name, peer := splitPeer(n)
	return z.a.NodeRead(name, &acl.AuthorizerContext{Peer: peer}) == acl.Allow
}
func (z *authz) service(n string) bool {
	name, peer := splitPeer(n)
	return z.a.ServiceRead(name, &acl.AuthorizerContext{Peer: peer}) == acl.Allow
}
func (z *authz) session(n string) bool { return z.a.SessionRead(n, nil) == acl.Allow }
func (z *authz) key(n string) bool     { return z.a.KeyRead(n, nil) == acl.Allow }
func (z *authz) ixn(n string) bool     { return z.a.IntentionRead(n, nil) == acl.Allow }
func (z *authz) query(n string) bool   { return z.a.PreparedQueryRead(n, nil) == acl.Allow }

// svcOpt: the "empty service name means node level" convention
func (z *authz) svcOpt(n string) bool { return n == "" || z.service(n) }

func newAuthz(a acl.Authorizer, desc string) *authz {
	z := &authz{a: a, desc: desc}
	t := make([]string, len(allNames))
	for i, n := range allNames {
		t[i] = hx.EncS(n) + ";" + hx.EncBool(z.node(n)) + hx.EncBool(z.service(n)) + hx.EncBool(z.session(n)) +
			hx.EncBool(z.key(n)) + hx.EncBool(z.ixn(n)) + hx.EncBool(z.query(n))
	}
	z.r = a.ACLRead(nil) == acl.Allow
	z.w = a.ACLWrite(nil) == acl.Allow
	z.enc = hx.EncList(t) + " " + hx.EncBool(z.r) + " " + hx.EncBool(z.w)
	return z
}

var rulePrefixes = []string{"", "w", "web", "We", "d", "n", "a"}

// genPolicySource: per kind, about half of the universe names get an exact rule that flips the
// default (so that responses are typically filtered in part), plus a few prefix rules and rules of
// the default's own polarity that exercise precedence.
func genPolicySource(r *hx.RNG, defaultAllow bool) string {
	var b strings.Builder
	flip := func() string {
		switch {
		case r.Chance(12): // same polarity as the default
			if defaultAllow {
				return hx.Pick(r, []string{"read", "write"})
			}
			return "deny"
		case defaultAllow:
			return "deny"
		}
		return hx.Pick(r, []string{"read", "read", "write"})
	}
	rule := func(kind, head, name string) {
		fmt.Fprintf(&b, "%s %q {\n  policy = %q\n", head, name, flip())
		if kind == "service" && r.Chance(35) {
			fmt.Fprintf(&b, "  intentions = %q\n", hx.Pick(r, []string{"read", "write", "deny"}))
		}
		b.WriteString("}\n")
	}
	for _, kind := range []string{"node", "service", "session", "key", "query"} {
		if r.Chance(12) {
			continue // kind left to the default
		}
		for _, n := range names[1:] {
			if r.Chance(42) {
				rule(kind, kind, n)
			}
		}
		if r.Chance(30) {
			rule(kind, kind+"_prefix", hx.Pick(r, rulePrefixes))
		}
	}
	if r.Chance(60) {
		fmt.Fprintf(&b, "acl = %q\n", hx.Pick(r, []string{"read", "read", "write", "write", "deny"}))
	}
	return b.String()
}

// genAuthz builds a real authorizer: static ones, or a policy authorizer compiled from generated HCL.
func genAuthz(r *hx.RNG) *authz {
	switch x := r.Intn(100); {
	case x < 4:
		return newAuthz(acl.ManageAll(), "manage-all")
	case x < 7:
		return newAuthz(acl.AllowAll(), "allow-all")
	case x < 10:
		return newAuthz(acl.DenyAll(), "deny-all")
	}
	for {
		def, dn, da := acl.DenyAll(), "default-deny", false
		if r.Chance(45) {
			def, dn, da = acl.AllowAll(), "default-allow", true
		}
		src := genPolicySource(r, da)
		p, err := acl.NewPolicyFromSource(src, nil, nil)
		if err != nil {
			continue
		}
		a, err := acl.NewPolicyAuthorizerWithDefaults(def, []*acl.Policy{p}, nil)
		if err != nil {
			continue
		}
		return newAuthz(a, "policy/"+dn)
	}
}

// fixedAuthz: node "web" and service "web" readable, everything else denied (exhaustive arrangements).
func fixedAuthz() *authz {
	p, err := acl.NewPolicyFromSource("node \"web\" { policy = \"read\" }\nservice \"web\" { policy = \"read\" }\nsession \"web\" { policy = \"read\" }\nkey \"web\" { policy = \"read\" }\nquery \"web\" { policy = \"read\" }\n", nil, nil)
	if err != nil {
		panic(err)
	}
	a, err := acl.NewPolicyAuthorizerWithDefaults(acl.DenyAll(), []*acl.Policy{p}, nil)
	if err != nil {
		panic(err)
	}
	return newAuthz(a, "fixed")
}

func main() {
	run := hx.Start()
	run.Rule = "filter: output == independent keep-what-is-readable recomputation (by service name) and flag == something removed, for every case of the Filter type switch; expiry: a granted identity never has ExpirationTime before the call; mask: no token / anonymous never sees the flag"
	checkSwitchCoverage(run)
	runFilterCases(run)
	runExhaustive(run)
	runEndpoints(run)
	runIsExpired(run)
	runExpiry(run)
	run.Finish()
}

// violate records at most two witnesses per signature (hx keeps 50 violations in all: a flood of
// one signature must not crowd out the others); further hits are only counted.
var violSeen = map[string]int{}

func violate(run *hx.Run, sig, desc string, replay []string) {
	violSeen[sig]++
	if violSeen[sig] <= 2 {
		run.Violate(sig, desc, replay)
	} else {
		run.Tag("violation-repeats:" + sig)
	}
}
