//go:build verif

// C09 harness: ACL result filtering and token expiry.
//
// Part 1 (filter.go, types.go): for every case of the aclfilter.Filter type switch (and the two slice
// filters of agent/consul/filter.go) generated response contents x authorizers built from generated
// policies go through the REAL filter; the filtered response is printed in the canonical syntax of
// lean/CV/Engine/C09.lean for the Lean model to reproduce. Monitors (model independent): the output
// must equal an independent recomputation by a plain "keep what the token may read" filter that asks
// the real authorizer directly (permission by service NAME), and the ResultsFilteredByACLs flag must
// say exactly whether something was removed.
// Part 2 (expiry.go): token resolution through a real ACLResolver (state-store backed server, or a
// fake RPC backend with the identity cache) while real time passes the expiry of cached / unreaped
// tokens. Monitor: a granted identity is never one whose ExpirationTime lies before the call.
package main

import (
	"fmt"
	"strings"

	"github.com/hashicorp/consul/acl"
	"github.com/hashicorp/consul/internal/verifharness/hx"
)

// name universe: empty, case variants, a prefix-extension, a name that needs hex encoding
var names = []string{"", "web", "Web", "web-1", "db", "api", "n 1"}

type authz struct {
	a    acl.Authorizer
	desc string
	enc  string // "<table> <aclRead> <aclWrite>"
	r, w bool
}

func (z *authz) node(n string) bool    { return z.a.NodeRead(n, nil) == acl.Allow }
func (z *authz) service(n string) bool { return z.a.ServiceRead(n, nil) == acl.Allow }
func (z *authz) session(n string) bool { return z.a.SessionRead(n, nil) == acl.Allow }
func (z *authz) key(n string) bool     { return z.a.KeyRead(n, nil) == acl.Allow }
func (z *authz) ixn(n string) bool     { return z.a.IntentionRead(n, nil) == acl.Allow }
func (z *authz) query(n string) bool   { return z.a.PreparedQueryRead(n, nil) == acl.Allow }

// svcOpt: the "empty service name means node level" convention
func (z *authz) svcOpt(n string) bool { return n == "" || z.service(n) }

func newAuthz(a acl.Authorizer, desc string) *authz {
	z := &authz{a: a, desc: desc}
	t := make([]string, len(names))
	for i, n := range names {
		t[i] = hx.EncS(n) + ";" + hx.EncBool(z.node(n)) + hx.EncBool(z.service(n)) + hx.EncBool(z.session(n)) +
			hx.EncBool(z.key(n)) + hx.EncBool(z.ixn(n)) + hx.EncBool(z.query(n))
	}
	z.r = a.ACLRead(nil) == acl.Allow
	z.w = a.ACLWrite(nil) == acl.Allow
	z.enc = hx.EncList(t) + " " + hx.EncBool(z.r) + " " + hx.EncBool(z.w)
	return z
}

var rulePrefixes = []string{"", "w", "web", "We", "d", "n", "a"}

func genPolicySource(r *hx.RNG) string {
	var b strings.Builder
	n := 1 + r.Intn(6)
	for i := 0; i < n; i++ {
		kind := hx.Pick(r, []string{"node", "service", "service", "session", "key", "query", "node", "service"})
		pol := hx.Pick(r, []string{"read", "read", "write", "deny"})
		if r.Chance(45) {
			fmt.Fprintf(&b, "%s_prefix %q {\n  policy = %q\n", kind, hx.Pick(r, rulePrefixes), pol)
		} else {
			fmt.Fprintf(&b, "%s %q {\n  policy = %q\n", kind, names[1+r.Intn(len(names)-1)], pol)
		}
		if kind == "service" && r.Chance(40) {
			fmt.Fprintf(&b, "  intentions = %q\n", hx.Pick(r, []string{"read", "write", "deny"}))
		}
		b.WriteString("}\n")
	}
	if r.Chance(35) {
		fmt.Fprintf(&b, "acl = %q\n", hx.Pick(r, []string{"read", "write", "deny"}))
	}
	return b.String()
}

// genAuthz builds a real authorizer: static ones, or a policy authorizer compiled from generated HCL.
func genAuthz(r *hx.RNG) *authz {
	switch x := r.Intn(100); {
	case x < 6:
		return newAuthz(acl.ManageAll(), "manage-all")
	case x < 10:
		return newAuthz(acl.AllowAll(), "allow-all")
	case x < 14:
		return newAuthz(acl.DenyAll(), "deny-all")
	}
	for {
		src := genPolicySource(r)
		p, err := acl.NewPolicyFromSource(src, nil, nil)
		if err != nil {
			continue
		}
		def, dn := acl.DenyAll(), "default-deny"
		if r.Chance(30) {
			def, dn = acl.AllowAll(), "default-allow"
		}
		a, err := acl.NewPolicyAuthorizerWithDefaults(def, []*acl.Policy{p}, nil)
		if err != nil {
			continue
		}
		return newAuthz(a, "policy/"+dn)
	}
}

// fixedAuthz: node "web" and service "web" readable, everything else denied (exhaustive arrangements).
func fixedAuthz() *authz {
	p, err := acl.NewPolicyFromSource("node \"web\" { policy = \"read\" }\nservice \"web\" { policy = \"read\" }\nsession \"web\" { policy = \"read\" }\nkey \"web\" { policy = \"read\" }\nquery \"web\" { policy = \"read\" }\n", nil, nil)
	if err != nil {
		panic(err)
	}
	a, err := acl.NewPolicyAuthorizerWithDefaults(acl.DenyAll(), []*acl.Policy{p}, nil)
	if err != nil {
		panic(err)
	}
	return newAuthz(a, "fixed")
}

func main() {
	run := hx.Start()
	run.Rule = "filter: output == independent keep-what-is-readable recomputation (by service name) and flag == something removed, for every case of the Filter type switch; expiry: a granted identity never has ExpirationTime before the call; mask: no token / anonymous never sees the flag"
	checkSwitchCoverage(run)
	runFilterCases(run)
	runExhaustive(run)
	runExpiry(run)
	run.Finish()
}

// violate records at most two witnesses per signature (hx keeps 50 violations in all: a flood of
// one signature must not crowd out the others); further hits are only counted.
var violSeen = map[string]int{}

func violate(run *hx.Run, sig, desc string, replay []string) {
	violSeen[sig]++
	if violSeen[sig] <= 2 {
		run.Violate(sig, desc, replay)
	} else {
		run.Tag("violation-repeats:" + sig)
	}
}
