//go:build verif

package main

import (
	"fmt"
	"strconv"

	"github.com/hashicorp/serf/coordinate"

	"github.com/hashicorp/consul/acl"
	"github.com/hashicorp/consul/agent/consul"
	"github.com/hashicorp/consul/agent/structs"
	"github.com/hashicorp/consul/internal/verifharness/hx"
	ctypes "github.com/hashicorp/consul/types"
)

// Part 3: the endpoint glue. A partial Server (real Raft, real state store, real ACLResolver) is
// filled with a generated catalog / sessions / coordinates / KV entries and tokens whose policies are
// generated HCL; read endpoints run UNMODIFIED. Every endpoint is called with the management token
// (the unfiltered view U) and with restricted tokens (the view F). The line is the ordinary filter
// line `f <Type> <authorizer table of the restricted token> <U>` with F as the implementation's
// answer: the Lean model filters U and must arrive at F. That ties the endpoints' use of
// filterACL / filterACLWithAuthorizer / FilterDirEnt (called at all, on the right object, with the
// right token, before anything else trims the result) and of maskResultsFilteredByACLs to the model.
// Monitors (model independent): F == keep-what-the-token-may-read(U) with the flag set iff something
// was removed; the management token sees no flag; the anonymous token never sees the flag.

type world struct {
	env    *consul.VerifACLEnv
	tokens []string // restricted secrets
}

var epNodeNames = []string{"web", "web-1", "db", "api", "n 1"} // node names are case-insensitive in the catalog

const epAnonPolicy = "cccccccc-0000-0000-0000-000000000001"

func buildWorld(r *hx.RNG, defaultAllow bool) (*world, error) {
	def := "deny"
	if defaultAllow {
		def = "allow"
	}
	settings := consul.ACLResolverSettings{ACLsEnabled: true, Datacenter: "dc1", NodeName: "n1",
		ACLPolicyTTL: 0, ACLRoleTTL: 0, ACLTokenTTL: 0, ACLDownPolicy: "deny", ACLDefaultPolicy: def}
	f := newFSM()
	env, err := consul.VerifNewACLRaftEnv(f, settings)
	if err != nil {
		return nil, err
	}
	w := &world{env: env}
	st := f.State()
	idx := uint64(20)
	next := func() uint64 { idx++; return idx }
	must := func(err error) {
		if err != nil {
			panic(err)
		}
	}
	gm := &structs.ACLPolicy{ID: structs.ACLPolicyGlobalManagementID, Name: "global-management", Rules: structs.ACLPolicyGlobalManagementRules}
	gm.SetHash(true)
	must(st.ACLPolicySet(next(), gm))
	must(st.ACLTokenSet(next(), &structs.ACLToken{AccessorID: mgmtAccessor, SecretID: mgmtSecret,
		Policies: []structs.ACLTokenPolicyLink{{ID: structs.ACLPolicyGlobalManagementID}}}))
	addToken := func(secret, accessor, polID string) {
		for {
			src := genPolicySource(r, defaultAllow)
			if _, err := acl.NewPolicyFromSource(src, nil, nil); err != nil {
				continue
			}
			p := &structs.ACLPolicy{ID: polID, Name: "p-" + secret, Rules: src}
			p.SetHash(true)
			must(st.ACLPolicySet(next(), p))
			break
		}
		must(st.ACLTokenSet(next(), &structs.ACLToken{AccessorID: accessor, SecretID: secret, Policies: []structs.ACLTokenPolicyLink{{ID: polID}}}))
	}
	addToken(anonSecret, anonAccessor, epAnonPolicy)
	for i := 1; i <= 2; i++ {
		s := fmt.Sprintf("s%d", i)
		addToken(s, accOf[s], fmt.Sprintf("cccccccc-0000-0000-0000-0000000000%02d", 10+i))
		w.tokens = append(w.tokens, s)
	}
	// catalog
	id := 0
	nid := func() int { id++; return id }
	var nodes []string
	for _, n := range epNodeNames {
		if r.Chance(75) {
			nodes = append(nodes, n)
		}
	}
	for _, n := range nodes {
		must(st.EnsureNode(next(), &structs.Node{Node: n, Address: idS(nid())}))
		// service IDs come from the name universe (they are map keys of Catalog.NodeServices and must
		// differ from the service names they stand for); the identity travels in the port
		ids := append([]string(nil), names[1:]...)
		hx.Shuffle(r, ids)
		for k, m := 0, r.Intn(4); k < m; k++ {
			sid := nid()
			svc := &structs.NodeService{ID: ids[k], Service: names[1+r.Intn(len(names)-1)], Port: sid}
			must(st.EnsureService(next(), n, svc))
			for c, mc := 0, r.Intn(3); c < mc; c++ {
				must(st.EnsureCheck(next(), &structs.HealthCheck{Node: n, CheckID: ctypes.CheckID(idS(nid())), ServiceID: svc.ID, ServiceName: svc.Service, Status: "passing"}))
			}
		}
		for c, mc := 0, r.Intn(2); c < mc; c++ { // node-level checks
			must(st.EnsureCheck(next(), &structs.HealthCheck{Node: n, CheckID: ctypes.CheckID(idS(nid())), Status: "passing"}))
		}
		for k, m := 0, r.Intn(3); k < m; k++ {
			must(st.SessionCreate(next(), &structs.Session{ID: idS(nid()), Node: n, Behavior: structs.SessionKeysRelease}))
		}
		if r.Chance(70) {
			c := coordinate.NewCoordinate(coordinate.DefaultConfig())
			c.Vec[0] = float64(nid())
			must(st.CoordinateBatchUpdate(next(), structs.Coordinates{{Node: n, Coord: c}}))
		}
	}
	for _, k := range names[1:] {
		if r.Chance(70) {
			must(st.KVSSet(next(), &structs.DirEntry{Key: k, Flags: uint64(nid())}))
		}
	}
	return w, nil
}

type epCall struct {
	name string
	ty   string
	call func(w *world, tok string) (*payload, bool, error) // IR of the reply, its flag, error
}

func readNodeInfo(d structs.NodeDump) []nodeInfoT {
	var out []nodeInfoT
	for _, ni := range d {
		x := nodeInfoT{node: joinPeer(ni.Node, ni.PeerName), id: atoi(ni.Address)}
		for _, s := range ni.Services {
			x.svcs = append(x.svcs, subT{joinPeer(s.Service, s.PeerName), s.Port})
		}
		for _, c := range ni.Checks {
			x.chks = append(x.chks, subT{joinPeer(c.ServiceName, c.PeerName), atoi(string(c.CheckID))})
		}
		out = append(out, x)
	}
	return out
}

func epCalls(svcName, nodeName string) []epCall {
	return []epCall{
		{"Catalog.ListNodes", "IndexedNodes", func(w *world, tok string) (*payload, bool, error) {
			r, err := w.env.EpListNodes(tok)
			p := &payload{flag: r.ResultsFilteredByACLs}
			for _, n := range r.Nodes {
				p.nodes = append(p.nodes, nodeEnt{n.Node, atoi(n.Address)})
			}
			return p, p.flag, err
		}},
		{"Catalog.ServiceNodes", "IndexedServiceNodes", func(w *world, tok string) (*payload, bool, error) {
			r, err := w.env.EpServiceNodes(tok, svcName)
			p := &payload{flag: r.ResultsFilteredByACLs}
			for _, n := range r.ServiceNodes {
				p.svcs = append(p.svcs, svcEnt{n.Node, n.ServiceName, n.ServicePort})
			}
			return p, p.flag, err
		}},
		{"Catalog.NodeServices", "IndexedNodeServices", func(w *world, tok string) (*payload, bool, error) {
			r, err := w.env.EpNodeServices(tok, nodeName)
			p := &payload{flag: r.ResultsFilteredByACLs}
			if r.NodeServices == nil {
				p.nsNil = true
			} else {
				p.nsNode = sp(r.NodeServices.Node.Node)
				for k, s := range r.NodeServices.Services {
					p.ns = append(p.ns, nsEnt{k, s.Service, s.Port})
				}
			}
			return p, p.flag, err
		}},
		{"Health.ServiceNodes", "IndexedCheckServiceNodes", func(w *world, tok string) (*payload, bool, error) {
			r, err := w.env.EpHealthServiceNodes(tok, svcName)
			p := &payload{flag: r.ResultsFilteredByACLs}
			for _, c := range r.Nodes {
				p.csn[0] = append(p.csn[0], csnT{sp(c.Node.Node), sp(c.Service.Service), c.Service.Port})
			}
			return p, p.flag, err
		}},
		{"Health.ChecksInState", "IndexedHealthChecks", func(w *world, tok string) (*payload, bool, error) {
			r, err := w.env.EpChecksInState(tok)
			p := &payload{flag: r.ResultsFilteredByACLs}
			for _, c := range r.HealthChecks {
				p.svcs = append(p.svcs, svcEnt{c.Node, c.ServiceName, atoi(string(c.CheckID))})
			}
			return p, p.flag, err
		}},
		{"Session.List", "IndexedSessions", func(w *world, tok string) (*payload, bool, error) {
			r, err := w.env.EpSessionList(tok)
			p := &payload{flag: r.ResultsFilteredByACLs}
			for _, s := range r.Sessions {
				p.nodes = append(p.nodes, nodeEnt{s.Node, atoi(s.ID)})
			}
			return p, p.flag, err
		}},
		{"Coordinate.ListNodes", "IndexedCoordinates", func(w *world, tok string) (*payload, bool, error) {
			r, err := w.env.EpCoordinates(tok)
			p := &payload{flag: r.ResultsFilteredByACLs}
			for _, c := range r.Coordinates {
				p.nodes = append(p.nodes, nodeEnt{c.Node, int(c.Coord.Vec[0])})
			}
			return p, p.flag, err
		}},
		{"Internal.NodeDump", "IndexedNodeDump", func(w *world, tok string) (*payload, bool, error) {
			r, err := w.env.EpNodeDump(tok)
			p := &payload{flag: r.ResultsFilteredByACLs}
			p.dump[0], p.dump[1] = readNodeInfo(r.Dump), readNodeInfo(r.ImportedDump)
			return p, p.flag, err
		}},
		{"KVS.List", "DirEntries", func(w *world, tok string) (*payload, bool, error) {
			r, err := w.env.EpKVList(tok, "")
			p := &payload{}
			for _, e := range r.Entries {
				p.subs = append(p.subs, subT{e.Key, int(e.Flags)})
			}
			return p, r.ResultsFilteredByACLs, err
		}},
	}
}

func runEndpoints(run *hx.Run) {
	n := run.Scale(10, 60)
	for wi := 0; wi < n; wi++ {
		r := run.RNG.Fork(uint64(11_000_000 + wi))
		defaultAllow := r.Chance(40)
		w, err := buildWorld(r, defaultAllow)
		if err != nil {
			violate(run, "endpoint:harness-setup", err.Error(), nil)
			continue
		}
		svcName := names[1+r.Intn(len(names)-1)]
		nodeName := epNodeNames[r.Intn(len(epNodeNames))]
		for _, ep := range epCalls(svcName, nodeName) {
			u, uflag, err := ep.call(w, mgmtSecret)
			if err != nil {
				if acl.IsErrPermissionDenied(err) {
					continue
				}
				violate(run, "endpoint:"+ep.name+":management-call-failed", err.Error(), nil)
				continue
			}
			normalize(ep.ty, u)
			if uflag {
				violate(run, "endpoint:"+ep.name+":flag-set-for-management-token", "the management token may read everything", nil)
			}
			u.flag = false
			args := enc(ep.ty, u)
			for _, tok := range append(append([]string(nil), w.tokens...), "") {
				res, err := w.env.ResolveToken(tok)
				if err != nil {
					violate(run, "endpoint:harness-setup", "token "+tok+": "+err.Error(), nil)
					continue
				}
				z := newAuthz(res.Authorizer, "endpoint-token")
				fv, fflag, err := ep.call(w, tok)
				tag := "ep:" + ep.name
				if err != nil {
					// endpoints that refuse the whole request (KVS.List needs key:list on the prefix)
					if acl.IsErrPermissionDenied(err) {
						run.Tag(tag + ":permission-denied")
						continue
					}
					violate(run, "endpoint:"+ep.name+":call-failed", err.Error(), nil)
					continue
				}
				normalize(ep.ty, fv)
				want, _ := spec(ep.ty, u, z)
				wantFlag := want.flag
				if ep.ty == "DirEntries" {
					wantFlag = len(want.subs) != len(u.subs)
				}
				if tok == "" {
					// the anonymous caller: same content rule, but never told that something was hidden
					want.flag, fv.flag = false, false
					if fflag {
						violate(run, "endpoint:"+ep.name+":filtered-flag-visible-to-anonymous", "ResultsFilteredByACLs=true in a reply to a request without token", nil)
					}
					if got, w2 := enc(ep.ty, fv), enc(ep.ty, want); got != w2 {
						violate(run, "endpoint:"+ep.name+":anonymous-reply-differs-from-readable-part", fmt.Sprintf("got %q, readable part of %q is %q", got, args, w2), nil)
					}
					run.Tag(tag + ":anonymous")
					run.Case("ep "+ep.name+" anon "+args+" "+z.enc, true)
					continue
				}
				op := "f " + ep.ty + " " + z.enc + " " + args
				implOut := enc(ep.ty, fv)
				run.Line(op, implOut)
				if w2 := enc(ep.ty, want); implOut != w2 {
					violate(run, "endpoint:"+ep.name+":reply-differs-from-readable-part", fmt.Sprintf("got %q, the readable part of %q is %q", implOut, args, w2), []string{op})
				}
				if fflag != wantFlag {
					violate(run, "endpoint:"+ep.name+":flag-differs-from-something-removed", fmt.Sprintf("flag %v, removed %v", fflag, wantFlag), []string{op})
				}
				switch {
				case implOut == args:
					run.Tag(tag + ":nothing-removed")
				case size(fv) == 0:
					run.Tag(tag + ":everything-removed")
				default:
					run.Tag(tag + ":partly-removed")
				}
				run.Tag("ep:input-size:" + bucket(size(u)))
				run.Case(op, implOut != args)
			}
		}
		w.env.Shutdown()
	}
	run.Extra["endpoint_worlds"] = strconv.Itoa(n)
}
