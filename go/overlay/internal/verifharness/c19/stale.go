//go:build verif

// Stale-batch-read stream of the C19 harness. The round lists the primary's objects with one
// AllowStale RPC and fetches the objects it wants to upsert with a second one; with several
// primary servers the second may be answered by a server that lags behind the first. The export
// shim lets the harness make the real primary answer ACL.PolicyBatchRead / ACL.TokenBatchRead
// for chosen ids from an OLDER state (the object as stored after the "old" write phase, or
// nothing when it did not exist yet). Each case runs ONE real replicateACLType round, as a full
// sync (last = 0, or last above the remote index) or incrementally (last > 0).
//   model (CV.Repl.roundOpsStale …): predicts "round fails before any write" vs the writes made
//   monitor: a round that reports success must leave every object the secondary shares with the
//   primary, and whose remote ModifyIndex is at most the returned index, equal to the primary's
//   (what the next, incremental round relies on); a failing round must not have written anything.
package main

import (
	"context"
	"encoding/hex"
	"fmt"
	"sort"
	"strings"
	"time"

	"github.com/hashicorp/consul/agent/structs"
	"github.com/hashicorp/consul/internal/verifharness/hx"
)

func (e *env) staleRound(r *hx.RNG, k *kindOps, force bool) {
	run, vp := e.run, e.vp
	e.reset(k)
	ids := make([]string, 0, len(aclClasses))
	for _, c := range aclClasses {
		ids = append(ids, c[0])
	}
	hx.Shuffle(r, ids)
	ids = ids[:2+r.Intn(4)]

	type plan struct {
		id            string
		old           bool // exists after the old phase
		oldVal        int
		localCopy     bool
		action        string // modify | rewrite | keep | delete | create | create+modify
		newVal        int
		answeredStale bool
	}
	var ps []plan
	for i, id := range ids {
		p := plan{id: id, old: r.Chance(75), oldVal: r.Intn(len(contents)), answeredStale: r.Chance(60)}
		if p.old {
			p.localCopy = r.Chance(80)
			switch c := r.Intn(100); {
			case c < 50:
				p.action, p.newVal = "modify", (p.oldVal+1+r.Intn(len(contents)-1))%len(contents)
			case c < 65:
				p.action, p.newVal = "rewrite", p.oldVal
			case c < 90:
				p.action = "keep"
			default:
				p.action = "delete"
			}
		} else if r.Chance(30) {
			p.action, p.newVal = "create+modify", r.Intn(len(contents))
		} else {
			p.action, p.newVal = "create", r.Intn(len(contents))
		}
		if force && i == 0 { // the deterministic witness: a modified existing object, answered stale
			p.old, p.localCopy, p.action, p.newVal, p.answeredStale = true, true, "modify", (p.oldVal+1)%len(contents), true
		}
		ps = append(ps, p)
	}
	var oldSpecs, locSpecs []spec
	for _, p := range ps {
		if p.old {
			oldSpecs = append(oldSpecs, spec{id: p.id, val: p.oldVal})
			if p.localCopy {
				locSpecs = append(locSpecs, spec{id: p.id, val: p.oldVal})
			}
		}
	}
	e.writeSplit(r, k, false, oldSpecs)
	e.writeSplit(r, k, true, locSpecs)
	iA, err := vp.RemoteIndex(k.name)
	if err != nil {
		panic(err)
	}
	// the lagging server's state = the primary's state now
	oldPol := map[string]*structs.ACLPolicy{}
	oldTok := map[string]*structs.ACLToken{}
	oldObj := map[string]obj{}
	if k == policyOps {
		_, xs := mustState(vp.State(false).ACLPolicyList(nil, nil))
		for _, p := range xs {
			oldPol[p.ID] = p
		}
	} else {
		// nolint:staticcheck
		_, xs := mustState(vp.State(false).ACLTokenList(nil, false, true, "", "", "", nil, nil))
		for _, t := range xs {
			oldTok[t.AccessorID] = t
		}
	}
	for _, o := range k.list(vp, false) {
		oldObj[o.id] = o
	}
	// the primary moves on
	for _, p := range ps {
		switch p.action {
		case "modify", "rewrite", "create":
			e.writeSplit(r, k, false, []spec{{id: p.id, val: p.newVal}})
		case "create+modify":
			e.writeSplit(r, k, false, []spec{{id: p.id, val: (p.newVal + 1) % len(contents)}})
			e.writeSplit(r, k, false, []spec{{id: p.id, val: p.newVal}})
		case "delete":
			if err := k.delete(vp, false, []string{p.id}); err != nil {
				panic(err)
			}
		}
	}
	ridx, err := vp.RemoteIndex(k.name)
	if err != nil {
		panic(err)
	}
	var last uint64
	lastTag := ""
	switch c := r.Intn(100); {
	case force || c < 45:
		last, lastTag = 0, "full-sync(last=0)"
	case c < 80:
		last, lastTag = iA, "incremental"
	default:
		last, lastTag = ridx+1+uint64(r.Intn(20)), "full-sync(index-went-backwards)"
	}

	stalePol := map[string]*structs.ACLPolicy{}
	staleTok := map[string]*structs.ACLToken{}
	var ovs []string
	nStale := 0
	for _, p := range ps {
		if !p.answeredStale {
			continue
		}
		nStale++
		if o, ok := oldObj[p.id]; ok {
			ovs = append(ovs, fmt.Sprintf("%s;%d;%s;%d;%d", hx.EncS(o.id), o.mod, o.hash, k.val(o), o.size))
		} else {
			ovs = append(ovs, hx.EncS(p.id)+";-")
		}
		if k == policyOps {
			stalePol[p.id] = oldPol[p.id] // nil = not returned
		} else {
			staleTok[p.id] = oldTok[p.id]
		}
	}
	L, R := k.list(vp, true), k.list(vp, false)
	hx.Shuffle(r, L)
	hx.Shuffle(r, R)
	rt := make([]string, len(R))
	for i, x := range R {
		rt[i] = fmt.Sprintf("%s;%d;%s;%d;%d;%d", hx.EncS(x.id), x.mod, x.hash, k.val(x), x.size, x.cre)
	}
	op := fmt.Sprintf("sacl %s %d %d %s %s %s", k.name, last, ridx, k.encObjs(L), hx.EncList(rt), hx.EncList(ovs))
	loBefore := e.localOnlyDigest(k)
	pre := vp.RaftLastIndex(true)

	vp.SetStale(stalePol, staleTok)
	ctx, cancel := context.WithTimeout(context.Background(), 120*time.Second)
	ret, exit, rerr := vp.RunACLRound(ctx, k.name, last)
	cancel()
	hits, serr := vp.ClearStale()
	if serr != nil {
		panic(fmt.Sprintf("stale swap: %v", serr))
	}
	e.rounds++

	logs, lerr := vp.RaftCommands(true, pre, vp.RaftLastIndex(true))
	if lerr != nil {
		panic(lerr)
	}
	ws, foreign := k.decodeWrites(run, logs)
	after := k.list(vp, true)
	loAfter := e.localOnlyDigest(k)
	retS := fmt.Sprint(ret)
	if rerr != nil {
		retS = "error"
	} else if exit {
		retS = "exit"
	}
	out := fmt.Sprintf("ret=%s w=%s final=%s", retS, hx.EncList(ws), k.encFinal(after))
	run.Line(op, out)

	// ---- monitors
	var shape []string
	for _, p := range ps {
		s := p.action
		if p.answeredStale {
			s += "(answered-stale)"
		}
		shape = append(shape, s)
	}
	sort.Strings(shape)
	replay := []string{fmt.Sprintf("# stale %s last=%s objects=%v", k.name, lastTag, shape), op}
	sig := "round-" + k.name
	if len(foreign) > 0 {
		run.Violate(sig+":wrote-to-another-replicated-table", fmt.Sprint(foreign), replay)
	}
	if loBefore != loAfter {
		run.Violate(sig+":local-only-object-modified", fmt.Sprintf("%s -> %s", loBefore, loAfter), replay)
	}
	switch {
	case rerr != nil:
		if !strings.Contains(rerr.Error(), "stale data") {
			run.Violate(sig+":round-returned-error", rerr.Error(), replay)
		}
		if len(ws) > 0 || k.encFinal(after) != k.encFinal(L) {
			run.Violate(sig+":failed-round-has-written", fmt.Sprintf("round failed (%v) after writing %v", rerr, ws), replay)
		}
		run.Tag("stale:round-failed(retried-by-the-replicator)")
	case exit:
		run.Violate(sig+":round-exited", "round reported exit although its context was live", replay)
	default:
		if ret != ridx {
			run.Violate(sig+":returned-index-is-not-the-remote-index", fmt.Sprintf("returned %d, primary's index %d", ret, ridx), replay)
		}
		am := map[string]obj{}
		for _, y := range after {
			am[y.id] = y
		}
		var bad []string
		for _, x := range R {
			if y, ok := am[x.id]; ok && x.mod <= ret && y.content != x.content {
				bad = append(bad, fmt.Sprintf("%s: secondary %q, primary %q (ModifyIndex %d <= returned %d)", x.id, y.content, x.content, x.mod, ret))
			}
		}
		if len(bad) > 0 {
			desc := fmt.Sprintf("one real %s round (%s, last=%d) whose batch read was answered by a lagging server for %d object(s) returned SUCCESS with index %d, yet: %s; writes: %v. The next round starts from %d and skips these objects.",
				k.name, lastTag, last, hits, ret, strings.Join(bad, "; "), ws, ret)
			// policies and tokens carry the same guard (ensureRemoteConsistent): no classifier,
			// any round that succeeds on stale content is a plain violation
			run.Violate(sig+":round-succeeded-on-stale-batch-read:secondary-differs-at-or-below-returned-index", desc, replay)
		}
		run.Tag("stale:round-succeeded")
	}
	run.Tag("stale-kind:" + k.name)
	run.Tag("stale-last:" + lastTag)
	run.Tag(fmt.Sprintf("stale:objects-replaced-in-batch-reply:%d", min(hits, 3)))
	for _, s := range shape {
		run.Tag("stale:" + k.name + ":" + s)
	}
	run.Case(op, len(ws) > 0 || rerr != nil)
	run.Sample(map[string]string{"op": op, "impl": out})
	_ = hex.EncodeToString
	_ = nStale
}

func runStale(run *hx.Run, e *env) {
	// deterministic witness first (the shape of seeded change C19-3): full sync, modified
	// existing policy, batch read answered stale
	e.staleRound(run.RNG.Fork(1<<45), policyOps, true)
	e.staleRound(run.RNG.Fork(1<<45+1), tokenOps, true)
	n := run.Scale(120, 800)
	for i := 0; i < n; i++ {
		k := policyOps
		if i%3 == 2 {
			k = tokenOps
		}
		e.staleRound(run.RNG.Fork(1<<46+uint64(i)), k, false)
	}
	e.reset(policyOps)
	e.reset(tokenOps)
}
