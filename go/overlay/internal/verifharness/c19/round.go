//go:build verif

// Round-level tie for C19: two REAL in-process servers (primary dc1, secondary dc2; see the
// export shim agent/consul/zz_verif_c19.go). Every case
//   1. resets the harness-owned objects of one kind in both datacenters,
//   2. writes a generated primary set (in an "old" and a "new" phase, so that real ModifyIndexes
//      fall on both sides of the last index) and a generated secondary set through Raft,
//   3. runs exactly ONE real (*Server).replicateConfig / (*Server).replicateACLType round,
//   4. reads the secondary's Raft log to see every write the round issued, in order, and both
//      state stores,
// prints   ret=<returned index> w=<Raft applies in order> final=<id;val …>   for the Lean model
// (CV.Repl.roundOps / roundFinal) to reproduce, and checks the property directly (monitors).
package main

import (
	"context"
	"encoding/hex"
	"fmt"
	"hash/fnv"
	"path/filepath"
	"sort"
	"strings"
	"time"

	"github.com/hashicorp/consul/agent/consul"
	"github.com/hashicorp/consul/agent/structs"
	"github.com/hashicorp/consul/internal/verifharness/hx"
)

const primaryQueryTime = 10 * time.Millisecond

// ---- ID pools: classes of spellings that fold onto ONE store row

var aclClasses = [][]string{
	{"a1111111-0000-0000-0000-000000000001", "A1111111-0000-0000-0000-000000000001"},
	{"a1111111-0000-0000-0000-00000000000b", "a1111111-0000-0000-0000-00000000000B", "A1111111-0000-0000-0000-00000000000B"},
	{"11111111-0000-0000-0000-000000000002"},
	{"1111111a-0000-0000-0000-000000000001", "1111111A-0000-0000-0000-000000000001"},
	{"ffffffff-ffff-ffff-ffff-ffffffffffff", "FFFFFFFF-FFFF-FFFF-FFFF-FFFFFFFFFFFF", "ffffffff-ffff-ffff-ffff-fffffffffffF"},
	{"0a111111-0000-0000-0000-000000000001"},
	{"b2222222-0000-0000-0000-000000000001"},
	{"c3333333-0000-0000-0000-0000000000cc", "C3333333-0000-0000-0000-0000000000CC"},
}

const bulkPrefix = "d0000000-0000-0000-0000-"

var cfgClasses = [][][2]string{
	{{structs.ServiceDefaults, "web"}, {structs.ServiceDefaults, "Web"}, {structs.ServiceDefaults, "WEB"}},
	{{structs.ServiceDefaults, "api"}, {structs.ServiceDefaults, "Api"}},
	{{structs.ServiceDefaults, "web2"}},
	{{structs.ServiceResolver, "web"}, {structs.ServiceResolver, "Web"}},
	{{structs.ServiceResolver, "api"}},
	{{structs.ProxyDefaults, "global"}},
	{{structs.ServiceDefaults, "we"}, {structs.ServiceDefaults, "We"}},
	{{structs.ExportedServices, "default"}}, // never replicated (reconcileLocalConfig skips the kind)
}

// ---- generic view of a stored object

type obj struct {
	id      string // exact key as stored (ACL: ID / accessor; config: kind/name)
	mod     uint64
	hash    string // canonical hash token for the op line
	content string // what "equal" is about
	size    int
	norepl  bool // exported-services
	cre     uint64
}

func contentVal(c string) int {
	if i := contentIdx(c); i >= 0 {
		return i
	}
	h := fnv.New32a()
	h.Write([]byte(c))
	return 900 + int(h.Sum32()%100)
}

type spec struct {
	id     string
	val    int
	bulk   int  // filler bytes (policies only)
	zero   bool // config: hash forced to 0
	viaRPC bool // config, primary: write through ConfigEntry.Apply
}

// kindOps abstracts the four replicated kinds over the real servers.
type kindOps struct {
	name     string
	setT     structs.MessageType
	delT     structs.MessageType
	list     func(vp *consul.VerifPair, secondary bool) []obj
	write    func(vp *consul.VerifPair, secondary bool, specs []spec) error // one Raft apply (config: one per entry)
	delete   func(vp *consul.VerifPair, secondary bool, ids []string) error
	tableIdx func(vp *consul.VerifPair, secondary bool) uint64
	owned    func(id string) bool
}

func mustState[T any](idx uint64, v T, err error) (uint64, T) {
	if err != nil {
		panic(err)
	}
	return idx, v
}

func lowerOwned(classes [][]string) func(string) bool {
	m := map[string]bool{}
	for _, c := range classes {
		m[strings.ToLower(c[0])] = true
	}
	return func(id string) bool { return m[strings.ToLower(id)] || strings.HasPrefix(id, bulkPrefix) }
}

var policyOps = &kindOps{
	name: "policy", setT: structs.ACLPolicySetRequestType, delT: structs.ACLPolicyDeleteRequestType,
	list: func(vp *consul.VerifPair, sec bool) []obj {
		_, ps := mustState(vp.State(sec).ACLPolicyList(nil, nil))
		out := make([]obj, 0, len(ps))
		for _, p := range ps {
			out = append(out, obj{id: p.ID, mod: p.ModifyIndex, hash: "x" + hex.EncodeToString(p.Hash), content: p.Rules, size: p.EstimateSize(), cre: p.CreateIndex})
		}
		return out
	},
	write: func(vp *consul.VerifPair, sec bool, specs []spec) error {
		var ps structs.ACLPolicies
		for _, s := range specs {
			p := &structs.ACLPolicy{ID: s.id, Name: "p-" + strings.ToLower(s.id), Rules: contents[s.val]}
			if s.bulk > 0 {
				p.Description = strings.Repeat("x", s.bulk)
			}
			p.SetHash(true)
			ps = append(ps, p)
		}
		_, err := vp.Apply(sec, structs.ACLPolicySetRequestType, &structs.ACLPolicyBatchSetRequest{Policies: ps})
		return err
	},
	delete: func(vp *consul.VerifPair, sec bool, ids []string) error {
		_, err := vp.Apply(sec, structs.ACLPolicyDeleteRequestType, &structs.ACLPolicyBatchDeleteRequest{PolicyIDs: ids})
		return err
	},
	tableIdx: func(vp *consul.VerifPair, sec bool) uint64 {
		idx, _ := mustState(vp.State(sec).ACLPolicyList(nil, nil))
		return idx
	},
	owned: lowerOwned(aclClasses),
}

var roleOps = &kindOps{
	name: "role", setT: structs.ACLRoleSetRequestType, delT: structs.ACLRoleDeleteRequestType,
	list: func(vp *consul.VerifPair, sec bool) []obj {
		_, rs := mustState(vp.State(sec).ACLRoleList(nil, "", nil))
		out := make([]obj, 0, len(rs))
		for _, p := range rs {
			out = append(out, obj{id: p.ID, mod: p.ModifyIndex, hash: "x" + hex.EncodeToString(p.Hash), content: p.Description, size: p.EstimateSize()})
		}
		return out
	},
	write: func(vp *consul.VerifPair, sec bool, specs []spec) error {
		var rs structs.ACLRoles
		for _, s := range specs {
			p := &structs.ACLRole{ID: s.id, Name: "r-" + strings.ToLower(s.id), Description: contents[s.val]}
			p.SetHash(true)
			rs = append(rs, p)
		}
		_, err := vp.Apply(sec, structs.ACLRoleSetRequestType, &structs.ACLRoleBatchSetRequest{Roles: rs, AllowMissingLinks: true})
		return err
	},
	delete: func(vp *consul.VerifPair, sec bool, ids []string) error {
		_, err := vp.Apply(sec, structs.ACLRoleDeleteRequestType, &structs.ACLRoleBatchDeleteRequest{RoleIDs: ids})
		return err
	},
	tableIdx: func(vp *consul.VerifPair, sec bool) uint64 {
		idx, _ := mustState(vp.State(sec).ACLRoleList(nil, "", nil))
		return idx
	},
	owned: lowerOwned(aclClasses),
}

var tokenOps = &kindOps{
	name: "token", setT: structs.ACLTokenSetRequestType, delT: structs.ACLTokenDeleteRequestType,
	list: func(vp *consul.VerifPair, sec bool) []obj {
		// exactly what FetchLocal / ACL.TokenList(IncludeLocal=false, IncludeGlobal=true) look at
		// nolint:staticcheck
		_, ts := mustState(vp.State(sec).ACLTokenList(nil, false, true, "", "", "", nil, nil))
		out := make([]obj, 0, len(ts))
		for _, p := range ts {
			out = append(out, obj{id: p.AccessorID, mod: p.ModifyIndex, hash: "x" + hex.EncodeToString(p.Hash), content: p.Description, size: p.EstimateSize(), cre: p.CreateIndex})
		}
		return out
	},
	write: func(vp *consul.VerifPair, sec bool, specs []spec) error {
		var ts structs.ACLTokens
		for _, s := range specs {
			t := &structs.ACLToken{AccessorID: s.id, SecretID: "5ec" + s.id, Description: contents[s.val]}
			t.SetHash(true)
			ts = append(ts, t)
		}
		_, err := vp.Apply(sec, structs.ACLTokenSetRequestType, &structs.ACLTokenBatchSetRequest{Tokens: ts, AllowMissingLinks: true})
		return err
	},
	delete: func(vp *consul.VerifPair, sec bool, ids []string) error {
		_, err := vp.Apply(sec, structs.ACLTokenDeleteRequestType, &structs.ACLTokenBatchDeleteRequest{TokenIDs: ids})
		return err
	},
	tableIdx: func(vp *consul.VerifPair, sec bool) uint64 {
		// nolint:staticcheck
		idx, _ := mustState(vp.State(sec).ACLTokenList(nil, true, true, "", "", "", nil, nil))
		return idx
	},
	owned: lowerOwned(aclClasses),
}

func cfgEntry(kind, name string, val int) structs.ConfigEntry {
	if kind == structs.ExportedServices {
		e := &structs.ExportedServicesConfigEntry{Name: name, Meta: map[string]string{"v": fmt.Sprint(val)},
			Services: []structs.ExportedService{{Name: "svc", Consumers: []structs.ServiceConsumer{{Peer: "peer1"}}}}}
		if err := e.Normalize(); err != nil {
			panic(err)
		}
		return e
	}
	return cfgOf(kind, name, val)
}

func splitCfgID(id string) (string, string) {
	i := strings.IndexByte(id, '/')
	return id[:i], id[i+1:]
}

var cfgOwned = func() func(string) bool {
	m := map[string]bool{}
	for _, c := range cfgClasses {
		m[strings.ToLower(c[0][0]+"/"+c[0][1])] = true
	}
	for _, k := range graphKeys {
		m[strings.ToLower(k)] = true
	}
	return func(id string) bool { return m[strings.ToLower(id)] }
}()

var cfgOps = &kindOps{
	name: "cfg", setT: structs.ConfigEntryRequestType, delT: structs.ConfigEntryRequestType,
	list: func(vp *consul.VerifPair, sec bool) []obj {
		// exactly what replicateConfig reads locally
		_, es := mustState(vp.State(sec).ConfigEntries(nil, structs.ReplicationEnterpriseMeta()))
		out := make([]obj, 0, len(es))
		for _, e := range es {
			out = append(out, obj{id: cfgID(e), mod: e.GetRaftIndex().ModifyIndex, hash: fmt.Sprint(e.GetHash()),
				content: "v=" + e.GetMeta()["v"], size: 1, norepl: e.GetKind() == structs.ExportedServices})
		}
		return out
	},
	write: func(vp *consul.VerifPair, sec bool, specs []spec) error {
		for _, s := range specs {
			kind, name := splitCfgID(s.id)
			e := cfgEntry(kind, name, s.val)
			if s.zero {
				e.SetHash(0)
			}
			if s.viaRPC && !sec && !s.zero && kind != structs.ExportedServices {
				req := structs.ConfigEntryRequest{Datacenter: "dc1", Op: structs.ConfigEntryUpsert, Entry: e,
					WriteRequest: structs.WriteRequest{Token: consul.VerifMgmtToken}}
				var out bool
				if err := vp.RPC(false, "ConfigEntry.Apply", &req, &out); err != nil {
					return fmt.Errorf("ConfigEntry.Apply %s: %w", s.id, err)
				}
				continue
			}
			dc := "dc1"
			if sec {
				dc = "dc2"
			}
			if _, err := vp.Apply(sec, structs.ConfigEntryRequestType, &structs.ConfigEntryRequest{Datacenter: dc, Op: structs.ConfigEntryUpsert, Entry: e}); err != nil {
				return fmt.Errorf("upsert %s: %w", s.id, err)
			}
		}
		return nil
	},
	delete: func(vp *consul.VerifPair, sec bool, ids []string) error {
		for _, id := range ids {
			kind, name := splitCfgID(id)
			e := cfgEntry(kind, name, 0)
			if _, err := vp.Apply(sec, structs.ConfigEntryRequestType, &structs.ConfigEntryRequest{Op: structs.ConfigEntryDelete, Entry: e}); err != nil {
				return fmt.Errorf("delete %s: %w", id, err)
			}
		}
		return nil
	},
	tableIdx: func(vp *consul.VerifPair, sec bool) uint64 {
		idx, _ := mustState(vp.State(sec).ConfigEntries(nil, structs.ReplicationEnterpriseMeta()))
		return idx
	},
	owned: cfgOwned,
}

func cfgVal(content string) int {
	v := -1
	fmt.Sscanf(content, "v=%d", &v)
	if v < 0 {
		return contentVal(content)
	}
	return v
}

func (k *kindOps) val(o obj) int {
	if k == cfgOps || k == fedOps {
		return cfgVal(o.content)
	}
	return contentVal(o.content)
}

// ---- encoding

func (k *kindOps) encObjs(xs []obj) string {
	t := make([]string, len(xs))
	for i, x := range xs {
		if k == cfgOps {
			kind, name := splitCfgID(x.id)
			t[i] = fmt.Sprintf("%s;%s;%d;%s;%d", hx.EncS(kind), hx.EncS(name), x.mod, x.hash, k.val(x))
		} else if k == fedOps {
			t[i] = fmt.Sprintf("%s;%d;%d", hx.EncS(x.id), x.mod, k.val(x))
		} else {
			t[i] = fmt.Sprintf("%s;%d;%s;%d;%d", hx.EncS(x.id), x.mod, x.hash, k.val(x), x.size)
		}
	}
	return hx.EncList(t)
}

func (k *kindOps) encFinal(xs []obj) string {
	m := map[string]int{}
	for _, x := range xs {
		m[x.id] = k.val(x)
	}
	return encFinal(m)
}

// decodeWrites turns the secondary's Raft log suffix into the canonical list of the round's
// applies; foreign writes to any replicated table are reported separately.
func (k *kindOps) decodeWrites(run *hx.Run, logs []consul.VerifLog) (ws []string, foreign []string) {
	enc := func(op string, ids []string) string {
		t := make([]string, len(ids))
		for i, id := range ids {
			t[i] = hx.EncS(id)
		}
		return op + "~" + strings.Join(t, "+")
	}
	for _, l := range logs {
		var w string
		switch l.Type {
		case structs.ConfigEntryRequestType:
			var req structs.ConfigEntryRequest
			if err := structs.Decode(l.Data, &req); err != nil {
				panic(err)
			}
			switch req.Op {
			case structs.ConfigEntryDelete:
				w = enc("D", []string{cfgID(req.Entry)})
			case structs.ConfigEntryUpsert:
				w = enc("U", []string{cfgID(req.Entry)})
			default:
				w = enc("?"+string(req.Op), []string{cfgID(req.Entry)})
			}
		case structs.FederationStateRequestType:
			var req structs.FederationStateRequest
			if err := structs.Decode(l.Data, &req); err != nil {
				panic(err)
			}
			switch req.Op {
			case structs.FederationStateDelete:
				w = enc("D", []string{req.State.Datacenter})
			case structs.FederationStateUpsert:
				w = enc("U", []string{req.State.Datacenter})
			default:
				w = enc("?"+string(req.Op), []string{req.State.Datacenter})
			}
		case structs.ACLPolicySetRequestType:
			var req structs.ACLPolicyBatchSetRequest
			if err := structs.Decode(l.Data, &req); err != nil {
				panic(err)
			}
			var ids []string
			for _, p := range req.Policies {
				ids = append(ids, p.ID)
			}
			w = enc("U", ids)
		case structs.ACLPolicyDeleteRequestType:
			var req structs.ACLPolicyBatchDeleteRequest
			if err := structs.Decode(l.Data, &req); err != nil {
				panic(err)
			}
			w = enc("D", req.PolicyIDs)
		case structs.ACLRoleSetRequestType:
			var req structs.ACLRoleBatchSetRequest
			if err := structs.Decode(l.Data, &req); err != nil {
				panic(err)
			}
			var ids []string
			for _, p := range req.Roles {
				ids = append(ids, p.ID)
			}
			w = enc("U", ids)
		case structs.ACLRoleDeleteRequestType:
			var req structs.ACLRoleBatchDeleteRequest
			if err := structs.Decode(l.Data, &req); err != nil {
				panic(err)
			}
			w = enc("D", req.RoleIDs)
		case structs.ACLTokenSetRequestType:
			var req structs.ACLTokenBatchSetRequest
			if err := structs.Decode(l.Data, &req); err != nil {
				panic(err)
			}
			var ids []string
			for _, p := range req.Tokens {
				ids = append(ids, p.AccessorID)
			}
			w = enc("U", ids)
		case structs.ACLTokenDeleteRequestType:
			var req structs.ACLTokenBatchDeleteRequest
			if err := structs.Decode(l.Data, &req); err != nil {
				panic(err)
			}
			w = enc("D", req.TokenIDs)
		default:
			run.Tag("noise-raft-entry:" + l.Type.String())
			continue
		}
		if l.Type == k.setT || l.Type == k.delT {
			ws = append(ws, w)
		} else {
			foreign = append(foreign, l.Type.String()+":"+w)
		}
	}
	return
}

// ---- environment

type env struct {
	run      *hx.Run
	vp       *consul.VerifPair
	localTok string // a Local token of the secondary: never fetched, must never change
	rounds   int
	blocked  time.Duration
}

var allKinds = []*kindOps{policyOps, roleOps, tokenOps, cfgOps}

// every replicated table (a round of one kind must leave the others alone)
var digestKinds = []*kindOps{policyOps, roleOps, tokenOps, cfgOps, fedOps}

func startEnv(run *hx.Run) *env {
	vp, err := consul.VerifStartPair(filepath.Join(run.Dir, "servers"), primaryQueryTime)
	if err != nil {
		panic(fmt.Sprintf("cannot start the server pair: %v", err))
	}
	e := &env{run: run, vp: vp, localTok: "00000000-1111-2222-3333-444444444444"}
	// local-only objects of the secondary that no round may touch
	loc := &structs.ACLToken{AccessorID: e.localTok, SecretID: "5ec" + e.localTok, Description: "local-only", Local: true}
	loc.SetHash(true)
	if _, err := vp.Apply(true, structs.ACLTokenSetRequestType, &structs.ACLTokenBatchSetRequest{Tokens: structs.ACLTokens{loc}}); err != nil {
		panic(err)
	}
	if _, err := vp.Apply(true, structs.KVSRequestType, &structs.KVSRequest{Datacenter: "dc2", Op: "set", DirEnt: structs.DirEntry{Key: "verif/local", Value: []byte("v")}}); err != nil {
		panic(err)
	}
	// a Local token of the PRIMARY: never listed for replication, must never appear in dc2
	ploc := &structs.ACLToken{AccessorID: "00000000-1111-2222-3333-555555555555", SecretID: "5ec-primary-local", Description: "primary-local", Local: true}
	ploc.SetHash(true)
	if _, err := vp.Apply(false, structs.ACLTokenSetRequestType, &structs.ACLTokenBatchSetRequest{Tokens: structs.ACLTokens{ploc}}); err != nil {
		panic(err)
	}
	return e
}

// localOnlyDigest describes everything in the secondary that is outside the replicated set of
// kind k: the Local token, the KV key, never-replicated config kinds, and the table indexes of
// the other replicated kinds.
func (e *env) localOnlyDigest(k *kindOps) string {
	var parts []string
	_, lt, err := e.vp.State(true).ACLTokenGetByAccessor(nil, e.localTok, nil)
	if err != nil {
		panic(err)
	}
	if lt == nil {
		parts = append(parts, "local-token:gone")
	} else {
		parts = append(parts, fmt.Sprintf("local-token:%s@%d", lt.Description, lt.ModifyIndex))
	}
	_, pl, _ := e.vp.State(true).ACLTokenGetByAccessor(nil, "00000000-1111-2222-3333-555555555555", nil)
	parts = append(parts, fmt.Sprintf("primary-local-token-present:%v", pl != nil))
	_, kv, err := e.vp.State(true).KVSGet(nil, "verif/local", nil)
	if err != nil {
		panic(err)
	}
	if kv == nil {
		parts = append(parts, "kv:gone")
	} else {
		parts = append(parts, fmt.Sprintf("kv:%s@%d", kv.Value, kv.ModifyIndex))
	}
	for _, o := range cfgOps.list(e.vp, true) {
		if o.norepl {
			parts = append(parts, fmt.Sprintf("cfg:%s=%s@%d", o.id, o.content, o.mod))
		}
	}
	for _, ok := range digestKinds {
		if ok != k {
			parts = append(parts, fmt.Sprintf("table-%s@%d", ok.name, ok.tableIdx(e.vp, true)))
		}
	}
	return strings.Join(parts, " ")
}

func (e *env) reset(k *kindOps) {
	for _, sec := range []bool{false, true} {
		var ids []string
		for _, o := range k.list(e.vp, sec) {
			if k.owned(o.id) {
				ids = append(ids, o.id)
			}
		}
		// graph stream leftovers: a splitter must go before the service-defaults entry it needs
		sort.SliceStable(ids, func(i, j int) bool {
			return strings.HasPrefix(ids[i], structs.ServiceSplitter+"/") && !strings.HasPrefix(ids[j], structs.ServiceSplitter+"/")
		})
		if len(ids) > 0 {
			if err := k.delete(e.vp, sec, ids); err != nil {
				panic(fmt.Sprintf("reset %s: %v", k.name, err))
			}
		}
	}
}

type plan struct {
	oldP, newP, loc []spec
	tags            []string
}

func spellings(k *kindOps) [][]string {
	if k == fedOps {
		return fedClasses
	}
	if k != cfgOps {
		return aclClasses
	}
	out := make([][]string, len(cfgClasses))
	for i, c := range cfgClasses {
		for _, s := range c {
			out[i] = append(out[i], s[0]+"/"+s[1])
		}
	}
	return out
}

func genPlan(r *hx.RNG, k *kindOps, biasConsistent bool) plan {
	var p plan
	classes := append([][]string(nil), spellings(k)...)
	hx.Shuffle(r, classes)
	classes = classes[:1+r.Intn(len(classes))]
	for _, c := range classes {
		where := r.Intn(10) // 0-1 local only, 2-3 remote only, 4-9 both
		lv, rv := r.Intn(len(contents)), r.Intn(len(contents))
		old := r.Chance(45)
		li, ri := r.Intn(len(c)), r.Intn(len(c))
		norepl := strings.HasPrefix(c[0], structs.ExportedServices+"/")
		if where >= 4 {
			if len(c) > 1 && r.Chance(55) {
				ri = li // same spelling on both sides
			}
			if li == ri && (r.Chance(45) || (biasConsistent && old)) {
				rv = lv
			}
		}
		zeroL, zeroR := false, false
		if k == cfgOps && !norepl {
			zeroL, zeroR = r.Chance(5), r.Chance(5)
		}
		if where < 2 || where >= 4 {
			p.loc = append(p.loc, spec{id: c[li], val: lv, zero: zeroL})
		}
		if where >= 2 {
			s := spec{id: c[ri], val: rv, zero: zeroR, viaRPC: r.Chance(30)}
			if old {
				p.oldP = append(p.oldP, s)
			} else {
				p.newP = append(p.newP, s)
			}
		}
		t := ""
		switch {
		case norepl:
			t = "never-replicated-kind"
		case where < 2:
			t = "local-only"
		case where < 4:
			t = "remote-only"
		case li != ri:
			t = "rename-by-case"
		case rv == lv && old:
			t = "both-same-old"
		case rv == lv:
			t = "both-same-new"
		case old:
			t = "both-diff-old"
		default:
			t = "both-diff-new"
		}
		if zeroL || zeroR {
			p.tags = append(p.tags, "zero-hash")
		}
		p.tags = append(p.tags, t)
	}
	hx.Shuffle(r, p.oldP)
	hx.Shuffle(r, p.newP)
	hx.Shuffle(r, p.loc)
	return p
}

func (e *env) writeSplit(r *hx.RNG, k *kindOps, sec bool, specs []spec) {
	if len(specs) == 0 {
		return
	}
	cut := len(specs)
	if len(specs) > 1 && r.Chance(40) {
		cut = 1 + r.Intn(len(specs)-1) // two Raft applies ⇒ two different ModifyIndexes
	}
	for _, part := range [][]spec{specs[:cut], specs[cut:]} {
		if len(part) == 0 {
			continue
		}
		if err := k.write(e.vp, sec, part); err != nil {
			panic(fmt.Sprintf("setup write %s: %v", k.name, err))
		}
	}
}

// oneRound runs steps 1-4 for one generated plan.
func (e *env) oneRound(r *hx.RNG, k *kindOps, p plan, lastMode int, extraTag string) {
	run, vp := e.run, e.vp
	if !vp.Quiet() {
		run.Tag("env:re-quiesce")
		if err := vp.Quiesce(60 * time.Second); err != nil {
			panic(err)
		}
	}
	e.reset(k)
	e.writeSplit(r, k, false, p.oldP)
	iA, err := vp.RemoteIndex(k.name)
	if err != nil {
		panic(err)
	}
	e.writeSplit(r, k, false, p.newP)
	e.writeSplit(r, k, true, p.loc)

	ridx, err := vp.RemoteIndex(k.name)
	if err != nil {
		panic(err)
	}
	var last uint64
	lastTag := ""
	switch {
	case lastMode < 50:
		last, lastTag = iA, "between-phases"
	case lastMode < 60:
		last, lastTag = 0, "zero"
	case lastMode < 70:
		last, lastTag = iA-min(iA, 1), "just-below-old-phase"
	case lastMode < 80:
		last, lastTag = ridx, "caught-up(blocks)"
	case lastMode < 92:
		last, lastTag = ridx+1+uint64(r.Intn(50)), "above-remote-index(reset)"
	default:
		last, lastTag = uint64(r.Intn(int(ridx)+1)), "random-below"
	}

	L, R := k.list(vp, true), k.list(vp, false)
	if len(L)+len(R) < 1000 { // the model must not depend on the order it is handed the lists in
		hx.Shuffle(r, L) // (bulk lists stay in store order: the model's insertion sort is quadratic)
		hx.Shuffle(r, R)
	}
	var op string
	if k == cfgOps {
		op = fmt.Sprintf("rcfg %d %d %s %s", last, ridx, k.encObjs(L), k.encObjs(R))
	} else {
		op = fmt.Sprintf("racl %s %d %d %s %s", k.name, last, ridx, k.encObjs(L), k.encObjs(R))
	}
	loBefore := e.localOnlyDigest(k)
	pre := vp.RaftLastIndex(true)

	ctx, cancel := context.WithTimeout(context.Background(), 120*time.Second)
	t0 := time.Now()
	var ret uint64
	var exit bool
	if k == cfgOps {
		ret, exit, err = vp.RunConfigRound(ctx, last)
	} else {
		ret, exit, err = vp.RunACLRound(ctx, k.name, last)
	}
	cancel()
	if last >= ridx {
		e.blocked += time.Since(t0)
	}
	e.rounds++

	logs, lerr := vp.RaftCommands(true, pre, vp.RaftLastIndex(true))
	if lerr != nil {
		panic(lerr)
	}
	ws, foreign := k.decodeWrites(run, logs)
	after := k.list(vp, true)
	loAfter := e.localOnlyDigest(k)

	retS := fmt.Sprint(ret)
	if err != nil {
		retS = "error"
	} else if exit {
		retS = "exit"
	}
	out := fmt.Sprintf("ret=%s w=%s final=%s", retS, hx.EncList(ws), k.encFinal(after))
	run.Line(op, out)

	// ---- monitors (independent of the Lean model)
	replay := []string{op}
	sig := "round-" + k.name
	if err != nil {
		run.Violate(sig+":round-returned-error", fmt.Sprintf("one %s round failed: %v", k.name, err), replay)
	} else if exit {
		run.Violate(sig+":round-exited", "round reported exit although its context was live", replay)
	} else if ret != ridx {
		run.Violate(sig+":returned-index-is-not-the-remote-index", fmt.Sprintf("returned %d, primary's index %d", ret, ridx), replay)
	}
	if len(foreign) > 0 {
		run.Violate(sig+":wrote-to-another-replicated-table", fmt.Sprint(foreign), replay)
	}
	eff := last
	if ridx < last {
		eff = 0
	}
	lm := map[string]obj{}
	for _, y := range L {
		lm[y.id] = y
	}
	consistent, zeroHash := true, false
	equalBefore := true
	nRepl := 0
	for _, x := range R {
		if x.norepl {
			continue
		}
		nRepl++
		if x.hash == "0" {
			zeroHash = true
		}
		y, ok := lm[x.id]
		if !ok || y.content != x.content {
			equalBefore = false
		}
		if ok && x.mod <= eff && y.content != x.content {
			consistent = false
		}
	}
	nLocRepl := 0
	for _, y := range L {
		if !y.norepl {
			nLocRepl++
			if y.hash == "0" {
				zeroHash = true
			}
		}
	}
	if nLocRepl != nRepl {
		equalBefore = false
	}
	if consistent && err == nil && !exit {
		want, got := map[string]string{}, map[string]string{}
		for _, x := range R {
			if !x.norepl {
				want[x.id] = x.content
			}
		}
		for _, x := range after {
			if !x.norepl {
				got[x.id] = x.content
			}
		}
		if fmt.Sprint(sortedKV(want)) != fmt.Sprint(sortedKV(got)) {
			run.Violate(sig+":round-result-differs-from-primary",
				fmt.Sprintf("after one real %s round (last=%d, remote index %d) the secondary holds %v, the primary %v; writes issued: %v",
					k.name, last, ridx, sortedKV(got), sortedKV(want), ws), replay)
		}
	}
	if equalBefore && !zeroHash && len(ws) > 0 {
		run.Violate(sig+":writes-on-equal-secondary", fmt.Sprintf("secondary equal to primary, yet %d Raft applies: %v", len(ws), ws), replay)
	}
	if loBefore != loAfter {
		run.Violate(sig+":local-only-object-modified", fmt.Sprintf("%s -> %s", loBefore, loAfter), replay)
	}

	// ---- evidence
	sort.Strings(p.tags)
	for _, t := range p.tags {
		run.Tag("round:" + k.name + ":" + t)
	}
	run.Tag("round-kind:" + k.name)
	run.Tag("round-last:" + lastTag)
	if ridx < last {
		run.Tag("round:index-reset-path")
	}
	if consistent {
		run.Tag("round-mode:consistent")
	} else {
		run.Tag("round-mode:inconsistent(no-equality-demanded)")
	}
	if equalBefore {
		run.Tag("round:equal-before")
	}
	nd, nu := 0, 0
	for _, w := range ws {
		if strings.HasPrefix(w, "D~") {
			nd++
		} else {
			nu++
		}
	}
	if k != cfgOps {
		if nd > 1 {
			run.Tag("round:several-delete-batches")
		}
		if nu > 1 {
			run.Tag("round:several-upsert-batches")
		}
	}
	if extraTag != "" {
		run.Tag("round:" + extraTag)
	}
	run.Case(op, len(ws) > 0)
	if len(op) < 4000 {
		run.Sample(map[string]string{"op": op, "impl": out})
	}
}

func sortedKV(m map[string]string) []string {
	out := make([]string, 0, len(m))
	for k, v := range m {
		out = append(out, k+"="+v)
	}
	sort.Strings(out)
	return out
}

// bulk rounds: more upsert bytes than aclBatchUpsertSize, more deletions than aclBatchDeleteSize
func (e *env) bulkUpsertRound(r *hx.RNG) {
	var p plan
	n := 4 + r.Intn(5)
	for i := 0; i < n; i++ {
		s := spec{id: fmt.Sprintf("%s%012x", bulkPrefix, i+1), val: r.Intn(len(contents)), bulk: 60000 + r.Intn(60000)}
		if r.Chance(25) {
			p.oldP = append(p.oldP, s)
			p.loc = append(p.loc, spec{id: s.id, val: s.val})
		} else {
			p.newP = append(p.newP, s)
			if r.Chance(20) {
				p.loc = append(p.loc, spec{id: s.id, val: (s.val + 1) % len(contents)})
			}
		}
	}
	p.tags = []string{"bulk-upsert"}
	e.oneRound(r, policyOps, p, 0, fmt.Sprintf("bulk-upsert>%d-bytes", consul.VerifACLBatchUpsertSize))
}

func (e *env) bulkDeleteRound(r *hx.RNG) {
	var p plan
	n := consul.VerifACLBatchDeleteSize + 1 + r.Intn(300)
	for i := 0; i < n; i++ {
		p.loc = append(p.loc, spec{id: fmt.Sprintf("%s%012x", bulkPrefix, i+1), val: 0})
	}
	// plus an ordinary rename by case and an update in the same round
	p.loc = append(p.loc, spec{id: aclClasses[0][0], val: 1}, spec{id: aclClasses[2][0], val: 0})
	p.newP = append(p.newP, spec{id: aclClasses[0][1], val: 1}, spec{id: aclClasses[2][0], val: 2})
	p.tags = []string{"bulk-delete"}
	e.oneRound(r, policyOps, p, 0, fmt.Sprintf("bulk-delete>%d-ids", consul.VerifACLBatchDeleteSize))
}

func runRounds(run *hx.Run) {
	e := startEnv(run)
	defer e.vp.Close()
	t0 := time.Now()
	n := run.Scale(150, 800) // per kind
	for i := 0; i < n*len(allKinds); i++ {
		r := run.RNG.Fork(1<<40 + uint64(i))
		k := allKinds[i%len(allKinds)]
		p := genPlan(r, k, !r.Chance(25))
		e.oneRound(r, k, p, r.Intn(100), "")
	}
	for i := 0; i < run.Scale(3, 12); i++ {
		e.bulkUpsertRound(run.RNG.Fork(1<<41 + uint64(i)))
	}
	for i := 0; i < 1; i++ {
		e.bulkDeleteRound(run.RNG.Fork(1<<42 + uint64(i)))
	}
	e.reset(policyOps)
	runNames(run, e)
	runStale(run, e)
	runFaults(run, e)
	run.Extra["real_rounds"] = e.rounds
	run.Extra["real_rounds_seconds"] = int(time.Since(t0).Seconds())
	run.Extra["seconds_blocked_in_fetch"] = int(e.blocked.Seconds())
}
