//go:build verif

// Name-index stream of the C19 harness. ACL policies and roles carry a second unique index (the
// lower-cased name). The round sends its upserts as ONE batch in ID order and the store checks
// every element against the rows as they stand at that point of the batch transaction, so
// ordinary renames in the primary can make the batch - and with it every later round - fail.
// Each case: both datacenters start equal, the primary is mutated (rename chains, swaps, fresh
// renames, delete + take over the name, content changes), ONE real round runs, and the upsert
// batch found in the secondary's Raft log is handed to the Lean model (CV.Repl.nBatch), which
// must predict applied / rejected.
package main

import (
	"context"
	"fmt"
	"sort"
	"strings"
	"time"

	"github.com/hashicorp/consul/agent/structs"
	"github.com/hashicorp/consul/internal/verifharness/hx"
)

type named struct {
	id, name string
	val      int
}

var namePoolIDs = []string{
	"a1111111-0000-0000-0000-000000000001",
	"b2222222-0000-0000-0000-000000000001",
	"c3333333-0000-0000-0000-0000000000cc",
	"0a111111-0000-0000-0000-000000000001",
}
var namePool = []string{"alpha", "beta", "gamma", "delta", "Beta", "eps"}

func (e *env) writeNamed(k *kindOps, sec bool, xs []named) {
	if len(xs) == 0 {
		return
	}
	var err error
	if k == policyOps {
		var ps structs.ACLPolicies
		for _, x := range xs {
			p := &structs.ACLPolicy{ID: x.id, Name: x.name, Rules: contents[x.val]}
			p.SetHash(true)
			ps = append(ps, p)
		}
		_, err = e.vp.Apply(sec, structs.ACLPolicySetRequestType, &structs.ACLPolicyBatchSetRequest{Policies: ps})
	} else {
		var rs structs.ACLRoles
		for _, x := range xs {
			p := &structs.ACLRole{ID: x.id, Name: x.name, Description: contents[x.val]}
			p.SetHash(true)
			rs = append(rs, p)
		}
		_, err = e.vp.Apply(sec, structs.ACLRoleSetRequestType, &structs.ACLRoleBatchSetRequest{Roles: rs, AllowMissingLinks: true})
	}
	if err != nil {
		panic(fmt.Sprintf("names setup (%s): %v", k.name, err))
	}
}

func (e *env) listNamed(k *kindOps, sec bool) []named {
	var out []named
	if k == policyOps {
		_, ps := mustState(e.vp.State(sec).ACLPolicyList(nil, nil))
		for _, p := range ps {
			out = append(out, named{p.ID, p.Name, contentVal(p.Rules)})
		}
	} else {
		_, rs := mustState(e.vp.State(sec).ACLRoleList(nil, "", nil))
		for _, p := range rs {
			out = append(out, named{p.ID, p.Name, contentVal(p.Description)})
		}
	}
	return out
}

func encNamed(xs []named) string {
	t := make([]string, len(xs))
	for i, x := range xs {
		t[i] = hx.EncS(x.id) + ";" + hx.EncS(x.name)
	}
	return hx.EncList(t)
}

func (e *env) nameRound(r *hx.RNG, k *kindOps, force int) {
	run, vp := e.run, e.vp
	e.reset(k)
	// both datacenters equal: n objects with distinct names
	n := 2 + r.Intn(3)
	ids := append([]string(nil), namePoolIDs...)
	hx.Shuffle(r, ids)
	ids = ids[:n]
	names := []string{"alpha", "beta", "gamma", "delta"}
	hx.Shuffle(r, names)
	var base []named
	for i, id := range ids {
		base = append(base, named{id, names[i], r.Intn(len(contents))})
	}
	e.writeNamed(k, false, base)
	e.writeNamed(k, true, base)
	iA, err := vp.RemoteIndex(k.name)
	if err != nil {
		panic(err)
	}
	// mutate the primary through a sequence of single-object writes, each of which the
	// primary's own name index accepts
	cur := map[string]named{}
	for _, b := range base {
		cur[b.id] = b
	}
	holder := func(name string) string {
		for id, x := range cur {
			if strings.EqualFold(x.name, name) {
				return id
			}
		}
		return ""
	}
	shape := ""
	rename := func(id, nn string) {
		x := cur[id]
		x.name = nn
		cur[id] = x
		e.writeNamed(k, false, []named{x})
	}
	if force >= 0 || r.Chance(55) { // templates over two objects X, Y (their ID order is random)
		x, y := ids[0], ids[1]
		if force >= 0 && x > y {
			x, y = y, x // the witness: the object that takes the name over sorts first
		}
		nx, ny := cur[x].name, cur[y].name
		tmpl := r.Intn(4)
		if force >= 0 {
			tmpl = force
		}
		switch tmpl {
		case 0: // chain: Y gives its name up, X takes it
			rename(y, "eps")
			rename(x, ny)
			shape += "[chain]"
		case 1: // swap through a temporary name
			rename(x, "tmp")
			rename(y, nx)
			rename(x, ny)
			shape += "[swap]"
		case 2: // Y is deleted, X takes its name (deletions go first: fine)
			if err := k.delete(vp, false, []string{y}); err != nil {
				panic(err)
			}
			delete(cur, y)
			rename(x, ny)
			shape += "[takeover]"
		default: // same name, other letter case, on the same object
			rename(x, strings.ToUpper(nx))
			shape += "[recase]"
		}
	}
	steps := r.Intn(4)
	if force >= 0 {
		steps = 0
	}
	for s := 0; s < steps; s++ {
		id := hx.Pick(r, ids)
		x, present := cur[id]
		switch c := r.Intn(10); {
		case c < 5 && present: // rename to a name that is free in the primary right now
			nn := hx.Pick(r, namePool)
			if h := holder(nn); h != "" && h != id {
				continue
			}
			x.name = nn
			cur[id] = x
			e.writeNamed(k, false, []named{x})
			shape += "R"
		case c < 7 && present: // content change
			x.val = (x.val + 1) % len(contents)
			cur[id] = x
			e.writeNamed(k, false, []named{x})
			shape += "C"
		case c < 9 && present: // delete (its name becomes free)
			if err := k.delete(vp, false, []string{id}); err != nil {
				panic(err)
			}
			delete(cur, id)
			shape += "D"
		case !present: // re-create under a free name
			nn := hx.Pick(r, namePool)
			if holder(nn) != "" {
				continue
			}
			x = named{id, nn, r.Intn(len(contents))}
			cur[id] = x
			e.writeNamed(k, false, []named{x})
			shape += "N"
		}
	}
	before := e.listNamed(k, true)
	pre := vp.RaftLastIndex(true)
	ctx, cancel := context.WithTimeout(context.Background(), 120*time.Second)
	_, _, rerr := vp.RunACLRound(ctx, k.name, iA)
	cancel()
	logs, lerr := vp.RaftCommands(true, pre, vp.RaftLastIndex(true))
	if lerr != nil {
		panic(lerr)
	}
	// rows the upsert batch ran against = rows before the round minus the round's deletions
	deleted := map[string]bool{}
	var ups []named
	nUps := 0
	for _, l := range logs {
		switch {
		case l.Type == k.delT:
			if k == policyOps {
				var req structs.ACLPolicyBatchDeleteRequest
				if err := structs.Decode(l.Data, &req); err != nil {
					panic(err)
				}
				for _, id := range req.PolicyIDs {
					deleted[id] = true
				}
			} else {
				var req structs.ACLRoleBatchDeleteRequest
				if err := structs.Decode(l.Data, &req); err != nil {
					panic(err)
				}
				for _, id := range req.RoleIDs {
					deleted[id] = true
				}
			}
		case l.Type == k.setT:
			nUps++
			if k == policyOps {
				var req structs.ACLPolicyBatchSetRequest
				if err := structs.Decode(l.Data, &req); err != nil {
					panic(err)
				}
				for _, p := range req.Policies {
					ups = append(ups, named{p.ID, p.Name, 0})
				}
			} else {
				var req structs.ACLRoleBatchSetRequest
				if err := structs.Decode(l.Data, &req); err != nil {
					panic(err)
				}
				for _, p := range req.Roles {
					ups = append(ups, named{p.ID, p.Name, 0})
				}
			}
		}
	}
	var rows []named
	for _, b := range before {
		if !deleted[b.id] {
			rows = append(rows, b)
		}
	}
	run.Tag("names-kind:" + k.name)
	run.Tag("names-shape-len:" + fmt.Sprint(len(shape)))
	nbOp := ""
	if nUps == 1 {
		op := fmt.Sprintf("nbatch %s %s", encNamed(rows), encNamed(ups))
		nbOp = op
		out := "applied"
		switch {
		case rerr == nil:
		case strings.Contains(rerr.Error(), "already exists"):
			out = "rejected"
		default:
			out = "error"
		}
		run.Line(op, out)
		run.Case(op, true)
		run.Sample(map[string]string{"op": op, "impl": out, "primary-mutation": shape})
	} else {
		run.Tag("names:no-upsert-batch")
		run.Case(fmt.Sprintf("names %s %v %v", k.name, before, shape), false)
	}

	after := e.listNamed(k, true)
	want := e.listNamed(k, false)
	key := func(xs []named) string {
		t := make([]string, len(xs))
		for i, x := range xs {
			t[i] = fmt.Sprintf("%s=%s/%d", x.id, x.name, x.val)
		}
		sort.Strings(t)
		return strings.Join(t, " ")
	}
	replay := []string{fmt.Sprintf("# names %s base=%v primary-mutation=%s", k.name, base, shape)}
	if nbOp != "" {
		replay = append(replay, nbOp)
	}
	if rerr != nil {
		// classify: is the name an upsert wants held by a row that the same batch updates?
		inBatch := map[string]bool{}
		for _, u := range ups {
			inBatch[u.id] = true
		}
		sig := "round-" + k.name + ":round-returned-error"
		for _, u := range ups {
			for _, y := range rows {
				if strings.Contains(rerr.Error(), "already exists") && strings.EqualFold(y.name, u.name) && y.id != u.id && inBatch[y.id] {
					sig = "round-" + k.name + ":upsert-batch-rejected:name-held-by-row-updated-in-same-batch"
				}
			}
		}
		desc := fmt.Sprintf("both datacenters held %v; after the primary's writes (%s) it holds [%s]; one real round fails with %q and leaves the secondary at [%s]",
			base, shape, key(want), rerr.Error(), key(after))
		// listed in known_findings.txt (confirmed consul defect: the upsert batch is checked
		// element by element, in ID order, against the not-yet-updated rows of the name index)
		run.Violate(sig, desc, replay)
		return
	}
	run.Tag("names:round-ok")
	if key(after) != key(want) {
		run.Violate("round-"+k.name+":round-result-differs-from-primary(names)",
			fmt.Sprintf("secondary [%s], primary [%s]", key(after), key(want)), replay)
	}
}

func runNames(run *hx.Run, e *env) {
	// the two known findings, replayed deterministically on every run: a rename chain (policies)
	// and a name swap (roles)
	e.nameRound(run.RNG.Fork(1<<44), policyOps, 0)
	e.nameRound(run.RNG.Fork(1<<44+1), roleOps, 1)
	n := run.Scale(60, 400)
	for i := 0; i < n; i++ {
		r := run.RNG.Fork(1<<43 + uint64(i))
		k := policyOps
		if i%2 == 1 {
			k = roleOps
		}
		e.nameRound(r, k, -1)
	}
	e.reset(policyOps)
	e.reset(roleOps)
}
