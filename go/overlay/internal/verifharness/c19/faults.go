//go:build verif

// Fault / federation-state streams of the C19 harness (op `xrnd`, model CV.Repl.roundRun).
//
//   fed     federation-state replication (federation_state_replication.go driven by
//           IndexReplicator.Replicate): the third instance of the merge walk - no content hash,
//           one apply per datacenter, table keyed by the lower-cased datacenter name, the copy
//           keeps the primary's ModifyIndex as PrimaryModifyIndex.
//   graph   config-entry rounds in which the secondary's store REJECTS some applies (graph
//           validation: a service-splitter needs an http service-defaults entry; deletions and
//           upserts are issued in kind order). reconcileLocalConfig collects the errors and goes
//           on; the round fails and is retried from index 0.
//   cancel  the context is found cancelled at a chosen poll of ctx.Done(): right after the
//           fetch, or between two applies of a phase (leadership lost mid-round).
//
// Model-independent monitors: a round that returns an index leaves the secondary equal to the
// primary; a failed or exited round returns index 0, touches nothing outside its table, and the
// retry the replicator would make (full sync, last = 0) converges within a bounded number of
// rounds, each later success returning the remote index.
package main

import (
	"context"
	"fmt"
	"strings"
	"sync/atomic"
	"time"

	"github.com/hashicorp/consul/agent/consul"
	"github.com/hashicorp/consul/agent/structs"
	"github.com/hashicorp/consul/internal/verifharness/hx"
)

const graphPrefix = "g-"

var graphNames = []string{graphPrefix + "web", graphPrefix + "api", graphPrefix + "db"}

var graphKeys = func() []string {
	var out []string
	for _, n := range graphNames {
		out = append(out, structs.ServiceDefaults+"/"+n, structs.ServiceSplitter+"/"+n)
	}
	return out
}()

var fedClasses = [][]string{
	{"dc3", "DC3", "Dc3"},
	{"dc4"},
	{"dc-east", "DC-East"},
	{"dc30"},
	{"d"},
	{"zone9", "ZONE9"},
}

var fedOps = &kindOps{
	name: "fed", setT: structs.FederationStateRequestType, delT: structs.FederationStateRequestType,
	list: func(vp *consul.VerifPair, sec bool) []obj {
		_, fs := mustState(vp.State(sec).FederationStateList(nil))
		out := make([]obj, 0, len(fs))
		for _, f := range fs {
			mod := f.ModifyIndex
			if sec {
				mod = f.PrimaryModifyIndex // what the copy remembers of the primary
			}
			out = append(out, obj{id: f.Datacenter, mod: mod, hash: "-", content: fmt.Sprintf("v=%d", f.UpdatedAt.Unix()-1000), size: 1})
		}
		return out
	},
	write: func(vp *consul.VerifPair, sec bool, specs []spec) error {
		for _, s := range specs {
			st := &structs.FederationState{Datacenter: s.id, UpdatedAt: time.Unix(int64(1000+s.val), 0).UTC()}
			if _, err := vp.Apply(sec, structs.FederationStateRequestType, &structs.FederationStateRequest{Op: structs.FederationStateUpsert, State: st}); err != nil {
				return err
			}
		}
		return nil
	},
	delete: func(vp *consul.VerifPair, sec bool, ids []string) error {
		for _, id := range ids {
			if _, err := vp.Apply(sec, structs.FederationStateRequestType, &structs.FederationStateRequest{Op: structs.FederationStateDelete, State: &structs.FederationState{Datacenter: id}}); err != nil {
				return err
			}
		}
		return nil
	},
	tableIdx: func(vp *consul.VerifPair, sec bool) uint64 {
		idx, _ := mustState(vp.State(sec).FederationStateList(nil))
		return idx
	},
	owned: func(string) bool { return true },
}

// pollCtx is a live context whose Done() channel is found closed from the n-th poll on.
type pollCtx struct {
	context.Context
	cancelAt int32 // < 0: never
	polls    int32
}

var closedCh = func() chan struct{} { c := make(chan struct{}); close(c); return c }()

func (c *pollCtx) Done() <-chan struct{} {
	i := atomic.AddInt32(&c.polls, 1) - 1
	if c.cancelAt >= 0 && i >= c.cancelAt {
		return closedCh
	}
	return c.Context.Done()
}

func (c *pollCtx) Err() error {
	if c.cancelAt >= 0 && atomic.LoadInt32(&c.polls) > c.cancelAt {
		return context.Canceled
	}
	return c.Context.Err()
}

func (e *env) runRound(ctx context.Context, k *kindOps, last uint64) (uint64, bool, error) {
	switch k {
	case cfgOps:
		return e.vp.RunConfigRound(ctx, last)
	case fedOps:
		return e.vp.RunFedRound(ctx, last)
	}
	return e.vp.RunACLRound(ctx, k.name, last)
}

func (k *kindOps) encFinalX(xs []obj) string {
	if k != fedOps {
		return k.encFinal(xs)
	}
	m := map[string]string{}
	var ids []string
	for _, x := range xs {
		m[x.id] = fmt.Sprintf("%s;%d;%d", hx.EncS(x.id), k.val(x), x.mod)
		ids = append(ids, x.id)
	}
	sortStrings(ids)
	t := make([]string, len(ids))
	for i, id := range ids {
		t[i] = m[id]
	}
	return hx.EncList(t)
}

func sortStrings(a []string) {
	for i := 1; i < len(a); i++ {
		for j := i; j > 0 && a[j] < a[j-1]; j-- {
			a[j], a[j-1] = a[j-1], a[j]
		}
	}
}

func replSet(xs []obj) string {
	m := map[string]string{}
	for _, x := range xs {
		if !x.norepl {
			m[x.id] = x.content
		}
	}
	return fmt.Sprint(sortedKV(m))
}

// setup is a function writing the case's objects into both datacenters; it returns the index
// between the primary's old and new phase.
type faultCase struct {
	k        *kindOps
	stream   string // fed | graph | cancel
	setup    func(r *hx.RNG) uint64
	lastMode int // 0 zero, 1 between phases, 2 above the remote index (reset), 3 caught up
	cancelAt int // -1 none
	tags     []string
}

func (e *env) faultRound(r *hx.RNG, c faultCase) {
	run, vp, k := e.run, e.vp, c.k
	for attempt := 0; ; attempt++ {
		if !vp.Quiet() {
			run.Tag("env:re-quiesce")
			if err := vp.Quiesce(60 * time.Second); err != nil {
				panic(err)
			}
		}
		e.reset(k)
		rr := r.Fork(uint64(attempt))
		iA := c.setup(rr)
		ridx, err := vp.RemoteIndex(k.name)
		if err != nil {
			panic(err)
		}
		var last uint64
		lastTag := ""
		switch c.lastMode {
		case 0:
			last, lastTag = 0, "zero"
		case 1:
			last, lastTag = iA, "between-phases"
		case 2:
			last, lastTag = ridx+1+uint64(rr.Intn(30)), "above-remote-index(reset)"
		default:
			last, lastTag = ridx, "caught-up(blocks)"
		}
		L, R := k.list(vp, true), k.list(vp, false)
		if len(L)+len(R) < 1000 {
			hx.Shuffle(rr, L)
			hx.Shuffle(rr, R)
		}
		cancelS := "-"
		if c.cancelAt >= 0 {
			cancelS = fmt.Sprint(c.cancelAt)
		}
		op := fmt.Sprintf("xrnd %s %d %d %s %s %s", k.name, last, ridx, cancelS, k.encObjs(L), k.encObjs(R))
		loBefore := e.localOnlyDigest(k)
		pre := vp.RaftLastIndex(true)

		base, cancel := context.WithTimeout(context.Background(), 120*time.Second)
		ctx := &pollCtx{Context: base, cancelAt: int32(c.cancelAt)}
		if c.cancelAt >= 1 {
			vp.SetApplyLimits(1) // ticker period 1 s: the select at the cancelled poll is decided by the context
		}
		ret, exit, rerr := e.runRound(ctx, k, last)
		vp.SetApplyLimits(1000000)
		cancel()
		e.rounds++
		polls := int(atomic.LoadInt32(&ctx.polls))
		if c.cancelAt >= 1 && polls > c.cancelAt+1 && attempt < 4 {
			// the 1 s ticker had fired as well and the select took it: not the case that was asked
			// for. Nothing is asserted about this attempt; set the case up again.
			run.Tag("cancel:ticker-won-the-select(retried)")
			continue
		}

		logs, lerr := vp.RaftCommands(true, pre, vp.RaftLastIndex(true))
		if lerr != nil {
			panic(lerr)
		}
		ws, foreign := k.decodeWrites(run, logs)
		after := k.list(vp, true)
		loAfter := e.localOnlyDigest(k)
		retS := fmt.Sprint(ret)
		switch {
		case exit:
			retS = "exit"
		case rerr != nil:
			retS = "error"
		}
		out := fmt.Sprintf("ret=%s w=%s final=%s", retS, hx.EncList(ws), k.encFinalX(after))
		run.Line(op, out)

		// ---- monitors
		replay := []string{fmt.Sprintf("# %s %s last=%s cancelAt=%s", c.stream, k.name, lastTag, cancelS), op}
		sig := "round-" + k.name
		if len(foreign) > 0 {
			run.Violate(sig+":wrote-to-another-replicated-table", fmt.Sprint(foreign), replay)
		}
		if loBefore != loAfter {
			run.Violate(sig+":local-only-object-modified", fmt.Sprintf("%s -> %s", loBefore, loAfter), replay)
		}
		if (exit || rerr != nil) && ret != 0 {
			run.Violate(sig+":failed-or-exited-round-returned-an-index", fmt.Sprintf("ret=%d exit=%v err=%v", ret, exit, rerr), replay)
		}
		eff := last
		if ridx < last {
			eff = 0
		}
		lm := map[string]obj{}
		for _, y := range L {
			lm[y.id] = y
		}
		consistent, caughtUp := true, true
		nL, nR := 0, 0
		for _, y := range L {
			if !y.norepl {
				nL++
				if y.hash == "0" {
					caughtUp = false // SameHash is false on a zero hash: the entry is rewritten
				}
			}
		}
		for _, x := range R {
			if x.norepl {
				continue
			}
			nR++
			y, ok := lm[x.id]
			if ok && x.mod <= eff && y.content != x.content {
				consistent = false
			}
			if !ok || x.hash == "0" || (x.mod > eff && (k == fedOps || y.content != x.content)) {
				caughtUp = false
			}
		}
		if nL != nR {
			caughtUp = false
		}
		switch {
		case exit:
			run.Tag(c.stream + ":round-exited")
			if c.cancelAt < 0 {
				run.Violate(sig+":round-exited", "round reported exit although its context was live", replay)
			}
			if c.cancelAt == 0 && len(ws) > 0 {
				run.Violate(sig+":wrote-after-cancelled-fetch", fmt.Sprintf("context cancelled during the fetch, yet %v", ws), replay)
			}
		case rerr != nil:
			run.Tag(c.stream + ":round-failed")
			msg := rerr.Error()
			if !(c.stream == "graph" && (strings.Contains(msg, "protocol") || strings.Contains(msg, "discovery chain"))) {
				run.Violate(sig+":round-returned-error", msg, replay)
			}
		default:
			run.Tag(c.stream + ":round-succeeded")
			if ret != ridx {
				run.Violate(sig+":returned-index-is-not-the-remote-index", fmt.Sprintf("returned %d, primary's index %d", ret, ridx), replay)
			}
			if consistent && replSet(after) != replSet(R) {
				run.Violate(sig+":round-result-differs-from-primary",
					fmt.Sprintf("after one real %s round (last=%d, remote index %d) the secondary holds %s, the primary %s; writes: %v", k.name, last, ridx, replSet(after), replSet(R), ws), replay)
			}
			if caughtUp && len(ws) > 0 {
				run.Violate(sig+":writes-on-equal-secondary", fmt.Sprintf("secondary caught up with the primary, yet %v", ws), replay)
			}
			if k == fedOps {
				// every copy the round wrote remembers the primary's ModifyIndex
				pm := map[string]uint64{}
				for _, x := range R {
					pm[x.id] = x.mod
				}
				written := map[string]bool{}
				for _, w := range ws {
					if strings.HasPrefix(w, "U~") {
						written[w[2:]] = true
					}
				}
				for _, y := range after {
					if written[hx.EncS(y.id)] && y.mod != pm[y.id] {
						run.Violate(sig+":copy-lost-primary-modify-index", fmt.Sprintf("%s: PrimaryModifyIndex %d, primary's ModifyIndex %d", y.id, y.mod, pm[y.id]), replay)
					}
				}
			}
		}
		// the retry the replicator makes after an error / a new leadership term after an exit:
		// full sync from index 0. It must converge within a bounded number of rounds.
		if exit || rerr != nil {
			converged := false
			var errs []string
			for i := 0; i < 4 && !converged; i++ {
				ctx2, cancel2 := context.WithTimeout(context.Background(), 120*time.Second)
				ret2, exit2, err2 := e.runRound(ctx2, k, 0)
				cancel2()
				e.rounds++
				if exit2 {
					errs = append(errs, "exit")
					continue
				}
				if err2 != nil {
					errs = append(errs, err2.Error())
					continue
				}
				if ret2 != ridx {
					run.Violate(sig+":returned-index-is-not-the-remote-index", fmt.Sprintf("retry returned %d, primary's index %d", ret2, ridx), replay)
				}
				converged = true
				run.Tag(fmt.Sprintf("%s:retry-converged-after:%d", c.stream, i+1))
			}
			now := k.list(vp, true)
			if !converged {
				run.Violate(sig+":retry-after-partial-round-does-not-converge", fmt.Sprintf("4 full-sync rounds after a failed/cancelled round: %v", errs), replay)
			} else if replSet(now) != replSet(R) {
				run.Violate(sig+":retry-after-partial-round-differs-from-primary", fmt.Sprintf("secondary %s, primary %s", replSet(now), replSet(R)), replay)
			}
			if lo := e.localOnlyDigest(k); lo != loBefore {
				run.Violate(sig+":local-only-object-modified", fmt.Sprintf("%s -> %s", loBefore, lo), replay)
			}
		}
		for _, t := range c.tags {
			run.Tag(c.stream + ":" + k.name + ":" + t)
		}
		run.Tag(c.stream + "-kind:" + k.name)
		run.Tag(c.stream + "-last:" + lastTag)
		if c.cancelAt >= 0 {
			run.Tag(fmt.Sprintf("cancel-at-poll:%d", c.cancelAt))
		}
		run.Case(op, len(ws) > 0 || exit || rerr != nil)
		if len(op) < 4000 {
			run.Sample(map[string]string{"op": op, "impl": out})
		}
		return
	}
}

// planSetup turns a generated plan into a setup function.
func (e *env) planSetup(k *kindOps, p plan) func(r *hx.RNG) uint64 {
	return func(r *hx.RNG) uint64 {
		e.writeSplit(r, k, false, p.oldP)
		iA, err := e.vp.RemoteIndex(k.name)
		if err != nil {
			panic(err)
		}
		e.writeSplit(r, k, false, p.newP)
		e.writeSplit(r, k, true, p.loc)
		return iA
	}
}

// graphSetup: per service name one of {absent, sd tcp, sd http, sd http + splitter} on each side,
// written in an order each datacenter's own store accepts.
func (e *env) graphSetup(states [][2]int, vals [][2]int) func(r *hx.RNG) uint64 {
	return func(r *hx.RNG) uint64 {
		for side := 0; side < 2; side++ {
			sec := side == 1
			var sds, sps []spec
			for i, n := range graphNames {
				st := states[i][side]
				switch st {
				case 1:
					sds = append(sds, spec{id: structs.ServiceDefaults + "/" + n, val: 2 * vals[i][side]}) // 0 or 2: tcp
				case 2, 3:
					sds = append(sds, spec{id: structs.ServiceDefaults + "/" + n, val: 1})
				}
				if st == 3 {
					sps = append(sps, spec{id: structs.ServiceSplitter + "/" + n, val: vals[i][side]})
				}
			}
			if err := cfgOps.write(e.vp, sec, sds); err != nil {
				panic(fmt.Sprintf("graph setup (sec=%v states=%v): %v; have %v", sec, states, err, cfgOps.list(e.vp, sec)))
			}
			if err := cfgOps.write(e.vp, sec, sps); err != nil {
				panic(fmt.Sprintf("graph setup: %v", err))
			}
		}
		iA, err := e.vp.RemoteIndex("cfg")
		if err != nil {
			panic(err)
		}
		return iA - min(iA, 1)
	}
}

// redactedRounds: the replication token only grants acl:read, so the primary redacts token
// secrets (ACL.TokenBatchRead answers Redacted=true). A token round that needs an upsert must
// fail before any write - never store a redacted secret - and converge once the token is fixed;
// a round without upserts (deletions only / nothing to do) is not affected. Monitored only.
func (e *env) redactedRounds(run *hx.Run) {
	vp := e.vp
	pol := &structs.ACLPolicy{ID: "e0000000-0000-0000-0000-0000000000aa", Name: "verif-acl-read", Rules: `acl = "read"`}
	pol.SetHash(true)
	if _, err := vp.Apply(false, structs.ACLPolicySetRequestType, &structs.ACLPolicyBatchSetRequest{Policies: structs.ACLPolicies{pol}}); err != nil {
		panic(err)
	}
	const roSecret = "e0000000-0000-0000-0000-0000000000ab"
	ro := &structs.ACLToken{AccessorID: "e0000000-0000-0000-0000-0000000000ac", SecretID: roSecret, Description: "read-only replication token", Local: true,
		Policies: []structs.ACLTokenPolicyLink{{ID: pol.ID}}}
	ro.SetHash(true)
	if _, err := vp.Apply(false, structs.ACLTokenSetRequestType, &structs.ACLTokenBatchSetRequest{Tokens: structs.ACLTokens{ro}}); err != nil {
		panic(err)
	}
	defer func() {
		vp.SetReplicationToken(consul.VerifMgmtToken)
		vp.Apply(false, structs.ACLTokenDeleteRequestType, &structs.ACLTokenBatchDeleteRequest{TokenIDs: []string{ro.AccessorID}})
		vp.Apply(false, structs.ACLPolicyDeleteRequestType, &structs.ACLPolicyBatchDeleteRequest{PolicyIDs: []string{pol.ID}})
	}()
	k := tokenOps
	n := run.Scale(12, 60)
	for i := 0; i < n; i++ {
		r := run.RNG.Fork(1<<51 + uint64(i))
		e.reset(k)
		p := genPlan(r, k, true)
		e.planSetup(k, p)(r)
		ridx, err := vp.RemoteIndex(k.name)
		if err != nil {
			panic(err)
		}
		L, R := k.list(vp, true), k.list(vp, false)
		lm := map[string]obj{}
		for _, y := range L {
			lm[y.id] = y
		}
		needUpsert := false
		for _, x := range R {
			if y, ok := lm[x.id]; !ok || y.content != x.content {
				needUpsert = true
			}
		}
		loBefore := e.localOnlyDigest(k)
		pre := vp.RaftLastIndex(true)
		vp.SetReplicationToken(roSecret)
		ctx, cancel := context.WithTimeout(context.Background(), 120*time.Second)
		ret, exit, rerr := vp.RunACLRound(ctx, k.name, 0)
		cancel()
		vp.SetReplicationToken(consul.VerifMgmtToken)
		e.rounds++
		logs, lerr := vp.RaftCommands(true, pre, vp.RaftLastIndex(true))
		if lerr != nil {
			panic(lerr)
		}
		ws, _ := k.decodeWrites(run, logs)
		replay := []string{fmt.Sprintf("# redacted token round: local %s remote %s", k.encObjs(L), k.encObjs(R))}
		sig := "round-token"
		// nolint:staticcheck
		_, all := mustState(vp.State(true).ACLTokenList(nil, true, true, "", "", "", nil, nil))
		for _, t := range all {
			if t.SecretID == "<hidden>" || strings.Contains(t.SecretID, "hidden") {
				run.Violate(sig+":redacted-secret-stored", fmt.Sprintf("token %s stored with secret %q", t.AccessorID, t.SecretID), replay)
			}
		}
		switch {
		case needUpsert:
			run.Tag("redacted:round-needs-upserts")
			if rerr == nil || exit {
				run.Violate(sig+":round-succeeded-on-redacted-secrets", fmt.Sprintf("ret=%d exit=%v writes=%v", ret, exit, ws), replay)
			} else if !strings.Contains(rerr.Error(), "unredacted") && !strings.Contains(rerr.Error(), "redacted") {
				run.Violate(sig+":round-returned-error", rerr.Error(), replay)
			}
			if len(ws) > 0 {
				run.Violate(sig+":failed-round-has-written", fmt.Sprintf("round failed on redacted secrets after writing %v", ws), replay)
			}
		default:
			run.Tag("redacted:round-without-upserts")
			if rerr != nil || exit || ret != ridx {
				run.Violate(sig+":round-returned-error", fmt.Sprintf("no upsert needed, yet ret=%d exit=%v err=%v", ret, exit, rerr), replay)
			}
		}
		// with a proper token the retry converges
		ctx2, cancel2 := context.WithTimeout(context.Background(), 120*time.Second)
		ret2, exit2, err2 := vp.RunACLRound(ctx2, k.name, 0)
		cancel2()
		e.rounds++
		if err2 != nil || exit2 || ret2 != ridx {
			run.Violate(sig+":retry-after-partial-round-does-not-converge", fmt.Sprintf("ret=%d exit=%v err=%v", ret2, exit2, err2), replay)
		} else if replSet(k.list(vp, true)) != replSet(R) {
			run.Violate(sig+":retry-after-partial-round-differs-from-primary", fmt.Sprintf("secondary %s, primary %s", replSet(k.list(vp, true)), replSet(R)), replay)
		}
		if lo := e.localOnlyDigest(k); lo != loBefore {
			run.Violate(sig+":local-only-object-modified", fmt.Sprintf("%s -> %s", loBefore, lo), replay)
		}
		run.Case(fmt.Sprintf("redacted %s %s", k.encObjs(L), k.encObjs(R)), needUpsert)
	}
	e.reset(k)
}

func runFaults(run *hx.Run, e *env) {
	// ---- federation states, no faults
	n := run.Scale(90, 500)
	for i := 0; i < n; i++ {
		r := run.RNG.Fork(1<<47 + uint64(i))
		p := genPlan(r, fedOps, !r.Chance(25))
		mode := []int{1, 1, 1, 0, 2, 3, 1, 0}[r.Intn(8)]
		e.faultRound(r, faultCase{k: fedOps, stream: "fed", setup: e.planSetup(fedOps, p), lastMode: mode, cancelAt: -1, tags: p.tags})
	}
	// ---- graph validation: the deterministic witness first (sd http + splitter deleted in the primary)
	witness := [][2]int{{0, 3}, {0, 0}, {0, 0}}
	zero := [][2]int{{0, 0}, {0, 0}, {0, 0}}
	e.faultRound(run.RNG.Fork(1<<48), faultCase{k: cfgOps, stream: "graph", setup: e.graphSetup(witness, zero), lastMode: 0, cancelAt: -1,
		tags: []string{"witness:delete-service-defaults-before-splitter"}})
	n = run.Scale(60, 400)
	for i := 0; i < n; i++ {
		r := run.RNG.Fork(1<<48 + 1 + uint64(i))
		states := make([][2]int, len(graphNames))
		vals := make([][2]int, len(graphNames))
		var tags []string
		for j := range graphNames {
			states[j] = [2]int{r.Intn(4), r.Intn(4)}
			vals[j] = [2]int{r.Intn(2), r.Intn(2)}
			tags = append(tags, fmt.Sprintf("primary:%d-secondary:%d", states[j][0], states[j][1]))
		}
		cancelAt := -1
		if r.Chance(15) {
			cancelAt = r.Intn(2)
		}
		e.faultRound(r, faultCase{k: cfgOps, stream: "graph", setup: e.graphSetup(states, vals), lastMode: []int{0, 0, 2, 1}[r.Intn(4)], cancelAt: cancelAt, tags: tags})
	}
	e.reset(cfgOps)
	// ---- cancellation
	kinds := []*kindOps{cfgOps, fedOps, policyOps, roleOps, tokenOps}
	n = run.Scale(40, 240)
	for i := 0; i < n; i++ {
		r := run.RNG.Fork(1<<49 + uint64(i))
		k := kinds[i%len(kinds)]
		p := genPlan(r, k, true)
		cancelAt := 0
		if k == cfgOps || k == fedOps {
			cancelAt = []int{0, 1, 1, 1, 2}[r.Intn(5)] // each poll before the cancelled one waits for the 1 s ticker
		}
		e.faultRound(r, faultCase{k: k, stream: "cancel", setup: e.planSetup(k, p), lastMode: []int{1, 0, 1, 2}[r.Intn(4)], cancelAt: cancelAt, tags: p.tags})
	}
	// a policy round above the upsert batch limit, cancelled between its first and second batch
	for i := 0; i < run.Scale(1, 4); i++ {
		r := run.RNG.Fork(1<<50 + uint64(i))
		var p plan
		for j := 0; j < 5+r.Intn(3); j++ {
			p.newP = append(p.newP, spec{id: fmt.Sprintf("%s%012x", bulkPrefix, j+1), val: r.Intn(len(contents)), bulk: 70000 + r.Intn(50000)})
		}
		p.loc = append(p.loc, spec{id: aclClasses[2][0], val: 0}) // one deletion first
		e.faultRound(r, faultCase{k: policyOps, stream: "cancel", setup: e.planSetup(policyOps, p), lastMode: 0, cancelAt: 1, tags: []string{"bulk-upsert-cancelled-between-batches"}})
	}
	for _, k := range kinds {
		e.reset(k)
	}
	e.redactedRounds(run)
}
