//go:build verif

// C19 harness, walk-level part (the round-level part, which executes the real
// replicateConfig / replicateACLType between two real servers, is round.go): runs the
// real diffACLType / diffConfigEntries on lists that need not come out of a store
// (legacy empty IDs, zero hashes, arbitrary ModifyIndexes) and then applies the
// computed deletions and upserts to a real FSM/state store, printing
//   d=<deleted ids> u=<upserted ids> ls=<n> rs=<n> final=<id;val ...>
// for the Lean model (CV.Repl) to reproduce. Monitor (model independent): when the
// generated case satisfies the round's preconditions, the resulting replicated set
// must equal the remote one, local-only objects must be untouched and an equal
// secondary must produce no writes.
package main

import (
	"encoding/hex"
	"fmt"
	"sort"
	"strings"

	"github.com/hashicorp/go-hclog"
	"github.com/hashicorp/raft"

	"github.com/hashicorp/consul/agent/consul"
	"github.com/hashicorp/consul/agent/consul/fsm"
	"github.com/hashicorp/consul/agent/consul/state"
	"github.com/hashicorp/consul/agent/structs"
	"github.com/hashicorp/consul/internal/verifharness/hx"
)

var idPool = []string{
	"11111111-0000-0000-0000-000000000001",
	"11111111-0000-0000-0000-000000000002",
	"11111111-0000-0000-0000-00000000000a",
	"1111111a-0000-0000-0000-000000000001",
	"a1111111-0000-0000-0000-000000000001",
	"a1111111-0000-0000-0000-000000000010",
	"0a111111-0000-0000-0000-000000000001",
	"ffffffff-ffff-ffff-ffff-ffffffffffff",
}

type item struct {
	id   string
	mod  uint64
	val  int // content index
	hash []byte
}

func newFSM() *fsm.FSM {
	return fsm.NewFromDeps(fsm.Deps{
		Logger:         hclog.NewNullLogger(),
		NewStateStore:  func() *state.Store { return state.NewStateStore(nil) },
		StorageBackend: fsm.NullStorageBackend,
	})
}

func apply(f *fsm.FSM, idx uint64, t structs.MessageType, req any) any {
	buf, err := structs.Encode(t, req)
	if err != nil {
		panic(err)
	}
	return f.Apply(&raft.Log{Index: idx, Term: 1, Type: raft.LogCommand, Data: buf})
}

func encItems(xs []item) string {
	t := make([]string, len(xs))
	for i, x := range xs {
		t[i] = fmt.Sprintf("%s;%d;%s;%d;1", hx.EncS(x.id), x.mod, "x"+hex.EncodeToString(x.hash), x.val)
	}
	return hx.EncList(t)
}

func encFinal(m map[string]int) string {
	ids := make([]string, 0, len(m))
	for k := range m {
		ids = append(ids, k)
	}
	sort.Strings(ids)
	t := make([]string, len(ids))
	for i, k := range ids {
		t[i] = fmt.Sprintf("%s;%d", hx.EncS(k), m[k])
	}
	return hx.EncList(t)
}

// genCase builds local and remote item lists. consistent=true keeps the round's precondition:
// every remote item with mod <= last that also exists locally has the same content there.
func genCase(r *hx.RNG, nContents int, allowEmpty bool, consistent bool) (last uint64, l, rm []item, tags []string) {
	last = uint64(r.Intn(6)) * 10
	if r.Chance(15) {
		last = 0
	}
	nIDs := 1 + r.Intn(len(idPool))
	ids := append([]string(nil), idPool...)
	hx.Shuffle(r, ids)
	ids = ids[:nIDs]
	for _, id := range ids {
		where := r.Intn(10) // 0-1 local only, 2-3 remote only, 4-9 both
		lv, rv := r.Intn(nContents), r.Intn(nContents)
		var mod uint64
		switch r.Intn(4) {
		case 0:
			mod = last
		case 1:
			mod = last + 1
		case 2:
			mod = uint64(r.Intn(int(last) + 1))
		default:
			mod = last + 1 + uint64(r.Intn(20))
		}
		if mod == 0 {
			mod = 1
		}
		switch {
		case where < 2:
			l = append(l, item{id: id, val: lv})
			tags = append(tags, "local-only")
		case where < 4:
			rm = append(rm, item{id: id, val: rv, mod: mod})
			tags = append(tags, "remote-only")
		default:
			if r.Chance(45) {
				rv = lv
			}
			if consistent && mod <= last {
				rv = lv
			}
			l = append(l, item{id: id, val: lv})
			rm = append(rm, item{id: id, val: rv, mod: mod})
			switch {
			case rv == lv && mod > last:
				tags = append(tags, "both-same-new")
			case rv == lv:
				tags = append(tags, "both-same-old")
			case mod > last:
				tags = append(tags, "both-diff-new")
			default:
				tags = append(tags, "both-diff-old(inconsistent)")
			}
		}
	}
	if allowEmpty {
		for n := r.Intn(3); n > 0; n-- {
			if r.Bool() {
				l = append(l, item{id: "", val: r.Intn(nContents)})
				tags = append(tags, "local-empty-id")
			} else {
				rm = append(rm, item{id: "", val: r.Intn(nContents), mod: last + 1})
				tags = append(tags, "remote-empty-id")
			}
		}
	}
	hx.Shuffle(r, l)
	hx.Shuffle(r, rm)
	return
}

func hasEmpty(xs []item) bool {
	for _, x := range xs {
		if x.id == "" {
			return true
		}
	}
	return false
}

func monitor(run *hx.Run, kind string, op string, consistent bool, l, rm []item, d, u []string, final map[string]int, localOnlyBefore, localOnlyAfter string) {
	if final == nil {
		return
	}
	if consistent {
		want := map[string]int{}
		for _, x := range rm {
			if x.id != "" {
				want[x.id] = x.val
			}
		}
		if encFinal(want) != encFinal(final) {
			run.Violate(kind+":round-result-differs-from-primary",
				fmt.Sprintf("after one %s replication round the replicated set is %s, primary has %s", kind, encFinal(final), encFinal(want)), []string{op})
		}
		equal := len(l) == len(rm)
		if equal {
			lm := map[string]int{}
			for _, x := range l {
				lm[x.id] = x.val
			}
			for _, x := range rm {
				if v, ok := lm[x.id]; !ok || v != x.val {
					equal = false
				}
			}
		}
		if equal && (len(d) > 0 || len(u) > 0) {
			run.Violate(kind+":writes-on-equal-secondary", fmt.Sprintf("equal secondary produced d=%v u=%v", d, u), []string{op})
		}
	}
	if localOnlyBefore != localOnlyAfter {
		run.Violate(kind+":local-only-object-modified", fmt.Sprintf("local-only objects changed: %s -> %s", localOnlyBefore, localOnlyAfter), []string{op})
	}
}

var contents = []string{`key "a" { policy = "read" }`, `key "a" { policy = "write" }`, `node_prefix "" { policy = "read" }`}

func policyOf(x item) *structs.ACLPolicy {
	p := &structs.ACLPolicy{ID: x.id, Name: fmt.Sprintf("p-%x", x.id), Rules: contents[x.val]}
	p.SetHash(true)
	return p
}

func runPolicies(run *hx.Run, r *hx.RNG, consistent bool) {
	last, l, rm, tags := genCase(r, len(contents), false, consistent)
	var lp structs.ACLPolicies
	var rp structs.ACLPolicyListStubs
	full := map[string]*structs.ACLPolicy{}
	for i := range l {
		p := policyOf(l[i])
		l[i].hash = p.Hash
		lp = append(lp, p)
	}
	for i := range rm {
		p := policyOf(rm[i])
		p.ModifyIndex = rm[i].mod
		rm[i].hash = p.Hash
		full[p.ID] = p
		rp = append(rp, p.Stub())
	}
	f := newFSM()
	idx := uint64(100)
	if len(lp) > 0 {
		if res := apply(f, idx, structs.ACLPolicySetRequestType, &structs.ACLPolicyBatchSetRequest{Policies: lp}); res != nil {
			panic(fmt.Sprint(res))
		}
	}
	// a local-only object of a different kind that the round must not touch
	apply(f, idx+1, structs.KVSRequestType, &structs.KVSRequest{Op: "set", DirEnt: structs.DirEntry{Key: "local", Value: []byte("v")}})
	_, fetched, err := f.State().ACLPolicyList(nil, nil)
	if err != nil {
		panic(err)
	}
	// the store adds the builtin policies to nothing here; fetched == lp (any order)
	op := fmt.Sprintf("acl %d %s %s", last, encItems(l), encItems(rm))
	res := consul.VerifDiffPolicies(fetched, rp, last)
	idx = 200
	if len(res.Deletes) > 0 {
		apply(f, idx, structs.ACLPolicyDeleteRequestType, &structs.ACLPolicyBatchDeleteRequest{PolicyIDs: res.Deletes})
	}
	if len(res.Upserts) > 0 {
		var ups structs.ACLPolicies
		for _, id := range res.Upserts {
			ups = append(ups, full[id])
		}
		if e := apply(f, idx+1, structs.ACLPolicySetRequestType, &structs.ACLPolicyBatchSetRequest{Policies: ups}); e != nil {
			panic(fmt.Sprint(e))
		}
	}
	_, after, _ := f.State().ACLPolicyList(nil, nil)
	final := map[string]int{}
	for _, p := range after {
		final[p.ID] = contentIdx(p.Rules)
	}
	_, kv, _ := f.State().KVSGet(nil, "local", nil)
	kvAfter := "gone"
	if kv != nil {
		kvAfter = fmt.Sprintf("%s@%d", kv.Value, kv.ModifyIndex)
	}
	finish(run, "policy", op, consistent, l, rm, res, final, "v@101", kvAfter, tags)
}

func contentIdx(s string) int {
	for i, c := range contents {
		if c == s {
			return i
		}
	}
	return -1
}

func finish(run *hx.Run, kind, op string, consistent bool, l, rm []item, res consul.VerifDiff, final map[string]int, loBefore, loAfter string, tags []string) {
	fin := "skip"
	if final != nil {
		fin = encFinal(final)
	}
	out := fmt.Sprintf("d=%s u=%s ls=%d rs=%d final=%s", hx.EncSList(res.Deletes), hx.EncSList(res.Upserts), res.LocalSkipped, res.RemoteSkipped, fin)
	run.Line(op, out)
	monitor(run, kind, op, consistent, l, rm, res.Deletes, res.Upserts, final, loBefore, loAfter)
	sort.Strings(tags)
	for _, t := range tags {
		run.Tag(kind + ":" + t)
	}
	run.Tag("kind:" + kind)
	if consistent {
		run.Tag("mode:consistent")
	} else {
		run.Tag("mode:arbitrary")
	}
	run.Case(op, len(res.Deletes)+len(res.Upserts) > 0)
	run.Sample(map[string]string{"op": op, "impl": out})
}

func roleOf(x item) *structs.ACLRole {
	ro := &structs.ACLRole{ID: x.id, Name: fmt.Sprintf("r-%x", x.id), Description: contents[x.val]}
	ro.SetHash(true)
	return ro
}

func runRoles(run *hx.Run, r *hx.RNG, consistent bool) {
	last, l, rm, tags := genCase(r, len(contents), false, consistent)
	var lp, rp structs.ACLRoles
	full := map[string]*structs.ACLRole{}
	for i := range l {
		p := roleOf(l[i])
		l[i].hash = p.Hash
		lp = append(lp, p)
	}
	for i := range rm {
		p := roleOf(rm[i])
		p.ModifyIndex = rm[i].mod
		rm[i].hash = p.Hash
		full[p.ID] = p
		rp = append(rp, p)
	}
	f := newFSM()
	if len(lp) > 0 {
		if res := apply(f, 100, structs.ACLRoleSetRequestType, &structs.ACLRoleBatchSetRequest{Roles: lp, AllowMissingLinks: true}); res != nil {
			panic(fmt.Sprint(res))
		}
	}
	_, fetched, err := f.State().ACLRoleList(nil, "", nil)
	if err != nil {
		panic(err)
	}
	op := fmt.Sprintf("acl %d %s %s", last, encItems(l), encItems(rm))
	res := consul.VerifDiffRoles(fetched, rp, last)
	if len(res.Deletes) > 0 {
		apply(f, 200, structs.ACLRoleDeleteRequestType, &structs.ACLRoleBatchDeleteRequest{RoleIDs: res.Deletes})
	}
	if len(res.Upserts) > 0 {
		var ups structs.ACLRoles
		for _, id := range res.Upserts {
			ups = append(ups, full[id])
		}
		if e := apply(f, 201, structs.ACLRoleSetRequestType, &structs.ACLRoleBatchSetRequest{Roles: ups, AllowMissingLinks: true}); e != nil {
			panic(fmt.Sprint(e))
		}
	}
	_, after, _ := f.State().ACLRoleList(nil, "", nil)
	final := map[string]int{}
	for _, p := range after {
		final[p.ID] = contentIdx(p.Description)
	}
	finish(run, "role", op, consistent, l, rm, res, final, "", "", tags)
}

func tokenOf(x item, local bool) *structs.ACLToken {
	t := &structs.ACLToken{AccessorID: x.id, SecretID: "5ec" + x.id, Description: contents[x.val], Local: local}
	t.SetHash(true)
	return t
}

func runTokens(run *hx.Run, r *hx.RNG, consistent bool) {
	last, l, rm, tags := genCase(r, len(contents), true, consistent)
	empties := hasEmpty(l) || hasEmpty(rm)
	var lp structs.ACLTokens
	var rp structs.ACLTokenListStubs
	full := map[string]*structs.ACLToken{}
	for i := range l {
		p := tokenOf(l[i], false)
		l[i].hash = p.Hash
		lp = append(lp, p)
	}
	for i := range rm {
		p := tokenOf(rm[i], false)
		p.ModifyIndex = rm[i].mod
		rm[i].hash = p.Hash
		full[p.AccessorID] = p
		rp = append(rp, p.Stub())
	}
	op := fmt.Sprintf("acl %d %s %s", last, encItems(l), encItems(rm))
	if empties {
		// legacy (empty accessor) tokens cannot be stored any more; exercise the walk only
		res := consul.VerifDiffTokens(lp, rp, last)
		finish(run, "token", op, consistent, l, rm, res, nil, "", "", tags)
		return
	}
	f := newFSM()
	// a local-scoped token: never fetched for replication, must survive the round
	loc := tokenOf(item{id: "00000000-1111-2222-3333-444444444444", val: 0}, true)
	if res := apply(f, 100, structs.ACLTokenSetRequestType, &structs.ACLTokenBatchSetRequest{Tokens: structs.ACLTokens{loc}}); res != nil {
		panic(fmt.Sprint(res))
	}
	if len(lp) > 0 {
		if res := apply(f, 101, structs.ACLTokenSetRequestType, &structs.ACLTokenBatchSetRequest{Tokens: lp, AllowMissingLinks: true, FromReplication: true}); res != nil {
			panic(fmt.Sprint(res))
		}
	}
	// nolint:staticcheck
	_, fetched, err := f.State().ACLTokenList(nil, false, true, "", "", "", nil, nil)
	if err != nil {
		panic(err)
	}
	res := consul.VerifDiffTokens(fetched, rp, last)
	if len(res.Deletes) > 0 {
		apply(f, 200, structs.ACLTokenDeleteRequestType, &structs.ACLTokenBatchDeleteRequest{TokenIDs: res.Deletes})
	}
	if len(res.Upserts) > 0 {
		var ups structs.ACLTokens
		for _, id := range res.Upserts {
			ups = append(ups, full[id])
		}
		if e := apply(f, 201, structs.ACLTokenSetRequestType, &structs.ACLTokenBatchSetRequest{Tokens: ups, AllowMissingLinks: true, FromReplication: true}); e != nil {
			panic(fmt.Sprint(e))
		}
	}
	_, after, _ := f.State().ACLTokenList(nil, false, true, "", "", "", nil, nil)
	final := map[string]int{}
	for _, p := range after {
		final[p.AccessorID] = contentIdx(p.Description)
	}
	_, lt, _ := f.State().ACLTokenGetByAccessor(nil, loc.AccessorID, nil)
	loAfter := "gone"
	if lt != nil {
		loAfter = fmt.Sprintf("%s@%d", lt.Description, lt.ModifyIndex)
	}
	finish(run, "token", op, consistent, l, rm, res, final, contents[0]+"@100", loAfter, tags)
}

// ---- config entries: key = (kind, name)

var cfgKeys = [][2]string{
	{structs.ServiceDefaults, "web"}, {structs.ServiceDefaults, "web2"}, {structs.ServiceDefaults, "api"},
	{structs.ServiceResolver, "web"}, {structs.ServiceResolver, "api"}, {structs.ProxyDefaults, "global"},
	{structs.ServiceDefaults, "we"}, {structs.ServiceResolver, "a"},
}

func cfgOf(kind, name string, val int) structs.ConfigEntry {
	meta := map[string]string{"v": fmt.Sprint(val)}
	var e structs.ConfigEntry
	switch kind {
	case structs.ServiceDefaults:
		sd := &structs.ServiceConfigEntry{Kind: kind, Name: name, Meta: meta}
		if strings.HasPrefix(name, graphPrefix) && val == 1 { // graph stream: content 1 = http
			sd.Protocol = "http"
		}
		e = sd
	case structs.ServiceSplitter:
		e = &structs.ServiceSplitterConfigEntry{Kind: kind, Name: name, Meta: meta, Splits: []structs.ServiceSplit{{Weight: 100}}}
	case structs.ServiceResolver:
		e = &structs.ServiceResolverConfigEntry{Kind: kind, Name: name, Meta: meta}
	case structs.ProxyDefaults:
		e = &structs.ProxyConfigEntry{Kind: kind, Name: name, Meta: meta}
	}
	if err := e.Normalize(); err != nil {
		panic(err)
	}
	return e
}

func cfgID(e structs.ConfigEntry) string { return e.GetKind() + "/" + e.GetName() }

func runCfg(run *hx.Run, r *hx.RNG, consistent bool) {
	last := uint64(r.Intn(6)) * 10
	keys := append([][2]string(nil), cfgKeys...)
	hx.Shuffle(r, keys)
	keys = keys[:1+r.Intn(len(keys))]
	f := newFSM()
	var remote []structs.ConfigEntry
	var lrows, rrows []row
	var tags []string
	idx := uint64(100)
	for _, k := range keys {
		where := r.Intn(10)
		lv, rv := r.Intn(3), r.Intn(3)
		mod := last + uint64(r.Intn(3)) // last, last+1, last+2
		if r.Chance(30) {
			mod = uint64(r.Intn(int(last) + 1))
		}
		if mod == 0 {
			mod = 1
		}
		if where >= 4 {
			if r.Chance(45) || (consistent && mod <= last) {
				rv = lv
			}
		}
		if where < 2 || where >= 4 {
			e := cfgOf(k[0], k[1], lv)
			idx++
			if res := apply(f, idx, structs.ConfigEntryRequestType, &structs.ConfigEntryRequest{Op: structs.ConfigEntryUpsert, Entry: e}); res != nil {
				if err, ok := res.(error); ok {
					panic(err)
				}
			}
			lrows = append(lrows, row{k[0], k[1], 0, 0, lv})
		}
		if where >= 2 {
			e := cfgOf(k[0], k[1], rv)
			e.GetRaftIndex().ModifyIndex = mod
			if r.Chance(8) {
				e.SetHash(0)
				tags = append(tags, "remote-zero-hash")
			}
			remote = append(remote, e)
			rrows = append(rrows, row{k[0], k[1], mod, e.GetHash(), rv})
		}
		switch {
		case where < 2:
			tags = append(tags, "local-only")
		case where < 4:
			tags = append(tags, "remote-only")
		case rv == lv:
			tags = append(tags, "both-same")
		default:
			tags = append(tags, "both-diff")
		}
	}
	hx.Shuffle(r, remote)
	_, local, err := f.State().ConfigEntries(nil, nil)
	if err != nil {
		panic(err)
	}
	lh := map[string]uint64{}
	for _, e := range local {
		lh[cfgID(e)] = e.GetHash()
	}
	enc := func(rows []row, local bool) string {
		t := make([]string, len(rows))
		for i, x := range rows {
			h := x.hash
			if local {
				h = lh[x.kind+"/"+x.name]
			}
			t[i] = fmt.Sprintf("%s;%s;%d;%d;%d", hx.EncS(x.kind), hx.EncS(x.name), x.mod, h, x.val)
		}
		return hx.EncList(t)
	}
	// remote rows in the (shuffled) order handed to the function
	rr := make([]row, 0, len(remote))
	for _, e := range remote {
		for _, x := range rrows {
			if x.kind == e.GetKind() && x.name == e.GetName() {
				rr = append(rr, x)
			}
		}
	}
	op := fmt.Sprintf("cfg %d %s %s", last, enc(lrows, true), enc(rr, false))
	remoteCopy := append([]structs.ConfigEntry(nil), remote...)
	dels, ups := consul.VerifDiffConfigEntries(local, remoteCopy, last)
	var d, u []string
	for _, e := range dels {
		d = append(d, cfgID(e))
		idx++
		apply(f, idx, structs.ConfigEntryRequestType, &structs.ConfigEntryRequest{Op: structs.ConfigEntryDelete, Entry: e})
	}
	for _, e := range ups {
		u = append(u, cfgID(e))
		idx++
		apply(f, idx, structs.ConfigEntryRequestType, &structs.ConfigEntryRequest{Op: structs.ConfigEntryUpsert, Entry: e})
	}
	_, after, _ := f.State().ConfigEntries(nil, nil)
	final := map[string]int{}
	for _, e := range after {
		v := -1
		fmt.Sscan(e.GetMeta()["v"], &v)
		final[cfgID(e)] = v
	}
	out := fmt.Sprintf("d=%s u=%s final=%s", hx.EncSList(d), hx.EncSList(u), encFinal(final))
	run.Line(op, out)
	if consistent {
		want := map[string]int{}
		zeroHash := false
		for _, x := range rrows {
			want[x.kind+"/"+x.name] = x.val
			if x.hash == 0 {
				zeroHash = true
			}
		}
		if encFinal(want) != encFinal(final) {
			run.Violate("cfg:round-result-differs-from-primary", fmt.Sprintf("final %s, primary %s", encFinal(final), encFinal(want)), []string{op})
		}
		if !zeroHash && encFinal(want) == encFinalRows(lrows) && len(d)+len(u) > 0 {
			// equal content and non-zero hashes: must be a no-op
			sameAll := true
			for _, x := range rrows {
				if lh[x.kind+"/"+x.name] != x.hash {
					sameAll = false // same val but different hash cannot happen; defensive
				}
			}
			if sameAll {
				run.Violate("cfg:writes-on-equal-secondary", fmt.Sprintf("d=%v u=%v", d, u), []string{op})
			}
		}
	}
	for _, t := range tags {
		run.Tag("cfg:" + t)
	}
	run.Tag("kind:cfg")
	run.Case(op, len(d)+len(u) > 0)
	run.Sample(map[string]string{"op": op, "impl": out})
}

type row struct {
	kind, name string
	mod        uint64
	hash       uint64
	val        int
}

func encFinalRows(rows []row) string {
	m := map[string]int{}
	for _, x := range rows {
		m[x.kind+"/"+x.name] = x.val
	}
	return encFinal(m)
}

func main() {
	run := hx.Start()
	run.Rule = "one case = (kind, last index[, remote index], local list, remote list); walk-level cases (ops acl/cfg) draw from an 8-id pool with 3 contents, round-level cases (ops racl/rcfg) run one real replication round between two real servers over pools of case-variant spellings; distinct by the full op line; non-trivial = the round computes at least one deletion or upsert"
	n := run.Scale(400, 6000)
	for i := 0; i < n; i++ {
		r := run.RNG.Fork(uint64(i))
		consistent := !r.Chance(25)
		switch i % 4 {
		case 0:
			runPolicies(run, r, consistent)
		case 1:
			runRoles(run, r, consistent)
		case 2:
			runTokens(run, r, consistent)
		default:
			runCfg(run, r, consistent)
		}
	}
	runRounds(run)
	run.Finish()
}
