//go:build verif

package main

// Canonical printer and an independent evaluator (Envoy RBAC semantics) for the
// envoy_rbac_v3.RBAC proto that the real makeRBACRules returns.

import (
	"fmt"
	"regexp"
	"sort"
	"strconv"
	"strings"

	envoy_rbac_v3 "github.com/envoyproxy/go-control-plane/envoy/config/rbac/v3"
	envoy_route_v3 "github.com/envoyproxy/go-control-plane/envoy/config/route/v3"
	envoy_matcher_v3 "github.com/envoyproxy/go-control-plane/envoy/type/matcher/v3"

	"github.com/hashicorp/consul/internal/verifharness/hx"
)

// ---------------------------------------------------------------- requests and callers on the wire

type fact struct {
	path []string
	val  string
}

type request struct {
	path    string
	headers [][2]string // lower-case name, value (includes :method)
	meta    []fact      // string values in the dynamic metadata of envoy.filters.http.jwt_authn
}

func (r *request) has(path []string, val string) bool {
	for _, f := range r.meta {
		if f.val == val && len(f.path) == len(path) {
			eq := true
			for i := range path {
				if path[i] != f.path[i] {
					eq = false
				}
			}
			if eq {
				return true
			}
		}
	}
	return false
}

// metadata matcher: filter namespace, key path, exact string value
func metaParts(m *envoy_matcher_v3.MetadataMatcher) (path []string, val string, ok bool) {
	if m.GetFilter() != "envoy.filters.http.jwt_authn" || m.GetInvert() {
		return nil, "", false
	}
	for _, seg := range m.GetPath() {
		k, isKey := seg.GetSegment().(*envoy_matcher_v3.MetadataMatcher_PathSegment_Key)
		if !isKey {
			return nil, "", false
		}
		path = append(path, k.Key)
	}
	sm, isStr := m.GetValue().GetMatchPattern().(*envoy_matcher_v3.ValueMatcher_StringMatch)
	if !isStr {
		return nil, "", false
	}
	ex, isExact := sm.StringMatch.GetMatchPattern().(*envoy_matcher_v3.StringMatcher_Exact)
	if !isExact || sm.StringMatch.GetIgnoreCase() {
		return nil, "", false
	}
	return path, ex.Exact, true
}

func sMeta(m *envoy_matcher_v3.MetadataMatcher) string {
	path, val, ok := metaParts(m)
	if !ok {
		return "meta?(" + m.String() + ")"
	}
	t := make([]string, len(path))
	for i, p := range path {
		t[i] = hx.EncS(p)
	}
	return "meta(" + strings.Join(t, ">") + ";" + hx.EncS(val) + ")"
}

func (r *request) header(name string) (string, bool) {
	name = strings.ToLower(name)
	for _, h := range r.headers {
		if h[0] == name {
			return h[1], true
		}
	}
	return "", false
}

type wireCaller struct {
	principal string
	xfcc      *string
}

// ---------------------------------------------------------------- regex (RE2 full match, as Envoy safe_regex)

var reCache = map[string]*regexp.Regexp{}
var reBad = map[string]bool{}

func fullMatch(pat, s string) (bool, bool) {
	if reBad[pat] {
		return false, false
	}
	re, ok := reCache[pat]
	if !ok {
		var err error
		re, err = regexp.Compile(`^(?:` + pat + `)$`)
		if err != nil {
			reBad[pat] = true
			return false, false
		}
		reCache[pat] = re
	}
	return re.MatchString(s), true
}

// asciiLower is what Envoy's ignore_case does (absl ASCII case folding).
func asciiLower(s string) string {
	b := []byte(s)
	for i, c := range b {
		if c >= 'A' && c <= 'Z' {
			b[i] = c + 32
		}
	}
	return string(b)
}

type evalCtx struct {
	badRegex []string
	unknown  []string
}

func (e *evalCtx) strMatch(m *envoy_matcher_v3.StringMatcher, v string) bool {
	ic := m.GetIgnoreCase()
	switch p := m.GetMatchPattern().(type) {
	case *envoy_matcher_v3.StringMatcher_Exact:
		if ic {
			return asciiLower(v) == asciiLower(p.Exact)
		}
		return v == p.Exact
	case *envoy_matcher_v3.StringMatcher_Prefix:
		if ic {
			return strings.HasPrefix(asciiLower(v), asciiLower(p.Prefix))
		}
		return strings.HasPrefix(v, p.Prefix)
	case *envoy_matcher_v3.StringMatcher_Suffix:
		if ic {
			return strings.HasSuffix(asciiLower(v), asciiLower(p.Suffix))
		}
		return strings.HasSuffix(v, p.Suffix)
	case *envoy_matcher_v3.StringMatcher_Contains:
		if ic {
			return strings.Contains(asciiLower(v), asciiLower(p.Contains))
		}
		return strings.Contains(v, p.Contains)
	case *envoy_matcher_v3.StringMatcher_SafeRegex:
		ok, valid := fullMatch(p.SafeRegex.GetRegex(), v)
		if !valid {
			e.badRegex = append(e.badRegex, p.SafeRegex.GetRegex())
		}
		return ok
	default:
		e.unknown = append(e.unknown, fmt.Sprintf("string-matcher %T", p))
		return false
	}
}

// hdrMatch: Envoy HeaderUtility::matchHeaders. A missing header matches only present_match+invert.
func (e *evalCtx) hdrMatch(h *envoy_route_v3.HeaderMatcher, val string, present bool) bool {
	inv := h.GetInvertMatch()
	switch s := h.GetHeaderMatchSpecifier().(type) {
	case *envoy_route_v3.HeaderMatcher_PresentMatch:
		if !present {
			if inv {
				return s.PresentMatch
			}
			return !s.PresentMatch
		}
		return s.PresentMatch != inv
	case *envoy_route_v3.HeaderMatcher_StringMatch:
		if !present {
			return false
		}
		return e.strMatch(s.StringMatch, val) != inv
	default:
		e.unknown = append(e.unknown, fmt.Sprintf("header-matcher %T", s))
		return false
	}
}

func (e *evalCtx) evalPrincipal(p *envoy_rbac_v3.Principal, c *wireCaller, r *request) bool {
	switch id := p.GetIdentifier().(type) {
	case *envoy_rbac_v3.Principal_AndIds:
		for _, x := range id.AndIds.GetIds() {
			if !e.evalPrincipal(x, c, r) {
				return false
			}
		}
		return true
	case *envoy_rbac_v3.Principal_OrIds:
		for _, x := range id.OrIds.GetIds() {
			if e.evalPrincipal(x, c, r) {
				return true
			}
		}
		return false
	case *envoy_rbac_v3.Principal_NotId:
		return !e.evalPrincipal(id.NotId, c, r)
	case *envoy_rbac_v3.Principal_Any:
		return id.Any
	case *envoy_rbac_v3.Principal_Authenticated_:
		if id.Authenticated.GetPrincipalName() == nil {
			return true
		}
		return e.strMatch(id.Authenticated.GetPrincipalName(), c.principal)
	case *envoy_rbac_v3.Principal_Metadata:
		path, val, ok := metaParts(id.Metadata)
		if !ok {
			e.unknown = append(e.unknown, "principal metadata matcher")
			return false
		}
		return r.has(path, val)
	case *envoy_rbac_v3.Principal_Header:
		if strings.EqualFold(id.Header.GetName(), "x-forwarded-client-cert") {
			if c.xfcc == nil {
				return e.hdrMatch(id.Header, "", false)
			}
			return e.hdrMatch(id.Header, *c.xfcc, true)
		}
		v, ok := r.header(id.Header.GetName())
		return e.hdrMatch(id.Header, v, ok)
	default:
		e.unknown = append(e.unknown, fmt.Sprintf("principal %T", id))
		return false
	}
}

func (e *evalCtx) evalPermission(p *envoy_rbac_v3.Permission, r *request) bool {
	switch ru := p.GetRule().(type) {
	case *envoy_rbac_v3.Permission_AndRules:
		for _, x := range ru.AndRules.GetRules() {
			if !e.evalPermission(x, r) {
				return false
			}
		}
		return true
	case *envoy_rbac_v3.Permission_OrRules:
		for _, x := range ru.OrRules.GetRules() {
			if e.evalPermission(x, r) {
				return true
			}
		}
		return false
	case *envoy_rbac_v3.Permission_NotRule:
		return !e.evalPermission(ru.NotRule, r)
	case *envoy_rbac_v3.Permission_Any:
		return ru.Any
	case *envoy_rbac_v3.Permission_UrlPath:
		pm, ok := ru.UrlPath.GetRule().(*envoy_matcher_v3.PathMatcher_Path)
		if !ok {
			e.unknown = append(e.unknown, "path-matcher")
			return false
		}
		return e.strMatch(pm.Path, r.path)
	case *envoy_rbac_v3.Permission_Header:
		v, ok := r.header(ru.Header.GetName())
		return e.hdrMatch(ru.Header, v, ok)
	case *envoy_rbac_v3.Permission_Metadata:
		path, val, ok := metaParts(ru.Metadata)
		if !ok {
			e.unknown = append(e.unknown, "permission metadata matcher")
			return false
		}
		return r.has(path, val)
	default:
		e.unknown = append(e.unknown, fmt.Sprintf("permission %T", ru))
		return false
	}
}

// evalRBAC: Envoy RBAC engine. ALLOW: allowed iff some policy matches; DENY: allowed iff none.
func (e *evalCtx) evalRBAC(rb *envoy_rbac_v3.RBAC, c *wireCaller, r *request) bool {
	hit := false
	for _, pol := range rb.GetPolicies() {
		pr := false
		for _, p := range pol.GetPrincipals() {
			if e.evalPrincipal(p, c, r) {
				pr = true
				break
			}
		}
		if !pr {
			continue
		}
		for _, p := range pol.GetPermissions() {
			if e.evalPermission(p, r) {
				hit = true
				break
			}
		}
		if hit {
			break
		}
	}
	if rb.GetAction() == envoy_rbac_v3.RBAC_ALLOW {
		return hit
	}
	return !hit
}

// ---------------------------------------------------------------- canonical printing

func sStrM(m *envoy_matcher_v3.StringMatcher) string {
	ic := hx.EncBool(m.GetIgnoreCase())
	switch p := m.GetMatchPattern().(type) {
	case *envoy_matcher_v3.StringMatcher_Exact:
		return "ex[" + hx.EncS(p.Exact) + ";" + ic + "]"
	case *envoy_matcher_v3.StringMatcher_Prefix:
		return "pf[" + hx.EncS(p.Prefix) + ";" + ic + "]"
	case *envoy_matcher_v3.StringMatcher_Suffix:
		return "sf[" + hx.EncS(p.Suffix) + ";" + ic + "]"
	case *envoy_matcher_v3.StringMatcher_Contains:
		return "co[" + hx.EncS(p.Contains) + ";" + ic + "]"
	case *envoy_matcher_v3.StringMatcher_SafeRegex:
		if m.GetIgnoreCase() {
			return "re-ic[" + hx.EncS(p.SafeRegex.GetRegex()) + "]"
		}
		return "re[" + hx.EncS(p.SafeRegex.GetRegex()) + "]"
	default:
		return fmt.Sprintf("strm?%T", p)
	}
}

func sHdrM(h *envoy_route_v3.HeaderMatcher) string {
	var spec string
	switch s := h.GetHeaderMatchSpecifier().(type) {
	case *envoy_route_v3.HeaderMatcher_PresentMatch:
		if s.PresentMatch {
			spec = "present"
		} else {
			spec = "absent"
		}
	case *envoy_route_v3.HeaderMatcher_StringMatch:
		spec = sStrM(s.StringMatch)
	default:
		spec = fmt.Sprintf("spec?%T", s)
	}
	return "hdr(" + hx.EncS(h.GetName()) + "," + spec + "," + hx.EncBool(h.GetInvertMatch()) + ")"
}

func sPm(p *envoy_rbac_v3.Permission) string {
	switch ru := p.GetRule().(type) {
	case *envoy_rbac_v3.Permission_Any:
		if ru.Any {
			return "any"
		}
		return "any-false"
	case *envoy_rbac_v3.Permission_UrlPath:
		pm, ok := ru.UrlPath.GetRule().(*envoy_matcher_v3.PathMatcher_Path)
		if !ok {
			return "path?"
		}
		return "path(" + sStrM(pm.Path) + ")"
	case *envoy_rbac_v3.Permission_Header:
		return sHdrM(ru.Header)
	case *envoy_rbac_v3.Permission_Metadata:
		return sMeta(ru.Metadata)
	case *envoy_rbac_v3.Permission_AndRules:
		return "and(" + sPms(ru.AndRules.GetRules()) + ")"
	case *envoy_rbac_v3.Permission_OrRules:
		return "or(" + sPms(ru.OrRules.GetRules()) + ")"
	case *envoy_rbac_v3.Permission_NotRule:
		return "not(" + sPm(ru.NotRule) + ")"
	default:
		return fmt.Sprintf("pm?%T", ru)
	}
}

func sPms(l []*envoy_rbac_v3.Permission) string {
	t := make([]string, len(l))
	for i, p := range l {
		t[i] = sPm(p)
	}
	return strings.Join(t, ",")
}

func sPr(p *envoy_rbac_v3.Principal) string {
	switch id := p.GetIdentifier().(type) {
	case *envoy_rbac_v3.Principal_Authenticated_:
		sm := id.Authenticated.GetPrincipalName()
		if re, ok := sm.GetMatchPattern().(*envoy_matcher_v3.StringMatcher_SafeRegex); ok && !sm.GetIgnoreCase() {
			return "auth(" + hx.EncS(re.SafeRegex.GetRegex()) + ")"
		}
		return "auth?(" + sStrM(sm) + ")"
	case *envoy_rbac_v3.Principal_Header:
		h := id.Header
		if h.GetName() == "x-forwarded-client-cert" && !h.GetInvertMatch() {
			if s, ok := h.GetHeaderMatchSpecifier().(*envoy_route_v3.HeaderMatcher_StringMatch); ok {
				if re, ok := s.StringMatch.GetMatchPattern().(*envoy_matcher_v3.StringMatcher_SafeRegex); ok && !s.StringMatch.GetIgnoreCase() {
					return "xfcc(" + hx.EncS(re.SafeRegex.GetRegex()) + ")"
				}
			}
		}
		return "hdr?" + sHdrM(h)
	case *envoy_rbac_v3.Principal_Metadata:
		return sMeta(id.Metadata)
	case *envoy_rbac_v3.Principal_AndIds:
		return "and(" + sPrs(id.AndIds.GetIds()) + ")"
	case *envoy_rbac_v3.Principal_OrIds:
		return "or(" + sPrs(id.OrIds.GetIds()) + ")"
	case *envoy_rbac_v3.Principal_NotId:
		return "not(" + sPr(id.NotId) + ")"
	default:
		return fmt.Sprintf("pr?%T", id)
	}
}

func sPrs(l []*envoy_rbac_v3.Principal) string {
	t := make([]string, len(l))
	for i, p := range l {
		t[i] = sPr(p)
	}
	return strings.Join(t, ",")
}

// sRBAC prints the policy map in a fixed order: layer-7 policies by index, then layer 4.
func sRBAC(rb *envoy_rbac_v3.RBAC) string {
	type ent struct {
		idx  int
		name string
	}
	var ents []ent
	for name := range rb.GetPolicies() {
		switch {
		case name == "consul-intentions-layer4":
			ents = append(ents, ent{1 << 30, "L4"})
		case strings.HasPrefix(name, "consul-intentions-layer7-"):
			n, err := strconv.Atoi(strings.TrimPrefix(name, "consul-intentions-layer7-"))
			if err != nil {
				ents = append(ents, ent{1<<30 + 1, "?" + name})
			} else {
				ents = append(ents, ent{n, "L7-" + strconv.Itoa(n)})
			}
		default:
			ents = append(ents, ent{1<<30 + 1, "?" + name})
		}
	}
	sort.Slice(ents, func(i, j int) bool {
		if ents[i].idx != ents[j].idx {
			return ents[i].idx < ents[j].idx
		}
		return ents[i].name < ents[j].name
	})
	var b strings.Builder
	switch rb.GetAction() {
	case envoy_rbac_v3.RBAC_ALLOW:
		b.WriteString("ALLOW[")
	case envoy_rbac_v3.RBAC_DENY:
		b.WriteString("DENY[")
	default:
		b.WriteString(rb.GetAction().String() + "[")
	}
	for _, e := range ents {
		var pol *envoy_rbac_v3.Policy
		switch {
		case e.name == "L4":
			pol = rb.Policies["consul-intentions-layer4"]
		case strings.HasPrefix(e.name, "L7-"):
			pol = rb.Policies["consul-intentions-layer7-"+strings.TrimPrefix(e.name, "L7-")]
		default:
			pol = rb.Policies[strings.TrimPrefix(e.name, "?")]
		}
		b.WriteString(e.name + "{" + sPrs(pol.GetPrincipals()) + "#" + sPms(pol.GetPermissions()) + "}")
	}
	b.WriteString("]")
	return b.String()
}
