//go:build verif

// C14 harness: the proxy authorization policy enforces exactly the intention decision.
//
// For generated intention sets (service-intentions config entries normalised and validated by
// the real structs code, plus a hand-built malformed stream) it calls the real
// makeRBACNetworkFilter / makeRBACHTTPFilter / makeRBACRules of agent/xds, prints the returned
// envoy RBAC proto canonically, evaluates it with an independent evaluator (Envoy semantics, Go
// regexp = RE2) for every caller and request of a universe built around the names mentioned, and
// prints
//   rbac=<policy> eval=<bits> spec=<bits>
// for the Lean model (CV.Rbac: translate, evalRbac, specAllow) to reproduce. Monitors (model
// independent): the evaluated proto must agree with the intention decision for every valid
// caller; the filter must wrap exactly the rules; the result must not depend on input order.
package main

import (
	"encoding/hex"
	"fmt"
	"net/url"
	"os"
	"regexp"
	"strings"

	envoy_rbac_v3 "github.com/envoyproxy/go-control-plane/envoy/config/rbac/v3"
	envoy_http_rbac_v3 "github.com/envoyproxy/go-control-plane/envoy/extensions/filters/http/rbac/v3"
	envoy_hcm_v3 "github.com/envoyproxy/go-control-plane/envoy/extensions/filters/network/http_connection_manager/v3"
	envoy_network_rbac_v3 "github.com/envoyproxy/go-control-plane/envoy/extensions/filters/network/rbac/v3"
	testinf "github.com/mitchellh/go-testing-interface"
	"google.golang.org/protobuf/proto"

	"github.com/hashicorp/consul/agent/proxycfg"

	"github.com/hashicorp/consul/agent/structs"
	"github.com/hashicorp/consul/agent/xds"
	"github.com/hashicorp/consul/internal/verifharness/hx"
)

const dest = "api"

// jwtPct: chance (percent) that a generated config entry carries an entry-level JWT requirement;
// 0 also strips permission-level requirements (public-listener stream: the listener code would
// need real JWKS material for its jwt_authn filter)
var jwtPct = 25

// commaNames: generate callers named `<source>,x` (known finding rbac:xfcc-service-name-with-comma)
const commaNames = true

func urlUnsafe(s string) bool {
	u := url.URL{Path: "/" + s}
	return u.EscapedPath() != "/"+s
}

// ---------------------------------------------------------------- running the real code

type result struct {
	rb    *envoy_rbac_v3.RBAC
	panic string
	err   error
}

func cloneIxns(xs []*structs.Intention) structs.SimplifiedIntentions {
	out := make(structs.SimplifiedIntentions, len(xs))
	for i, x := range xs {
		out[i] = x.Clone()
	}
	return out
}

func callRules(e envT, xs []*structs.Intention, dflt, http bool) (res result) {
	defer func() {
		if p := recover(); p != nil {
			res = result{panic: fmt.Sprint(p)}
		}
	}()
	rb, err := xds.VerifMakeRBACRules(cloneIxns(xs), dflt, e.localTD, "dc1", "default", http, e.proto(), e.providerMap())
	return result{rb: rb, err: err}
}

// callFilter goes through the functions the listener code calls and unwraps the typed config.
func callFilter(e envT, xs []*structs.Intention, dflt, http bool) (res result) {
	defer func() {
		if p := recover(); p != nil {
			res = result{panic: fmt.Sprint(p)}
		}
	}()
	if http {
		f, err := xds.VerifMakeRBACHTTPFilter(cloneIxns(xs), dflt, e.localTD, "dc1", "default", e.proto(), e.providerMap())
		if err != nil {
			return result{err: err}
		}
		var cfg envoy_http_rbac_v3.RBAC
		if err := f.GetTypedConfig().UnmarshalTo(&cfg); err != nil {
			return result{err: err}
		}
		if f.GetName() != "envoy.filters.http.rbac" || cfg.GetShadowRules() != nil {
			return result{err: fmt.Errorf("unexpected http filter %q", f.GetName())}
		}
		return result{rb: cfg.GetRules()}
	}
	f, err := xds.VerifMakeRBACNetworkFilter(cloneIxns(xs), dflt, e.localTD, "dc1", "default", e.proto())
	if err != nil {
		return result{err: err}
	}
	var cfg envoy_network_rbac_v3.RBAC
	if err := f.GetTypedConfig().UnmarshalTo(&cfg); err != nil {
		return result{err: err}
	}
	if f.GetName() != "envoy.filters.network.rbac" || cfg.GetShadowRules() != nil {
		return result{err: fmt.Errorf("unexpected network filter %q", f.GetName())}
	}
	return result{rb: cfg.GetRules()}
}

// callListener builds a connect-proxy config snapshot carrying the intentions, runs the real
// listener code and digs the RBAC rules out of the public listener. It also checks where the
// authorization filter sits.
func callListener(e envT, xs []*structs.Intention, dflt, http bool, snap *proxycfg.ConfigSnapshot) (res result, placement string) {
	defer func() {
		if p := recover(); p != nil {
			res = result{panic: fmt.Sprint(p)}
		}
	}()
	snap.Address = "10.0.0.1" // an empty address makes the listener code ask the local agent for its bind address
	snap.ConnectProxy.Intentions = cloneIxns(xs)
	snap.ConnectProxy.IntentionsSet = true
	snap.IntentionDefaultAllow = dflt
	snap.ConnectProxy.InboundPeerTrustBundles = e.proto()
	snap.ConnectProxy.InboundPeerTrustBundlesSet = true
	l, err := xds.VerifPublicListener(snap)
	if err != nil {
		return result{err: err}, ""
	}
	var found *envoy_rbac_v3.RBAC
	for _, fc := range l.GetFilterChains() {
		fs := fc.GetFilters()
		if len(fs) == 0 {
			return result{err: fmt.Errorf("empty filter chain")}, ""
		}
		if !http {
			if fs[0].GetName() != "envoy.filters.network.rbac" {
				return result{err: fmt.Errorf("first network filter is %q", fs[0].GetName())}, "authz-filter-not-first"
			}
			var cfg envoy_network_rbac_v3.RBAC
			if err := fs[0].GetTypedConfig().UnmarshalTo(&cfg); err != nil {
				return result{err: err}, ""
			}
			found = cfg.GetRules()
			continue
		}
		var hcm envoy_hcm_v3.HttpConnectionManager
		last := fs[len(fs)-1]
		if err := last.GetTypedConfig().UnmarshalTo(&hcm); err != nil {
			return result{err: err}, ""
		}
		seenRouter := false
		for _, hf := range hcm.GetHttpFilters() {
			switch hf.GetName() {
			case "envoy.filters.http.router":
				seenRouter = true
			case "envoy.filters.http.rbac":
				if seenRouter {
					placement = "authz-filter-after-router"
				}
				var cfg envoy_http_rbac_v3.RBAC
				if err := hf.GetTypedConfig().UnmarshalTo(&cfg); err != nil {
					return result{err: err}, ""
				}
				found = cfg.GetRules()
			}
		}
		for _, f := range fs {
			if f.GetName() == "envoy.filters.network.rbac" {
				placement = "network-rbac-on-http-listener"
			}
		}
	}
	if found == nil {
		return result{err: fmt.Errorf("no RBAC filter in the public listener")}, "authz-filter-missing"
	}
	return result{rb: found}, placement
}

// ---------------------------------------------------------------- one rbac case

type rbacCase struct {
	env     envT
	ixns    []*structs.Intention
	dflt    bool
	http    bool
	callers []caller
	reqs    []*request
	canon   bool // precedences are the ones UpdatePrecedence computes
	snap    *proxycfg.ConfigSnapshot // when set, the rules are taken from the public listener
}

func (c *rbacCase) op() string {
	return fmt.Sprintf("rbac %s %s %s %s %s %s %s %s", hx.EncBool(c.dflt), hx.EncBool(c.http), hx.EncS(c.env.localTD),
		encBundles(c.env.bundles), encProviders(c.env.providers), encIxns(c.ixns), encCallers(c.callers), encReqs(c.reqs, allPerms(c.ixns)))
}

var hexTok = regexp.MustCompile(`\bx((?:[0-9a-f]{2})+)\b`)

// readable decodes the hex tokens of a canonical line for violation descriptions
func readable(s string) string {
	return hexTok.ReplaceAllStringFunc(s, func(t string) string {
		b, err := hex.DecodeString(t[1:])
		if err != nil {
			return t
		}
		return "`" + string(b) + "`"
	})
}

func bitsOf(bs []bool) string {
	b := make([]byte, len(bs))
	for i, x := range bs {
		b[i] = '0'
		if x {
			b[i] = '1'
		}
	}
	return string(b)
}

func mentioned(xs []*structs.Intention, peerOK func(string) bool, name string) bool {
	for _, x := range xs {
		if x.SourceName == name && peerOK(x.SourcePeer) {
			return true
		}
	}
	return false
}

func effectiveName(c caller) string {
	if c.hasFwd && len(c.fwd) > 0 && c.direct.kind == 'g' {
		return c.fwd[0].uri.name
	}
	return c.direct.name
}

func (c *rbacCase) validCaller(k caller) bool {
	if !c.env.ok() {
		return false
	}
	if k.direct.kind == 'r' || !c.env.knownTD(k.direct.td) {
		return false
	}
	if k.hasFwd {
		for _, e := range k.fwd {
			if e.uri.kind == 'r' || !c.env.knownTD(e.uri.td) {
				return false
			}
			if strings.ContainsAny(e.pre, ",") || strings.Contains(e.pre, ";URI=") {
				return false
			}
		}
	}
	return true
}

func runRBAC(run *hx.Run, c *rbacCase) {
	op := c.op()
	reqs := c.reqs
	if !c.http {
		reqs = []*request{{}}
	}
	// reference decision (printed as spec=, and used by the monitor)
	spec := make([][]bool, len(c.callers))
	for i, k := range c.callers {
		for _, q := range reqs {
			d, dec := decide(c.env, c.ixns, c.dflt, c.http, k, q)
			spec[i] = append(spec[i], d)
			if c.http && dec != nil && dec.JWT != nil && len(dec.JWT.Providers) > 0 {
				if jwtSat(c.env, dec.JWT, q) {
					run.Tag("decider-jwt:met")
				} else {
					run.Tag("decider-jwt:not-met")
				}
			}
		}
	}
	specS := make([]string, len(spec))
	for i := range spec {
		specS[i] = bitsOf(spec[i])
	}
	res := callFilter(c.env, c.ixns, c.dflt, c.http)
	if c.snap != nil {
		viaFilter := res
		var placement string
		res, placement = callListener(c.env, c.ixns, c.dflt, c.http, c.snap)
		if placement != "" {
			run.Violate("listeners:"+placement, "public listener of a connect proxy: "+placement, []string{op})
		}
		if (res.rb == nil) != (viaFilter.rb == nil) || (res.rb != nil && !proto.Equal(res.rb, viaFilter.rb)) {
			run.Violate("listeners:public-listener-rbac-differs-from-filter", "rules in the public listener differ from makeRBAC*Filter on the same input", []string{op})
		}
	}
	nontrivial := len(c.ixns) > 0
	run.Case(op, nontrivial)
	if res.panic != "" {
		run.Tag("result:panic")
		run.Line(op, "rbac=panic eval=- spec="+strings.Join(specS, "."))
		return
	}
	wantErr := expectError(c.env, c.ixns, c.http)
	if res.err != nil {
		run.Tag("result:error")
		run.Line(op, "rbac=error eval=- spec="+strings.Join(specS, "."))
		if !wantErr {
			run.Violate("rbac:unexpected-error", res.err.Error(), []string{op})
		}
		return
	}
	if wantErr {
		run.Violate("rbac:unknown-jwt-provider-accepted", "an intention names a JWT provider without jwt-provider entry, no error", []string{op})
	}
	rb := res.rb
	ctx := &evalCtx{}
	evalS := make([]string, len(c.callers))
	ev := make([][]bool, len(c.callers))
	for i, k := range c.callers {
		w := k.wire()
		for _, q := range reqs {
			ev[i] = append(ev[i], ctx.evalRBAC(rb, w, q))
		}
		evalS[i] = bitsOf(ev[i])
	}
	run.Line(op, "rbac="+sRBAC(rb)+" eval="+strings.Join(evalS, ".")+" spec="+strings.Join(specS, "."))

	// ---- tags
	run.Tag(fmt.Sprintf("ixns:%d", len(c.ixns)))
	run.Tag(fmt.Sprintf("policies:%d", len(rb.GetPolicies())))
	run.Tag("action:" + rb.GetAction().String())
	if c.http {
		run.Tag("listener:http")
	} else {
		run.Tag("listener:tcp")
	}
	if expectXFCC(c.env, c.http, c.ixns) {
		run.Tag("mode:xfcc")
	}
	if !c.env.ok() {
		run.Tag("env:colliding-peer-identities")
	}
	s := sRBAC(rb)
	if strings.Contains(s, "not(auth") {
		run.Tag("shape:not-source")
	}
	if strings.Contains(s, "not(xfcc") {
		run.Tag("shape:not-xfcc-source")
	}
	if strings.Contains(s, "L7-") {
		run.Tag("shape:l7-policy")
	}
	if strings.Contains(s, "meta(") {
		run.Tag("shape:jwt-metadata")
	}
	if strings.Contains(s, "and(path") || strings.Contains(s, "and(hdr") || strings.Contains(s, "not(path") || strings.Contains(s, "not(hdr") || strings.Contains(s, "not(and") {
		run.Tag("shape:not-permission")
	}
	for _, x := range c.ixns {
		switch {
		case len(x.Permissions) > 0 && !c.http:
			run.Tag("ixn:l7-on-tcp")
		case len(x.Permissions) > 0:
			run.Tag("ixn:l7")
		case x.Action == structs.IntentionActionAllow:
			run.Tag("ixn:allow")
		default:
			run.Tag("ixn:deny")
		}
		if x.SourcePeer != "" {
			run.Tag("ixn:peered")
		}
		if x.JWT != nil && len(x.JWT.Providers) > 0 {
			run.Tag("ixn:jwt")
		}
		for _, p := range x.Permissions {
			if p.JWT != nil && len(p.JWT.Providers) > 0 {
				run.Tag("perm:jwt")
			}
		}
		if x.SourceName == "*" {
			run.Tag("ixn:wild-source")
		}
		if x.DestinationName == "*" {
			run.Tag("ixn:wild-destination")
		}
	}

	// ---- monitors
	if len(ctx.badRegex) > 0 || len(ctx.unknown) > 0 {
		run.Violate("rbac:unevaluable-policy", fmt.Sprintf("bad regex %q unknown nodes %q", ctx.badRegex, ctx.unknown), []string{op})
	}
	if want := envoy_rbac_v3.RBAC_ALLOW; (c.dflt && rb.GetAction() != envoy_rbac_v3.RBAC_DENY) || (!c.dflt && rb.GetAction() != want) {
		run.Violate("rbac:action-is-not-complement-of-default", "default allow="+hx.EncBool(c.dflt)+" action="+rb.GetAction().String(), []string{op})
	}
	// the filter wraps exactly what makeRBACRules returns, and the input order is irrelevant
	rev := make([]*structs.Intention, len(c.ixns))
	for i, x := range c.ixns {
		rev[len(c.ixns)-1-i] = x
	}
	r2 := callRules(c.env, rev, c.dflt, c.http)
	if r2.rb == nil || !proto.Equal(r2.rb, rb) {
		run.Violate("rbac:filter-or-order-dependent", "makeRBACRules on the reversed input differs from the filter's rules", []string{op})
	}
	if c.canon {
		// with the precedences of UpdatePrecedence the deciding intention is the most specific
		// matching one: exact destination before wildcard destination, then exact source
		xf := expectXFCC(c.env, c.http, c.ixns)
		rank := func(x *structs.Intention) int {
			n := 0
			if x.DestinationName != "*" {
				n += 2
			}
			if x.SourceName != "*" {
				n++
			}
			return n
		}
		for _, k := range c.callers {
			_, dec := decide(c.env, c.ixns, c.dflt, c.http, k, reqs[0])
			for _, x := range c.ixns {
				if sourceMatches(c.env, xf, x.SourcePeer, x.SourceName, k) && (dec == nil || rank(x) > rank(dec)) {
					run.Violate("intentions:decider-is-not-most-specific", fmt.Sprintf("caller %s: %v matches and is more specific than the deciding intention", k.wire().principal, x), []string{op})
				}
			}
		}
	}
	for i, k := range c.callers {
		valid := c.validCaller(k)
		run.Tag("caller:" + k.class)
		if !valid {
			run.Tag("caller-not-monitored:" + k.class)
		}
		for j := range reqs {
			if ev[i][j] == spec[i][j] {
				continue
			}
			if !valid {
				run.Tag("note:unmonitored-caller-diverges:" + k.class)
				continue
			}
			if !c.canon {
				run.Tag("note:noncanonical-precedence-diverges")
			}
			got, want := "denies", "allow"
			if ev[i][j] {
				got, want = "allows", "deny"
			}
			name := effectiveName(k)
			sig := fmt.Sprintf("rbac:policy-%s-intentions-%s:%s", got, want, k.class)
			unsafeSource := false
			for _, x := range c.ixns {
				if urlUnsafe(x.SourceName) {
					unsafeSource = true
				}
			}
			if urlUnsafe(name) && unsafeSource {
				// the caller's certificate carries the escaped form of its name and some source pattern
				// is built from an unescaped name: every confusion between the two has this shape
				// (`a b` is not matched by source `a b`, but is matched by source `a%20b`)
				sig = "rbac:source-name-needs-url-escaping"
			} else if i := strings.IndexByte(name, ','); i > 0 && k.hasFwd && k.direct.kind == 'g' &&
				mentioned(c.ixns, func(p string) bool { return p != "" }, name[:i]) {
				sig = "rbac:xfcc-service-name-with-comma"
			}
			run.Violate(sig, fmt.Sprintf("caller %s (xfcc=%v) request %d: RBAC %s, intentions say %s; policy %s",
				k.wire().principal, k.hasFwd, j, got, want, readable(s)), []string{op})
			break
		}
	}
}

// ---------------------------------------------------------------- generators of rbac cases

func nearMisses(n string) []string {
	var out []string
	for i := 0; i < len(n); i++ {
		if strings.ContainsRune(`\.+*?()|[]{}^$`, rune(n[i])) {
			out = append(out, n[:i]+"x"+n[i+1:])
			out = append(out, n[:i]+n[i+1:])
		}
	}
	out = append(out, n+"x", "x"+n)
	if commaNames {
		out = append(out, n+",x")
	}
	if len(n) > 1 {
		out = append(out, n[:len(n)-1])
	}
	return out
}

const xfccPre = `By=spiffe://` + localTD + `/gateway/mesh/dc/dc1;Hash=2a2db78ac351a058;Cert="-----BEGIN%20CERTIFICATE-----";Chain="x";Subject=""`

func genCallers(r *hx.RNG, e envT, xs []*structs.Intention, http bool, max int) []caller {
	var names []string
	seen := map[string]bool{}
	add := func(n string) {
		if n != "*" && n != "" && !seen[n] && !strings.Contains(n, "/") {
			seen[n] = true
			names = append(names, n)
		}
	}
	var near []string
	for _, x := range xs {
		add(x.SourceName)
	}
	nm := len(names)
	for _, n := range names[:nm] {
		near = append(near, nearMisses(n)...)
	}
	hx.Shuffle(r, near)
	for _, n := range near {
		if len(names) >= nm+5 {
			break
		}
		add(n)
	}
	add("zzz")
	add(dest)
	isNear := func(n string) bool {
		for _, m := range names[:nm] {
			if m == n {
				return false
			}
		}
		return true
	}
	var out []caller
	peers := []bundle{}
	seenP := map[string]bool{}
	for i := len(e.bundles) - 1; i >= 0; i-- {
		if !seenP[e.bundles[i].peer] {
			seenP[e.bundles[i].peer] = true
			peers = append(peers, e.bundles[i])
		}
	}
	xf := expectXFCC(e, http, xs)
	for _, n := range names {
		nmiss := isNear(n)
		out = append(out, caller{direct: ident{kind: 's', td: e.localTD, ns: "default", dc: hx.Pick(r, dcPool), name: n}, class: "local", nearmiss: nmiss})
		for _, p := range peers {
			id := ident{kind: 's', td: p.td, ap: p.ap, ns: "default", dc: hx.Pick(r, dcPool), name: n}
			if xf || (http && r.Chance(20)) {
				gw := ident{kind: 'g', td: e.localTD, dc: "dc1"}
				k := caller{direct: gw, hasFwd: true, fwd: []xelem{{xfccPre, id}}, class: "xfcc", nearmiss: nmiss}
				if r.Chance(25) {
					k.fwd = append(k.fwd, xelem{xfccPre, ident{kind: 'g', td: e.localTD, dc: "dc1"}})
					k.class = "xfcc-2hops"
				}
				out = append(out, k)
				if r.Chance(30) {
					out = append(out, caller{direct: id, class: "peer-direct", nearmiss: nmiss})
				}
			} else {
				out = append(out, caller{direct: id, class: "peer", nearmiss: nmiss})
			}
		}
	}
	// special callers around one mentioned (or fresh) name
	n := names[r.Intn(len(names))]
	out = append(out,
		caller{direct: ident{kind: 's', td: e.localTD, ns: "other", dc: "dc1", name: n}, class: "other-namespace"},
		caller{direct: ident{kind: 's', td: e.localTD, ap: "ap9", ns: "default", dc: "dc1", name: n}, class: "other-partition"},
		caller{direct: ident{kind: 's', td: "ffffffff-0000-0000-0000-000000000000.consul", ns: "default", dc: "dc1", name: n}, class: "unknown-td"},
		caller{direct: ident{kind: 's', td: strings.Replace(e.localTD, ".", "x", 1), ns: "default", dc: "dc1", name: n}, class: "td-nearmiss"},
		caller{direct: ident{kind: 'g', td: e.localTD, dc: "dc1"}, class: "gateway-no-xfcc"},
		caller{direct: ident{kind: 'r', raw: "spiffe://" + e.localTD + "/ns/default/dc/dc1/svc/" + n + "/extra"}, class: "raw-extra-segment"},
	)
	if len(peers) > 0 {
		p := peers[r.Intn(len(peers))]
		id := ident{kind: 's', td: p.td, ap: p.ap, ns: "default", dc: "dc2", name: n}
		out = append(out,
			caller{direct: ident{kind: 'g', td: p.td, dc: "dc2"}, hasFwd: true, fwd: []xelem{{xfccPre, id}}, class: "xfcc-foreign-gateway"},
			caller{direct: ident{kind: 's', td: e.localTD, ns: "default", dc: "dc1", name: n}, hasFwd: true, fwd: []xelem{{xfccPre, id}}, class: "local-with-xfcc"},
			caller{direct: ident{kind: 's', td: p.td, ap: strings.ToUpper(p.ap), ns: "default", dc: "dc2", name: n}, class: "peer-upper-partition"},
			caller{direct: ident{kind: 'g', td: e.localTD, dc: "dc1"}, hasFwd: true,
				fwd: []xelem{{`By=x;Subject="CN=a,O=b"`, id}}, class: "xfcc-comma-in-subject"},
		)
	}
	if len(out) > max {
		// keep the first callers (mentioned names) and a random sample of the rest
		head, rest := out[:max/2], append([]caller(nil), out[max/2:]...)
		hx.Shuffle(r, rest)
		out = append(append([]caller(nil), head...), rest[:max-max/2]...)
	}
	return out
}

func pickBundles(r *hx.RNG) []bundle {
	var bs []bundle
	switch r.Intn(10) {
	case 0, 1, 2:
	case 3, 4:
		bs = []bundle{bundlePool[0]}
	case 5, 6:
		bs = []bundle{bundlePool[0], bundlePool[1]}
	case 7:
		bs = []bundle{bundlePool[1], bundlePool[2], bundlePool[6]}
	case 8:
		bs = []bundle{bundlePool[0], bundlePool[1], {"p1", tdP2, "ap7"}} // duplicate peer name: last wins
	default:
		for n := 1 + r.Intn(3); n > 0; n-- {
			bs = append(bs, hx.Pick(r, bundlePool))
		}
	}
	hx.Shuffle(r, bs)
	return bs
}

// genEntries builds the service-intentions entries for the destination and for "*" and lets the
// real code normalise (precedence) and validate them.
func genCaseCE(r *hx.RNG, run *hx.Run, names []string) *rbacCase {
	c := &rbacCase{dflt: r.Bool(), http: r.Chance(60), canon: true}
	c.env = envT{localTD: localTD, bundles: pickBundles(r)}
	if jwtPct > 0 {
		switch r.Intn(6) {
		case 0:
			c.env.providers = providerPool[:2]
		case 1:
			c.env.providers = nil
		default:
			c.env.providers = providerPool
		}
	}
	peerChoices := []string{"", "", "", ""}
	for _, b := range c.env.bundles {
		peerChoices = append(peerChoices, b.peer)
	}
	if r.Chance(20) {
		peerChoices = append(peerChoices, "pm") // peer without trust bundle
	}
	l7ok := c.http || r.Chance(8)
	mk := func(dst string, n int) []*structs.Intention {
		for attempt := 0; attempt < 6; attempt++ {
			e := &structs.ServiceIntentionsConfigEntry{Kind: structs.ServiceIntentions, Name: dst}
			seen := map[string]bool{}
			for i := 0; i < n; i++ {
				name := hx.Pick(r, names)
				if r.Chance(25) {
					name = "*"
				}
				peer := hx.Pick(r, peerChoices)
				if seen[peer+"/"+name] {
					continue
				}
				seen[peer+"/"+name] = true
				s := &structs.SourceIntention{Name: name, Peer: peer, Action: structs.IntentionActionAllow}
				if r.Bool() {
					s.Action = structs.IntentionActionDeny
				}
				if dst != "*" && l7ok && r.Chance(35) {
					s.Action = ""
					for k := 1 + r.Intn(3); k > 0; k-- {
						s.Permissions = append(s.Permissions, genPerm(r, true))
					}
				}
				e.Sources = append(e.Sources, s)
			}
			if len(e.Sources) == 0 {
				return nil
			}
			if r.Chance(jwtPct) && len(c.env.providers) > 0 {
				e.JWT = genJWT(r, true) // applies to every source of the entry
			}
			if jwtPct == 0 || len(c.env.providers) == 0 {
				for _, s := range e.Sources {
					for _, p := range s.Permissions {
						p.JWT = nil
					}
				}
			}
			if err := e.Normalize(); err != nil {
				run.Tag("entry:normalize-error")
				continue
			}
			if err := e.Validate(); err != nil {
				run.Tag("entry:invalid")
				continue
			}
			return e.ToIntentions()
		}
		return nil
	}
	c.ixns = append(c.ixns, mk(dest, r.Intn(6))...)
	c.ixns = append(c.ixns, mk("*", r.Intn(4))...)
	hx.Shuffle(r, c.ixns)
	return c
}

// genCaseRaw builds intentions by hand: arbitrary precedences, odd actions, permissions that
// validation would reject, wildcard peers (panic by contract). (peer, name, dst) stays unique.
func genCaseRaw(r *hx.RNG, names []string) *rbacCase {
	c := &rbacCase{dflt: r.Bool(), http: r.Chance(60)}
	c.env = envT{localTD: localTD, bundles: pickBundles(r), providers: providerPool}
	if r.Chance(10) {
		c.env.bundles = append(c.env.bundles, bundle{"*", tdOther, ""})
	}
	peerChoices := []string{"", "", ""}
	for _, b := range c.env.bundles {
		peerChoices = append(peerChoices, b.peer)
	}
	seen := map[string]bool{}
	for n := r.Intn(6); n > 0; n-- {
		x := &structs.Intention{SourceNS: "default", DestinationNS: "default", SourceType: structs.IntentionSourceConsul}
		x.SourceName = hx.Pick(r, names)
		if r.Chance(30) {
			x.SourceName = "*"
		}
		x.SourcePeer = hx.Pick(r, peerChoices)
		x.DestinationName = dest
		if r.Chance(35) {
			x.DestinationName = "*"
		}
		k := x.SourcePeer + "/" + x.SourceName + "/" + x.DestinationName
		if seen[k] {
			continue
		}
		seen[k] = true
		x.Action = hx.Pick(r, []structs.IntentionAction{"allow", "deny", "allow", "deny", "", "ALLOW"})
		if r.Chance(30) {
			for k := 1 + r.Intn(3); k > 0; k-- {
				x.Permissions = append(x.Permissions, genPerm(r, false))
			}
		}
		if r.Chance(20) {
			x.JWT = genJWT(r, true)
		}
		if r.Chance(50) {
			x.UpdatePrecedence()
		} else {
			x.Precedence = r.Intn(11)
		}
		c.ixns = append(c.ixns, x)
	}
	return c
}

func pickNames(r *hx.RNG, pool []string) []string {
	p := append([]string(nil), pool...)
	hx.Shuffle(r, p)
	return p[:2+r.Intn(3)]
}

func finishCase(r *hx.RNG, c *rbacCase, maxCallers, nReqs int) {
	c.callers = genCallers(r, c.env, c.ixns, c.http, maxCallers)
	if c.http {
		for i := 0; i < nReqs; i++ {
			c.reqs = append(c.reqs, genRequest(r))
		}
	}
}

// listenerStream: the same cases, but the rules are taken out of the public listener that
// the real listener code builds from a connect-proxy config snapshot.
func listenerStream(run *hx.Run, n, maxCallers int) {
	saved := jwtPct
	jwtPct = 0
	defer func() { jwtPct = saved }()
	snaps := map[bool]*proxycfg.ConfigSnapshot{}
	for _, http := range []bool{false, true} {
		protocol := "tcp"
		if http {
			protocol = "http"
		}
		func() {
			defer func() {
				if p := recover(); p != nil {
					run.Tag("listener:snapshot-unavailable")
				}
			}()
			snaps[http] = proxycfg.TestConfigSnapshot(&testinf.RuntimeT{}, func(ns *structs.NodeService) {
				ns.Proxy.Config["protocol"] = protocol
			}, nil)
		}()
	}
	for i := 0; i < n; i++ {
		r := run.RNG.Fork(uint64(5_000_000 + i))
		c := genCaseCE(r, run, pickNames(r, namePool))
		snap := snaps[c.http]
		if snap == nil {
			continue
		}
		c.snap = snap
		c.env.localTD = snap.Roots.TrustDomain
		finishCase(r, c, maxCallers, 4)
		run.Tag("stream:public-listener")
		runRBAC(run, c)
	}
}

// ---------------------------------------------------------------- exhaustive small scope

func exhaustive(run *hx.Run, maxSize int) {
	type key struct{ peer, name, dst string }
	var keys []key
	for _, dst := range []string{dest, "*"} {
		for _, peer := range []string{"", "p1"} {
			for _, name := range []string{"a", "b", "*"} {
				keys = append(keys, key{peer, name, dst})
			}
		}
	}
	perm := []*structs.IntentionPermission{
		{Action: structs.IntentionActionDeny, HTTP: &structs.IntentionHTTPPermission{PathPrefix: "/admin"}},
		{Action: structs.IntentionActionAllow, HTTP: &structs.IntentionHTTPPermission{PathPrefix: "/"}},
	}
	env := envT{localTD: localTD, bundles: []bundle{bundlePool[0]}}
	reqs := []*request{{path: "/admin/x", headers: [][2]string{{":method", "GET"}}}, {path: "/v1", headers: [][2]string{{":method", "GET"}}}}
	mkCallers := func(http, xf bool) []caller {
		var out []caller
		for _, n := range []string{"a", "b", "c"} {
			out = append(out, caller{direct: ident{kind: 's', td: localTD, ns: "default", dc: "dc1", name: n}, class: "local"})
			id := ident{kind: 's', td: tdP1, ns: "default", dc: "dc2", name: n}
			if xf {
				out = append(out, caller{direct: ident{kind: 'g', td: localTD, dc: "dc1"}, hasFwd: true, fwd: []xelem{{xfccPre, id}}, class: "xfcc"})
			} else {
				out = append(out, caller{direct: id, class: "peer"})
			}
		}
		return out
	}
	n := 0
	var rec func(start int, cur []*structs.Intention)
	emit := func(cur []*structs.Intention) {
		for _, dflt := range []bool{false, true} {
			for _, http := range []bool{false, true} {
				c := &rbacCase{env: env, ixns: cur, dflt: dflt, http: http, canon: true}
				c.callers = mkCallers(http, expectXFCC(env, http, cur))
				if http {
					c.reqs = reqs
				}
				runRBAC(run, c)
				n++
			}
		}
	}
	rec = func(start int, cur []*structs.Intention) {
		emit(cur)
		if len(cur) == maxSize {
			return
		}
		for i := start; i < len(keys); i++ {
			k := keys[i]
			acts := []int{0, 1}
			if k.dst != "*" {
				acts = append(acts, 2)
			}
			for _, a := range acts {
				x := &structs.Intention{SourceNS: "default", DestinationNS: "default", SourceName: k.name, SourcePeer: k.peer, DestinationName: k.dst}
				switch a {
				case 0:
					x.Action = structs.IntentionActionDeny
				case 1:
					x.Action = structs.IntentionActionAllow
				default:
					x.Permissions = perm
				}
				x.UpdatePrecedence()
				rec(i+1, append(append([]*structs.Intention(nil), cur...), x))
			}
		}
	}
	rec(0, nil)
	run.Extra["exhaustive"] = map[string]any{"max_intentions": maxSize, "source_keys": len(keys), "cases": n, "exhaustive": true}
}

// ---------------------------------------------------------------- small-op streams (regex layer, helpers)

func encSrc(s xds.VerifRBACSource) string {
	return hx.EncS(s.Name) + ";" + hx.EncS(s.Peer) + ";" + hx.EncS(s.ExportedPartition) + ";" + hx.EncS(s.TrustDomain)
}

func genSrc(r *hx.RNG, names []string) xds.VerifRBACSource {
	s := xds.VerifRBACSource{Name: hx.Pick(r, names), TrustDomain: localTD}
	if r.Chance(25) {
		s.Name = "*"
	}
	if r.Chance(40) {
		b := hx.Pick(r, bundlePool)
		s.Peer, s.TrustDomain, s.ExportedPartition = b.peer, b.td, b.ap
	}
	return s
}

func safeCall(f func() string) (out string) {
	defer func() {
		if p := recover(); p != nil {
			out = "panic"
		}
	}()
	return f()
}

func patternStream(run *hx.Run, r *hx.RNG, n int) {
	all := append(append([]string(nil), namePool...), unsafeNames...)
	all = append(all, "a.b+c$", `x\y`, "{}", "[", "", "a/b")
	for i := 0; i < n; i++ {
		s := genSrc(r, all)
		pat := xds.VerifMakeSpiffePattern(s)
		xp := `^[^,]+;URI=` + pat[1:len(pat)-1] + `(?:,.*)?$` // xfccPrincipal's construction, checked against the proto in rbac cases
		run.Line("pat "+encSrc(s), "p="+hx.EncS(pat)+" x="+hx.EncS(xp))
		run.Tag("op:pat")
		if _, err := regexp.Compile(pat); err != nil {
			run.Violate("rbac:pattern-does-not-compile", pat, []string{"pat " + encSrc(s)})
		}
		// subjects: the id of a caller, near misses of it, raw perturbations
		var subj string
		name := s.Name
		if name == "*" || r.Chance(50) {
			name = hx.Pick(r, all)
			if r.Chance(40) && s.Name != "*" {
				name = hx.Pick(r, nearMisses(s.Name))
			}
		}
		id := ident{kind: 's', td: s.TrustDomain, ap: s.ExportedPartition, ns: "default", dc: hx.Pick(r, dcPool), name: name}
		switch r.Intn(8) {
		case 0:
			id.td = strings.Replace(id.td, ".", "x", 1)
		case 1:
			id.ns = "other"
		case 2:
			id.ap = hx.Pick(r, []string{"", "ap1", "AP1", "ap2", "a.p", "axp", "default"})
		case 3:
			id.td = hx.Pick(r, []string{localTD, tdP1, tdP2})
		}
		subj = id.wire()
		switch r.Intn(10) {
		case 0:
			subj += "\n"
		case 1:
			subj += "/x"
		case 2:
			subj = "x" + subj
		case 3:
			subj = strings.Replace(subj, "/dc/", "/dc//", 1)
		}
		kind := hx.Pick(r, []string{"id", "id", "xfcc", "gw"})
		var re string
		switch kind {
		case "id":
			re = pat
		case "gw":
			re = xds.VerifMakeSpiffeMeshGatewayPattern(s.TrustDomain, "default")
			if r.Bool() {
				subj = ident{kind: 'g', td: id.td, dc: id.dc}.wire()
			}
			run.Line("gwpat "+hx.EncS(s.TrustDomain), "p="+hx.EncS(re))
		case "xfcc":
			re = xp
			pre := hx.Pick(r, []string{xfccPre, "By=x", "", `By=x;Subject="a,b"`, "By=x;URI=spiffe://evil"})
			subj = pre + ";URI=" + subj
			switch r.Intn(5) {
			case 0:
				subj += "," + xfccPre + ";URI=spiffe://" + localTD + "/gateway/mesh/dc/dc1"
			case 1:
				subj += ",a\nb"
			case 2:
				subj += ";x"
			}
		}
		m, valid := fullMatch(re, subj)
		if !valid {
			continue
		}
		opm := "match " + kind + " " + encSrc(s) + " " + hx.EncS(subj)
		run.Line(opm, "m="+hx.EncBool(m))
		run.Tag("op:match-" + kind + ":" + hx.EncBool(m))
		run.Case(opm, true)
	}
}

func helperStream(run *hx.Run, r *hx.RNG, n int) {
	all := append(append([]string(nil), namePool...), unsafeNames...)
	for b := 0; b < 256; b++ {
		s := "a" + string([]byte{byte(b)}) + "z"
		u := url.URL{Path: s}
		run.Line("esc "+hx.EncS(s), "s="+hx.EncS(u.EscapedPath()))
	}
	run.Tag("op:esc-all-bytes")
	for _, src := range []string{"web", "*", "w*", ""} {
		for _, dst := range []string{"api", "*", "a*"} {
			x := &structs.Intention{SourceNS: "default", DestinationNS: "default", SourceName: src, DestinationName: dst}
			x.UpdatePrecedence()
			run.Line("prec "+hx.EncS(src)+" "+hx.EncS(dst), fmt.Sprintf("p=%d", x.Precedence))
		}
	}
	for i := 0; i < n; i++ {
		// spiffe ids
		id := ident{kind: 's', td: hx.Pick(r, []string{localTD, tdP1, tdP2}), ap: hx.Pick(r, []string{"", "default", "ap1", "AP1", "Default"}),
			ns: "default", dc: hx.Pick(r, dcPool), name: hx.Pick(r, all)}
		if r.Chance(20) {
			id = ident{kind: 'g', td: id.td, dc: id.dc}
		}
		run.Line("spiffe "+id.enc(), "s="+hx.EncS(id.wire()))
		run.Tag("op:spiffe")
		// ixnSourceMatches
		a, b := genSrc(r, namePool[:4]), genSrc(r, namePool[:4])
		run.Line("srcmatch "+encSrc(a)+" "+encSrc(b), "m="+safeCall(func() string { return hx.EncBool(xds.VerifIxnSourceMatches(a, b)) }))
		run.Tag("op:srcmatch")
		// simplifyNotSourceSlice
		var l []xds.VerifRBACSource
		for k := r.Intn(5); k > 0; k-- {
			l = append(l, genSrc(r, namePool[:3]))
		}
		t := make([]string, len(l))
		for k, s := range l {
			t[k] = encSrc(s)
		}
		res := xds.VerifSimplifyNotSourceSlice(append([]xds.VerifRBACSource(nil), l...))
		t2 := make([]string, len(res))
		for k, s := range res {
			t2[k] = encSrc(s)
		}
		run.Line("simp "+hx.EncList(t), "s="+hx.EncList(t2))
		run.Tag("op:simp")
		// convertPermission on one permission
		p := genPerm(r, r.Chance(70))
		var reqs []*request
		for k := 0; k < 6; k++ {
			reqs = append(reqs, genRequest(r))
		}
		pm := xds.VerifConvertPermission(p)
		ctx := &evalCtx{}
		var ev, sp []bool
		for _, q := range reqs {
			ev = append(ev, ctx.evalPermission(pm, q))
			sp = append(sp, permMatches(p, q))
		}
		op := "perm " + encPerm(p) + " " + encReqs(reqs, []*structs.IntentionPermission{p})
		run.Line(op, "pm="+sPm(pm)+" eval="+bitsOf(ev)+" spec="+bitsOf(sp))
		run.Tag("op:perm")
		run.Case(op, true)
		if bitsOf(ev) != bitsOf(sp) {
			run.Violate("rbac:permission-conversion-changes-meaning", "convertPermission: matcher "+sPm(pm)+" evaluates "+bitsOf(ev)+", permission means "+bitsOf(sp), []string{op})
		}
	}
}

// corpus: deterministic cases that must be present in every run
func corpus(run *hx.Run) {
	mk := func(name, peer, dst string, act structs.IntentionAction) *structs.Intention {
		x := &structs.Intention{SourceNS: "default", DestinationNS: "default", SourceName: name, SourcePeer: peer, DestinationName: dst, Action: act}
		x.UpdatePrecedence()
		return x
	}
	local := func(n string) caller {
		return caller{direct: ident{kind: 's', td: localTD, ns: "default", dc: "dc1", name: n}, class: "local"}
	}
	env := envT{localTD: localTD}
	// the two repaired defects (must now hold)
	runRBAC(run, &rbacCase{env: env, dflt: false, canon: true,
		ixns:    []*structs.Intention{mk("*", "", dest, "deny"), mk("web", "", "*", "allow")},
		callers: []caller{local("web"), local("db")}})
	runRBAC(run, &rbacCase{env: env, dflt: false, canon: true,
		ixns:    []*structs.Intention{mk("web.v1", "", dest, "allow")},
		callers: []caller{local("web.v1"), local("webxv1")}})
	// known finding: a source name that url path-escaping changes never matches its own certificate
	runRBAC(run, &rbacCase{env: env, dflt: true, canon: true,
		ixns:    []*structs.Intention{mk("a b", "", dest, "deny")},
		callers: []caller{local("a b"), local("ab")}})
	if commaNames {
		// finding: the XFCC pattern's optional tail absorbs the rest of a service name after a comma
		envP := envT{localTD: localTD, bundles: []bundle{bundlePool[0]}}
		viaGW := func(n string) caller {
			return caller{direct: ident{kind: 'g', td: localTD, dc: "dc1"}, hasFwd: true,
				fwd: []xelem{{xfccPre, ident{kind: 's', td: tdP1, ns: "default", dc: "dc2", name: n}}}, class: "xfcc"}
		}
		runRBAC(run, &rbacCase{env: envP, dflt: false, http: true, canon: true,
			ixns:    []*structs.Intention{mk("web", "p1", dest, "allow")},
			callers: []caller{viaGW("web"), viaGW("web,x"), viaGW("webx")},
			reqs:    []*request{{path: "/", headers: [][2]string{{":method", "GET"}}}}})
	}
	run.Tag("stream:corpus")
}

func main() {
	run := hx.Start()
	run.Rule = "for every intention set, default policy, listener kind, caller and request: the evaluated RBAC proto of makeRBAC*Filter allows iff intention precedence allows"
	corpus(run)
	nCE := run.Scale(700, 6000)
	nRaw := run.Scale(200, 1500)
	nUnsafe := run.Scale(40, 300)
	maxCallers := run.Scale(36, 48)
	for i := 0; i < nCE; i++ {
		r := run.RNG.Fork(uint64(i))
		c := genCaseCE(r, run, pickNames(r, namePool))
		finishCase(r, c, maxCallers, 6)
		run.Tag("stream:config-entry")
		runRBAC(run, c)
		if i < 3 {
			run.Sample(map[string]any{"op": c.op()})
		}
	}
	for i := 0; i < nRaw; i++ {
		r := run.RNG.Fork(uint64(1_000_000 + i))
		c := genCaseRaw(r, pickNames(r, namePool))
		finishCase(r, c, maxCallers, 6)
		run.Tag("stream:raw")
		runRBAC(run, c)
	}
	for i := 0; i < nUnsafe; i++ {
		r := run.RNG.Fork(uint64(2_000_000 + i))
		names := append(pickNames(r, unsafeNames), hx.Pick(r, namePool))
		c := genCaseCE(r, run, names)
		finishCase(r, c, maxCallers, 4)
		run.Tag("stream:url-unsafe-names")
		runRBAC(run, c)
	}
	listenerStream(run, run.Scale(60, 400), maxCallers)
	patternStream(run, run.RNG.Fork(3_000_000), run.Scale(1500, 12000))
	helperStream(run, run.RNG.Fork(4_000_000), run.Scale(300, 2500))
	if run.Thorough() && run.Seed == 1 || os.Getenv("VERIF_C14_EXHAUSTIVE") != "" {
		exhaustive(run, 4)
	} else {
		exhaustive(run, 2)
	}
	run.Finish()
}
