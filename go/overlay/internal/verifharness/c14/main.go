//go:build verif

package main

import (
	"fmt"

	"github.com/hashicorp/consul/agent/structs"
	"github.com/hashicorp/consul/agent/xds"
	"github.com/hashicorp/consul/internal/verifharness/hx"
)

func main() {
	run := hx.Start()
	r, err := xds.VerifMakeRBACRules(structs.SimplifiedIntentions{}, false, "td.consul", "dc1", "default", false, nil)
	fmt.Println(r, err)
	run.Finish()
}
