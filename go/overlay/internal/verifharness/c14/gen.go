//go:build verif

package main

// Universe, generators, line encoders and the model-independent reference decision
// ("most specific matching intention decides, first matching permission decides").

import (
	"net/url"
	"sort"
	"strconv"
	"strings"

	"github.com/hashicorp/consul/agent/connect"
	"github.com/hashicorp/consul/agent/structs"
	"github.com/hashicorp/consul/internal/verifharness/hx"
	"github.com/hashicorp/consul/proto/private/pbpeering"
)

const (
	localTD = "11111111-2222-3333-4444-555555555555.consul"
	tdP1    = "aaaaaaaa-bbbb-cccc-dddd-eeeeeeeeeeee.consul"
	tdP2    = "99999999-8888-7777-6666-555555555555.consul"
	tdOther = "0f0f0f0f-0000-0000-0000-000000000000.consul"
)

type bundle struct{ peer, td, ap string }

var bundlePool = []bundle{
	{"p1", tdP1, ""},
	{"p2", tdP2, "ap1"},
	{"p3", tdP2, "ap2"},
	{"p4", tdP1, "default"},  // same identity as p1: environment not OK
	{"p5", tdP2, "AP1"},      // same identity as p2 after lower-casing
	{"p6", localTD, ""},      // same identity as the local cluster
	{"p7", tdOther, "a.p"},   // partition with a regex metacharacter
}

// names chosen to collide where pattern syntax could blur the difference
var namePool = []string{"web", "web.v1", "webxv1", "web-v1", "api", "db", "we", "web2", "a+b", "a$b", "Web", "w", "web.v1.x"}

// names that url path-escaping changes (known finding rbac:source-name-needs-url-escaping)
var unsafeNames = []string{"a b", "web(1)", "wéb", "a%20b", "a?b", "a#b", "we[b]", "a|b", "a^b", `a\b`}

var dcPool = []string{"dc1", "dc2", "d.c", "dc-3"}

type provider struct{ name, issuer string }

// jwt-provider config entries that exist; "nope" is referenced by some intentions but never exists
var providerPool = []provider{{"okta", "https://okta.example"}, {"auth0", "https://auth0.example"}, {"dex", "https://okta.example"}}

type envT struct {
	localTD   string
	bundles   []bundle // slice order; last of a name wins
	providers []provider
}

func (e envT) providerMap() map[string]*structs.JWTProviderConfigEntry {
	if len(e.providers) == 0 {
		return nil
	}
	m := map[string]*structs.JWTProviderConfigEntry{}
	for _, p := range e.providers {
		m[p.name] = &structs.JWTProviderConfigEntry{Kind: structs.JWTProvider, Name: p.name, Issuer: p.issuer}
	}
	return m
}

func (e envT) issuer(name string) (string, bool) {
	for _, p := range e.providers {
		if p.name == name {
			return p.issuer, true
		}
	}
	return "", false
}

// jwtSat: is the requirement met by the validated token payloads of the request? No providers:
// no requirement; otherwise one (known) provider must fit with its issuer and every claim.
func jwtSat(e envT, req *structs.IntentionJWTRequirement, r *request) bool {
	if req == nil || len(req.Providers) == 0 {
		return true
	}
	known := 0
	for _, p := range req.Providers {
		if _, ok := e.issuer(p.Name); ok {
			known++
		}
	}
	if known == 0 {
		return true // only unknown providers: makeRBACRules fails for such an intention anyway
	}
	for _, p := range req.Providers {
		iss, ok := e.issuer(p.Name)
		if !ok {
			continue
		}
		key := "jwt_payload_" + p.Name
		if !r.has([]string{key, "iss"}, iss) {
			continue
		}
		all := true
		for _, c := range p.VerifyClaims {
			if !r.has(append([]string{key}, c.Path...), c.Value) {
				all = false
			}
		}
		if all {
			return true
		}
	}
	return false
}

func jwtUnknown(e envT, req *structs.IntentionJWTRequirement) bool {
	if req == nil {
		return false
	}
	for _, p := range req.Providers {
		if _, ok := e.issuer(p.Name); !ok {
			return true
		}
	}
	return false
}

func (e envT) proto() []*pbpeering.PeeringTrustBundle {
	var out []*pbpeering.PeeringTrustBundle
	for _, b := range e.bundles {
		out = append(out, &pbpeering.PeeringTrustBundle{PeerName: b.peer, TrustDomain: b.td, ExportedPartition: b.ap})
	}
	return out
}

func normAP(ap string) string {
	if ap == "" {
		return "default"
	}
	return asciiLower(ap)
}

// identity that certificates of a source cluster carry: (trust domain, partition)
func (e envT) peerIdentity(peer string) (string, string, bool) {
	if peer == "" {
		return e.localTD, "default", true
	}
	for i := len(e.bundles) - 1; i >= 0; i-- {
		if e.bundles[i].peer == peer {
			return e.bundles[i].td, normAP(e.bundles[i].ap), true
		}
	}
	return "", "", false
}

// ok: distinct source clusters have distinct certificate identities
func (e envT) ok() bool {
	seen := map[string]string{e.localTD + "|default": ""}
	for _, b := range e.bundles {
		td, ap, _ := e.peerIdentity(b.peer)
		k := td + "|" + ap
		if p, dup := seen[k]; dup && p != b.peer {
			return false
		}
		seen[k] = b.peer
	}
	return true
}

func (e envT) knownTD(td string) bool {
	if td == e.localTD {
		return true
	}
	for _, b := range e.bundles {
		if b.td == td {
			return true
		}
	}
	return false
}

// ---------------------------------------------------------------- identities and callers

type ident struct {
	kind                 byte // 's' service, 'g' mesh gateway, 'r' raw
	td, ap, ns, dc, name string
	raw                  string
}

func (i ident) enc() string {
	switch i.kind {
	case 's':
		return "s~" + hx.EncS(i.td) + "~" + hx.EncS(i.ap) + "~" + hx.EncS(i.ns) + "~" + hx.EncS(i.dc) + "~" + hx.EncS(i.name)
	case 'g':
		return "g~" + hx.EncS(i.td) + "~" + hx.EncS(i.dc)
	default:
		return "r~" + hx.EncS(i.raw)
	}
}

// wire: what the certificate URI SAN says, produced by the real consul code where it can be
func (i ident) wire() string {
	switch i.kind {
	case 's':
		if i.ns == "default" {
			return connect.SpiffeIDService{Host: i.td, Partition: i.ap, Namespace: i.ns, Datacenter: i.dc, Service: i.name}.URI().String()
		}
		// a namespace other than default exists only in certificates of an Enterprise peer
		p := "/ns/" + i.ns + "/dc/" + i.dc + "/svc/" + i.name
		if ap := normAP(i.ap); ap != "default" {
			p = "/ap/" + ap + p
		}
		u := url.URL{Scheme: "spiffe", Host: i.td, Path: p}
		return u.String()
	case 'g':
		return connect.SpiffeIDMeshGateway{Host: i.td, Datacenter: i.dc}.URI().String()
	default:
		return i.raw
	}
}

type xelem struct {
	pre string
	uri ident
}

type caller struct {
	direct   ident
	hasFwd   bool
	fwd      []xelem
	class    string
	nearmiss bool
}

func (c caller) enc() string {
	x := "-"
	if c.hasFwd {
		t := make([]string, len(c.fwd))
		for i, e := range c.fwd {
			t[i] = hx.EncS(e.pre) + "!" + e.uri.enc()
		}
		x = strings.Join(t, "+")
		if len(t) == 0 {
			x = "-" // an empty header is sent as absent (the generators never produce it)
		}
	}
	return c.direct.enc() + ";" + x
}

func xfccHeader(es []xelem) string {
	t := make([]string, len(es))
	for i, e := range es {
		t[i] = e.pre + ";URI=" + e.uri.wire()
	}
	return strings.Join(t, ",")
}

func (c caller) wire() *wireCaller {
	w := &wireCaller{principal: c.direct.wire()}
	if c.hasFwd && len(c.fwd) > 0 {
		h := xfccHeader(c.fwd)
		w.xfcc = &h
	}
	return w
}

// ---------------------------------------------------------------- reference decision

func identMatches(e envT, peer, name string, id ident) bool {
	if id.kind != 's' {
		return false
	}
	td, ap, ok := e.peerIdentity(peer)
	if !ok {
		return false
	}
	return id.td == td && normAP(id.ap) == ap && id.ns == "default" && (name == "*" || name == id.name)
}

func expectXFCC(e envT, http bool, ixns []*structs.Intention) bool {
	if !http || len(e.bundles) == 0 {
		return false
	}
	for _, x := range ixns {
		if x.SourcePeer != "" {
			return true
		}
	}
	return false
}

// sourceMatches: is this caller the (peer, name) source?  With XFCC in play a peered source is
// recognised only behind the local mesh gateway, from the first element of the header.
func sourceMatches(e envT, xf bool, peer, name string, c caller) bool {
	if xf && peer != "" {
		if c.direct.kind != 'g' || c.direct.td != e.localTD {
			return false
		}
		if !c.hasFwd || len(c.fwd) == 0 {
			return false
		}
		return identMatches(e, peer, name, c.fwd[0].uri)
	}
	return identMatches(e, peer, name, c.direct)
}

func hdrPermMatches(h structs.IntentionHTTPHeaderPermission, r *request) bool {
	v, present := r.header(h.Name)
	var base func(string) bool
	lc := func(s string) string {
		if h.IgnoreCase {
			return asciiLower(s)
		}
		return s
	}
	isPresent := false
	switch {
	case h.Exact != "":
		base = func(v string) bool { return lc(v) == lc(h.Exact) }
	case h.Regex != "":
		base = func(v string) bool { ok, _ := fullMatch(h.Regex, v); return ok }
	case h.Prefix != "":
		base = func(v string) bool { return strings.HasPrefix(lc(v), lc(h.Prefix)) }
	case h.Suffix != "":
		base = func(v string) bool { return strings.HasSuffix(lc(v), lc(h.Suffix)) }
	case h.Contains != "":
		base = func(v string) bool { return strings.Contains(lc(v), lc(h.Contains)) }
	case h.Present:
		isPresent = true
	default:
		return true // no test at all: the condition is void
	}
	if isPresent {
		return present != h.Invert
	}
	if !present {
		return false // a value test on a missing header never matches, inverted or not
	}
	return base(v) != h.Invert
}

func permMatches(p *structs.IntentionPermission, r *request) bool {
	h := p.HTTP
	if h == nil {
		return true
	}
	switch {
	case h.PathExact != "":
		if r.path != h.PathExact {
			return false
		}
	case h.PathPrefix != "":
		if !strings.HasPrefix(r.path, h.PathPrefix) {
			return false
		}
	case h.PathRegex != "":
		if ok, _ := fullMatch(h.PathRegex, r.path); !ok {
			return false
		}
	}
	for _, hp := range h.Header {
		if !hdrPermMatches(hp, r) {
			return false
		}
	}
	if len(h.Methods) > 0 {
		m, ok := r.header(":method")
		if !ok {
			return false
		}
		found := false
		for _, x := range h.Methods {
			if x == m {
				found = true
			}
		}
		if !found {
			return false
		}
	}
	return true
}

// higher: does a take precedence over b (IntentionPrecedenceSorter order, written independently)
func higher(a, b *structs.Intention) bool {
	if a.Precedence != b.Precedence {
		return a.Precedence > b.Precedence
	}
	ka := []string{a.SourcePeer, a.SourceName, a.DestinationName}
	kb := []string{b.SourcePeer, b.SourceName, b.DestinationName}
	for i := range ka {
		if ka[i] != kb[i] {
			return ka[i] < kb[i]
		}
	}
	return false
}

// decide returns the reference decision and the deciding intention (nil = default policy).
func decide(e envT, ixns []*structs.Intention, dflt, http bool, c caller, r *request) (bool, *structs.Intention) {
	xf := expectXFCC(e, http, ixns)
	var best *structs.Intention
	for _, x := range ixns {
		if !sourceMatches(e, xf, x.SourcePeer, x.SourceName, c) {
			continue
		}
		if best == nil || higher(x, best) {
			best = x
		}
	}
	if best == nil {
		return dflt, nil
	}
	if http && !jwtSat(e, best.JWT, r) {
		return dflt, best // requirement of the deciding intention not met: default policy
	}
	if len(best.Permissions) == 0 {
		return best.Action == structs.IntentionActionAllow, best
	}
	if !http {
		return false, best
	}
	for _, p := range best.Permissions {
		if permMatches(p, r) {
			if !jwtSat(e, p.JWT, r) {
				return dflt, best
			}
			return p.Action == structs.IntentionActionAllow, best
		}
	}
	return dflt, best
}

// expectError: makeRBACRules fails when an intention that reaches the conversion (highest
// precedence of its source, trust bundle present) names a JWT provider without config entry.
func expectError(e envT, ixns []*structs.Intention, http bool) bool {
	if !http {
		return false
	}
	xs := append([]*structs.Intention(nil), ixns...)
	sort.SliceStable(xs, func(i, j int) bool { return higher(xs[i], xs[j]) })
	seen := map[[2]string]bool{}
	for _, x := range xs {
		k := [2]string{x.SourcePeer, x.SourceName}
		if seen[k] {
			continue
		}
		seen[k] = true
		if _, _, ok := e.peerIdentity(x.SourcePeer); !ok {
			continue
		}
		if jwtUnknown(e, x.JWT) {
			return true
		}
		for _, p := range x.Permissions {
			if jwtUnknown(e, p.JWT) {
				return true
			}
		}
	}
	return false
}

// ---------------------------------------------------------------- encoders for the op line

func encFact(path []string, val string) string {
	t := make([]string, len(path))
	for i, p := range path {
		t[i] = hx.EncS(p)
	}
	return strings.Join(t, ">") + "<" + hx.EncS(val)
}

func encJWT(req *structs.IntentionJWTRequirement) string {
	if req == nil || len(req.Providers) == 0 {
		return "-"
	}
	var ps []string
	for _, p := range req.Providers {
		cs := "-"
		if len(p.VerifyClaims) > 0 {
			t := make([]string, len(p.VerifyClaims))
			for i, c := range p.VerifyClaims {
				t[i] = encFact(c.Path, c.Value)
			}
			cs = strings.Join(t, "^")
		}
		ps = append(ps, hx.EncS(p.Name)+"~"+cs)
	}
	return strings.Join(ps, "+")
}

func encProviders(ps []provider) string {
	t := make([]string, len(ps))
	for i, p := range ps {
		t[i] = hx.EncS(p.name) + "~" + hx.EncS(p.issuer)
	}
	return hx.EncList(t)
}

func encHdr(h structs.IntentionHTTPHeaderPermission) string {
	return strings.Join([]string{hx.EncS(h.Name), hx.EncBool(h.Present), hx.EncS(h.Exact), hx.EncS(h.Prefix), hx.EncS(h.Suffix),
		hx.EncS(h.Contains), hx.EncS(h.Regex), hx.EncBool(h.Invert), hx.EncBool(h.IgnoreCase)}, "~")
}

func encInner(t []string) string {
	if len(t) == 0 {
		return "-"
	}
	return strings.Join(t, "+")
}

func encPerm(p *structs.IntentionPermission) string {
	a := hx.EncBool(p.Action == structs.IntentionActionAllow)
	if p.HTTP == nil {
		return a + "!0!=!=!=!-!-!" + encJWT(p.JWT)
	}
	var hs, ms []string
	for _, h := range p.HTTP.Header {
		hs = append(hs, encHdr(h))
	}
	for _, m := range p.HTTP.Methods {
		ms = append(ms, hx.EncS(m))
	}
	return strings.Join([]string{a, "1", hx.EncS(p.HTTP.PathExact), hx.EncS(p.HTTP.PathPrefix), hx.EncS(p.HTTP.PathRegex), encInner(hs), encInner(ms), encJWT(p.JWT)}, "!")
}

func encIxn(x *structs.Intention) string {
	ps := "-"
	if len(x.Permissions) > 0 {
		t := make([]string, len(x.Permissions))
		for i, p := range x.Permissions {
			t[i] = encPerm(p)
		}
		ps = strings.Join(t, "|")
	}
	return strings.Join([]string{hx.EncS(x.SourcePeer), hx.EncS(x.SourceName), hx.EncS(x.DestinationName),
		itoa(x.Precedence), hx.EncBool(x.Action == structs.IntentionActionAllow), ps, encJWT(x.JWT)}, ";")
}

func itoa(n int) string {
	if n < 0 {
		return "0"
	}
	return strconv.Itoa(n)
}

func encIxns(xs []*structs.Intention) string {
	t := make([]string, len(xs))
	for i, x := range xs {
		t[i] = encIxn(x)
	}
	return hx.EncList(t)
}

func encBundles(bs []bundle) string {
	t := make([]string, len(bs))
	for i, b := range bs {
		t[i] = hx.EncS(b.peer) + ";" + hx.EncS(b.td) + ";" + hx.EncS(b.ap)
	}
	return hx.EncList(t)
}

func encCallers(cs []caller) string {
	t := make([]string, len(cs))
	for i, c := range cs {
		t[i] = c.enc()
	}
	return hx.EncList(t)
}

// regexes mentioned by the permissions, with the subject each is applied to
func rxPairs(perms []*structs.IntentionPermission, r *request) [][2]string {
	seen := map[[2]string]bool{}
	var out [][2]string
	add := func(pat, subj string) {
		k := [2]string{pat, subj}
		if seen[k] {
			return
		}
		seen[k] = true
		if ok, _ := fullMatch(pat, subj); ok {
			out = append(out, k)
		}
	}
	for _, p := range perms {
		if p.HTTP == nil {
			continue
		}
		if p.HTTP.PathRegex != "" {
			add(p.HTTP.PathRegex, r.path)
		}
		for _, h := range p.HTTP.Header {
			if h.Regex != "" {
				if v, ok := r.header(h.Name); ok {
					add(h.Regex, v)
				}
			}
		}
		if len(p.HTTP.Methods) > 0 {
			if m, ok := r.header(":method"); ok {
				add(strings.Join(p.HTTP.Methods, "|"), m)
			}
		}
	}
	sort.Slice(out, func(i, j int) bool {
		if out[i][0] != out[j][0] {
			return out[i][0] < out[j][0]
		}
		return out[i][1] < out[j][1]
	})
	return out
}

func encReq(r *request, perms []*structs.IntentionPermission) string {
	var hs, rx []string
	for _, h := range r.headers {
		hs = append(hs, hx.EncS(h[0])+"~"+hx.EncS(h[1]))
	}
	for _, p := range rxPairs(perms, r) {
		rx = append(rx, hx.EncS(p[0])+"~"+hx.EncS(p[1]))
	}
	var md []string
	for _, f := range r.meta {
		md = append(md, encFact(f.path, f.val))
	}
	return hx.EncS(r.path) + ";" + encInner(hs) + ";" + encInner(rx) + ";" + encInner(md)
}

func allPerms(xs []*structs.Intention) []*structs.IntentionPermission {
	var out []*structs.IntentionPermission
	for _, x := range xs {
		out = append(out, x.Permissions...)
	}
	return out
}

func encReqs(rs []*request, perms []*structs.IntentionPermission) string {
	t := make([]string, len(rs))
	for i, r := range rs {
		t[i] = encReq(r, perms)
	}
	return hx.EncList(t)
}

// ---------------------------------------------------------------- generators

var pathPool = []string{"/", "/v1", "/v1/x", "/v2", "/admin", "/v1x", "/V1", "/v1/"}
var methodPool = []string{"GET", "POST", "PUT", "DELETE", "HEAD"}
var hdrNames = []string{"x-user", "X-Env", "x-flag"}
var hdrVals = []string{"alice", "Alice", "bob", "prod", "alice-admin", "x"}

func genRequest(r *hx.RNG) *request {
	q := &request{path: hx.Pick(r, pathPool)}
	m := hx.Pick(r, methodPool)
	if r.Chance(8) {
		m = hx.Pick(r, []string{"GETX", "GE", "GET|POST", "get"})
	}
	q.headers = append(q.headers, [2]string{":method", m})
	for _, n := range hdrNames {
		if r.Chance(55) {
			q.headers = append(q.headers, [2]string{strings.ToLower(n), hx.Pick(r, hdrVals)})
		}
	}
	q.meta = genMeta(r)
	return q
}

var claimPool = []structs.IntentionJWTClaimVerification{
	{Path: []string{"perms", "role"}, Value: "admin"},
	{Path: []string{"aud"}, Value: "api"},
	{Path: []string{"perms", "role"}, Value: "user"},
}

// genJWT: a requirement naming one or two providers (rarely one without config entry)
func genJWT(r *hx.RNG, allowUnknown bool) *structs.IntentionJWTRequirement {
	req := &structs.IntentionJWTRequirement{}
	if r.Chance(5) {
		return req // present but empty: no requirement
	}
	names := []string{"okta", "auth0", "dex"}
	hx.Shuffle(r, names)
	for _, n := range names[:1+r.Intn(2)] {
		p := &structs.IntentionJWTProvider{Name: n}
		for k := r.Intn(3); k > 0; k-- {
			c := hx.Pick(r, claimPool)
			p.VerifyClaims = append(p.VerifyClaims, &structs.IntentionJWTClaimVerification{Path: c.Path, Value: c.Value})
		}
		req.Providers = append(req.Providers, p)
	}
	if allowUnknown && r.Chance(6) {
		req.Providers = append(req.Providers, &structs.IntentionJWTProvider{Name: "nope"})
	}
	return req
}

// genMeta: validated token payloads of a request, as the jwt_authn filter would publish them
func genMeta(r *hx.RNG) []fact {
	var out []fact
	for _, p := range providerPool {
		if !r.Chance(45) {
			continue
		}
		key := "jwt_payload_" + p.name
		iss := p.issuer
		if r.Chance(15) {
			iss = "https://evil.example"
		}
		out = append(out, fact{[]string{key, "iss"}, iss})
		if r.Chance(60) {
			out = append(out, fact{[]string{key, "perms", "role"}, hx.Pick(r, []string{"admin", "user", "Admin"})})
		}
		if r.Chance(50) {
			out = append(out, fact{[]string{key, "aud"}, hx.Pick(r, []string{"api", "web"})})
		}
	}
	return out
}

func genHdrPerm(r *hx.RNG, valid bool) structs.IntentionHTTPHeaderPermission {
	h := structs.IntentionHTTPHeaderPermission{Name: hx.Pick(r, hdrNames)}
	v := hx.Pick(r, hdrVals)
	set := func(k int) {
		switch k {
		case 0:
			h.Present = true
		case 1:
			h.Exact = v
		case 2:
			h.Prefix = v[:1+r.Intn(len(v))]
		case 3:
			h.Suffix = v[r.Intn(len(v)):]
		case 4:
			h.Contains = hx.Pick(r, []string{"li", "a", "-", "o"})
		case 5:
			h.Regex = hx.Pick(r, []string{"al.*", "[a-z]+", "bob|prod", ".", "alice(-admin)?"})
		}
	}
	k := r.Intn(6)
	set(k)
	if !valid && r.Chance(50) {
		set(r.Intn(6)) // second kind: rejected by validation, resolved by the switch order
	}
	if !valid && r.Chance(15) {
		h = structs.IntentionHTTPHeaderPermission{Name: h.Name} // no kind at all
	}
	h.Invert = r.Chance(30)
	if h.Exact != "" || h.Prefix != "" || h.Suffix != "" || h.Contains != "" || !valid {
		h.IgnoreCase = r.Chance(35)
		if valid && (h.Present || h.Regex != "") {
			h.IgnoreCase = false
		}
		if h.IgnoreCase && r.Chance(60) {
			// make the case-insensitive comparison the only way to match
			h.Exact, h.Prefix, h.Suffix, h.Contains = strings.ToUpper(h.Exact), strings.ToUpper(h.Prefix), strings.ToUpper(h.Suffix), strings.ToUpper(h.Contains)
		}
	}
	return h
}

func genPerm(r *hx.RNG, valid bool) *structs.IntentionPermission {
	p := &structs.IntentionPermission{Action: structs.IntentionActionAllow}
	if r.Bool() {
		p.Action = structs.IntentionActionDeny
	}
	if !valid && r.Chance(10) {
		return p // HTTP == nil
	}
	h := &structs.IntentionHTTPPermission{}
	switch r.Intn(5) {
	case 0:
		h.PathExact = hx.Pick(r, pathPool)
	case 1:
		h.PathPrefix = hx.Pick(r, []string{"/", "/v1", "/v", "/admin", "/v1/"})
	case 2:
		h.PathRegex = hx.Pick(r, []string{"/v[12]", "/v1(/.*)?", "/.*", "/admin|/v2", "/v1."})
	}
	for n := r.Intn(3); n > 0; n-- {
		h.Header = append(h.Header, genHdrPerm(r, valid))
	}
	if r.Chance(40) {
		ms := append([]string(nil), methodPool...)
		hx.Shuffle(r, ms)
		h.Methods = ms[:1+r.Intn(3)]
	}
	if valid && h.PathExact == "" && h.PathPrefix == "" && h.PathRegex == "" && len(h.Header) == 0 && len(h.Methods) == 0 {
		h.PathPrefix = "/"
	}
	p.HTTP = h
	if r.Chance(20) {
		p.JWT = genJWT(r, !valid || r.Chance(30))
	}
	return p
}
