//go:build verif

// C15 harness: discovery-chain compilation.
//
// Two streams, both from one seed:
//   - compile cases: a generated set of service-router / -splitter / -resolver / -defaults /
//     proxy-defaults entries over a small colliding name universe plus an evaluation context and
//     overrides; the real discoverychain.Compile runs on it and its canonical result (or error enum) is
//     printed for the Lean model (CV.Chain.compile) to reproduce;
//   - store sequences: the same kinds of entries written to / deleted from a real state.Store
//     (EnsureConfigEntry / DeleteConfigEntry, which validate by speculative compilation), accept/reject
//     and the table dump compared with CV.Chain.ensureEntry / deleteEntry.
//
// Monitors (independent of the model): closedness, acyclicity, every path ends at a resolver with a
// target, no unused nodes, byte-identical JSON across repeated compilations and across insertion
// orders, per-call timeout, "splitter / redirect cycle in the input ⇒ error", rejected write leaves the
// table unchanged, an accepted write keeps every chain of the universe compilable.
package main

import (
	"encoding/json"
	"flag"
	"fmt"
	"math"
	"os"
	"os/exec"
	"path/filepath"
	"runtime/debug"
	"runtime/pprof"
	"sort"
	"strings"
	"sync/atomic"
	"syscall"
	"time"

	"github.com/hashicorp/consul/agent/configentry"
	"github.com/hashicorp/consul/agent/consul/discoverychain"
	"github.com/hashicorp/consul/agent/consul/state"
	"github.com/hashicorp/consul/agent/structs"
	"github.com/hashicorp/consul/internal/verifharness/hx"
)

// ---------------------------------------------------------------- plain mirror of the model's inputs

type opts struct{ svc, subset, ns, part, dc, peer string }

type mRoute struct {
	pfx     string
	dest    opts
	nilDest bool
}
type mRouter struct {
	name   string
	routes []mRoute
}
type mSplit struct {
	w           int
	svc, subset string
}
type mSplitter struct {
	name   string
	splits []mSplit
}
type mSubset struct {
	name string
	def  int
}
type mFailover struct {
	key             string
	svc, subset, ns string
	dcs             []string
	targets         []opts
}
type mResolver struct {
	name     string
	ds       string
	subsets  []mSubset
	redirect *opts
	failover []mFailover
	ct, rt   int
	lb       *string
}
type mService struct{ name, proto, ext, mgw string }
type mProxy struct{ proto, mgw string }
type mSet struct {
	routers   []mRouter
	splitters []mSplitter
	resolvers []mResolver
	services  []mService
	proxy     *mProxy
}
type mCtx struct {
	svc, ns, part, dc, td, ovMgw, ovProto string
	ovCT                                  int
}

// ---------------------------------------------------------------- encoders (see lean/CV/Engine/C15.lean)

func eList(sep string, xs []string) string {
	if len(xs) == 0 {
		return "-"
	}
	return strings.Join(xs, sep)
}
func eOpts(sep string, o opts) string {
	return strings.Join([]string{hx.EncS(o.svc), hx.EncS(o.subset), hx.EncS(o.ns), hx.EncS(o.part), hx.EncS(o.dc), hx.EncS(o.peer)}, sep)
}
func eLb(lb *string) string {
	if lb == nil {
		return "-"
	}
	return hx.EncS(*lb)
}
func (c mCtx) enc() string {
	return strings.Join([]string{hx.EncS(c.svc), hx.EncS(c.ns), hx.EncS(c.part), hx.EncS(c.dc), hx.EncS(c.td),
		hx.EncS(c.ovMgw), hx.EncS(c.ovProto), fmt.Sprint(c.ovCT)}, ";")
}
func (r mRouter) enc() string {
	var rs []string
	for _, x := range r.routes {
		rs = append(rs, strings.Join([]string{hx.EncS(x.pfx), hx.EncS(x.dest.svc), hx.EncS(x.dest.subset), hx.EncS(x.dest.ns), hx.EncS(x.dest.part)}, ";"))
	}
	return hx.EncS(r.name) + "|" + eList("!", rs)
}
func (s mSplitter) enc() string {
	var ss []string
	for _, x := range s.splits {
		ss = append(ss, fmt.Sprintf("%d;%s;%s", x.w, hx.EncS(x.svc), hx.EncS(x.subset)))
	}
	return hx.EncS(s.name) + "|" + eList("!", ss)
}
func (r mResolver) enc(sorted bool) string {
	subs := append([]mSubset(nil), r.subsets...)
	fos := append([]mFailover(nil), r.failover...)
	if sorted {
		sort.Slice(subs, func(i, j int) bool { return subs[i].name < subs[j].name })
		sort.Slice(fos, func(i, j int) bool { return fos[i].key < fos[j].key })
	}
	var ss, fs []string
	for _, x := range subs {
		ss = append(ss, fmt.Sprintf("%s;%d", hx.EncS(x.name), x.def))
	}
	for _, f := range fos {
		var dcs, ts []string
		for _, d := range f.dcs {
			dcs = append(dcs, hx.EncS(d))
		}
		for _, t := range f.targets {
			ts = append(ts, eOpts("~", t))
		}
		fs = append(fs, strings.Join([]string{hx.EncS(f.key), hx.EncS(f.svc), hx.EncS(f.subset), hx.EncS(f.ns), eList("+", dcs), eList("+", ts)}, ";"))
	}
	rd := "-"
	if r.redirect != nil {
		rd = eOpts(";", *r.redirect)
	}
	return strings.Join([]string{hx.EncS(r.name), hx.EncS(r.ds), eList("!", ss), rd, eList("!", fs), fmt.Sprint(r.ct), fmt.Sprint(r.rt), eLb(r.lb)}, "|")
}
func (s mService) enc() string {
	return strings.Join([]string{hx.EncS(s.name), hx.EncS(s.proto), hx.EncS(s.ext), hx.EncS(s.mgw)}, "|")
}
func (p *mProxy) enc() string {
	if p == nil {
		return "-"
	}
	return hx.EncS(p.proto) + "|" + hx.EncS(p.mgw)
}
func (m *mSet) enc() string {
	var r, s, v, d []string
	for _, x := range m.routers {
		r = append(r, x.enc())
	}
	for _, x := range m.splitters {
		s = append(s, x.enc())
	}
	for _, x := range m.resolvers {
		v = append(v, x.enc(false))
	}
	for _, x := range m.services {
		d = append(d, x.enc())
	}
	return eList(",", r) + " " + eList(",", s) + " " + eList(",", v) + " " + eList(",", d) + " " + m.proxy.enc()
}

// ---------------------------------------------------------------- real entries

var subsetDefs = []structs.ServiceResolverSubset{
	{}, {OnlyPassing: true}, {Filter: `Service.Meta.v == "2"`}, {Filter: `Service.Meta.v == "3"`, OnlyPassing: true},
}

func subsetDefID(s structs.ServiceResolverSubset) int {
	for i, d := range subsetDefs {
		if d == s {
			return i
		}
	}
	return -1
}

func (r mRouter) real() *structs.ServiceRouterConfigEntry {
	e := &structs.ServiceRouterConfigEntry{Kind: structs.ServiceRouter, Name: r.name}
	for _, x := range r.routes {
		rt := structs.ServiceRoute{Match: &structs.ServiceRouteMatch{HTTP: &structs.ServiceRouteHTTPMatch{PathPrefix: x.pfx}}}
		if !x.nilDest {
			rt.Destination = &structs.ServiceRouteDestination{Service: x.dest.svc, ServiceSubset: x.dest.subset, Namespace: x.dest.ns, Partition: x.dest.part}
		}
		e.Routes = append(e.Routes, rt)
	}
	return e
}
func (s mSplitter) real() *structs.ServiceSplitterConfigEntry {
	e := &structs.ServiceSplitterConfigEntry{Kind: structs.ServiceSplitter, Name: s.name}
	for _, x := range s.splits {
		e.Splits = append(e.Splits, structs.ServiceSplit{Weight: float32(x.w) / 100.0, Service: x.svc, ServiceSubset: x.subset})
	}
	return e
}
func toFT(o opts) structs.ServiceResolverFailoverTarget {
	return structs.ServiceResolverFailoverTarget{Service: o.svc, ServiceSubset: o.subset, Namespace: o.ns, Partition: o.part, Datacenter: o.dc, Peer: o.peer}
}
func (r mResolver) real() *structs.ServiceResolverConfigEntry {
	e := &structs.ServiceResolverConfigEntry{Kind: structs.ServiceResolver, Name: r.name, DefaultSubset: r.ds,
		ConnectTimeout: time.Duration(r.ct) * time.Second, RequestTimeout: time.Duration(r.rt) * time.Second}
	if len(r.subsets) > 0 {
		e.Subsets = map[string]structs.ServiceResolverSubset{}
		for _, s := range r.subsets {
			e.Subsets[s.name] = subsetDefs[s.def]
		}
	}
	if r.redirect != nil {
		o := *r.redirect
		e.Redirect = &structs.ServiceResolverRedirect{Service: o.svc, ServiceSubset: o.subset, Namespace: o.ns, Partition: o.part, Datacenter: o.dc, Peer: o.peer}
	}
	if len(r.failover) > 0 {
		e.Failover = map[string]structs.ServiceResolverFailover{}
		for _, f := range r.failover {
			rf := structs.ServiceResolverFailover{Service: f.svc, ServiceSubset: f.subset, Namespace: f.ns, Datacenters: f.dcs}
			for _, t := range f.targets {
				rf.Targets = append(rf.Targets, toFT(t))
			}
			e.Failover[f.key] = rf
		}
	}
	if r.lb != nil {
		e.LoadBalancer = &structs.LoadBalancer{Policy: *r.lb}
	}
	return e
}
func (s mService) real() *structs.ServiceConfigEntry {
	return &structs.ServiceConfigEntry{Kind: structs.ServiceDefaults, Name: s.name, Protocol: s.proto, ExternalSNI: s.ext,
		MeshGateway: structs.MeshGatewayConfig{Mode: structs.MeshGatewayMode(s.mgw)}}
}
func (p *mProxy) real() *structs.ProxyConfigEntry {
	e := &structs.ProxyConfigEntry{Kind: structs.ProxyDefaults, Name: structs.ProxyConfigGlobal, Protocol: p.proto,
		MeshGateway: structs.MeshGatewayConfig{Mode: structs.MeshGatewayMode(p.mgw)}}
	if p.proto != "" {
		e.Config = map[string]interface{}{"protocol": p.proto}
	}
	return e
}

// entries builds the real config entries; `valid` says whether each passed Normalize+Validate.
func (m *mSet) entries(normalize bool) (out []structs.ConfigEntry, valid bool) {
	return m.entriesV(normalize, true)
}

// entriesV: validate=false skips the (expensive: bexpr parsing) per-entry Validate on recompilations.
func (m *mSet) entriesV(normalize, validate bool) (out []structs.ConfigEntry, valid bool) {
	valid = true
	add := func(e structs.ConfigEntry) {
		if normalize && !validate {
			// recompilation: Normalize's only effect the compiler can see, without the (slow) entry hash
			if sd, ok := e.(*structs.ServiceConfigEntry); ok {
				sd.Protocol = strings.ToLower(sd.Protocol)
			}
		} else if normalize {
			if err := e.Normalize(); err != nil {
				valid = false
			}
		}
		if validate {
			if err := e.Validate(); err != nil {
				valid = false
			}
		}
		out = append(out, e)
	}
	for _, x := range m.routers {
		add(x.real())
	}
	for _, x := range m.splitters {
		add(x.real())
	}
	for _, x := range m.resolvers {
		add(x.real())
	}
	for _, x := range m.services {
		add(x.real())
	}
	if m.proxy != nil {
		add(m.proxy.real())
	}
	return
}

// ---------------------------------------------------------------- canonical result

func errEnum(err error) string {
	if err == nil {
		return "ok"
	}
	s := err.Error()
	switch {
	case strings.Contains(s, "is required"):
		return "bad-request"
	case strings.Contains(s, "uses inconsistent protocols"):
		return "proto-mismatch"
	case strings.Contains(s, "detected circular reference"):
		return "circular-ref"
	case strings.Contains(s, "detected circular resolver redirect"):
		return "circular-redirect"
	case strings.Contains(s, "does not have a subset named"):
		return "no-subset"
	case strings.Contains(s, "cannot define redirects for external"):
		return "ext-redirect"
	case strings.Contains(s, "cannot define subsets for external"):
		return "ext-subsets"
	case strings.Contains(s, "cannot define failover for external"):
		return "ext-failover"
	case strings.Contains(s, "does not permit advanced routing"):
		return "no-adv-routing"
	case strings.HasPrefix(s, "panic:"):
		return "panic"
	}
	return "other:" + hx.EncS(s)
}

func secs(d time.Duration) string {
	if d%time.Second != 0 {
		return fmt.Sprintf("ns%d", int64(d))
	}
	return fmt.Sprint(int64(d / time.Second))
}

// hundredths prints a compiled weight as the integer k with weight == float32(k)/100 (bit exact),
// which is what NormalizeServiceSplitWeight produces; anything else is printed raw.
func hundredths(w float32) string {
	k := int(math.Round(float64(w * 100.0)))
	if float32(k)/100.0 == w {
		return fmt.Sprint(k)
	}
	return fmt.Sprintf("raw%08x", math.Float32bits(w))
}

func lbStr(lb *structs.LoadBalancer) string {
	if lb == nil {
		return "-"
	}
	return hx.EncS(lb.Policy)
}

func canon(ch *structs.CompiledDiscoveryChain) string {
	keys := make([]string, 0, len(ch.Nodes))
	for k := range ch.Nodes {
		keys = append(keys, k)
	}
	sort.Strings(keys)
	var ns []string
	for _, k := range keys {
		n := ch.Nodes[k]
		switch n.Type {
		case structs.DiscoveryGraphNodeTypeRouter:
			var rs []string
			for _, r := range n.Routes {
				pfx := "?"
				if r.Definition != nil && r.Definition.Match != nil && r.Definition.Match.HTTP != nil {
					pfx = r.Definition.Match.HTTP.PathPrefix
				}
				rs = append(rs, hx.EncS(pfx)+";"+hx.EncS(r.NextNode))
			}
			ns = append(ns, hx.EncS(k)+"|R|"+eList("!", rs))
		case structs.DiscoveryGraphNodeTypeSplitter:
			var ss []string
			for _, s := range n.Splits {
				ds, dsub := "?", "?"
				if s.Definition != nil {
					ds, dsub = s.Definition.Service, s.Definition.ServiceSubset
				}
				ss = append(ss, hundredths(s.Weight)+";"+hx.EncS(s.NextNode)+";"+hx.EncS(ds)+";"+hx.EncS(dsub))
			}
			ns = append(ns, hx.EncS(k)+"|S|"+lbStr(n.LoadBalancer)+"|"+eList("!", ss))
		case structs.DiscoveryGraphNodeTypeResolver:
			var fo []string
			if n.Resolver.Failover != nil {
				for _, t := range n.Resolver.Failover.Targets {
					fo = append(fo, hx.EncS(t))
				}
			}
			ns = append(ns, strings.Join([]string{hx.EncS(k), "V", hx.EncBool(n.Resolver.Default), secs(n.Resolver.ConnectTimeout),
				secs(n.Resolver.RequestTimeout), hx.EncS(n.Resolver.Target), eList("+", fo), lbStr(n.LoadBalancer)}, "|"))
		default:
			ns = append(ns, hx.EncS(k)+"|?")
		}
	}
	tkeys := make([]string, 0, len(ch.Targets))
	for k := range ch.Targets {
		tkeys = append(tkeys, k)
	}
	sort.Strings(tkeys)
	var ts []string
	for _, k := range tkeys {
		t := ch.Targets[k]
		sni := ""
		if t.External {
			sni = t.SNI
		}
		ts = append(ts, strings.Join([]string{hx.EncS(k), hx.EncS(t.Service), hx.EncS(t.ServiceSubset), hx.EncS(t.Namespace), hx.EncS(t.Partition),
			hx.EncS(t.Datacenter), hx.EncS(t.Peer), secs(t.ConnectTimeout), hx.EncBool(t.External), hx.EncS(sni), hx.EncS(string(t.MeshGateway.Mode)),
			fmt.Sprint(subsetDefID(t.Subset))}, "|"))
	}
	return fmt.Sprintf("ok p=%s s=%s d=%s c=%s n=%s t=%s", hx.EncS(ch.Protocol), hx.EncS(ch.StartNode), hx.EncBool(ch.Default),
		hx.EncBool(ch.CustomizationHash != ""), eList(",", ns), eList(",", ts))
}

// ---------------------------------------------------------------- running the real compiler

type compileOut struct {
	ch  *structs.CompiledDiscoveryChain
	err error
}

// compileOnce runs the real compiler inline; a panic becomes an error "panic: …". A watchdog goroutine
// (see startWatchdog) ends the process when a call overstays `limit`: a runaway call cannot be
// stopped from inside, so the supervising parent restarts the run with that case skipped.
func compileOnce(c mCtx, set *configentry.DiscoveryChainSet, limit time.Duration) (out compileOut, timedOut bool) {
	deadline.Store(time.Now().Add(limit).UnixNano())
	defer deadline.Store(0)
	defer func() {
		if p := recover(); p != nil {
			out = compileOut{nil, fmt.Errorf("panic: %v", p)}
		}
	}()
	ch, err := discoverychain.Compile(discoverychain.CompileRequest{
		ServiceName: c.svc, EvaluateInNamespace: c.ns, EvaluateInPartition: c.part, EvaluateInDatacenter: c.dc,
		EvaluateInTrustDomain:  c.td,
		OverrideMeshGateway:    structs.MeshGatewayConfig{Mode: structs.MeshGatewayMode(c.ovMgw)},
		OverrideProtocol:       c.ovProto,
		OverrideConnectTimeout: time.Duration(c.ovCT) * time.Second,
		Entries:                set,
	})
	return compileOut{ch, err}, false
}

var deadline atomic.Int64

func startWatchdog() {
	go func() {
		for {
			time.Sleep(250 * time.Millisecond)
			if d := deadline.Load(); d != 0 && time.Now().UnixNano() > d {
				writeInflight("T")
				fmt.Fprintln(os.Stderr, "watchdog: call into the implementation did not return within", callLimit, "case", caseID)
				os.Exit(3)
			}
		}
	}()
}

// inflight records the case and operation about to run, so that the supervising parent process can
// name the input when the compiler kills the whole process (unbounded recursion = fatal stack
// overflow) or never returns.
var (
	inflightPath string
	lastInflight string
	caseID       string
	flushRun     = func() {}
	skipped      = map[string]skipRec{} // cases the parent found to hang / crash in an earlier attempt
)

type skipRec struct {
	how string // "T" timeout, "C" crash
	op  string
}

func inflight(op string) {
	lastInflight = op
	writeInflight("C")
}

// the inflight record lives in a shared file mapping: no system call per operation, and the kernel
// keeps the last content for the parent even if this process dies without warning
var inflightMap []byte

func openInflight(path string) {
	inflightPath = path
	f, err := os.OpenFile(path, os.O_RDWR|os.O_CREATE|os.O_TRUNC, 0o644)
	if err != nil {
		return
	}
	defer f.Close()
	const size = 1 << 20
	if f.Truncate(size) != nil {
		return
	}
	if m, err := syscall.Mmap(int(f.Fd()), 0, size, syscall.PROT_READ|syscall.PROT_WRITE, syscall.MAP_SHARED); err == nil {
		inflightMap = m
	}
}

func writeInflight(how string) {
	if inflightMap == nil {
		return
	}
	rec := how + "\x01" + caseID + "\x01" + lastInflight
	if len(rec) > len(inflightMap)-1 {
		rec = rec[:len(inflightMap)-1]
	}
	n := copy(inflightMap, rec)
	inflightMap[n] = 0
}

// skipCase reports a case that an earlier attempt showed to hang or crash, without running it.
func skipCase(run *hx.Run, id string) bool {
	rec, ok := skipped[id]
	if !ok {
		return false
	}
	ops := strings.Split(rec.op, "\n")
	if rec.how == "T" {
		run.Violate("terminates:compile-timeout", "the implementation did not return within "+callLimit.String()+" on the operation(s) in the replay", ops)
	} else {
		run.Violate("terminates:compile-crashed-the-process", "the implementation killed the process (fatal stack overflow) on the operation(s) in the replay", ops)
	}
	if len(ops) == 1 && strings.HasPrefix(ops[0], "compile ") {
		run.Line(ops[0], "err no-termination")
	}
	run.Case(rec.op, true)
	return true
}

// guarded runs a store operation (which compiles chains internally) under the same watchdog.
func guarded(f func() error) (err error) {
	deadline.Store(time.Now().Add(callLimit).UnixNano())
	defer deadline.Store(0)
	defer func() {
		if p := recover(); p != nil {
			err = fmt.Errorf("panic: %v", p)
		}
	}()
	return f()
}

func newSet(entries []structs.ConfigEntry) *configentry.DiscoveryChainSet {
	s := configentry.NewDiscoveryChainSet()
	s.AddEntries(entries...)
	return s
}

func result(o compileOut) string {
	if o.err != nil {
		return "err " + errEnum(o.err)
	}
	return canon(o.ch)
}

// ---------------------------------------------------------------- monitors on a compiled chain

// checkChain restates the property on the implementation's result: closed, acyclic, every path from
// the start ends at a resolver whose target exists, nothing unused. Returns "" or a short signature.
func checkChain(ch *structs.CompiledDiscoveryChain) (sig, desc string) {
	if ch.StartNode == "" || ch.Nodes[ch.StartNode] == nil {
		return "closed:start-node-missing", fmt.Sprintf("StartNode %q is not in Nodes", ch.StartNode)
	}
	next := func(n *structs.DiscoveryGraphNode) []string {
		var out []string
		for _, r := range n.Routes {
			out = append(out, r.NextNode)
		}
		for _, s := range n.Splits {
			out = append(out, s.NextNode)
		}
		return out
	}
	for k, n := range ch.Nodes {
		if n == nil {
			return "closed:nil-node", k
		}
		if n.MapKey() != k {
			return "closed:node-key-mismatch", fmt.Sprintf("node stored under %q has key %q", k, n.MapKey())
		}
		for _, nx := range next(n) {
			if ch.Nodes[nx] == nil {
				return "closed:dangling-next-node", fmt.Sprintf("node %q references missing node %q", k, nx)
			}
		}
		switch n.Type {
		case structs.DiscoveryGraphNodeTypeResolver:
			if n.Resolver == nil || n.Resolver.Target == "" {
				return "closed:resolver-without-target", k
			}
			if ch.Targets[n.Resolver.Target] == nil {
				return "closed:resolver-target-missing", fmt.Sprintf("resolver %q names target %q which is not in Targets", k, n.Resolver.Target)
			}
			if f := n.Resolver.Failover; f != nil {
				if len(f.Targets) == 0 {
					return "closed:empty-failover", k
				}
				for _, t := range f.Targets {
					if ch.Targets[t] == nil {
						return "closed:failover-target-missing", fmt.Sprintf("resolver %q fails over to %q which is not in Targets", k, t)
					}
				}
			}
		case structs.DiscoveryGraphNodeTypeRouter:
			if len(n.Routes) == 0 {
				return "paths:router-without-routes", k
			}
		case structs.DiscoveryGraphNodeTypeSplitter:
			if len(n.Splits) == 0 {
				return "paths:splitter-without-splits", k
			}
			for _, s := range n.Splits {
				if structs.NormalizeServiceSplitWeight(s.Weight) != s.Weight {
					return "weights:not-normalised", fmt.Sprintf("splitter %q has weight %v", k, s.Weight)
				}
			}
		default:
			return "closed:unknown-node-type", n.Type
		}
	}
	for id, t := range ch.Targets {
		if t == nil || t.ID != id {
			return "closed:target-key-mismatch", id
		}
	}
	// acyclic: DFS with colours
	colour := map[string]int{}
	var cyc string
	var visit func(k string)
	visit = func(k string) {
		if cyc != "" {
			return
		}
		colour[k] = 1
		for _, nx := range next(ch.Nodes[k]) {
			switch colour[nx] {
			case 0:
				visit(nx)
			case 1:
				cyc = k + " -> " + nx
			}
		}
		colour[k] = 2
	}
	visit(ch.StartNode)
	if cyc != "" {
		return "paths:cycle-in-compiled-chain", cyc
	}
	// (acyclic + closed + non-empty routers/splitters ⇒ every path ends at a resolver)
	for k := range ch.Nodes {
		if colour[k] == 0 {
			return "unused:unreachable-node", fmt.Sprintf("node %q is not reachable from %q", k, ch.StartNode)
		}
	}
	return "", ""
}

// inputSplitterCycle: does the raw input contain a splitter cycle that the chain for c.svc must walk into?
func inputSplitterCycle(m *mSet, c mCtx) bool {
	if c.ovProto != "" && !structs.IsProtocolHTTPLike(c.ovProto) {
		return false
	}
	sp := map[string]mSplitter{}
	for _, s := range m.splitters {
		sp[s.name] = s
	}
	var starts []string
	var router *mRouter
	for i := range m.routers {
		if m.routers[i].name == c.svc {
			router = &m.routers[i]
		}
	}
	if router != nil {
		for _, r := range router.routes {
			if r.dest.subset == "" {
				svc := r.dest.svc
				if svc == "" {
					svc = c.svc
				}
				starts = append(starts, svc)
			}
		}
	}
	starts = append(starts, c.svc)
	onPath := map[string]bool{}
	var dfs func(n string) bool
	dfs = func(n string) bool {
		s, ok := sp[n]
		if !ok {
			return false
		}
		if onPath[n] {
			return true
		}
		onPath[n] = true
		defer delete(onPath, n)
		for _, x := range s.splits {
			svc := x.svc
			if svc == "" {
				svc = n
			}
			if svc != n && x.subset == "" && dfs(svc) {
				return true
			}
		}
		return false
	}
	for _, s := range starts {
		if dfs(s) {
			return true
		}
	}
	return false
}

// inputRedirectCycle: the chain's own resolver starts a cycle of service-only redirects
// (no router / splitter in front, no subsets, datacenters or peers involved).
func inputRedirectCycle(m *mSet, c mCtx) bool {
	adv := c.ovProto == "" || structs.IsProtocolHTTPLike(c.ovProto)
	if adv {
		for _, r := range m.routers {
			if r.name == c.svc {
				return false
			}
		}
		for _, s := range m.splitters {
			if s.name == c.svc {
				return false
			}
		}
	}
	rs := map[string]mResolver{}
	for _, r := range m.resolvers {
		rs[r.name] = r
	}
	seen := map[string]bool{}
	cur := c.svc
	for {
		r, ok := rs[cur]
		if !ok || r.redirect == nil {
			return false
		}
		o := *r.redirect
		if o.subset != "" || o.dc != "" || o.peer != "" || o.ns != "" || o.part != "" || o.svc == "" || o.svc == cur || r.ds != "" {
			return false
		}
		if seen[cur] {
			return true
		}
		seen[cur] = true
		cur = o.svc
	}
}

// ---------------------------------------------------------------- generators

var (
	svcNames  = []string{"a", "b", "c", "d"}
	subsetNms = []string{"v1", "v2"}
	dcNames   = []string{"dc1", "dc2", "dc3"}
	peerNames = []string{"p1", "p2"}
	protos    = []string{"", "tcp", "http", "http2", "grpc"}
	mgwModes  = []string{"", "local", "remote", "none"}
	lbPols    = []string{"", "random", "round_robin", "least_request", "ring_hash", "maglev"}
)

var weightPatterns = [][]int{
	{10000}, {5000, 5000}, {50, 9950}, {100, 9900}, {1, 9999}, {3333, 3333, 3334}, {2500, 7500}, {150, 9850}, {5, 9995}, {9000, 1000},
	{0, 10000}, {3300, 6700}, {1250, 8750}, {10, 9990},
}

type gen struct {
	r      *hx.RNG
	names  []string
	wild   bool // deliberately allow entries that fail per-entry validation
	peers  bool
	nested bool // bias towards deep splitter nesting
}

func (g *gen) svc() string { return hx.Pick(g.r, g.names) }

func (g *gen) weights(n int) []int {
	var cands [][]int
	for _, p := range weightPatterns {
		if len(p) == n {
			cands = append(cands, p)
		}
	}
	if len(cands) > 0 && g.r.Chance(75) {
		p := append([]int(nil), hx.Pick(g.r, cands)...)
		hx.Shuffle(g.r, p)
		return p
	}
	// random cut of 10000
	w := make([]int, n)
	rest := 10000
	for i := 0; i < n-1; i++ {
		w[i] = g.r.Intn(rest + 1)
		if g.r.Chance(40) {
			w[i] = g.r.Intn(200)
			if w[i] > rest {
				w[i] = rest
			}
		}
		rest -= w[i]
	}
	w[n-1] = rest
	return w
}

func (g *gen) splitter(name string, subsOf map[string][]string) mSplitter {
	n := 1 + g.r.Intn(3)
	if g.nested && g.r.Chance(60) {
		n = 2
	}
	s := mSplitter{name: name}
	used := map[string]bool{}
	ws := g.weights(n)
	for i := 0; i < n; i++ {
		var sp mSplit
		for try := 0; try < 8; try++ {
			sp = mSplit{}
			switch k := g.r.Intn(10); {
			case k < 5: // another service, eligible for further splitting
				sp.svc = g.svc()
			case k < 7: // own service, a subset
				if ss := subsOf[name]; len(ss) > 0 {
					sp.subset = hx.Pick(g.r, ss)
				} else if g.r.Chance(30) {
					sp.subset = hx.Pick(g.r, subsetNms)
				}
				if g.r.Bool() {
					sp.svc = name
				}
			case k < 9: // another service's subset
				sp.svc = g.svc()
				if ss := subsOf[sp.svc]; len(ss) > 0 {
					sp.subset = hx.Pick(g.r, ss)
				} else if g.r.Chance(20) {
					sp.subset = hx.Pick(g.r, subsetNms)
				}
			default:
				// own service, no subset
			}
			key := sp.svc
			if key == "" {
				key = name
			}
			key += "/" + sp.subset
			if !used[key] || g.wild && g.r.Chance(20) {
				used[key] = true
				break
			}
		}
		sp.w = ws[i]
		s.splits = append(s.splits, sp)
	}
	if g.wild && g.r.Chance(15) && len(s.splits) > 0 {
		s.splits[0].w += 1 + g.r.Intn(50) // weights no longer sum to 100
	}
	return s
}

func (g *gen) router(name string, subsOf map[string][]string) mRouter {
	rt := mRouter{name: name}
	for n := g.r.Intn(4); n > 0; n-- {
		x := mRoute{pfx: fmt.Sprintf("/p%d", g.r.Intn(5))}
		switch k := g.r.Intn(10); {
		case k < 1:
			x.nilDest = true
		case k < 6:
			x.dest.svc = g.svc()
		case k < 7:
			// own service
		default:
			x.dest.svc = g.svc()
			s := x.dest.svc
			if ss := subsOf[s]; len(ss) > 0 {
				x.dest.subset = hx.Pick(g.r, ss)
			} else if g.r.Chance(15) {
				x.dest.subset = hx.Pick(g.r, subsetNms)
			}
		}
		if !x.nilDest && g.r.Chance(8) {
			x.dest.ns = hx.Pick(g.r, []string{"default", "ns1"})
		}
		if !x.nilDest && g.r.Chance(5) {
			x.dest.part = hx.Pick(g.r, []string{"default", "pt1"})
		}
		rt.routes = append(rt.routes, x)
	}
	return rt
}

func (g *gen) resolver(name string, subsOf map[string][]string) mResolver {
	rs := mResolver{name: name}
	for _, s := range subsOf[name] {
		rs.subsets = append(rs.subsets, mSubset{s, g.r.Intn(len(subsetDefs))})
	}
	if len(rs.subsets) > 0 && g.r.Chance(40) {
		rs.ds = hx.Pick(g.r, subsOf[name])
	}
	if g.wild && g.r.Chance(10) {
		rs.ds = hx.Pick(g.r, subsetNms) // possibly not a subset
	}
	if g.r.Chance(30) {
		rs.ct = hx.Pick(g.r, []int{3, 5, 8})
	}
	if g.r.Chance(15) {
		rs.rt = hx.Pick(g.r, []int{2, 15})
	}
	if g.r.Chance(25) {
		p := hx.Pick(g.r, lbPols)
		rs.lb = &p
	}
	sub := func(svc string) string {
		if svc == "" {
			svc = name
		}
		if ss := subsOf[svc]; len(ss) > 0 && g.r.Chance(50) {
			return hx.Pick(g.r, ss)
		}
		if g.r.Chance(8) {
			return hx.Pick(g.r, subsetNms) // may not exist at the destination
		}
		return ""
	}
	switch k := g.r.Intn(10); {
	case k < 3: // redirect
		o := opts{}
		switch j := g.r.Intn(10); {
		case j < 5:
			o.svc = g.svc()
			o.subset = sub(o.svc)
		case j < 7:
			o.dc = hx.Pick(g.r, dcNames)
			if g.r.Bool() {
				o.svc = g.svc()
			}
		case j < 8:
			o.subset = sub("")
			if o.subset == "" {
				o.svc = g.svc()
			}
		case j < 9 && g.peers:
			o.svc = g.svc()
			o.peer = hx.Pick(g.r, peerNames)
		default:
			o.svc = g.svc()
		}
		if g.wild && g.r.Chance(10) {
			o.ns = "ns1"
		}
		rs.redirect = &o
	case k < 6: // failover
		keys := []string{"*"}
		keys = append(keys, subsOf[name]...)
		hx.Shuffle(g.r, keys)
		nk := 1 + g.r.Intn(len(keys))
		for _, key := range keys[:nk] {
			f := mFailover{key: key}
			switch j := g.r.Intn(10); {
			case j < 3:
				n := 1 + g.r.Intn(3)
				for i := 0; i < n; i++ {
					f.dcs = append(f.dcs, hx.Pick(g.r, dcNames))
				}
				if g.r.Chance(30) {
					f.svc = g.svc()
				}
			case j < 6:
				n := 1 + g.r.Intn(3)
				for i := 0; i < n; i++ {
					t := opts{}
					switch q := g.r.Intn(10); {
					case q < 4:
						t.svc = g.svc()
						t.subset = sub(t.svc)
					case q < 6:
						t.dc = hx.Pick(g.r, dcNames)
						if g.r.Bool() {
							t.svc = g.svc()
						}
					case q < 8 && g.peers:
						t.svc = g.svc()
						t.peer = hx.Pick(g.r, peerNames)
					default:
						t.subset = sub("")
						if t.subset == "" {
							t.svc = g.svc()
						}
					}
					f.targets = append(f.targets, t)
				}
			case j < 8:
				f.svc = g.svc()
				f.subset = sub(f.svc)
			default:
				f.subset = sub("")
				if f.subset == "" {
					f.svc = g.svc()
				}
			}
			rs.failover = append(rs.failover, f)
		}
	}
	return rs
}

func (g *gen) set(forStore bool) *mSet {
	m := &mSet{}
	subsOf := map[string][]string{}
	for _, n := range g.names {
		switch g.r.Intn(4) {
		case 0:
			subsOf[n] = []string{"v1"}
		case 1:
			subsOf[n] = []string{"v1", "v2"}
		}
	}
	// protocols: one base protocol with occasional deviations
	base := hx.Pick(g.r, []string{"http", "http", "http", "grpc", "http2", "tcp", ""})
	viaProxy := g.r.Chance(35)
	if viaProxy || g.r.Chance(15) {
		p := &mProxy{mgw: hx.Pick(g.r, []string{"", "", "local", "remote"})}
		if viaProxy {
			p.proto = base
		} else if g.r.Chance(30) {
			p.proto = hx.Pick(g.r, protos)
		}
		m.proxy = p
	}
	for _, n := range g.names {
		if !viaProxy && g.r.Chance(85) || viaProxy && g.r.Chance(25) {
			s := mService{name: n, proto: base}
			if g.r.Chance(12) {
				s.proto = hx.Pick(g.r, protos)
			}
			if !forStore && g.r.Chance(10) {
				s.proto = strings.ToUpper(s.proto)
			}
			if g.r.Chance(8) {
				s.ext = n + ".external.example"
			}
			if g.r.Chance(20) {
				s.mgw = hx.Pick(g.r, mgwModes)
			}
			m.services = append(m.services, s)
		}
	}
	pSplit, pRes, pRouter := 45, 60, 35
	if g.nested {
		pSplit = 85
	}
	for _, n := range g.names {
		if g.r.Chance(pRouter) {
			m.routers = append(m.routers, g.router(n, subsOf))
		}
		if g.r.Chance(pSplit) {
			m.splitters = append(m.splitters, g.splitter(n, subsOf))
		}
		if g.r.Chance(pRes) || len(subsOf[n]) > 0 && g.r.Chance(90) {
			m.resolvers = append(m.resolvers, g.resolver(n, subsOf))
		}
	}
	return m
}

func (g *gen) ctx() mCtx {
	c := mCtx{svc: g.svc(), ns: "default", part: "default", dc: "dc1", td: "td.consul"}
	if g.r.Chance(12) {
		c.ns = "ns1"
	}
	if g.r.Chance(8) {
		c.part = "pt1"
	}
	if g.r.Chance(25) {
		c.dc = hx.Pick(g.r, dcNames)
	}
	if g.r.Chance(15) {
		c.ovMgw = hx.Pick(g.r, []string{"local", "remote", "none"})
	}
	if g.r.Chance(15) {
		c.ovProto = hx.Pick(g.r, []string{"tcp", "http", "grpc", "http2", "tcp", "http", "HTTP"})
	}
	if g.r.Chance(15) {
		c.ovCT = hx.Pick(g.r, []int{3, 5, 7})
	}
	if g.r.Chance(2) {
		switch g.r.Intn(5) {
		case 0:
			c.svc = ""
		case 1:
			c.ns = ""
		case 2:
			c.part = ""
		case 3:
			c.dc = ""
		default:
			c.td = ""
		}
	}
	return c
}

// ---------------------------------------------------------------- compile cases

func maxSplitDepth(m *mSet) int {
	sp := map[string]mSplitter{}
	for _, s := range m.splitters {
		sp[s.name] = s
	}
	var depth func(n string, seen map[string]bool) int
	depth = func(n string, seen map[string]bool) int {
		s, ok := sp[n]
		if !ok || seen[n] {
			return 0
		}
		seen[n] = true
		defer delete(seen, n)
		d := 0
		for _, x := range s.splits {
			svc := x.svc
			if svc == "" {
				svc = n
			}
			if svc != n && x.subset == "" {
				if c := depth(svc, seen); c > d {
					d = c
				}
			}
		}
		return d + 1
	}
	best := 0
	for n := range sp {
		if d := depth(n, map[string]bool{}); d > best {
			best = d
		}
	}
	return best
}

func tagInput(run *hx.Run, m *mSet, c mCtx) {
	if len(m.routers) > 0 {
		run.Tag("in:router")
	}
	run.Tag(fmt.Sprintf("in:splitter-nesting=%d", maxSplitDepth(m)))
	for _, r := range m.resolvers {
		if r.redirect != nil {
			run.Tag("in:redirect")
			if r.redirect.peer != "" {
				run.Tag("in:redirect-peer")
			}
			if r.redirect.dc != "" {
				run.Tag("in:redirect-dc")
			}
			if r.redirect.subset != "" {
				run.Tag("in:redirect-subset")
			}
		}
		if r.ds != "" {
			run.Tag("in:default-subset")
		}
		for _, f := range r.failover {
			switch {
			case len(f.dcs) > 0:
				run.Tag("in:failover-datacenters")
			case len(f.targets) > 0:
				run.Tag("in:failover-targets")
				for _, t := range f.targets {
					if t.peer != "" {
						run.Tag("in:failover-peer-target")
					}
				}
			default:
				run.Tag("in:failover-service/subset")
			}
		}
		if r.lb != nil {
			run.Tag("in:load-balancer")
		}
	}
	for _, s := range m.services {
		if s.ext != "" {
			run.Tag("in:external-sni")
		}
	}
	if m.proxy != nil {
		run.Tag("in:proxy-defaults")
	}
	if c.ovProto != "" {
		run.Tag("ctx:override-protocol")
	}
	if c.ovMgw != "" {
		run.Tag("ctx:override-mesh-gateway")
	}
	if c.ovCT != 0 {
		run.Tag("ctx:override-connect-timeout")
	}
	if c.ns != "default" || c.part != "default" {
		run.Tag("ctx:non-default-ns/partition")
	}
	for _, s := range m.services {
		if strings.Contains(s.name, ".") {
			run.Tag("in:dotted-service-name(id-collision)")
			break
		}
	}
}

func tagOutput(run *hx.Run, ch *structs.CompiledDiscoveryChain) {
	types := map[string]int{}
	for _, n := range ch.Nodes {
		types[n.Type]++
		if n.Type == structs.DiscoveryGraphNodeTypeResolver && n.Resolver.Failover != nil {
			run.Tag("out:failover")
		}
		if n.Type == structs.DiscoveryGraphNodeTypeSplitter {
			run.Tag(fmt.Sprintf("out:splits=%d", min(len(n.Splits), 6)))
			if n.LoadBalancer != nil {
				run.Tag("out:splitter-lb")
			}
			for _, s := range n.Splits {
				if s.Definition != nil && scale(s.Definition.Weight) != scale(s.Weight) {
					run.Tag("out:flattened-weight")
					break
				}
			}
		}
	}
	run.Tag(fmt.Sprintf("out:start=%s", strings.SplitN(ch.StartNode, ":", 2)[0]))
	run.Tag(fmt.Sprintf("out:nodes=%d", min(len(ch.Nodes), 8)))
	run.Tag(fmt.Sprintf("out:targets=%d", min(len(ch.Targets), 8)))
	if ch.Default {
		run.Tag("out:default-chain")
	}
	if ch.CustomizationHash != "" {
		run.Tag("out:customized")
	}
	for _, t := range ch.Targets {
		if t.External {
			run.Tag("out:external-target")
		}
		if t.Peer != "" {
			run.Tag("out:peer-target")
		}
	}
}

func scale(w float32) int { return int(math.Round(float64(w * 100.0))) }

func min(a, b int) int {
	if a < b {
		return a
	}
	return b
}

func permuted(r *hx.RNG, m *mSet) *mSet {
	p := &mSet{proxy: m.proxy}
	p.routers = append(p.routers, m.routers...)
	p.splitters = append(p.splitters, m.splitters...)
	p.resolvers = append(p.resolvers, m.resolvers...)
	p.services = append(p.services, m.services...)
	hx.Shuffle(r, p.routers)
	hx.Shuffle(r, p.splitters)
	hx.Shuffle(r, p.resolvers)
	hx.Shuffle(r, p.services)
	for i := range p.resolvers {
		rs := p.resolvers[i]
		rs.subsets = append([]mSubset(nil), rs.subsets...)
		rs.failover = append([]mFailover(nil), rs.failover...)
		hx.Shuffle(r, rs.subsets)
		hx.Shuffle(r, rs.failover)
		p.resolvers[i] = rs
	}
	return p
}

const callLimit = 20 * time.Second

func compileCase(run *hx.Run, r *hx.RNG, g *gen, repeats int) {
	if skipCase(run, caseID) {
		return
	}
	m := g.set(false)
	c := g.ctx()
	normalize := r.Chance(85)
	entries, valid := m.entries(normalize)
	if normalize {
		// Normalize lower-cases service-defaults protocols: the model must see what the compiler sees
		for i := range m.services {
			m.services[i].proto = strings.ToLower(m.services[i].proto)
		}
	}
	op := "compile " + c.enc() + " " + m.enc()
	inflight(op)
	out, timedOut := compileOnce(c, newSet(entries), callLimit)
	if timedOut {
		run.Violate("terminates:compile-timeout", "discoverychain.Compile did not return within "+callLimit.String(), []string{op})
		run.Line(op, "err timeout")
		run.Case(op, true)
		return
	}
	res := result(out)
	run.Line(op, res)
	tagInput(run, m, c)
	if valid {
		run.Tag("entries:all-valid")
	} else {
		run.Tag("entries:some-invalid")
	}
	run.Tag("result:" + strings.SplitN(strings.TrimPrefix(res, "err "), " ", 2)[0])
	if out.err != nil && strings.HasPrefix(out.err.Error(), "panic:") {
		run.Violate("terminates:compile-panic", out.err.Error(), []string{op})
	}
	if out.ch != nil {
		tagOutput(run, out.ch)
		if sig, desc := checkChain(out.ch); sig != "" {
			run.Violate(sig, desc, []string{op})
		}
	}
	dotted := false
	for _, n := range g.names {
		if strings.Contains(n, ".") {
			dotted = true // ChainID collisions can legitimately route around a cycle: not judged here
		}
	}
	if !dotted && inputSplitterCycle(m, c) {
		run.Tag("in:splitter-cycle")
		if out.err == nil {
			run.Violate("cycles:splitter-cycle-compiled", "the input has a splitter cycle on the chain's path but compilation succeeded", []string{op})
		}
	}
	if !dotted && inputRedirectCycle(m, c) {
		run.Tag("in:redirect-cycle")
		if out.err == nil {
			run.Violate("cycles:redirect-cycle-compiled", "the chain's own resolver starts a redirect cycle but compilation succeeded", []string{op})
		}
	}
	// determinism: repeated compilations (fresh maps each time) and permuted insertion orders
	ref := ""
	if out.ch != nil {
		b, _ := json.Marshal(out.ch)
		ref = string(b)
	} else {
		ref = "err " + errEnum(out.err)
	}
	for i := 0; i < repeats; i++ {
		mm := m
		if i%2 == 1 {
			mm = permuted(r, m)
		}
		es, _ := mm.entriesV(normalize, false)
		o2, to := compileOnce(c, newSet(es), callLimit)
		if to {
			run.Violate("terminates:compile-timeout", "repeat compilation timed out", []string{op})
			break
		}
		got := ""
		if o2.ch != nil {
			b, _ := json.Marshal(o2.ch)
			got = string(b)
		} else {
			got = "err " + errEnum(o2.err)
		}
		if got != ref {
			run.Violate("deterministic:repeated-compilation-differs",
				fmt.Sprintf("compilation #%d of the same entries differs: %s  vs  %s", i+2, trunc(firstDiff(ref, got), 300), ""), []string{op})
			break
		}
		if i == 1 {
			// the permuted input line must give the model the same answer too
			run.Line("compile "+c.enc()+" "+mm.enc(), result(o2))
		}
	}
	run.Case(op, len(m.routers)+len(m.splitters)+len(m.resolvers) > 0)
	run.Sample(map[string]string{"op": trunc(op, 400), "impl": trunc(res, 400)})
}

func firstDiff(a, b string) string {
	i := 0
	for i < len(a) && i < len(b) && a[i] == b[i] {
		i++
	}
	lo := i - 60
	if lo < 0 {
		lo = 0
	}
	return fmt.Sprintf("@%d: …%s… | …%s…", i, trunc(a[lo:], 160), trunc(b[lo:], 160))
}

func trunc(s string, n int) string {
	if len(s) > n {
		return s[:n] + "…"
	}
	return s
}

// ---------------------------------------------------------------- hand-written witnesses (run first)

func witnesses(run *hx.Run) {
	http := func(names ...string) []mService {
		var out []mService
		for _, n := range names {
			out = append(out, mService{name: n, proto: "http"})
		}
		return out
	}
	cases := []struct {
		tag string
		m   *mSet
		c   mCtx
	}{
		{"witness:nested-splitters-50-0.5-1", &mSet{
			splitters: []mSplitter{{"a", []mSplit{{5000, "b", ""}, {5000, "", "v1"}}}, {"b", []mSplit{{50, "c", ""}, {9950, "", "v1"}}}, {"c", []mSplit{{100, "d", ""}, {9900, "", "v1"}}}},
			resolvers: []mResolver{{name: "a", subsets: []mSubset{{"v1", 0}}}, {name: "b", subsets: []mSubset{{"v1", 0}}}, {name: "c", subsets: []mSubset{{"v1", 0}}}},
			services:  http("a", "b", "c", "d")}, mCtx{svc: "a", ns: "default", part: "default", dc: "dc1", td: "td.consul"}},
		{"witness:nested-splitters-reverse-names", &mSet{
			splitters: []mSplitter{{"c", []mSplit{{5000, "b", ""}, {5000, "", "v1"}}}, {"b", []mSplit{{50, "a", ""}, {9950, "", "v1"}}}, {"a", []mSplit{{100, "d", ""}, {9900, "", "v1"}}}},
			resolvers: []mResolver{{name: "a", subsets: []mSubset{{"v1", 0}}}, {name: "b", subsets: []mSubset{{"v1", 0}}}, {name: "c", subsets: []mSubset{{"v1", 0}}}},
			services:  http("a", "b", "c", "d")}, mCtx{svc: "c", ns: "default", part: "default", dc: "dc1", td: "td.consul"}},
		{"witness:splitter-cycle", &mSet{
			splitters: []mSplitter{{"a", []mSplit{{10000, "b", ""}}}, {"b", []mSplit{{10000, "a", ""}}}},
			services:  http("a", "b")}, mCtx{svc: "a", ns: "default", part: "default", dc: "dc1", td: "td.consul"}},
		{"witness:redirect-cycle", &mSet{
			resolvers: []mResolver{{name: "a", redirect: &opts{svc: "b"}}, {name: "b", redirect: &opts{svc: "a"}}}},
			mCtx{svc: "a", ns: "default", part: "default", dc: "dc1", td: "td.consul"}},
		{"witness:failover-back-to-self", &mSet{
			resolvers: []mResolver{{name: "a", failover: []mFailover{{key: "*", svc: "b"}}}, {name: "b", redirect: &opts{svc: "a"}}}},
			mCtx{svc: "a", ns: "default", part: "default", dc: "dc1", td: "td.consul"}},
		{"witness:id-collision", &mSet{
			splitters: []mSplitter{{"a", []mSplit{{5000, "v1.b", ""}, {5000, "b", "v1"}}}},
			resolvers: []mResolver{{name: "b", subsets: []mSubset{{"v1", 1}}}},
			services:  http("a", "b", "v1.b")}, mCtx{svc: "a", ns: "default", part: "default", dc: "dc1", td: "td.consul"}},
	}
	for wi, w := range cases {
		caseID = fmt.Sprintf("w%d", wi)
		if skipCase(run, caseID) {
			continue
		}
		entries, _ := w.m.entries(true)
		op := "compile " + w.c.enc() + " " + w.m.enc()
		inflight(op)
		out, to := compileOnce(w.c, newSet(entries), callLimit)
		if to {
			run.Violate("terminates:compile-timeout", w.tag, []string{op})
			continue
		}
		run.Line(op, result(out))
		run.Tag(w.tag)
		if out.ch != nil {
			if sig, desc := checkChain(out.ch); sig != "" {
				run.Violate(sig, desc, []string{op})
			}
			ref, _ := json.Marshal(out.ch)
			for i := 0; i < 40; i++ {
				es, _ := w.m.entriesV(true, false)
				o2, _ := compileOnce(w.c, newSet(es), callLimit)
				b, _ := json.Marshal(o2.ch)
				if string(b) != string(ref) {
					run.Violate("deterministic:repeated-compilation-differs", w.tag+": "+firstDiff(string(ref), string(b)), []string{op})
					break
				}
			}
		}
		run.Case(op, true)
	}
}

// ---------------------------------------------------------------- store sequences

type sut struct {
	s   *state.Store
	idx uint64
}

func kindOf(k string) string {
	switch k {
	case "R":
		return structs.ServiceRouter
	case "S":
		return structs.ServiceSplitter
	case "V":
		return structs.ServiceResolver
	case "D":
		return structs.ServiceDefaults
	}
	return structs.ProxyDefaults
}

// dump prints the config-entry table in the model's canonical form; raw is the full JSON
// (including Raft indexes) used by the "unchanged after rejection" monitor.
func (t *sut) dump() (canonical string, raw string) {
	_, entries, err := t.s.ConfigEntries(nil, structs.WildcardEnterpriseMetaInDefaultPartition())
	if err != nil {
		panic(err)
	}
	var r, s, v, d []string
	p := "-"
	var rawParts []string
	for _, e := range entries {
		b, _ := json.Marshal(e)
		rawParts = append(rawParts, e.GetKind()+"/"+e.GetName()+"="+string(b)+fmt.Sprintf("@%d/%d", e.GetRaftIndex().CreateIndex, e.GetRaftIndex().ModifyIndex))
		switch x := e.(type) {
		case *structs.ServiceRouterConfigEntry:
			r = append(r, routerFromReal(x).enc())
		case *structs.ServiceSplitterConfigEntry:
			s = append(s, splitterFromReal(x).enc())
		case *structs.ServiceResolverConfigEntry:
			v = append(v, resolverFromReal(x).enc(true))
		case *structs.ServiceConfigEntry:
			d = append(d, mService{x.Name, x.Protocol, x.ExternalSNI, string(x.MeshGateway.Mode)}.enc())
		case *structs.ProxyConfigEntry:
			p = hx.EncS(x.Protocol) + "|" + hx.EncS(string(x.MeshGateway.Mode))
		}
	}
	sort.Strings(r)
	sort.Strings(s)
	sort.Strings(v)
	sort.Strings(d)
	sort.Strings(rawParts)
	return "R=" + eList(",", r) + " S=" + eList(",", s) + " V=" + eList(",", v) + " D=" + eList(",", d) + " P=" + p, strings.Join(rawParts, "\n")
}

func routerFromReal(x *structs.ServiceRouterConfigEntry) mRouter {
	m := mRouter{name: x.Name}
	for _, r := range x.Routes {
		rt := mRoute{}
		if r.Match != nil && r.Match.HTTP != nil {
			rt.pfx = r.Match.HTTP.PathPrefix
		}
		if r.Destination != nil {
			rt.dest = opts{svc: r.Destination.Service, subset: r.Destination.ServiceSubset, ns: r.Destination.Namespace, part: r.Destination.Partition}
		}
		m.routes = append(m.routes, rt)
	}
	return m
}
func splitterFromReal(x *structs.ServiceSplitterConfigEntry) mSplitter {
	m := mSplitter{name: x.Name}
	for _, s := range x.Splits {
		m.splits = append(m.splits, mSplit{scale(s.Weight), s.Service, s.ServiceSubset})
	}
	return m
}
func resolverFromReal(x *structs.ServiceResolverConfigEntry) mResolver {
	m := mResolver{name: x.Name, ds: x.DefaultSubset, ct: int(x.ConnectTimeout / time.Second), rt: int(x.RequestTimeout / time.Second)}
	for n, s := range x.Subsets {
		m.subsets = append(m.subsets, mSubset{n, subsetDefID(s)})
	}
	if x.Redirect != nil {
		r := x.Redirect
		m.redirect = &opts{r.Service, r.ServiceSubset, r.Namespace, r.Partition, r.Datacenter, r.Peer}
	}
	for k, f := range x.Failover {
		mf := mFailover{key: k, svc: f.Service, subset: f.ServiceSubset, ns: f.Namespace, dcs: f.Datacenters}
		for _, t := range f.Targets {
			mf.targets = append(mf.targets, opts{t.Service, t.ServiceSubset, t.Namespace, t.Partition, t.Datacenter, t.Peer})
		}
		m.failover = append(m.failover, mf)
	}
	if x.LoadBalancer != nil {
		p := x.LoadBalancer.Policy
		m.lb = &p
	}
	return m
}

// chainsOK compiles the chain of every name of the universe from the store's current content.
func (t *sut) chainsOK(names []string) map[string]string {
	out := map[string]string{}
	for _, n := range names {
		_, set, err := t.s.ReadDiscoveryChainConfigEntries(nil, n, structs.DefaultEnterpriseMetaInDefaultPartition())
		if err != nil {
			out[n] = "read:" + err.Error()
			continue
		}
		o, to := compileOnce(mCtx{svc: n, ns: "default", part: "default", dc: "dc1", td: "td.consul"}, set, callLimit)
		switch {
		case to:
			out[n] = "timeout"
		case o.err != nil:
			out[n] = errEnum(o.err)
		default:
			out[n] = "ok"
			if sig, _ := checkChain(o.ch); sig != "" {
				out[n] = "ok-but:" + sig
			}
		}
	}
	return out
}

// quiet: monitor-only streams (inputs outside the model's domain, e.g. names differing only in case)
// run the implementation and the monitors but emit no lines for the model to reproduce.
var quiet bool

func emit(run *hx.Run, op, out string) {
	if !quiet {
		run.Line(op, out)
	}
}

// recheckedFold is `rechecked` with names compared case-insensitively: the memdb id index lower-cases
// config-entry names, the link index and the compiler's ServiceID maps do not.
func (t *sut) recheckedFold(kind, name string) map[string]bool {
	out := map[string]bool{}
	_, entries, err := t.s.ConfigEntries(nil, structs.WildcardEnterpriseMetaInDefaultPartition())
	if err != nil {
		panic(err)
	}
	for _, e := range entries {
		switch e.GetKind() {
		case structs.ServiceRouter, structs.ServiceSplitter, structs.ServiceResolver:
		default:
			continue
		}
		if l, ok := e.(interface{ ListRelatedServices() []structs.ServiceID }); ok {
			for _, sid := range l.ListRelatedServices() {
				if strings.EqualFold(sid.ID, name) {
					out[e.GetName()] = true
				}
			}
		}
	}
	return out
}

var foldRechecked map[string]bool // set by the quiet stream before each operation

// rechecked lists the chains validateProposedConfigEntryInServiceGraph re-compiles for a write to
// (kind, name): the entry's own name and the router / splitter / resolver entries that reference it
// directly (link index, read before the mutation); every chain with an entry for proxy-defaults.
func (t *sut) rechecked(kind, name string) map[string]bool {
	out := map[string]bool{}
	_, entries, err := t.s.ConfigEntries(nil, structs.WildcardEnterpriseMetaInDefaultPartition())
	if err != nil {
		panic(err)
	}
	if kind != structs.ProxyDefaults {
		out[name] = true
	}
	for _, e := range entries {
		switch e.GetKind() {
		case structs.ServiceRouter, structs.ServiceSplitter, structs.ServiceResolver:
		default:
			continue
		}
		if kind == structs.ProxyDefaults {
			out[e.GetName()] = true
			continue
		}
		if l, ok := e.(interface{ ListRelatedServices() []structs.ServiceID }); ok {
			for _, sid := range l.ListRelatedServices() {
				if sid.ID == name {
					out[e.GetName()] = true
				}
			}
		}
	}
	return out
}

// reportBreaks: an accepted write must not leave a previously compilable chain uncompilable.
func reportBreaks(run *hx.Run, op string, names []string, before, after map[string]string, rechecked map[string]bool, replay []string) {
	for _, n := range names {
		if before[n] == "ok" && after[n] != "ok" {
			sig := "store:accepted-write-breaks-indirect-referrer:"
			if rechecked[n] {
				sig = "store:accepted-write-breaks-rechecked-chain:"
			}
			if quiet {
				// names differing only in case: one mechanism signature (memdb's id index and the
				// override lookup fold case, ServiceID maps and the link index do not), detail in the text
				kind := "indirect referrer"
				if rechecked[n] {
					kind = "re-checked chain"
				} else if foldRechecked[n] {
					kind = "referrer through a case variant of the name"
				}
				run.Violate("store-case-variant-names:accepted-write-breaks-chain",
					fmt.Sprintf("%s was accepted but the chain of %q (%s) no longer compiles: %s", op, n, kind, after[n]), append([]string(nil), replay...))
				continue
			}
			run.Violate(sig+strings.SplitN(after[n], ":", 2)[0],
				fmt.Sprintf("%s was accepted but the chain of %q no longer compiles: %s", op, n, after[n]), append([]string(nil), replay...))
		}
	}
}

func storeSequence(run *hx.Run, r *hx.RNG, g *gen, steps int) {
	if skipCase(run, caseID) {
		return
	}
	t := &sut{s: state.NewStateStore(nil), idx: 10}
	emit(run, "reset", "ok")
	var replay []string
	replay = append(replay, "reset")
	before := t.chainsOK(g.names)
	present := map[string]bool{}
	nontrivial := false
	for step := 0; step < steps; step++ {
		// draw one entry from a freshly generated set (so references make sense together)
		m := g.set(true)
		type cand struct {
			k    string
			item string
			e    structs.ConfigEntry
			name string
		}
		var cands []cand
		for _, x := range m.routers {
			cands = append(cands, cand{"R", x.enc(), x.real(), x.name})
		}
		for _, x := range m.splitters {
			cands = append(cands, cand{"S", x.enc(), x.real(), x.name})
		}
		for _, x := range m.resolvers {
			cands = append(cands, cand{"V", x.enc(false), x.real(), x.name})
		}
		for _, x := range m.services {
			cands = append(cands, cand{"D", x.enc(), x.real(), x.name})
		}
		if m.proxy != nil {
			cands = append(cands, cand{"P", m.proxy.enc(), m.proxy.real(), "global"})
		}
		t.idx++
		inflight(strings.Join(replay, "\n") + "\n<next store operation>")
		_, rawBefore := t.dump()
		var op, res string
		var err error
		var rech map[string]bool
		isDelete := r.Chance(25) && len(present) > 0
		var key string
		if isDelete {
			keys := make([]string, 0, len(present))
			for k := range present {
				keys = append(keys, k)
			}
			sort.Strings(keys)
			key = hx.Pick(r, keys)
			if r.Chance(10) {
				key = hx.Pick(r, []string{"R", "S", "V", "D"}) + "/" + hx.Pick(r, g.names) // possibly absent
			}
			kn := strings.SplitN(key, "/", 2)
			op = "del " + kn[0] + " " + hx.EncS(kn[1])
			inflight(strings.Join(append(append([]string(nil), replay...), op), "\n"))
			rech = t.rechecked(kindOf(kn[0]), kn[1])
			if quiet {
				foldRechecked = t.recheckedFold(kindOf(kn[0]), kn[1])
			}
			err = guarded(func() error {
				return t.s.DeleteConfigEntry(t.idx, kindOf(kn[0]), kn[1], structs.DefaultEnterpriseMetaInDefaultPartition())
			})
			run.Tag("store:delete-" + kn[0])
		} else {
			if len(cands) == 0 {
				continue
			}
			c := hx.Pick(r, cands)
			if e := c.e.Normalize(); e != nil {
				run.Tag("store:skipped-invalid-entry")
				continue
			}
			if e := c.e.Validate(); e != nil {
				run.Tag("store:skipped-invalid-entry")
				continue
			}
			key = c.k + "/" + c.name
			op = "put " + c.k + " " + c.item
			inflight(strings.Join(append(append([]string(nil), replay...), op), "\n"))
			rech = t.rechecked(kindOf(c.k), c.name)
			if quiet {
				foldRechecked = t.recheckedFold(kindOf(c.k), c.name)
			}
			err = guarded(func() error { return t.s.EnsureConfigEntry(t.idx, c.e) })
			run.Tag("store:put-" + c.k)
		}
		if err == nil {
			res = "ok"
		} else {
			res = "rejected"
		}
		emit(run, op, res)
		replay = append(replay, op)
		canonical, rawAfter := t.dump()
		after := t.chainsOK(g.names)
		if err != nil {
			run.Tag("store:rejected:" + strings.SplitN(errEnum(err), ":", 2)[0])
			nontrivial = true
			if rawAfter != rawBefore {
				sig := "store:rejected-write-changed-table"
				if quiet {
					sig = "store-case-variant-names:rejected-write-changed-table"
				}
				run.Violate(sig, fmt.Sprintf("%s was rejected (%v) but the config entry table changed", op, err), append([]string(nil), replay...))
			}
		} else {
			run.Tag("store:accepted")
			if isDelete {
				delete(present, key)
			} else {
				present[key] = true
			}
			reportBreaks(run, op, g.names, before, after, rech, replay)
		}
		before = after
		emit(run, "dump", canonical)
		replay = append(replay, "dump")
		if step%3 == 2 || step == steps-1 {
			for _, n := range g.names {
				c := mCtx{svc: n, ns: "default", part: "default", dc: hx.Pick(r, []string{"dc1", "dc2"}), td: "td.consul"}
				_, set, e := t.s.ReadDiscoveryChainConfigEntries(nil, n, structs.DefaultEnterpriseMetaInDefaultPartition())
				if e != nil {
					panic(e)
				}
				o, to := compileOnce(c, set, callLimit)
				if to {
					run.Violate("terminates:compile-timeout", "chain "+n+" from the store", append([]string(nil), replay...))
					continue
				}
				emit(run, "chain "+c.enc(), result(o))
			}
		}
	}
	run.Case(strings.Join(replay, "\n"), nontrivial)
}

// caseWitness: the minimal sequence for the case-variant finding (monitor-only, no model lines).
func caseWitness(run *hx.Run) {
	caseID = "qw0"
	if skipCase(run, caseID) {
		return
	}
	names := []string{"A", "a"}
	t := &sut{s: state.NewStateStore(nil), idx: 10}
	px := (&mProxy{proto: "http"}).real()
	sp := mSplitter{"A", []mSplit{{5000, "A", ""}, {5000, "a", ""}}}.real()
	replay := []string{"reset"}
	before := t.chainsOK(names)
	for i, e := range []structs.ConfigEntry{px, sp} {
		t.idx++
		if err := e.Normalize(); err != nil {
			panic(err)
		}
		if err := e.Validate(); err != nil {
			panic(err)
		}
		op := []string{"put P =http|=", "put S " + mSplitter{"A", []mSplit{{5000, "A", ""}, {5000, "a", ""}}}.enc()}[i]
		rech := t.rechecked(e.GetKind(), e.GetName())
		foldRechecked = t.recheckedFold(e.GetKind(), e.GetName())
		inflight(strings.Join(append(append([]string(nil), replay...), op), "\n"))
		err := guarded(func() error { return t.s.EnsureConfigEntry(t.idx, e) })
		replay = append(replay, op)
		after := t.chainsOK(names)
		if err == nil {
			reportBreaks(run, op, names, before, after, rech, replay)
		}
		before = after
	}
	run.Tag("witness:store-case-variant-names")
	run.Case("case witness", true)
}

// storeWitnesses replays fixed write sequences on every run (DESIGN §2.6: the witness of a known
// finding is run against the implementation each time).
func storeWitnesses(run *hx.Run) {
	type w struct {
		k, name, item string
		e             structs.ConfigEntry // nil = delete
	}
	px := &mProxy{proto: "http"}
	sd1 := mService{name: "d", proto: "http"}
	sp := mSplitter{"b", []mSplit{{10000, "d", ""}}}
	rt := mRouter{"c", []mRoute{{pfx: "/x", dest: opts{svc: "b"}}}}
	sd2 := mService{name: "d", proto: "grpc"}
	rt2 := mRouter{"b", []mRoute{{pfx: "/x", dest: opts{svc: "c", subset: "v1"}}}}
	rc := mResolver{name: "c", subsets: []mSubset{{"v1", 0}}, failover: []mFailover{{key: "v1", svc: "a", subset: "v2"}}}
	ra := mResolver{name: "a", subsets: []mSubset{{"v2", 0}}}
	seqs := []struct {
		tag   string
		names []string
		ops   []w
	}{
		// accepted although chain c (router c -> splitter b -> d) then mixes http and grpc
		{"witness:store-indirect-referrer-protocol", []string{"b", "c", "d"}, []w{
			{"P", "global", px.enc(), px.real()},
			{"D", "d", sd1.enc(), sd1.real()},
			{"S", "b", sp.enc(), sp.real()},
			{"R", "c", rt.enc(), rt.real()},
			{"D", "d", sd2.enc(), sd2.real()},
		}},
		// accepted although chain b (router b -> c/v1 -> failover a/v2) then names a missing subset
		{"witness:store-indirect-referrer-subset", []string{"a", "b", "c"}, []w{
			{"P", "global", px.enc(), px.real()},
			{"V", "a", ra.enc(false), ra.real()},
			{"V", "c", rc.enc(false), rc.real()},
			{"R", "b", rt2.enc(), rt2.real()},
			{"V", "a", "", nil},
		}},
	}
	for si, sq := range seqs {
		caseID = fmt.Sprintf("sw%d", si)
		if skipCase(run, caseID) {
			continue
		}
		t := &sut{s: state.NewStateStore(nil), idx: 10}
		run.Line("reset", "ok")
		replay := []string{"reset"}
		before := t.chainsOK(sq.names)
		for _, x := range sq.ops {
			t.idx++
			var op string
			var f func() error
			if x.e == nil {
				op = "del " + x.k + " " + hx.EncS(x.name)
				x := x
				f = func() error {
					return t.s.DeleteConfigEntry(t.idx, kindOf(x.k), x.name, structs.DefaultEnterpriseMetaInDefaultPartition())
				}
			} else {
				if err := x.e.Normalize(); err != nil {
					panic(err)
				}
				if err := x.e.Validate(); err != nil {
					panic(err)
				}
				op = "put " + x.k + " " + x.item
				x := x
				f = func() error { return t.s.EnsureConfigEntry(t.idx, x.e) }
			}
			inflight(strings.Join(append(append([]string(nil), replay...), op), "\n"))
			rech := t.rechecked(kindOf(x.k), x.name)
			err := guarded(f)
			res := "ok"
			if err != nil {
				res = "rejected"
			}
			run.Line(op, res)
			replay = append(replay, op)
			after := t.chainsOK(sq.names)
			if err == nil {
				reportBreaks(run, op, sq.names, before, after, rech, replay)
			}
			before = after
		}
		canonical, _ := t.dump()
		run.Line("dump", canonical)
		run.Tag(sq.tag)
		run.Case(fmt.Sprint("store witness ", si), true)
	}
}

// ---------------------------------------------------------------- small-scope exhaustive enumeration

type cand struct {
	kind string // R S V D
	name string
	item string
	add  func(m *mSet)
	real func() structs.ConfigEntry
}

// candidates: 8 entries per name over a ring of three names.
func candidates() []cand {
	names := []string{"a", "b", "c"}
	var out []cand
	for i, n := range names {
		next := names[(i+1)%3]
		n := n
		sp1 := mSplitter{n, []mSplit{{10000, next, ""}}}
		sp2 := mSplitter{n, []mSplit{{50, next, ""}, {9950, "", "v1"}}}
		rv1 := mResolver{name: n, redirect: &opts{svc: next}}
		rv2 := mResolver{name: n, subsets: []mSubset{{"v1", 1}}, ds: "v1"}
		rv3 := mResolver{name: n, subsets: []mSubset{{"v1", 0}}, failover: []mFailover{{key: "*", svc: next}}}
		sd1 := mService{name: n, proto: "tcp"}
		sd2 := mService{name: n, proto: "http", ext: n + ".ext"}
		rt1 := mRouter{n, []mRoute{{pfx: "/x", dest: opts{svc: next}}, {pfx: "/y", dest: opts{subset: "v1"}}}}
		out = append(out,
			cand{"S", n, sp1.enc(), func(m *mSet) { m.splitters = append(m.splitters, sp1) }, func() structs.ConfigEntry { return sp1.real() }},
			cand{"S", n, sp2.enc(), func(m *mSet) { m.splitters = append(m.splitters, sp2) }, func() structs.ConfigEntry { return sp2.real() }},
			cand{"V", n, rv1.enc(false), func(m *mSet) { m.resolvers = append(m.resolvers, rv1) }, func() structs.ConfigEntry { return rv1.real() }},
			cand{"V", n, rv2.enc(false), func(m *mSet) { m.resolvers = append(m.resolvers, rv2) }, func() structs.ConfigEntry { return rv2.real() }},
			cand{"V", n, rv3.enc(false), func(m *mSet) { m.resolvers = append(m.resolvers, rv3) }, func() structs.ConfigEntry { return rv3.real() }},
			cand{"D", n, sd1.enc(), func(m *mSet) { m.services = append(m.services, sd1) }, func() structs.ConfigEntry { return sd1.real() }},
			cand{"D", n, sd2.enc(), func(m *mSet) { m.services = append(m.services, sd2) }, func() structs.ConfigEntry { return sd2.real() }},
			cand{"R", n, rt1.enc(), func(m *mSet) { m.routers = append(m.routers, rt1) }, func() structs.ConfigEntry { return rt1.real() }},
		)
	}
	return out
}

func permutations(n int) [][]int {
	if n == 0 {
		return [][]int{{}}
	}
	var out [][]int
	for _, p := range permutations(n - 1) {
		for i := 0; i <= len(p); i++ {
			q := append(append(append([]int(nil), p[:i]...), n-1), p[i:]...)
			out = append(out, q)
		}
	}
	return out
}

// exhaustive: every set of at most three candidate entries (distinct kind/name) on top of
// proxy-defaults{protocol=http}: compiled for each of the three names, and written to a fresh store in
// every order (then deleted in the same order). stride > 1 samples the enumeration (quick tier).
func exhaustive(run *hx.Run, stride int) {
	cs := candidates()
	var sets [][]int
	n := len(cs)
	for i := 0; i < n; i++ {
		sets = append(sets, []int{i})
		for j := i + 1; j < n; j++ {
			if cs[i].kind == cs[j].kind && cs[i].name == cs[j].name {
				continue
			}
			sets = append(sets, []int{i, j})
			for k := j + 1; k < n; k++ {
				if cs[k].kind == cs[i].kind && cs[k].name == cs[i].name || cs[k].kind == cs[j].kind && cs[k].name == cs[j].name {
					continue
				}
				sets = append(sets, []int{i, j, k})
			}
		}
	}
	names := []string{"a", "b", "c"}
	proxy := &mProxy{proto: "http"}
	count := 0
	for si, set := range sets {
		if si%stride != 0 {
			continue
		}
		caseID = fmt.Sprintf("x%d", si)
		if skipCase(run, caseID) {
			continue
		}
		count++
		// compile
		m := &mSet{proxy: proxy}
		for _, i := range set {
			cs[i].add(m)
		}
		for _, n := range names {
			c := mCtx{svc: n, ns: "default", part: "default", dc: "dc1", td: "td.consul"}
			entries, _ := m.entries(true)
			op := "compile " + c.enc() + " " + m.enc()
			inflight(op)
			out, _ := compileOnce(c, newSet(entries), callLimit)
			res := result(out)
			run.Line(op, res)
			run.Tag("exhaustive:compile:" + strings.SplitN(strings.TrimPrefix(res, "err "), " ", 2)[0])
			if out.ch != nil {
				if sig, desc := checkChain(out.ch); sig != "" {
					run.Violate(sig, desc, []string{op})
				}
			}
			if inputSplitterCycle(m, c) && out.err == nil {
				run.Violate("cycles:splitter-cycle-compiled", "the input has a splitter cycle on the chain's path but compilation succeeded", []string{op})
			}
			if inputRedirectCycle(m, c) && out.err == nil {
				run.Violate("cycles:redirect-cycle-compiled", "the chain's own resolver starts a redirect cycle but compilation succeeded", []string{op})
			}
		}
		// store: every order of writing, then deleting
		for _, perm := range permutations(len(set)) {
			t := &sut{s: state.NewStateStore(nil), idx: 10}
			replay := []string{"reset", "put P " + proxy.enc()}
			run.Line("reset", "ok")
			pe := proxy.real()
			pe.Normalize()
			if err := t.s.EnsureConfigEntry(t.idx, pe); err != nil {
				panic(err)
			}
			run.Line("put P "+proxy.enc(), "ok")
			before := t.chainsOK(names)
			step := func(op, kind, name string, f func() error) {
				rech := t.rechecked(kind, name)
				t.idx++
				_, rawBefore := t.dump()
				inflight(strings.Join(append(append([]string(nil), replay...), op), "\n"))
				err := guarded(f)
				res := "ok"
				if err != nil {
					res = "rejected"
				}
				run.Line(op, res)
				replay = append(replay, op)
				_, rawAfter := t.dump()
				after := t.chainsOK(names)
				if err != nil {
					run.Tag("exhaustive:store:rejected")
					if rawAfter != rawBefore {
						run.Violate("store:rejected-write-changed-table", fmt.Sprintf("%s was rejected (%v) but the config entry table changed", op, err), append([]string(nil), replay...))
					}
				} else {
					run.Tag("exhaustive:store:accepted")
					reportBreaks(run, op, names, before, after, rech, replay)
				}
				before = after
			}
			for _, pi := range perm {
				c := cs[set[pi]]
				e := c.real()
				if err := e.Normalize(); err != nil {
					panic(err)
				}
				if err := e.Validate(); err != nil {
					panic(fmt.Sprintf("candidate %s invalid: %v", c.item, err))
				}
				step("put "+c.kind+" "+c.item, kindOf(c.kind), c.name, func() error { return t.s.EnsureConfigEntry(t.idx, e) })
			}
			for _, pi := range perm {
				c := cs[set[pi]]
				step("del "+c.kind+" "+hx.EncS(c.name), kindOf(c.kind), c.name, func() error {
					return t.s.DeleteConfigEntry(t.idx, kindOf(c.kind), c.name, structs.DefaultEnterpriseMetaInDefaultPartition())
				})
			}
			canonical, _ := t.dump()
			run.Line("dump", canonical)
		}
		run.Case(fmt.Sprint("exhaustive ", set), true)
	}
	run.Extra["exhaustive_sets"] = count
	run.Extra["exhaustive_total_sets"] = len(sets)
	run.Extra["exhaustive"] = stride == 1
}

// ---------------------------------------------------------------- main

// supervise re-executes the harness as a child process. A call into the compiler that never returns
// or overflows the stack cannot be recovered in-process; the child names the case (inflight file) and
// dies, the parent restarts it with that case skipped and reported as a violation. After a few
// restarts the parent gives up and reports what it has (without comparable lines).
func supervise() bool {
	if os.Getenv("VERIF_C15_CHILD") != "" {
		return false
	}
	out := "."
	for i, a := range os.Args {
		if (a == "-out" || a == "--out") && i+1 < len(os.Args) {
			out = os.Args[i+1]
		} else if strings.HasPrefix(a, "-out=") {
			out = strings.TrimPrefix(a, "-out=")
		} else if strings.HasPrefix(a, "--out=") {
			out = strings.TrimPrefix(a, "--out=")
		}
	}
	os.MkdirAll(out, 0o755)
	ip := filepath.Join(out, "inflight.txt")
	sp := filepath.Join(out, "skip.txt")
	os.Remove(sp)
	var recs []string
	var lastErr error
	var tail strings.Builder
	for attempt := 0; attempt < 5; attempt++ {
		os.Remove(ip)
		os.WriteFile(sp, []byte(strings.Join(recs, "\x02")), 0o644)
		cmd := exec.Command(os.Args[0], os.Args[1:]...)
		cmd.Env = append(os.Environ(), "VERIF_C15_CHILD=1", "VERIF_C15_INFLIGHT="+ip, "VERIF_C15_SKIP="+sp)
		cmd.Stdout = os.Stdout
		tail.Reset()
		cmd.Stderr = &tailWriter{b: &tail, max: 4000}
		lastErr = cmd.Run()
		if lastErr == nil {
			return true
		}
		rec, _ := os.ReadFile(ip)
		if i := strings.IndexByte(string(rec), 0); i >= 0 {
			rec = rec[:i]
		}
		if len(rec) == 0 {
			break
		}
		recs = append(recs, string(rec))
	}
	// give up: report the offending cases only
	run := hx.Start() // truncates ops.txt / impl.out: the aborted run is not comparable
	run.Rule = "child harness aborted"
	loadSkips(strings.Join(recs, "\x02"))
	ids := make([]string, 0, len(skipped))
	for id := range skipped {
		ids = append(ids, id)
	}
	sort.Strings(ids)
	for _, id := range ids {
		skipCase(run, id)
	}
	if len(ids) == 0 {
		run.Violate("harness:child-died", fmt.Sprintf("the harness process died (%v): %s", lastErr, trunc(tail.String(), 800)), nil)
	}
	run.Finish()
	return true
}

func loadSkips(s string) {
	for _, rec := range strings.Split(s, "\x02") {
		f := strings.SplitN(rec, "\x01", 3)
		if len(f) == 3 {
			skipped[f[1]] = skipRec{f[0], f[2]}
		}
	}
}

type tailWriter struct {
	b   *strings.Builder
	max int
}

func (t *tailWriter) Write(p []byte) (int, error) {
	if t.b.Len() < t.max {
		t.b.Write(p)
	}
	return len(p), nil
}

var _ = flag.Parse

func main() {
	if supervise() {
		return
	}
	if ip := os.Getenv("VERIF_C15_INFLIGHT"); ip != "" {
		openInflight(ip)
	}
	startWatchdog()
	debug.SetGCPercent(400)
	if sp := os.Getenv("VERIF_C15_SKIP"); sp != "" {
		if b, err := os.ReadFile(sp); err == nil {
			loadSkips(string(b))
		}
	}
	run := hx.Start()
	flushRun = func() {}
	run.Rule = "discoverychain.Compile and Store.EnsureConfigEntry/DeleteConfigEntry vs CV.Chain.compile / ensureEntry / deleteEntry"
	if pf := os.Getenv("VERIF_C15_PROF"); pf != "" {
		f, _ := os.Create(pf)
		pprof.StartCPUProfile(f)
		defer pprof.StopCPUProfile()
	}
	t0 := time.Now()
	lap := func(what string) {
		if os.Getenv("VERIF_C15_TIMING") != "" {
			fmt.Printf("timing: %s %.1fs\n", what, time.Since(t0).Seconds())
		}
		t0 = time.Now()
	}
	witnesses(run)
	nCompile := run.Scale(1500, 20000)
	nStore := run.Scale(80, 1200)
	for i := 0; i < nCompile; i++ {
		r := run.RNG.Fork(uint64(i))
		caseID = fmt.Sprintf("c%d", i)
		g := &gen{r: r, names: svcNames, peers: r.Chance(50), wild: r.Chance(12), nested: r.Chance(35)}
		switch {
		case r.Chance(25):
			g.names = svcNames[:3]
		case r.Chance(6):
			g.names = []string{"a", "b", "v1.b", "c"} // ChainID("v1.b") collides with subset v1 of b
		}
		compileCase(run, r, g, 8)
	}
	lap("compile cases")
	storeWitnesses(run)
	for i := 0; i < nStore; i++ {
		r := run.RNG.Fork(uint64(1_000_000 + i))
		caseID = fmt.Sprintf("s%d", i)
		g := &gen{r: r, names: svcNames[:3+r.Intn(2)], peers: r.Chance(40), wild: false, nested: r.Chance(40)}
		storeSequence(run, r, g, 25)
	}
	lap("store sequences")
	// monitor-only: names that differ only in case (memdb lower-cases the id index, ServiceID does not)
	quiet = true
	caseWitness(run)
	for i := 0; i < run.Scale(40, 400); i++ {
		r := run.RNG.Fork(uint64(2_000_000 + i))
		caseID = fmt.Sprintf("q%d", i)
		g := &gen{r: r, names: hx.Pick(r, [][]string{{"a", "A", "b"}, {"a", "A", "b", "B"}, {"a", "b", "B", "c"}}), peers: false, wild: false, nested: r.Chance(40)}
		storeSequence(run, r, g, 25)
		run.Tag("store-case:sequence")
	}
	quiet = false
	foldRechecked = nil
	lap("case-variant store sequences")
	// the enumeration is the same for every seed: in the thorough tier (three derived seeds) do the
	// complete one only under the primary seed, a sample under the others
	primary := os.Getenv("VERIF_SEED")
	if primary == "" {
		primary = "1"
	}
	if run.Thorough() && fmt.Sprint(run.Seed) == primary {
		exhaustive(run, 1)
	} else {
		exhaustive(run, 40)
	}
	lap("exhaustive")
	run.Finish()
}
