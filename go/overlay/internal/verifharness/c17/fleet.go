//go:build verif

// C17 harness, part 2: keys that are COMPOSITE in the importer (node + check id, node + service id,
// node + service id + check id) colliding on every component but one.
//
//   - runCollisionCorpus: fixed two-node witnesses, one per composite key and per kind of change (removed on both
//     nodes at once / changed on one node only), replayed on every run and every seed;
//   - runSymmetricPairs: small scope, systematically. One service on two nodes that carry the SAME instance ids,
//     check ids, ports and statuses; every node independently takes one of nine shapes in the prior and in the new
//     snapshot (quick tier: all symmetric priors and a per-seed sample of the rest; thorough tier: all of them),
//     with and without a second imported service sharing the nodes;
//   - runFleetCase: a homogeneous fleet (2-4 nodes, 1-2 services, the same ids everywhere) that changes ONE
//     component on a SUBSET of its nodes per step (often on all of them): what a templated deployment, a stream
//     resync or a coalesced exporter update looks like.
//
// Everything goes through session.upd / session.list: same op lines for the model, same monitors.
package main

import (
	"fmt"
	"sort"
	"strings"

	"github.com/hashicorp/consul/internal/verifharness/hx"
)

// ---------------------------------------------------------------- fixed witnesses

func runCollisionCorpus(run *hx.Run) {
	nc := func(node, cid, st string) chkDef { return chkDef{node, cid, "", "", st} }
	sc := func(node, cid, sid, st string) chkDef { return chkDef{node, cid, sid, "web", st} }
	// the symmetric prior of every witness: web1 on n1, n2 and n3 with node check nc1 and service check c1
	full := func(nodes ...string) []inst {
		var out []inst
		for _, n := range nodes {
			out = append(out, mkInst(n, "", "10.0.0."+n[1:], "web1", "web", 80, nc(n, "nc1", "passing"), sc(n, "c1", "web1", "passing")))
		}
		return out
	}
	edit := func(is []inst, f func(i *inst)) []inst {
		out := make([]inst, len(is))
		for k := range is {
			out[k] = is[k]
			out[k].chks = append([]chkDef(nil), is[k].chks...)
			f(&out[k])
		}
		return out
	}
	dropChk := func(cid string, on ...string) func(i *inst) {
		return func(i *inst) {
			if !contains(on, i.node.name) {
				return
			}
			var ks []chkDef
			for _, k := range i.chks {
				if k.cid != cid {
					ks = append(ks, k)
				}
			}
			i.chks = ks
		}
	}
	setChk := func(cid, st string, on ...string) func(i *inst) {
		return func(i *inst) {
			if !contains(on, i.node.name) {
				return
			}
			for k := range i.chks {
				if i.chks[k].cid == cid {
					i.chks[k].status = st
				}
			}
		}
	}
	type step struct {
		name string
		is   []inst
	}
	three := full("n1", "n2", "n3")
	var onlyN3 []inst
	for _, i := range three {
		if i.node.name == "n3" {
			onlyN3 = append(onlyN3, i)
		}
	}
	cases := []struct {
		tag   string
		steps []step
	}{
		{"node-check-removed-from-all-nodes", []step{{"web", three}, {"web", edit(three, dropChk("nc1", "n1", "n2", "n3"))}}},
		{"node-check-removed-from-two-of-three-nodes", []step{{"web", three}, {"web", edit(three, dropChk("nc1", "n1", "n3"))}}},
		{"service-check-removed-from-all-nodes", []step{{"web", three}, {"web", edit(three, dropChk("c1", "n1", "n2", "n3"))}}},
		{"node-check-changed-on-one-node", []step{{"web", three}, {"web", edit(three, setChk("nc1", "critical", "n2"))}}},
		{"service-check-changed-on-one-node", []step{{"web", three}, {"web", edit(three, setChk("c1", "critical", "n2"))}}},
		{"node-check-changed-on-one-removed-on-others", []step{{"web", three}, {"web", edit(edit(three, setChk("nc1", "warning", "n2")), dropChk("nc1", "n1", "n3"))}}},
		{"two-node-checks-removed-from-each-node", []step{
			{"web", edit(three, func(i *inst) { i.chks = append(i.chks, nc(i.node.name, "nc2", "warning")) })},
			{"web", edit(three, dropChk("nc1", "n1", "n2", "n3"))}, // nc2 is not listed either: both go, on every node
		}},
		{"instance-changed-on-one-node", []step{{"web", three}, {"web", edit(three, func(i *inst) {
			if i.node.name == "n2" {
				i.svc.port = 8080
			}
		})}}},
		{"instance-removed-from-two-of-three-nodes", []step{{"web", three}, {"web", onlyN3}}},
		// heterogeneous prior, homogeneous snapshot: the node that lags behind must be brought up to date
		{"one-node-lags-behind", []step{{"web", edit(edit(three, setChk("c1", "critical", "n1")), func(i *inst) {
			if i.node.name == "n1" {
				i.svc.port = 8080
			}
		})}, {"web", three}}},
		// the same ids under two services of the peer: only the updated service may be touched
		{"same-ids-other-service-untouched", []step{
			{"api", []inst{mkInst("n1", "", "10.0.0.1", "api1", "api", 80, nc("n1", "nc1", "passing"), chkDef{"n1", "capi", "api1", "api", "passing"}),
				mkInst("n2", "", "10.0.0.2", "api1", "api", 80, nc("n2", "nc1", "passing"), chkDef{"n2", "capi", "api1", "api", "passing"})}},
			{"web", full("n1", "n2")},
			{"web", edit(full("n1", "n2"), dropChk("c1", "n1", "n2"))},
			{"web", nil}}},
	}
	for _, c := range cases {
		se := newSession(run, true)
		for _, st := range c.steps {
			se.upd("p1", st.name, st.is, "collide")
		}
		run.Tag("corpus:collide:" + c.tag)
		run.Case(strings.Join(se.hist, "\n"), true)
	}
}

// ---------------------------------------------------------------- two symmetric nodes, systematically

// nodeShapes: what one node of the scope looks like in a snapshot of "web" (instance ids a and b, node check nc,
// service check c1 on a — the same ids on both nodes).
const nShapes = 9

func shapeInsts(node string, shape int) []inst {
	addr := "10.0.0." + node[1:]
	ncSt, c1St, port := "passing", "passing", 80
	hasA, hasB := true, true
	switch shape {
	case 0: // full
	case 1:
		ncSt = ""
	case 2:
		ncSt = "critical"
	case 3:
		c1St = ""
	case 4:
		c1St = "critical"
	case 5:
		port = 8080
	case 6:
		hasA = false
	case 7:
		hasB = false
	default: // the node is not in the snapshot
		return nil
	}
	var ncs []chkDef
	if ncSt != "" {
		ncs = []chkDef{{node, "nc", "", "", ncSt}}
	}
	var out []inst
	if hasA {
		ks := append([]chkDef(nil), ncs...)
		if c1St != "" {
			ks = append(ks, chkDef{node, "c1", "a", "web", c1St})
		}
		out = append(out, mkInst(node, "", addr, "a", "web", port, ks...))
	}
	if hasB {
		out = append(out, mkInst(node, "", addr, "b", "web", 80, ncs...))
	}
	return out
}

func runSymmetricPair(run *hx.Run, shared bool, p1, p2, n1, n2 int) {
	se := newSession(run, true)
	if shared {
		// another imported service lives on both nodes under the same instance id and brought the node check along
		se.upd("p1", "api", []inst{
			mkInst("n1", "", "10.0.0.1", "x", "api", 443, chkDef{"n1", "nc", "", "", "passing"}),
			mkInst("n2", "", "10.0.0.2", "x", "api", 443, chkDef{"n2", "nc", "", "", "passing"})}, "symmetric")
	}
	se.upd("p1", "web", append(shapeInsts("n1", p1), shapeInsts("n2", p2)...), "symmetric")
	se.upd("p1", "web", append(shapeInsts("n1", n1), shapeInsts("n2", n2)...), "symmetric")
	run.Case(strings.Join(se.hist, "\n"), se.nontrivial)
}

// runSymmetricPairs: quick tier = every symmetric prior (both nodes in the same shape) against every new snapshot,
// plus a per-seed sample of the asymmetric priors; thorough tier = the whole scope.
func runSymmetricPairs(run *hx.Run, r *hx.RNG) int {
	n := 0
	if run.Thorough() {
		for _, shared := range []bool{false, true} {
			for p1 := 0; p1 < nShapes; p1++ {
				for p2 := 0; p2 < nShapes; p2++ {
					for n1 := 0; n1 < nShapes; n1++ {
						for n2 := n1; n2 < nShapes; n2++ { // (n1, n2) and (n2, n1) differ by a swap of the two nodes only when the prior is swapped too
							runSymmetricPair(run, shared, p1, p2, n1, n2)
							n++
						}
					}
				}
			}
		}
		run.Tag("symmetric:whole-scope")
		return n
	}
	for _, shared := range []bool{false, true} {
		for _, p := range []int{0, 2, 4, 5} {
			for n1 := 0; n1 < nShapes; n1++ {
				for n2 := n1; n2 < nShapes; n2++ {
					if shared && (n1+n2+p)%2 == 1 {
						continue // half of the shared ones: keeps the quick tier short
					}
					runSymmetricPair(run, shared, p, p, n1, n2)
					n++
				}
			}
		}
	}
	for k := 0; k < 120; k++ {
		runSymmetricPair(run, r.Chance(40), r.Intn(nShapes), r.Intn(nShapes), r.Intn(nShapes), r.Intn(nShapes))
		n++
	}
	run.Tag("symmetric:symmetric-priors+sample")
	return n
}

// ---------------------------------------------------------------- a homogeneous fleet changing in bulk

// subset picks the nodes a bulk change applies to: all of them (45%), else a random subset of at least two.
func (x *exporter) subset(r *hx.RNG) []*xNode {
	if len(x.nodes) <= 2 || r.Chance(45) {
		return append([]*xNode(nil), x.nodes...)
	}
	ns := append([]*xNode(nil), x.nodes...)
	hx.Shuffle(r, ns)
	return ns[:2+r.Intn(len(ns)-1)]
}

func inNodes(ns []*xNode, name string) bool {
	for _, n := range ns {
		if lc(n.name) == lc(name) {
			return true
		}
	}
	return false
}

// bulk applies one change of one component to several nodes at once; returns a tag ("" = nothing changed).
func (x *exporter) bulk(r *hx.RNG, svcs []string, sidsOf map[string][]string) string {
	if len(x.nodes) == 0 {
		return ""
	}
	on := x.subset(r)
	tag := ""
	done := func(t string) {
		if len(on) == len(x.nodes) {
			tag = t + "(all-nodes)"
		} else {
			tag = t + "(some-nodes)"
		}
	}
	switch r.Intn(14) {
	case 13: // every node check disappears (several check ids per node, several nodes)
		for _, n := range on {
			if len(n.checks) > 0 {
				n.checks = map[string]string{}
				done("all-node-checks-removed")
			}
		}
	case 0, 1, 2: // a node check disappears
		cid := hx.Pick(r, x.u.ncids)
		for _, n := range on {
			if _, ok := n.checks[cid]; ok {
				delete(n.checks, cid)
				done("node-check-removed")
			}
		}
	case 3: // a node check appears
		cid := hx.Pick(r, x.u.ncids)
		st := hx.Pick(r, statuses)
		for _, n := range on {
			if !x.cidUsed(n.name, cid) {
				n.checks[cid] = st
				done("node-check-added")
			}
		}
	case 4: // a node check changes its status
		cid := hx.Pick(r, x.u.ncids)
		st := hx.Pick(r, statuses)
		for _, n := range on {
			if o, ok := n.checks[cid]; ok && o != st {
				n.checks[cid] = st
				done("node-check-status")
			}
		}
	case 5, 6: // a service check disappears from the instances with one id
		sn := hx.Pick(r, svcs)
		sid := hx.Pick(r, sidsOf[sn])
		var cids []string
		for _, i := range x.insts {
			if i.sid == sid {
				cids = append(cids, sortedKeys(i.checks)...)
			}
		}
		if len(cids) > 0 {
			cid := hx.Pick(r, cids)
			for _, i := range x.insts {
				if i.sid == sid && inNodes(on, i.node) {
					if _, ok := i.checks[cid]; ok {
						delete(i.checks, cid)
						done("service-check-removed")
					}
				}
			}
		}
	case 7: // a service check appears / changes its status
		sn := hx.Pick(r, svcs)
		sid := hx.Pick(r, sidsOf[sn])
		cid := hx.Pick(r, []string{"service:" + sid, "c-" + sid})
		st := hx.Pick(r, statuses)
		for _, i := range x.insts {
			if i.sid == sid && inNodes(on, i.node) {
				if o, ok := i.checks[cid]; ok {
					if o != st {
						i.checks[cid] = st
						done("service-check-status")
					}
				} else if !x.cidUsed(i.node, cid) {
					i.checks[cid] = st
					done("service-check-added")
				}
			}
		}
	case 8: // the instances with one id go
		sn := hx.Pick(r, svcs)
		sid := hx.Pick(r, sidsOf[sn])
		var keep []*xInst
		for _, i := range x.insts {
			if i.sid == sid && inNodes(on, i.node) {
				done("instance-removed")
				continue
			}
			keep = append(keep, i)
		}
		x.insts = keep
	case 9: // the instances with one id (re)appear
		sn := hx.Pick(r, svcs)
		sid := hx.Pick(r, sidsOf[sn])
		port := hx.Pick(r, ports)
		for _, n := range on {
			if x.inst(n.name, sid) == nil {
				x.insts = append(x.insts, &xInst{node: n.name, sid: sid, sname: sn, port: port, checks: map[string]string{}})
				done("instance-added")
			}
		}
	case 10: // the instances with one id change their port
		sn := hx.Pick(r, svcs)
		sid := hx.Pick(r, sidsOf[sn])
		port := hx.Pick(r, ports)
		for _, i := range x.insts {
			if i.sid == sid && inNodes(on, i.node) && i.port != port {
				i.port = port
				done("instance-port")
			}
		}
	case 11: // nodes leave with everything on them
		if len(on) < len(x.nodes) || r.Chance(30) {
			var keepN []*xNode
			for _, n := range x.nodes {
				if !inNodes(on, n.name) {
					keepN = append(keepN, n)
				}
			}
			var keepI []*xInst
			for _, i := range x.insts {
				if !inNodes(on, i.node) {
					keepI = append(keepI, i)
				}
			}
			x.nodes, x.insts = keepN, keepI
			done("nodes-removed")
		}
	default: // the nodes change their address
		a := hx.Pick(r, addrs)
		for _, n := range on {
			if n.addr != a {
				n.addr = a
				done("node-address")
			}
		}
	}
	return tag
}

func runFleetCase(run *hx.Run, r *hx.RNG, flatten bool) {
	u := mkUniverse(false)
	p := "p1"
	se := newSession(run, true)
	// foreign rows only (local, other peers) under the same names: the isolation monitors watch them
	se.hist = append(se.hist, genPrior(r, run, se.w, u, "p2", false, true, se.mon)...)
	svcs := []string{"web"}
	if r.Chance(55) {
		svcs = append(svcs, "api")
	}
	sidsOf := map[string][]string{"web": {"web1"}, "api": {"api1"}}
	if r.Chance(50) {
		sidsOf["web"] = append(sidsOf["web"], "web2")
	}
	if r.Chance(30) {
		sidsOf["api"] = append(sidsOf["api"], "s1")
	}
	x := &exporter{u: u, ids: r.Chance(25)}
	nodes := append([]string(nil), u.nodes...)
	hx.Shuffle(r, nodes)
	nodes = nodes[:2+r.Intn(3)]
	sort.Strings(nodes)
	// the template every node is stamped from
	nodeChecks := map[string]string{}
	for _, c := range u.ncids {
		if r.Chance(55) {
			nodeChecks[c] = hx.Pick(r, statuses)
		}
	}
	type tmpl struct {
		port   int
		checks map[string]string
	}
	tm := map[string]tmpl{}
	for _, sn := range svcs {
		for _, sid := range sidsOf[sn] {
			t := tmpl{port: hx.Pick(r, ports), checks: map[string]string{}}
			for _, c := range []string{"service:" + sid, "c-" + sid} {
				if r.Chance(55) {
					t.checks[c] = hx.Pick(r, statuses)
				}
			}
			tm[sid] = t
		}
	}
	for _, nn := range nodes {
		n := &xNode{name: nn, id: x.freshID(r), addr: hx.Pick(r, addrs), checks: map[string]string{}}
		for c, st := range nodeChecks {
			n.checks[c] = st
		}
		x.nodes = append(x.nodes, n)
		for _, sn := range svcs {
			if len(svcs) > 1 && sn == "api" && r.Chance(25) {
				continue // the second service does not cover every node
			}
			for _, sid := range sidsOf[sn] {
				i := &xInst{node: nn, sid: sid, sname: sn, port: tm[sid].port, checks: map[string]string{}}
				for c, st := range tm[sid].checks {
					i.checks[c] = st
				}
				x.insts = append(x.insts, i)
			}
		}
	}
	send := func(name string) {
		is := x.snapshot(name, flatten)
		hx.Shuffle(r, is)
		se.upd(p, name, is, "fleet")
	}
	for _, sn := range svcs {
		send(sn)
	}
	for k := 4 + r.Intn(4); k > 0; k-- {
		for j := 1 + r.Intn(2); j > 0; j-- {
			if t := x.bulk(r, svcs, sidsOf); t != "" {
				run.Tag("fleet:" + t)
			}
		}
		if r.Chance(20) {
			if t := x.mutate(r); t != "" {
				run.Tag("exporter:" + t)
			}
		}
		switch {
		case r.Chance(10):
			names := x.names()
			if r.Chance(50) && len(names) > 0 {
				names = names[1:]
				run.Tag("list:service-unexported")
			}
			se.list(p, names)
		case r.Chance(45):
			order := append([]string(nil), svcs...)
			hx.Shuffle(r, order)
			for _, sn := range order {
				send(sn)
			}
		default:
			send(hx.Pick(r, svcs))
		}
	}
	run.Tag(fmt.Sprintf("mode:fleet,flatten=%v,services=%d,nodes=%d", flatten, len(svcs), len(nodes)))
	run.Case(strings.Join(se.hist, "\n"), se.nontrivial)
	run.Sample(map[string]any{"ops": se.hist[:min(len(se.hist), 12)]})
}
