//go:build verif

package main

import (
	"fmt"

	"github.com/hashicorp/go-hclog"
	"github.com/hashicorp/raft"

	"github.com/hashicorp/consul/agent/consul/fsm"
	"github.com/hashicorp/consul/agent/consul/state"
	"github.com/hashicorp/consul/agent/grpc-external/services/peerstream"
	"github.com/hashicorp/consul/agent/structs"
	"github.com/hashicorp/consul/internal/verifharness/hx"
	"github.com/hashicorp/consul/proto/private/pbpeerstream"
	"github.com/hashicorp/consul/proto/private/pbservice"
)

var _ = raft.Log{}
var _ = pbservice.CheckServiceNode{}
var _ = pbpeerstream.ExportedService{}
var _ = structs.RegisterRequest{}
var _ = peerstream.Config{}

func newFSM() *fsm.FSM {
	return fsm.NewFromDeps(fsm.Deps{
		Logger:         hclog.NewNullLogger(),
		NewStateStore:  func() *state.Store { return state.NewStateStore(nil) },
		StorageBackend: fsm.NullStorageBackend,
	})
}

func main() {
	run := hx.Start()
	f := newFSM()
	fmt.Println(f.State().VerifC17Catalog())
	run.Finish()
}
