//go:build verif

// C17 harness: peering imports mirror exactly what was exported and touch nothing else.
//
// Import side. A real peerstream.Server (processResponse -> handleUpsert -> handleUpdateService /
// handleUpsertExportedServiceList) is wired to a Backend that applies CatalogRegister /
// CatalogDeregister as Raft commands to a real FSM + state store. Streams, in this order:
//   - corpus: one fixed witness per known finding (known_findings.txt), so that every run shows them;
//   - thorough tier: every (prior, new) snapshot pair of a small scope (runExhaustive);
//   - generated cases: a random prior catalog (local rows, other peers' rows, earlier imports, all drawn
//     from the same small name universe so that names collide) and 3-8 messages: exported-service
//     upserts, "deletes" (empty upserts) and exported-service-list updates, taken from a small simulated
//     exporting cluster that mutates between messages (instances move between nodes, nodes are shared by
//     services, node- and service-level checks come and go, nodes are renamed / re-identified, instance
//     ids change service) or arbitrary well-formed snapshots; checks raw or flattened as today's exporter
//     does; 12% of the cases use names that differ only in case — outside the model's domain, these run
//     through the monitors only and emit no line;
//   - malformed stream: snapshots no exporter sends (panics, failing registrations) and messages rejected
//     at protocol level;
//   - composite keys colliding on one component (fleet.go): fixed multi-node witnesses, two symmetric nodes in
//     nine shapes each, homogeneous fleets changing one component on several nodes per update.
//
// After every message the whole catalog is dumped with the CreateIndex / ModifyIndex of every row; the Lean model
// (CV.Peer + CV.PeerIdx, driver cvd_c17) must reproduce result, command log (sorted), dump and CheckServiceNodes view. Snapshots go to the model in the node
// order the implementation used (Go map iteration), read off the command log.
//
// Exporter -> importer, end to end (runE2ECase, runE2ECorpus). A real subscriptionManager subscribed for the
// peer on an exporting state store with a real event publisher; every update it publishes is turned into
// the replication response the stream handler sends and forwarded to the importer above (processResponse),
// also as op lines for the importer model. After every exporter-side write (exported-services config entry:
// add / remove / swap in one write / wildcard / rewritten unchanged; instance registrations with changed
// port, status or service name, with node-level and maintenance checks, of a non-typical kind under an exported
// name, under a name that looks like a synthetic sidecar, connect-native; deregistrations; check deletions; node
// deletions; batches of 2-3 writes that reach the subscription before the harness looks again) the harness forwards until everything
// exported has reached the wire (no sleeps; a 4 s idle timeout only bounds the wait for an exporter that
// withholds something) and checks the mirror property: for every service exported to the peer, the last
// snapshot received since the importer last dropped it and CheckServiceNodes on the importer equal the
// exporter's CheckServiceNodes modulo the documented normalisation (typical kinds, checks flattened into
// "<id>:overall-check", a maintenance check wins); nothing else is left on the importer; nothing sent carries
// connect / proxy details or a look-alike sidecar name (export:connect-reference-leaked).
//
// Exporter duplicate suppression alone (playDedup). The real handleEvent (syncNormalServices,
// sendPendingEvents, cleanupEventVersions) driven synchronously with list and snapshot events, every
// sent / dropped decision compared with the model CV.PeerExport, plus a monitor: a snapshot of an exported
// service is dropped as a duplicate only if the importing side holds exactly it.
//
// Export side. Store.ExportedServicesForPeer over generated exported-services entries (exact, wildcard,
// several peers, the "consul" name, non-peer consumers), local registrations and discovery chains.
//
// Monitors (independent of the model) restate the property on the implementation: every command carries
// the stream's peer (monCalls); rows of other peers and local rows incl. Raft indexes are byte-identical
// before/after (others); CheckServiceNodes == received snapshot, absent entries removed (monExact); nodes
// go iff unused (monNodes); other services of the peer untouched (monOther); list prunes the unlisted and
// keeps the listed (monList); no state-store panic (monPanics); export only to consumers (runExportCase).
// A monitor failure keeps its generic signature unless its classifier has verified the history shape of a
// known mechanism.
package main

import (
	"context"
	"fmt"
	"sort"
	"strings"
	"time"

	"github.com/hashicorp/go-hclog"
	"github.com/hashicorp/raft"
	"google.golang.org/protobuf/proto"
	"google.golang.org/protobuf/types/known/anypb"

	"github.com/hashicorp/consul/agent/cache"
	"github.com/hashicorp/consul/agent/connect"
	"github.com/hashicorp/consul/agent/consul/fsm"
	"github.com/hashicorp/consul/agent/consul/state"
	"github.com/hashicorp/consul/agent/consul/stream"
	"github.com/hashicorp/consul/agent/grpc-external/services/peerstream"
	"github.com/hashicorp/consul/agent/structs"
	"github.com/hashicorp/consul/internal/verifharness/hx"
	"github.com/hashicorp/consul/proto/private/pbpeering"
	"github.com/hashicorp/consul/proto/private/pbpeerstream"
	"github.com/hashicorp/consul/proto/private/pbservice"
	"github.com/hashicorp/consul/types"
)

// ---------------------------------------------------------------- plain data mirrored by the model

type nodeDef struct{ name, id, addr string }
type svcDef struct {
	sid, name string
	port      int
}
type chkDef struct{ node, cid, sid, sname, status string }
type inst struct {
	node nodeDef
	svc  svcDef
	chks []chkDef
}

func encChkDef(k chkDef) string {
	return strings.Join([]string{hx.EncS(k.node), hx.EncS(k.cid), hx.EncS(k.sid), hx.EncS(k.sname), hx.EncS(k.status)}, "~")
}
func encChkDefs(ks []chkDef) string {
	if len(ks) == 0 {
		return "-"
	}
	t := make([]string, len(ks))
	for i, k := range ks {
		t[i] = encChkDef(k)
	}
	return strings.Join(t, "|")
}
func encInst(i inst) string {
	return strings.Join([]string{hx.EncS(i.node.name), hx.EncS(i.node.id), hx.EncS(i.node.addr),
		hx.EncS(i.svc.sid), hx.EncS(i.svc.name), fmt.Sprint(i.svc.port), encChkDefs(i.chks)}, ";")
}
func encInsts(is []inst) string {
	t := make([]string, len(is))
	for i, x := range is {
		t[i] = encInst(x)
	}
	return hx.EncList(t)
}

// ---------------------------------------------------------------- the importing cluster

type call struct {
	enc  string // canonical log entry
	node string // node name of a registration ("" for deregistrations)
	sid  string // service id of a service registration
	peer string
}

type backend struct {
	w     *world
	calls []call
}

func (b *backend) Subscribe(*stream.SubscribeRequest) (*stream.Subscription, error) {
	return nil, fmt.Errorf("not used")
}
func (b *backend) IsLeader() bool                                     { return true }
func (b *backend) SetLeaderAddress(string)                            {}
func (b *backend) GetLeaderAddress() string                           { return "" }
func (b *backend) ValidateProposedPeeringSecret(string) (bool, error) { return true, nil }
func (b *backend) PeeringSecretsWrite(*pbpeering.SecretsWriteRequest) error {
	return nil
}
func (b *backend) PeeringTerminateByID(*pbpeering.PeeringTerminateByIDRequest) error { return nil }
func (b *backend) PeeringTrustBundleWrite(*pbpeering.PeeringTrustBundleWriteRequest) error {
	return nil
}
func (b *backend) PeeringWrite(*pbpeering.PeeringWriteRequest) error { return nil }

func (b *backend) CatalogRegister(req *structs.RegisterRequest) error {
	s := "-"
	if req.Service != nil {
		s = hx.EncS(req.Service.ID)
	}
	ks := "-"
	if len(req.Checks) > 0 {
		t := make([]string, len(req.Checks))
		for i, c := range req.Checks {
			t[i] = hx.EncS(string(c.CheckID))
		}
		sort.Strings(t)
		ks = strings.Join(t, "+")
	}
	sid := ""
	if req.Service != nil {
		sid = req.Service.ID
	}
	b.calls = append(b.calls, call{enc: fmt.Sprintf("r;%s;%s;%s", hx.EncS(req.Node), s, ks), node: req.Node, sid: sid, peer: req.PeerName})
	return b.w.apply(structs.RegisterRequestType, req)
}

func (b *backend) CatalogDeregister(req *structs.DeregisterRequest) error {
	var e string
	switch {
	case req.ServiceID != "":
		e = fmt.Sprintf("ds;%s;%s", hx.EncS(req.Node), hx.EncS(req.ServiceID))
	case req.CheckID != "":
		e = fmt.Sprintf("dc;%s;%s", hx.EncS(req.Node), hx.EncS(string(req.CheckID)))
	default:
		e = fmt.Sprintf("dn;%s", hx.EncS(req.Node))
	}
	b.calls = append(b.calls, call{enc: e, peer: req.PeerName})
	return b.w.apply(structs.DeregisterRequestType, req)
}

type world struct {
	f   *fsm.FSM
	srv *peerstream.Server
	be  *backend
	mst *peerstream.MutableStatus
	idx uint64
	// panics recovered while applying a Raft command
	panics []string
}

func newWorld() *world {
	w := &world{idx: 10}
	w.f = fsm.NewFromDeps(fsm.Deps{
		Logger:         hclog.NewNullLogger(),
		NewStateStore:  func() *state.Store { return state.NewStateStore(nil) },
		StorageBackend: fsm.NullStorageBackend,
	})
	w.be = &backend{w: w}
	w.srv = peerstream.NewServer(peerstream.Config{
		Backend:    w.be,
		GetStore:   func() peerstream.StateStore { return w.f.State() },
		Logger:     hclog.NewNullLogger(),
		Datacenter: "dc1",
	})
	w.mst = peerstream.VerifC17NewStatus()
	return w
}

// apply sends one Raft command through the real FSM, as the leader's raftApplyMsgpack does.
func (w *world) apply(t structs.MessageType, req any) (err error) {
	buf, e := structs.Encode(t, req)
	if e != nil {
		panic(e)
	}
	w.idx++
	defer func() {
		// the FSM does not panic by contract on these commands; a panic is reported by the monitors
		if r := recover(); r != nil {
			w.panics = append(w.panics, fmt.Sprint(r))
			err = fmt.Errorf("panic in the state store: %v", r)
		}
	}()
	res := w.f.Apply(&raft.Log{Index: w.idx, Term: 1, Type: raft.LogCommand, Data: buf})
	if e, ok := res.(error); ok && e != nil {
		return e
	}
	return nil
}

func errEnum(err error) string {
	if err == nil {
		return "ok"
	}
	m := err.Error()
	switch {
	case strings.Contains(m, "panic in the state store"):
		return "err:store-panic"
	case strings.Contains(m, "Missing service registration"):
		return "err:missing-service"
	case strings.Contains(m, "Missing node registration"):
		return "err:missing-node"
	case strings.Contains(m, "is reserved by node"):
		return "err:node-reserved"
	case strings.Contains(m, "does not match node"):
		return "err:check-node-mismatch"
	case strings.Contains(m, "unsupported operation"):
		return "err:unsupported-operation"
	case strings.Contains(m, "unknown resource type"):
		return "err:unknown-type"
	case strings.Contains(m, "without a nonce"):
		return "err:no-nonce"
	case strings.Contains(m, "no content"):
		return "err:no-content"
	case strings.Contains(m, "mismatched resourceURL"):
		return "err:mismatched-url"
	}
	return "err:other(" + strings.ReplaceAll(m, " ", "_") + ")"
}

// ---------------------------------------------------------------- canonical views of the real store

type row struct{ key, full string } // key: model-visible fields; full: + Raft indexes

func (w *world) rows() (out []row, byPeer map[string][]string) {
	ns, ss, ks := w.f.State().VerifC17Catalog()
	byPeer = map[string][]string{}
	for _, n := range ns {
		k := fmt.Sprintf("N %s;%s;%s;%s@%d/%d", hx.EncS(n.PeerName), hx.EncS(n.Node), hx.EncS(string(n.ID)), hx.EncS(n.Address), n.CreateIndex, n.ModifyIndex)
		f := fmt.Sprintf("%s dc=%s meta=%v ta=%v", k, n.Datacenter, n.Meta, n.TaggedAddresses)
		out = append(out, row{k, f})
		byPeer[n.PeerName] = append(byPeer[n.PeerName], f)
	}
	for _, s := range ss {
		k := fmt.Sprintf("S %s;%s;%s;%s;%d@%d/%d", hx.EncS(s.PeerName), hx.EncS(s.Node), hx.EncS(s.ServiceID), hx.EncS(s.ServiceName), s.ServicePort, s.CreateIndex, s.ModifyIndex)
		f := fmt.Sprintf("%s kind=%s tags=%v meta=%v w=%v", k, s.ServiceKind, s.ServiceTags, s.ServiceMeta, s.ServiceWeights)
		out = append(out, row{k, f})
		byPeer[s.PeerName] = append(byPeer[s.PeerName], f)
	}
	for _, c := range ks {
		k := fmt.Sprintf("C %s;%s;%s;%s;%s;%s@%d/%d", hx.EncS(c.PeerName), hx.EncS(c.Node), hx.EncS(string(c.CheckID)), hx.EncS(c.ServiceID), hx.EncS(c.ServiceName), hx.EncS(c.Status), c.CreateIndex, c.ModifyIndex)
		f := fmt.Sprintf("%s name=%s out=%s", k, c.Name, c.Output)
		out = append(out, row{k, f})
		byPeer[c.PeerName] = append(byPeer[c.PeerName], f)
	}
	return
}

func (w *world) dump() string {
	rs, _ := w.rows()
	var n, s, c []string
	for _, r := range rs {
		switch r.key[0] {
		case 'N':
			n = append(n, r.key[2:])
		case 'S':
			s = append(s, r.key[2:])
		default:
			c = append(c, r.key[2:])
		}
	}
	sort.Strings(n)
	sort.Strings(s)
	sort.Strings(c)
	return fmt.Sprintf("N=%s S=%s C=%s", hx.EncList(n), hx.EncList(s), hx.EncList(c))
}

// everything that does not belong to peer p, with Raft indexes
func (w *world) others(p string) string {
	_, by := w.rows()
	var all []string
	for peer, rs := range by {
		if peer != p {
			all = append(all, rs...)
		}
	}
	sort.Strings(all)
	return strings.Join(all, "\n")
}

type csnView struct {
	node  nodeDef
	svc   svcDef
	chks  []chkDef
	canon string
}

func (w *world) csn(p, name string) ([]csnView, string) {
	_, res, err := w.f.State().CheckServiceNodes(nil, name, structs.DefaultEnterpriseMetaInDefaultPartition(), p)
	if err != nil {
		return nil, errEnum(err)
	}
	var out []csnView
	var enc []string
	for _, x := range res {
		v := csnView{node: nodeDef{x.Node.Node, string(x.Node.ID), x.Node.Address}, svc: svcDef{x.Service.ID, x.Service.Service, x.Service.Port}}
		var ks []string
		for _, c := range x.Checks {
			k := chkDef{c.Node, string(c.CheckID), c.ServiceID, c.ServiceName, c.Status}
			v.chks = append(v.chks, k)
			ks = append(ks, strings.Join([]string{hx.EncS(k.cid), hx.EncS(k.sid), hx.EncS(k.sname), hx.EncS(k.status), hx.EncS(k.node)}, "~"))
		}
		sort.Strings(ks)
		kk := "-"
		if len(ks) > 0 {
			kk = strings.Join(ks, "|")
		}
		v.canon = strings.Join([]string{hx.EncS(v.node.name), hx.EncS(v.node.id), hx.EncS(v.node.addr), hx.EncS(v.svc.sid), hx.EncS(v.svc.name), fmt.Sprint(v.svc.port), kk}, ";")
		out = append(out, v)
		enc = append(enc, v.canon)
	}
	sort.Strings(enc)
	return out, hx.EncList(enc)
}

// ---------------------------------------------------------------- building real requests

func mkNodeService(s svcDef, peer string) *structs.NodeService {
	return &structs.NodeService{
		Kind: structs.ServiceKindTypical, ID: s.sid, Service: s.name, Port: s.port,
		Weights:        &structs.Weights{Passing: 1, Warning: 1},
		EnterpriseMeta: *structs.DefaultEnterpriseMetaInDefaultPartition(),
		PeerName:       peer,
	}
}

func mkCheck(k chkDef, peer string) *structs.HealthCheck {
	return &structs.HealthCheck{
		Node: k.node, CheckID: types.CheckID(k.cid), Name: "chk-" + k.cid, Status: k.status,
		ServiceID: k.sid, ServiceName: k.sname,
		EnterpriseMeta: *structs.DefaultEnterpriseMetaInDefaultPartition(),
		PeerName:       peer,
	}
}

func (w *world) directRegister(peer string, n nodeDef, s *svcDef, ks []chkDef) error {
	req := &structs.RegisterRequest{
		Datacenter: "dc1", ID: types.NodeID(n.id), Node: n.name, Address: n.addr, PeerName: peer,
		EnterpriseMeta: *structs.DefaultEnterpriseMetaInDefaultPartition(),
	}
	// the rows take the shape an import stores (structs -> protobuf -> structs)
	c := &structs.CheckServiceNode{Node: &structs.Node{Node: n.name}, Service: mkNodeService(svcDef{"x", "x", 1}, peer)}
	if s != nil {
		c.Service = mkNodeService(*s, peer)
	}
	for _, k := range ks {
		c.Checks = append(c.Checks, mkCheck(k, peer))
	}
	rt, err := pbservice.CheckServiceNodeToStructs(pbservice.NewCheckServiceNodeFromStructs(c))
	if err != nil {
		panic(err)
	}
	if s != nil {
		req.Service = rt.Service
	}
	req.Checks = rt.Checks
	return w.apply(structs.RegisterRequestType, req)
}

func mkExportedService(is []inst) *pbpeerstream.ExportedService {
	out := &pbpeerstream.ExportedService{}
	for _, i := range is {
		// what the exporter sends: its own (local) rows, datacenter of the exporter, no Raft indexes
		c := &structs.CheckServiceNode{
			Node:    &structs.Node{ID: types.NodeID(i.node.id), Node: i.node.name, Address: i.node.addr, Datacenter: "dc1"},
			Service: mkNodeService(i.svc, ""),
		}
		for _, k := range i.chks {
			c.Checks = append(c.Checks, mkCheck(k, ""))
		}
		out.Nodes = append(out.Nodes, pbservice.NewCheckServiceNodeFromStructs(c))
	}
	return out
}

type result struct {
	status string // ok | err:* | panic
	calls  []call
}

func (w *world) process(peer string, resp *pbpeerstream.ReplicationMessage_Response) (res result) {
	w.be.calls = nil
	defer func() {
		res.calls = w.be.calls
		if r := recover(); r != nil {
			res.status = "panic"
		}
	}()
	reply, err := w.srv.VerifC17ProcessResponse(peer, "", w.mst, resp)
	res.status = errEnum(err)
	if err == nil && reply.GetRequest().GetError() != nil {
		res.status = "err:nack-without-error"
	}
	return
}

func (w *world) sendService(peer, name string, is []inst) result {
	a, err := anypb.New(mkExportedService(is))
	if err != nil {
		panic(err)
	}
	return w.process(peer, &pbpeerstream.ReplicationMessage_Response{
		ResourceURL: pbpeerstream.TypeURLExportedService, ResourceID: name, Nonce: "n",
		Operation: pbpeerstream.Operation_OPERATION_UPSERT, Resource: a,
	})
}

func (w *world) sendList(peer string, names []string) result {
	a, err := anypb.New(&pbpeerstream.ExportedServiceList{Services: names})
	if err != nil {
		panic(err)
	}
	return w.process(peer, &pbpeerstream.ReplicationMessage_Response{
		ResourceURL: pbpeerstream.TypeURLExportedServiceList, ResourceID: "exported-service-list", Nonce: "n",
		Operation: pbpeerstream.Operation_OPERATION_UPSERT, Resource: a,
	})
}

func encLog(cs []call) string {
	t := make([]string, len(cs))
	for i, c := range cs {
		t[i] = c.enc
	}
	sort.Strings(t)
	return hx.EncList(t)
}

func resLine(r result) string {
	if r.status == "panic" {
		return "panic"
	}
	return fmt.Sprintf("%s log=%s", r.status, encLog(r.calls))
}

// orderByCalls reorders the instances so that nodes, and the services of a node, appear in the order the
// implementation registered them (Go map iteration order; it decides which Raft index stamps which row); nodes
// and services that produced no registration go last.
func orderByCalls(is []inst, cs []call) []inst {
	rank := map[string]int{}
	srank := map[string]int{}
	for _, c := range cs {
		if c.node != "" {
			if _, ok := rank[c.node]; !ok {
				rank[c.node] = len(rank)
			}
			if c.sid != "" {
				if _, ok := srank[c.node+"\x00"+c.sid]; !ok {
					srank[c.node+"\x00"+c.sid] = len(srank)
				}
			}
		}
	}
	out := append([]inst(nil), is...)
	r := func(i inst) (int, int) {
		a, b := 1<<30, 1<<30
		if v, ok := rank[i.node.name]; ok {
			a = v
		}
		if v, ok := srank[i.node.name+"\x00"+i.svc.sid]; ok {
			b = v
		}
		return a, b
	}
	sort.SliceStable(out, func(x, y int) bool {
		ax, bx := r(out[x])
		ay, by := r(out[y])
		if ax != ay {
			return ax < ay
		}
		return bx < by
	})
	return out
}

// ---------------------------------------------------------------- name universes

var (
	uuids = []string{"", "11111111-1111-1111-1111-111111111111", "22222222-2222-2222-2222-222222222222",
		"33333333-3333-3333-3333-333333333333", "aaaaaaaa-aaaa-aaaa-aaaa-aaaaaaaaaaaa"}
	addrs    = []string{"10.0.0.1", "10.0.0.2", "10.0.0.3"}
	ports    = []int{80, 8080, 443}
	statuses = []string{"passing", "warning", "critical"}
)

type universe struct {
	nodes, svcs, sids, ncids, scids []string
}

func mkUniverse(caseMode bool) universe {
	u := universe{
		nodes: []string{"n1", "n2", "n3", "web"},
		svcs:  []string{"web", "api", "db", "web-sidecar-proxy"},
		sids:  []string{"web1", "web2", "api1", "s1"},
		ncids: []string{"serfHealth", "nc1", "nc2"},
		scids: []string{"c1", "c2", "web1"},
	}
	if caseMode {
		u.nodes = append(u.nodes, "N1", "Web")
		u.svcs = append(u.svcs, "Web")
		u.sids = append(u.sids, "S1", "WEB1")
		u.ncids = append(u.ncids, "NC1")
		u.scids = append(u.scids, "C1")
	}
	return u
}

// ---------------------------------------------------------------- the simulated exporting cluster

type xNode struct {
	name, id, addr string
	checks         map[string]string // node check id -> status
}
type xInst struct {
	node, sid, sname string
	port             int
	checks           map[string]string // service check id -> status
}
type exporter struct {
	u     universe
	ids   bool
	nodes []*xNode
	insts []*xInst
}

func lc(s string) string { return strings.ToLower(s) }

func (x *exporter) node(name string) *xNode {
	for _, n := range x.nodes {
		if lc(n.name) == lc(name) {
			return n
		}
	}
	return nil
}
func (x *exporter) inst(node, sid string) *xInst {
	for _, i := range x.insts {
		if lc(i.node) == lc(node) && lc(i.sid) == lc(sid) {
			return i
		}
	}
	return nil
}
func (x *exporter) idUsed(id string) bool {
	for _, n := range x.nodes {
		if n.id == id {
			return true
		}
	}
	return false
}
func (x *exporter) freshID(r *hx.RNG) string {
	if !x.ids || r.Chance(25) {
		return ""
	}
	for k := 0; k < 8; k++ {
		id := hx.Pick(r, uuids[1:])
		if !x.idUsed(id) {
			return id
		}
	}
	return ""
}

// check ids are unique per node across node checks and service checks (memdb key)
func (x *exporter) cidUsed(node, cid string) bool {
	if n := x.node(node); n != nil {
		for c := range n.checks {
			if lc(c) == lc(cid) {
				return true
			}
		}
	}
	for _, i := range x.insts {
		if lc(i.node) == lc(node) {
			for c := range i.checks {
				if lc(c) == lc(cid) {
					return true
				}
			}
		}
	}
	return false
}

func (x *exporter) ensureNode(r *hx.RNG, name string) *xNode {
	if n := x.node(name); n != nil {
		return n
	}
	n := &xNode{name: name, id: x.freshID(r), addr: hx.Pick(r, addrs), checks: map[string]string{}}
	if r.Chance(60) {
		n.checks["serfHealth"] = hx.Pick(r, statuses)
	}
	if r.Chance(30) {
		n.checks[hx.Pick(r, x.u.ncids)] = hx.Pick(r, statuses)
		// keep ids unique up to case
		seen := map[string]bool{}
		for c := range n.checks {
			if seen[lc(c)] {
				delete(n.checks, c)
			}
			seen[lc(c)] = true
		}
	}
	x.nodes = append(x.nodes, n)
	return n
}

func (x *exporter) addInst(r *hx.RNG, sname string) string {
	node := hx.Pick(r, x.u.nodes)
	sid := hx.Pick(r, x.u.sids)
	if x.inst(node, sid) != nil {
		return ""
	}
	n := x.ensureNode(r, node)
	i := &xInst{node: n.name, sid: sid, sname: sname, port: hx.Pick(r, ports), checks: map[string]string{}}
	x.insts = append(x.insts, i)
	for k := r.Intn(3); k > 0; k-- {
		cid := hx.Pick(r, x.u.scids)
		if r.Chance(40) {
			cid = "service:" + sid
		}
		if !x.cidUsed(n.name, cid) {
			i.checks[cid] = hx.Pick(r, statuses)
		}
	}
	return "add-instance"
}

func (x *exporter) removeInstAt(k int) {
	x.insts = append(x.insts[:k:k], x.insts[k+1:]...)
}

func (x *exporter) gcNodes() {
	// the exporter keeps nodes without services too; nothing to do
}

func (x *exporter) mutate(r *hx.RNG) string {
	switch r.Intn(16) {
	case 0, 1, 2:
		return x.addInst(r, hx.Pick(r, x.u.svcs))
	case 3:
		if len(x.insts) > 0 {
			x.removeInstAt(r.Intn(len(x.insts)))
			return "remove-instance"
		}
	case 4:
		if len(x.insts) > 0 { // the instance moves to another node
			i := x.insts[r.Intn(len(x.insts))]
			to := hx.Pick(r, x.u.nodes)
			if lc(to) != lc(i.node) && x.inst(to, i.sid) == nil {
				n := x.ensureNode(r, to)
				for c := range i.checks {
					if x.cidUsed(n.name, c) {
						delete(i.checks, c)
					}
				}
				i.node = n.name
				return "move-instance"
			}
		}
	case 5:
		if len(x.insts) > 0 {
			x.insts[r.Intn(len(x.insts))].port = hx.Pick(r, ports)
			return "change-port"
		}
	case 6:
		if len(x.nodes) > 0 {
			n := x.nodes[r.Intn(len(x.nodes))]
			cid := hx.Pick(r, x.u.ncids)
			for c := range n.checks {
				if lc(c) == lc(cid) {
					delete(n.checks, c)
					return "remove-node-check"
				}
			}
			if !x.cidUsed(n.name, cid) {
				n.checks[cid] = hx.Pick(r, statuses)
				return "add-node-check"
			}
		}
	case 7:
		if len(x.nodes) > 0 {
			n := x.nodes[r.Intn(len(x.nodes))]
			for c := range n.checks {
				n.checks[c] = hx.Pick(r, statuses)
				return "node-check-status"
			}
		}
	case 8:
		if len(x.insts) > 0 {
			i := x.insts[r.Intn(len(x.insts))]
			cid := hx.Pick(r, x.u.scids)
			for c := range i.checks {
				if lc(c) == lc(cid) {
					delete(i.checks, c)
					return "remove-service-check"
				}
			}
			if !x.cidUsed(i.node, cid) {
				i.checks[cid] = hx.Pick(r, statuses)
				return "add-service-check"
			}
		}
	case 9:
		if len(x.insts) > 0 {
			i := x.insts[r.Intn(len(x.insts))]
			for c := range i.checks {
				i.checks[c] = hx.Pick(r, statuses)
				return "service-check-status"
			}
		}
	case 10:
		if len(x.nodes) > 0 {
			x.nodes[r.Intn(len(x.nodes))].addr = hx.Pick(r, addrs)
			return "node-address"
		}
	case 11:
		if len(x.nodes) > 0 { // rename: same id (if any), new name; instances follow
			n := x.nodes[r.Intn(len(x.nodes))]
			to := hx.Pick(r, x.u.nodes)
			if e := x.node(to); e == nil || e == n {
				if to != n.name {
					old := n.name
					n.name = to
					for _, i := range x.insts {
						if lc(i.node) == lc(old) {
							i.node = to
						}
					}
					if lc(old) == lc(to) {
						return "rename-node-case"
					}
					return "rename-node"
				}
			}
		}
	case 12:
		if len(x.nodes) > 0 && x.ids {
			n := x.nodes[r.Intn(len(x.nodes))]
			n.id = x.freshID(r)
			return "node-id"
		}
	case 13:
		if len(x.insts) > 0 { // the instance is replaced by one with another id on the same node
			i := x.insts[r.Intn(len(x.insts))]
			sid := hx.Pick(r, x.u.sids)
			if x.inst(i.node, sid) == nil || lc(sid) == lc(i.sid) {
				if sid != i.sid {
					tag := "replace-instance-id"
					if lc(sid) == lc(i.sid) {
						tag = "replace-instance-id-case"
					}
					i.sid = sid
					if n := x.node(i.node); n != nil && r.Chance(50) {
						for c := range n.checks {
							delete(n.checks, c)
							tag += "+remove-node-check"
							break
						}
					}
					return tag
				}
			}
		}
	case 14:
		if len(x.nodes) > 0 { // node leaves with everything on it
			k := r.Intn(len(x.nodes))
			n := x.nodes[k]
			x.nodes = append(x.nodes[:k:k], x.nodes[k+1:]...)
			var keep []*xInst
			for _, i := range x.insts {
				if lc(i.node) != lc(n.name) {
					keep = append(keep, i)
				}
			}
			x.insts = keep
			return "remove-node"
		}
	case 15:
		if len(x.insts) > 0 {
			i := x.insts[r.Intn(len(x.insts))]
			i.sname = hx.Pick(r, x.u.svcs)
			return "instance-renamed-service"
		}
	}
	return ""
}

func worst(a, b string) string {
	rank := map[string]int{"passing": 0, "warning": 1, "critical": 2}
	if rank[b] > rank[a] {
		return b
	}
	return a
}

func sortedKeys(m map[string]string) []string {
	ks := make([]string, 0, len(m))
	for k := range m {
		ks = append(ks, k)
	}
	sort.Strings(ks)
	return ks
}

// snapshot is what CheckServiceNodes(name) returns on the exporter (exact, lower-cased name match),
// optionally with the checks flattened as subscription_manager.go does today.
func (x *exporter) snapshot(name string, flatten bool) []inst {
	var out []inst
	for _, i := range x.insts {
		if lc(i.sname) != lc(name) {
			continue
		}
		n := x.node(i.node)
		it := inst{node: nodeDef{n.name, n.id, n.addr}, svc: svcDef{i.sid, i.sname, i.port}}
		for _, c := range sortedKeys(n.checks) {
			it.chks = append(it.chks, chkDef{n.name, c, "", "", n.checks[c]})
		}
		for _, c := range sortedKeys(i.checks) {
			it.chks = append(it.chks, chkDef{n.name, c, i.sid, i.sname, i.checks[c]})
		}
		if flatten && len(it.chks) > 0 {
			st := "passing"
			for _, k := range it.chks {
				st = worst(st, k.status)
			}
			it.chks = []chkDef{{n.name, i.sid + ":overall-check", i.sid, i.sname, st}}
		}
		out = append(out, it)
	}
	return out
}

func (x *exporter) names() []string {
	seen := map[string]bool{}
	var out []string
	for _, i := range x.insts {
		if !seen[i.sname] {
			seen[i.sname] = true
			out = append(out, i.sname)
		}
	}
	sort.Strings(out)
	return out
}

// ---------------------------------------------------------------- well-formedness of a snapshot (what one
// consistent CheckServiceNodes result of an exporter always satisfies)

func wellFormed(name string, is []inst) bool {
	nodes := map[string]nodeDef{}
	nodeChk := map[string]map[string]chkDef{}
	ids := map[string]string{}
	sids := map[string]bool{}
	cids := map[string]string{} // lc(node)/lc(cid) -> owner sid
	for _, i := range is {
		ln := lc(i.node.name)
		if i.node.name == "" || i.svc.sid == "" || lc(i.svc.name) != lc(name) {
			return false
		}
		if n, ok := nodes[ln]; ok && n != i.node {
			return false
		}
		nodes[ln] = i.node
		if i.node.id != "" {
			if o, ok := ids[i.node.id]; ok && o != ln {
				return false
			}
			ids[i.node.id] = ln
		}
		if sids[ln+"/"+lc(i.svc.sid)] {
			return false
		}
		sids[ln+"/"+lc(i.svc.sid)] = true
		if nodeChk[ln] == nil {
			nodeChk[ln] = map[string]chkDef{}
		}
		for _, k := range i.chks {
			if k.cid == "" || k.node != i.node.name || k.status == "" {
				return false
			}
			if k.sid != "" && (k.sid != i.svc.sid || k.sname != i.svc.name) {
				return false
			}
			key := ln + "/" + lc(k.cid)
			if o, ok := cids[key]; ok && o != k.sid {
				return false
			}
			cids[key] = k.sid
			if k.sid == "" {
				if o, ok := nodeChk[ln][k.cid]; ok && o != k {
					return false
				}
				nodeChk[ln][k.cid] = k
			}
		}
	}
	// node checks are attached to every instance of the node
	for _, i := range is {
		have := map[string]bool{}
		for _, k := range i.chks {
			if k.sid == "" {
				have[k.cid] = true
			}
		}
		if len(have) != len(nodeChk[lc(i.node.name)]) {
			return false
		}
	}
	return true
}

// ---------------------------------------------------------------- monitors (model independent)

type monCtx struct {
	run    *hx.Run
	w      *world
	replay []string
	// names seen in this case, by lower-cased form; caseVariant is set once two spellings of one name met
	spell       map[string]string
	variants    map[string]bool // lower-cased names met in two spellings
	caseVariant bool
	// explainedSeen: number of failures of this case whose classifier matched a known mechanism
	explainedSeen int
	// idMoved: the update being checked hands the UUID of a stored node to another node while the
	// previous holder is itself part of the snapshot (history shape of one known finding)
	idMoved bool
}

func (m *monCtx) note(names ...string) {
	if m.spell == nil {
		m.spell = map[string]string{}
		m.variants = map[string]bool{}
	}
	for _, n := range names {
		if o, ok := m.spell[lc(n)]; ok && o != n {
			m.caseVariant = true
			m.variants[lc(n)] = true
		}
		m.spell[lc(n)] = n
	}
}

func (m *monCtx) noteInsts(is []inst) {
	for _, i := range is {
		m.note(i.node.name, i.svc.sid, i.svc.name)
		for _, k := range i.chks {
			m.note(k.node, k.cid, k.sid, k.sname)
		}
	}
}

var sigCount = map[string]int{}

// report keeps at most two witnesses per signature (the recorder holds 50 in total) and counts the rest.
func report(run *hx.Run, sig, desc string, replay []string) {
	sigCount[sig]++
	if sigCount[sig] <= 2 {
		run.Violate(sig, desc, append([]string(nil), replay...))
	} else {
		run.Tag("violation:" + sig)
	}
}

// explained: signatures whose classifier has verified the history shape of one known mechanism
var explained = map[string]bool{
	"import:stale-node-check:instance-id-replaced":                    true,
	"import:stale-node-check:node-new-to-service":                     true,
	"import:stale-service-check:instance-id-taken-from-other-service": true,
	"import:check-id-moved-between-instances":                         true,
}

func (m *monCtx) hasVariant(names ...string) bool {
	for _, n := range names {
		if m.variants[lc(n)] {
			return true
		}
	}
	return false
}

// violate reports a monitor failure. A signature names a mechanism only when the classifier has checked the
// history shape of that mechanism; otherwise the generic signature of the monitor is kept (a VIOLATION).
// names: the node / service / id names the observed difference is about.
func (m *monCtx) violate(sig, desc string, names ...string) {
	switch {
	case explained[sig]:
	case m.idMoved && (sig == "import:received-instance-missing" || sig == "import:received-check-missing" ||
		sig == "import:node-left-without-instances"):
		// the update hands the UUID of a stored node to another node while the previous holder is in the snapshot too
		desc = "[" + sig + "] " + desc
		sig = "import:node-id-moved-between-snapshot-nodes"
	case m.hasVariant(names...):
		// the difference is about a name that was met in two spellings differing only in case: the importer keys its
		// Go maps by exact spelling, the state store by lower-cased names
		desc = "[" + sig + "] " + desc
		sig = "import:names-differing-only-in-case"
	}
	if explained[sig] || sig == "import:node-id-moved-between-snapshot-nodes" || sig == "import:names-differing-only-in-case" {
		m.explainedSeen++
	}
	report(m.run, sig, desc, m.replay)
}

// no catalog command may make the state store panic
func (m *monCtx) monPanics() {
	for _, p := range m.w.panics {
		m.violate("import:state-store-panic", "a catalog command made the state store panic: "+p)
	}
	m.w.panics = nil
}

// every command the importer sends for peer p carries peer p
func (m *monCtx) monCalls(p string, cs []call) {
	for _, c := range cs {
		if c.peer != p {
			m.violate("import:command-for-wrong-peer", fmt.Sprintf("import for peer %q sent %s with PeerName=%q", p, c.enc, c.peer))
		}
	}
}

func canonInst(i inst) string {
	var ks []string
	for _, k := range i.chks {
		ks = append(ks, strings.Join([]string{k.cid, k.sid, k.sname, k.status, k.node}, "~"))
	}
	sort.Strings(ks)
	ks = dedup(ks)
	return fmt.Sprintf("%s|%s|%s|%s|%s|%d|%s", i.node.name, i.node.id, i.node.addr, i.svc.sid, i.svc.name, i.svc.port, strings.Join(ks, ","))
}

func dedup(s []string) []string {
	var out []string
	for i, x := range s {
		if i == 0 || x != s[i-1] {
			out = append(out, x)
		}
	}
	return out
}

// after a successful upsert of a well-formed snapshot the catalog view of (peer, service) IS the snapshot
func (m *monCtx) monExact(p, name string, is []inst, before []csnView, svcsBefore map[string]pRow) {
	after, st := m.w.csn(p, name)
	if strings.HasPrefix(st, "err:") {
		m.violate("import:view-unreadable-after-update", "CheckServiceNodes fails after the import: "+st, name)
		return
	}
	want := map[string]inst{}
	for _, i := range is {
		want[i.node.name+"\x00"+i.svc.sid] = i
	}
	got := map[string]csnView{}
	for _, v := range after {
		got[v.node.name+"\x00"+v.svc.sid] = v
	}
	hadNode := map[string]bool{}    // node carried an instance of this service before the update
	keptOnNode := map[string]bool{} // ... and one of those instances is still in the snapshot under the same id
	hadInst := map[string]bool{}    // (node, id) was an instance of this service before the update
	chkOwner := map[string]string{} // node/check id -> service id it was attached to in the view before
	for _, v := range before {
		hadNode[v.node.name] = true
		k := v.node.name + "\x00" + v.svc.sid
		hadInst[k] = true
		if _, ok := want[k]; ok {
			keptOnNode[v.node.name] = true
		}
		for _, c := range v.chks {
			chkOwner[v.node.name+"\x00"+c.cid] = c.sid
		}
	}
	for k, i := range want {
		v, ok := got[k]
		if !ok {
			m.violate("import:received-instance-missing", fmt.Sprintf("peer %s service %s: instance %s/%s of the snapshot is not in the catalog", p, name, i.node.name, i.svc.sid), name, i.node.name, i.svc.sid)
			continue
		}
		g := inst{v.node, v.svc, v.chks}
		if canonInst(g) == canonInst(i) {
			continue
		}
		if v.node != i.node {
			m.violate("import:node-differs-from-snapshot", fmt.Sprintf("peer %s service %s: node %+v, snapshot has %+v", p, name, v.node, i.node), name, i.node.name)
		}
		if v.svc != i.svc {
			m.violate("import:instance-differs-from-snapshot", fmt.Sprintf("peer %s service %s: instance %+v, snapshot has %+v", p, name, v.svc, i.svc), name, i.node.name, i.svc.sid)
		}
		wantK := map[string]chkDef{}
		for _, c := range i.chks {
			wantK[c.cid] = c
		}
		gotK := map[string]chkDef{}
		for _, c := range v.chks {
			gotK[c.cid] = c
		}
		for cid, c := range wantK {
			if g, ok := gotK[cid]; !ok {
				if o, was := chkOwner[i.node.name+"\x00"+cid]; was && o != c.sid && o != "" && c.sid != "" {
					// shape: the check id hung on another instance of this service on this node before
					m.violate("import:check-id-moved-between-instances", fmt.Sprintf("peer %s service %s: check %s on %s moved from instance %s to %s in the snapshot and is deleted", p, name, cid, i.node.name, o, c.sid))
					continue
				}
				m.violate("import:received-check-missing", fmt.Sprintf("peer %s service %s: check %s on %s of the snapshot is not in the catalog", p, name, cid, i.node.name), name, i.node.name, i.svc.sid, cid)
			} else if g != c {
				m.violate("import:check-differs-from-snapshot", fmt.Sprintf("peer %s service %s: check %+v, snapshot has %+v", p, name, g, c), name, i.node.name, i.svc.sid, cid)
			}
		}
		for cid, c := range gotK {
			if _, ok := wantK[cid]; ok {
				continue
			}
			prev, held := svcsBefore[lc(i.node.name)+"\x00"+lc(i.svc.sid)]
			switch {
			case c.sid == "" && !hadNode[i.node.name]:
				// shape: no stored instance of this service on the node, so nothing shows its node checks to the clean-up
				m.violate("import:stale-node-check:node-new-to-service", fmt.Sprintf("peer %s service %s: node check %s on %s is absent from the snapshot but stays (the node carried no instance of the service before)", p, name, cid, i.node.name))
			case c.sid == "" && !keptOnNode[i.node.name]:
				// shape: every stored instance of this service on the node has an id the snapshot no longer lists
				m.violate("import:stale-node-check:instance-id-replaced", fmt.Sprintf("peer %s service %s: node check %s on %s is absent from the snapshot but stays (the stored instance on the node had another id)", p, name, cid, i.node.name))
			case c.sid == "":
				m.violate("import:stale-node-check", fmt.Sprintf("peer %s service %s: node check %s on %s is absent from the snapshot but stays although a stored instance of the service on that node is still listed", p, name, cid, i.node.name), name, i.node.name, cid)
			case !hadInst[k] && held && lc(prev.sname) != lc(name):
				// shape: the (node, id) was an instance of another service of the peer before
				m.violate("import:stale-service-check:instance-id-taken-from-other-service", fmt.Sprintf("peer %s service %s: service check %s on %s/%s is absent from the snapshot but stays (the instance id belonged to service %s before)", p, name, cid, i.node.name, i.svc.sid, prev.sname))
			default:
				m.violate("import:stale-service-check", fmt.Sprintf("peer %s service %s: service check %s on %s is absent from the snapshot but stays", p, name, cid, i.node.name), name, i.node.name, i.svc.sid, cid)
			}
		}
	}
	for k, v := range got {
		if _, ok := want[k]; !ok {
			m.violate("import:absent-instance-not-removed", fmt.Sprintf("peer %s service %s: instance %s/%s is not in the snapshot but stays in the catalog", p, name, v.node.name, v.svc.sid), name, v.node.name, v.svc.sid)
		}
	}
}

// nodeIDs: UUID -> node name for the peer's nodes
func (m *monCtx) nodeIDs(p string) map[string]string {
	ns, _, _ := m.w.f.State().VerifC17Catalog()
	out := map[string]string{}
	for _, n := range ns {
		if n.PeerName == p && n.ID != "" {
			out[string(n.ID)] = n.Node
		}
	}
	return out
}

func idMoved(idsBefore map[string]string, is []inst) bool {
	inSnap := map[string]bool{}
	for _, i := range is {
		inSnap[i.node.name] = true
	}
	for _, i := range is {
		if o, ok := idsBefore[i.node.id]; ok && i.node.id != "" && o != i.node.name && inSnap[o] {
			return true
		}
	}
	return false
}

type pRow struct {
	node, sid, sname string
	port             int
}

func (m *monCtx) peerState(p string) (nodes map[string]bool, svcs map[string]pRow, svcsOn map[string]int) {
	ns, ss, _ := m.w.f.State().VerifC17Catalog()
	nodes, svcs, svcsOn = map[string]bool{}, map[string]pRow{}, map[string]int{}
	for _, n := range ns {
		if n.PeerName == p {
			nodes[lc(n.Node)] = true
		}
	}
	for _, s := range ss {
		if s.PeerName == p {
			svcs[lc(s.Node)+"\x00"+lc(s.ServiceID)] = pRow{s.Node, s.ServiceID, s.ServiceName, s.ServicePort}
			svcsOn[lc(s.Node)]++
		}
	}
	return
}

// a node of the peer disappears only when no instance is left on it, and no node is left without instances
func (m *monCtx) monNodes(p string, nodesBefore map[string]bool, svcsOnBefore map[string]int, svcsBefore map[string]pRow) {
	nodes, _, on := m.peerState(p)
	for n := range nodes {
		if on[n] == 0 && (svcsOnBefore[n] > 0 || !nodesBefore[n]) {
			// the difference is about the node and about the instances it carried before
			names := []string{n}
			for _, s := range svcsBefore {
				if lc(s.node) == n {
					names = append(names, s.sid, s.sname)
				}
			}
			m.violate("import:node-left-without-instances", fmt.Sprintf("peer %s: node %s is in the catalog but carries no service instance any more", p, n), names...)
		}
	}
	for n, k := range on {
		if k > 0 && !nodes[n] {
			m.violate("import:instance-without-node", fmt.Sprintf("peer %s: %d instance(s) on node %s which is not in the catalog", p, k, n), n)
		}
	}
}

// an update of one service leaves the instances of the peer's other services alone, unless the snapshot itself
// claims their (node, id) or hands their node's UUID to another node (a rename by the exporter)
func (m *monCtx) monOther(p, name string, is []inst, svcsBefore map[string]pRow, idsBefore map[string]string) {
	claimed := map[string]bool{}
	renamed := map[string]bool{}
	for _, i := range is {
		claimed[lc(i.node.name)+"\x00"+lc(i.svc.sid)] = true
		if o, ok := idsBefore[i.node.id]; ok && i.node.id != "" && lc(o) != lc(i.node.name) {
			renamed[lc(o)] = true
		}
	}
	_, after, _ := m.peerState(p)
	for k, s := range svcsBefore {
		if lc(s.sname) == lc(name) || claimed[k] || renamed[lc(s.node)] {
			continue
		}
		if a, ok := after[k]; !ok {
			m.violate("import:other-service-instance-removed", fmt.Sprintf("peer %s: the update of %s removed instance %s/%s of service %s", p, name, s.node, s.sid, s.sname), name, s.sname, s.node, s.sid)
		} else if a != s {
			m.violate("import:other-service-instance-changed", fmt.Sprintf("peer %s: the update of %s changed instance %s/%s of service %s: %+v -> %+v", p, name, s.node, s.sid, s.sname, s, a), name, s.sname, s.node, s.sid)
		}
	}
}

// after an exported-service list update nothing unlisted remains and everything listed is untouched
func (m *monCtx) monList(p string, names []string, svcsBefore map[string]pRow) {
	keep := map[string]bool{}
	for _, n := range names {
		keep[n] = true
		keep[n+"-sidecar-proxy"] = true
	}
	_, after, _ := m.peerState(p)
	for _, s := range after {
		if !keep[s.sname] {
			m.violate("import:unexported-service-remains", fmt.Sprintf("peer %s: service %s (instance %s/%s) is not in the exported list %v but remains", p, s.sname, s.node, s.sid, names), s.sname)
		}
	}
	for k, s := range svcsBefore {
		if keep[s.sname] {
			if a, ok := after[k]; !ok || a != s {
				m.violate("import:listed-service-damaged", fmt.Sprintf("peer %s: instance %s/%s of listed service %s was removed or changed by the list update %v", p, s.node, s.sid, s.sname, names), s.sname, s.node, s.sid)
			}
		}
	}
}

// ---------------------------------------------------------------- one import case

type caseCfg struct {
	caseMode, ids, flatten, arbitrary bool
}

func genPrior(r *hx.RNG, run *hx.Run, w *world, u universe, importPeer string, ids bool, compare bool, mon *monCtx) []string {
	var ops []string
	peers := []string{"", "", "p2", "p10", importPeer}
	n := 2 + r.Intn(7)
	for k := 0; k < n; k++ {
		peer := hx.Pick(r, peers)
		nd := nodeDef{hx.Pick(r, u.nodes), "", hx.Pick(r, addrs)}
		if ids && r.Chance(50) {
			nd.id = hx.Pick(r, uuids)
		}
		var s *svcDef
		var ks []chkDef
		if r.Chance(80) {
			s = &svcDef{hx.Pick(r, u.sids), hx.Pick(r, u.svcs), hx.Pick(r, ports)}
			if r.Chance(50) {
				ks = append(ks, chkDef{nd.name, hx.Pick(r, u.scids), s.sid, s.name, hx.Pick(r, statuses)})
			}
		}
		if r.Chance(40) {
			ks = append(ks, chkDef{nd.name, hx.Pick(r, u.ncids), "", "", hx.Pick(r, statuses)})
		}
		err := w.directRegister(peer, nd, s, ks)
		sv := "-"
		if s != nil {
			sv = fmt.Sprintf("%s;%s;%d", hx.EncS(s.sid), hx.EncS(s.name), s.port)
		}
		op := fmt.Sprintf("reg %s %s %s %s %s %s", hx.EncS(peer), hx.EncS(nd.name), hx.EncS(nd.id), hx.EncS(nd.addr), sv, encChkDefs(ks))
		if compare {
			run.Line(op, errEnum(err))
		}
		if mon != nil {
			mon.replay = append(append([]string(nil), ops...), op)
			mon.monPanics()
			mon.noteInsts([]inst{{node: nd, chks: ks}})
			if s != nil {
				mon.note(s.sid, s.name)
			}
		}
		ops = append(ops, op)
		if peer == "" {
			run.Tag("prior:local-row")
		} else if peer == importPeer {
			run.Tag("prior:imported-row-direct")
		} else {
			run.Tag("prior:other-peer-row")
		}
		if err != nil {
			run.Tag("prior:" + errEnum(err))
		}
	}
	return ops
}

func genArbitrary(r *hx.RNG, u universe, name string, ids bool) []inst {
	var out []inst
	nodes := map[string]nodeDef{}
	nchk := map[string][]chkDef{}
	used := map[string]bool{}
	n := r.Intn(4)
	for k := 0; k < n; k++ {
		nn := hx.Pick(r, u.nodes)
		nd, ok := nodes[lc(nn)]
		if !ok {
			nd = nodeDef{nn, "", hx.Pick(r, addrs)}
			if ids && r.Chance(60) {
				nd.id = hx.Pick(r, uuids)
			}
			nodes[lc(nn)] = nd
			for _, c := range u.ncids {
				if r.Chance(25) && !used[lc(nn)+"/"+lc(c)] {
					used[lc(nn)+"/"+lc(c)] = true
					nchk[lc(nn)] = append(nchk[lc(nn)], chkDef{nd.name, c, "", "", hx.Pick(r, statuses)})
				}
			}
		}
		it := inst{node: nd, svc: svcDef{hx.Pick(r, u.sids), name, hx.Pick(r, ports)}}
		it.chks = append(it.chks, nchk[lc(nn)]...)
		for _, c := range u.scids {
			if r.Chance(25) && !used[lc(nn)+"/"+lc(c)] {
				used[lc(nn)+"/"+lc(c)] = true
				it.chks = append(it.chks, chkDef{nd.name, c, it.svc.sid, name, hx.Pick(r, statuses)})
			}
		}
		if used[lc(nn)+"//"+lc(it.svc.sid)] {
			continue // one instance per (node, id)
		}
		used[lc(nn)+"//"+lc(it.svc.sid)] = true
		out = append(out, it)
	}
	return out
}

func shapeTags(run *hx.Run, w *world, p, name string, is []inst) {
	if len(is) == 0 {
		run.Tag("snap:empty(delete)")
		return
	}
	ns, ss, _ := w.f.State().VerifC17Catalog()
	nodes := map[string]int{}
	for _, i := range is {
		nodes[i.node.name]++
		for _, k := range i.chks {
			if k.sid == "" {
				run.Tag("snap:has-node-check")
			} else {
				run.Tag("snap:has-service-check")
			}
		}
		if i.node.id != "" {
			run.Tag("snap:node-with-id")
		}
		for _, n := range ns {
			if lc(n.Node) == lc(i.node.name) {
				switch {
				case n.PeerName == "":
					run.Tag("collide:node-name-with-local")
				case n.PeerName != p:
					run.Tag("collide:node-name-with-other-peer")
				case n.Node != i.node.name:
					run.Tag("collide:node-name-case-variant-stored")
				}
			}
			if n.PeerName == p && i.node.id != "" && string(n.ID) == i.node.id && lc(n.Node) != lc(i.node.name) {
				run.Tag("snap:node-renamed-by-id")
			}
		}
		for _, s := range ss {
			if lc(s.Node) == lc(i.node.name) && lc(s.ServiceID) == lc(i.svc.sid) {
				switch {
				case s.PeerName == "":
					run.Tag("collide:instance-key-with-local")
				case s.PeerName != p:
					run.Tag("collide:instance-key-with-other-peer")
				case lc(s.ServiceName) != lc(name):
					run.Tag("collide:instance-key-with-other-service-same-peer")
				case s.ServiceID != i.svc.sid:
					run.Tag("collide:instance-id-case-variant-stored")
				}
			}
			if s.PeerName == p && lc(s.Node) == lc(i.node.name) && lc(s.ServiceName) != lc(name) {
				run.Tag("snap:node-shared-with-other-service")
			}
		}
	}
	for _, c := range nodes {
		if c > 1 {
			run.Tag("snap:several-instances-on-one-node")
		}
	}
	if len(nodes) > 1 {
		run.Tag("snap:several-nodes")
	}
}

// session: one importing cluster fed message by message, every message followed by dump + monitors
type session struct {
	run        *hx.Run
	w          *world
	mon        *monCtx
	hist       []string
	compare    bool // emit op lines for the model (false: names outside the model's domain, monitors only)
	nontrivial bool
}

func newSession(run *hx.Run, compare bool) *session {
	w := newWorld()
	se := &session{run: run, w: w, mon: &monCtx{run: run, w: w}, compare: compare}
	se.emit("reset", "ok")
	return se
}

func (se *session) emit(op, out string) {
	if se.compare {
		se.run.Line(op, out)
	}
	se.hist = append(se.hist, op)
}

func (se *session) list(p string, names []string) result { return se.listWith(p, names, nil) }

// listWith forwards resp (a response built by the real exporter) instead of building one
func (se *session) listWith(p string, names []string, resp *pbpeerstream.ReplicationMessage_Response) result {
	run, w, mon := se.run, se.w, se.mon
	othersBefore := w.others(p)
	nodesB, svcsB, onB := mon.peerState(p)
	mon.note(names...)
	var res result
	if resp != nil {
		res = w.process(p, resp)
	} else {
		res = w.sendList(p, names)
	}
	se.emit(fmt.Sprintf("list %s %s", hx.EncS(p), hx.EncSList(names)), resLine(res))
	se.emit("dump", w.dump())
	mon.replay = se.hist
	mon.monPanics()
	mon.monCalls(p, res.calls)
	if res.status == "ok" {
		mon.monList(p, names, svcsB)
		mon.monNodes(p, nodesB, onB, svcsB)
	}
	if after := w.others(p); after != othersBefore {
		mon.violate("import:foreign-rows-modified:list", fmt.Sprintf("a list update for peer %s changed rows of another peer or local rows:\n-- before\n%s\n-- after\n%s", p, othersBefore, after))
	}
	run.Tag("msg:list")
	run.Tag("result:" + res.status)
	if len(res.calls) > 0 {
		se.nontrivial = true
		run.Tag("list:pruned-something")
	}
	return res
}

func (se *session) upd(p, name string, is []inst, kind string) result {
	return se.updWith(p, name, is, kind, nil)
}

// updWith forwards resp (a response built by the real exporter, carrying the instances is) instead of building one
func (se *session) updWith(p, name string, is []inst, kind string, resp *pbpeerstream.ReplicationMessage_Response) result {
	run, w, mon := se.run, se.w, se.mon
	othersBefore := w.others(p)
	nodesB, svcsB, onB := mon.peerState(p)
	idsB := mon.nodeIDs(p)
	wf := wellFormed(name, is)
	shapeTags(run, w, p, name, is)
	before, _ := w.csn(p, name)
	mon.note(name)
	mon.noteInsts(is)
	var res result
	if resp != nil {
		res = w.process(p, resp)
	} else {
		res = w.sendService(p, name, is)
	}
	ordered := orderByCalls(is, res.calls)
	se.emit(fmt.Sprintf("upd %s %s %s", hx.EncS(p), hx.EncS(name), encInsts(ordered)), resLine(res))
	se.emit("dump", w.dump())
	_, cs := w.csn(p, name)
	se.emit(fmt.Sprintf("csn %s %s", hx.EncS(p), hx.EncS(name)), cs)
	mon.replay = se.hist
	mon.monPanics()
	mon.monCalls(p, res.calls)
	if after := w.others(p); after != othersBefore {
		mon.violate("import:foreign-rows-modified:update", fmt.Sprintf("an update of %s for peer %s changed rows of another peer or local rows:\n-- before\n%s\n-- after\n%s", name, p, othersBefore, after))
	}
	mon.idMoved = idMoved(idsB, is)
	if res.status == "ok" && wf {
		mon.monExact(p, name, is, before, svcsB)
		mon.monNodes(p, nodesB, onB, svcsB)
		mon.monOther(p, name, is, svcsB, idsB)
	}
	mon.idMoved = false
	run.Tag("msg:upd-" + kind)
	run.Tag("result:" + res.status)
	if !wf {
		run.Tag("snap:not-well-formed")
	}
	for _, c := range res.calls {
		run.Tag("cmd:" + strings.SplitN(c.enc, ";", 2)[0])
		se.nontrivial = true
	}
	if len(res.calls) == 0 && len(is) > 0 {
		run.Tag("upd:nothing-to-do")
	}
	return res
}

func runImportCase(run *hx.Run, r *hx.RNG, cfg caseCfg) {
	u := mkUniverse(cfg.caseMode)
	p := hx.Pick(r, []string{"p1", "p1", "p1", "p2"})
	// names differing only in case: monitors only (outside the model's domain)
	se := newSession(run, !cfg.caseMode)
	se.hist = append(se.hist, genPrior(r, run, se.w, u, p, cfg.ids, se.compare, se.mon)...)
	x := &exporter{u: u, ids: cfg.ids}
	for k := 2 + r.Intn(4); k > 0; k-- {
		x.addInst(r, hx.Pick(r, u.svcs))
	}
	nmsg := 3 + r.Intn(6)
	for k := 0; k < nmsg; k++ {
		for j := r.Intn(4); j > 0; j-- {
			if t := x.mutate(r); t != "" {
				run.Tag("exporter:" + t)
			}
		}
		if r.Chance(18) {
			// exported-service list
			names := x.names()
			if r.Chance(50) && len(names) > 0 {
				drop := r.Intn(len(names))
				names = append(names[:drop:drop], names[drop+1:]...)
				run.Tag("list:service-unexported")
			}
			if r.Chance(10) {
				names = nil
				run.Tag("list:empty")
			}
			se.list(p, names)
			continue
		}
		name := hx.Pick(r, u.svcs)
		if ns := x.names(); len(ns) > 0 && r.Chance(65) {
			name = hx.Pick(r, ns) // mostly services the exporter currently has instances of
		}
		var is []inst
		kind := "world"
		switch {
		case cfg.arbitrary && r.Chance(50):
			is = genArbitrary(r, u, name, cfg.ids)
			kind = "arbitrary"
		case r.Chance(8):
			is = nil
			kind = "delete"
		default:
			is = x.snapshot(name, cfg.flatten)
		}
		hx.Shuffle(r, is)
		se.upd(p, name, is, kind)
	}
	mode := fmt.Sprintf("mode:case=%v,ids=%v,flatten=%v,arbitrary=%v", cfg.caseMode, cfg.ids, cfg.flatten, cfg.arbitrary)
	run.Tag(mode)
	if cfg.caseMode {
		run.Tag("stream:case-variant-names(monitors-only)")
		if se.mon.caseVariant {
			run.Tag("stream:case-variant-collision-met")
		}
	}
	run.Case(strings.Join(se.hist, "\n"), se.nontrivial)
	run.Sample(map[string]any{"ops": se.hist[:min(len(se.hist), 12)]})
}

// ---------------------------------------------------------------- corpus: one fixed witness per known finding
// (replayed first on every run, through the same machinery and monitors as the generated histories)

func mkInst(node, id, addr, sid, sname string, port int, chks ...chkDef) inst {
	return inst{node: nodeDef{node, id, addr}, svc: svcDef{sid, sname, port}, chks: chks}
}

func runCorpus(run *hx.Run) {
	const u1, u2 = "11111111-1111-1111-1111-111111111111", "22222222-2222-2222-2222-222222222222"
	nc := func(node, cid, st string) chkDef { return chkDef{node, cid, "", "", st} }
	sc := func(node, cid, sid, sname, st string) chkDef { return chkDef{node, cid, sid, sname, st} }
	type step struct {
		name string
		is   []inst
	}
	cases := []struct {
		tag     string
		compare bool
		steps   []step
	}{
		{"stale-node-check:instance-id-replaced", true, []step{
			{"web", []inst{mkInst("n1", "", "10.0.0.1", "web1", "web", 80, nc("n1", "nc1", "passing"))}},
			{"web", []inst{mkInst("n1", "", "10.0.0.1", "web2", "web", 80)}}}},
		{"stale-node-check:node-new-to-service", true, []step{
			{"api", []inst{mkInst("n1", "", "10.0.0.1", "api1", "api", 80, nc("n1", "nc1", "critical"))}},
			{"web", []inst{mkInst("n1", "", "10.0.0.1", "web1", "web", 80)}}}},
		{"stale-service-check:instance-id-taken-from-other-service", true, []step{
			{"api", []inst{mkInst("n1", "", "10.0.0.1", "s1", "api", 80, sc("n1", "s1:overall-check", "s1", "api", "critical"))}},
			{"web", []inst{mkInst("n1", "", "10.0.0.1", "s1", "web", 80)}}}},
		{"check-id-moved-between-instances", true, []step{
			{"web", []inst{mkInst("n1", "", "10.0.0.1", "a", "web", 80, sc("n1", "c1", "a", "web", "passing")), mkInst("n1", "", "10.0.0.1", "b", "web", 80)}},
			{"web", []inst{mkInst("n1", "", "10.0.0.1", "a", "web", 80), mkInst("n1", "", "10.0.0.1", "b", "web", 80, sc("n1", "c1", "b", "web", "passing"))}}}},
		// the two nodes swap their UUIDs: whichever the map iteration visits first renames the other one away
		{"node-id-moved-between-snapshot-nodes", true, []step{
			{"web", []inst{mkInst("n2", u2, "10.0.0.2", "i2", "web", 80), mkInst("n3", u1, "10.0.0.3", "i3", "web", 80)}},
			{"web", []inst{mkInst("n2", u1, "10.0.0.2", "i2", "web", 80), mkInst("n3", u2, "10.0.0.3", "i3", "web", 80)}}}},
		{"names-differing-only-in-case", false, []step{
			{"web", []inst{mkInst("n1", "", "10.0.0.1", "web1", "web", 80)}},
			{"web", []inst{mkInst("N1", "", "10.0.0.1", "web1", "web", 80)}}}},
	}
	for _, c := range cases {
		se := newSession(run, c.compare)
		for _, st := range c.steps {
			se.upd("p1", st.name, st.is, "corpus")
		}
		run.Tag("corpus:" + c.tag)
		run.Case(strings.Join(se.hist, "\n"), true)
	}
}

// ---------------------------------------------------------------- small scope, exhaustively (thorough tier)

// Every (prior snapshot, new snapshot) pair of one service over 2 nodes x 3 instance slots x 2 checks (a node check
// on n1, a service check on n1/a), with and without another imported service sharing node n1.
func runExhaustive(run *hx.Run) int {
	type cfg struct{ a, b, c, nc, c1 bool }
	var cfgs []cfg
	for m := 0; m < 32; m++ {
		k := cfg{m&1 != 0, m&2 != 0, m&4 != 0, m&8 != 0, m&16 != 0}
		if (k.nc && !k.a && !k.b) || (k.c1 && !k.a) {
			continue
		}
		cfgs = append(cfgs, k)
	}
	snap := func(k cfg) []inst {
		var out []inst
		var ncs []chkDef
		if k.nc {
			ncs = []chkDef{{"n1", "nc", "", "", "passing"}}
		}
		if k.a {
			ks := append([]chkDef(nil), ncs...)
			if k.c1 {
				ks = append(ks, chkDef{"n1", "c1", "a", "web", "warning"})
			}
			out = append(out, mkInst("n1", "", "10.0.0.1", "a", "web", 80, ks...))
		}
		if k.b {
			out = append(out, mkInst("n1", "", "10.0.0.1", "b", "web", 80, ncs...))
		}
		if k.c {
			out = append(out, mkInst("n2", "", "10.0.0.2", "a", "web", 80))
		}
		return out
	}
	n := 0
	for _, shared := range []bool{false, true} {
		for _, prior := range cfgs {
			for _, next := range cfgs {
				se := newSession(run, true)
				if shared {
					// another imported service lives on n1 and brought the node check along
					se.upd("p1", "api", []inst{mkInst("n1", "", "10.0.0.1", "x", "api", 443, chkDef{"n1", "nc", "", "", "passing"})}, "exhaustive")
				}
				se.upd("p1", "web", snap(prior), "exhaustive")
				se.upd("p1", "web", snap(next), "exhaustive")
				run.Case(strings.Join(se.hist, "\n"), se.nontrivial)
				n++
			}
		}
	}
	run.Tag("exhaustive:snapshot-pairs")
	return n
}

// ---------------------------------------------------------------- exporter: duplicate suppression (synchronous)

// payloadCSN is the snapshot with "hash" h: no instance for 0, else one instance whose port is h.
func payloadCSN(name string, h int) *pbservice.IndexedCheckServiceNodes {
	out := &pbservice.IndexedCheckServiceNodes{}
	if h > 0 {
		c := &structs.CheckServiceNode{
			Node:    &structs.Node{Node: "n1", Address: "10.0.0.1", Datacenter: "dc1"},
			Service: mkNodeService(svcDef{name + "1", name, 8000 + h}, ""),
		}
		out.Nodes = append(out.Nodes, pbservice.NewCheckServiceNodeFromStructs(c))
	}
	return out
}

type xev struct {
	list  bool
	names []string
	name  string
	h     int
}

// playDedup drives the real handleEvent (sendPendingEvents / cleanupEventVersions) with a sequence of list and
// snapshot events, compares every decision with the model (CV.PeerExport) and checks on its own that a snapshot
// of a watched service is dropped as a duplicate only if the peer holds it.
func playDedup(run *hx.Run, evs []xev, tag string) {
	d := peerstream.VerifC17NewDedup()
	var hist []string
	emit := func(op, out string) {
		run.Line(op, out)
		hist = append(hist, op)
	}
	emit("xreset", "ok")
	peerHolds := map[string]int{} // what the importer holds: last snapshot sent, pruned by every list sent
	watched := map[string]bool{}
	for _, e := range evs {
		if e.list {
			sent, w, err := d.List(e.names)
			if err != nil {
				panic(err)
			}
			wt := make([]string, len(w))
			for i, n := range w {
				wt[i] = hx.EncS(n)
			}
			out := "dup"
			if sent {
				out = "sent"
				keep := map[string]bool{}
				for _, n := range e.names {
					keep[n] = true
				}
				for n := range peerHolds {
					if !keep[n] {
						delete(peerHolds, n)
					}
				}
			}
			emit(fmt.Sprintf("xlist %s", hx.EncSList(e.names)), fmt.Sprintf("%s watched=%s", out, hx.EncList(wt)))
			watched = map[string]bool{}
			for _, n := range w {
				watched[n] = true
			}
			run.Tag("dedup:list-" + out)
			continue
		}
		sent, err := d.Data(e.name, payloadCSN(e.name, e.h))
		if err != nil {
			panic(err)
		}
		out := "dup"
		if sent {
			out = "sent"
			peerHolds[e.name] = e.h
		}
		emit(fmt.Sprintf("xdata %s %d", hx.EncS(e.name), e.h), out)
		run.Tag("dedup:data-" + out)
		if sent && !watched[e.name] {
			// the mechanism of the known finding export:queued-snapshot-sent-after-unexport; its witness with a real
			// importer behind is runQueuedAfterUnexport — here no importer is attached, so it is only counted
			run.Tag("dedup:snapshot-sent-for-unwatched-service")
		}
		if have, ok := peerHolds[e.name]; watched[e.name] && (!ok || have != e.h) {
			report(run, "export:exported-service-not-mirrored", fmt.Sprintf("the exporter dropped snapshot %d of exported service %s as a duplicate although the importing side does not hold it (it holds %v)", e.h, e.name, peerHolds), hist)
		}
	}
	run.Tag("dedup:" + tag)
	run.Case(strings.Join(hist, "\n"), true)
}

func runDedupCase(run *hx.Run, r *hx.RNG) {
	names := []string{"web", "api", "db"}
	cur := map[string]bool{}
	var evs []xev
	listOf := func() []string {
		var l []string
		for _, n := range names {
			if cur[n] {
				l = append(l, n)
			}
		}
		return l
	}
	for k := 6 + r.Intn(10); k > 0; k-- {
		switch c := r.Intn(10); {
		case c < 4:
			switch r.Intn(5) {
			case 0: // re-read, unchanged
			case 1, 2: // swap: one leaves, another one joins in the same write
				var in, out []string
				for _, n := range names {
					if cur[n] {
						in = append(in, n)
					} else {
						out = append(out, n)
					}
				}
				if len(in) > 0 && len(out) > 0 {
					cur[hx.Pick(r, in)] = false
					cur[hx.Pick(r, out)] = true
				} else {
					cur[hx.Pick(r, names)] = true
				}
			default:
				n := hx.Pick(r, names)
				cur[n] = !cur[n]
			}
			evs = append(evs, xev{list: true, names: listOf()})
		default:
			n := hx.Pick(r, names)
			if l := listOf(); len(l) > 0 && r.Chance(85) {
				n = hx.Pick(r, l)
			}
			evs = append(evs, xev{name: n, h: r.Intn(3)})
		}
	}
	playDedup(run, evs, "generated")
}

// runQueuedAfterUnexport: deterministic witness. The watch of a service has queued a snapshot; the list update
// that un-exports the service is handled first; the queued snapshot is handled next. Real handleEvent on the
// exporting side, real importer on the other side.
func runQueuedAfterUnexport(run *hx.Run) {
	d := peerstream.VerifC17NewDedup()
	se := newSession(run, true)
	nonce := 0
	var script []string
	forward := func() {
		for _, evt := range d.Sent {
			resp, isList, err := peerstream.VerifC17MakeResponse(se.w.mst, evt)
			if err != nil {
				panic(err)
			}
			nonce++
			resp.Nonce = fmt.Sprint(nonce)
			if isList {
				se.listWith("p1", append([]string(nil), evt.Result.(*pbpeerstream.ExportedServiceList).Services...), resp)
				continue
			}
			var is []inst
			for _, n := range evt.Result.(*pbservice.IndexedCheckServiceNodes).Nodes {
				c, _ := pbservice.CheckServiceNodeToStructs(n)
				is = append(is, inst{node: nodeDef{c.Node.Node, string(c.Node.ID), c.Node.Address}, svc: svcDef{c.Service.ID, c.Service.Service, c.Service.Port}})
			}
			se.updWith("p1", resp.ResourceID, is, "queued", resp)
		}
		d.Sent = nil
	}
	list := func(names ...string) {
		if _, _, err := d.List(names); err != nil {
			panic(err)
		}
		script = append(script, fmt.Sprintf("# exporter handleEvent: exported-service list %v", names))
		forward()
	}
	data := func(name string, h int) {
		if _, err := d.Data(name, payloadCSN(name, h)); err != nil {
			panic(err)
		}
		script = append(script, fmt.Sprintf("# exporter handleEvent: snapshot %d of %s", h, name))
		forward()
	}
	list("web")
	data("web", 1)
	list()         // web is un-exported: the importer deletes it
	data("web", 2) // the snapshot the cancelled watch had already queued
	list()         // the list is read again, unchanged: nothing is sent
	_, svcs, _ := se.mon.peerState("p1")
	for _, s := range svcs {
		report(run, "export:queued-snapshot-sent-after-unexport", fmt.Sprintf("service %s is not exported (exported list: []) but the importer holds instance %s/%s of it: a snapshot queued by the cancelled watch was sent after the list update, and an unchanged list is never sent again", s.sname, s.node, s.sid), append(script, se.hist...))
	}
	if len(svcs) == 0 {
		run.Tag("queued-after-unexport:importer-clean")
	}
	run.Tag("corpus:queued-snapshot-after-unexport")
	run.Case(strings.Join(append(script, se.hist...), "\n"), true)
}

// ---------------------------------------------------------------- exporter -> importer, end to end

type e2e struct {
	run      *hx.Run
	se       *session // the importing cluster (real importer path, model lines, importer monitors)
	store    *state.Store
	ch       <-chan cache.UpdateEvent
	cancel   context.CancelFunc
	peerID   string
	idx      uint64
	nonce    int
	lastList []string // names of the last list forwarded (nil: none yet)
	gotList  bool
	deliv    map[string]string // canonical last snapshot forwarded per service since the importer last dropped it
	late     map[string]bool   // a snapshot of the service was forwarded although the last forwarded list does not name it
	writes   []string
	failed   bool
	hold     bool // writes are not followed by quiesce + mirror (a batch of exporter writes)
}

const (
	e2ePeerOnExporter = "importer" // name of the peering on the exporting cluster
	e2ePeerOnImporter = "p1"       // name of the peering on the importing cluster
)

func canonInsts(is []inst) string {
	t := make([]string, len(is))
	for i, x := range is {
		t[i] = canonInst(x)
	}
	sort.Strings(t)
	return strings.Join(t, " ; ")
}

func newE2E(run *hx.Run) *e2e {
	store, publisher, ctx, cancel := peerstream.VerifC17NewExporterStore()
	x := &e2e{run: run, se: newSession(run, true), store: store, cancel: cancel, idx: 10, deliv: map[string]string{},
		peerID: "0e2e0e2e-0000-0000-0000-00000000e2e0"}
	must := func(err error) {
		if err != nil {
			panic(err)
		}
	}
	must(store.CASetConfig(x.next(), &structs.CAConfiguration{Provider: "consul", ClusterID: connect.TestClusterID}))
	must(store.PeeringWrite(x.next(), &pbpeering.PeeringWriteRequest{Peering: &pbpeering.Peering{ID: x.peerID, Name: e2ePeerOnExporter}}))
	x.ch = peerstream.VerifC17Subscribe(ctx, store, publisher, x.peerID, e2ePeerOnExporter)
	return x
}

func (x *e2e) next() uint64 { x.idx++; return x.idx }

// exported: what the exporting cluster exports to the peer right now, and the normalised view of each service
func (x *e2e) exported() ([]string, map[string][]inst) {
	_, list, err := x.store.ExportedServicesForPeer(nil, x.peerID, "dc1")
	if err != nil {
		panic(err)
	}
	var names []string
	want := map[string][]inst{}
	for _, sn := range list.Services {
		names = append(names, sn.Name)
		_, csns, err := x.store.CheckServiceNodes(nil, sn.Name, structs.DefaultEnterpriseMetaInDefaultPartition(), "")
		if err != nil {
			panic(err)
		}
		var is []inst
		for _, c := range csns {
			// documented normalisation: typical kinds only, no "-sidecar-proxy" names, checks flattened into one
			if c.Service.Kind != structs.ServiceKindTypical || strings.HasSuffix(c.Service.Service, "-sidecar-proxy") {
				continue
			}
			it := inst{node: nodeDef{c.Node.Node, string(c.Node.ID), c.Node.Address}, svc: svcDef{c.Service.ID, c.Service.Service, c.Service.Port}}
			if len(c.Checks) > 0 {
				// aggregated status: a maintenance check wins, else the worst of critical > warning > passing
				st := "passing"
				for _, k := range c.Checks {
					st = worst(st, k.Status)
				}
				for _, k := range c.Checks {
					if string(k.CheckID) == "_node_maintenance" || strings.HasPrefix(string(k.CheckID), "_service_maintenance:") {
						st = "maintenance"
					}
				}
				it.chks = []chkDef{{c.Node.Node, c.Service.ID + ":overall-check", c.Service.ID, c.Service.Service, st}}
			}
			is = append(is, it)
		}
		want[sn.Name] = is
	}
	sort.Strings(names)
	return names, want
}

func (x *e2e) forward(evt cache.UpdateEvent) {
	resp, isList, err := peerstream.VerifC17MakeResponse(x.se.w.mst, evt)
	if err != nil {
		panic(err)
	}
	x.nonce++
	resp.Nonce = fmt.Sprint(x.nonce)
	if isList {
		l := evt.Result.(*pbpeerstream.ExportedServiceList)
		names := append([]string(nil), l.Services...)
		x.se.listWith(e2ePeerOnImporter, names, resp)
		x.lastList, x.gotList = names, true
		keep := map[string]bool{}
		for _, n := range names {
			keep[n] = true
		}
		for n := range x.deliv {
			if !keep[n] {
				delete(x.deliv, n) // the importer drops what the list no longer names
			}
		}
		x.late = nil // a list that was really sent makes the importer prune
		x.run.Tag("e2e:forwarded-list")
		return
	}
	csn := evt.Result.(*pbservice.IndexedCheckServiceNodes)
	var is []inst
	for _, n := range csn.Nodes {
		c, err := pbservice.CheckServiceNodeToStructs(n)
		if err != nil {
			panic(err)
		}
		it := inst{node: nodeDef{c.Node.Node, string(c.Node.ID), c.Node.Address}, svc: svcDef{c.Service.ID, c.Service.Service, c.Service.Port}}
		for _, k := range c.Checks {
			it.chks = append(it.chks, chkDef{k.Node, string(k.CheckID), k.ServiceID, k.ServiceName, k.Status})
		}
		is = append(is, it)
		// what must never reach the wire for a plain exported service: mesh internals of the exporting cluster
		if c.Service.Kind != structs.ServiceKindTypical || c.Service.Connect.Native || c.Service.Connect.SidecarService != nil ||
			c.Service.Proxy.DestinationServiceName != "" || strings.HasSuffix(c.Service.Service, "-sidecar-proxy") ||
			c.Service.TaggedAddresses[structs.TaggedAddressVirtualIP].Address != "" {
			report(x.run, "export:connect-reference-leaked", fmt.Sprintf("the snapshot of %s sent to the peer carries instance %s/%s with kind=%q connect-native=%v proxy-destination=%q name=%q: connect / proxy details and look-alike sidecars of the exporting cluster must be withheld",
				resp.ResourceID, c.Node.Node, c.Service.ID, c.Service.Kind, c.Service.Connect.Native, c.Service.Proxy.DestinationServiceName, c.Service.Service),
				append(append([]string(nil), x.writes...), x.se.hist...))
			x.failed = true
		}
	}
	name := resp.ResourceID
	if x.gotList && !contains(x.lastList, name) && len(is) > 0 {
		if x.late == nil {
			x.late = map[string]bool{}
		}
		x.late[name] = true
		x.run.Tag("e2e:snapshot-forwarded-for-unlisted-service")
	}
	x.se.updWith(e2ePeerOnImporter, name, is, "e2e", resp)
	x.deliv[name] = canonInsts(is)
	x.run.Tag("e2e:forwarded-service")
}

func sameNames(a, b []string) bool {
	a, b = append([]string(nil), a...), append([]string(nil), b...)
	sort.Strings(a)
	sort.Strings(b)
	return strings.Join(a, ",") == strings.Join(b, ",")
}

// delivered: everything the exporter exports right now has reached the wire
func (x *e2e) delivered() bool {
	names, want := x.exported()
	if !x.gotList || !sameNames(names, x.lastList) {
		return false
	}
	for _, n := range names {
		d, ok := x.deliv[n]
		if !ok && len(want[n]) == 0 {
			continue
		}
		if !ok || d != canonInsts(want[n]) {
			return false
		}
	}
	return true
}

// quiesce forwards everything the exporter publishes until all it exports has been delivered, or until it has
// been silent for the idle timeout (only a failing exporter makes us wait).
func (x *e2e) quiesce() {
	const idle = 4 * time.Second
	for {
		for drained := false; !drained; {
			select {
			case evt := <-x.ch:
				x.forward(evt)
			default:
				drained = true
			}
		}
		if x.delivered() {
			return
		}
		select {
		case evt := <-x.ch:
			x.forward(evt)
		case <-time.After(idle):
			x.run.Tag("e2e:quiesce-timeout")
			return
		}
	}
}

// mirror: the property, end to end
func (x *e2e) mirror() {
	replay := append(append([]string(nil), x.writes...), x.se.hist...)
	names, want := x.exported()
	if !x.gotList || !sameNames(names, x.lastList) {
		for _, n := range names {
			if !contains(x.lastList, n) {
				report(x.run, "export:exported-service-not-mirrored", fmt.Sprintf("service %s is exported to the peer but the exported-service list the importer received (%v) does not name it", n, x.lastList), replay)
				x.failed = true
			}
		}
		for _, n := range x.lastList {
			if !contains(names, n) {
				report(x.run, "export:unexported-service-still-present", fmt.Sprintf("service %s is no longer exported to the peer but the last exported-service list the importer received (%v) still names it", n, x.lastList), replay)
				x.failed = true
			}
		}
	}
	for _, n := range names {
		w := canonInsts(want[n])
		d, ok := x.deliv[n]
		if (!ok && len(want[n]) > 0) || (ok && d != w) {
			report(x.run, "export:exported-service-not-mirrored", fmt.Sprintf("service %s is exported with instances [%s] but the last snapshot the importer received for it since it last dropped the service is [%s] (received at all: %v)", n, w, d, ok), replay)
			x.failed = true
			continue
		}
		// delivered: now the importer's catalog itself
		got, st := x.se.w.csn(e2ePeerOnImporter, n)
		var gi []inst
		for _, v := range got {
			gi = append(gi, inst{v.node, v.svc, v.chks})
		}
		if strings.HasPrefix(st, "err:") || canonInsts(gi) != w {
			if x.se.mon.explainedSeen > 0 {
				x.run.Tag("e2e:importer-differs(known-importer-finding-in-this-case)")
			} else {
				report(x.run, "import:catalog-differs-from-delivered-snapshot", fmt.Sprintf("service %s: the importer received [%s] but its catalog shows [%s] %s", n, w, canonInsts(gi), st), replay)
				x.failed = true
			}
		}
	}
	_, svcs, _ := x.se.mon.peerState(e2ePeerOnImporter)
	seen := map[string]bool{}
	for _, s := range svcs {
		if !contains(names, s.sname) && !seen[s.sname] {
			seen[s.sname] = true
			sig := "export:unexported-service-still-present"
			if x.late[s.sname] {
				// mechanism verified: the exporter sent a snapshot of a service its last list did not name, and the importer re-imported it
				sig = "export:queued-snapshot-sent-after-unexport"
			}
			report(x.run, sig, fmt.Sprintf("service %s is not exported to the peer (exported: %v) but the importer still has instances of it", s.sname, names), replay)
			x.failed = true
		}
	}
}

func contains(l []string, s string) bool {
	for _, x := range l {
		if x == s {
			return true
		}
	}
	return false
}

// write applies one change to the exporting cluster, waits for quiescence and checks the mirror property
func (x *e2e) write(desc string, f func() error) {
	if err := f(); err != nil {
		panic(fmt.Sprintf("exporter write %s: %v", desc, err))
	}
	x.writes = append(x.writes, "# exporter: "+desc)
	if x.hold {
		return // coalesced: several writes reach the subscription before the harness looks again
	}
	x.quiesce()
	x.mirror()
}

func (x *e2e) export(names []string, others bool) {
	ce := &structs.ExportedServicesConfigEntry{Name: "default"}
	for _, n := range names {
		cons := []structs.ServiceConsumer{{Peer: e2ePeerOnExporter}}
		if others {
			cons = append(cons, structs.ServiceConsumer{Peer: "someone-else"})
		}
		ce.Services = append(ce.Services, structs.ExportedService{Name: n, Consumers: cons})
	}
	if others {
		ce.Services = append(ce.Services, structs.ExportedService{Name: "cache", Consumers: []structs.ServiceConsumer{{Peer: "someone-else"}}})
	}
	x.write(fmt.Sprintf("export %v", names), func() error {
		if err := ce.Normalize(); err != nil {
			return err
		}
		return x.store.EnsureConfigEntry(x.next(), ce)
	})
}

func (x *e2e) register(node, addr, sid, sname string, port int, status string) {
	req := &structs.RegisterRequest{Datacenter: "dc1", Node: node, Address: addr,
		Service: &structs.NodeService{Kind: structs.ServiceKindTypical, ID: sid, Service: sname, Port: port}}
	if status != "" {
		req.Checks = structs.HealthChecks{{Node: node, CheckID: types.CheckID("service:" + sid), Name: "c", Status: status, ServiceID: sid}}
	}
	x.write(fmt.Sprintf("register %s/%s=%s:%d check=%s", node, sid, sname, port, status), func() error {
		return x.store.EnsureRegistration(x.next(), req)
	})
}

type regOpt struct {
	nodeCheck, nodeCheckStatus string // a node-level check registered along
	maint                      string // "", "node" or "service": a maintenance-mode check
	kind                       structs.ServiceKind
	native                     bool // connect-native instance
}

func (x *e2e) registerX(node, addr, sid, sname string, port int, status string, o regOpt) {
	svc := &structs.NodeService{Kind: structs.ServiceKindTypical, ID: sid, Service: sname, Port: port}
	if o.kind == structs.ServiceKindConnectProxy {
		svc.Kind = o.kind
		svc.Proxy = structs.ConnectProxyConfig{DestinationServiceName: "dest-" + sid}
	}
	if o.native {
		svc.Connect = structs.ServiceConnect{Native: true}
	}
	req := &structs.RegisterRequest{Datacenter: "dc1", Node: node, Address: addr, Service: svc}
	if status != "" {
		req.Checks = append(req.Checks, &structs.HealthCheck{Node: node, CheckID: types.CheckID("service:" + sid), Name: "c", Status: status, ServiceID: sid})
	}
	if o.nodeCheck != "" {
		req.Checks = append(req.Checks, &structs.HealthCheck{Node: node, CheckID: types.CheckID(o.nodeCheck), Name: "n", Status: o.nodeCheckStatus})
	}
	switch o.maint {
	case "node":
		req.Checks = append(req.Checks, &structs.HealthCheck{Node: node, CheckID: "_node_maintenance", Name: "m", Status: "critical"})
	case "service":
		req.Checks = append(req.Checks, &structs.HealthCheck{Node: node, CheckID: types.CheckID("_service_maintenance:" + sid), Name: "m", Status: "critical", ServiceID: sid})
	}
	x.write(fmt.Sprintf("register %s/%s=%s:%d kind=%q native=%v check=%s nodecheck=%s:%s maint=%s", node, sid, sname, port, svc.Kind, o.native, status, o.nodeCheck, o.nodeCheckStatus, o.maint), func() error {
		return x.store.EnsureRegistration(x.next(), req)
	})
}

func (x *e2e) finish(tag string) {
	x.cancel()
	x.run.Tag("e2e:" + tag)
	x.run.Case(strings.Join(append(append([]string(nil), x.writes...), x.se.hist...), "\n"), true)
}

// the history of the seeded regression C17-1: export a; swap a for b in one write; export a again, unchanged
func runE2ECorpus(run *hx.Run) {
	x := newE2E(run)
	x.write("subscribe", func() error { return nil })
	x.register("n1", "10.0.0.1", "web1", "web", 80, "passing")
	x.register("n2", "10.0.0.2", "api1", "api", 80, "passing")
	x.export([]string{"web"}, false)
	x.export([]string{"api"}, false)
	x.export([]string{"api", "web"}, false)
	x.finish("corpus:swap-then-re-export-unchanged")
}

// the exporter's documented normalisation, one fixed history: instances that must be withheld (non-typical kind
// under an exported name, a name that looks like a synthetic sidecar), connect-native instances (sent as plain
// ones), node-level and maintenance checks folded into the one overall check, the same ids on two nodes
func runE2ECorpusNormalisation(run *hx.Run) {
	x := newE2E(run)
	x.write("subscribe", func() error { return nil })
	x.export([]string{"web"}, false)
	x.registerX("n1", "10.0.0.1", "web1", "web", 80, "passing", regOpt{nodeCheck: "serfHealth", nodeCheckStatus: "warning"})
	x.registerX("n2", "10.0.0.2", "web1", "web", 80, "passing", regOpt{nodeCheck: "serfHealth", nodeCheckStatus: "passing"})
	x.registerX("n1", "10.0.0.1", "webp", "web", 21000, "passing", regOpt{kind: structs.ServiceKindConnectProxy})
	x.registerX("n2", "10.0.0.2", "web2", "web", 8080, "", regOpt{native: true})
	x.registerX("n2", "10.0.0.2", "web1", "web", 80, "passing", regOpt{maint: "service"})
	x.registerX("n1", "10.0.0.1", "web1", "web", 80, "passing", regOpt{maint: "node"})
	x.write("delete node check _node_maintenance of n1", func() error {
		return x.store.DeleteCheck(x.next(), "n1", "_node_maintenance", nil, "")
	})
	x.registerX("n1", "10.0.0.1", "side", "api-sidecar-proxy", 80, "passing", regOpt{})
	x.registerX("n1", "10.0.0.1", "api1", "api", 80, "critical", regOpt{})
	x.export([]string{"*"}, false)
	// both nodes lose their serf check in one batch of writes
	x.hold = true
	x.write("delete node check serfHealth of n1", func() error { return x.store.DeleteCheck(x.next(), "n1", "serfHealth", nil, "") })
	x.hold = false
	x.write("delete node check serfHealth of n2", func() error { return x.store.DeleteCheck(x.next(), "n2", "serfHealth", nil, "") })
	x.write("delete node n2", func() error { return x.store.DeleteNode(x.next(), "n2", nil, "") })
	x.finish("corpus:exporter-normalisation")
}

func runE2ECase(run *hx.Run, r *hx.RNG) {
	x := newE2E(run)
	x.write("subscribe", func() error { return nil })
	names := []string{"web", "api", "db"}
	nodes := []string{"n1", "n2", "n3"}
	sids := []string{"web1", "api1", "s1", "s2"}
	cur := map[string]bool{}
	listOf := func() []string {
		var l []string
		for _, n := range names {
			if cur[n] {
				l = append(l, n)
			}
		}
		return l
	}
	type key struct{ node, sid string }
	regs := map[key]bool{}
	batch := 0
	for k := 5 + r.Intn(8); k > 0 && !x.failed; k-- {
		// coalesced updates: 2-3 exporter writes before the harness forwards anything and checks the mirror
		if batch == 0 && r.Chance(20) {
			batch = 2 + r.Intn(2)
			x.hold = true
			run.Tag("e2e:batch-of-writes")
		} else if batch > 0 {
			if batch--; batch == 0 {
				x.hold = false
			}
		}
		switch c := r.Intn(14); {
		case c >= 12: // something happens to a whole node
			node := hx.Pick(r, nodes)
			if c == 12 {
				for kk := range regs {
					if kk.node == node {
						delete(regs, kk)
					}
				}
				x.write("delete node "+node, func() error { return x.store.DeleteNode(x.next(), node, nil, "") })
				run.Tag("e2e:delete-node")
			} else {
				cid := hx.Pick(r, []string{"serfHealth", "nc1", "_node_maintenance"})
				if r.Chance(50) {
					x.write(fmt.Sprintf("delete node check %s of %s", cid, node), func() error {
						return x.store.DeleteCheck(x.next(), node, types.CheckID(cid), nil, "")
					})
					run.Tag("e2e:delete-node-check")
				} else if n, _ := x.nodeKnown(node); n {
					st := hx.Pick(r, statuses)
					x.write(fmt.Sprintf("node check %s of %s = %s", cid, node, st), func() error {
						return x.store.EnsureCheck(x.next(), &structs.HealthCheck{Node: node, CheckID: types.CheckID(cid), Name: "n", Status: st})
					})
					run.Tag("e2e:node-check")
				}
			}
		case c < 5: // exported-services config entry write
			switch r.Intn(6) {
			case 0: // rewritten unchanged
				run.Tag("e2e:export-unchanged")
			case 1, 2: // swap in one write
				var in, out []string
				for _, n := range names {
					if cur[n] {
						in = append(in, n)
					} else {
						out = append(out, n)
					}
				}
				if len(in) > 0 && len(out) > 0 {
					cur[hx.Pick(r, in)] = false
					cur[hx.Pick(r, out)] = true
					run.Tag("e2e:export-swap")
				} else {
					cur[hx.Pick(r, names)] = true
				}
			case 3:
				if r.Chance(30) {
					x.export([]string{"*"}, r.Chance(30))
					run.Tag("e2e:export-wildcard")
					for _, n := range names {
						cur[n] = false
					}
					continue
				}
				fallthrough
			default:
				n := hx.Pick(r, names)
				cur[n] = !cur[n]
				if cur[n] {
					run.Tag("e2e:export-add")
				} else {
					run.Tag("e2e:export-remove")
				}
			}
			x.export(listOf(), r.Chance(30))
		case c < 9: // (re-)registration: new instance, changed port / status, instance id changing service
			node, sid := hx.Pick(r, nodes), hx.Pick(r, sids)
			regs[key{node, sid}] = true
			var o regOpt
			sname := hx.Pick(r, names)
			if r.Chance(25) {
				o.nodeCheck, o.nodeCheckStatus = hx.Pick(r, []string{"serfHealth", "nc1"}), hx.Pick(r, statuses)
				run.Tag("e2e:register-with-node-check")
			}
			switch v := r.Intn(20); {
			case v < 2:
				o.maint = hx.Pick(r, []string{"node", "service"})
				run.Tag("e2e:register-maintenance-" + o.maint)
			case v < 4:
				o.kind = structs.ServiceKindConnectProxy
				run.Tag("e2e:register-connect-proxy-under-exported-name")
			case v < 6:
				sname += "-sidecar-proxy"
				run.Tag("e2e:register-name-with-sidecar-suffix")
			case v < 8:
				o.native = true
				run.Tag("e2e:register-connect-native")
			}
			x.registerX(node, "10.0.0."+node[1:], sid, sname, hx.Pick(r, ports), hx.Pick(r, []string{"", "passing", "warning", "critical"}), o)
			run.Tag("e2e:register")
		case c < 11:
			for kk := range regs {
				delete(regs, kk)
				x.write(fmt.Sprintf("deregister %s/%s", kk.node, kk.sid), func() error {
					return x.store.DeleteService(x.next(), kk.node, kk.sid, nil, "")
				})
				run.Tag("e2e:deregister")
				break
			}
		default:
			for kk := range regs {
				x.write(fmt.Sprintf("delete check of %s/%s", kk.node, kk.sid), func() error {
					return x.store.DeleteCheck(x.next(), kk.node, types.CheckID("service:"+kk.sid), nil, "")
				})
				run.Tag("e2e:delete-check")
				break
			}
		}
	}
	if x.hold {
		x.hold = false
		x.write("end of batch", func() error { return nil })
	}
	x.finish("generated")
}

// nodeKnown: the exporting cluster has the node (EnsureCheck needs it)
func (x *e2e) nodeKnown(node string) (bool, error) {
	_, n, err := x.store.GetNode(node, nil, "")
	return n != nil, err
}

// ---------------------------------------------------------------- malformed / protocol-level stream

func runMalformed(run *hx.Run, r *hx.RNG) {
	w := newWorld()
	u := mkUniverse(false)
	p := "p1"
	var hist []string
	emit := func(op, out string) {
		run.Line(op, out)
		hist = append(hist, op)
	}
	emit("reset", "ok")
	hist = append(hist, genPrior(r, run, w, u, p, false, true, nil)...)
	name := hx.Pick(r, u.svcs)
	// a valid import first, so that there is something to damage
	x := &exporter{u: u}
	for k := 3; k > 0; k-- {
		x.addInst(r, name)
	}
	is := x.snapshot(name, false)
	res := w.sendService(p, name, is)
	emit(fmt.Sprintf("upd %s %s %s", hx.EncS(p), hx.EncS(name), encInsts(orderByCalls(is, res.calls))), resLine(res))
	othersBefore := w.others(p)
	dumpBefore := w.dump()
	nd := nodeDef{hx.Pick(r, u.nodes), "", hx.Pick(r, addrs)}
	one := inst{node: nd, svc: svcDef{hx.Pick(r, u.sids), name, 80}}
	kind := r.Intn(8)
	modelled := true
	switch kind {
	case 0: // check that names another node
		one.chks = []chkDef{{"elsewhere", "c1", one.svc.sid, name, "passing"}}
		run.Tag("malformed:check-on-other-node")
	case 1: // check for a service id that is not registered
		one.chks = []chkDef{{nd.name, "c1", "ghost", name, "passing"}}
		run.Tag("malformed:check-for-unknown-service")
	case 2:
		one.node.name = ""
		run.Tag("malformed:empty-node-name")
	case 3:
		one.svc.sid = ""
		run.Tag("malformed:empty-service-id")
	case 4:
		one.chks = []chkDef{{nd.name, "", one.svc.sid, name, "passing"}}
		run.Tag("malformed:empty-check-id")
	case 5:
		one.chks = []chkDef{{nd.name, "c1", one.svc.sid, name, ""}}
		run.Tag("malformed:empty-check-status")
	case 6: // same instance twice with different content, same check twice
		one.chks = []chkDef{{nd.name, "c1", one.svc.sid, name, "passing"}, {nd.name, "c1", one.svc.sid, name, "critical"}}
		run.Tag("malformed:duplicate-check")
	default:
		modelled = false
	}
	if modelled {
		res := w.sendService(p, name, []inst{one})
		emit(fmt.Sprintf("upd %s %s %s", hx.EncS(p), hx.EncS(name), encInsts([]inst{one})), resLine(res))
		emit("dump", w.dump())
		run.Tag("result:" + res.status)
		mon := &monCtx{run: run, w: w, replay: hist}
		mon.monCalls(p, res.calls)
		if after := w.others(p); after != othersBefore {
			mon.violate("import:foreign-rows-modified:malformed", "a malformed update changed rows of another peer or local rows")
		}
	} else {
		// protocol-level rejections: nothing may change at all (not part of the model: the state line proves it)
		a, _ := anypb.New(mkExportedService([]inst{one}))
		var resp *pbpeerstream.ReplicationMessage_Response
		switch r.Intn(5) {
		case 0:
			resp = &pbpeerstream.ReplicationMessage_Response{ResourceURL: pbpeerstream.TypeURLExportedService, ResourceID: name, Nonce: "n", Operation: pbpeerstream.Operation(2), Resource: a}
		case 1:
			resp = &pbpeerstream.ReplicationMessage_Response{ResourceURL: pbpeerstream.TypeURLExportedService, ResourceID: name, Nonce: "", Operation: pbpeerstream.Operation_OPERATION_UPSERT, Resource: a}
		case 2:
			resp = &pbpeerstream.ReplicationMessage_Response{ResourceURL: "type.googleapis.com/nope", ResourceID: name, Nonce: "n", Operation: pbpeerstream.Operation_OPERATION_UPSERT, Resource: a}
		case 3:
			resp = &pbpeerstream.ReplicationMessage_Response{ResourceURL: pbpeerstream.TypeURLExportedService, ResourceID: name, Nonce: "n", Operation: pbpeerstream.Operation_OPERATION_UPSERT}
		default:
			resp = &pbpeerstream.ReplicationMessage_Response{ResourceURL: pbpeerstream.TypeURLExportedServiceList, ResourceID: name, Nonce: "n", Operation: pbpeerstream.Operation_OPERATION_UPSERT, Resource: a}
		}
		res := w.process(p, proto.Clone(resp).(*pbpeerstream.ReplicationMessage_Response))
		run.Tag("rejected:" + res.status)
		emit("dump", w.dump())
		if w.dump() != dumpBefore || len(res.calls) > 0 || res.status == "ok" {
			(&monCtx{run: run, w: w, replay: hist}).violate("import:rejected-message-had-effect", "a message rejected at protocol level ("+res.status+") changed the catalog or was accepted")
		}
	}
	run.Case(strings.Join(hist, "\n"), true)
}

// ---------------------------------------------------------------- export side

func runExportCase(run *hx.Run, r *hx.RNG) {
	s := state.NewStateStore(nil)
	idx := uint64(1)
	next := func() uint64 { idx++; return idx }
	must := func(err error) {
		if err != nil {
			panic(err)
		}
	}
	must(s.CASetConfig(next(), &structs.CAConfiguration{Provider: "consul", ClusterID: connect.TestClusterID}))
	peers := []string{"p1", "p2", "p10"}
	peerIDs := map[string]string{}
	for i, p := range peers {
		id := fmt.Sprintf("%08d-0000-0000-0000-000000000000", i+1)
		must(s.PeeringWrite(next(), &pbpeering.PeeringWriteRequest{Peering: &pbpeering.Peering{ID: id, Name: p}}))
		peerIDs[p] = id
	}
	names := []string{"web", "api", "db", "consul", "web-sidecar-proxy", "cache"}
	// local registrations
	var typical, connectEnabled, chains []string
	seenT, seenC := map[string]bool{}, map[string]bool{}
	for k := r.Intn(6); k > 0; k-- {
		n := hx.Pick(r, names)
		node := hx.Pick(r, []string{"n1", "n2"})
		req := &structs.RegisterRequest{Datacenter: "dc1", Node: node, Address: "10.0.0.1",
			Service: &structs.NodeService{Kind: structs.ServiceKindTypical, ID: n + "-" + node, Service: n, Port: 80}}
		if r.Chance(25) && n != "consul" {
			dest := hx.Pick(r, names[:3])
			req.Service = &structs.NodeService{Kind: structs.ServiceKindConnectProxy, ID: dest + "-proxy-" + node, Service: dest + "-proxy", Port: 21000,
				Proxy: structs.ConnectProxyConfig{DestinationServiceName: dest}}
			must(s.EnsureRegistration(next(), req))
			if !seenC[dest] {
				seenC[dest] = true
				connectEnabled = append(connectEnabled, dest)
			}
			run.Tag("export:local-connect-proxy")
			continue
		}
		must(s.EnsureRegistration(next(), req))
		if !seenT[n] {
			seenT[n] = true
			typical = append(typical, n)
		}
		run.Tag("export:local-typical-service")
	}
	seenR := map[string]bool{}
	var chainTok, tgw []string
	for k := r.Intn(4); k > 0; k-- {
		n := hx.Pick(r, names)
		if seenR[n] {
			continue
		}
		seenR[n] = true
		e := &structs.ServiceResolverConfigEntry{Kind: structs.ServiceResolver, Name: n}
		target := n
		switch r.Intn(5) {
		case 0: // the chain ends at the consul service
			target = "consul"
			run.Tag("export:chain-redirects-to-consul")
		case 1: // ... or at a service that has no resolver of its own
			target = "leaf"
			run.Tag("export:chain-redirects")
		}
		if target != n {
			e.Redirect = &structs.ServiceResolverRedirect{Service: target}
		}
		must(e.Normalize())
		must(s.EnsureConfigEntry(next(), e))
		chains = append(chains, n)
		chainTok = append(chainTok, hx.EncS(n)+";"+hx.EncS(target))
		run.Tag("export:discovery-chain")
	}
	if r.Chance(30) { // services behind a terminating gateway are connect services too
		g := &structs.TerminatingGatewayConfigEntry{Kind: structs.TerminatingGateway, Name: "tgw"}
		seen := map[string]bool{}
		for k := 1 + r.Intn(2); k > 0; k-- {
			n := hx.Pick(r, names[:4])
			if !seen[n] && n != "consul" {
				seen[n] = true
				g.Services = append(g.Services, structs.LinkedService{Name: n})
				tgw = append(tgw, n)
			}
		}
		must(g.Normalize())
		must(s.EnsureConfigEntry(next(), g))
		run.Tag("export:terminating-gateway")
	}
	// the exported-services entry
	type entry struct {
		name  string
		peers []string
	}
	var cfg []entry
	ce := &structs.ExportedServicesConfigEntry{Name: "default"}
	for k := r.Intn(5); k > 0; k-- {
		e := entry{name: hx.Pick(r, append([]string{"*", "*"}, names...))}
		var cons []structs.ServiceConsumer
		for _, p := range append([]string{"p3"}, peers...) {
			if r.Chance(45) {
				e.peers = append(e.peers, p)
				cons = append(cons, structs.ServiceConsumer{Peer: p})
			}
		}
		if r.Chance(15) {
			cons = append(cons, structs.ServiceConsumer{Partition: "part1"}) // not a peer
		}
		cfg = append(cfg, e)
		ce.Services = append(ce.Services, structs.ExportedService{Name: e.name, Consumers: cons})
		switch {
		case e.name == "*":
			run.Tag("export:entry-wildcard")
		case e.name == "consul":
			run.Tag("export:entry-consul")
		default:
			run.Tag("export:entry-exact")
		}
		if len(e.peers) > 1 {
			run.Tag("export:entry-several-peers")
		}
		if len(e.peers) == 0 {
			run.Tag("export:entry-no-peer")
		}
	}
	if len(cfg) > 0 || r.Chance(50) {
		must(ce.Normalize())
		must(s.EnsureConfigEntry(next(), ce))
	} else {
		run.Tag("export:no-config-entry")
	}
	var cfgTok []string
	for _, e := range cfg {
		ps := "-"
		if len(e.peers) > 0 {
			t := make([]string, len(e.peers))
			for i, p := range e.peers {
				t[i] = hx.EncS(p)
			}
			ps = strings.Join(t, "+")
		}
		cfgTok = append(cfgTok, hx.EncS(e.name)+";"+ps)
	}
	var hist []string
	for _, p := range peers {
		_, list, err := s.ExportedServicesForPeer(nil, peerIDs[p], "dc1")
		if err != nil {
			panic(err)
		}
		var sv, dc []string
		for _, n := range list.Services {
			sv = append(sv, hx.EncS(n.Name))
		}
		for n := range list.DiscoChains {
			dc = append(dc, hx.EncS(n.Name))
		}
		sort.Strings(sv)
		sort.Strings(dc)
		op := fmt.Sprintf("exp %s %s %s %s %s %s", hx.EncS(p), hx.EncList(cfgTok), hx.EncSList(typical), hx.EncList(chainTok), hx.EncSList(connectEnabled), hx.EncSList(tgw))
		run.Line(op, fmt.Sprintf("S=%s D=%s", hx.EncList(sv), hx.EncList(dc)))
		hist = append(hist, op)
		// monitor: offered only if an entry names the peer as a consumer of it; never "consul";
		// and every exact entry naming the peer is offered
		named := func(n string) (exact, wild bool) {
			for _, e := range cfg {
				for _, q := range e.peers {
					if q == p {
						if e.name == n {
							exact = true
						}
						if e.name == "*" {
							wild = true
						}
					}
				}
			}
			return
		}
		offered := map[string]bool{}
		for _, n := range list.Services {
			offered[n.Name] = true
		}
		all := map[string]bool{}
		for n := range offered {
			all[n] = true
		}
		for n := range list.DiscoChains {
			all[n.Name] = true
		}
		for n := range all {
			ex, wi := named(n)
			if n == "consul" {
				report(run, "export:consul-service-offered", fmt.Sprintf("the consul service is offered to peer %s", p), []string{op})
			}
			if !ex && !wi {
				report(run, "export:offered-without-consumer-entry", fmt.Sprintf("service %s is offered to peer %s but no exported-services entry names the peer as its consumer (cfg %v)", n, p, cfg), []string{op})
			}
			if !ex && wi && !seenT[n] && !seenR[n] {
				report(run, "export:wildcard-offers-unknown-name", fmt.Sprintf("service %s is offered to peer %s through a wildcard but is neither a local typical service nor a discovery chain", n, p), []string{op})
			}
		}
		for _, e := range cfg {
			ex, _ := named(e.name)
			if ex && e.name != "*" && e.name != "consul" && !offered[e.name] {
				report(run, "export:entry-not-offered", fmt.Sprintf("an entry names peer %s as consumer of %s but it is not offered", p, e.name), []string{op})
			}
		}
		if _, wi := named("*"); wi {
			for n := range seenT {
				if n != "consul" && !offered[n] {
					report(run, "export:wildcard-misses-local-service", fmt.Sprintf("peer %s is a wildcard consumer but local service %s is not offered", p, n), []string{op})
				}
			}
			run.Tag("export:peer-is-wildcard-consumer")
		}
		if len(list.Services) == 0 {
			run.Tag("export:nothing-offered")
		} else {
			run.Tag("export:something-offered")
		}
	}
	run.Case(strings.Join(hist, "\n"), len(cfg) > 0)
}

func main() {
	run := hx.Start()
	run.Rule = "one case = a fresh importing cluster (real FSM + state store + peerstream.Server), a random prior catalog (local, other peers, earlier imports) and 3-8 replication messages taken from a mutating simulated exporter (or arbitrary snapshots), each followed by a full catalog dump and the monitors; or one exported-services configuration queried for 3 peers; plus exporter duplicate-suppression histories (real handleEvent, synchronous) and exporter->importer histories (real subscriptionManager + event publisher feeding the real importer, mirror check after every exporter write); plus fixed corpus histories (one per known finding; two-/three-node witnesses of composite keys colliding on one component; the exporter's normalisation), two symmetric nodes with the same ids in 9 shapes each (quick: symmetric priors x all new snapshots + a per-seed sample; thorough: the whole scope, 7290 histories), homogeneous fleets of 2-4 nodes changing one component on several nodes per update and, in the thorough tier, 968 exhaustive snapshot pairs; cases with names differing only in case (12%) run through the monitors only; distinct by the full op history; non-trivial = at least one catalog command was issued / at least one export entry exists"
	runCorpus(run)
	runCollisionCorpus(run)
	playDedup(run, []xev{{list: true, names: []string{"web"}}, {name: "web", h: 1}, {list: true, names: []string{"api"}},
		{name: "api", h: 2}, {list: true, names: []string{"api", "web"}}, {name: "web", h: 1}, {name: "api", h: 2}}, "corpus:swap-then-re-export-unchanged")
	runE2ECorpus(run)
	runE2ECorpusNormalisation(run)
	runQueuedAfterUnexport(run)
	for i := run.Scale(40, 400); i > 0; i-- {
		runDedupCase(run, run.RNG.Fork(uint64(1000000+i)))
	}
	for i := run.Scale(50, 400); i > 0; i-- {
		runE2ECase(run, run.RNG.Fork(uint64(2000000+i)))
	}
	if run.Thorough() {
		run.Extra["exhaustive"] = true
		run.Extra["exhaustive_scope"] = "all (prior, new) snapshot pairs of one service over 2 nodes x 3 instance slots x {node check, service check}, with and without a second imported service on the shared node"
		run.Extra["exhaustive_cases"] = runExhaustive(run)
	}
	run.Extra["symmetric_pairs"] = runSymmetricPairs(run, run.RNG.Fork(3000000))
	for i := run.Scale(70, 700); i > 0; i-- {
		r := run.RNG.Fork(uint64(4000000 + i))
		runFleetCase(run, r, r.Chance(25))
	}
	n := run.Scale(260, 2600)
	for i := 0; i < n; i++ {
		r := run.RNG.Fork(uint64(i))
		switch {
		case i%10 == 9:
			runExportCase(run, r)
		case i%10 == 8:
			runMalformed(run, r)
		default:
			cfg := caseCfg{caseMode: r.Chance(12), ids: r.Chance(40), flatten: r.Chance(30), arbitrary: r.Chance(35)}
			runImportCase(run, r, cfg)
		}
	}
	run.Finish()
}
