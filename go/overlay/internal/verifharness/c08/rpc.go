//go:build verif

// C08 harness, RPC stream: consul.ACLResolver with a backend that never resolves locally, so that
// identities, roles and policies go through the TTL caches. The clock is controlled by ageing the
// cache entries (structs.ACLCaches.VerifC08Age): one unit = one hour, TTLs are T hours + 30 minutes
// (or exactly zero), the model counts 1000 ticks per hour and one tick for the real time that
// passes before each resolution, so no comparison ever falls on a boundary.
//
// Monitor (independent of the Lean model) — the TTL contract: the observed answer must equal the
// answer of a fresh resolver on SOME admissible view of the token's own objects: for the token, each
// role and each policy consulted, a value the servers held at a moment whose clock lies within
// [now - TTL, now]. After an RPC outage (until every TTL has passed) and with async-cache, where the
// code extends or answers from expired entries by design, the view may use any value the servers
// held at the time of some earlier resolution.
package main

import (
	"fmt"
	"strings"
	"time"

	"github.com/hashicorp/go-hclog"

	"github.com/hashicorp/consul/acl"
	"github.com/hashicorp/consul/agent/consul"
	"github.com/hashicorp/consul/agent/structs"
	"github.com/hashicorp/consul/internal/verifharness/hx"
)

const tickPerHour = 1000

type version struct {
	val          any // *structs.ACLToken / *structs.ACLRole / *structs.ACLPolicy, nil = absent
	fromClock    int
	toClock      int // -1 while current
	fromM, toM   int // moments (operation indexes); toM = -1 while current
	badStructure bool
}

type rpcSeq struct {
	*seq
	ttl     [3]int // token, policy, role TTL in hours; -1 = exactly zero
	downPol string
	clock   int // hours
	moment  int
	hist    map[string][]*version
	resAt   []int // moments of earlier resolutions
	lastBad int   // clock of the last moment the RPCs were failing; -1 = never
	// role / policy keys that a resolution asked for while the RPCs were failing: the code may have
	// written a negative entry for them (known finding cache:rpc:negative-entry-written-on-rpc-error)
	outageIDs   map[string]bool
	extraAbsent bool // views may also treat those keys as absent
}

// record keeps the harness's own copy of the value (never the object handed to the resolver)
func (s *rpcSeq) record(key string, val any) {
	switch x := val.(type) {
	case *structs.ACLToken:
		val = cpToken(x)
	case *structs.ACLRole:
		val = cpRole(x)
	case *structs.ACLPolicy:
		val = cpPolicy(x)
	}
	vs := s.hist[key]
	if len(vs) == 0 {
		vs = append(vs, &version{val: nil, fromClock: 0, toClock: -1, fromM: 0, toM: -1})
	}
	cur := vs[len(vs)-1]
	cur.toClock, cur.toM = s.clock, s.moment
	vs = append(vs, &version{val: val, fromClock: s.clock, toClock: -1, fromM: s.moment, toM: -1})
	s.hist[key] = vs
}

// candidates: the values an admissible view may use for the key.
func (s *rpcSeq) candidates(key string, ttl int, strict bool) []any {
	vs := s.hist[key]
	if len(vs) == 0 {
		return []any{nil}
	}
	_ = vs
	var out []any
	if s.extraAbsent && s.outageIDs[key] {
		out = append(out, nil)
	}
	for _, v := range vs {
		switch {
		case v.toClock == -1:
			out = append(out, v.val)
		case strict:
			if ttl >= 0 && v.toClock >= s.clock-ttl {
				out = append(out, v.val)
			}
		default:
			for _, m := range s.resAt {
				if v.fromM <= m && m < v.toM {
					out = append(out, v.val)
					break
				}
			}
		}
	}
	return out
}

func ttlDuration(t int) time.Duration {
	if t < 0 {
		return 0
	}
	return time.Duration(t)*time.Hour + 30*time.Minute
}
func ttlTicks(t int) int {
	if t < 0 {
		return 0
	}
	return t*tickPerHour + tickPerHour/2
}

// views enumerates the answers a fresh resolver gives on every admissible view (up to a cap).
func (s *rpcSeq) views(secret string, names []string, strict bool) (answers map[string]bool, complete bool) {
	answers = map[string]bool{}
	budget := 300
	eff := secret
	if eff == "" {
		eff = "anonymous"
	}
	evalView := func(tok *structs.ACLToken, roles map[string]*structs.ACLRole, pols map[string]*structs.ACLPolicy) {
		b := &backend{dc: s.dc, tokens: map[string]*structs.ACLToken{}, policies: map[string]*structs.ACLPolicy{}, roles: map[string]*structs.ACLRole{}}
		if tok != nil {
			b.tokens[eff] = cpToken(tok)
		}
		for k, v := range pols {
			b.policies[k] = cpPolicy(v)
		}
		for k, v := range roles {
			b.roles[k] = cpRole(v)
		}
		res, err := newResolver(b, s.dflt, false).ResolveToken(secret)
		answers[rpcAnswer(res.Authorizer, err, names)] = true
	}
	var chooseP func(tok *structs.ACLToken, roles map[string]*structs.ACLRole, ids []string, i int, pols map[string]*structs.ACLPolicy) bool
	chooseP = func(tok *structs.ACLToken, roles map[string]*structs.ACLRole, ids []string, i int, pols map[string]*structs.ACLPolicy) bool {
		if i == len(ids) {
			if budget--; budget < 0 {
				return false
			}
			cp := map[string]*structs.ACLPolicy{}
			for k, v := range pols {
				cp[k] = v
			}
			evalView(tok, roles, cp)
			return true
		}
		for _, c := range s.candidates("p:"+ids[i], s.ttl[1], strict) {
			if c == nil {
				delete(pols, ids[i])
			} else {
				pols[ids[i]] = c.(*structs.ACLPolicy)
			}
			if !chooseP(tok, roles, ids, i+1, pols) {
				return false
			}
		}
		delete(pols, ids[i])
		return true
	}
	var chooseR func(tok *structs.ACLToken, ids []string, i int, roles map[string]*structs.ACLRole) bool
	chooseR = func(tok *structs.ACLToken, ids []string, i int, roles map[string]*structs.ACLRole) bool {
		if i == len(ids) {
			pids := uniq(tok.PolicyIDs())
			cr := map[string]*structs.ACLRole{}
			for k, v := range roles {
				cr[k] = v
				for _, l := range v.Policies {
					pids = uniq(append(pids, l.ID))
				}
			}
			return chooseP(tok, cr, pids, 0, map[string]*structs.ACLPolicy{})
		}
		for _, c := range s.candidates("r:"+ids[i], s.ttl[2], strict) {
			if c == nil {
				delete(roles, ids[i])
			} else {
				roles[ids[i]] = c.(*structs.ACLRole)
			}
			if !chooseR(tok, ids, i+1, roles) {
				return false
			}
		}
		delete(roles, ids[i])
		return true
	}
	complete = true
	for _, c := range s.candidates("t:"+eff, s.ttl[0], strict) {
		if c == nil {
			evalView(nil, nil, nil)
			continue
		}
		tok := c.(*structs.ACLToken)
		if !chooseR(tok, uniq(tok.RoleIDs()), 0, map[string]*structs.ACLRole{}) {
			complete = false
			break
		}
	}
	return answers, complete
}

func uniq(in []string) []string {
	seen := map[string]bool{}
	var out []string
	for _, x := range in {
		if !seen[x] {
			seen[x] = true
			out = append(out, x)
		}
	}
	return out
}

func rpcAnswer(z acl.Authorizer, err error, names []string) string {
	if err != nil {
		switch {
		case acl.IsErrRootDenied(err):
			return "err:root"
		case acl.IsErrNotFound(err):
			return "err:notfound"
		case strings.Contains(err.Error(), "failed to parse"):
			return "err:compile"
		}
		return "err:other"
	}
	return "c=" + decide(z, names).String()
}

func (s *rpcSeq) advance(hours int) {
	s.clock += hours
	s.res.VerifC08Caches().VerifC08Age(time.Duration(hours) * time.Hour)
	s.line(fmt.Sprintf("tick %d", hours*tickPerHour), "ok")
	s.moment++
}

func (s *rpcSeq) rresolve(secret string) {
	names := s.names()
	s.line("tick 1", "ok") // the real time that passes between two operations
	op := fmt.Sprintf("rresolve %s %s", hx.EncS(secret), hx.EncSList(names))
	res, err := s.res.ResolveToken(secret)
	eff := secret
	if eff == "" {
		eff = "anonymous"
	}
	s.res.VerifC08Quiesce(eff)
	s.checkShared()
	out := rpcAnswer(res.Authorizer, err, names)
	s.line(op, out)
	s.run.Case(strings.Join(s.ops, "\n"), strings.HasPrefix(out, "c="))
	s.run.Tag("rpc:resolve:" + strings.SplitN(out, "=", 2)[0])

	if s.b.down {
		s.noteOutageIDs(eff)
	}
	strict := s.downPol != "async-cache" && !s.b.down
	if s.lastBad >= 0 {
		maxT := 0
		for _, t := range s.ttl {
			if t > maxT {
				maxT = t
			}
		}
		if s.clock-s.lastBad <= maxT {
			strict = false
		}
	}
	answers, complete := s.views(secret, names, strict)
	if s.b.down {
		// unreachable servers and nothing usable in the cache: the down policy answers
		var dz acl.Authorizer
		switch s.downPol {
		case "allow":
			dz = acl.AllowAll()
		case "deny":
			dz = acl.DenyAll()
		default:
			dz = staticOf(s.dflt)
		}
		answers["c="+decide(dz, names).String()] = true
	}
	switch {
	case !complete:
		s.run.Tag("rpc:monitor:skipped(too-many-views)")
	case answers[out]:
		if strict {
			s.run.Tag(fmt.Sprintf("rpc:monitor:within-ttl-window(views=%d)", min(len(answers), 4)))
		} else {
			s.run.Tag("rpc:monitor:some-past-state(outage-or-async)")
		}
	case strict:
		s.violate("cache:rpc:decision-outside-ttl-window", fmt.Sprintf(
			"token %q at clock %dh (TTLs token/policy/role %v h+30m, -1 = zero): answer %s is not the answer of a fresh resolver on any view of the token's own objects within their TTL windows (%d admissible answers)",
			secret, s.clock, s.ttl, out, len(answers)))
	default:
		// is the answer explained by negative entries written for objects that were asked for during
		// an outage? then it is the known mechanism, otherwise something new
		sig := "cache:rpc:decision-not-from-any-past-state"
		s.extraAbsent = true
		if again, ok := s.views(secret, names, false); ok && again[out] {
			sig = "cache:rpc:negative-entry-written-on-rpc-error"
		}
		s.extraAbsent = false
		s.violate(sig, fmt.Sprintf(
			"token %q at clock %dh: answer %s does not correspond to any value the servers held at an earlier resolution or hold now (%d admissible answers)",
			secret, s.clock, out, len(answers)))
	}
	s.resAt = append(s.resAt, s.moment)
	s.moment++
}

func (s *rpcSeq) rpcPutPolicy(id string, o genOpts) {
	s.putPolicy(id, o)
	s.record("p:"+id, s.b.policies[id])
	s.moment++
}

func runRpcSeq(run *hx.Run, r *hx.RNG) {
	downPol := hx.Pick(r, []string{"extend-cache", "extend-cache", "async-cache", "allow", "deny"})
	var ttl [3]int
	for i := range ttl {
		ttl[i] = hx.Pick(r, []int{-1, 0, 1, 2, 3})
	}
	if r.Chance(15) {
		ttl = [3]int{-1, -1, -1}
	}
	s := newRpcSeq(run, r, hx.Pick(r, []byte{'a', 'd'}), downPol, ttl, hx.Pick(r, []string{"dc1", "dc1", "dc2"}))
	s.narrow = r.Chance(35)
	s.b.cloneOut = r.Chance(60)
	if s.narrow {
		run.Tag("rpc:gen:narrow(shared roles)")
	}
	if s.b.cloneOut {
		run.Tag("rpc:replies:deep-copies")
	} else {
		run.Tag("rpc:replies:shared-objects")
	}
	s.script(r)
}

func newRpcSeq(run *hx.Run, r *hx.RNG, dflt byte, downPol string, ttl [3]int, dc string) *rpcSeq {
	base := &seq{run: run, r: r, kind: "rpc", dflt: dflt, dc: dc,
		docs: map[string]policy{}, modIdx: map[string]uint64{}, pr: newPristine()}
	s := &rpcSeq{seq: base, hist: map[string][]*version{}, lastBad: -1}
	s.b = &backend{dc: s.dc, client: true, tokens: map[string]*structs.ACLToken{}, policies: map[string]*structs.ACLPolicy{}, roles: map[string]*structs.ACLRole{}}
	s.downPol = downPol
	s.ttl = ttl
	dp := "deny"
	if s.dflt == 'a' {
		dp = "allow"
	}
	res, err := consul.NewACLResolver(&consul.ACLResolverConfig{
		Config: consul.ACLResolverSettings{
			ACLsEnabled: true, Datacenter: s.dc, NodeName: "verif-node",
			ACLTokenTTL: ttlDuration(s.ttl[0]), ACLPolicyTTL: ttlDuration(s.ttl[1]), ACLRoleTTL: ttlDuration(s.ttl[2]),
			ACLDownPolicy: s.downPol, ACLDefaultPolicy: dp,
		},
		Logger:      hclog.NewNullLogger(),
		CacheConfig: &structs.ACLCachesConfig{Identities: 256, Policies: 256, ParsedPolicies: 256, Authorizers: 256, Roles: 256},
		Backend:     s.b,
	})
	if err != nil {
		panic(err)
	}
	s.res = res
	dn := map[string]string{"allow": "a", "deny": "d", "extend-cache": "e", "async-cache": "y"}[s.downPol]
	s.line(fmt.Sprintf("rreset %c %s %s %d %d %d", s.dflt, hx.EncS(s.dc), dn, ttlTicks(s.ttl[0]), ttlTicks(s.ttl[1]), ttlTicks(s.ttl[2])), "ok")
	run.Tag("rpc:down-policy:" + s.downPol)
	run.Tag(fmt.Sprintf("rpc:ttl:token=%d policy=%d role=%d", s.ttl[0], s.ttl[1], s.ttl[2]))
	return s
}

func (s *rpcSeq) setNet(up bool) {
	s.b.down = !up
	if up {
		s.line("net 1", "ok")
		s.run.Tag("rpc:step:outage-ends")
	} else {
		s.line("net 0", "ok")
		s.run.Tag("rpc:step:outage-begins")
	}
	s.lastBad = s.clock
	s.moment++
}

func (s *rpcSeq) script(r *hx.RNG) {
	run := s.run
	o := genOpts{names: []string{"", "a", "ab", "web", "web-sidecar-proxy", "db"}, kinds: kinds, mixed: r.Chance(15)}
	for _, id := range polIDs[:2+r.Intn(3)] {
		s.rpcPutPolicy(id, o)
	}
	nro := r.Intn(4)
	if s.narrow {
		nro = 2 + r.Intn(2)
	}
	for _, id := range roleIDs[:nro] {
		s.putRole(id)
		s.record("r:"+id, s.b.roles[id])
		s.moment++
	}
	for _, sec := range secrets[:2+r.Intn(3)] {
		s.putToken(sec)
		s.record("t:"+sec, s.b.tokens[sec])
		s.moment++
	}
	steps := 8 + r.Intn(14)
	for i := 0; i < steps; i++ {
		c := r.Intn(100)
		switch {
		case c < 45:
			var have []string
			for _, x := range secrets {
				if _, ok := s.b.tokens[x]; ok {
					have = append(have, x)
				}
			}
			sec := hx.Pick(r, secrets)
			if len(have) > 0 && r.Chance(85) {
				sec = hx.Pick(r, have)
			}
			if r.Chance(3) {
				sec = "allow"
			}
			s.rresolve(sec)
		case c < 63:
			s.advance(1 + r.Intn(3))
			run.Tag("rpc:step:clock-advance")
		case c < 75:
			s.rpcPutPolicy(hx.Pick(r, polIDs), o)
			run.Tag("rpc:step:policy-update")
		case c < 80:
			id := hx.Pick(r, polIDs)
			s.delPolicy(id)
			s.line("delpol "+hx.EncS(id), "ok")
			s.record("p:"+id, nil)
			s.moment++
			run.Tag("rpc:step:policy-delete")
		case c < 86:
			sec := hx.Pick(r, secrets)
			if r.Chance(25) {
				s.delToken(sec)
				s.line("deltok "+hx.EncS(sec), "ok")
				s.record("t:"+sec, nil)
			} else {
				s.putToken(sec)
				s.record("t:"+sec, s.b.tokens[sec])
			}
			s.moment++
			run.Tag("rpc:step:token-update")
		case c < 92:
			id := hx.Pick(r, roleIDs)
			if r.Chance(25) {
				s.delRole(id)
				s.line("delrole "+hx.EncS(id), "ok")
				s.record("r:"+id, nil)
			} else {
				s.putRole(id)
				s.record("r:"+id, s.b.roles[id])
			}
			s.moment++
			run.Tag("rpc:step:role-update")
		case s.b.down && c < 96:
			s.setNet(true)
		case !s.b.down && c >= 96:
			s.setNet(false)
		default:
			s.advance(1)
		}
		if s.b.down {
			s.lastBad = s.clock
		}
	}
}

// outageWitness: a policy that exists all along is fetched during an RPC outage after its cache entry
// expired (down policy allow / deny, so nothing is extended); the servers come back; the token is
// resolved again within the policy TTL.
func outageWitness(run *hx.Run) {
	for _, dp := range []string{"deny", "allow", "extend-cache"} {
		s := newRpcSeq(run, run.RNG.Fork(0x0A7), 'a', dp, [3]int{5, 1, 1}, "dc1")
		p := policy{rules: []rule{{kind: 's', pfx: true, name: "", pol: "deny"}}}
		doc := &structs.ACLPolicy{ID: polIDs[0], Name: "p-0", Rules: render(p, 0)}
		doc.ModifyIndex = 1
		doc.SetHash(true)
		s.setPolicy(polIDs[0], doc)
		s.docs[polIDs[0]] = p
		s.line(fmt.Sprintf("pol %s 1 %d - %s", hx.EncS(polIDs[0]), contentTag(doc), encPolicy(p)), "ok")
		s.record("p:"+polIDs[0], doc)
		s.moment++
		t := &structs.ACLToken{AccessorID: "acc-out", SecretID: secrets[0], Policies: []structs.ACLTokenPolicyLink{{ID: polIDs[0]}}}
		s.setToken(secrets[0], t)
		s.line(fmt.Sprintf("tok %s %s - - -", hx.EncS(secrets[0]), hx.EncS(polIDs[0])), "ok")
		s.record("t:"+secrets[0], t)
		s.moment++
		s.rresolve(secrets[0])
		s.advance(2)
		s.setNet(false)
		s.rresolve(secrets[0])
		s.setNet(true)
		s.rresolve(secrets[0])
		s.advance(2)
		s.rresolve(secrets[0])
		run.Tag("rpc:witness:expired-policy-fetched-during-outage")
	}
}

// noteOutageIDs: every role and policy any version of the token (and of its roles) links.
func (s *rpcSeq) noteOutageIDs(eff string) {
	if s.outageIDs == nil {
		s.outageIDs = map[string]bool{}
	}
	for _, v := range s.hist["t:"+eff] {
		tok, ok := v.val.(*structs.ACLToken)
		if !ok || tok == nil {
			continue
		}
		for _, pid := range tok.PolicyIDs() {
			s.outageIDs["p:"+pid] = true
		}
		for _, rid := range tok.RoleIDs() {
			s.outageIDs["r:"+rid] = true
			for _, rv := range s.hist["r:"+rid] {
				if ro, ok := rv.val.(*structs.ACLRole); ok && ro != nil {
					for _, l := range ro.Policies {
						s.outageIDs["p:"+l.ID] = true
					}
				}
			}
		}
	}
}
