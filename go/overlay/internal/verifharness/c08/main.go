//go:build verif

// C08 harness: ACL decisions follow rule semantics and depend only on the token's own policies.
//
// Three streams, all against the REAL code:
//
//	auth     generated policy sets are rendered as rule source text (HCL, HCL with mixed-case level
//	         strings, JSON), parsed by acl.NewPolicyFromSource, compiled by
//	         acl.NewPolicyAuthorizer / NewPolicyAuthorizerWithDefaults, and every Authorizer method is
//	         asked for every name of a colliding name universe.
//	compile  sequences of structs.ACLPolicies.Compile calls through ONE shared structs.ACLCaches while
//	         policies are updated (ModifyIndex bumped), deleted and shared between the compiled sets.
//	resolve  sequences of consul.ACLResolver.ResolveToken calls through ONE resolver (shared caches)
//	         for tokens that share policies, roles, service and node identities, in server mode
//	         (everything resolves locally) and in client mode (identities, policies and roles are
//	         fetched by RPC with zero TTL, so policies arrive in Go map order).
//
// One line per operation goes to the Lean model (CV.Acl / CV.Engine.C08) together with the
// implementation's canonical answer: the vector of all decisions.
//
// Monitors (Go only, independent of the Lean model):
//
//	semantics:*   every decision equals an independent restatement of the documented semantics on the
//	              generated rule structure: exact rule wins, else longest matching prefix rule; across
//	              policies deny > write > list > read; no applicable rule => the default policy
//	merge:*       the decision vector is identical for every order of the policies; mixed-case level
//	              strings behave like their lower-case form (signatures merge:noncanonical-case:*)
//	prefix:*      KeyWritePrefix / ServiceReadPrefix / NodeReadAll / ServiceReadAll = Allow imply the
//	              per-name decision for every name of the universe under the prefix; ServiceWriteAny
//	              is implied by any allowed ServiceWrite
//	cache:*       a decision vector obtained through shared caches equals the one obtained with fresh
//	              caches and freshly parsed policies (Compile) / a fresh resolver (ResolveToken)
package main

import (
	"context"
	"encoding/json"
	"fmt"
	"hash/crc32"
	"sort"
	"strings"
	"time"

	"github.com/hashicorp/go-hclog"

	"github.com/hashicorp/consul/acl"
	"github.com/hashicorp/consul/agent/consul"
	"github.com/hashicorp/consul/agent/structs"
	"github.com/hashicorp/consul/internal/verifharness/hx"
)

// ---------------------------------------------------------------- generated structure

type rule struct {
	kind   byte // a k n s x e q
	pfx    bool
	name   string
	pol    string // the string as written in the source ("Deny", "write", "bogus", "")
	intent string
}

type policy struct {
	scalars [5]string // acl keyring operator mesh peering
	rules   []rule
}

var scalarKeys = [5]string{"acl", "keyring", "operator", "mesh", "peering"}

var kindWord = map[byte]string{'a': "agent", 'k': "key", 'n': "node", 's': "service", 'x': "session", 'e': "event", 'q': "query"}
var kinds = []byte{'a', 'k', 'n', 's', 'x', 'e', 'q'}

func lvlChar(s string) byte {
	switch strings.ToLower(s) {
	case "":
		return '-'
	case "deny":
		return 'd'
	case "read":
		return 'r'
	case "list":
		return 'l'
	case "write":
		return 'w'
	}
	return '!'
}

func encRule(r rule) string {
	p := byte('0')
	if r.pfx {
		p = '1'
	}
	return string([]byte{r.kind, p, lvlChar(r.pol), lvlChar(r.intent)}) + ";" + hx.EncS(r.name)
}

func encPolicy(p policy) string {
	var b strings.Builder
	for _, s := range p.scalars {
		b.WriteByte(lvlChar(s))
	}
	for _, r := range p.rules {
		b.WriteByte(',')
		b.WriteString(encRule(r))
	}
	return b.String()
}

func encPolicies(ps []policy) string {
	if len(ps) == 0 {
		return "-"
	}
	t := make([]string, len(ps))
	for i, p := range ps {
		t[i] = encPolicy(p)
	}
	return strings.Join(t, "|")
}

func (p policy) mixedCase() bool {
	for _, s := range p.scalars {
		if s != strings.ToLower(s) {
			return true
		}
	}
	for _, r := range p.rules {
		if r.pol != strings.ToLower(r.pol) || r.intent != strings.ToLower(r.intent) {
			return true
		}
	}
	return false
}

// ---------------------------------------------------------------- rendering to rule source text

func hclQuote(s string) string {
	var b strings.Builder
	b.WriteByte('"')
	for _, c := range s {
		switch {
		case c == '"':
			b.WriteString(`\"`)
		case c == '\\':
			b.WriteString(`\\`)
		case c < 0x20 || c == 0x7f:
			fmt.Fprintf(&b, `\u%04x`, c)
		default:
			b.WriteRune(c)
		}
	}
	b.WriteByte('"')
	return b.String()
}

func blockName(r rule) string {
	w := kindWord[r.kind]
	if r.pfx {
		w += "_prefix"
	}
	return w
}

// render produces the rule text of a policy: syntax 0/1 = HCL, 2 = JSON.
func render(p policy, syntax int) string {
	if syntax == 2 {
		m := map[string]any{}
		for i, s := range p.scalars {
			if s != "" {
				m[scalarKeys[i]] = s
			}
		}
		for _, r := range p.rules {
			body := map[string]string{}
			if r.pol != "" {
				body["policy"] = r.pol
			}
			if r.intent != "" {
				body["intentions"] = r.intent
			}
			bn := blockName(r)
			l, _ := m[bn].([]any)
			m[bn] = append(l, map[string]any{r.name: body})
		}
		b, err := json.Marshal(m)
		if err != nil {
			panic(err)
		}
		return string(b)
	}
	var b strings.Builder
	for i, s := range p.scalars {
		if s != "" {
			fmt.Fprintf(&b, "%s = %s\n", scalarKeys[i], hclQuote(s))
		}
	}
	for _, r := range p.rules {
		fmt.Fprintf(&b, "%s %s {", blockName(r), hclQuote(r.name))
		if r.pol != "" {
			fmt.Fprintf(&b, " policy = %s", hclQuote(r.pol))
		}
		if r.intent != "" {
			fmt.Fprintf(&b, "\n intentions = %s", hclQuote(r.intent))
		}
		b.WriteString(" }\n")
	}
	return b.String()
}

// ---------------------------------------------------------------- generators

var ruleNames = []string{"", "a", "ab", "abc", "web", "web-sidecar-proxy", "we", "*", "db", "a\x00", "é", "A"}
var queryNames = []string{"", "a", "ab", "abc", "abcd", "b", "web", "web-sidecar-proxy", "web2", "we", "w", "*", "db", "a\x00", "a\x00b", "é", "éa", "A", "x"}

var levels = []string{"deny", "read", "write"}

func mixCase(r *hx.RNG, s string) string {
	b := []byte(s)
	any := false
	for i := range b {
		if r.Bool() {
			b[i] = b[i] - 'a' + 'A'
			any = true
		}
	}
	if !any && len(b) > 0 {
		b[0] = b[0] - 'a' + 'A'
	}
	return string(b)
}

type genOpts struct {
	mixed     bool // mixed-case level strings
	malformed bool // one invalid level somewhere
	names     []string
	kinds     []byte
}

func genLevel(r *hx.RNG, kind byte, o genOpts) string {
	l := hx.Pick(r, levels)
	if kind == 'k' && r.Chance(25) {
		l = "list"
	}
	if o.mixed && r.Chance(50) {
		l = mixCase(r, l)
	}
	return l
}

func genRule(r *hx.RNG, o genOpts) rule {
	k := hx.Pick(r, o.kinds)
	if len(o.kinds) == len(kinds) { // all kinds allowed: favour the two richest ones
		if r.Chance(35) {
			k = 's'
		} else if r.Chance(25) {
			k = 'k'
		}
	}
	ru := rule{kind: k, pfx: r.Chance(45), name: hx.Pick(r, o.names), pol: genLevel(r, k, o)}
	if k == 's' && r.Chance(35) {
		ru.intent = genLevel(r, 's', o)
	}
	return ru
}

func genPolicy(r *hx.RNG, o genOpts, maxRules int) policy {
	var p policy
	for i := range p.scalars {
		if r.Chance(22) {
			p.scalars[i] = genLevel(r, 'a', o)
		}
	}
	n := r.Intn(maxRules + 1)
	for i := 0; i < n; i++ {
		p.rules = append(p.rules, genRule(r, o))
	}
	return p
}

// spoil makes one level string of the policy invalid; returns a tag describing how.
func spoil(r *hx.RNG, p *policy) string {
	switch r.Intn(5) {
	case 0:
		p.scalars[r.Intn(5)] = "list"
		return "scalar-list"
	case 1:
		p.scalars[r.Intn(5)] = "bogus"
		return "scalar-bogus"
	}
	if len(p.rules) == 0 {
		p.rules = append(p.rules, rule{kind: 'n', name: "a", pol: "read"})
	}
	i := r.Intn(len(p.rules))
	switch r.Intn(4) {
	case 0:
		p.rules[i].pol = "bogus"
		return "rule-bogus"
	case 1:
		p.rules[i].pol = ""
		return "rule-empty"
	case 2:
		if p.rules[i].kind == 'k' {
			p.rules[i].kind = 'n'
		}
		p.rules[i].pol = "list"
		return "rule-list-non-key"
	default:
		p.rules[i].kind = 's'
		p.rules[i].intent = "list"
		return "intentions-list"
	}
}

// ---------------------------------------------------------------- the decision vector

var peerCtx = &acl.AuthorizerContext{Peer: "p"}

func dch(d acl.EnforcementDecision) byte {
	switch d {
	case acl.Allow:
		return 'a'
	case acl.Deny:
		return 'd'
	case acl.Default:
		return 'u'
	}
	return '?'
}

// nameless / named method tables (the same order as namelessReqs / namedReqs in CV.Engine.C08)
var namelessNames = []string{"aclRead", "aclWrite", "snapshot", "intentionDefaultAllow", "keyringRead", "keyringWrite",
	"meshRead", "meshWrite", "peeringRead", "peeringWrite", "operatorRead", "operatorWrite", "nodeReadAll", "serviceReadAll",
	"serviceWriteAny", "nodeRead@peer", "serviceRead@peer"}

func nameless(z acl.Authorizer) []acl.EnforcementDecision {
	return []acl.EnforcementDecision{
		z.ACLRead(nil), z.ACLWrite(nil), z.Snapshot(nil), z.IntentionDefaultAllow(nil), //nolint:staticcheck
		z.KeyringRead(nil), z.KeyringWrite(nil), z.MeshRead(nil), z.MeshWrite(nil),
		z.PeeringRead(nil), z.PeeringWrite(nil), z.OperatorRead(nil), z.OperatorWrite(nil),
		z.NodeReadAll(nil), z.ServiceReadAll(nil), z.ServiceWriteAny(nil),
		z.NodeRead("x", peerCtx), z.ServiceRead("x", peerCtx),
	}
}

var namedNames = []string{"agentRead", "agentWrite", "eventRead", "eventWrite", "intentionRead", "intentionWrite",
	"tpRead", "tpWrite", "keyRead", "keyList", "keyWrite", "keyWritePrefix", "nodeRead", "nodeWrite",
	"queryRead", "queryWrite", "serviceRead", "serviceReadPrefix", "serviceWrite", "sessionRead", "sessionWrite"}

const (
	iAgentRead = iota
	iAgentWrite
	iEventRead
	iEventWrite
	iIntentionRead
	iIntentionWrite
	iTpRead
	iTpWrite
	iKeyRead
	iKeyList
	iKeyWrite
	iKeyWritePrefix
	iNodeRead
	iNodeWrite
	iQueryRead
	iQueryWrite
	iServiceRead
	iServiceReadPrefix
	iServiceWrite
	iSessionRead
	iSessionWrite
)

func named(z acl.Authorizer, n string) []acl.EnforcementDecision {
	return []acl.EnforcementDecision{
		z.AgentRead(n, nil), z.AgentWrite(n, nil), z.EventRead(n, nil), z.EventWrite(n, nil),
		z.IntentionRead(n, nil), z.IntentionWrite(n, nil), z.TrafficPermissionsRead(n, nil), z.TrafficPermissionsWrite(n, nil),
		z.KeyRead(n, nil), z.KeyList(n, nil), z.KeyWrite(n, nil), z.KeyWritePrefix(n, nil),
		z.NodeRead(n, nil), z.NodeWrite(n, nil), z.PreparedQueryRead(n, nil), z.PreparedQueryWrite(n, nil),
		z.ServiceRead(n, nil), z.ServiceReadPrefix(n, nil), z.ServiceWrite(n, nil),
		z.SessionRead(n, nil), z.SessionWrite(n, nil),
	}
}

type decisions struct {
	nameless []acl.EnforcementDecision
	named    [][]acl.EnforcementDecision // per name
}

func decide(z acl.Authorizer, names []string) decisions {
	d := decisions{nameless: nameless(z)}
	for _, n := range names {
		d.named = append(d.named, named(z, n))
	}
	return d
}

func (d decisions) String() string {
	var b strings.Builder
	for _, x := range d.nameless {
		b.WriteByte(dch(x))
	}
	for _, row := range d.named {
		b.WriteByte('/')
		for _, x := range row {
			b.WriteByte(dch(x))
		}
	}
	return b.String()
}

func (d decisions) nonDefault() bool {
	for _, x := range d.nameless {
		if x != acl.Default {
			return true
		}
	}
	for _, row := range d.named {
		for _, x := range row {
			if x != acl.Default {
				return true
			}
		}
	}
	return false
}

// ---------------------------------------------------------------- reference semantics (monitor)

func rank(s string) int {
	switch strings.ToLower(s) {
	case "deny":
		return 4
	case "write":
		return 3
	case "list":
		return 2
	case "read":
		return 1
	}
	return 0
}

var rankName = []string{"", "read", "list", "write", "deny"}

func refEnforce(level string, need string) acl.EnforcementDecision {
	switch level {
	case "":
		return acl.Default
	case "deny":
		return acl.Deny
	case "write":
		return acl.Allow
	case "list":
		if need == "read" || need == "list" {
			return acl.Allow
		}
		return acl.Deny
	case "read":
		if need == "read" {
			return acl.Allow
		}
		return acl.Deny
	}
	panic("level " + level)
}

// slot = the strongest level any policy gives to (kind, exact/prefix, name); for services also the
// strongest explicit intentions level.
type slotKey struct {
	kind byte
	pfx  bool
	name string
}
type slotVal struct {
	pol, intent int
	mixed       bool
}

type ref struct {
	slots   map[slotKey]*slotVal
	scalars [5]int
	mixedSc [5]bool
}

func newRef(ps []policy) *ref {
	rf := &ref{slots: map[slotKey]*slotVal{}}
	for _, p := range ps {
		for i, s := range p.scalars {
			if rank(s) > rf.scalars[i] {
				rf.scalars[i] = rank(s)
			}
			if s != strings.ToLower(s) {
				rf.mixedSc[i] = true
			}
		}
		for _, r := range p.rules {
			k := slotKey{r.kind, r.pfx, r.name}
			v := rf.slots[k]
			if v == nil {
				v = &slotVal{}
				rf.slots[k] = v
			}
			if rank(r.pol) > v.pol {
				v.pol = rank(r.pol)
			}
			if rank(r.intent) > v.intent {
				v.intent = rank(r.intent)
			}
			if r.pol != strings.ToLower(r.pol) || r.intent != strings.ToLower(r.intent) {
				v.mixed = true
			}
		}
	}
	return rf
}

// level of a slot as the tree of `what` ("pol" or "intent") holds it
func (v *slotVal) level(intention bool) string {
	if !intention {
		return rankName[v.pol]
	}
	if v.intent != 0 {
		return rankName[v.intent]
	}
	if v.pol == rank("read") || v.pol == rank("write") {
		return "read"
	}
	return "deny"
}

// effective: exact rule for the name, else the longest prefix rule that matches it.
func (rf *ref) effective(kind byte, intention bool, name string) (level string, mixed bool, why string) {
	if v, ok := rf.slots[slotKey{kind, false, name}]; ok {
		return v.level(intention), v.mixed, "exact"
	}
	best := -1
	var bv *slotVal
	for k, v := range rf.slots {
		if k.kind == kind && k.pfx && strings.HasPrefix(name, k.name) && len(k.name) > best {
			best, bv = len(k.name), v
		}
	}
	if bv != nil {
		return bv.level(intention), bv.mixed, "prefix"
	}
	return "", false, "none"
}

type refCheck struct {
	idx  int
	kind byte
	need string
	intn bool
}

var refChecks = []refCheck{
	{iAgentRead, 'a', "read", false}, {iAgentWrite, 'a', "write", false},
	{iEventRead, 'e', "read", false}, {iEventWrite, 'e', "write", false},
	{iIntentionRead, 's', "read", true}, {iIntentionWrite, 's', "write", true},
	{iKeyRead, 'k', "read", false}, {iKeyList, 'k', "list", false}, {iKeyWrite, 'k', "write", false},
	{iNodeRead, 'n', "read", false}, {iNodeWrite, 'n', "write", false},
	{iQueryRead, 'q', "read", false}, {iQueryWrite, 'q', "write", false},
	{iServiceRead, 's', "read", false}, {iServiceWrite, 's', "write", false},
	{iSessionRead, 'x', "read", false}, {iSessionWrite, 'x', "write", false},
}

type violation struct{ sig, desc string }

// checkSemantics compares the policy authorizer's own decisions (pd) and the chained ones (cd)
// with the documented semantics. dflt: 'a' allow, 'd' deny, 'm' manage.
func checkSemantics(ps []policy, names []string, pd, cd decisions, dflt byte) []violation {
	rf := newRef(ps)
	var out []violation
	add := func(sig, desc string) { out = append(out, violation{sig, desc}) }
	chainOf := func(d acl.EnforcementDecision, manage bool) acl.EnforcementDecision {
		if d != acl.Default {
			return d
		}
		if manage {
			if dflt == 'm' {
				return acl.Allow
			}
			return acl.Deny
		}
		if dflt == 'd' {
			return acl.Deny
		}
		return acl.Allow
	}
	// scalars
	sc := func(i int) string { return rankName[rf.scalars[i]] }
	opOr := func(i int) (string, bool) {
		if rf.scalars[i] != 0 {
			return sc(i), rf.mixedSc[i]
		}
		return sc(2), rf.mixedSc[i] || rf.mixedSc[2]
	}
	type sexp struct {
		idx    int
		level  string
		need   string
		mixed  bool
		manage bool
	}
	meshL, meshM := opOr(3)
	peerL, peerM := opOr(4)
	for _, e := range []sexp{
		{0, sc(0), "read", rf.mixedSc[0], true}, {1, sc(0), "write", rf.mixedSc[0], true}, {2, sc(0), "write", rf.mixedSc[0], true},
		{4, sc(1), "read", rf.mixedSc[1], false}, {5, sc(1), "write", rf.mixedSc[1], false},
		{6, meshL, "read", meshM, false}, {7, meshL, "write", meshM, false},
		{8, peerL, "read", peerM, false}, {9, peerL, "write", peerM, false},
		{10, sc(2), "read", rf.mixedSc[2], false}, {11, sc(2), "write", rf.mixedSc[2], false},
	} {
		want := refEnforce(e.level, e.need)
		if pd.nameless[e.idx] != want || cd.nameless[e.idx] != chainOf(want, e.manage) {
			sig := "semantics:scalar:" + namelessNames[e.idx]
			if e.mixed {
				sig = "merge:noncanonical-case:scalar-rule-dropped"
			}
			add(sig, fmt.Sprintf("%s: strongest level given by the policies is %q, so the policy authorizer must answer %v and the chain %v; got %v / %v",
				namelessNames[e.idx], e.level, want, chainOf(want, e.manage), pd.nameless[e.idx], cd.nameless[e.idx]))
		}
	}
	if pd.nameless[3] != acl.Default {
		add("semantics:intention-default-allow", "IntentionDefaultAllow must be left to the default policy")
	}
	// named
	for ni, n := range names {
		for _, c := range refChecks {
			if c.intn && n == "*" {
				continue
			}
			level, mixed, why := rf.effective(c.kind, c.intn, n)
			want := refEnforce(level, c.need)
			got, gotc := pd.named[ni][c.idx], cd.named[ni][c.idx]
			if got != want || gotc != chainOf(want, false) {
				sig := fmt.Sprintf("semantics:%s:%s", namedNames[c.idx], why)
				if mixed {
					sig = "merge:noncanonical-case:deny-not-overriding"
					if c.intn {
						sig = "merge:noncanonical-case:intention-default"
					}
				} else if why == "none" {
					sig = "semantics:default-policy-not-deciding:" + namedNames[c.idx]
				}
				add(sig, fmt.Sprintf("%s(%q): applicable rule (%s) has level %q => policy authorizer %v, chain %v; got %v / %v",
					namedNames[c.idx], n, why, level, want, chainOf(want, false), got, gotc))
			}
		}
		for _, idx := range []int{iTpRead, iTpWrite} {
			if pd.named[ni][idx] != acl.Default {
				add("semantics:traffic-permissions", "traffic permissions have no rules in CE")
			}
		}
	}
	// whole-tree questions
	any := func(kind byte, f func(k slotKey, v *slotVal) bool) bool {
		for k, v := range rf.slots {
			if k.kind == kind && f(k, v) {
				return true
			}
		}
		return false
	}
	readAll := func(kind byte) acl.EnforcementDecision {
		if any(kind, func(_ slotKey, v *slotVal) bool { return v.pol == rank("deny") }) {
			return acl.Deny
		}
		if _, ok := rf.slots[slotKey{kind, true, ""}]; ok {
			return acl.Allow
		}
		return acl.Default
	}
	writeAny := acl.Default
	if v, ok := rf.slots[slotKey{'s', true, ""}]; ok && v.pol != rank("write") {
		writeAny = acl.Deny
	}
	if any('s', func(_ slotKey, v *slotVal) bool { return v.pol == rank("write") }) {
		writeAny = acl.Allow
	}
	peerRead := func(all acl.EnforcementDecision) acl.EnforcementDecision {
		if writeAny == acl.Allow {
			return acl.Allow
		}
		return all
	}
	for _, e := range []struct {
		idx  int
		want acl.EnforcementDecision
	}{{12, readAll('n')}, {13, readAll('s')}, {14, writeAny}, {15, peerRead(readAll('n'))}, {16, peerRead(readAll('s'))}} {
		if pd.nameless[e.idx] != e.want || cd.nameless[e.idx] != chainOf(e.want, false) {
			add("semantics:whole-tree:"+namelessNames[e.idx], fmt.Sprintf("%s: expected %v (chain %v), got %v / %v",
				namelessNames[e.idx], e.want, chainOf(e.want, false), pd.nameless[e.idx], cd.nameless[e.idx]))
		}
	}
	return out
}

// checkEnforce: acl.Enforce (resource / access-string dispatch) must agree with the direct method.
func checkEnforce(z acl.Authorizer, n string, row []acl.EnforcementDecision, nl []acl.EnforcementDecision) []violation {
	type e struct {
		rsc    acl.Resource
		access string
		want   acl.EnforcementDecision
	}
	var out []violation
	for _, c := range []e{
		{acl.ResourceACL, "read", nl[0]}, {acl.ResourceACL, "Write", nl[1]},
		{acl.ResourceAgent, "read", row[iAgentRead]}, {acl.ResourceAgent, "write", row[iAgentWrite]},
		{acl.ResourceEvent, "READ", row[iEventRead]}, {acl.ResourceEvent, "write", row[iEventWrite]},
		{acl.ResourceIntention, "read", row[iIntentionRead]}, {acl.ResourceIntention, "write", row[iIntentionWrite]},
		{acl.ResourceKey, "read", row[iKeyRead]}, {acl.ResourceKey, "list", row[iKeyList]}, {acl.ResourceKey, "write", row[iKeyWrite]},
		{acl.ResourceKey, "write-prefix", row[iKeyWritePrefix]},
		{acl.ResourceKeyring, "read", nl[4]}, {acl.ResourceKeyring, "write", nl[5]},
		{acl.ResourceMesh, "read", nl[6]}, {acl.ResourceMesh, "write", nl[7]},
		{acl.ResourcePeering, "read", nl[8]}, {acl.ResourcePeering, "write", nl[9]},
		{acl.ResourceOperator, "read", nl[10]}, {acl.ResourceOperator, "write", nl[11]},
		{acl.ResourceNode, "read", row[iNodeRead]}, {acl.ResourceNode, "write", row[iNodeWrite]},
		{acl.ResourceQuery, "read", row[iQueryRead]}, {acl.ResourceQuery, "write", row[iQueryWrite]},
		{acl.ResourceService, "read", row[iServiceRead]}, {acl.ResourceService, "write", row[iServiceWrite]},
		{acl.ResourceSession, "read", row[iSessionRead]}, {acl.ResourceSession, "write", row[iSessionWrite]},
	} {
		got, err := acl.Enforce(z, c.rsc, n, c.access, nil)
		if err != nil || got != c.want {
			out = append(out, violation{"semantics:enforce-dispatch:" + string(c.rsc), fmt.Sprintf("Enforce(%s, %q, %s) = %v, %v; the method answers %v", c.rsc, n, c.access, got, err, c.want)})
		}
	}
	if _, err := acl.Enforce(z, acl.ResourceService, n, "list", nil); err == nil {
		out = append(out, violation{"semantics:enforce-dispatch:invalid-access-accepted", "Enforce(service, list) did not fail"})
	}
	return out
}

// checkPrefixQueries: the prefix/all answers must be sound with respect to the per-name answers.
func checkPrefixQueries(names []string, cd decisions) []violation {
	var out []violation
	for pi, p := range names {
		for ni, n := range names {
			if !strings.HasPrefix(n, p) {
				continue
			}
			if cd.named[pi][iKeyWritePrefix] == acl.Allow && cd.named[ni][iKeyWrite] != acl.Allow {
				out = append(out, violation{"prefix:key-write-prefix-unsound", fmt.Sprintf("KeyWritePrefix(%q)=Allow but KeyWrite(%q)=%v", p, n, cd.named[ni][iKeyWrite])})
			}
			if cd.named[pi][iServiceReadPrefix] == acl.Allow && cd.named[ni][iServiceRead] != acl.Allow {
				out = append(out, violation{"prefix:service-read-prefix-unsound", fmt.Sprintf("ServiceReadPrefix(%q)=Allow but ServiceRead(%q)=%v", p, n, cd.named[ni][iServiceRead])})
			}
		}
	}
	for ni, n := range names {
		if cd.nameless[12] == acl.Allow && cd.named[ni][iNodeRead] != acl.Allow {
			out = append(out, violation{"prefix:node-read-all-unsound", fmt.Sprintf("NodeReadAll=Allow but NodeRead(%q)=%v", n, cd.named[ni][iNodeRead])})
		}
		if cd.nameless[13] == acl.Allow && cd.named[ni][iServiceRead] != acl.Allow {
			out = append(out, violation{"prefix:service-read-all-unsound", fmt.Sprintf("ServiceReadAll=Allow but ServiceRead(%q)=%v", n, cd.named[ni][iServiceRead])})
		}
		if cd.named[ni][iServiceWrite] == acl.Allow && cd.nameless[14] != acl.Allow {
			out = append(out, violation{"prefix:service-write-any-incomplete", fmt.Sprintf("ServiceWrite(%q)=Allow but ServiceWriteAny=%v", n, cd.nameless[14])})
		}
	}
	return out
}

// ---------------------------------------------------------------- stream 1: auth

func staticOf(c byte) acl.Authorizer {
	switch c {
	case 'a':
		return acl.AllowAll()
	case 'm':
		return acl.ManageAll()
	}
	return acl.DenyAll()
}

func parseAll(ps []policy, syntax []int) ([]*acl.Policy, error) {
	var out []*acl.Policy
	for i, p := range ps {
		pp, err := acl.NewPolicyFromSource(render(p, syntax[i]), nil, nil)
		if err != nil {
			return nil, err
		}
		out = append(out, pp)
	}
	return out, nil
}

func pickNames(r *hx.RNG, ps []policy, n int) []string {
	seen := map[string]bool{}
	var out []string
	addN := func(s string) {
		if !seen[s] {
			seen[s] = true
			out = append(out, s)
		}
	}
	// names that occur in rules (and one-byte extensions / truncations of them) first
	var occ []string
	for _, p := range ps {
		for _, ru := range p.rules {
			occ = append(occ, ru.name)
		}
	}
	hx.Shuffle(r, occ)
	for _, s := range occ {
		if len(out) >= n/2 {
			break
		}
		addN(s)
		if r.Chance(40) {
			addN(s + "z")
		}
	}
	for len(out) < n {
		addN(hx.Pick(r, queryNames))
	}
	return out
}

func authCase(run *hx.Run, r *hx.RNG, exhaustive *[]policy) {
	var ps []policy
	o := genOpts{names: ruleNames, kinds: kinds}
	mode := r.Intn(100)
	switch {
	case exhaustive != nil:
		run.Tag("auth:gen:exhaustive-small-scope")
	case mode < 20:
		o.mixed = true
		run.Tag("auth:gen:mixed-case")
	case mode < 30:
		o.malformed = true
		run.Tag("auth:gen:malformed")
	case mode < 50:
		// narrow universe: one kind, three names => many slot collisions and prefix chains
		o.names = []string{"", "a", "ab"}
		o.kinds = []byte{hx.Pick(r, []byte{'s', 'k', 'n'})}
		run.Tag("auth:gen:narrow")
	default:
		// all names, but only two to four rule kinds, so that rules of several policies meet
		ks := append([]byte(nil), kinds...)
		hx.Shuffle(r, ks)
		o.kinds = ks[:2+r.Intn(3)]
		run.Tag("auth:gen:wide")
	}
	if exhaustive != nil {
		ps = *exhaustive
	} else {
		np := r.Intn(5)
		for i := 0; i < np; i++ {
			ps = append(ps, genPolicy(r, o, 6))
		}
		if o.malformed {
			if len(ps) == 0 {
				ps = append(ps, policy{})
			}
			run.Tag("auth:malformed:" + spoil(r, &ps[r.Intn(len(ps))]))
		}
	}
	syntax := make([]int, len(ps))
	for i := range syntax {
		if r.Chance(25) {
			syntax[i] = 2
			run.Tag("auth:syntax:json")
		} else {
			run.Tag("auth:syntax:hcl")
		}
	}
	dflt := hx.Pick(r, []byte{'a', 'd', 'd', 'm'})
	names := pickNames(r, ps, 6+r.Intn(5))
	op := fmt.Sprintf("auth %c %s %s", dflt, encPolicies(ps), hx.EncSList(names))
	run.Tag(fmt.Sprintf("auth:policies:%d", len(ps)))
	run.Tag(fmt.Sprintf("auth:default:%c", dflt))

	parsed, err := parseAll(ps, syntax)
	if err != nil {
		run.Line(op, "err:parse")
		run.Tag("auth:result:parse-error")
		run.Case(op, false)
		if !o.malformed {
			run.Violate("parse:valid-policy-rejected", fmt.Sprintf("a well-formed policy was rejected: %v", err), []string{op})
		}
		return
	}
	if o.malformed {
		run.Violate("parse:invalid-policy-accepted", "a policy with an invalid level string was accepted", []string{op})
	}
	pz, err1 := acl.NewPolicyAuthorizer(parsed, nil)
	cz, err2 := acl.NewPolicyAuthorizerWithDefaults(staticOf(dflt), parsed, nil)
	if err1 != nil || err2 != nil {
		run.Line(op, "err:load")
		run.Case(op, false)
		return
	}
	pd, cd := decide(pz, names), decide(cz, names)
	run.Line(op, fmt.Sprintf("p=%s c=%s", pd, cd))
	run.Case(op, pd.nonDefault())
	run.Sample(map[string]string{"op": op, "impl": "p=" + pd.String()})
	tagShapes(run, ps, names, pd)

	var vs []violation
	vs = append(vs, checkSemantics(ps, names, pd, cd, dflt)...)
	vs = append(vs, checkPrefixQueries(names, cd)...)
	if ei := r.Intn(len(names)); true {
		vs = append(vs, checkEnforce(cz, names[ei], cd.named[ei], cd.nameless)...)
		vs = append(vs, checkAllowAuthorizer(cz, names[ei])...)
		vs = append(vs, checkAllowAuthorizer(pz, names[ei])...)
	}
	// order independence: every rotation / a shuffle of the policy list, and the rules inside a policy reversed
	mixed := false
	for _, p := range ps {
		mixed = mixed || p.mixedCase()
	}
	for trial := 0; trial < 3 && len(ps) > 1; trial++ {
		perm := r.Fork(uint64(trial)).Intn(1 << 30)
		idx := make([]int, len(ps))
		for i := range idx {
			idx[i] = i
		}
		hx.Shuffle(hx.NewRNG(uint64(perm)), idx)
		if trial == 0 { // reverse: the cheapest witness of order dependence
			for i := range idx {
				idx[i] = len(ps) - 1 - i
			}
		}
		var pp []*acl.Policy
		for _, i := range idx {
			// parse again: the merger must not depend on (or alter) shared parsed policies
			q, err := acl.NewPolicyFromSource(render(ps[i], syntax[i]), nil, nil)
			if err != nil {
				panic(err)
			}
			pp = append(pp, q)
		}
		z2, err := acl.NewPolicyAuthorizer(pp, nil)
		if err != nil {
			panic(err)
		}
		if d2 := decide(z2, names); d2.String() != pd.String() {
			sig := "merge:order-dependent"
			if mixed {
				sig = "merge:noncanonical-case:order-dependent"
			}
			vs = append(vs, violation{sig, fmt.Sprintf("policy order %v gives %s, original order gives %s", idx, d2, pd)})
		}
	}
	// the same parsed policies compiled a second time must give the same answers (no mutation of inputs)
	if z3, err := acl.NewPolicyAuthorizer(parsed, nil); err == nil {
		if d3 := decide(z3, names); d3.String() != pd.String() {
			vs = append(vs, violation{"cache:parsed-policy-mutated-by-merge", fmt.Sprintf("compiling the same parsed policies twice: %s then %s", pd, d3)})
		}
	}
	for i, p := range parsed {
		if len(ps) > 1 {
			if z1, err := acl.NewPolicyAuthorizer([]*acl.Policy{p}, nil); err == nil {
				fresh, _ := acl.NewPolicyFromSource(render(ps[i], syntax[i]), nil, nil)
				zf, _ := acl.NewPolicyAuthorizer([]*acl.Policy{fresh}, nil)
				if a, b := decide(z1, names).String(), decide(zf, names).String(); a != b {
					vs = append(vs, violation{"cache:parsed-policy-mutated-by-merge", fmt.Sprintf("policy %d alone after having been merged with others: %s, freshly parsed: %s", i, a, b)})
				}
			}
		}
	}
	// a violation is attributed to mixed-case level strings only when the lower-cased form of the same
	// policies does not show it (the mixed-case policies must behave exactly like their lower-case form)
	caseRelated := false
	if mixed {
		lower := make([]policy, len(ps))
		for i, p := range ps {
			lower[i] = lowerCase(p)
		}
		if lp, err := parseAll(lower, syntax); err == nil {
			if lz, err := acl.NewPolicyAuthorizer(lp, nil); err == nil {
				if ld := decide(lz, names); ld.String() != pd.String() {
					caseRelated = true
					vs = append(vs, violation{"merge:noncanonical-case:differs-from-lower-case", fmt.Sprintf("mixed-case policies give %s, their lower-case form gives %s", pd, ld)})
				}
			}
		}
	}
	seen := map[string]bool{}
	for _, v := range vs {
		sig := v.sig
		if strings.HasPrefix(sig, "merge:noncanonical-case:") && !caseRelated {
			sig = "semantics:" + strings.TrimPrefix(sig, "merge:noncanonical-case:")
		}
		if !seen[sig] {
			seen[sig] = true
			run.Violate(sig, v.desc, []string{op})
		}
	}
}

// plainSig: in the sequence streams a semantics violation is not attributed to letter case (the auth
// stream does that, by comparison with the lower-cased policies).
func plainSig(sig string) string {
	if strings.HasPrefix(sig, "merge:noncanonical-case:") {
		return "semantics:" + strings.TrimPrefix(sig, "merge:noncanonical-case:")
	}
	return sig
}

func lowerCase(p policy) policy {
	q := policy{}
	for i, s := range p.scalars {
		q.scalars[i] = strings.ToLower(s)
	}
	for _, r := range p.rules {
		r.pol, r.intent = strings.ToLower(r.pol), strings.ToLower(r.intent)
		q.rules = append(q.rules, r)
	}
	return q
}

func tagShapes(run *hx.Run, ps []policy, names []string, pd decisions) {
	slots := map[slotKey]int{}
	exactAndPrefix := false
	for _, p := range ps {
		for _, ru := range p.rules {
			slots[slotKey{ru.kind, ru.pfx, ru.name}]++
			run.Tag("auth:rule-kind:" + kindWord[ru.kind])
			if ru.intent != "" {
				run.Tag("auth:rule:explicit-intentions")
			}
		}
	}
	dup := false
	for k, n := range slots {
		if n > 1 {
			dup = true
		}
		if _, ok := slots[slotKey{k.kind, !k.pfx, k.name}]; ok {
			exactAndPrefix = true
		}
	}
	if dup {
		run.Tag("auth:shape:same-slot-in-several-rules")
	}
	if exactAndPrefix {
		run.Tag("auth:shape:exact-and-prefix-same-name")
	}
	rf := newRef(ps)
	present := map[byte]bool{}
	for k := range slots {
		present[k.kind] = true
	}
	for _, n := range names {
		for _, k := range kinds {
			if present[k] { // only rule kinds that occur at all in this case
				_, _, why := rf.effective(k, false, n)
				run.Tag("auth:lookup:" + why)
			}
		}
	}
	for _, row := range pd.named {
		for _, x := range row {
			run.Tag("auth:decision:" + x.String())
		}
	}
}

// exhaustive small scope (thorough): all pairs of policies with one rule each over 3 names x 4 levels x
// exact/prefix (key rules, the only kind with `list`), complete; pairs involving two-rule policies sampled.
func exhaustiveAuth(run *hx.Run) {
	names := []string{"", "a", "ab"}
	var rules []rule
	for _, n := range names {
		for _, pf := range []bool{false, true} {
			for _, l := range []string{"deny", "read", "list", "write"} {
				rules = append(rules, rule{kind: 'k', pfx: pf, name: n, pol: l})
			}
		}
	}
	var pols []policy
	pols = append(pols, policy{})
	for i := range rules {
		pols = append(pols, policy{rules: []rule{rules[i]}})
	}
	single := len(pols)
	for i := range rules {
		for j := i + 1; j < len(rules); j++ {
			pols = append(pols, policy{rules: []rule{rules[i], rules[j]}})
		}
	}
	r := run.RNG.Fork(0xE8)
	n, complete := 0, 0
	for i := range pols {
		for j := i; j < len(pols); j++ {
			if i >= single || j >= single {
				if (i*31+j)%9 != 0 {
					continue
				}
			} else {
				complete++
			}
			ps := []policy{pols[i], pols[j]}
			authCase(run, r.Fork(uint64(n)), &ps)
			n++
		}
	}
	run.Extra["exhaustive_auth_cases"] = n
	run.Extra["exhaustive_complete_scope"] = fmt.Sprintf("all %d unordered pairs of policies with at most one key rule each (3 names x exact/prefix x 4 levels)", complete)
}

// ---------------------------------------------------------------- streams 2 and 3: shared caches

type backend struct {
	dc       string
	client   bool // resolve through RPC instead of locally
	down     bool // the RPCs fail (servers unreachable)
	tokens   map[string]*structs.ACLToken
	policies map[string]*structs.ACLPolicy
	roles    map[string]*structs.ACLRole
	// cloneOut: every RPC reply carries deep copies (what a decoded reply is); the copies are remembered
	// in handed, so that a later mutation of an object sitting in one of the resolver's caches is seen
	cloneOut bool
	handed   []handedObj
}

func (b *backend) ACLDatacenter() string { return b.dc }
func (b *backend) ResolveIdentityFromToken(token string) (bool, structs.ACLIdentity, error) {
	if b.client {
		return false, nil, nil
	}
	if t, ok := b.tokens[token]; ok {
		return true, t, nil
	}
	return true, nil, acl.ErrNotFound
}
func (b *backend) ResolvePolicyFromID(id string) (bool, *structs.ACLPolicy, error) {
	if b.client {
		return false, nil, nil
	}
	if p, ok := b.policies[id]; ok {
		return true, p, nil
	}
	return true, nil, acl.ErrNotFound
}
func (b *backend) ResolveRoleFromID(id string) (bool, *structs.ACLRole, error) {
	if b.client {
		return false, nil, nil
	}
	if p, ok := b.roles[id]; ok {
		return true, p, nil
	}
	return true, nil, acl.ErrNotFound
}
func (b *backend) IsServerManagementToken(string) bool { return false }
func (b *backend) RPC(_ context.Context, method string, args interface{}, reply interface{}) error {
	if b.down {
		return fmt.Errorf("rpc error: servers unreachable")
	}
	switch method {
	case "ACL.TokenRead":
		req, out := args.(*structs.ACLTokenGetRequest), reply.(*structs.ACLTokenResponse)
		out.SourceDatacenter = b.dc
		if t, ok := b.tokens[req.TokenID]; ok {
			out.Token = b.outToken(t)
		}
		return nil
	case "ACL.PolicyResolve":
		req, out := args.(*structs.ACLPolicyBatchGetRequest), reply.(*structs.ACLPolicyBatchResponse)
		for _, id := range req.PolicyIDs {
			if p, ok := b.policies[id]; ok {
				out.Policies = append(out.Policies, b.outPolicy(p))
			}
		}
		return nil
	case "ACL.RoleResolve":
		req, out := args.(*structs.ACLRoleBatchGetRequest), reply.(*structs.ACLRoleBatchResponse)
		for _, id := range req.RoleIDs {
			if p, ok := b.roles[id]; ok {
				out.Roles = append(out.Roles, b.outRole(p))
			}
		}
		return nil
	}
	return fmt.Errorf("unexpected RPC %s", method)
}

func newResolver(b *backend, dflt byte, small bool) *consul.ACLResolver {
	size := 256
	if small {
		size = 2
	}
	dp := "deny"
	if dflt == 'a' {
		dp = "allow"
	}
	r, err := consul.NewACLResolver(&consul.ACLResolverConfig{
		Config: consul.ACLResolverSettings{
			ACLsEnabled: true, Datacenter: b.dc, NodeName: "verif-node",
			ACLPolicyTTL: 0, ACLTokenTTL: 0, ACLRoleTTL: 0,
			ACLDownPolicy: "extend-cache", ACLDefaultPolicy: dp,
		},
		Logger:      hclog.NewNullLogger(),
		CacheConfig: &structs.ACLCachesConfig{Identities: size, Policies: size, ParsedPolicies: size, Authorizers: size, Roles: size},
		Backend:     b,
	})
	if err != nil {
		panic(err)
	}
	return r
}

var polIDs = []string{
	"11111111-0000-0000-0000-000000000001", "11111111-0000-0000-0000-000000000002",
	"11111111-0000-0000-0000-00000000000a", "a1111111-0000-0000-0000-000000000001",
	"0a111111-0000-0000-0000-000000000001",
}
var roleIDs = []string{"22222222-0000-0000-0000-000000000001", "22222222-0000-0000-0000-000000000002", "22222222-0000-0000-0000-00000000000a"}
var secrets = []string{"5ec00000-0000-0000-0000-000000000001", "5ec00000-0000-0000-0000-000000000002",
	"5ec00000-0000-0000-0000-000000000003", "5ec00000-0000-0000-0000-000000000004", "anonymous"}
var dcsPool = [][]string{nil, nil, nil, {"dc1"}, {"dc2"}, {"dc1", "dc2"}, {"dc2", "dc1", "dc1"}}
var svcNames = []string{"web", "db", "a"}
var nodeNames = []string{"a", "ab", "web"}

type seq struct {
	run    *hx.Run
	r      *hx.RNG
	ops    []string
	dflt   byte
	dc     string
	small  bool
	b      *backend
	res    *consul.ACLResolver
	caches *structs.ACLCaches
	docs   map[string]policy // structure of the stored policies
	badDoc map[string]bool   // policies whose rule text does not validate
	modIdx map[string]uint64
	kind   string
	// RPC mode: ids that were missing when a token referring to them was resolved, and whether
	// one of them has been created since (the history shape of the sticky negative cache entry)
	negSeen      map[string]bool
	negRecreated string
	// object sharing (share.go)
	pr           *pristine
	narrow       bool // few identity names, every role carries identities, tokens link several roles
}

func (s *seq) line(op, out string) {
	s.ops = append(s.ops, op)
	s.run.Line(op, out)
}

func (s *seq) violate(sig, desc string) {
	s.run.Violate(sig, desc, append([]string(nil), s.ops...))
}

func encDCs(dcs []string) string { return hx.EncSList(dcs) }

func contentTag(doc *structs.ACLPolicy) uint32 {
	return crc32.ChecksumIEEE([]byte(doc.Name + "\x00" + doc.Description + "\x00" + doc.Rules))
}

func (s *seq) putPolicy(id string, o genOpts) {
	p := genPolicy(s.r, o, 4)
	bad := false
	if s.r.Chance(4) {
		s.run.Tag(s.kind + ":policy:malformed:" + spoil(s.r, &p))
		bad = true
	}
	// the aliasing witness shape: service rules for the same few names in most policies
	if s.r.Chance(60) {
		p.rules = append(p.rules, rule{kind: 's', pfx: s.r.Chance(30), name: hx.Pick(s.r, []string{"web", "a", ""}), pol: genLevel(s.r, 's', o)})
	}
	tag := s.r.Intn(3)
	dcs := hx.Pick(s.r, dcsPool)
	s.modIdx[id] += 1 + uint64(s.r.Intn(2))
	doc := &structs.ACLPolicy{ID: id, Name: fmt.Sprintf("p-%d", tag), Rules: render(p, tag), Datacenters: dcs}
	doc.ModifyIndex = s.modIdx[id]
	doc.CreateIndex = 1
	doc.SetHash(true)
	s.setPolicy(id, doc)
	s.docs[id] = p
	if s.badDoc == nil {
		s.badDoc = map[string]bool{}
	}
	s.badDoc[id] = bad
	if s.negSeen[id] {
		s.negRecreated = "policy"
	}
	// the model keys the parsed-policy cache by (content tag, datacenters, rule structure): the tag stands
	// for what the content hash covers besides the structure (policy name = syntax, letter case of the text)
	s.line(fmt.Sprintf("pol %s %d %d %s %s", hx.EncS(id), doc.ModifyIndex, contentTag(doc), encDCs(dcs), encPolicy(p)), "ok")
	if p.mixedCase() {
		s.run.Tag(s.kind + ":policy:mixed-case")
	}
	s.run.Tag(fmt.Sprintf("%s:policy:syntax-%d", s.kind, tag))
}

func (s *seq) genSvcs() (structs.ACLServiceIdentities, string) {
	var out structs.ACLServiceIdentities
	var enc []string
	n := s.r.Intn(3)
	if s.narrow && n == 0 {
		n = 1
	}
	for ; n > 0 && (s.narrow || s.r.Chance(60)); n-- {
		id := &structs.ACLServiceIdentity{ServiceName: hx.Pick(s.r, s.svcPool()), Datacenters: cpStrings(hx.Pick(s.r, dcsPool))}
		out = append(out, id)
		t := make([]string, len(id.Datacenters))
		for i, d := range id.Datacenters {
			t[i] = hx.EncS(d)
		}
		enc = append(enc, hx.EncS(id.ServiceName)+";"+strings.Join(t, "+"))
	}
	return out, hx.EncList(enc)
}

func (s *seq) genNodes() (structs.ACLNodeIdentities, string) {
	var out structs.ACLNodeIdentities
	var enc []string
	for n := s.r.Intn(3); n > 0 && s.r.Chance(40); n-- {
		id := &structs.ACLNodeIdentity{NodeName: hx.Pick(s.r, nodeNames), Datacenter: hx.Pick(s.r, []string{"dc1", "dc1", "dc2"})}
		out = append(out, id)
		enc = append(enc, hx.EncS(id.NodeName)+";"+hx.EncS(id.Datacenter))
	}
	return out, hx.EncList(enc)
}

func (s *seq) pickIDs(pool []string, max int) []string {
	var out []string
	for n := s.r.Intn(max + 1); n > 0; n-- {
		out = append(out, hx.Pick(s.r, pool))
	}
	return out
}

func (s *seq) putRole(id string) {
	pids := s.pickIDs(polIDs, 2)
	svcs, es := s.genSvcs()
	nodes, en := s.genNodes()
	tps, et := s.genTps(25)
	ro := &structs.ACLRole{ID: id, Name: "r-" + id[len(id)-1:], ServiceIdentities: svcs, NodeIdentities: nodes, TemplatedPolicies: tps}
	for _, p := range pids {
		ro.Policies = append(ro.Policies, structs.ACLRolePolicyLink{ID: p})
	}
	s.setRole(id, ro)
	if s.negSeen[id] {
		s.negRecreated = "role"
	}
	s.line(fmt.Sprintf("role %s %s %s %s %s", hx.EncS(id), hx.EncSList(pids), es, en, et), "ok")
}

func (s *seq) putToken(secret string) {
	pids := s.pickIDs(polIDs, 3)
	// distinct role links (ACL.TokenSet de-duplicates links), in any order
	var rids []string
	nr := hx.Pick(s.r, []int{0, 0, 1, 1, 1, 2, 2, 3})
	if s.narrow {
		nr = hx.Pick(s.r, []int{1, 1, 2, 2, 2, 3})
		pids = s.pickIDs(polIDs, 1)
	}
	perm := append([]string(nil), roleIDs...)
	hx.Shuffle(s.r, perm)
	rids = append(rids, perm[:nr]...)
	var svcs structs.ACLServiceIdentities
	var nodes structs.ACLNodeIdentities
	es, en := "-", "-"
	if s.r.Chance(35) && !(s.narrow && s.r.Chance(60)) {
		svcs, es = s.genSvcs()
	}
	if s.r.Chance(25) {
		nodes, en = s.genNodes()
	}
	tps, et := s.genTps(15)
	t := &structs.ACLToken{AccessorID: "acc" + secret[3:], SecretID: secret, ServiceIdentities: svcs, NodeIdentities: nodes, TemplatedPolicies: tps}
	for _, p := range pids {
		t.Policies = append(t.Policies, structs.ACLTokenPolicyLink{ID: p})
	}
	for _, p := range rids {
		t.Roles = append(t.Roles, structs.ACLTokenRoleLink{ID: p})
	}
	s.setToken(secret, t)
	s.line(fmt.Sprintf("tok %s %s %s %s %s %s", hx.EncS(secret), hx.EncSList(pids), hx.EncSList(rids), es, en, et), "ok")
	if len(rids) > 1 {
		s.run.Tag(s.kind + ":token:several-roles")
	}
	switch {
	case len(pids)+len(rids)+len(svcs)+len(nodes)+len(tps) == 0:
		s.run.Tag(s.kind + ":token:no-links")
	default:
		if len(rids) > 0 {
			s.run.Tag(s.kind + ":token:with-role")
		}
		if len(svcs) > 0 {
			s.run.Tag(s.kind + ":token:service-identity")
		}
		if len(nodes) > 0 {
			s.run.Tag(s.kind + ":token:node-identity")
		}
	}
}

func (s *seq) names() []string {
	n := []string{"web", "a"}
	for len(n) < 5 {
		x := hx.Pick(s.r, queryNames)
		dup := false
		for _, y := range n {
			dup = dup || x == y
		}
		if !dup {
			n = append(n, x)
		}
	}
	return n
}

func (s *seq) resolve(secret string) {
	names := s.names()
	op := fmt.Sprintf("resolve %s %s", hx.EncS(secret), hx.EncSList(names))
	s.noteMissing(secret)
	res, err := s.res.ResolveToken(secret)
	s.checkShared()
	fresh, ferr := newResolver(s.freshBackend(), s.dflt, false).ResolveToken(secret)
	if err != nil {
		out := "err:other"
		switch {
		case acl.IsErrRootDenied(err):
			out = "err:root"
		case acl.IsErrNotFound(err):
			out = "err:notfound"
		case strings.Contains(err.Error(), "failed to parse"):
			out = "err:compile"
		}
		s.line(op, out)
		s.run.Tag(s.kind + ":resolve:" + out)
		s.run.Case(strings.Join(s.ops, "\n"), false)
		if out == "err:compile" {
			eff := secret
			if eff == "" {
				eff = "anonymous"
			}
			if tok, found := s.pr.tokens[eff]; found && !(s.b.client && s.negRecreated != "") {
				if _, wok := s.expectedPolicies(tok); wok {
					s.violate("semantics:resolve:valid-policies-rejected", "all policies in scope validate, yet the token failed to compile: "+err.Error())
				}
			}
		}
		if (ferr == nil) != (err == nil) {
			s.violate("cache:resolve-error-differs-from-fresh", fmt.Sprintf("shared resolver: %v, fresh resolver: %v", err, ferr))
		}
		return
	}
	d := decide(res, names)
	s.line(op, "c="+d.String())
	s.run.Tag(s.kind + ":resolve:ok")
	// the documented semantics on the token's own policies, roles and identities
	effective := secret
	if effective == "" {
		effective = "anonymous"
	}
	stale := s.b.client && s.negRecreated != "" // known history shape, reported below with its own signature
	if tok, found := s.pr.tokens[effective]; found && !stale {
		want, wok := s.expectedPolicies(tok)
		s.run.Tag(fmt.Sprintf("%s:resolve:own-policies:%d", s.kind, len(want)))
		if !wok {
			s.violate("semantics:resolve:invalid-policy-accepted", "a token with an invalid policy in scope resolved without error")
		} else if ch, isChain := res.Authorizer.(*acl.ChainedAuthorizer); isChain && len(ch.AuthorizerChain()) == 2 {
			for _, v := range checkSemantics(want, names, decide(ch.AuthorizerChain()[0], names), d, s.dflt) {
				s.violate(strings.Replace(plainSig(v.sig), "semantics:", "semantics:resolve:", 1), v.desc)
			}
		} else {
			s.violate("semantics:resolve:unexpected-authorizer-shape", fmt.Sprintf("%T", res.Authorizer))
		}
	}
	s.run.Case(strings.Join(s.ops, "\n"), d.nonDefault())
	if ferr != nil {
		s.violate("cache:resolve-error-differs-from-fresh", fmt.Sprintf("shared resolver succeeded, fresh resolver: %v", ferr))
		return
	}
	if fd := decide(fresh, names); fd.String() != d.String() {
		sig := "cache:decision-differs-from-fresh:resolve"
		if s.b.client && s.negRecreated != "" {
			sig = "cache:negative-entry-never-expires:" + s.negRecreated
		}
		s.violate(sig,
			fmt.Sprintf("token %s through the shared caches: %s; through a fresh resolver: %s", secret, d, fd))
	}
	for _, v := range checkPrefixQueries(names, d) {
		s.violate(v.sig, v.desc)
	}
	if tok, found := s.pr.tokens[effective]; found && !s.b.client {
		s.checkLinkOrder(secret, effective, tok, names, d)
	}
	for _, v := range checkAllowAuthorizer(res.Authorizer, names[s.r.Intn(len(names))]) {
		s.violate(v.sig, v.desc)
	}
}

func inScope(dcs []string, dc string) bool {
	if len(dcs) == 0 {
		return true
	}
	for _, d := range dcs {
		if d == dc {
			return true
		}
	}
	return false
}

// expectedPolicies restates resolvePoliciesForIdentity on the harness's own bookkeeping: the policies
// linked by the token and by its roles, plus the synthetic policies of all service / node identities,
// restricted to the local datacenter. ok=false: an in-scope policy does not validate.
func (s *seq) expectedPolicies(t *structs.ACLToken) (out []policy, ok bool) {
	ok = true
	var pids []string
	svcDCs := map[string][]string{}
	var svcOrder []string
	type nk struct{ n, dc string }
	nodes := map[nk]bool{}
	var nodeOrder []nk
	addSvc := func(ids structs.ACLServiceIdentities) {
		for _, id := range ids {
			if _, seen := svcDCs[id.ServiceName]; !seen {
				svcOrder = append(svcOrder, id.ServiceName)
				svcDCs[id.ServiceName] = nil
			}
			svcDCs[id.ServiceName] = append(svcDCs[id.ServiceName], id.Datacenters...)
		}
	}
	addNodes := func(ids structs.ACLNodeIdentities) {
		for _, id := range ids {
			k := nk{id.NodeName, id.Datacenter}
			if !nodes[k] {
				nodes[k] = true
				nodeOrder = append(nodeOrder, k)
			}
		}
	}
	// templated policies: every link that is in scope grants its rendered template (duplicates are
	// idempotent, so the reference does not de-duplicate at all)
	type tpEnt struct {
		t    tmplInfo
		name string
		dcs  []string
	}
	var tpl []tpEnt
	addTps := func(tps structs.ACLTemplatedPolicies) {
		for _, tp := range tps {
			ti := tmplByName(tp.TemplateName)
			name := ""
			if tp.TemplateVariables != nil {
				name = tp.TemplateVariables.Name
			}
			tpl = append(tpl, tpEnt{ti, name, tp.Datacenters})
		}
	}
	pids = append(pids, t.PolicyIDs()...)
	addSvc(t.ServiceIdentities)
	addNodes(t.NodeIdentities)
	addTps(t.TemplatedPolicies)
	for _, rid := range t.RoleIDs() {
		if ro, found := s.pr.roles[rid]; found {
			for _, l := range ro.Policies {
				pids = append(pids, l.ID)
			}
			addSvc(ro.ServiceIdentities)
			addNodes(ro.NodeIdentities)
			addTps(ro.TemplatedPolicies)
		}
	}
	seen := map[string]bool{}
	for _, id := range pids {
		doc, found := s.pr.policies[id]
		if seen[id] || !found || !inScope(doc.Datacenters, s.dc) {
			continue
		}
		seen[id] = true
		if s.badDoc[id] {
			ok = false
		}
		out = append(out, s.docs[id])
	}
	for _, n := range svcOrder {
		if inScope(svcDCs[n], s.dc) {
			out = append(out, policy{rules: []rule{{kind: 's', name: n, pol: "write"}, {kind: 's', name: n + "-sidecar-proxy", pol: "write"},
				{kind: 's', pfx: true, name: "", pol: "read"}, {kind: 'n', pfx: true, name: "", pol: "read"}}})
		}
	}
	for _, k := range nodeOrder {
		if k.dc == s.dc {
			out = append(out, policy{rules: []rule{{kind: 'n', name: k.n, pol: "write"}, {kind: 's', pfx: true, name: "", pol: "read"}}})
		}
	}
	for _, e := range tpl {
		if inScope(e.dcs, s.dc) {
			out = append(out, tmplRules(e.t, e.name))
		}
	}
	return out, ok
}

// noteMissing records the policy / role ids the token refers to that do not exist right now.
func (s *seq) noteMissing(secret string) {
	if secret == "" {
		secret = "anonymous"
	}
	t, ok := s.pr.tokens[secret]
	if !ok || !s.b.client {
		return
	}
	if s.negSeen == nil {
		s.negSeen = map[string]bool{}
	}
	pids := t.PolicyIDs()
	for _, rid := range t.RoleIDs() {
		if ro, ok := s.pr.roles[rid]; ok {
			for _, l := range ro.Policies {
				pids = append(pids, l.ID)
			}
		} else {
			s.negSeen[rid] = true
		}
	}
	for _, id := range pids {
		if _, ok := s.pr.policies[id]; !ok {
			s.negSeen[id] = true
		}
	}
}

func (s *seq) compile(ids []string) {
	names := s.names()
	var pols structs.ACLPolicies
	var structure []policy
	for _, id := range ids {
		if p, ok := s.b.policies[id]; ok {
			pols = append(pols, p)
			structure = append(structure, s.docs[id])
		}
	}
	mode := "e"
	if s.small {
		mode = "x"
	}
	op := fmt.Sprintf("compile %s %s %s", mode, hx.EncSList(ids), hx.EncSList(names))
	hit := s.caches.GetAuthorizer(pols.HashKey()) != nil
	z, err := pols.Compile(s.caches, nil)
	s.checkShared()
	np, na := s.caches.VerifC08Lens()
	pre := fmt.Sprintf("h=%s pc=%d ac=%d ", hx.EncBool(hit), np, na)
	if s.small {
		pre = "h=- pc=- ac=- "
	}
	// fresh: new caches, freshly parsed policies
	var freshParsed []*acl.Policy
	var ferr error
	for _, p := range pols {
		q, e := acl.NewPolicyFromSource(p.Rules, &acl.Config{WarnOnDuplicateKey: true}, nil)
		if e != nil {
			ferr = e
			break
		}
		freshParsed = append(freshParsed, q)
	}
	if err != nil {
		s.line(op, pre+"err:compile")
		s.run.Tag(s.kind + ":compile:error")
		s.run.Case(strings.Join(s.ops, "\n"), false)
		if ferr == nil {
			s.violate("cache:compile-error-differs-from-fresh", fmt.Sprintf("Compile through the shared caches failed (%v), fresh parse succeeds", err))
		}
		return
	}
	d := decide(z, names)
	s.line(op, pre+"p="+d.String())
	s.run.Case(strings.Join(s.ops, "\n"), d.nonDefault())
	if hit {
		s.run.Tag(s.kind + ":compile:authorizer-cache-hit")
	} else {
		s.run.Tag(s.kind + ":compile:authorizer-cache-miss")
	}
	if ferr != nil {
		s.violate("cache:compile-error-differs-from-fresh", fmt.Sprintf("Compile through the shared caches succeeded, fresh parse fails: %v", ferr))
		return
	}
	fz, e := acl.NewPolicyAuthorizer(freshParsed, nil)
	if e != nil {
		panic(e)
	}
	if fd := decide(fz, names); fd.String() != d.String() {
		s.violate("cache:decision-differs-from-fresh:compile",
			fmt.Sprintf("policies %v through the shared caches: %s; freshly parsed and compiled: %s", ids, d, fd))
	}
	// and the documented semantics on the structure the harness generated
	cz := acl.NewChainedAuthorizer([]acl.Authorizer{z, staticOf(s.dflt)})
	for _, v := range checkSemantics(structure, names, d, decide(cz, names), s.dflt) {
		s.violate(plainSig(v.sig), v.desc)
	}
}

func runSeq(run *hx.Run, r *hx.RNG, kind string) {
	s := &seq{run: run, r: r, kind: kind, dflt: hx.Pick(r, []byte{'a', 'd', 'd'}), dc: hx.Pick(r, []string{"dc1", "dc1", "dc2"}), small: r.Chance(20),
		docs: map[string]policy{}, modIdx: map[string]uint64{}, pr: newPristine()}
	s.b = &backend{dc: s.dc, tokens: map[string]*structs.ACLToken{}, policies: map[string]*structs.ACLPolicy{}, roles: map[string]*structs.ACLRole{}}
	run.Tag(kind + ":datacenter:" + s.dc)
	if kind == "resolve" {
		s.b.client = r.Chance(35)
		s.narrow = r.Chance(40)
		if s.narrow {
			run.Tag("resolve:gen:narrow(shared roles)")
		}
		s.b.cloneOut = s.b.client && r.Bool()
		s.res = newResolver(s.b, s.dflt, s.small)
		if s.b.client {
			run.Tag("resolve:mode:client-rpc")
		} else {
			run.Tag("resolve:mode:server-local")
		}
	} else {
		size := 256
		if s.small {
			size = 2
		}
		var err error
		s.caches, err = structs.NewACLCaches(&structs.ACLCachesConfig{ParsedPolicies: size, Authorizers: size})
		if err != nil {
			panic(err)
		}
	}
	if s.small {
		run.Tag(kind + ":caches:small(evicting)")
	} else {
		run.Tag(kind + ":caches:large")
	}
	s.line(fmt.Sprintf("reset %c %s", s.dflt, hx.EncS(s.dc)), "ok")
	o := genOpts{names: []string{"", "a", "ab", "web", "web-sidecar-proxy", "db"}, kinds: kinds, mixed: r.Chance(25)}
	for _, id := range polIDs[:3+r.Intn(3)] {
		s.putPolicy(id, o)
	}
	if kind == "resolve" {
		nro := r.Intn(4)
		if s.narrow {
			nro = 2 + r.Intn(2)
		}
		for _, id := range roleIDs[:nro] {
			s.putRole(id)
		}
		for _, sec := range secrets[:2+r.Intn(4)] {
			s.putToken(sec)
		}
	}
	steps := 6 + r.Intn(12)
	for i := 0; i < steps; i++ {
		c := r.Intn(100)
		switch {
		case c < 62:
			if kind == "resolve" {
				sec := hx.Pick(r, secrets)
				if len(s.b.tokens) > 0 && r.Chance(85) {
					var have []string
					for _, x := range secrets {
						if _, ok := s.b.tokens[x]; ok {
							have = append(have, x)
						}
					}
					sec = hx.Pick(r, have)
				}
				switch r.Intn(25) {
				case 0:
					sec = "allow"
				case 1:
					sec = ""
				case 2:
					sec = "5ec00000-0000-0000-0000-0000000000ff"
				}
				s.resolve(sec)
			} else {
				s.compile(s.pickIDs(polIDs, 3))
			}
		case c < 80:
			s.putPolicy(hx.Pick(r, polIDs), o)
			run.Tag(kind + ":step:policy-update")
		case c < 86:
			id := hx.Pick(r, polIDs)
			s.delPolicy(id)
			s.line("delpol "+hx.EncS(id), "ok")
			run.Tag(kind + ":step:policy-delete")
		case c < 94 && kind == "resolve":
			if r.Bool() {
				s.putToken(hx.Pick(r, secrets))
			} else {
				s.putRole(hx.Pick(r, roleIDs))
			}
			run.Tag(kind + ":step:token-or-role-update")
		case c < 97 && !s.small && kind == "compile":
			s.caches.Purge()
			s.line("purge", "ok")
			run.Tag(kind + ":step:purge")
		default:
			if kind == "resolve" {
				s.resolve(hx.Pick(r, secrets))
			} else {
				s.compile(s.pickIDs(polIDs, 2))
			}
		}
	}
	run.Tag(fmt.Sprintf("%s:steps:%d", kind, (steps/4)*4))
}

// aliasWitness replays the shape of the repaired aliasing defect on every run: token A holds
// {P1: service web read, P2: service web write}, token B holds only P1.
func aliasWitness(run *hx.Run) {
	for _, pfx := range []bool{false, true} {
		s := &seq{run: run, r: run.RNG.Fork(0xA11A5), kind: "resolve", dflt: 'd', dc: "dc1",
			docs: map[string]policy{}, modIdx: map[string]uint64{}, pr: newPristine()}
		s.b = &backend{dc: s.dc, tokens: map[string]*structs.ACLToken{}, policies: map[string]*structs.ACLPolicy{}, roles: map[string]*structs.ACLRole{}}
		s.res = newResolver(s.b, s.dflt, false)
		s.line("reset d =dc1", "ok")
		for i, lvl := range []string{"read", "write"} {
			p := policy{rules: []rule{{kind: 's', pfx: pfx, name: "web", pol: lvl}}}
			doc := &structs.ACLPolicy{ID: polIDs[i], Name: "p-0", Rules: render(p, 0)}
			doc.ModifyIndex = 1
			doc.SetHash(true)
			s.setPolicy(polIDs[i], doc)
			s.docs[polIDs[i]] = p
			s.line(fmt.Sprintf("pol %s 1 %d - %s", hx.EncS(polIDs[i]), contentTag(doc), encPolicy(p)), "ok")
		}
		for i, pids := range [][]string{{polIDs[0], polIDs[1]}, {polIDs[0]}} {
			t := &structs.ACLToken{AccessorID: fmt.Sprintf("acc-%d", i), SecretID: secrets[i]}
			for _, p := range pids {
				t.Policies = append(t.Policies, structs.ACLTokenPolicyLink{ID: p})
			}
			s.setToken(secrets[i], t)
			s.line(fmt.Sprintf("tok %s %s - - -", hx.EncS(secrets[i]), hx.EncSList(pids)), "ok")
		}
		s.resolve(secrets[0])
		s.resolve(secrets[1])
		s.resolve(secrets[0])
		run.Tag("resolve:witness:shared-policy-escalation")
	}
}

// negativeWitness replays the shape of the repaired negative-cache defect on every run (RPC mode):
// a token links a policy (through a role: a role) that does not exist yet, is resolved, the policy
// (role) is created, the token is resolved again.
func negativeWitness(run *hx.Run) {
	for _, viaRole := range []bool{false, true} {
		s := &seq{run: run, r: run.RNG.Fork(0x4E6), kind: "resolve", dflt: 'a', dc: "dc1",
			docs: map[string]policy{}, modIdx: map[string]uint64{}, pr: newPristine()}
		s.b = &backend{dc: s.dc, client: true, tokens: map[string]*structs.ACLToken{}, policies: map[string]*structs.ACLPolicy{}, roles: map[string]*structs.ACLRole{}}
		s.res = newResolver(s.b, s.dflt, false)
		s.line("reset a =dc1", "ok")
		t := &structs.ACLToken{AccessorID: "acc-neg", SecretID: secrets[0]}
		if viaRole {
			t.Roles = []structs.ACLTokenRoleLink{{ID: roleIDs[0]}}
			s.setToken(secrets[0], t)
			s.line(fmt.Sprintf("tok %s - %s - -", hx.EncS(secrets[0]), hx.EncS(roleIDs[0])), "ok")
		} else {
			t.Policies = []structs.ACLTokenPolicyLink{{ID: polIDs[0]}}
			s.setToken(secrets[0], t)
			s.line(fmt.Sprintf("tok %s %s - - -", hx.EncS(secrets[0]), hx.EncS(polIDs[0])), "ok")
		}
		s.resolve(secrets[0])
		p := policy{rules: []rule{{kind: 's', pfx: true, name: "", pol: "deny"}}}
		p.scalars[1] = "deny"
		doc := &structs.ACLPolicy{ID: polIDs[0], Name: "p-0", Rules: render(p, 0)}
		doc.ModifyIndex = 1
		doc.SetHash(true)
		s.setPolicy(polIDs[0], doc)
		s.docs[polIDs[0]] = p
		s.badDoc = map[string]bool{}
		if s.negSeen[polIDs[0]] {
			s.negRecreated = "policy"
		}
		s.line(fmt.Sprintf("pol %s 1 %d - %s", hx.EncS(polIDs[0]), contentTag(doc), encPolicy(p)), "ok")
		if viaRole {
			s.setRole(roleIDs[0], &structs.ACLRole{ID: roleIDs[0], Name: "r-1", Policies: []structs.ACLRolePolicyLink{{ID: polIDs[0]}}})
			if s.negSeen[roleIDs[0]] {
				s.negRecreated = "role"
			}
			s.line(fmt.Sprintf("role %s %s - -", hx.EncS(roleIDs[0]), hx.EncS(polIDs[0])), "ok")
		}
		s.resolve(secrets[0])
		run.Tag("resolve:witness:negative-entry-then-created")
	}
}

func main() {
	run := hx.Start()
	run.Rule = "auth: one case = (default policy, 0-4 generated policies rendered as HCL/JSON rule text, 6-10 names); " +
		"compile/resolve: one case = one operation of a sequence, keyed by the whole sequence prefix (policies, roles, tokens, updates, earlier resolutions); " +
		"non-trivial = at least one decision of the policy authorizer is not Default"
	start := time.Now()
	aliasWitness(run)
	negativeWitness(run)
	outageWitness(run)
	nAuth := run.Scale(1500, 24000)
	for i := 0; i < nAuth; i++ {
		authCase(run, run.RNG.Fork(uint64(i)), nil)
	}
	nSeq := run.Scale(150, 1500)
	for i := 0; i < nSeq; i++ {
		runSeq(run, run.RNG.Fork(uint64(1_000_000+i)), "compile")
		runSeq(run, run.RNG.Fork(uint64(2_000_000+i)), "resolve")
		runRpcSeq(run, run.RNG.Fork(uint64(3_000_000+i)))
	}
	if run.Thorough() {
		exhaustiveAuth(run)
	}
	_ = sort.Strings
	run.Extra["harness_wall_s"] = int(time.Since(start).Seconds())
	run.Finish()
}
