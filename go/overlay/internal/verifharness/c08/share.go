//go:build verif

// C08 harness, object sharing: the state store (server mode) hands the SAME token / role / policy
// object to every resolution, the role / policy / identity caches (RPC mode) keep the decoded reply;
// resolvePoliciesForIdentity merges, sorts, de-duplicates and synthesizes on top of them. Nothing a
// resolution does may write into such an object: the next token that shares it would be resolved on
// something that is neither the servers' state nor its own links.
//
// The harness therefore keeps, for every object it hands to the real code, an independent deep copy
// made by its own code (not by the Clone methods under test):
//
//	cache:shared-object-mutated:<kind>   a handed-out object differs from its pristine copy after a
//	                                     resolution (kind: token, role, policy)
//
// and every reference computation (fresh resolver, documented semantics, TTL views) starts from
// copies of the pristine objects, never from the objects the resolver under test has seen.
package main

import (
	"fmt"
	"reflect"
	"sort"
	"strings"

	"github.com/hashicorp/consul/acl"
	"github.com/hashicorp/consul/agent/structs"
	"github.com/hashicorp/consul/internal/verifharness/hx"
)

type handedObj struct {
	kind, id       string
	live, pristine any
}

func cpStrings(in []string) []string {
	if in == nil {
		return nil
	}
	out := make([]string, len(in))
	copy(out, in)
	return out
}

func cpBytes(in []byte) []byte {
	if in == nil {
		return nil
	}
	out := make([]byte, len(in))
	copy(out, in)
	return out
}

func cpSvcs(in structs.ACLServiceIdentities) structs.ACLServiceIdentities {
	if in == nil {
		return nil
	}
	out := make(structs.ACLServiceIdentities, len(in))
	for i, x := range in {
		out[i] = &structs.ACLServiceIdentity{ServiceName: x.ServiceName, Datacenters: cpStrings(x.Datacenters)}
	}
	return out
}

func cpNodes(in structs.ACLNodeIdentities) structs.ACLNodeIdentities {
	if in == nil {
		return nil
	}
	out := make(structs.ACLNodeIdentities, len(in))
	for i, x := range in {
		out[i] = &structs.ACLNodeIdentity{NodeName: x.NodeName, Datacenter: x.Datacenter}
	}
	return out
}

func cpTps(in structs.ACLTemplatedPolicies) structs.ACLTemplatedPolicies {
	if in == nil {
		return nil
	}
	out := make(structs.ACLTemplatedPolicies, len(in))
	for i, x := range in {
		y := &structs.ACLTemplatedPolicy{TemplateID: x.TemplateID, TemplateName: x.TemplateName, Datacenters: cpStrings(x.Datacenters)}
		if x.TemplateVariables != nil {
			y.TemplateVariables = &structs.ACLTemplatedPolicyVariables{Name: x.TemplateVariables.Name}
		}
		out[i] = y
	}
	return out
}

func cpPolicy(p *structs.ACLPolicy) *structs.ACLPolicy {
	if p == nil {
		return nil
	}
	q := *p
	q.Datacenters = cpStrings(p.Datacenters)
	q.Hash = cpBytes(p.Hash)
	return &q
}

func cpRole(r *structs.ACLRole) *structs.ACLRole {
	if r == nil {
		return nil
	}
	q := *r
	if r.Policies != nil {
		q.Policies = make([]structs.ACLRolePolicyLink, len(r.Policies))
		copy(q.Policies, r.Policies)
	}
	q.ServiceIdentities = cpSvcs(r.ServiceIdentities)
	q.NodeIdentities = cpNodes(r.NodeIdentities)
	q.TemplatedPolicies = cpTps(r.TemplatedPolicies)
	q.Hash = cpBytes(r.Hash)
	return &q
}

func cpToken(t *structs.ACLToken) *structs.ACLToken {
	if t == nil {
		return nil
	}
	q := *t
	if t.Policies != nil {
		q.Policies = make([]structs.ACLTokenPolicyLink, len(t.Policies))
		copy(q.Policies, t.Policies)
	}
	if t.Roles != nil {
		q.Roles = make([]structs.ACLTokenRoleLink, len(t.Roles))
		copy(q.Roles, t.Roles)
	}
	q.ServiceIdentities = cpSvcs(t.ServiceIdentities)
	q.NodeIdentities = cpNodes(t.NodeIdentities)
	q.TemplatedPolicies = cpTps(t.TemplatedPolicies)
	q.Hash = cpBytes(t.Hash)
	return &q
}

func (b *backend) outToken(t *structs.ACLToken) *structs.ACLToken {
	if !b.cloneOut {
		return t
	}
	c := cpToken(t)
	b.handed = append(b.handed, handedObj{"token", t.SecretID, c, cpToken(t)})
	return c
}

func (b *backend) outRole(r *structs.ACLRole) *structs.ACLRole {
	if !b.cloneOut {
		return r
	}
	c := cpRole(r)
	b.handed = append(b.handed, handedObj{"role", r.ID, c, cpRole(r)})
	return c
}

func (b *backend) outPolicy(p *structs.ACLPolicy) *structs.ACLPolicy {
	if !b.cloneOut {
		return p
	}
	c := cpPolicy(p)
	b.handed = append(b.handed, handedObj{"policy", p.ID, c, cpPolicy(p)})
	return c
}

// pristine: the harness's own copies of everything stored in the backend of a sequence.
type pristine struct {
	tokens   map[string]*structs.ACLToken
	policies map[string]*structs.ACLPolicy
	roles    map[string]*structs.ACLRole
}

func newPristine() *pristine {
	return &pristine{tokens: map[string]*structs.ACLToken{}, policies: map[string]*structs.ACLPolicy{}, roles: map[string]*structs.ACLRole{}}
}

func (s *seq) setPolicy(id string, doc *structs.ACLPolicy) {
	s.b.policies[id] = doc
	s.pr.policies[id] = cpPolicy(doc)
}
func (s *seq) setRole(id string, ro *structs.ACLRole) {
	s.b.roles[id] = ro
	s.pr.roles[id] = cpRole(ro)
}
func (s *seq) setToken(secret string, t *structs.ACLToken) {
	s.b.tokens[secret] = t
	s.pr.tokens[secret] = cpToken(t)
}
func (s *seq) delPolicy(id string) { delete(s.b.policies, id); delete(s.pr.policies, id); delete(s.docs, id) }
func (s *seq) delRole(id string)   { delete(s.b.roles, id); delete(s.pr.roles, id) }
func (s *seq) delToken(sec string) { delete(s.b.tokens, sec); delete(s.pr.tokens, sec) }

// freshBackend: a backend holding new copies of the pristine objects (same mode as the one under test).
func (s *seq) freshBackend() *backend {
	b := &backend{dc: s.b.dc, client: s.b.client, down: s.b.down,
		tokens: map[string]*structs.ACLToken{}, policies: map[string]*structs.ACLPolicy{}, roles: map[string]*structs.ACLRole{}}
	for k, v := range s.pr.tokens {
		b.tokens[k] = cpToken(v)
	}
	for k, v := range s.pr.policies {
		b.policies[k] = cpPolicy(v)
	}
	for k, v := range s.pr.roles {
		b.roles[k] = cpRole(v)
	}
	return b
}

// checkShared: no object handed to the code under test may have changed.
func (s *seq) checkShared() {
	type diff struct{ kind, id string }
	var ds []diff
	for k, v := range s.b.tokens {
		if !reflect.DeepEqual(v, s.pr.tokens[k]) {
			ds = append(ds, diff{"token", k})
		}
	}
	for k, v := range s.b.roles {
		if !reflect.DeepEqual(v, s.pr.roles[k]) {
			ds = append(ds, diff{"role", k})
		}
	}
	for k, v := range s.b.policies {
		if !reflect.DeepEqual(v, s.pr.policies[k]) {
			ds = append(ds, diff{"policy", k})
		}
	}
	for _, h := range s.b.handed {
		if !reflect.DeepEqual(h.live, h.pristine) {
			ds = append(ds, diff{h.kind, h.id + " (RPC reply kept in a cache)"})
		}
	}
	if len(ds) == 0 {
		return
	}
	sort.Slice(ds, func(i, j int) bool { return ds[i].kind+ds[i].id < ds[j].kind+ds[j].id })
	seen := map[string]bool{}
	for _, d := range ds {
		if seen[d.kind] {
			continue
		}
		seen[d.kind] = true
		var live, pr any
		switch d.kind {
		case "role":
			if x, ok := s.b.roles[d.id]; ok {
				live, pr = describeRole(x), describeRole(s.pr.roles[d.id])
			}
		}
		s.violate("cache:shared-object-mutated:"+d.kind, fmt.Sprintf(
			"%s %s was modified in place by a token resolution (it is shared with every other token that links it)%s",
			d.kind, d.id, describeDiff(live, pr)))
	}
}

func describeRole(r *structs.ACLRole) any {
	if r == nil {
		return nil
	}
	var t []string
	for _, x := range r.ServiceIdentities {
		t = append(t, fmt.Sprintf("svc %s@%v", x.ServiceName, x.Datacenters))
	}
	for _, x := range r.NodeIdentities {
		t = append(t, fmt.Sprintf("node %s@%s", x.NodeName, x.Datacenter))
	}
	for _, x := range r.TemplatedPolicies {
		t = append(t, fmt.Sprintf("tp %s@%v", x.TemplateName, x.Datacenters))
	}
	return strings.Join(t, ", ")
}

func describeDiff(live, pr any) string {
	if live == nil || pr == nil {
		return ""
	}
	return fmt.Sprintf(": now [%v], as written [%v]", live, pr)
}

// ---------------------------------------------------------------- templated policies

type tmplInfo struct {
	ch      byte
	name    string
	id      string
	hasVars bool
}

var tmpls = []tmplInfo{
	{'s', "builtin/service", structs.ACLTemplatedPolicyServiceID, true},
	{'n', "builtin/node", structs.ACLTemplatedPolicyNodeID, true},
	{'d', "builtin/dns", structs.ACLTemplatedPolicyDNSID, false},
	{'m', "builtin/nomad-server", structs.ACLTemplatedPolicyNomadServerID, false},
	{'g', "builtin/api-gateway", structs.ACLTemplatedPolicyAPIGatewayID, true},
	{'c', "builtin/nomad-client", structs.ACLTemplatedPolicyNomadClientID, false},
}

func tmplByName(n string) tmplInfo {
	for _, t := range tmpls {
		if t.name == n {
			return t
		}
	}
	panic("template " + n)
}

// tmplRules: what policies/ce/<template>.hcl grants (the harness's own reading of the six templates,
// used by the semantics monitor; the Lean model carries its own table).
func tmplRules(t tmplInfo, n string) policy {
	var p policy
	switch t.ch {
	case 's':
		p.rules = []rule{{kind: 's', name: n, pol: "write"}, {kind: 's', name: n + "-sidecar-proxy", pol: "write"},
			{kind: 's', pfx: true, name: "", pol: "read"}, {kind: 'n', pfx: true, name: "", pol: "read"}}
	case 'n':
		p.rules = []rule{{kind: 'n', name: n, pol: "write"}, {kind: 's', pfx: true, name: "", pol: "read"}}
	case 'd':
		p.rules = []rule{{kind: 'n', pfx: true, name: "", pol: "read"}, {kind: 's', pfx: true, name: "", pol: "read"},
			{kind: 'q', pfx: true, name: "", pol: "read"}}
	case 'm':
		p.scalars[0] = "write"
		p.rules = []rule{{kind: 'a', pfx: true, name: "", pol: "read"}, {kind: 'n', pfx: true, name: "", pol: "read"},
			{kind: 's', pfx: true, name: "", pol: "write"}}
	case 'g':
		p.scalars[3] = "read"
		p.rules = []rule{{kind: 'n', pfx: true, name: "", pol: "read"}, {kind: 's', pfx: true, name: "", pol: "read"},
			{kind: 's', name: n, pol: "write"}}
	case 'c':
		p.rules = []rule{{kind: 'a', pfx: true, name: "", pol: "read"}, {kind: 'n', pfx: true, name: "", pol: "read"},
			{kind: 's', pfx: true, name: "", pol: "write"}, {kind: 'k', pfx: true, name: "", pol: "read"}}
	}
	return p
}

// genTps: with probability pct, 1-2 templated policies with random datacenter scopes (few names, so
// that the same template + variables meets different scopes on a token and its roles).
func (s *seq) genTps(pct int) (structs.ACLTemplatedPolicies, string) {
	var out structs.ACLTemplatedPolicies
	var enc []string
	if !s.r.Chance(pct) {
		return nil, "-"
	}
	for n := 1 + s.r.Intn(2); n > 0; n-- {
		t := hx.Pick(s.r, tmpls)
		if s.r.Chance(40) {
			t = tmpls[0]
		}
		tp := &structs.ACLTemplatedPolicy{TemplateID: t.id, TemplateName: t.name}
		name := ""
		if t.hasVars {
			name = hx.Pick(s.r, s.svcPool())
			if t.ch == 'n' {
				name = hx.Pick(s.r, nodeNames)
			}
			tp.TemplateVariables = &structs.ACLTemplatedPolicyVariables{Name: name}
		} else if s.r.Chance(30) {
			// templates without a schema ignore their variables
			name = hx.Pick(s.r, svcNames)
			tp.TemplateVariables = &structs.ACLTemplatedPolicyVariables{Name: name}
		}
		dcs := hx.Pick(s.r, dcsPool)
		tp.Datacenters = cpStrings(dcs)
		out = append(out, tp)
		t2 := make([]string, len(dcs))
		for i, d := range dcs {
			t2[i] = hx.EncS(d)
		}
		v := "0"
		if tp.TemplateVariables != nil {
			v = "1"
		}
		enc = append(enc, string([]byte{t.ch})+v+";"+hx.EncS(name)+";"+strings.Join(t2, "+"))
		s.run.Tag(s.kind + ":templated-policy:" + t.name)
	}
	return out, hx.EncList(enc)
}

func (s *seq) svcPool() []string {
	if s.narrow {
		return []string{"web", "web", "web", "db"}
	}
	return svcNames
}

// ---------------------------------------------------------------- link order

func reverse[T any](in []T) []T {
	if in == nil {
		return nil
	}
	out := make([]T, len(in))
	for i, x := range in {
		out[len(in)-1-i] = x
	}
	return out
}

// sameKeyDifferentScope: two templated policies of the token (own or through roles) with the same
// (template, variables) key and different datacenter scopes.
func (s *seq) sameKeyDifferentScope(t *structs.ACLToken) bool {
	scope := map[string]string{}
	clash := false
	add := func(tps structs.ACLTemplatedPolicies) {
		for _, tp := range tps {
			ti := tmplByName(tp.TemplateName)
			key := ti.name + "\x00"
			if ti.hasVars && tp.TemplateVariables != nil {
				key += tp.TemplateVariables.Name
			}
			dcs := cpStrings(tp.Datacenters)
			sort.Strings(dcs)
			sc := strings.Join(uniq(dcs), ",")
			if prev, ok := scope[key]; ok && prev != sc {
				clash = true
			}
			scope[key] = sc
		}
	}
	add(t.TemplatedPolicies)
	for _, rid := range t.RoleIDs() {
		if ro, ok := s.pr.roles[rid]; ok {
			add(ro.TemplatedPolicies)
		}
	}
	return clash
}

// checkLinkOrder (server mode): the decisions may not depend on the order in which the token lists
// its policies, roles, identities and templated policies, nor on the order inside its roles.
// (Regression monitor of the defect repaired in /repo 13d014a: ACLTemplatedPolicies.Deduplicate kept
// the first entry of a template + variables key and dropped the datacenter scope of the others.)
func (s *seq) checkLinkOrder(secret, effective string, tok *structs.ACLToken, names []string, d decisions) {
	nLinks := len(tok.Roles) + len(tok.TemplatedPolicies) + len(tok.ServiceIdentities) + len(tok.NodeIdentities) + len(tok.Policies)
	if nLinks < 2 {
		return
	}
	b := s.freshBackend()
	t := b.tokens[effective]
	t.Policies, t.Roles = reverse(t.Policies), reverse(t.Roles)
	t.ServiceIdentities, t.NodeIdentities, t.TemplatedPolicies = reverse(t.ServiceIdentities), reverse(t.NodeIdentities), reverse(t.TemplatedPolicies)
	for _, ro := range b.roles {
		ro.Policies = reverse(ro.Policies)
		ro.ServiceIdentities, ro.NodeIdentities, ro.TemplatedPolicies = reverse(ro.ServiceIdentities), reverse(ro.NodeIdentities), reverse(ro.TemplatedPolicies)
	}
	res, err := newResolver(b, s.dflt, false).ResolveToken(secret)
	if err != nil {
		s.violate("order:resolve-error-depends-on-link-order", fmt.Sprintf("the token resolves, but not with its links listed in reverse order: %v", err))
		return
	}
	s.run.Tag("resolve:monitor:link-order")
	if rd := decide(res, names); rd.String() != d.String() {
		sig := "order:decision-depends-on-link-order"
		if s.sameKeyDifferentScope(tok) {
			sig = "order:templated-policy-scope-depends-on-link-order"
		}
		s.violate(sig, fmt.Sprintf("token %s: %s; the same token with its policy / role / identity / templated-policy lists (and those of its roles) reversed: %s", secret, d, rd))
	}
}

// ---------------------------------------------------------------- the *Allowed wrappers

// checkAllowAuthorizer: acl.AllowAuthorizer (what every RPC endpoint actually asks) must refuse
// exactly when the corresponding Authorizer method does not answer Allow.
func checkAllowAuthorizer(z acl.Authorizer, n string) []violation {
	a := z.ToAllowAuthorizer()
	nl, row := nameless(z), named(z, n)
	var out []violation
	chk := func(name string, err error, d acl.EnforcementDecision) {
		if (err == nil) != (d == acl.Allow) {
			out = append(out, violation{"semantics:allowed-wrapper:" + name, fmt.Sprintf("%sAllowed(%q) = %v although %s = %v", name, n, err, name, d)})
		} else if err != nil && !acl.IsErrPermissionDenied(err) {
			out = append(out, violation{"semantics:allowed-wrapper:" + name, fmt.Sprintf("%sAllowed(%q) = %v: not a permission-denied error", name, n, err)})
		}
	}
	chk("aclRead", a.ACLReadAllowed(nil), nl[0])
	chk("aclWrite", a.ACLWriteAllowed(nil), nl[1])
	chk("snapshot", a.SnapshotAllowed(nil), nl[2])
	chk("keyringRead", a.KeyringReadAllowed(nil), nl[4])
	chk("keyringWrite", a.KeyringWriteAllowed(nil), nl[5])
	chk("meshRead", a.MeshReadAllowed(nil), nl[6])
	chk("meshWrite", a.MeshWriteAllowed(nil), nl[7])
	chk("peeringRead", a.PeeringReadAllowed(nil), nl[8])
	chk("peeringWrite", a.PeeringWriteAllowed(nil), nl[9])
	chk("operatorRead", a.OperatorReadAllowed(nil), nl[10])
	chk("operatorWrite", a.OperatorWriteAllowed(nil), nl[11])
	chk("nodeReadAll", a.NodeReadAllAllowed(nil), nl[12])
	chk("serviceReadAll", a.ServiceReadAllAllowed(nil), nl[13])
	chk("serviceWriteAny", a.ServiceWriteAnyAllowed(nil), nl[14])
	chk("agentRead", a.AgentReadAllowed(n, nil), row[iAgentRead])
	chk("agentWrite", a.AgentWriteAllowed(n, nil), row[iAgentWrite])
	chk("eventRead", a.EventReadAllowed(n, nil), row[iEventRead])
	chk("eventWrite", a.EventWriteAllowed(n, nil), row[iEventWrite])
	chk("intentionRead", a.IntentionReadAllowed(n, nil), row[iIntentionRead])
	chk("intentionWrite", a.IntentionWriteAllowed(n, nil), row[iIntentionWrite])
	chk("tpRead", a.TrafficPermissionsReadAllowed(n, nil), row[iTpRead])
	chk("tpWrite", a.TrafficPermissionsWriteAllowed(n, nil), row[iTpWrite])
	chk("keyRead", a.KeyReadAllowed(n, nil), row[iKeyRead])
	chk("keyList", a.KeyListAllowed(n, nil), row[iKeyList])
	chk("keyWrite", a.KeyWriteAllowed(n, nil), row[iKeyWrite])
	chk("keyWritePrefix", a.KeyWritePrefixAllowed(n, nil), row[iKeyWritePrefix])
	chk("nodeRead", a.NodeReadAllowed(n, nil), row[iNodeRead])
	chk("nodeWrite", a.NodeWriteAllowed(n, nil), row[iNodeWrite])
	chk("queryRead", a.PreparedQueryReadAllowed(n, nil), row[iQueryRead])
	chk("queryWrite", a.PreparedQueryWriteAllowed(n, nil), row[iQueryWrite])
	chk("serviceRead", a.ServiceReadAllowed(n, nil), row[iServiceRead])
	chk("serviceReadPrefix", a.ServiceReadPrefixAllowed(n, nil), row[iServiceReadPrefix])
	chk("serviceWrite", a.ServiceWriteAllowed(n, nil), row[iServiceWrite])
	chk("sessionRead", a.SessionReadAllowed(n, nil), row[iSessionRead])
	chk("sessionWrite", a.SessionWriteAllowed(n, nil), row[iSessionWrite])
	return out
}
