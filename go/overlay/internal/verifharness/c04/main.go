//go:build verif

// C04 harness: locks have one holder, only live sessions hold them, and every way a session can end
// releases / deletes its keys and removes its check links and prepared queries in the same step.
// Drives the real fsm.FSM / state.Store (package storex) with session create/destroy, KV
// lock/unlock/set/delete/delete-tree, node/service/check register, deregister and status changes,
// node rename by ID and transactions mixing all verbs; prints every result and a full dump of kvs,
// sessions, session_checks, prepared-queries, catalog tables and the index table after every command
// for the Lean model (CV.Store) to reproduce.
// Monitor (model independent): LockInv on the real tables after every command, acquire / release
// verdicts, the same-step release for every session that vanished, every reason a session must end, and
// no session_checks row naming a check that does not exist (linkMon). sesscheck.go adds the streams
// around session-typed checks (bindable while critical) and every path that deletes a bound check.
package main

import (
	"github.com/hashicorp/consul/internal/verifharness/hx"
	"github.com/hashicorp/consul/internal/verifharness/storex"
)

var sessionHeavy = &storex.Profile{
	Name:     "session-heavy",
	W:        map[string]int{"kv": 34, "sc": 14, "sd": 8, "reg": 12, "dereg": 10, "reap": 1, "pqs": 4, "pqd": 1, "txn": 16},
	KVVerbs:  map[string]int{"set": 12, "cas": 4, "delete": 8, "delete-cas": 3, "delete-tree": 8, "lock": 45, "unlock": 20},
	Preamble: 90,
}

var catalogHeavy = &storex.Profile{
	Name:     "catalog-heavy",
	W:        map[string]int{"kv": 25, "sc": 14, "sd": 4, "reg": 22, "dereg": 14, "pqs": 4, "pqd": 1, "txn": 16},
	KVVerbs:  map[string]int{"set": 10, "cas": 2, "delete": 5, "delete-cas": 2, "delete-tree": 5, "lock": 60, "unlock": 16},
	Preamble: 70,
}

var txnHeavy = &storex.Profile{
	Name:     "txn-heavy",
	W:        map[string]int{"kv": 25, "sc": 14, "sd": 4, "reg": 10, "dereg": 5, "pqs": 4, "txn": 38},
	KVVerbs:  map[string]int{"set": 10, "cas": 2, "delete": 5, "delete-cas": 2, "delete-tree": 5, "lock": 60, "unlock": 16},
	Preamble: 90, EmptyKeyPc: 2,
}

func kvOp(verb, key, session string) func(*storex.Snap, uint64) *storex.Op {
	return func(*storex.Snap, uint64) *storex.Op {
		return &storex.Op{Kind: "kv", KV: &storex.KVArg{Verb: verb, Key: key, Val: []byte("v"), Session: session}}
	}
}

func alphabet() []storex.Letter {
	s1, s2 := storex.Sessions[0], storex.Sessions[1]
	return []storex.Letter{
		{Name: "lock k s1", Make: kvOp("lock", "k", s1)},
		{Name: "lock k s2", Make: kvOp("lock", "k", s2)},
		{Name: "unlock k s1", Make: kvOp("unlock", "k", s1)},
		{Name: "set k", Make: kvOp("set", "k", "")},
		{Name: "destroy s1", Make: func(*storex.Snap, uint64) *storex.Op { return &storex.Op{Kind: "sd", SessID: s1} }},
		{Name: "txn[session delete s2]", Make: func(*storex.Snap, uint64) *storex.Op {
			return &storex.Op{Kind: "txn", Txn: []storex.TxnOpArg{{Fam: 'x', Verb: "delete", SessID: s2}}}
		}},
		{Name: "check c1 critical", Make: func(*storex.Snap, uint64) *storex.Op {
			return &storex.Op{Kind: "reg", Reg: &storex.RegArg{Node: storex.NodeArg{Name: "n1", ID: storex.NodeIDs[1], Addr: "10.0.0.1"},
				Checks: []storex.ChkArg{{Node: "n1", ID: "c1", Status: "critical"}}}}
		}},
		{Name: "dereg check c1", Make: func(*storex.Snap, uint64) *storex.Op { return &storex.Op{Kind: "dereg", Dereg: [3]string{"n1", "", "c1"}} }},
		{Name: "dereg node n2", Make: func(*storex.Snap, uint64) *storex.Op { return &storex.Op{Kind: "dereg", Dereg: [3]string{"n2", "", ""}} }},
		{Name: "create s1 again", Make: func(*storex.Snap, uint64) *storex.Op {
			return &storex.Op{Kind: "sc", Sess: &storex.SessArg{ID: s1, Node: "n1", Behavior: "delete", Checks: []string{"c1"}}}
		}},
	}
}

// the exhaustive scope differs per seed (the thorough tier runs three seeds)
var variant int

func preamble() []*storex.Op {
	b1, b2, delay := "release", "delete", 15
	switch variant {
	case 1:
		b1, b2, delay = "delete", "release", 0
	case 2:
		b2 = "release"
	}
	return []*storex.Op{
		{Kind: "reg", Reg: &storex.RegArg{Node: storex.NodeArg{Name: "n1", ID: storex.NodeIDs[1], Addr: "10.0.0.1"},
			Checks: []storex.ChkArg{{Node: "n1", ID: "c1", Status: "passing"}}}},
		{Kind: "reg", Reg: &storex.RegArg{Node: storex.NodeArg{Name: "n2", ID: storex.NodeIDs[2], Addr: "10.0.0.1"}}},
		{Kind: "sc", Sess: &storex.SessArg{ID: storex.Sessions[0], Node: "n1", Behavior: b1, Checks: []string{"c1"}, LockDelay: delay}},
		{Kind: "sc", Sess: &storex.SessArg{ID: storex.Sessions[1], Node: "n2", Behavior: b2}},
		{Kind: "pqs", PQ: [2]string{storex.QueryIDs[0], storex.Sessions[0]}},
	}
}

func main() {
	run := hx.Start()
	run.Rule = "every result line and every full table dump (kvs, tombstones, sessions, session_checks, nodes, services, checks, prepared-queries, index table, lock-delay keys) of the real state store after every command equals the Lean model's; LockInv, acquire/release verdicts and same-step release hold on the implementation"
	mons := func() []storex.Monitor { return []storex.Monitor{storex.LockMon{}, linkMon{}} }
	storex.RandomHistories(run, []*storex.Profile{sessionHeavy, catalogHeavy, txnHeavy}, run.Scale(400, 4000), 35, mons, false)
	variant = int((run.Seed / 7) % 3)
	run.Tag("exhaustive-variant:" + string(rune('0'+variant)))
	storex.Exhaustive(run, preamble, alphabet(), run.Scale(3, 4), mons, false)
	sessionCheckHistories(run, run.Scale(160, 1600), mons)
	storex.Exhaustive(run, scPreamble, scAlphabet(), run.Scale(2, 3), mons, false)
	run.Finish()
}
