//go:build verif

// Session-typed checks (HealthCheck.Type "session", Definition.SessionName): validateSessionChecksTxn lets
// a session bind to such a check even while it is CRITICAL, and session create / destroy flips it to
// passing / critical. The streams below build that world on purpose — session-typed and ordinary checks in
// every status, node level and service level, sessions bound to them whose Name does / does not match the
// check's SessionName, locks and prepared queries of those sessions — and then end the binding through
// every path: DeleteCheck, txn check delete / delete-cas, DeleteService / txn service delete of the
// check's service, node deregistration / txn node delete, a status write, session destroy. Every line is
// compared with the model (CV.Store models Type "session") and judged by the monitors.
package main

import (
	"fmt"
	"strings"

	"github.com/hashicorp/consul/agent/structs"
	"github.com/hashicorp/consul/internal/verifharness/hx"
	"github.com/hashicorp/consul/internal/verifharness/storex"
)

// linkMon: a session_checks row must name a check that exists (model independent; the store's own
// LockMon judges the session side of the row).
type linkMon struct{}

func (linkMon) Reset() {}

func hasCheck(s *storex.Snap, node, id string) bool {
	for _, c := range s.T.Checks {
		if strings.EqualFold(c.Node, node) && strings.EqualFold(string(c.CheckID), id) {
			return true
		}
	}
	return false
}

func opLabel(op *storex.Op) string {
	switch op.Kind {
	case "kv":
		return "kv-" + op.KV.Verb
	case "dereg":
		switch {
		case op.Dereg[1] != "":
			return "dereg-service"
		case op.Dereg[2] != "":
			return "dereg-check"
		}
		return "dereg-node"
	}
	return op.Kind
}

func (linkMon) Check(run *hx.Run, before, after *storex.Snap, op *storex.Op, res string, replay []string) {
	for _, m := range after.T.SessionChecks {
		if hasCheck(after, m.Node, string(m.CheckID)) {
			continue
		}
		was := false // the dangling row was there before this step already (reported then)
		for _, b := range before.T.SessionChecks {
			if b == m && !hasCheck(before, b.Node, string(b.CheckID)) {
				was = true
			}
		}
		if !was {
			run.Violate("lock:check-link-of-missing-check:"+opLabel(op),
				fmt.Sprintf("after %s the session_checks row (%s,%s,%s) names a check that does not exist", opLabel(op), m.Node, m.CheckID, m.Session), replay)
		}
	}
}

func curCheck(last *storex.Snap, node, id string) *structs.HealthCheck {
	for _, c := range last.T.Checks {
		if strings.EqualFold(c.Node, node) && strings.EqualFold(string(c.CheckID), id) {
			return c
		}
	}
	return nil
}

func curService(last *storex.Snap, node, id string) *structs.ServiceNode {
	for _, s := range last.T.Services {
		if strings.EqualFold(s.Node, node) && strings.EqualFold(s.ServiceID, id) {
			return s
		}
	}
	return nil
}

var scCheckIDs = []string{"sc1", "c2", "c1", "serfHealth"}
var scStatuses = []string{"critical", "critical", "critical", "passing", "warning"}

// sessionCheckHistories: n directed histories (setup, bindings, locks, one ending path, random tail).
func sessionCheckHistories(run *hx.Run, n int, mons func() []storex.Monitor) {
	for i := 0; i < n; i++ {
		r := run.RNG.Fork(uint64(7_000_000 + i))
		h := storex.NewHistory(run, r, mons(), false)
		g := &storex.Gen{R: r, P: sessionHeavy, W: h.W, Idx: uint64(r.Intn(20))}
		g.Last = h.Last
		run.Tag("profile:session-checks")
		step := func(op *storex.Op) string {
			g.Idx += 1 + uint64(r.Intn(3))
			op.Idx = g.Idx
			op.ViaFSM = r.Bool()
			res := h.Step(op)
			g.Last = h.Last
			return res
		}
		ni := r.Intn(2)
		node := []string{"n1", "n2"}[ni]
		na := storex.NodeArg{Name: node, ID: storex.NodeIDs[ni+1], Addr: storex.Addrs[0]}
		// ---- node, optional service, 1..3 checks (mostly session-typed, any status)
		reg := &storex.RegArg{Node: na}
		if r.Chance(65) {
			reg.Svc = &storex.SvcArg{Node: node, ID: "web", Name: "web", Port: 80}
		}
		var ids []string
		for k, nc := 0, 1+r.Intn(3); k < nc; k++ {
			c := storex.ChkArg{Node: node, ID: scCheckIDs[(k+r.Intn(2))%len(scCheckIDs)], Status: hx.Pick(r, scStatuses)}
			if r.Chance(75) {
				c.Type = "session"
				c.SessName = hx.Pick(r, storex.SessNames)
			} else if r.Chance(70) {
				c.Status = "passing"
			}
			if reg.Svc != nil && r.Chance(45) {
				c.SvcID = "web"
			}
			dup := false
			for _, x := range ids {
				dup = dup || x == c.ID
			}
			if dup {
				continue
			}
			ids = append(ids, c.ID)
			reg.Checks = append(reg.Checks, c)
		}
		step(&storex.Op{Kind: "reg", Reg: reg})
		if r.Chance(30) { // a second node, for sessions / checks that must not be touched
			o := 1 - ni
			step(&storex.Op{Kind: "reg", Reg: &storex.RegArg{Node: storex.NodeArg{Name: []string{"n1", "n2"}[o], ID: storex.NodeIDs[o+1], Addr: storex.Addrs[0]},
				Checks: []storex.ChkArg{{Node: []string{"n1", "n2"}[o], ID: "sc1", Status: "critical", Type: "session", SessName: "lockA"}}}})
		}
		// ---- sessions bound to those checks; Name equal to / different from the checks' SessionName
		for j, ns := 0, 1+r.Intn(3); j < ns; j++ {
			s := &storex.SessArg{ID: storex.Sessions[j], Node: node, Name: hx.Pick(r, storex.SessNames), Behavior: hx.Pick(r, []string{"delete", "release", ""})}
			for _, id := range ids {
				if r.Chance(70) {
					s.Checks = append(s.Checks, id)
				}
			}
			if r.Chance(30) {
				s.LockDelay = 15
			}
			step(&storex.Op{Kind: "sc", Sess: s})
		}
		// ---- locks and queries of the sessions that exist
		for _, x := range h.Last.T.Sessions {
			for k := r.Intn(3); k > 0; k-- {
				step(&storex.Op{Kind: "kv", KV: &storex.KVArg{Verb: "lock", Key: hx.Pick(r, storex.Keys[:6]), Val: []byte("v"), Session: x.ID}})
			}
			if r.Chance(25) {
				step(&storex.Op{Kind: "pqs", PQ: [2]string{hx.Pick(r, storex.QueryIDs), x.ID}})
			}
		}
		// ---- sometimes a status write first (critical <-> passing, same type or type change)
		if len(ids) > 0 && r.Chance(25) {
			c := storex.ChkArg{Node: node, ID: hx.Pick(r, ids), Status: hx.Pick(r, scStatuses)}
			if b := curCheck(h.Last, node, c.ID); b != nil && r.Chance(80) {
				c.Type, c.SessName, c.SvcID = b.Type, b.Definition.SessionName, b.ServiceID
			}
			step(&storex.Op{Kind: "reg", Reg: &storex.RegArg{Node: na, Checks: []storex.ChkArg{c}}})
		}
		// ---- one way of ending the binding
		for rounds := 1 + r.Intn(2); rounds > 0 && len(ids) > 0; rounds-- {
			id := hx.Pick(r, ids)
			if len(h.Last.T.SessionChecks) > 0 && r.Chance(75) { // prefer a check that a session is bound to
				m := hx.Pick(r, h.Last.T.SessionChecks)
				if strings.EqualFold(m.Node, node) {
					id = string(m.CheckID)
				}
			}
			b := curCheck(h.Last, node, id)
			what := "absent"
			if b != nil {
				what = b.Status
				if b.Type == "session" {
					what += ":session-typed"
				}
				bound := 0
				for _, m := range h.Last.T.SessionChecks {
					if strings.EqualFold(m.Node, node) && strings.EqualFold(string(m.CheckID), id) {
						bound++
					}
				}
				what += fmt.Sprintf(":bound-%d", min(bound, 2))
			}
			chk := &storex.ChkArg{Node: node, ID: id}
			if b != nil {
				chk.ModIdx = b.ModifyIndex
				if r.Chance(15) {
					chk.ModIdx++
				}
			}
			var op *storex.Op
			via := ""
			switch r.Intn(10) {
			case 0, 1:
				via, op = "dereg-check", &storex.Op{Kind: "dereg", Dereg: [3]string{node, "", id}}
			case 2:
				via, op = "txn-check-delete", &storex.Op{Kind: "txn", Txn: []storex.TxnOpArg{{Fam: 'c', Verb: "delete", Chk: chk}}}
			case 3:
				via, op = "txn-check-delete-cas", &storex.Op{Kind: "txn", Txn: []storex.TxnOpArg{{Fam: 'c', Verb: "delete-cas", Chk: chk}}}
			case 4:
				via, op = "dereg-service", &storex.Op{Kind: "dereg", Dereg: [3]string{node, "web", ""}}
			case 5:
				sv := &storex.SvcArg{Node: node, ID: "web", Name: "web", Port: 80}
				verb := "delete"
				if cs := curService(h.Last, node, "web"); cs != nil && r.Bool() {
					verb, sv.ModIdx = "delete-cas", cs.ModifyIndex
				}
				via, op = "txn-service-"+verb, &storex.Op{Kind: "txn", Txn: []storex.TxnOpArg{{Fam: 's', Verb: verb, Svc: sv}}}
			case 6:
				via, op = "dereg-node", &storex.Op{Kind: "dereg", Dereg: [3]string{node, "", ""}}
			case 7:
				nn := na
				via, op = "txn-node-delete", &storex.Op{Kind: "txn", Txn: []storex.TxnOpArg{{Fam: 'n', Verb: "delete", Node: &nn}}}
			case 8: // the deletion in the middle of a transaction that also uses the lock
				k := &storex.KVArg{Verb: "check-session", Key: hx.Pick(r, storex.Keys[:6]), Session: storex.Sessions[0]}
				k2 := &storex.KVArg{Verb: "lock", Key: hx.Pick(r, storex.Keys[:6]), Val: []byte("w"), Session: storex.Sessions[r.Intn(2)]}
				via, op = "txn-mixed", &storex.Op{Kind: "txn", Txn: []storex.TxnOpArg{{Fam: 'k', Verb: "get", KV: k}, {Fam: 'c', Verb: "delete", Chk: chk}, {Fam: 'k', Verb: "lock", KV: k2}}}
			default:
				c := storex.ChkArg{Node: node, ID: id, Status: "critical"}
				if b != nil {
					c.Type, c.SessName, c.SvcID = b.Type, b.Definition.SessionName, b.ServiceID
				}
				via, op = "status-critical", &storex.Op{Kind: "reg", Reg: &storex.RegArg{Node: na, Checks: []storex.ChkArg{c}}}
			}
			run.Tag("session-checks:" + via + ":" + what)
			step(op)
		}
		// ---- a random tail over the same world
		for k := r.Intn(7); k > 0; k-- {
			h.Step(g.Next())
			g.Last = h.Last
		}
		if i < 2 {
			run.Sample(map[string]any{"profile": "session-checks", "ops": h.Lines})
		}
		h.Finish()
	}
}

// ---- small-scope exhaustive: two critical session-typed checks (node level sc1, service level c2), two
// sessions bound to them under non-matching names, each holding a key

func scPreamble() []*storex.Op {
	b1, b2 := "release", "delete"
	if variant == 1 {
		b1, b2 = "delete", "release"
	}
	n1 := storex.NodeArg{Name: "n1", ID: storex.NodeIDs[1], Addr: "10.0.0.1"}
	return []*storex.Op{
		{Kind: "reg", Reg: &storex.RegArg{Node: n1, Svc: &storex.SvcArg{Node: "n1", ID: "web", Name: "web", Port: 80},
			Checks: []storex.ChkArg{{Node: "n1", ID: "sc1", Status: "critical", Type: "session", SessName: "lockA"},
				{Node: "n1", ID: "c2", Status: "critical", Type: "session", SessName: "lockA", SvcID: "web"}}}},
		{Kind: "sc", Sess: &storex.SessArg{ID: storex.Sessions[0], Node: "n1", Name: "lockB", Behavior: b1, Checks: []string{"sc1"}}},
		{Kind: "sc", Sess: &storex.SessArg{ID: storex.Sessions[1], Node: "n1", Name: "", Behavior: b2, Checks: []string{"c2"}}},
		{Kind: "kv", KV: &storex.KVArg{Verb: "lock", Key: "k", Val: []byte("v"), Session: storex.Sessions[0]}},
		{Kind: "kv", KV: &storex.KVArg{Verb: "lock", Key: "a", Val: []byte("v"), Session: storex.Sessions[1]}},
	}
}

func scAlphabet() []storex.Letter {
	n1 := storex.NodeArg{Name: "n1", ID: storex.NodeIDs[1], Addr: "10.0.0.1"}
	chkTxn := func(verb, id string) func(*storex.Snap, uint64) *storex.Op {
		return func(last *storex.Snap, _ uint64) *storex.Op {
			c := &storex.ChkArg{Node: "n1", ID: id}
			if b := curCheck(last, "n1", id); b != nil {
				c.ModIdx = b.ModifyIndex
			}
			return &storex.Op{Kind: "txn", Txn: []storex.TxnOpArg{{Fam: 'c', Verb: verb, Chk: c}}}
		}
	}
	status := func(id, st, svc string) func(*storex.Snap, uint64) *storex.Op {
		return func(*storex.Snap, uint64) *storex.Op {
			return &storex.Op{Kind: "reg", Reg: &storex.RegArg{Node: n1,
				Checks: []storex.ChkArg{{Node: "n1", ID: id, Status: st, Type: "session", SessName: "lockA", SvcID: svc}}}}
		}
	}
	return []storex.Letter{
		{Name: "dereg check sc1", Make: func(*storex.Snap, uint64) *storex.Op { return &storex.Op{Kind: "dereg", Dereg: [3]string{"n1", "", "sc1"}} }},
		{Name: "txn[check delete c2]", Make: chkTxn("delete", "c2")},
		{Name: "txn[check delete-cas sc1]", Make: chkTxn("delete-cas", "sc1")},
		{Name: "dereg service web", Make: func(*storex.Snap, uint64) *storex.Op { return &storex.Op{Kind: "dereg", Dereg: [3]string{"n1", "web", ""}} }},
		{Name: "txn[service delete web]", Make: func(*storex.Snap, uint64) *storex.Op {
			return &storex.Op{Kind: "txn", Txn: []storex.TxnOpArg{{Fam: 's', Verb: "delete", Svc: &storex.SvcArg{Node: "n1", ID: "web", Name: "web", Port: 80}}}}
		}},
		{Name: "dereg node n1", Make: func(*storex.Snap, uint64) *storex.Op { return &storex.Op{Kind: "dereg", Dereg: [3]string{"n1", "", ""}} }},
		{Name: "sc1 passing", Make: status("sc1", "passing", "")},
		{Name: "c2 critical again", Make: status("c2", "critical", "web")},
		{Name: "create s3 named lockA on sc1", Make: func(*storex.Snap, uint64) *storex.Op {
			return &storex.Op{Kind: "sc", Sess: &storex.SessArg{ID: storex.Sessions[2], Node: "n1", Name: "lockA", Behavior: "delete", Checks: []string{"sc1"}}}
		}},
		{Name: "destroy s1", Make: func(*storex.Snap, uint64) *storex.Op { return &storex.Op{Kind: "sd", SessID: storex.Sessions[0]} }},
		{Name: "lock k s2", Make: kvOp("lock", "k", storex.Sessions[1])},
	}
}
