//go:build verif

// C13 harness: intention decisions follow precedence, independent of write order.
//
// Every case builds one or more REAL state stores (agent/consul/state), writes a set of
// intentions into them (as service-intentions config entries through ConfigEntry
// Normalize/Validate/EnsureConfigEntry, through Store.IntentionMutation, or as legacy table rows
// through Store.LegacyIntentionSet), and then asks the store
//
//	match s|d <name>    Store.IntentionMatch
//	list                Store.Intentions
//	check  s d def ap   Store.IntentionMatchOne(source) + Store.IntentionDecision(destination)   (Intention.Check)
//	authz p s d def ap  Store.IntentionMatchOne(destination) + Store.IntentionDecision(source)   (agent authorize)
//
// printing one canonical line per operation for the Lean model (CV.Ixn) to reproduce.
//
// Monitors (independent of the Lean model):
//
//	decision:*   every decision equals an independent "most specific intention wins" function
//	             evaluated on the set of intentions the store itself lists
//	order:*      the answer to every query is identical for every order of writing the same set
//	repr:*       the legacy table and the config entries give the same answers for the same set
//	match:*      match / list results are complete, contain only matching intentions, are sorted
//	             by (destination exact, source exact) and carry the 9/8/6/5 precedence
//	path:*       the two decision pipelines agree for local callers
package main

import (
	"fmt"
	"sort"
	"strings"
	"time"

	"github.com/hashicorp/consul/agent/consul/state"
	"github.com/hashicorp/consul/agent/structs"
	"github.com/hashicorp/consul/internal/verifharness/hx"
)

// violate records a monitor violation; at most 3 per signature, so that every distinct
// signature fits into the recorder's bounded list.
var sigCount = map[string]int{}

func violate(run *hx.Run, sig, desc string, replay []string) {
	sigCount[sig]++
	if sigCount[sig] <= 3 {
		run.Violate(sig, desc, replay)
	} else {
		run.Tag("violation:" + sig)
	}
}

// ---------------------------------------------------------------- data

type ixn struct {
	peer, src, dst string
	act            string // a d n b
	perms          int
	id             string
	inPrec         int // Sources[i].Precedence as sent by the client (0 = a fresh struct)
}

func (x ixn) key() string { return x.peer + "\x00" + x.src + "\x00" + x.dst }

func actString(a string) structs.IntentionAction {
	switch a {
	case "a":
		return structs.IntentionActionAllow
	case "d":
		return structs.IntentionActionDeny
	case "n":
		return ""
	}
	return "maybe"
}

func actCode(a structs.IntentionAction) string {
	switch a {
	case structs.IntentionActionAllow:
		return "a"
	case structs.IntentionActionDeny:
		return "d"
	case "":
		return "n"
	}
	return "b"
}

func mkPerms(n int) []*structs.IntentionPermission {
	var ps []*structs.IntentionPermission
	for j := 0; j < n; j++ {
		a := structs.IntentionActionAllow
		if j%2 == 1 {
			a = structs.IntentionActionDeny
		}
		ps = append(ps, &structs.IntentionPermission{Action: a, HTTP: &structs.IntentionHTTPPermission{PathPrefix: fmt.Sprintf("/p%d", j)}})
	}
	return ps
}

func (x ixn) source() *structs.SourceIntention {
	return &structs.SourceIntention{Name: x.src, Peer: x.peer, Action: actString(x.act), Permissions: mkPerms(x.perms), Precedence: x.inPrec}
}

// observed intention (what the implementation returned)
type obs struct {
	peer, src, dst string
	act            string
	perms, prec    int
	id             string
	odd            string // non-default namespace / partition / sameness group: outside the model
}

func observe(i *structs.Intention) obs {
	o := obs{peer: i.SourcePeer, src: i.SourceName, dst: i.DestinationName, act: actCode(i.Action),
		perms: len(i.Permissions), prec: i.Precedence, id: i.ID}
	if i.SourceNS != "default" || i.DestinationNS != "default" || i.SourcePartition != "" || i.DestinationPartition != "" || i.SourceSamenessGroup != "" {
		o.odd = fmt.Sprintf("!%s/%s/%s/%s/%s", i.SourceNS, i.DestinationNS, i.SourcePartition, i.DestinationPartition, i.SourceSamenessGroup)
	}
	return o
}

func (o obs) enc() string {
	return fmt.Sprintf("%s;%s;%s;%s;%d;%d%s", hx.EncS(o.peer), hx.EncS(o.src), hx.EncS(o.dst), o.act, o.perms, o.prec, o.odd)
}

func encObs(xs []obs) string {
	t := make([]string, len(xs))
	for i, x := range xs {
		t[i] = x.enc()
	}
	return hx.EncList(t)
}

// content without the legacy id (for comparing representations)
func (o obs) content() string {
	return fmt.Sprintf("%s;%s;%s;%s;%d;%d", hx.EncS(o.peer), hx.EncS(o.src), hx.EncS(o.dst), o.act, o.perms, o.prec)
}

// ---------------------------------------------------------------- system under test

type sut struct {
	s   *state.Store
	idx uint64
	cfg bool
	nid uint64   // legacy ids handed out so far (the RPC layer draws ids that are not in use)
	ops []string // every op line sent to this store (for replays)
}

func must(err error) {
	if err != nil {
		panic(err)
	}
}

func newSUT(run *hx.Run, cfg bool) *sut {
	t := &sut{s: state.NewStateStore(nil), idx: 10, cfg: cfg}
	if cfg {
		must(t.s.SystemMetadataSet(1, &structs.SystemMetadataEntry{Key: structs.SystemMetadataIntentionFormatKey, Value: structs.SystemMetadataIntentionFormatConfigValue}))
		// L7 permissions are only accepted for destinations whose protocol is http
		pd := &structs.ProxyConfigEntry{Kind: structs.ProxyDefaults, Name: structs.ProxyConfigGlobal, Config: map[string]interface{}{"protocol": "http"}}
		must(pd.Normalize())
		must(t.s.EnsureConfigEntry(2, pd))
		t.line(run, "reset cfg", "ok")
	} else {
		t.line(run, "reset legacy", "ok")
	}
	return t
}

// freshID returns a legacy id never used in this store before; like lib.GenerateUUID(checkIntentionID) it
// keeps ids unique (memdb's intention-legacy-id index is declared unique and misbehaves otherwise).
func (t *sut) freshID(r *hx.RNG) string {
	t.nid++
	return fmt.Sprintf("%08x-0000-0000-0000-%012x", uint32(r.U64()), t.nid)
}

func (t *sut) line(run *hx.Run, op, out string) {
	t.ops = append(t.ops, op)
	run.Line(op, out)
}

func mapErr(err error) string {
	if err == nil {
		return "ok"
	}
	m := err.Error()
	inSrc := strings.HasPrefix(m, "Sources[")
	switch {
	case err == state.ErrLegacyIntentionsAreDisabled:
		return "err:legacy-disabled"
	case err == state.ErrMissingIntentionID:
		return "err:missing-id"
	case strings.Contains(m, "not allowed when intentions are not stored in config entries"):
		return "err:not-config-mode"
	case strings.Contains(m, "duplicate intention found"):
		return "err:dup-legacy"
	case strings.Contains(m, "Cannot modify non-existent intention"), strings.Contains(m, "Cannot delete non-existent intention"):
		return "err:not-found"
	case strings.Contains(m, "cannot use legacy intention API to edit intentions"):
		return "err:legacy-edit-not-allowed"
	case m == "Name is required":
		return "err:name-required"
	case inSrc && strings.Contains(m, "].Name is required"):
		return "err:src-name-required"
	case strings.Contains(m, "Name: wildcard character '*' cannot be used with partial values"):
		if inSrc {
			return "err:src-partial-wildcard"
		}
		return "err:dst-partial-wildcard"
	case strings.Contains(m, "At least one source is required"):
		return "err:no-sources"
	case strings.Contains(m, "Peer: cannot use wildcard"):
		return "err:peer-wildcard"
	case strings.Contains(m, "Peer cannot be set by legacy intentions"):
		return "err:legacy-peer"
	case strings.Contains(m, "LegacyID must be set"):
		return "err:legacy-id-required"
	case strings.Contains(m, "Action must be set to 'allow' or 'deny'"):
		return "err:action-invalid"
	case strings.Contains(m, "Action must be omitted if Permissions are specified"):
		return "err:action-with-perms"
	case strings.Contains(m, "Permissions cannot be specified on intentions with wildcarded destinations"):
		return "err:perms-on-wild-dst"
	case strings.Contains(m, "more than once"):
		return "err:dup-source"
	}
	return "err:other:" + hx.EncS(m)
}

func encSrcs(srcs []ixn) string {
	t := make([]string, len(srcs))
	for i, x := range srcs {
		t[i] = fmt.Sprintf("%s;%s;%s;%d", hx.EncS(x.peer), hx.EncS(x.src), x.act, x.perms)
		if x.inPrec != 0 {
			t[i] += fmt.Sprintf(";%d", x.inPrec)
		}
	}
	return hx.EncList(t)
}

// ent: what ConfigEntry.Apply does with a service-intentions entry
func (t *sut) ent(run *hx.Run, dst string, srcs []ixn) string {
	e := &structs.ServiceIntentionsConfigEntry{Kind: structs.ServiceIntentions, Name: dst}
	for _, x := range srcs {
		e.Sources = append(e.Sources, x.source())
	}
	return t.applyEntry(run, e, "ent")
}

// applyEntry: Normalize, Validate, EnsureConfigEntry of the given struct; the op line carries what was sent,
// including the Precedence fields (an exported field: fresh structs send 0, a read-modify-write sends back
// what the store returned).
func (t *sut) applyEntry(run *hx.Run, e *structs.ServiceIntentionsConfigEntry, tag string) string {
	sent := make([]ixn, len(e.Sources))
	for i, src := range e.Sources {
		sent[i] = ixn{peer: src.Peer, src: src.Name, dst: e.Name, act: actCode(src.Action), perms: len(src.Permissions), inPrec: src.Precedence}
	}
	op := fmt.Sprintf("ent %s %s", hx.EncS(e.Name), encSrcs(sent))
	var out string
	if err := e.Normalize(); err != nil {
		out = mapErr(err)
	} else if err := e.Validate(); err != nil {
		out = mapErr(err)
	} else {
		t.idx++
		out = mapErr(t.s.EnsureConfigEntry(t.idx, e))
	}
	t.line(run, op, out)
	run.Tag("op:" + tag + ":" + tagOf(out))
	t.auditPrec(run)
	return out
}

// rmw: the operator workflow "read the service-intentions entry, edit it, write it back": the struct read from
// the store (a clone, computed fields included) is edited in place and sent through the normal apply path.
// Returns "absent" when there is no such entry.
func (t *sut) rmw(run *hx.Run, name string, edit func(e *structs.ServiceIntentionsConfigEntry)) string {
	_, raw, err := t.s.ConfigEntry(nil, structs.ServiceIntentions, name, nil)
	must(err)
	if raw == nil {
		return "absent"
	}
	e := raw.(*structs.ServiceIntentionsConfigEntry).Clone()
	edit(e)
	return t.applyEntry(run, e, "rmw")
}

// auditPrec (monitor, after every write, no protocol line): the Precedence stored with every intention is
// the one recomputed from its names, whatever the client sent and whatever was stored before.
func (t *sut) auditPrec(run *hx.Run) {
	_, res, _, err := t.s.Intentions(nil, nil)
	must(err)
	for _, i := range res {
		o := observe(i)
		if o.src == "" || o.dst == "" {
			continue
		}
		if o.prec != precTable[specificity(o)] {
			violate(run, "write:stored-precedence-not-recomputed-from-names",
				fmt.Sprintf("after the last write %s/%s -> %s is stored with precedence %d, its names give %d", o.peer, o.src, o.dst, o.prec, precTable[specificity(o)]), t.ops)
		}
	}
}

func tagOf(out string) string {
	if strings.HasPrefix(out, "err:other") {
		return "err:other"
	}
	return out
}

func (t *sut) entdel(run *hx.Run, dst string) {
	t.idx++
	out := mapErr(t.s.DeleteConfigEntry(t.idx, structs.ServiceIntentions, dst, structs.DefaultEnterpriseMetaInDefaultPartition()))
	t.line(run, "entdel "+hx.EncS(dst), out)
	run.Tag("op:entdel")
}

func (t *sut) up(run *hx.Run, x ixn) string {
	t.idx++
	mut := &structs.IntentionMutation{
		Destination: structs.NewServiceName(x.dst, nil),
		Source:      structs.NewServiceName(x.src, nil),
		Value:       x.source(),
	}
	out := mapErr(t.s.IntentionMutation(t.idx, structs.IntentionOpUpsert, mut))
	op := fmt.Sprintf("up %s %s %s %d", hx.EncS(x.dst), hx.EncS(x.src), x.act, x.perms)
	if x.inPrec != 0 {
		op += fmt.Sprintf(" %d", x.inPrec)
	}
	t.line(run, op, out)
	run.Tag("op:up:" + tagOf(out))
	t.auditPrec(run)
	return out
}

func (t *sut) del(run *hx.Run, dst, src string) string {
	t.idx++
	mut := &structs.IntentionMutation{Destination: structs.NewServiceName(dst, nil), Source: structs.NewServiceName(src, nil)}
	out := mapErr(t.s.IntentionMutation(t.idx, structs.IntentionOpDelete, mut))
	t.line(run, fmt.Sprintf("del %s %s", hx.EncS(dst), hx.EncS(src)), out)
	run.Tag("op:del:" + tagOf(out))
	t.auditPrec(run)
	return out
}

// lcreate: the legacy intention API (create) on config entries
func (t *sut) lcreate(run *hx.Run, x ixn) string {
	t.idx++
	v := x.source()
	v.Permissions = nil
	v.LegacyID = x.id
	now := time.Unix(1700000000, 0).UTC()
	v.LegacyCreateTime, v.LegacyUpdateTime = &now, &now
	mut := &structs.IntentionMutation{Destination: structs.NewServiceName(x.dst, nil), Value: v}
	out := mapErr(t.s.IntentionMutation(t.idx, structs.IntentionOpCreate, mut))
	t.line(run, fmt.Sprintf("lcreate %s %s %s %s", hx.EncS(x.dst), hx.EncS(x.src), x.act, hx.EncS(x.id)), out)
	run.Tag("op:lcreate:" + tagOf(out))
	t.auditPrec(run)
	return out
}

// lupdate / ldelid: the legacy intention API (update / delete by id) on config entries
func (t *sut) lupdate(run *hx.Run, x ixn) string {
	t.idx++
	v := x.source()
	v.Permissions = nil
	v.LegacyID = x.id
	now := time.Unix(1700000001, 0).UTC()
	v.LegacyCreateTime, v.LegacyUpdateTime = &now, &now
	out := mapErr(t.s.IntentionMutation(t.idx, structs.IntentionOpUpdate, &structs.IntentionMutation{ID: x.id, Value: v}))
	t.line(run, fmt.Sprintf("lupdate %s %s %s", hx.EncS(x.id), hx.EncS(x.src), x.act), out)
	run.Tag("op:lupdate:" + tagOf(out))
	t.auditPrec(run)
	return out
}

func (t *sut) ldelid(run *hx.Run, id string) string {
	t.idx++
	out := mapErr(t.s.IntentionMutation(t.idx, structs.IntentionOpDelete, &structs.IntentionMutation{ID: id}))
	t.line(run, "ldelid "+hx.EncS(id), out)
	run.Tag("op:ldelid:" + tagOf(out))
	t.auditPrec(run)
	return out
}

func (t *sut) lset(run *hx.Run, x ixn) string {
	t.idx++
	row := &structs.Intention{ID: x.id, SourceNS: "default", SourceName: x.src, DestinationNS: "default", DestinationName: x.dst,
		SourceType: structs.IntentionSourceConsul, Action: actString(x.act)}
	out := mapErr(t.s.LegacyIntentionSet(t.idx, row))
	t.line(run, fmt.Sprintf("lset %s %s %s %s", hx.EncS(x.id), hx.EncS(x.src), hx.EncS(x.dst), x.act), out)
	run.Tag("op:lset:" + tagOf(out))
	t.auditPrec(run)
	return out
}

func (t *sut) ldel(run *hx.Run, id string) string {
	t.idx++
	out := mapErr(t.s.LegacyIntentionDelete(t.idx, id))
	t.line(run, "ldel "+hx.EncS(id), out)
	run.Tag("op:ldel:" + tagOf(out))
	return out
}

func entryOf(name string) structs.IntentionMatchEntry {
	return structs.IntentionMatchEntry{Namespace: "default", Partition: "default", Name: name}
}

func (t *sut) match(run *hx.Run, side, name string) []obs {
	mt := structs.IntentionMatchSource
	if side == "d" {
		mt = structs.IntentionMatchDestination
	}
	_, res, err := t.s.IntentionMatch(nil, &structs.IntentionQueryMatch{Type: mt, Entries: []structs.IntentionMatchEntry{entryOf(name)}})
	must(err)
	var out []obs
	for _, i := range res[0] {
		out = append(out, observe(i))
	}
	t.line(run, fmt.Sprintf("match %s %s", side, hx.EncS(name)), encObs(out))
	return out
}

func (t *sut) list(run *hx.Run) []obs {
	_, res, fromCfg, err := t.s.Intentions(nil, nil)
	must(err)
	if fromCfg != t.cfg {
		panic("store mode")
	}
	var out []obs
	for _, i := range res {
		out = append(out, observe(i))
	}
	t.line(run, "list", encObs(out))
	return out
}

type verdict struct{ allowed, perms, exact bool }

func (v verdict) enc() string {
	return fmt.Sprintf("a=%s p=%s x=%s", hx.EncBool(v.allowed), hx.EncBool(v.perms), hx.EncBool(v.exact))
}

func (t *sut) check(run *hx.Run, src, dst string, def, ap bool) verdict {
	_, ixns, err := t.s.IntentionMatchOne(nil, entryOf(src), structs.IntentionMatchSource, structs.IntentionTargetService)
	must(err)
	d, err := t.s.IntentionDecision(state.IntentionDecisionOpts{Target: dst, Namespace: "default", Partition: "default",
		Intentions: ixns, MatchType: structs.IntentionMatchDestination, DefaultAllow: def, AllowPermissions: ap})
	must(err)
	v := verdict{d.Allowed, d.HasPermissions, d.HasExact}
	t.line(run, fmt.Sprintf("check %s %s %s %s", hx.EncS(src), hx.EncS(dst), hx.EncBool(def), hx.EncBool(ap)), v.enc())
	return v
}

func (t *sut) authz(run *hx.Run, peer, src, dst string, def, ap bool) verdict {
	_, ixns, err := t.s.IntentionMatchOne(nil, entryOf(dst), structs.IntentionMatchDestination, structs.IntentionTargetService)
	must(err)
	d, err := t.s.IntentionDecision(state.IntentionDecisionOpts{Target: src, Namespace: "default", Partition: "default", Peer: peer,
		Intentions: ixns, MatchType: structs.IntentionMatchSource, DefaultAllow: def, AllowPermissions: ap})
	must(err)
	v := verdict{d.Allowed, d.HasPermissions, d.HasExact}
	t.line(run, fmt.Sprintf("authz %s %s %s %s %s", hx.EncS(peer), hx.EncS(src), hx.EncS(dst), hx.EncBool(def), hx.EncBool(ap)), v.enc())
	return v
}

// ---------------------------------------------------------------- the independent oracle

// mostSpecific restates the property: among the intentions covering (peer, src) -> dst the one with an
// exact destination wins over a wildcard destination, then an exact source over a wildcard source.
// Returns nil when nothing covers the pair; ambiguous=true when two equally specific intentions cover it.
func mostSpecific(set []obs, peer, src, dst string) (best *obs, ambiguous bool) {
	rank := -1
	for k := range set {
		i := &set[k]
		if i.peer != peer || (i.src != "*" && i.src != src) || (i.dst != "*" && i.dst != dst) {
			continue
		}
		r := specificity(*i)
		if r > rank {
			best, rank, ambiguous = i, r, false
		} else if r == rank {
			ambiguous = true
		}
	}
	return
}

func specificity(i obs) int {
	r := 0
	if i.dst != "*" {
		r += 2
	}
	if i.src != "*" {
		r++
	}
	return r
}

var precTable = [4]int{5, 6, 8, 9} // by specificity

func expected(best *obs, def, ap bool) verdict {
	if best == nil {
		return verdict{allowed: def}
	}
	v := verdict{allowed: best.act == "a", exact: best.src != "*" && best.dst != "*"}
	if best.perms > 0 {
		v.allowed, v.perms = ap, true
	}
	return v
}

// ---------------------------------------------------------------- queries + monitors on one store

type transcript struct {
	lines   []string // "<op> => <answer>" with legacy ids removed
	listed  []obs
	nontriv bool
}

func stripIDs(xs []obs) string {
	t := make([]string, len(xs))
	for i, x := range xs {
		t[i] = x.content()
	}
	return hx.EncList(t)
}

// interrogate runs the whole query set against one store and checks every answer against the oracle.
func interrogate(run *hx.Run, t *sut, names []string, peers []string) transcript {
	var tr transcript
	replay := func(extra string) []string { return append(append([]string(nil), t.ops...), extra) }
	listed := t.list(run)
	tr.listed = listed
	tr.lines = append(tr.lines, "list => "+stripIDs(listed))
	checkSorted(run, "list", listed, replay("list"))
	keys := map[string]bool{}
	for _, o := range listed {
		k := o.peer + "\x00" + o.src + "\x00" + o.dst
		if keys[k] && (o.src == "" || o.dst == "") {
			// Legacy rows with an empty name are outside the store's uniqueness promise: memdb leaves them out of
			// the unique (source, destination) index. No RPC can create them (Intention.Validate); the malformed
			// stream does, and the model mirrors it (theorem legacy_unnamed_rows_duplicate_counterexample).
			run.Tag("store:unnamed-legacy-rows-share-a-key(unindexed)")
		} else if keys[k] {
			violate(run, "store:duplicate-intention-key", fmt.Sprintf("two stored intentions for %s/%s -> %s", o.peer, o.src, o.dst), replay("list"))
		}
		keys[k] = true
		if o.odd != "" {
			run.Tag("outside-model:" + o.odd)
		}
	}
	qnames := append(append([]string(nil), names...), "*", "zzz")
	for _, side := range []string{"s", "d"} {
		for _, n := range qnames {
			got := t.match(run, side, n)
			op := fmt.Sprintf("match %s %s", side, hx.EncS(n))
			tr.lines = append(tr.lines, op+" => "+stripIDs(got))
			checkSorted(run, "match-"+side, got, replay(op))
			checkMatch(run, side, n, listed, got, replay(op))
		}
	}
	for _, s := range qnames {
		if s == "*" {
			continue // a caller is a concrete service
		}
		for _, d := range qnames {
			if d == "*" {
				continue
			}
			for _, mode := range [][2]bool{{false, false}, {true, true}} {
				def, ap := mode[0], mode[1]
				got := t.check(run, s, d, def, ap)
				op := fmt.Sprintf("check %s %s %s %s", hx.EncS(s), hx.EncS(d), hx.EncBool(def), hx.EncBool(ap))
				tr.lines = append(tr.lines, op+" => "+got.enc())
				best, amb := mostSpecific(listed, "", s, d)
				if amb {
					run.Tag("oracle:ambiguous")
				} else if want := expected(best, def, ap); got != want {
					violate(run, "decision:check-path-not-most-specific", fmt.Sprintf("check %s -> %s (default %v): got %s, the most specific intention gives %s", s, d, def, got.enc(), want.enc()), replay(op))
				}
				tagDecision(run, "check", best, got)
				if best != nil {
					tr.nontriv = true
				}
				for _, p := range peers {
					gotA := t.authz(run, p, s, d, def, ap)
					opA := fmt.Sprintf("authz %s %s %s %s %s", hx.EncS(p), hx.EncS(s), hx.EncS(d), hx.EncBool(def), hx.EncBool(ap))
					tr.lines = append(tr.lines, opA+" => "+gotA.enc())
					bestA, ambA := mostSpecific(listed, p, s, d)
					if ambA {
						run.Tag("oracle:ambiguous")
					} else if want := expected(bestA, def, ap); gotA != want {
						violate(run, "decision:authz-path-not-most-specific", fmt.Sprintf("authz %s/%s -> %s (default %v): got %s, the most specific intention gives %s", p, s, d, def, gotA.enc(), want.enc()), replay(opA))
					}
					if p == "" && gotA != got {
						violate(run, "path:check-and-authz-disagree", fmt.Sprintf("%s -> %s: check says %s, authorize says %s", s, d, got.enc(), gotA.enc()), replay(opA))
					}
					if p != "" {
						tagDecision(run, "authz-peer", bestA, gotA)
					}
				}
			}
		}
	}
	return tr
}

func tagDecision(run *hx.Run, path string, best *obs, got verdict) {
	switch {
	case best == nil:
		run.Tag("decision:" + path + ":default")
	case best.perms > 0:
		run.Tag(fmt.Sprintf("decision:%s:L7:spec%d", path, specificity(*best)))
	default:
		run.Tag(fmt.Sprintf("decision:%s:%s:spec%d", path, best.act, specificity(*best)))
	}
}

// checkSorted: results are in precedence order and carry the documented precedence numbers.
func checkSorted(run *hx.Run, what string, xs []obs, replay []string) {
	for k, x := range xs {
		if x.prec != precTable[specificity(x)] {
			violate(run, "match:precedence-number", fmt.Sprintf("%s/%s -> %s has precedence %d, expected %d", x.peer, x.src, x.dst, x.prec, precTable[specificity(x)]), replay)
		}
		if k > 0 && specificity(xs[k-1]) < specificity(x) {
			violate(run, "match:"+what+"-not-in-precedence-order", fmt.Sprintf("%s listed before %s", xs[k-1].content(), x.content()), replay)
		}
	}
}

// checkMatch: a match returns every stored intention covering the name on that side and only such.
func checkMatch(run *hx.Run, side, n string, listed, got []obs, replay []string) {
	covers := func(o obs) bool {
		f := o.src
		if side == "d" {
			f = o.dst
		}
		return f == "*" || f == n
	}
	have := map[string]bool{}
	for _, o := range got {
		have[o.content()] = true
		if !covers(o) {
			violate(run, "match:returns-non-matching-intention", fmt.Sprintf("match %s %s returned %s", side, n, o.content()), replay)
		}
		if side == "s" && o.peer != "" {
			// source matches are documented as local-only, yet a peer source rides along when the same
			// entry also has a local source of that name; harmless for decisions (the local one sorts first)
			run.Tag("match-s:peer-source-returned")
		}
	}
	for _, o := range listed {
		if covers(o) && (side == "d" || o.peer == "") && !have[o.content()] {
			violate(run, "match:misses-matching-intention", fmt.Sprintf("match %s %s does not return %s", side, n, o.content()), replay)
		}
	}
	if len(got) == 0 {
		run.Tag("match-" + side + ":empty")
	} else {
		run.Tag(fmt.Sprintf("match-%s:len%d", side, min(len(got), 5)))
	}
}

func compareTranscripts(run *hx.Run, sig string, a, b transcript, opsA, opsB []string) {
	for k := range a.lines {
		if k >= len(b.lines) || a.lines[k] != b.lines[k] {
			other := "<missing>"
			if k < len(b.lines) {
				other = b.lines[k]
			}
			kind := strings.SplitN(a.lines[k], " ", 2)[0]
			violate(run, sig+":"+kind, fmt.Sprintf("same set of intentions, different answer: %q vs %q", a.lines[k], other),
				append(append(append([]string(nil), opsA...), "# versus"), opsB...))
			return
		}
	}
}

// ---------------------------------------------------------------- generators

// prefixes of each other, ASCII punctuation around '0', a multi-byte name: the tie-break is bytewise
var universe = []string{"web", "api", "we", "web2", "db", "a", "web-1", "web.1", "é"}
var peerPool = []string{"p1", "p"}

func pickNames(r *hx.RNG, k int) []string {
	u := append([]string(nil), universe...)
	hx.Shuffle(r, u)
	return u[:k]
}

// genSet draws n intentions with pairwise distinct (peer, src, dst).
func genSet(r *hx.RNG, names []string, peers []string, l7 bool, n int) []ixn {
	ends := append(append([]string(nil), names...), "*")
	seen := map[string]bool{}
	var out []ixn
	for tries := 0; len(out) < n && tries < 200; tries++ {
		x := ixn{src: hx.Pick(r, ends), dst: hx.Pick(r, ends), act: "a"}
		if r.Chance(40) { // wildcards are where the precedence rules bite
			if r.Bool() {
				x.src = "*"
			} else {
				x.dst = "*"
			}
		}
		if len(peers) > 0 && r.Chance(30) {
			x.peer = hx.Pick(r, peers)
		}
		if r.Bool() {
			x.act = "d"
		}
		if l7 && x.dst != "*" && r.Chance(25) {
			x.act, x.perms = "n", 1+r.Intn(2)
		}
		if seen[x.key()] {
			continue
		}
		seen[x.key()] = true
		out = append(out, x)
	}
	return out
}

func permutations(r *hx.RNG, n, limit int) [][]int {
	id := make([]int, n)
	for i := range id {
		id[i] = i
	}
	var all [][]int
	if n <= 4 {
		var rec func(k int)
		rec = func(k int) {
			if k == n {
				all = append(all, append([]int(nil), id...))
				return
			}
			for i := k; i < n; i++ {
				id[k], id[i] = id[i], id[k]
				rec(k + 1)
				id[k], id[i] = id[i], id[k]
			}
		}
		rec(0)
		if len(all) > limit {
			rest := all[1:]
			hx.Shuffle(r, rest)
			all = all[:limit]
		}
		return all
	}
	all = append(all, append([]int(nil), id...))
	rev := make([]int, n)
	for i := range rev {
		rev[i] = n - 1 - i
	}
	all = append(all, rev)
	for len(all) < limit {
		p := append([]int(nil), id...)
		hx.Shuffle(r, p)
		all = append(all, p)
	}
	return all
}

var idPool = []string{
	"00000000-0000-0000-0000-000000000001", "ffffffff-0000-0000-0000-000000000002",
	"10000000-0000-0000-0000-000000000003", "0fffffff-0000-0000-0000-000000000004",
	"a0000000-0000-0000-0000-000000000005", "9fffffff-0000-0000-0000-000000000006",
	"50000000-0000-0000-0000-000000000007", "4fffffff-0000-0000-0000-000000000008",
}

// write one permutation of the set into a fresh store in the given style.
func build(run *hx.Run, r *hx.RNG, style string, set []ixn, perm []int) *sut {
	switch style {
	case "up": // one IntentionMutation upsert per intention (local sources only)
		t := newSUT(run, true)
		for _, k := range perm {
			if out := t.up(run, set[k]); out != "ok" {
				violate(run, "write:valid-upsert-rejected", out, t.ops)
			}
		}
		return t
	case "ent": // whole config entries; entry order and source order follow the permutation
		t := newSUT(run, true)
		var order []string
		groups := map[string][]ixn{}
		for _, k := range perm {
			x := set[k]
			if _, ok := groups[x.dst]; !ok {
				order = append(order, x.dst)
			}
			groups[x.dst] = append(groups[x.dst], x)
		}
		for _, d := range order {
			if out := t.ent(run, d, groups[d]); out != "ok" {
				violate(run, "write:valid-entry-rejected", out, t.ops)
			}
		}
		return t
	case "ent-prec", "up-prec": // the same writes, the client sending arbitrary Precedence values
		t := newSUT(run, true)
		garbage := []int{1, 3, 5, 6, 8, 9, 10, 77}
		if style == "up-prec" {
			for _, k := range perm {
				x := set[k]
				x.inPrec = hx.Pick(r, garbage)
				if out := t.up(run, x); out != "ok" {
					violate(run, "write:valid-upsert-rejected", out, t.ops)
				}
			}
			return t
		}
		var order []string
		groups := map[string][]ixn{}
		for _, k := range perm {
			x := set[k]
			x.inPrec = hx.Pick(r, garbage)
			if _, ok := groups[x.dst]; !ok {
				order = append(order, x.dst)
			}
			groups[x.dst] = append(groups[x.dst], x)
		}
		for _, d := range order {
			if out := t.ent(run, d, groups[d]); out != "ok" {
				violate(run, "write:valid-entry-rejected", out, t.ops)
			}
		}
		return t
	case "rmw": // every entry reaches its final content through read - edit - write back of a different pre-image
		t := newSUT(run, true)
		var order []string
		groups := map[string][]ixn{}
		for _, k := range perm {
			x := set[k]
			if _, ok := groups[x.dst]; !ok {
				order = append(order, x.dst)
			}
			groups[x.dst] = append(groups[x.dst], x)
		}
		flipAct := func(a string) string {
			switch a {
			case "a":
				return "d"
			case "d":
				return "a"
			}
			return a
		}
		for _, d := range order {
			g := groups[d]
			kind := r.Intn(3)
			hasPerms := false
			for _, x := range g {
				if x.perms > 0 {
					hasPerms = true
				}
			}
			alt := "*"
			if d == "*" {
				alt = "zz9"
			}
			if _, clash := groups[alt]; kind == 1 && (clash || (hasPerms && alt == "*")) {
				kind = 0
			}
			switch kind {
			case 0: // one source was written under the other kind of name (exact <-> wildcard) and is renamed
				j := r.Intn(len(g))
				other := "*"
				if g[j].src == "*" {
					other = "zz7"
				}
				clash := false
				for _, x := range g {
					if x.peer == g[j].peer && x.src == other {
						clash = true
					}
				}
				if clash {
					other = "zz8"
				}
				pre := append([]ixn(nil), g...)
				pre[j].src, pre[j].act = other, flipAct(pre[j].act)
				want := g[j]
				if out := t.ent(run, d, pre); out != "ok" {
					violate(run, "write:valid-entry-rejected", out, t.ops)
				}
				out := t.rmw(run, d, func(e *structs.ServiceIntentionsConfigEntry) {
					for _, src := range e.Sources {
						if src.Peer == want.peer && src.Name == other {
							src.Name, src.Action = want.src, actString(want.act)
						}
					}
				})
				if out != "ok" {
					violate(run, "write:valid-read-modify-write-rejected", out, t.ops)
				}
				run.Tag("rmw:source-name-exact<->wildcard")
			case 1: // the whole entry was written for the other kind of destination and is moved
				pre := append([]ixn(nil), g...)
				for j := range pre {
					pre[j].dst = alt
				}
				if out := t.ent(run, alt, pre); out != "ok" {
					violate(run, "write:valid-entry-rejected", out, t.ops)
				}
				if out := t.rmw(run, alt, func(e *structs.ServiceIntentionsConfigEntry) { e.Name = d }); out != "ok" {
					violate(run, "write:valid-read-modify-write-rejected", out, t.ops)
				}
				t.entdel(run, alt)
				run.Tag("rmw:destination-exact<->wildcard")
			default: // only actions change (the precedence carried over is the right one)
				pre := append([]ixn(nil), g...)
				for j := range pre {
					pre[j].act = flipAct(pre[j].act)
				}
				if out := t.ent(run, d, pre); out != "ok" {
					violate(run, "write:valid-entry-rejected", out, t.ops)
				}
				out := t.rmw(run, d, func(e *structs.ServiceIntentionsConfigEntry) {
					for _, src := range e.Sources {
						src.Action = actString(flipAct(actCode(src.Action)))
					}
				})
				if out != "ok" {
					violate(run, "write:valid-read-modify-write-rejected", out, t.ops)
				}
				run.Tag("rmw:action-only")
			}
		}
		return t
	case "legacy": // legacy table rows, ids handed out in a shuffled order
		t := newSUT(run, false)
		ids := append([]string(nil), idPool...)
		hx.Shuffle(r, ids)
		for n, k := range perm {
			x := set[k]
			x.id = ids[n%len(ids)]
			if out := t.lset(run, x); out != "ok" {
				violate(run, "write:valid-legacy-row-rejected", out, t.ops)
			}
		}
		return t
	case "lcreate": // legacy API writes on config entries
		t := newSUT(run, true)
		ids := append([]string(nil), idPool...)
		hx.Shuffle(r, ids)
		for n, k := range perm {
			x := set[k]
			x.id = ids[n%len(ids)]
			if out := t.lcreate(run, x); out != "ok" {
				violate(run, "write:valid-legacy-create-rejected", out, t.ops)
			}
		}
		return t
	case "lupdate": // legacy API: create everything with the opposite action, then update each by id
		t := newSUT(run, true)
		ids := append([]string(nil), idPool...)
		hx.Shuffle(r, ids)
		for n, k := range perm {
			x := set[k]
			x.id = ids[n%len(ids)]
			if x.act == "a" {
				x.act = "d"
			} else {
				x.act = "a"
			}
			if out := t.lcreate(run, x); out != "ok" {
				violate(run, "write:valid-legacy-create-rejected", out, t.ops)
			}
		}
		for n := len(perm) - 1; n >= 0; n-- {
			x := set[perm[n]]
			x.id = ids[n%len(ids)]
			if out := t.lupdate(run, x); out != "ok" {
				violate(run, "write:valid-legacy-update-rejected", out, t.ops)
			}
		}
		return t
	}
	panic(style)
}

func sameSet(listed []obs, set []ixn) bool {
	if len(listed) != len(set) {
		return false
	}
	want := map[string]bool{}
	for _, x := range set {
		want[fmt.Sprintf("%s|%s|%s|%s|%d", x.peer, x.src, x.dst, x.act, x.perms)] = true
	}
	for _, o := range listed {
		if !want[fmt.Sprintf("%s|%s|%s|%s|%d", o.peer, o.src, o.dst, o.act, o.perms)] {
			return false
		}
	}
	return true
}

// permCase: one set, several write orders and representations, every query on every store.
func permCase(run *hx.Run, r *hx.RNG, set []ixn, names []string, styles []string, limit int, label string) {
	peers := []string{""}
	hasPeer, hasL7 := false, false
	for _, x := range set {
		if x.peer != "" {
			hasPeer = true
		}
		if x.perms > 0 {
			hasL7 = true
		}
	}
	if hasPeer {
		peers = append(peers, peerPool...)
	}
	perms := permutations(r, len(set), limit)
	var first *transcript
	var firstOps []string
	nontriv := false
	for _, style := range styles {
		for pi, p := range perms {
			if pi >= 2 && (style == "rmw" || strings.HasSuffix(style, "-prec")) {
				continue // these styles vary the write path, two orders each are enough
			}
			t := build(run, r, style, set, p)
			tr := interrogate(run, t, names, peers)
			nontriv = nontriv || tr.nontriv
			if !sameSet(tr.listed, set) {
				violate(run, "store:listed-set-differs-from-written-set", fmt.Sprintf("wrote %d intentions, store lists %s", len(set), stripIDs(tr.listed)), t.ops)
			}
			if first == nil {
				first, firstOps = &tr, t.ops
			} else {
				sig := "order"
				if style != styles[0] {
					sig = "repr"
				}
				compareTranscripts(run, sig, *first, tr, firstOps, t.ops)
			}
			run.Tag("store:" + style)
		}
	}
	run.Tag(fmt.Sprintf("%s:set%d:perms%d", label, len(set), len(perms)))
	if hasPeer {
		run.Tag(label + ":with-peer-sources")
	}
	if hasL7 {
		run.Tag(label + ":with-L7")
	}
	var ks []string
	for _, x := range set {
		ks = append(ks, fmt.Sprintf("%s|%s|%s|%s|%d", x.peer, x.src, x.dst, x.act, x.perms))
	}
	sort.Strings(ks)
	run.Case(label+strings.Join(ks, ","), nontriv)
	run.Sample(map[string]any{"kind": label, "set": ks, "orders": len(perms), "styles": styles})
}

// historyCase: a random edit history (overwrites, deletes, invalid writes), interrogated on the way.
func historyCase(run *hx.Run, r *hx.RNG) {
	names := pickNames(r, 2+r.Intn(2))
	ends := append(append([]string(nil), names...), "*")
	cfg := !r.Chance(25)
	t := newSUT(run, cfg)
	steps := 3 + r.Intn(8)
	usedIDs := []string{}
	unnamed := map[string]bool{}
	nontriv := false
	for k := 0; k < steps; k++ {
		x := ixn{src: hx.Pick(r, ends), dst: hx.Pick(r, ends), act: hx.Pick(r, []string{"a", "d"})}
		if r.Chance(8) {
			x.src = hx.Pick(r, []string{"", "we*", "*b"})
		}
		if r.Chance(5) {
			x.dst = hx.Pick(r, []string{"", "a*"})
		}
		roll := r.Intn(100)
		if !cfg {
			switch {
			case roll < 65:
				x.id = hx.Pick(r, idPool[:5])
				if r.Chance(4) {
					x.id = ""
				}
				if x.src == "" || x.dst == "" {
					// unnamed rows escape the unique index; two with one key would sort in an unspecified
					// order (sort.Sort is not stable), so only the fixed probe creates such a pair
					if unnamed[x.key()] {
						x.dst, x.src = names[0], names[0]
					}
					unnamed[x.key()] = true
				}
				t.lset(run, x)
				usedIDs = append(usedIDs, x.id)
			case roll < 85:
				t.ldel(run, hx.Pick(r, idPool[:5]))
			case roll < 90:
				t.up(run, x)
			case roll < 94:
				t.ldelid(run, hx.Pick(r, idPool))
			default:
				t.del(run, x.dst, x.src)
			}
		} else {
			switch {
			case roll < 35:
				if r.Chance(25) && x.dst != "*" {
					x.act, x.perms = "n", 1
				}
				if r.Chance(8) {
					x.act = hx.Pick(r, []string{"n", "b"})
				}
				if r.Chance(5) {
					x.perms = 1 // with an action, or on a wildcard destination: invalid
				}
				if r.Chance(30) {
					x.inPrec = hx.Pick(r, []int{1, 5, 6, 8, 9, 12})
				}
				t.up(run, x)
			case roll < 43: // read - edit - write back of a stored entry
				flip := func(n string) string {
					if n == "*" {
						return hx.Pick(r, names)
					}
					return "*"
				}
				kind := r.Intn(3)
				out := t.rmw(run, x.dst, func(e *structs.ServiceIntentionsConfigEntry) {
					switch {
					case kind == 0 && len(e.Sources) > 0:
						src := e.Sources[r.Intn(len(e.Sources))]
						src.Name = flip(src.Name)
					case kind == 1:
						e.Name = flip(e.Name)
					default:
						for _, src := range e.Sources {
							if src.Action == structs.IntentionActionAllow {
								src.Action = structs.IntentionActionDeny
							}
						}
					}
				})
				run.Tag("op:rmw-attempt:" + tagOf(out))
			case roll < 50:
				t.del(run, x.dst, x.src)
			case roll < 70:
				n := r.Intn(4)
				var srcs []ixn
				for j := 0; j < n; j++ {
					y := ixn{src: hx.Pick(r, ends), dst: x.dst, act: hx.Pick(r, []string{"a", "d"})}
					if r.Chance(35) {
						y.peer = hx.Pick(r, []string{"p1", "p", "p*"})
					}
					if r.Chance(20) {
						y.act, y.perms = "n", 1+r.Intn(2)
					}
					if r.Chance(6) {
						y.act = hx.Pick(r, []string{"n", "b"})
					}
					if r.Chance(5) {
						y.src = hx.Pick(r, []string{"", "w*"})
					}
					if r.Chance(30) {
						y.inPrec = hx.Pick(r, []int{1, 5, 6, 8, 9, 12})
					}
					srcs = append(srcs, y)
				}
				t.ent(run, x.dst, srcs)
			case roll < 74:
				t.entdel(run, x.dst)
			case roll < 85:
				x.id = t.freshID(r)
				if r.Chance(5) {
					x.id = ""
				}
				if t.lcreate(run, x) == "ok" {
					usedIDs = append(usedIDs, x.id)
				}
			case roll < 91:
				x.id = hx.Pick(r, idPool)
				if len(usedIDs) > 0 && r.Chance(75) {
					x.id = hx.Pick(r, usedIDs)
				}
				t.lupdate(run, x)
			case roll < 94:
				id := hx.Pick(r, idPool)
				if len(usedIDs) > 0 && r.Chance(75) {
					id = hx.Pick(r, usedIDs)
				}
				t.ldelid(run, id)
			case roll < 97:
				x.id = hx.Pick(r, idPool)
				t.lset(run, x)
			default:
				t.ldel(run, hx.Pick(r, idPool))
			}
		}
		if k == steps-1 || r.Chance(25) {
			tr := interrogate(run, t, names, []string{"", "p1", "p"})
			nontriv = nontriv || tr.nontriv
		}
	}
	mode := "legacy"
	if cfg {
		mode = "cfg"
	}
	run.Tag("history:" + mode)
	run.Case("history:"+strings.Join(t.ops, "|"), nontriv)
	run.Sample(map[string]any{"kind": "history", "ops": t.ops[:min(len(t.ops), 12)]})
}

// exhaustive: every key set of size <= maxSize over names {a, b, *} and peers {"", p}, every write order.
func exhaustive(run *hx.Run, r *hx.RNG, maxSize int) {
	ends := []string{"a", "b", "*"}
	var keys []ixn
	for _, p := range []string{"", "p"} {
		for _, s := range ends {
			for _, d := range ends {
				keys = append(keys, ixn{peer: p, src: s, dst: d})
			}
		}
	}
	n := 0
	var rec func(start int, cur []ixn)
	rec = func(start int, cur []ixn) {
		if len(cur) > 0 {
			set := make([]ixn, len(cur))
			for k, x := range cur {
				x.act = hx.Pick(r, []string{"a", "d"})
				if x.dst != "*" && r.Chance(20) {
					x.act, x.perms = "n", 1
				}
				set[k] = x
			}
			permCase(run, r, set, []string{"a", "b"}, []string{"ent", "rmw"}, 6, "exhaustive")
			n++
		}
		if len(cur) == maxSize {
			return
		}
		for k := start; k < len(keys); k++ {
			rec(k+1, append(cur, keys[k]))
		}
	}
	rec(0, nil)
	run.Extra["exhaustive"] = map[string]any{"scope": fmt.Sprintf("all key sets of size<=%d over src,dst in {a,b,*} x peer in {local,p}; all write orders; actions drawn per set", maxSize), "sets": n, "exhaustive": true}
}

// byNameProbe replays a fixed witness on every run: Store.IntentionMutation identifies the source of an
// upsert / delete by its ServiceName only (UpsertSourceByName / DeleteSourceByName ignore the peer), so a
// by-name mutation meant for the local `web -> api` hits the peer intention `p1/web -> api` when that one is
// stored first. The lines are compared with the model (which mirrors the code). Monitor (model independent):
// a by-name delete of the local intention removes exactly that one, a by-name upsert of a local intention
// leaves a peer-sourced one in place — signature mutation:by-name-ignores-peer (listed in known_findings.txt).
func byNameProbe(run *hx.Run) {
	const sig = "mutation:by-name-ignores-peer"
	has := func(xs []obs, peer string) bool {
		for _, o := range xs {
			if o.peer == peer && o.src == "web" && o.dst == "api" {
				return true
			}
		}
		return false
	}
	for k, order := range [][]ixn{
		{{peer: "p1", src: "web", dst: "api", act: "d"}, {src: "web", dst: "api", act: "a"}},
		{{src: "web", dst: "api", act: "a"}, {peer: "p1", src: "web", dst: "api", act: "d"}},
	} {
		t := newSUT(run, true)
		t.ent(run, "api", order)
		t.del(run, "api", "web")
		left := t.list(run)
		t.authz(run, "p1", "web", "api", true, false)
		t.authz(run, "", "web", "api", false, false)
		if has(left, "") || !has(left, "p1") {
			run.Violate(sig, fmt.Sprintf("entry api = [%s]: deleting the local web -> api by name left %s (the peer-sourced p1/web -> api must stay, the local one must go; the outcome follows the stored source order)",
				encSrcs(order), stripIDs(left)), t.ops)
		} else {
			run.Tag(fmt.Sprintf("probe:delete-by-name-removed-local-source:order%d", k))
		}
	}
	t2 := newSUT(run, true)
	t2.ent(run, "api", []ixn{{peer: "p1", src: "web", dst: "api", act: "d"}})
	t2.up(run, ixn{src: "web", dst: "api", act: "a"})
	if left := t2.list(run); !has(left, "p1") || !has(left, "") {
		run.Violate(sig, fmt.Sprintf("entry api = [p1/web deny]: upserting the local web -> api by name left %s (the peer-sourced intention was replaced)", stripIDs(left)), t2.ops)
	}
	run.Case("by-name-probe", true)
}

// unnamedLegacyProbe: the legacy table's unique (source, destination) index skips rows with an empty name, so
// two such rows are accepted while a named duplicate is rejected. Fixed lines for the model on every run.
func unnamedLegacyProbe(run *hx.Run) {
	t := newSUT(run, false)
	t.lset(run, ixn{id: idPool[0], src: "web", dst: "", act: "a"})
	// identical content: the relative order of equal keys under sort.Sort is unspecified and must not show
	t.lset(run, ixn{id: idPool[1], src: "web", dst: "", act: "a"})
	t.lset(run, ixn{id: idPool[2], src: "", dst: "api", act: "d"})
	t.lset(run, ixn{id: idPool[3], src: "", dst: "api", act: "d"})
	t.lset(run, ixn{id: idPool[4], src: "web", dst: "api", act: "a"})
	if out := t.lset(run, ixn{id: idPool[5], src: "web", dst: "api", act: "d"}); out != "err:dup-legacy" {
		violate(run, "store:named-duplicate-legacy-row-accepted", out, t.ops)
	}
	interrogate(run, t, []string{"web", "api"}, []string{""})
	run.Case("unnamed-legacy-probe", true)
}

// caseProbe: names that differ only in letter case. memdb lower-cases the config-entry primary key and every
// legacy index key, while sources inside entries, the sorter and connect.IntentionMatch compare exact bytes.
func caseProbe(run *hx.Run) {
	// the witness of known finding case:destination-name-differs-only-in-case: one entry "Web" with api -> Web
	// deny; for the pair api -> web the authorize path finds the entry under the lower-cased key and denies,
	// Intention.Check compares the destination bytes and falls back to the default
	w := newSUT(run, true)
	w.ent(run, "Web", []ixn{{src: "api", dst: "Web", act: "d"}})
	if c, a := w.check(run, "api", "web", true, false), w.authz(run, "", "api", "web", true, false); c != a {
		run.Violate("case:destination-name-differs-only-in-case",
			fmt.Sprintf("entry \"Web\" = [api deny]: for api -> web Intention.Check says %s, the authorize path says %s", c.enc(), a.enc()), w.ops)
	}
	t := newSUT(run, true)
	t.ent(run, "Web", []ixn{{src: "api", dst: "Web", act: "d"}, {src: "API", dst: "Web", act: "a"}})
	q := func(t *sut) {
		t.list(run)
		for _, n := range []string{"web", "Web", "api", "API"} {
			t.match(run, "d", n)
			t.match(run, "s", n)
		}
		for _, sd := range [][2]string{{"api", "web"}, {"api", "Web"}, {"API", "web"}, {"API", "Web"}} {
			t.check(run, sd[0], sd[1], true, false)
			t.authz(run, "", sd[0], sd[1], true, false)
		}
	}
	q(t)
	t.up(run, ixn{src: "db", dst: "web", act: "a"})
	q(t)
	t.ent(run, "web", []ixn{{src: "api", dst: "web", act: "a"}})
	q(t)
	t.del(run, "WEB", "api")
	t.list(run)
	l := newSUT(run, false)
	l.lset(run, ixn{id: idPool[0], src: "API", dst: "Web", act: "a"})
	l.lset(run, ixn{id: idPool[1], src: "api", dst: "web", act: "d"})
	l.lset(run, ixn{id: idPool[2], src: "api", dst: "db", act: "d"})
	q(l)
	run.Case("case-probe", true)
}

// caseHistory: random edits and queries over names that differ only in letter case. Model-vs-implementation
// lines only: the monitors above restate the property for lower-case names (the property's notion of "the
// same service"); where the lower-cased memdb keys make the two decision pipelines disagree the case is
// tagged finding:case-…; the fixed witness in caseProbe raises the known finding
// case:destination-name-differs-only-in-case once per run.
func caseHistory(run *hx.Run, r *hx.RNG) {
	names := []string{"web", "Web", "api", "API", "db"}
	ends := append(append([]string(nil), names...), "*")
	cfg := !r.Chance(30)
	t := newSUT(run, cfg)
	steps := 2 + r.Intn(6)
	for k := 0; k < steps; k++ {
		x := ixn{src: hx.Pick(r, ends), dst: hx.Pick(r, ends), act: hx.Pick(r, []string{"a", "d"})}
		roll := r.Intn(100)
		switch {
		case !cfg && roll < 80:
			x.id = hx.Pick(r, idPool[:6])
			t.lset(run, x)
		case !cfg:
			t.ldel(run, hx.Pick(r, idPool[:6]))
		case roll < 40:
			t.up(run, x)
		case roll < 55:
			t.del(run, x.dst, x.src)
		case roll < 80:
			var srcs []ixn
			for j := 1 + r.Intn(3); j > 0; j-- {
				srcs = append(srcs, ixn{src: hx.Pick(r, ends), dst: x.dst, act: hx.Pick(r, []string{"a", "d"})})
			}
			t.ent(run, x.dst, srcs)
		case roll < 88:
			t.entdel(run, x.dst)
		default:
			x.id = t.freshID(r)
			t.lcreate(run, x)
		}
	}
	t.list(run)
	for _, n := range names {
		t.match(run, "s", n)
		t.match(run, "d", n)
	}
	for _, s := range names {
		for _, d := range names {
			c := t.check(run, s, d, true, false)
			a := t.authz(run, "", s, d, true, false)
			if c != a {
				run.Tag("finding:case-variant-name:check-and-authz-disagree")
			}
		}
	}
	run.Tag("case-history")
	run.Case("case:"+strings.Join(t.ops, "|"), true)
}

func main() {
	run := hx.Start()
	run.Rule = "one case = one set of intentions with distinct (peer, source, destination) written in several orders and representations into real state stores (or one random edit history), each store asked every match / list / decision query over the case's names; distinct by the set (or history); non-trivial = at least one decision is made by a stored intention rather than the default policy"
	byNameProbe(run)
	unnamedLegacyProbe(run)
	caseProbe(run)
	n := run.Scale(250, 1500)
	for i := 0; i < n; i++ {
		r := run.RNG.Fork(uint64(i))
		switch i % 5 {
		case 0: // local L4 sets: every representation must agree
			names := pickNames(r, 2+r.Intn(2))
			set := genSet(r, names, nil, false, 1+r.Intn(5))
			permCase(run, r, set, names, []string{"up", "ent", "legacy", "lcreate", "lupdate", "rmw", "up-prec"}, run.Scale(3, 6), "local-l4")
		case 1: // peers and L7: config entries only
			names := pickNames(r, 2+r.Intn(2))
			set := genSet(r, names, peerPool, true, 1+r.Intn(6))
			permCase(run, r, set, names, []string{"ent", "rmw", "ent-prec"}, run.Scale(4, 12), "peer-l7")
		case 2: // local with L7: upserts and whole entries
			names := pickNames(r, 2+r.Intn(2))
			set := genSet(r, names, nil, true, 1+r.Intn(5))
			permCase(run, r, set, names, []string{"up", "ent", "rmw", "ent-prec", "up-prec"}, run.Scale(4, 8), "local-l7")
		default:
			historyCase(run, r)
		}
	}
	for i := 0; i < run.Scale(40, 300); i++ {
		caseHistory(run, run.RNG.Fork(uint64(1<<41+i)))
	}
	exhaustive(run, run.RNG.Fork(1<<40), run.Scale(2, 3))
	run.Finish()
}
