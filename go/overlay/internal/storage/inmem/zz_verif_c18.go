//go:build verif

package inmem

import (
	"github.com/hashicorp/consul/agent/consul/stream"
	"github.com/hashicorp/consul/proto-public/pbresource"
)

// Export shims for the C18 harness (never part of a normal build).

func (s *Store) VerifC18Pub() *stream.EventPublisher { return s.pub }

func (b *Backend) VerifC18Store() *Store { return b.store }

func (w *Watch) verifC18Delivers(e stream.Event) bool {
	p, ok := e.Payload.(eventPayload)
	if !ok {
		return false
	}
	var res *pbresource.Resource
	switch {
	case p.event.GetUpsert() != nil:
		res = p.event.GetUpsert().GetResource()
	case p.event.GetDelete() != nil:
		res = p.event.GetDelete().GetResource()
	case p.event.GetEndOfSnapshot() != nil:
		return true
	default:
		return true // Next returns an error for it: does not block
	}
	return w.query.matches(res)
}

// VerifC18WouldBlock reports whether Next would block right now (nothing deliverable is
// buffered and the subscription is open). Used only to avoid timing-based polling.
func (w *Watch) VerifC18WouldBlock() bool {
	for _, e := range w.events {
		if w.verifC18Delivers(e) {
			return false
		}
	}
	batches, open := w.sub.VerifC18Peek()
	if !open {
		return false
	}
	for _, b := range batches {
		for _, e := range b {
			if e.IsFramingEvent() {
				continue
			}
			if w.verifC18Delivers(e) {
				return false
			}
		}
	}
	return true
}
