//go:build verif

package inmem

import (
	"reflect"

	"github.com/hashicorp/consul/agent/consul/stream"
	"github.com/hashicorp/consul/proto-public/pbresource"
)

// Export shims for the C18 harness (never part of a normal build).

func (s *Store) VerifC18Pub() *stream.EventPublisher { return s.pub }

func (b *Backend) VerifC18Store() *Store { return b.store }

func (w *Watch) verifC18Delivers(e stream.Event) bool {
	p, ok := e.Payload.(eventPayload)
	if !ok {
		return false
	}
	var res *pbresource.Resource
	switch {
	case p.event.GetUpsert() != nil:
		res = p.event.GetUpsert().GetResource()
	case p.event.GetDelete() != nil:
		res = p.event.GetDelete().GetResource()
	case p.event.GetEndOfSnapshot() != nil:
		return true
	default:
		return true // Next returns an error for it: does not block
	}
	return w.query.matches(res)
}

// VerifC18WouldBlock reports whether Next would block right now (nothing deliverable is
// buffered and the subscription is open). Used only to avoid timing-based polling.
func (w *Watch) VerifC18WouldBlock() bool {
	for _, e := range w.events {
		if w.verifC18Delivers(e) {
			return false
		}
	}
	batches, open := w.sub.VerifC18Peek()
	if !open {
		return false
	}
	// A store whose Watch remembers the index of the last accepted batch (a field named idx; it does not
	// exist in the tree this harness was written against, hence reflection) skips batches that are not newer.
	guard, hasGuard := uint64(0), false
	if f := reflect.ValueOf(w).Elem().FieldByName("idx"); f.IsValid() && f.Kind() == reflect.Uint64 {
		guard, hasGuard = f.Uint(), true
	}
	for _, b := range batches {
		if len(b) > 0 && !b[0].IsFramingEvent() {
			if b[0].Index <= guard {
				continue
			}
			if hasGuard {
				guard = b[0].Index
			}
		}
		for _, e := range b {
			if e.IsFramingEvent() {
				continue
			}
			if w.verifC18Delivers(e) {
				return false
			}
		}
	}
	return true
}
