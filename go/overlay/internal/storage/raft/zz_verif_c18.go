//go:build verif

package raft

import "github.com/hashicorp/consul/internal/storage/inmem"

// Export shim for the C18 harness (never part of a normal build).
func (b *Backend) VerifC18Store() *inmem.Store { return b.store }
