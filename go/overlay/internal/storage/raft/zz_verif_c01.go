//go:build verif

package raft

import "context"

// Export shim for the C01 harness: run only the in-memory store's event publisher (without it
// the publisher's queue fills after 64 writes), not the gRPC forwarding server.
func (b *Backend) VerifC01RunStore(ctx context.Context) { b.store.Run(ctx) }
