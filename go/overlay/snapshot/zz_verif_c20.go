//go:build verif

// Export shim for the C20 correspondence harness (compiled in through `go build -overlay`,
// never written into the repository): gives the harness the unexported archive functions.
package snapshot

import (
	"io"

	"github.com/hashicorp/raft"
)

// VerifWrite is archive.go `write`.
func VerifWrite(out io.Writer, metadata *raft.SnapshotMeta, snap io.Reader) error {
	return write(out, metadata, snap)
}

// VerifRead is archive.go `read`.
func VerifRead(in io.Reader, metadata *raft.SnapshotMeta, snap io.Writer) error {
	return read(in, metadata, snap)
}
