//go:build verif

package agent

import (
	"context"
	"net/http"
	"net/http/httptest"
	"strings"

	"github.com/hashicorp/consul/agent/config"
	"github.com/hashicorp/consul/agent/token"
)

// Export shim for the C05 correspondence harness (/verif): the unmodified HTTP handler of /v1/txn
// (HTTPHandlers.Txn with convertOps, decodeBody, the size / count limits, the read / write routing and
// the 409 answer) on an Agent that has only what the handler touches: a RuntimeConfig, a token store
// and a delegate whose RPC method is supplied by the harness.

type verifC05Delegate struct {
	delegate // every other method: nil interface, never called by the handler
	rpc      func(method string, args, reply interface{}) error
}

func (d *verifC05Delegate) RPC(_ context.Context, method string, args interface{}, reply interface{}) error {
	return d.rpc(method, args, reply)
}

type VerifC05HTTP struct {
	h *HTTPHandlers
}

func VerifC05NewHTTP(txnMaxReqLen, kvMaxValueSize uint64, rpc func(method string, args, reply interface{}) error) *VerifC05HTTP {
	a := &Agent{
		config:   &config.RuntimeConfig{Datacenter: "dc1", TxnMaxReqLen: txnMaxReqLen, KVMaxValueSize: kvMaxValueSize},
		delegate: &verifC05Delegate{rpc: rpc},
		tokens:   new(token.Store),
	}
	return &VerifC05HTTP{h: &HTTPHandlers{agent: a}}
}

// Txn runs PUT /v1/txn with the given body and token. It returns what the handler returned (the value
// a 200 answer is rendered from, or an error — HTTPError for 4xx), and status / body if the handler
// wrote the answer itself (409 Conflict).
func (v *VerifC05HTTP) Txn(body, tok string, setContentLength bool) (ret interface{}, err error, status int, written string) {
	req := httptest.NewRequest("PUT", "/v1/txn", strings.NewReader(body))
	if !setContentLength {
		req.ContentLength = -1
	}
	if tok != "" {
		req.Header.Set("X-Consul-Token", tok)
	}
	rec := httptest.NewRecorder()
	ret, err = v.h.Txn(rec, req)
	if ret == nil && err == nil {
		return nil, nil, rec.Code, rec.Body.String()
	}
	return ret, err, 0, ""
}

// VerifC05HTTPStatus extracts the status of an HTTPError.
func VerifC05HTTPStatus(err error) (int, string, bool) {
	if e, ok := err.(HTTPError); ok {
		return e.StatusCode, e.Reason, true
	}
	return 0, "", false
}

var _ = http.StatusOK
