//go:build verif

package peerstream

import (
	"context"
	"sort"
	"time"

	"github.com/hashicorp/go-hclog"

	"github.com/hashicorp/consul/agent/cache"
	"github.com/hashicorp/consul/agent/connect"
	"github.com/hashicorp/consul/agent/consul/state"
	"github.com/hashicorp/consul/agent/consul/stream"
	"github.com/hashicorp/consul/agent/structs"
	"github.com/hashicorp/consul/agent/submatview"
	"github.com/hashicorp/consul/proto/private/pbpeerstream"
	"github.com/hashicorp/consul/proto/private/pbservice"
)

// Export shim for the C17 correspondence harness (/verif). Compiled only with -tags verif
// through a build overlay; nothing here exists in the tracked tree.

// VerifC17NewStatus returns a fresh stream status as the stream handler creates it.
func VerifC17NewStatus() *MutableStatus { return newMutableStatus(time.Now, true) }

// VerifC17ProcessResponse feeds one replication response to the real import path
// (processResponse -> handleUpsert -> handleUpdateService / handleUpsertExportedServiceList).
func (s *Server) VerifC17ProcessResponse(peerName, partition string, mst *MutableStatus,
	resp *pbpeerstream.ReplicationMessage_Response) (*pbpeerstream.ReplicationMessage, error) {
	return s.processResponse(peerName, partition, mst, resp)
}

// ---------------------------------------------------------------- exporting side, end to end

// VerifC17Exporter is an exporting cluster: a real state store with a real event publisher and a real
// subscriptionManager subscribed for one peer (plain services only: ConnectEnabled = false).
type VerifC17Exporter struct {
	Store  *state.Store
	Ch     <-chan cache.UpdateEvent
	Cancel context.CancelFunc
}

func VerifC17NewExporterStore() (*state.Store, *stream.EventPublisher, context.Context, context.CancelFunc) {
	publisher := stream.NewEventPublisher(10 * time.Second)
	gc, err := state.NewTombstoneGC(time.Second, time.Millisecond)
	if err != nil {
		panic(err)
	}
	store := state.NewStateStoreWithEventPublisher(gc, publisher)
	for _, e := range []error{
		publisher.RegisterHandler(state.EventTopicServiceHealth, store.ServiceHealthSnapshot, false),
		publisher.RegisterHandler(state.EventTopicServiceHealthConnect, store.ServiceHealthSnapshot, false),
		publisher.RegisterHandler(state.EventTopicCARoots, store.CARootsSnapshot, false),
	} {
		if e != nil {
			panic(e)
		}
	}
	ctx, cancel := context.WithCancel(context.Background())
	go publisher.Run(ctx)
	return store, publisher, ctx, cancel
}

// VerifC17Subscribe starts the real subscription manager for the peer on the exporting store; the returned
// channel carries what the stream handler would send to the peer.
func VerifC17Subscribe(ctx context.Context, store *state.Store, publisher *stream.EventPublisher, peerID, peerName string) <-chan cache.UpdateEvent {
	tracker := newResourceSubscriptionTracker()
	tracker.Subscribe(pbpeerstream.TypeURLExportedService)
	mgr := newSubscriptionManager(ctx, hclog.NewNullLogger(), Config{Datacenter: "dc1", ConnectEnabled: false},
		connect.TestTrustDomain, publisher, func() StateStore { return store }, tracker)
	return mgr.subscribe(ctx, peerID, peerName, "")
}

// VerifC17MakeResponse turns a published event into the replication response the stream handler sends.
func VerifC17MakeResponse(mst *MutableStatus, evt cache.UpdateEvent) (*pbpeerstream.ReplicationMessage_Response, bool, error) {
	if evt.CorrelationID == subExportedServiceList {
		r, err := makeExportedServiceListResponse(mst, evt)
		return r, true, err
	}
	r, err := makeServiceResponse(evt)
	return r, false, err
}

// VerifC17Flatten is the exporter's documented normalisation of one instance's checks.
func VerifC17Flatten(node, sid, sname string, checks []*pbservice.HealthCheck) []*pbservice.HealthCheck {
	return flattenChecks(node, sid, sname, nil, checks)
}

// ---------------------------------------------------------------- exporting side, duplicate suppression alone

type nopViewStore struct{}

func (nopViewStore) Get(context.Context, submatview.Request) (submatview.Result, error) {
	return submatview.Result{}, nil
}
func (nopViewStore) Notify(context.Context, submatview.Request, string, chan<- cache.UpdateEvent) error {
	return nil
}

// VerifC17Dedup drives the real handleEvent synchronously (watches are not started: the harness plays them).
type VerifC17Dedup struct {
	m   *subscriptionManager
	st  *subscriptionState
	pub chan cache.UpdateEvent
	// Sent collects what handleEvent published (what the stream handler would send); the caller may clear it
	Sent []cache.UpdateEvent
}

func VerifC17NewDedup() *VerifC17Dedup {
	d := &VerifC17Dedup{
		m:   &subscriptionManager{logger: hclog.NewNullLogger(), config: Config{Datacenter: "dc1"}, viewStore: nopViewStore{}},
		st:  newSubscriptionState("peer", ""),
		pub: make(chan cache.UpdateEvent, 16),
	}
	d.st.publicUpdateCh = d.pub
	d.st.updateCh = make(chan cache.UpdateEvent, 16)
	return d
}

func (d *VerifC17Dedup) drain() (n int) {
	for {
		select {
		case e := <-d.pub:
			d.Sent = append(d.Sent, e)
			n++
		default:
			return
		}
	}
}

// List plays one exported-service-list event; returns whether the list was sent and the watched services.
func (d *VerifC17Dedup) List(names []string) (sent bool, watched []string, err error) {
	evt := &structs.ExportedServiceList{}
	for _, n := range names {
		evt.Services = append(evt.Services, structs.ServiceNameFromString(n))
	}
	err = d.m.handleEvent(context.Background(), d.st, cache.UpdateEvent{CorrelationID: subExportedServiceList, Result: evt})
	sent = d.drain() > 0
	for sn := range d.st.watchedServices {
		watched = append(watched, sn.Name)
	}
	sort.Strings(watched)
	return
}

// Data plays one snapshot produced by the watch of a service; returns whether it was sent.
func (d *VerifC17Dedup) Data(name string, csn *pbservice.IndexedCheckServiceNodes) (sent bool, err error) {
	err = d.m.handleEvent(context.Background(), d.st, cache.UpdateEvent{CorrelationID: subExportedService + name, Result: csn})
	return d.drain() > 0, err
}
