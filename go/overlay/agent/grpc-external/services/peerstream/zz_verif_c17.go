//go:build verif

package peerstream

import (
	"time"

	"github.com/hashicorp/consul/proto/private/pbpeerstream"
)

// Export shim for the C17 correspondence harness (/verif). Compiled only with -tags verif
// through a build overlay; nothing here exists in the tracked tree.

// VerifC17NewStatus returns a fresh stream status as the stream handler creates it.
func VerifC17NewStatus() *MutableStatus { return newMutableStatus(time.Now, true) }

// VerifC17ProcessResponse feeds one replication response to the real import path
// (processResponse -> handleUpsert -> handleUpdateService / handleUpsertExportedServiceList).
func (s *Server) VerifC17ProcessResponse(peerName, partition string, mst *MutableStatus,
	resp *pbpeerstream.ReplicationMessage_Response) (*pbpeerstream.ReplicationMessage, error) {
	return s.processResponse(peerName, partition, mst, resp)
}
