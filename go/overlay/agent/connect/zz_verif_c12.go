//go:build verif

package connect

// VerifSpiffeRegexps12 returns the source text of the four anchored patterns of ParseCertURI in
// the order they are tried, so that the C12 harness can compare them with the literals the Lean
// model (CV.Ca.matchService / matchAgent / matchGateway / matchServer) was written from.
func VerifSpiffeRegexps12() []string {
	return []string{
		spiffeIDServiceRegexp.String(),
		spiffeIDAgentRegexp.String(),
		spiffeIDMeshGatewayRegexp.String(),
		spiffeIDServerRegexp.String(),
	}
}
