//go:build verif

package ca

// VerifConsulProviderID12 returns the id of the provider-state row a Consul CA provider reads
// its private key and root certificate from ("" for other providers).
func VerifConsulProviderID12(p Provider) string {
	if c, ok := p.(*ConsulProvider); ok && c != nil {
		return c.id
	}
	return ""
}
