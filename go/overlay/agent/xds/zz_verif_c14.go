//go:build verif

package xds

import (
	envoy_listener_v3 "github.com/envoyproxy/go-control-plane/envoy/config/listener/v3"
	envoy_rbac_v3 "github.com/envoyproxy/go-control-plane/envoy/config/rbac/v3"
	envoy_http_v3 "github.com/envoyproxy/go-control-plane/envoy/extensions/filters/network/http_connection_manager/v3"

	"github.com/hashicorp/go-hclog"

	"github.com/hashicorp/consul/agent/proxycfg"
	"github.com/hashicorp/consul/agent/structs"
	"github.com/hashicorp/consul/envoyextensions/xdscommon"
	"github.com/hashicorp/consul/proto/private/pbpeering"
)

// VerifPublicListener runs the listener code of a connect proxy (makeInboundListener), which
// injects the RBAC filter built from the snapshot's intentions.
func VerifPublicListener(snap *proxycfg.ConfigSnapshot) (*envoy_listener_v3.Listener, error) {
	g := NewResourceGenerator(hclog.NewNullLogger(), nil, false)
	m, err := g.makeInboundListener(snap, xdscommon.PublicListenerName)
	if err != nil {
		return nil, err
	}
	return m.(*envoy_listener_v3.Listener), nil
}

// Verif* export the unexported RBAC translation of agent/xds/rbac.go to the C14 harness.

// VerifRBACSource is rbacService without the embedded enterprise meta (CE: namespace and
// partition are always "default").
type VerifRBACSource struct {
	Name, Peer, ExportedPartition, TrustDomain string
}

func (s VerifRBACSource) svc() rbacService {
	return rbacService{
		ServiceName:       structs.NewServiceName(s.Name, nil),
		Peer:              s.Peer,
		ExportedPartition: s.ExportedPartition,
		TrustDomain:       s.TrustDomain,
	}
}

func verifSrc(s rbacService) VerifRBACSource {
	return VerifRBACSource{Name: s.Name, Peer: s.Peer, ExportedPartition: s.ExportedPartition, TrustDomain: s.TrustDomain}
}

func verifLocal(trustDomain, datacenter, partition string) rbacLocalInfo {
	return rbacLocalInfo{trustDomain: trustDomain, datacenter: datacenter, partition: partition}
}

// VerifMakeRBACRules is makeRBACRules.
func VerifMakeRBACRules(ixns structs.SimplifiedIntentions, defaultAllow bool, trustDomain, datacenter, partition string,
	isHTTP bool, bundles []*pbpeering.PeeringTrustBundle, providers map[string]*structs.JWTProviderConfigEntry) (*envoy_rbac_v3.RBAC, error) {
	return makeRBACRules(ixns, defaultAllow, verifLocal(trustDomain, datacenter, partition), isHTTP, bundles, providers)
}

// VerifMakeRBACNetworkFilter is the function the listeners code calls for TCP listeners.
func VerifMakeRBACNetworkFilter(ixns structs.SimplifiedIntentions, defaultAllow bool, trustDomain, datacenter, partition string,
	bundles []*pbpeering.PeeringTrustBundle) (*envoy_listener_v3.Filter, error) {
	return makeRBACNetworkFilter(ixns, defaultAllow, verifLocal(trustDomain, datacenter, partition), bundles)
}

// VerifMakeRBACHTTPFilter is the function the listeners code calls for HTTP-like listeners.
func VerifMakeRBACHTTPFilter(ixns structs.SimplifiedIntentions, defaultAllow bool, trustDomain, datacenter, partition string,
	bundles []*pbpeering.PeeringTrustBundle, providers map[string]*structs.JWTProviderConfigEntry) (*envoy_http_v3.HttpFilter, error) {
	return makeRBACHTTPFilter(ixns, defaultAllow, verifLocal(trustDomain, datacenter, partition), bundles, providers)
}

func VerifMakeSpiffePattern(s VerifRBACSource) string { return makeSpiffePattern(s.svc()) }

func VerifMakeSpiffeMeshGatewayPattern(trustDomain, partition string) string {
	return makeSpiffeMeshGatewayPattern(trustDomain, partition)
}

func VerifIxnSourceMatches(tester, against VerifRBACSource) bool {
	return ixnSourceMatches(tester.svc(), against.svc())
}

func VerifSimplifyNotSourceSlice(in []VerifRBACSource) []VerifRBACSource {
	l := make([]rbacService, len(in))
	for i, s := range in {
		l[i] = s.svc()
	}
	l = simplifyNotSourceSlice(l)
	out := make([]VerifRBACSource, len(l))
	for i, s := range l {
		out[i] = verifSrc(s)
	}
	return out
}

func VerifRemoveSameSourceIntentions(ixns structs.SimplifiedIntentions) structs.SimplifiedIntentions {
	return removeSameSourceIntentions(ixns)
}

func VerifConvertPermission(p *structs.IntentionPermission) *envoy_rbac_v3.Permission {
	return convertPermission(p)
}
