//go:build verif

package local

import "github.com/hashicorp/consul/agent/structs"

// VerifSvc / VerifChk expose one raw record of the agent's local state (including
// entries marked Deleted and the definition-less placeholders that updateSyncState
// creates for remote-only entries) to the C16 harness. Read-only.
type VerifSvc struct {
	ID      string
	Svc     *structs.NodeService // nil for a placeholder
	Token   string
	InSync  bool
	Deleted bool
	IsLocal bool
}

type VerifChk struct {
	ID      string
	Chk     *structs.HealthCheck // nil for a placeholder
	Token   string
	InSync  bool
	Deleted bool
	IsLocal bool
	Defer   bool
}

// VerifDump returns every record of the local state, with its sync flags.
func (l *State) VerifDump() (nodeInfoInSync bool, svcs []VerifSvc, chks []VerifChk) {
	l.RLock()
	defer l.RUnlock()
	for id, s := range l.services {
		svcs = append(svcs, VerifSvc{ID: id.ID, Svc: s.Service, Token: s.Token, InSync: s.InSync, Deleted: s.Deleted, IsLocal: s.IsLocallyDefined})
	}
	for id, c := range l.checks {
		chks = append(chks, VerifChk{ID: string(id.ID), Chk: c.Check, Token: c.Token, InSync: c.InSync, Deleted: c.Deleted, IsLocal: c.IsLocallyDefined, Defer: c.DeferCheck != nil})
	}
	return l.nodeInfoInSync, svcs, chks
}
