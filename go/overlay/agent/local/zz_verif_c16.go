//go:build verif

package local

import (
	"time"

	"github.com/hashicorp/consul/agent/structs"
)

// VerifSvc / VerifChk expose one raw record of the agent's local state (including
// entries marked Deleted and the definition-less placeholders that updateSyncState
// creates for remote-only entries) to the C16 harness. Read-only.
type VerifSvc struct {
	ID      string
	Svc     *structs.NodeService // nil for a placeholder
	Token   string
	InSync  bool
	Deleted bool
	IsLocal bool
}

type VerifChk struct {
	ID      string
	Chk     *structs.HealthCheck // nil for a placeholder
	Token   string
	InSync  bool
	Deleted bool
	IsLocal bool
	Defer   bool
}

// VerifDump returns every record of the local state, with its sync flags.
func (l *State) VerifDump() (nodeInfoInSync bool, svcs []VerifSvc, chks []VerifChk) {
	l.RLock()
	defer l.RUnlock()
	for id, s := range l.services {
		svcs = append(svcs, VerifSvc{ID: id.ID, Svc: s.Service, Token: s.Token, InSync: s.InSync, Deleted: s.Deleted, IsLocal: s.IsLocallyDefined})
	}
	for id, c := range l.checks {
		chks = append(chks, VerifChk{ID: string(id.ID), Chk: c.Check, Token: c.Token, InSync: c.InSync, Deleted: c.Deleted, IsLocal: c.IsLocallyDefined, Defer: c.DeferCheck != nil})
	}
	return l.nodeInfoInSync, svcs, chks
}

// VerifDeferProbe reports whether the deferred-output timer of a check is armed (non-nil) and
// whether it is a running timer. Probing stops the timer; a running one is re-armed with `rearm`.
func (l *State) VerifDeferProbe(id structs.CheckID, rearm time.Duration) (armed, running bool) {
	l.Lock()
	defer l.Unlock()
	c := l.checks[id]
	if c == nil || c.DeferCheck == nil {
		return false, false
	}
	if c.DeferCheck.Stop() {
		c.DeferCheck.Reset(rearm)
		return true, true
	}
	return true, false
}

// VerifDeferFire makes the (running) deferred-output timer of a check expire now, so that the
// real time.AfterFunc body of UpdateCheck runs. A stopped timer is left alone.
func (l *State) VerifDeferFire(id structs.CheckID) (armed, running bool) {
	return l.VerifDeferProbe(id, 0)
}

// VerifStopAllDefer stops every pending timer (end of a harness case).
func (l *State) VerifStopAllDefer() {
	l.Lock()
	defer l.Unlock()
	for _, c := range l.checks {
		if c.DeferCheck != nil {
			c.DeferCheck.Stop()
		}
	}
}
