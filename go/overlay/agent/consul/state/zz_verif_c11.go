//go:build verif

package state

import (
	"github.com/hashicorp/consul/agent/structs"
	"github.com/hashicorp/consul/proto/private/pbsubscribe"
)

// Export shims for the C11 harness (never part of a normal build).

// VerifC11EventSubject is the routing key publishEvent groups a ServiceHealth /
// ServiceHealthConnect event under: Subject().String() of a real payload for a service
// instance named `service`, with the overrideKey catalog_events.go sets for sidecar proxies
// (Proxy.DestinationServiceName) and terminating gateways (the linked service).
func VerifC11EventSubject(service, override, peer string) string {
	p := EventPayloadCheckServiceNode{
		Op: pbsubscribe.CatalogOp_Register,
		Value: &structs.CheckServiceNode{
			Node:    &structs.Node{Node: "n", PeerName: peer},
			Service: &structs.NodeService{ID: "i", Service: service, PeerName: peer},
		},
		overrideKey: override,
	}
	return p.Subject().String()
}

// VerifC11ConfigEntrySubject is the routing key of a config entry event.
func VerifC11ConfigEntrySubject(name string) string {
	p := EventPayloadConfigEntry{Op: pbsubscribe.ConfigEntryUpdate_Upsert,
		Value: &structs.ServiceConfigEntry{Kind: structs.ServiceDefaults, Name: name}}
	return p.Subject().String()
}
