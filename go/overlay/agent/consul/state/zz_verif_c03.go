//go:build verif

package state

import (
	"github.com/hashicorp/consul/agent/structs"
)

// Export shim for the shared store correspondence harness (/verif, properties C03 and C04; helper
// package internal/verifharness/storex). Compiled only with -tags verif through a build overlay;
// nothing here exists in the tracked tree.

// VerifSessionCheck is an exported copy of a session_checks row.
type VerifSessionCheck struct {
	Node, CheckID, Session string
}

// VerifStoreTables holds every row of the tables the store model covers, in the iteration order
// of each table's primary ("id") index, straight from memdb.
type VerifStoreTables struct {
	KVs           []*structs.DirEntry
	Tombstones    []*Tombstone
	Sessions      []*structs.Session
	SessionChecks []VerifSessionCheck
	Nodes         []*structs.Node
	Services      []*structs.ServiceNode
	Checks        []*structs.HealthCheck
	Queries       []*structs.PreparedQuery
	Index         []*IndexEntry
}

// VerifStoreTables reads all modelled tables inside one read transaction.
func (s *Store) VerifStoreTables() VerifStoreTables {
	tx := s.db.ReadTxn()
	defer tx.Abort()
	var t VerifStoreTables
	walk := func(table, index string, f func(interface{})) {
		it, err := tx.Get(table, index)
		if err != nil {
			panic(err)
		}
		for r := it.Next(); r != nil; r = it.Next() {
			f(r)
		}
	}
	walk(tableKVs, indexID+"_prefix", func(r interface{}) { t.KVs = append(t.KVs, r.(*structs.DirEntry)) })
	walk(tableTombstones, indexID, func(r interface{}) { t.Tombstones = append(t.Tombstones, r.(*Tombstone)) })
	walk(tableSessions, indexID, func(r interface{}) { t.Sessions = append(t.Sessions, r.(*structs.Session)) })
	walk(tableSessionChecks, indexID, func(r interface{}) {
		m := r.(*sessionCheck)
		t.SessionChecks = append(t.SessionChecks, VerifSessionCheck{Node: m.Node, CheckID: string(m.CheckID.ID), Session: m.Session})
	})
	walk(tableNodes, indexID, func(r interface{}) { t.Nodes = append(t.Nodes, r.(*structs.Node)) })
	walk(tableServices, indexID, func(r interface{}) { t.Services = append(t.Services, r.(*structs.ServiceNode)) })
	walk(tableChecks, indexID, func(r interface{}) { t.Checks = append(t.Checks, r.(*structs.HealthCheck)) })
	walk("prepared-queries", "id", func(r interface{}) { t.Queries = append(t.Queries, toPreparedQuery(r)) })
	walk(tableIndex, indexID, func(r interface{}) { t.Index = append(t.Index, r.(*IndexEntry)) })
	return t
}
