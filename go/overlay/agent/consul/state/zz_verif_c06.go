//go:build verif

package state

import (
	"github.com/hashicorp/consul/agent/structs"
)

// Export shim for the C06 harness (/verif): the raw rows of the gateway-services table (the public
// DumpGatewayServices hides wildcard rows and rows whose protocol does not match). Compiled only with
// -tags verif through a build overlay.
func (s *Store) VerifC06GatewayServiceRows() []*structs.GatewayService {
	tx := s.db.ReadTxn()
	defer tx.Abort()
	it, err := tx.Get(tableGatewayServices, indexID)
	if err != nil {
		panic(err)
	}
	var out []*structs.GatewayService
	for r := it.Next(); r != nil; r = it.Next() {
		out = append(out, r.(*structs.GatewayService))
	}
	return out
}
