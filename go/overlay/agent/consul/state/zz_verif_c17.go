//go:build verif

package state

import (
	"github.com/hashicorp/consul/agent/structs"
)

// Export shim for the C17 correspondence harness (/verif). Compiled only with -tags verif
// through a build overlay; nothing here exists in the tracked tree.

// VerifC17Catalog returns every row of the nodes, services and checks tables (all peers),
// in primary-index order, straight from memdb.
func (s *Store) VerifC17Catalog() (nodes []*structs.Node, svcs []*structs.ServiceNode, chks []*structs.HealthCheck) {
	tx := s.db.ReadTxn()
	defer tx.Abort()
	it, err := tx.Get(tableNodes, indexID)
	if err != nil {
		panic(err)
	}
	for r := it.Next(); r != nil; r = it.Next() {
		nodes = append(nodes, r.(*structs.Node))
	}
	it, err = tx.Get(tableServices, indexID)
	if err != nil {
		panic(err)
	}
	for r := it.Next(); r != nil; r = it.Next() {
		svcs = append(svcs, r.(*structs.ServiceNode))
	}
	it, err = tx.Get(tableChecks, indexID)
	if err != nil {
		panic(err)
	}
	for r := it.Next(); r != nil; r = it.Next() {
		chks = append(chks, r.(*structs.HealthCheck))
	}
	return
}
