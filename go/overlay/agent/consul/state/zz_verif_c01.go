//go:build verif

package state

import "time"

// Export shim for the C01 harness (/verif), compiled only with -tags verif through a build overlay.

// VerifC01ExpireLockDelays empties this server's lock-delay map, as the passing of (this server's)
// time does: the map is leader-local state that no replicated value may depend on.
func (s *Store) VerifC01ExpireLockDelays() {
	s.lockDelay.lock.Lock()
	s.lockDelay.delay = make(map[string]time.Time)
	s.lockDelay.lock.Unlock()
}

// VerifC01LockDelayKeys reports how many keys currently carry a lock delay on this server.
func (s *Store) VerifC01LockDelayKeys() int {
	s.lockDelay.lock.RLock()
	defer s.lockDelay.lock.RUnlock()
	return len(s.lockDelay.delay)
}
