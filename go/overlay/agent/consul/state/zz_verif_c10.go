//go:build verif

package state

import "sort"

// Export shim for the C10 correspondence harness (/verif). Compiled only with -tags verif
// through a build overlay; nothing here exists in the tracked tree.

// VerifC10Tables lists every memdb table of the state store schema, sorted by name.
func (s *Store) VerifC10Tables() []string {
	names := make([]string, 0, len(s.schema.Tables))
	for n := range s.schema.Tables {
		names = append(names, n)
	}
	sort.Strings(names)
	return names
}

// VerifC10Rows returns every row of one table in primary-index order, straight from memdb
// (one read transaction, no filtering, no copying).
func (s *Store) VerifC10Rows(table string) []interface{} {
	tx := s.db.ReadTxn()
	defer tx.Abort()
	it, err := tx.Get(table, indexID)
	if err != nil {
		panic(err)
	}
	var rows []interface{}
	for r := it.Next(); r != nil; r = it.Next() {
		rows = append(rows, r)
	}
	return rows
}
