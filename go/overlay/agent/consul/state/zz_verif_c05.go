//go:build verif

package state

import (
	"encoding/json"
	"fmt"
	"sort"
)

// Export shim for the C05 correspondence harness (/verif). Compiled only with -tags verif through a
// build overlay; nothing here exists in the tracked tree.

// VerifC05Row is one memdb row: the stored object itself (for identity comparison) and a deep
// serialisation of its current content (maps and slices inside the row included), so that an
// in-place mutation of a committed object is visible as a change of Ser under an unchanged Obj.
type VerifC05Row struct {
	Table string
	Obj   interface{}
	Ser   string
}

func verifC05Ser(obj interface{}) string {
	if b, err := json.Marshal(obj); err == nil {
		return fmt.Sprintf("%T%s", obj, b)
	}
	return fmt.Sprintf("%T%+v", obj, obj)
}

// VerifC05FullRows returns every row of EVERY table of the schema (tables sorted by name, rows in
// primary-index order), read inside one read transaction and serialised by deep value.
func (s *Store) VerifC05FullRows() []VerifC05Row {
	names := make([]string, 0, len(s.schema.Tables))
	for n := range s.schema.Tables {
		names = append(names, n)
	}
	sort.Strings(names)
	tx := s.db.ReadTxn()
	defer tx.Abort()
	var rows []VerifC05Row
	for _, t := range names {
		it, err := tx.Get(t, indexID)
		if err != nil {
			panic(err)
		}
		for r := it.Next(); r != nil; r = it.Next() {
			rows = append(rows, VerifC05Row{Table: t, Obj: r, Ser: verifC05Ser(r)})
		}
	}
	return rows
}
