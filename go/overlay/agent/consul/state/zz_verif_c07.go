//go:build verif

package state

import (
	"sort"

	"github.com/hashicorp/consul/agent/structs"
)

// Export shim for the C07 correspondence harness (/verif, catalog integrity). Compiled only with
// -tags verif through a build overlay; nothing here exists in the tracked tree.

// VerifC07Topology is an exported copy of a mesh-topology row (Refs sorted).
type VerifC07Topology struct {
	Upstream, Downstream structs.ServiceName
	Refs                 []string
	structs.RaftIndex
}

// VerifC07Tables holds every row of the catalog tables and of the tables derived from them, in the
// iteration order of each table's primary ("id") index, read inside ONE read transaction.
type VerifC07Tables struct {
	Nodes       []*structs.Node
	Services    []*structs.ServiceNode
	Checks      []*structs.HealthCheck
	Coordinates []*structs.Coordinate
	Sessions    []*structs.Session
	KindNames   []*KindServiceName
	VIPs        []ServiceVirtualIP
	FreeVIPs    []FreeVirtualIP
	Usage       []*UsageEntry
	Config      []structs.ConfigEntry
	Gateway     []*structs.GatewayService
	Topology    []VerifC07Topology
	SysMeta     []*structs.SystemMetadataEntry
	Index       []*IndexEntry
}

func (s *Store) VerifC07Tables() VerifC07Tables {
	tx := s.db.ReadTxn()
	defer tx.Abort()
	var t VerifC07Tables
	walk := func(table, index string, f func(interface{})) {
		it, err := tx.Get(table, index)
		if err != nil {
			panic(err)
		}
		for r := it.Next(); r != nil; r = it.Next() {
			f(r)
		}
	}
	walk(tableNodes, indexID, func(r interface{}) { t.Nodes = append(t.Nodes, r.(*structs.Node)) })
	walk(tableServices, indexID, func(r interface{}) { t.Services = append(t.Services, r.(*structs.ServiceNode)) })
	walk(tableChecks, indexID, func(r interface{}) { t.Checks = append(t.Checks, r.(*structs.HealthCheck)) })
	walk(tableCoordinates, indexID, func(r interface{}) { t.Coordinates = append(t.Coordinates, r.(*structs.Coordinate)) })
	walk(tableSessions, indexID, func(r interface{}) { t.Sessions = append(t.Sessions, r.(*structs.Session)) })
	walk(tableKindServiceNames, indexID, func(r interface{}) { t.KindNames = append(t.KindNames, r.(*KindServiceName)) })
	walk(tableServiceVirtualIPs, indexID, func(r interface{}) { t.VIPs = append(t.VIPs, r.(ServiceVirtualIP)) })
	walk(tableFreeVirtualIPs, indexID, func(r interface{}) { t.FreeVIPs = append(t.FreeVIPs, r.(FreeVirtualIP)) })
	walk(tableUsage, indexID, func(r interface{}) { t.Usage = append(t.Usage, r.(*UsageEntry)) })
	walk(tableConfigEntries, indexID, func(r interface{}) { t.Config = append(t.Config, r.(structs.ConfigEntry)) })
	walk(tableGatewayServices, indexID, func(r interface{}) { t.Gateway = append(t.Gateway, r.(*structs.GatewayService)) })
	walk(tableMeshTopology, indexID, func(r interface{}) {
		m := r.(*upstreamDownstream)
		x := VerifC07Topology{Upstream: m.Upstream, Downstream: m.Downstream, RaftIndex: m.RaftIndex}
		for k := range m.Refs {
			x.Refs = append(x.Refs, k)
		}
		sort.Strings(x.Refs)
		t.Topology = append(t.Topology, x)
	})
	walk(tableSystemMetadata, indexID, func(r interface{}) { t.SysMeta = append(t.SysMeta, r.(*structs.SystemMetadataEntry)) })
	walk(tableIndex, indexID, func(r interface{}) { t.Index = append(t.Index, r.(*IndexEntry)) })
	return t
}
