//go:build verif

package consul

import (
	"github.com/hashicorp/go-hclog"

	"github.com/hashicorp/consul/acl/resolver"
	"github.com/hashicorp/consul/agent/consul/fsm"
	"github.com/hashicorp/consul/agent/structs"
)

// VerifACLEnv is the part of a Server that token resolution touches (config, FSM/state store,
// loggers, the real ACLResolver), built without Raft/Serf/RPC for the C09 harness. Nothing here
// re-implements behaviour: every method forwards to the unexported production function.
type VerifACLEnv struct {
	srv *Server
}

// VerifNewACLEnv wires a real ACLResolver. backend == nil selects the production
// serverACLResolverBackend (identities come from the state store of f, primary datacenter);
// otherwise the given backend is used (client agents / secondaries resolve through RPC).
func VerifNewACLEnv(f *fsm.FSM, backend ACLResolverBackend, settings ACLResolverSettings) (*VerifACLEnv, error) {
	logger := hclog.NewNullLogger()
	s := &Server{
		config:  &Config{Datacenter: settings.Datacenter, PrimaryDatacenter: settings.Datacenter, NodeName: settings.NodeName},
		fsm:     f,
		loggers: newLoggerStore(logger),
	}
	s.config.ACLResolverSettings = settings
	if backend == nil {
		backend = &serverACLResolverBackend{Server: s}
	}
	r, err := NewACLResolver(&ACLResolverConfig{
		Config: settings,
		Logger: logger,
		CacheConfig: &structs.ACLCachesConfig{
			Identities: 64, Policies: 64, ParsedPolicies: 64, Authorizers: 64, Roles: 64,
		},
		Backend:   backend,
		ACLConfig: newACLConfig(&partitionInfoNoop{}, logger),
	})
	if err != nil {
		return nil, err
	}
	s.ACLResolver = r
	return &VerifACLEnv{srv: s}, nil
}

func (e *VerifACLEnv) ResolveToken(secret string) (resolver.Result, error) {
	return e.srv.ACLResolver.ResolveToken(secret)
}

// Mask runs maskResultsFilteredByACLs on a response meta whose flag is `flag` and returns the flag
// the caller would see.
func (e *VerifACLEnv) Mask(token string, flag bool) bool {
	m := &structs.QueryMeta{ResultsFilteredByACLs: flag}
	maskResultsFilteredByACLs(token, m, e.srv)
	return m.ResultsFilteredByACLs
}

// WaitIdentityFetch returns once no identity fetch for the token is in flight (async-cache runs
// the fetch in the background; singleflight lets us join it).
func (e *VerifACLEnv) WaitIdentityFetch(token string) {
	e.srv.ACLResolver.identityGroup.Do(token, func() (interface{}, error) { return nil, nil })
}

// VerifIsNotFound / VerifIsRemote classify resolution errors for the harness.
func VerifIsRemoteError(err error) bool { return IsACLRemoteError(err) }
