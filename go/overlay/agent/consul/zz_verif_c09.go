//go:build verif

package consul

import (
	"fmt"
	"time"

	"github.com/hashicorp/go-hclog"
	"github.com/hashicorp/raft"

	"github.com/hashicorp/consul/acl"
	"github.com/hashicorp/consul/agent/consul/state"
	"github.com/hashicorp/consul/agent/rpc/middleware"

	"github.com/hashicorp/consul/acl/resolver"
	"github.com/hashicorp/consul/agent/consul/fsm"
	"github.com/hashicorp/consul/agent/structs"
	"github.com/hashicorp/consul/agent/token"
)

// VerifACLEnv is the part of a Server that token resolution touches (config, FSM/state store,
// loggers, the real ACLResolver), built without Raft/Serf/RPC for the C09 harness. Nothing here
// re-implements behaviour: every method forwards to the unexported production function.
type VerifACLEnv struct {
	srv *Server
}

// VerifNewACLEnv wires a real ACLResolver. backend == nil selects the production
// serverACLResolverBackend (identities come from the state store of f, primary datacenter);
// otherwise the given backend is used (client agents / secondaries resolve through RPC).
func VerifNewACLEnv(f *fsm.FSM, backend ACLResolverBackend, settings ACLResolverSettings) (*VerifACLEnv, error) {
	return VerifNewACLEnvTokens(f, backend, settings, nil)
}

// VerifNewACLEnvTokens is VerifNewACLEnv with a token store of locally managed tokens (agent recovery
// token); nil = none, as before.
func VerifNewACLEnvTokens(f *fsm.FSM, backend ACLResolverBackend, settings ACLResolverSettings, tokens *token.Store) (*VerifACLEnv, error) {
	logger := hclog.NewNullLogger()
	s := &Server{
		config:  &Config{Datacenter: settings.Datacenter, PrimaryDatacenter: settings.Datacenter, NodeName: settings.NodeName},
		fsm:     f,
		loggers: newLoggerStore(logger),
	}
	s.config.ACLResolverSettings = settings
	s.logger = hclog.NewInterceptLogger(&hclog.LoggerOptions{Level: hclog.Off})
	if backend == nil {
		backend = &serverACLResolverBackend{Server: s}
	}
	r, err := NewACLResolver(&ACLResolverConfig{
		Config: settings,
		Logger: logger,
		CacheConfig: &structs.ACLCachesConfig{
			Identities: 64, Policies: 64, ParsedPolicies: 64, Authorizers: 64, Roles: 64,
		},
		Backend:   backend,
		ACLConfig: newACLConfig(&partitionInfoNoop{}, logger),
		Tokens:    tokens,
	})
	if err != nil {
		return nil, err
	}
	s.ACLResolver = r
	return &VerifACLEnv{srv: s}, nil
}

func (e *VerifACLEnv) ResolveToken(secret string) (resolver.Result, error) {
	return e.srv.ACLResolver.ResolveToken(secret)
}

// FilterACL is the production filterACL: resolve the token, filter subj with its authorizer.
func (e *VerifACLEnv) FilterACL(secret string, subj interface{}) error {
	return e.srv.filterACL(secret, subj)
}

// Mask runs maskResultsFilteredByACLs on a response meta whose flag is `flag` and returns the flag
// the caller would see.
func (e *VerifACLEnv) Mask(token string, flag bool) bool {
	m := &structs.QueryMeta{ResultsFilteredByACLs: flag}
	maskResultsFilteredByACLs(token, m, e.srv)
	return m.ResultsFilteredByACLs
}

// WaitIdentityFetch returns once no identity fetch for the token is in flight (async-cache runs
// the fetch in the background; singleflight lets us join it).
func (e *VerifACLEnv) WaitIdentityFetch(token string) {
	e.srv.ACLResolver.identityGroup.Do(token, func() (interface{}, error) { return nil, nil })
}

// VerifIsNotFound / VerifIsRemote classify resolution errors for the harness.
func VerifIsRemoteError(err error) bool { return IsACLRemoteError(err) }

// ResolveTokenAndDefaultMeta is the entry point RPC endpoints and agents use.
func (e *VerifACLEnv) ResolveTokenAndDefaultMeta(secret string) (resolver.Result, error) {
	var ctx acl.AuthorizerContext
	return e.srv.ACLResolver.ResolveTokenAndDefaultMeta(secret, nil, &ctx)
}

// ResolvePolicies / ResolveRoles run the cores of ACL.PolicyResolve / ACL.RoleResolve and return the
// identity they resolved.
func (e *VerifACLEnv) ResolvePolicies(secret string) (structs.ACLIdentity, error) {
	id, _, err := e.srv.ACLResolver.resolveTokenToIdentityAndPolicies(secret)
	if err != nil {
		return nil, err
	}
	return id, nil
}
func (e *VerifACLEnv) ResolveRoles(secret string) (structs.ACLIdentity, error) {
	id, _, err := e.srv.ACLResolver.resolveTokenToIdentityAndRoles(secret)
	if err != nil {
		return nil, err
	}
	return id, nil
}

// ---- a server whose Raft is real (single voter, in-memory transport and stores): the ACL RPC
// endpoints and the token reaper run unmodified on it.

func VerifNewACLRaftEnv(f *fsm.FSM, settings ACLResolverSettings) (*VerifACLEnv, error) {
	env, err := VerifNewACLEnv(f, nil, settings)
	if err != nil {
		return nil, err
	}
	s := env.srv
	s.config.ACLsEnabled = true
	s.config.MaxQueryTime = time.Second
	s.config.DefaultQueryTime = time.Second
	s.config.RPCHoldTimeout = time.Second
	s.logger = hclog.NewInterceptLogger(&hclog.LoggerOptions{Level: hclog.Off})
	s.shutdownCh = make(chan struct{})
	s.rpcRecorder = middleware.NewRequestRecorder(hclog.NewNullLogger(), s.IsLeader, settings.Datacenter)

	conf := raft.DefaultConfig()
	conf.LocalID = "n1"
	conf.HeartbeatTimeout = 50 * time.Millisecond
	conf.ElectionTimeout = 50 * time.Millisecond
	conf.LeaderLeaseTimeout = 50 * time.Millisecond
	conf.CommitTimeout = 2 * time.Millisecond
	conf.Logger = hclog.NewNullLogger()
	store := raft.NewInmemStore()
	snaps := raft.NewInmemSnapshotStore()
	addr, trans := raft.NewInmemTransport("")
	if err := raft.BootstrapCluster(conf, store, store, snaps, trans,
		raft.Configuration{Servers: []raft.Server{{ID: conf.LocalID, Address: addr}}}); err != nil {
		return nil, err
	}
	r, err := raft.NewRaft(conf, f, store, store, snaps, trans)
	if err != nil {
		return nil, err
	}
	s.raft = r
	for i := 0; i < 15000 && r.State() != raft.Leader; i++ { // >= 30 s: a loaded machine must not fail the set-up
		time.Sleep(2 * time.Millisecond)
	}
	if r.State() != raft.Leader {
		return nil, fmt.Errorf("in-memory raft did not elect itself")
	}
	return env, nil
}

func (e *VerifACLEnv) Shutdown() {
	if e.srv.raft != nil {
		e.srv.raft.Shutdown().Error()
	}
}

func (e *VerifACLEnv) State() *state.Store { return e.srv.fsm.State() }

// RaftApply sends a command through Raft like the RPC write endpoints do.
func (e *VerifACLEnv) RaftApply(t structs.MessageType, msg interface{}) error {
	_, err := e.srv.raftApplyMsgpack(t, msg)
	return err
}

// TokenRead is ACL.TokenRead by secret ID.
func (e *VerifACLEnv) TokenRead(secret string) (*structs.ACLToken, error) {
	ep := &ACL{srv: e.srv, logger: hclog.NewNullLogger()}
	args := &structs.ACLTokenGetRequest{TokenID: secret, TokenIDType: structs.ACLTokenSecret, Datacenter: e.srv.config.Datacenter,
		QueryOptions: structs.QueryOptions{Token: secret}}
	var reply structs.ACLTokenResponse
	if err := ep.TokenRead(args, &reply); err != nil {
		return nil, err
	}
	return reply.Token, nil
}

// TokenList is ACL.TokenList (global and local) as seen with the requester's token.
func (e *VerifACLEnv) TokenList(requester string) ([]*structs.ACLTokenListStub, error) {
	ep := &ACL{srv: e.srv, logger: hclog.NewNullLogger()}
	args := &structs.ACLTokenListRequest{IncludeLocal: true, IncludeGlobal: true, Datacenter: e.srv.config.Datacenter,
		QueryOptions: structs.QueryOptions{Token: requester}}
	var reply structs.ACLTokenListResponse
	if err := ep.TokenList(args, &reply); err != nil {
		return nil, err
	}
	return reply.Tokens, nil
}

// Reap is one run of the expired-token reaper for global tokens.
func (e *VerifACLEnv) Reap() (int, error) { return e.srv.reapExpiredGlobalACLTokens() }

// ---- read endpoints, unmodified, on the Raft-backed partial server (C09: the endpoint glue around
// filterACL / FilterDirEnt / maskResultsFilteredByACLs). Each helper only fills in the request.

func (e *VerifACLEnv) qopts(tok string) structs.QueryOptions {
	return structs.QueryOptions{Token: tok}
}

func (e *VerifACLEnv) EpListNodes(tok string) (*structs.IndexedNodes, error) {
	var reply structs.IndexedNodes
	ep := &Catalog{srv: e.srv, logger: hclog.NewNullLogger()}
	err := ep.ListNodes(&structs.DCSpecificRequest{Datacenter: e.srv.config.Datacenter, QueryOptions: e.qopts(tok)}, &reply)
	return &reply, err
}

func (e *VerifACLEnv) EpServiceNodes(tok, service string) (*structs.IndexedServiceNodes, error) {
	var reply structs.IndexedServiceNodes
	ep := &Catalog{srv: e.srv, logger: hclog.NewNullLogger()}
	err := ep.ServiceNodes(&structs.ServiceSpecificRequest{Datacenter: e.srv.config.Datacenter, ServiceName: service, QueryOptions: e.qopts(tok)}, &reply)
	return &reply, err
}

func (e *VerifACLEnv) EpNodeServices(tok, node string) (*structs.IndexedNodeServices, error) {
	var reply structs.IndexedNodeServices
	ep := &Catalog{srv: e.srv, logger: hclog.NewNullLogger()}
	err := ep.NodeServices(&structs.NodeSpecificRequest{Datacenter: e.srv.config.Datacenter, Node: node, QueryOptions: e.qopts(tok)}, &reply)
	return &reply, err
}

func (e *VerifACLEnv) EpHealthServiceNodes(tok, service string) (*structs.IndexedCheckServiceNodes, error) {
	var reply structs.IndexedCheckServiceNodes
	ep := &Health{srv: e.srv, logger: hclog.NewNullLogger()}
	err := ep.ServiceNodes(&structs.ServiceSpecificRequest{Datacenter: e.srv.config.Datacenter, ServiceName: service, QueryOptions: e.qopts(tok)}, &reply)
	return &reply, err
}

func (e *VerifACLEnv) EpChecksInState(tok string) (*structs.IndexedHealthChecks, error) {
	var reply structs.IndexedHealthChecks
	ep := &Health{srv: e.srv, logger: hclog.NewNullLogger()}
	err := ep.ChecksInState(&structs.ChecksInStateRequest{Datacenter: e.srv.config.Datacenter, State: "any", QueryOptions: e.qopts(tok)}, &reply)
	return &reply, err
}

func (e *VerifACLEnv) EpSessionList(tok string) (*structs.IndexedSessions, error) {
	var reply structs.IndexedSessions
	ep := &Session{srv: e.srv, logger: hclog.NewNullLogger()}
	err := ep.List(&structs.SessionSpecificRequest{Datacenter: e.srv.config.Datacenter, QueryOptions: e.qopts(tok)}, &reply)
	return &reply, err
}

func (e *VerifACLEnv) EpKVList(tok, prefix string) (*structs.IndexedDirEntries, error) {
	var reply structs.IndexedDirEntries
	ep := &KVS{srv: e.srv, logger: hclog.NewNullLogger()}
	err := ep.List(&structs.KeyRequest{Datacenter: e.srv.config.Datacenter, Key: prefix, QueryOptions: e.qopts(tok)}, &reply)
	return &reply, err
}

func (e *VerifACLEnv) EpNodeDump(tok string) (*structs.IndexedNodeDump, error) {
	var reply structs.IndexedNodeDump
	ep := &Internal{srv: e.srv, logger: hclog.NewNullLogger()}
	err := ep.NodeDump(&structs.DCSpecificRequest{Datacenter: e.srv.config.Datacenter, QueryOptions: e.qopts(tok)}, &reply)
	return &reply, err
}

func (e *VerifACLEnv) EpCoordinates(tok string) (*structs.IndexedCoordinates, error) {
	var reply structs.IndexedCoordinates
	ep := &Coordinate{srv: e.srv, logger: hclog.NewNullLogger()}
	err := ep.ListNodes(&structs.DCSpecificRequest{Datacenter: e.srv.config.Datacenter, QueryOptions: e.qopts(tok)}, &reply)
	return &reply, err
}
